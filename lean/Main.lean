/-
pgdriver — line-protocol driver around the executable model (PGModel).
One request per line on stdin, one answer line on stdout; anything it cannot parse is answered
with `bad-request` (never a default).  See DESIGN.md §2 for the protocol.
-/
import PGModel

open PG

/-! ## parsing -/

def parseRat? (s : String) : Option Rat :=
  match s.splitOn "/" with
  | [a] => a.toInt?.map fun (x : Int) => (x : Rat)
  | [a, b] => match a.toInt?, b.toNat? with
    | some x, some y => if y = 0 then none else some (mkRat x y)
    | _, _ => none
  | _ => none

def parseRatInf? (s : String) : Option (Option Rat) :=
  if s == "inf" then some none else (parseRat? s).map some

def parseList? {α} (f : String → Option α) (s : String) : Option (List α) :=
  if s == "-" || s == "" then some [] else (s.splitOn ",").mapM f

def parseModel? (s : String) : Option Model :=
  match s.splitOn ":" with
  | ["kingman"] => some .kingman
  | ["beta", a, st] => (parseRat? a).map fun a => .beta a (st == "1")
  | ["dirac", psi, c, st] => match parseRat? psi, parseRat? c with
    | some p, some c => some (.dirac p c (st == "1"))
    | _, _ => none
  | _ => none

def showRat (q : Rat) : String := if q.den = 1 then toString q.num else s!"{q.num}/{q.den}"

def showNats (l : List Nat) : String := ",".intercalate (l.map toString)

def showArr3 (a : List (List (List Nat))) : String :=
  "/".intercalate (a.map fun loc => "|".intercalate (loc.map showNats))

def showState (s : State) : String := showArr3 s.lin ++ ";" ++ showArr3 s.lnk

/-- parse a reward in prefix notation; returns the reward and the remaining tokens -/
partial def parseReward? : List String → Option (Reward × List String)
  | [] => none
  | t :: rest =>
    let atom (r : Reward) := some (r, rest)
    let many (k : Nat) (mk : List Reward → Reward) : Option (Reward × List String) := do
      let mut rs : List Reward := []
      let mut toks := rest
      for _ in [0:k] do
        let (r, toks') ← parseReward? toks
        rs := rs ++ [r]
        toks := toks'
      return (mk rs, toks)
    match t.splitOn ":" with
    | ["th"] => atom .treeHeight
    | ["tth"] => atom .totalTreeHeight
    | ["tbl"] => atom .totalBranchLength
    | ["unit"] => atom .unit
    | ["sfs", i] => i.toNat?.bind fun i => atom (.unfoldedSFS i)
    | ["fsfs", i] => i.toNat?.bind fun i => atom (.foldedSFS i)
    | ["lin", i] => i.toNat?.bind fun i => atom (.lineage i)
    | ["deme", i] => i.toNat?.bind fun i => atom (.deme i)
    | ["locus", i] => i.toNat?.bind fun i => atom (.locus i)
    | ["tblloc", i] => i.toNat?.bind fun i => atom (.tblLocus i)
    | ["P", k] => k.toNat?.bind fun k => many k .prod
    | ["S", k] => k.toNat?.bind fun k => many k .sum
    | ["C", k] => k.toNat?.bind fun k => many k Reward.combined
    | _ => none

def parseRewards? : Nat → List String → Option (List Reward × List String)
  | 0, toks => some ([], toks)
  | k + 1, toks => do
    let (r, toks') ← parseReward? toks
    let (rs, toks'') ← parseRewards? k toks'
    return (r :: rs, toks'')

def parseKey? (s : String) : Option Key :=
  if s.startsWith "s" then (s.drop 1).toString.toNat?.map Key.size
  else if s.startsWith "m" then
    match (s.drop 1).toString.splitOn "_" with
    | [a, b] => match a.toNat?, b.toNat? with
      | some a, some b => some (.mig a b)
      | _, _ => none
    | _ => none
  else none

def showKey : Key → String
  | .size p => s!"s{p}"
  | .mig a b => s!"m{a}_{b}"

/-- events: `D <ntimes> (<time> <nkv> (<key> <val>)*)*` | `X <time> <mult> <anc> <derived>` |
`Z <nparts> (<coeffs> <start> <stop> <key> <step>)*` -/
partial def parseEvents? : Nat → List String → Option (List Event × List String)
  | 0, toks => some ([], toks)
  | n + 1, toks => do
    let (ev, toks') ← (match toks with
      | "D" :: nt :: rest => do
        let nt ← nt.toNat?
        let mut toks := rest
        let mut changes : List (Rat × List (Key × Rat)) := []
        for _ in [0:nt] do
          match toks with
          | t :: nkv :: rest' =>
            let t ← parseRat? t
            let nkv ← nkv.toNat?
            let mut kvs : List (Key × Rat) := []
            let mut r := rest'
            for _ in [0:nkv] do
              match r with
              | k :: v :: r' =>
                let k ← parseKey? k
                let v ← parseRat? v
                kvs := kvs ++ [(k, v)]
                r := r'
              | _ => none
            changes := changes ++ [(t, kvs)]
            toks := r
          | _ => none
        pure (Event.discrete changes, toks)
      | "X" :: t :: mult :: anc :: derived :: rest => do
        let t ← parseRat? t
        let mult ← parseRat? mult
        let anc ← anc.toNat?
        let derived ← parseList? String.toNat? derived
        pure (Event.split t derived anc mult, rest)
      | "Z" :: np :: rest => do
        let np ← np.toNat?
        let mut toks := rest
        let mut parts : List (List Rat × Rat × Option Rat × Key × Rat) := []
        for _ in [0:np] do
          match toks with
          | cs :: st :: en :: k :: step :: rest' =>
            let cs ← parseList? parseRat? cs
            let st ← parseRat? st
            let en ← parseRatInf? en
            let k ← parseKey? k
            let step ← parseRat? step
            parts := parts ++ [(cs, st, en, k, step)]
            toks := rest'
          | _ => none
        pure (Event.discretised parts, toks)
      | _ => none : Option (Event × List String))
    let (evs, toks'') ← parseEvents? n toks'
    return (ev :: evs, toks'')

/-! ## driver state -/

structure Ctx where
  model : Model := .kingman
  nVec : List Nat := []
  nTot : Nat := 0
  nLoci : Nat := 1
  nUnl : Nat := 0
  epochsT : List EpochT := []
  epochsP : List EpochP := []
  states : List State := []
  gens : Array (Array (Array Rat)) := #[]
  rows : List (List (List (Nat × Rat))) := []
  alpha : List Rat := []

def showInfRat : Option Rat → String
  | none => "inf"
  | some q => showRat q

def Ctx.rewardVec (c : Ctx) (r : Reward) : Array Rat := (c.states.map fun s => r.eval c.nTot s).toArray

def Ctx.news (c : Ctx) (ts : List Rat) : List (List Factor) := newFactors c.epochsT 0 0 (sortRat ts)

/-- the model of `_accumulate(k, times, rewards)` evaluated with `fixExp` -/
def Ctx.rawAccum (c : Ctx) (ts : List Rat) (rs : List Reward) : Nat → Rat :=
  let vals := scatterBack ts (evalAccum c.gens (rs.map c.rewardVec) c.alpha (c.news ts))
  fun i => vals.getD i 0

/-- all reward tuples `accumulateModel` can ask `raw` for: orderings of sub-tuples -/
def rawKeys (rs : List Reward) : List (List Reward) :=
  let k := rs.length
  dedupList ((List.range (k + 1)).flatMap fun i =>
    (combinations (List.range k) i).flatMap fun idx => perms (idx.map fun j => rs.getD j default))

/-- `rawAccum` tabulated once per distinct reward tuple (the model of `functools.cache` on `_accumulate`) -/
def Ctx.rawTable (c : Ctx) (ts : List Rat) (rs : List Reward) : List Reward → Nat → Rat :=
  let table := (rawKeys rs).filter (fun key => !key.isEmpty) |>.map fun key => (key, c.rawAccum ts key)
  fun key => match table.lookup key with
    | some f => f
    | none => c.rawAccum ts key

def Ctx.momentModel (c : Ctx) (center permute : Bool) (rs : List Reward) (ts : List Rat) : List Rat :=
  let f : Nat → Rat := accumulateModel (c.rawTable ts rs) center permute rs
  (List.range ts.length).map f

def sfsReward (folded : Bool) (base : Reward) (i : Nat) : Reward :=
  Reward.combined [base, if folded then .foldedSFS i else .unfoldedSFS i]

def sfsIndices (folded : Bool) (n : Nat) : List Nat :=
  if folded then (List.range (n / 2)).map (· + 1) else (List.range (n - 1)).map (· + 1)

def Ctx.cdf (c : Ctx) (ts : List Rat) : List Rat :=
  scatterBack ts (evalCdf c.gens (c.rewardVec .treeHeight) c.alpha (c.news ts))

def Ctx.cdf1 (c : Ctx) (t : Rat) : Rat := (c.cdf [t]).getD 0 0

def showEpoch (e : Epoch) : String :=
  let sizes := " ".intercalate (e.sizes.map fun (p, v) => s!"s{p}={showRat v}")
  let migs := " ".intercalate ((e.mig.filter fun kv => kv.1.1 != kv.1.2).map fun ((a, b), v) => s!"m{a}_{b}={showRat v}")
  s!"{showRat e.start} {showInfRat e.stop} {sizes} {migs}"

def parseOpts (s : String) : DemoOpts :=
  { fixedBroadcast := s.contains 'b', fixedWindowEnd := s.contains 'w', splitSpec := s.contains 's' }


/-! ## cache / infer / validate commands (properties C17, C19, C20) -/

def showListOr {α} (f : α → String) (sep : String) (l : List α) : String :=
  if l.isEmpty then "-" else sep.intercalate (l.map f)

/-- `u<id>` | `s` | `d` | `c` | `t` -/
def parseCacheOp? (t : String) : Option (Cache.Op Nat) :=
  if t == "s" then some .getS
  else if t == "d" then some .dropS
  else if t == "c" then some .dropCache
  else if t == "t" then some .touchStates
  else if t.startsWith "u" then (t.drop 1).toString.toNat?.map Cache.Op.updateEpoch
  else none

/-- `cache <useCache 0|1> <initial epoch id> <ops…>` →
`<epoch id of the matrix returned by each s, space separated> | <cache keys in insertion order> | <computations>`
(empty lists are printed as `-`) -/
def handleCache (uc e0 : String) (ops : List String) : Option String := do
  let uc ← if uc == "1" then some true else if uc == "0" then some false else none
  let e0 ← e0.toNat?
  let ops ← ops.mapM parseCacheOp?
  let (s, ans) := Cache.run (fun (e : Nat) => e) (Cache.State.init e0 uc) ops
  let answers := ans.filterMap id
  let keys := s.cache.map (·.1)
  return s!"{showListOr toString " " answers} | {showListOr toString "," keys} | {s.computations}"

/-- `<loss>:<x1,x2,…>` -/
def parseRun? (t : String) : Option Inference.Run :=
  match t.splitOn ":" with
  | [f, x] => match parseRat? f, parseList? parseRat? x with
    | some f, some x => some { x := x, f := f }
    | _, _ => none
  | _ => none

/-- ops: `r<k> <f1>:<x1> … <fk>:<xk>` (`_run` with k optimiser results) | `a<j>` (`add_run` of a fresh
object on which the j-th (0-based) earlier `r` op was run) | `an` (`add_run` of a never-run object) |
`b <x1,x2,…>` (`add_bootstrap(dict)`) | `B<j>` / `Bn` (`add_bootstrap(Inference)`). -/
partial def parseInferOps? (seen : List (List Inference.Run)) :
    List String → Option (List Inference.Op)
  | [] => some []
  | t :: rest =>
    if t == "b" then
      match rest with
      | x :: rest' => do
        let x ← parseList? parseRat? x
        let tl ← parseInferOps? seen rest'
        return .bootDict x :: tl
      | [] => none
    else if t == "an" then (parseInferOps? seen rest).map (.addRun none :: ·)
    else if t == "Bn" then (parseInferOps? seen rest).map (.bootInf none :: ·)
    else if t.startsWith "r" then do
      let k ← (t.drop 1).toString.toNat?
      if rest.length < k then none
      let rs ← (rest.take k).mapM parseRun?
      let tl ← parseInferOps? (seen ++ [rs]) (rest.drop k)
      return .runWith rs :: tl
    else if t.startsWith "a" then do
      let j ← (t.drop 1).toString.toNat?
      let rs ← seen[j]?
      let tl ← parseInferOps? seen rest
      return .addRun (some rs) :: tl
    else if t.startsWith "B" then do
      let j ← (t.drop 1).toString.toNat?
      let rs ← seen[j]?
      let tl ← parseInferOps? seen rest
      return .bootInf (some rs) :: tl
    else none

/-- `infer <ops…>` → `loss=<q|none> x=<q,…|none> runs=<q,…|-> rows=<n> err=<0-based indices of ops that raised|->` -/
def handleInfer (toks : List String) : Option String := do
  let ops ← parseInferOps? [] toks
  let (s, errs) := Inference.replay Inference.State.fresh ops
  let loss := match s.lossInferred with | some q => showRat q | none => "none"
  let x := match s.paramsInferred with | some x => showListOr showRat "," x | none => "none"
  return s!"loss={loss} x={x} runs={showListOr showRat "," s.lossRuns} rows={s.bootstraps.length} err={showListOr toString "," errs}"

def parseVariant? (t : String) : Option Inference.Variant :=
  if t == "r" then some .repaired else if t == "p" then some .pinned
  else if t == "b" then some .boundsValues else none

/-- `k=q` -/
def parseKeyVal? (t : String) : Option (String × Rat) :=
  match t.splitOn "=" with
  | [k, q] => if k == "" then none else (parseRat? q).map fun q => (k, q)
  | _ => none

/-- `inferlab <variant r|p|b> <bounds keys k1,k2,…> <x0 k=q,k=q,…> <nSamples> <f>:<x1,x2,…> …`
(one result token per optimiser run, `1 + nSamples` of them, the vector as scipy returned it, i.e.
positional) → `params=<k=q,…> loss=<q> runs=<q,…> boxes=<key order of the boxes run 0 was given>|<run 1>|…
labels=<keys the objective of run 0 labels its argument with>|<run 1>|…`:
the labelling part of `Inference._run` (`Inference.labelResults`), the key order in which
`_optimize` lists the boxes for every run (`Inference.boxKeyOrders`) and the key order of every
start dict (`Inference.labelKeyOrders`). -/
def handleInferLab (v bk x0 n : String) (runs : List String) : Option String := do
  let v ← parseVariant? v
  let bk := bk.splitOn ","
  if bk.any (· == "") then none
  let x0 ← (x0.splitOn ",").mapM parseKeyVal?
  let n ← n.toNat?
  if runs.length != n + 1 then none
  let results ← runs.mapM parseRun?
  let x0keys := x0.map Prod.fst
  let (params, loss, lossRuns) ← Inference.labelResults x0keys results
  let boxes := Inference.boxKeyOrders v bk x0keys (n + 1)
  let labels := Inference.labelKeyOrders v bk x0keys (n + 1)
  return s!"params={showListOr (fun (kv : String × Rat) => s!"{kv.1}={showRat kv.2}") "," params} loss={showRat loss} runs={showListOr showRat "," lossRuns} boxes={"|".intercalate (boxes.map ",".intercalate)} labels={"|".intercalate (labels.map ",".intercalate)}"

def parsePair? (t : String) : Option (Rat × Rat) :=
  match t.splitOn ":" with
  | [a, b] => match parseRat? a, parseRat? b with
    | some a, some b => some (a, b)
    | _, _ => none
  | _ => none

def parseOptRat? (s : String) : Option (Option Rat) :=
  if s == "none" then some none else (parseRat? s).map some

def parseQuery? (s : String) : Option Validate.Query :=
  match s.splitOn ":" with
  | ["mean"] => some .mean
  | ["cdf", ts] => (parseList? parseRat? ts).map .cdf
  | ["acc", k, rl, ts] => match k.toNat?, rl.toNat?, parseList? parseRat? ts with
    | some k, some rl, some ts => some (.accumulate k rl ts)
    | _, _, _ => none
  | ["mom", k, rl, e] => match k.toNat?, rl.toNat?, parseOptRat? e with
    | some k, some rl, some e => some (.moment k rl e)
    | _, _, _ => none
  | ["quant", q] => (parseRat? q).map .quantile
  | ["mut", len, theta, nep] => match len.toNat?, parseRat? theta, nep.toNat? with
    | some len, some theta, some nep => some (.mutationConfig len theta nep)
    | _, _, _ => none
  | _ => none

def parseBool01? (s : String) : Option Bool :=
  if s == "1" then some true else if s == "0" then some false else none

/-- one `key=value` token of the `validate` command (encoding: see the top of PGModel/Validate.lean) -/
def applyValidateToken (acc : Validate.Request × Bool) (t : String) : Option (Validate.Request × Bool) :=
  let (r, repaired) := acc
  match t.splitOn "=" with
  | ["n", v] => v.toNat?.map fun v => ({ r with n := v }, repaired)
  | ["loci", v] => v.toInt?.map fun v => ({ r with loci := v }, repaired)
  | ["viacfg", v] => (parseBool01? v).map fun v => ({ r with viaConfig := v }, repaired)
  | ["unl", v] => v.toInt?.map fun v => ({ r with nUnlinked := v }, repaired)
  | ["rloc", v] => (parseRat? v).map fun v => ({ r with recLocus := v }, repaired)
  | ["rarg", v] => (parseOptRat? v).map fun v => ({ r with recArg := v }, repaired)
  | ["model", "kingman"] => some ({ r with model := .kingman }, repaired)
  | ["model", "beta"] => some ({ r with model := .beta }, repaired)
  | ["model", "dirac"] => some ({ r with model := .dirac }, repaired)
  | ["alpha", v] => (parseRat? v).map fun v => ({ r with alpha := v }, repaired)
  | ["psi", v] => (parseRat? v).map fun v => ({ r with psi := v }, repaired)
  | ["c", v] => (parseRat? v).map fun v => ({ r with c := v }, repaired)
  | ["start", v] => (parseRat? v).map fun v => ({ r with startTime := v }, repaired)
  | ["end", v] => (parseOptRat? v).map fun v => ({ r with endTime := v }, repaired)
  | ["sizes", v] => (parseList? parsePair? v).map fun v => ({ r with sizes := v }, repaired)
  | ["rates", v] => (parseList? parsePair? v).map fun v => ({ r with rates := v }, repaired)
  | ["dist", "th"] => some ({ r with sfs := false, folded := false }, repaired)
  | ["dist", "sfs"] => some ({ r with sfs := true, folded := false }, repaired)
  | ["dist", "fsfs"] => some ({ r with sfs := true, folded := true }, repaired)
  | ["query", v] => (parseQuery? v).map fun v => ({ r with query := v }, repaired)
  | ["repaired", v] => (parseBool01? v).map fun v => (r, v)
  | _ => none

/-- `validate <key=value tokens>` → `ok` | `ValueError` | `NotImplementedError` -/
def handleValidate (toks : List String) : Option String := do
  let (r, repaired) ← toks.foldlM applyValidateToken (({} : Validate.Request), true)
  return Validate.showRes (Validate.validateWith repaired r)

/-! ## call layer of `moment` / `accumulate` (PGModel/Api.lean) -/

structure ApiReq where
  k : Int := 1
  rewards : Option (List Nat) := none
  startT : Option Rat := none
  endT : Option Rat := none
  times : List Rat := []
  center : Bool := true
  permute : Bool := true
  dstart : Rat := 0
  tmax : Rat := 1
  dreward : Nat := 0

def applyApiToken (r : ApiReq) (t : String) : Option ApiReq :=
  match t.splitOn "=" with
  | ["k", v] => v.toInt?.map fun v => { r with k := v }
  | ["rewards", v] => if v == "none" then some { r with rewards := none }
      else (parseList? String.toNat? v).map fun v => { r with rewards := some v }
  | ["start", v] => (parseOptRat? v).map fun v => { r with startT := v }
  | ["end", v] => (parseOptRat? v).map fun v => { r with endT := v }
  | ["times", v] => (parseList? parseRat? v).map fun v => { r with times := v }
  | ["center", v] => (parseBool01? v).map fun v => { r with center := v }
  | ["permute", v] => (parseBool01? v).map fun v => { r with permute := v }
  | ["dstart", v] => (parseRat? v).map fun v => { r with dstart := v }
  | ["tmax", v] => (parseRat? v).map fun v => { r with tmax := v }
  | ["dreward", v] => v.toNat?.map fun v => { r with dreward := v }
  | _ => none

/-! ### `memo`: distribution-level memoisation (PGModel/Memo.lean) -/

mutual
/-- reward syntax of the `memo` command (no blanks): `th` `tth` `tbl` `u` (UnitReward) `s<i>` (UnfoldedSFS)
`f<i>` (FoldedSFS) `l<n>` (Lineage) `d<i>` (Deme, axis index) `c<l>` (Locus) `x<l>` (TotalBranchLengthLocus)
`S(e,e,…)` (SumReward) `P(e,e,…)` (ProductReward) -/
partial def memoReward? : List Char → Option (Reward × List Char)
  | 'S' :: '(' :: cs => (memoArgs? cs).map fun (rs, rest) => (Reward.sum rs, rest)
  | 'P' :: '(' :: cs => (memoArgs? cs).map fun (rs, rest) => (Reward.prod rs, rest)
  | cs =>
    let name := String.ofList (cs.takeWhile Char.isAlpha)
    let rest1 := cs.dropWhile Char.isAlpha
    let num := (String.ofList (rest1.takeWhile Char.isDigit)).toNat?
    let rest := rest1.dropWhile Char.isDigit
    match name, num with
    | "th", none => some (.treeHeight, rest)
    | "tth", none => some (.totalTreeHeight, rest)
    | "tbl", none => some (.totalBranchLength, rest)
    | "u", none => some (.unit, rest)
    | "s", some i => some (.unfoldedSFS i, rest)
    | "f", some i => some (.foldedSFS i, rest)
    | "l", some i => some (.lineage i, rest)
    | "d", some i => some (.deme i, rest)
    | "c", some i => some (.locus i, rest)
    | "x", some i => some (.tblLocus i, rest)
    | _, _ => none
/-- the children of a composite up to the closing bracket -/
partial def memoArgs? : List Char → Option (List Reward × List Char)
  | ')' :: rest => some ([], rest)
  | cs => do
    let (r, rest) ← memoReward? cs
    match rest with
    | ',' :: rest' =>
      let (rs, rest'') ← memoArgs? rest'
      if rs.isEmpty then none else some (r :: rs, rest'')
    | ')' :: rest' => some ([r], rest')
    | _ => none
end

def memoReward1? (s : String) : Option Reward :=
  match memoReward? s.toList with
  | some (r, []) => some r
  | _ => none

/-- a reward tuple: `-` argument omitted, `()` the empty tuple, else `e;e;…` -/
def memoTuple? (s : String) : Option (Option (List Reward)) :=
  if s == "-" then some none
  else if s == "()" then some (some [])
  else ((s.splitOn ";").mapM memoReward1?).map some

def memoOptRat? (s : String) : Option (Option Rat) :=
  if s == "-" then some none else (parseRat? s).map some

def memoOptBool? (s : String) : Option (Option Bool) :=
  if s == "-" then some none else if s == "1" then some (some true)
  else if s == "0" then some (some false) else none

def memoVariant? (s : String) : Option Memo.Variant :=
  (s.splitOn "+").foldlM (fun (v : Memo.Variant) t =>
    match t with
    | "current" => some v
    | "frozenset" => some { v with scheme := .frozensetComposite }
    | "baseclass" => some { v with scheme := .baseClassHash }
    | "corrinplace" => some { v with corr := .inPlace }
    | "inplacesum" => some { v with sum := .inPlaceSum }
    | "notheta" => some { v with pkey := .noTheta }
    | _ => none) Memo.Variant.current

def memoQuery? (t : String) : Option Memo.Query :=
  match t.splitOn ":" with
  | ["mean"] => some .mean
  | ["var"] => some .var
  | ["cov"] => some .cov
  | ["corr"] => some .corr
  | ["p", th] => (parseRat? th).map Memo.Query.getP
  | ["m", k, rs, st, en, ce, pe] => do
    let k ← k.toNat?
    let rs ← memoTuple? rs
    let st ← memoOptRat? st
    let en ← memoOptRat? en
    let ce ← memoOptBool? ce
    let pe ← memoOptBool? pe
    return .moment { k := k, rewards := rs, start := st, stop := en, center := ce, permute := pe }
  | ["a", k, ts, rs, pe] => do
    let k ← k.toNat?
    let ts ← parseList? parseRat? ts
    let rs ← (← memoTuple? rs)
    let pe ← (← memoOptBool? pe)
    return .accumulate { k := k, endTimes := ts, rewards := rs, permute := pe }
  | _ => none

/-- `memo <variant[+variant…]> [tmax=<rat>] [start=<rat>] [reward=<e>] [lower=fresh] <query> <query> …`
(`lower=fresh`: the object is a `Coalescent`, the `_accumulate` entries are forgotten after every query) with
variants `current | frozenset | baseclass | corrinplace | inplacesum | notheta` and queries
`m:<k>:<rewards>:<start>:<end>:<center>:<permute>` (`-` = argument omitted) |
`a:<k>:<t,t,…>:<rewards>:<permute>` (public uncentred `accumulate`) | `mean` | `var` | `cov` | `corr` | `p:<theta>`:
the history is run on ONE object of `PGModel/Memo.lean` with the conventional numerics `Memo.conventional`
(`acc` = `polyHash` of the canonical call text `a|k|t,…|key;key;…` mod 1000000007, `moment` = Σ (i+1)·(value of
its i-th uncentred `accumulate` call), `cov = 3·mean + 1`, `corr = cov / (var + 1)`, `_get_P` = `polyHash "p|θ"`).
Answer: `<answers, comma separated> | <one token per query: h|m / Δ moment hits / Δ moment misses /
Δ _accumulate hits / Δ _accumulate misses> | <one verdict per query: = the value of a fresh object;
q<j> the fresh value of query j of the history; a<j> the (wrong) answer given to query j; x none of these>`.
`h` = the memoised call (moment, p) was a hit / the property slot was filled / every `_accumulate` call of an
`a` query was a hit. -/
def handleMemo : List String → Option String
  | v :: toks => do
    let vr ← memoVariant? v
    let isOpt (t : String) := t.startsWith "tmax=" || t.startsWith "start=" || t.startsWith "reward=" || t == "lower=fresh"
    let opts := toks.takeWhile isOpt
    let qtoks := toks.dropWhile isOpt
    let o ← opts.foldlM (fun (o : Memo.Obj) t =>
      match t.splitOn "=" with
      | ["tmax", x] => (parseRat? x).map fun x => { o with tMax := x }
      | ["start", x] => (parseRat? x).map fun x => { o with startDefault := x }
      | ["reward", x] => (memoReward1? x).map fun x => { o with reward := x }
      | ["lower", "fresh"] => some o
      | _ => none) ({} : Memo.Obj)
    let forget := opts.contains "lower=fresh"
    let qs ← qtoks.mapM memoQuery?
    let F := Memo.conventional o
    -- replay, keeping the state before and after every query
    let (_, rows) := qs.foldl (fun (acc : Memo.State Rat × List (Memo.Query × Memo.State Rat × Memo.State Rat × Rat)) q =>
      let (st1, a) := Memo.run vr F acc.1 q
      ((if forget then st1.forgetLower else st1), acc.2 ++ [(q, acc.1, st1, a)])) (Memo.init, [])
    let answers := rows.map fun r => r.2.2.2
    let specs := qs.map (Memo.spec F)
    let flags := rows.map fun (q, s0, s1, _) =>
      let dmh := s1.info.momHits - s0.info.momHits
      let dmm := s1.info.momMisses - s0.info.momMisses
      let dah := s1.info.accHits - s0.info.accHits
      let dam := s1.info.accMisses - s0.info.accMisses
      let hit : Bool := match q with
        | .moment _ => dmm == 0
        | .accumulate _ => dam == 0
        | .mean => s0.mean.isSome
        | .var => s0.var.isSome
        | .cov => s0.cov.isSome
        | .corr => s0.corr.isSome
        | .getP _ => s1.info.pHits > s0.info.pHits
      s!"{if hit then "h" else "m"}/{dmh}/{dmm}/{dah}/{dam}"
    let verdicts := (List.range qs.length).map fun i =>
      let a := answers.getD i 0
      if a == specs.getD i 0 then "="
      else match specs.findIdx? (· == a) with
        | some j => s!"q{j}"
        | none => match (answers.take i).findIdx? (· == a) with
          | some j => s!"a{j}"
          | none => "x"
    return s!"{showListOr showRat "," answers} | {showListOr id " " flags} | {showListOr id " " verdicts}"
  | [] => none

/-- `api <variant c|f|n> <acc|mom> k=<int> rewards=<none|-|id,id,…> start=<none|rat> end=<none|rat>
times=<rat,…|-> center=<0|1> permute=<0|1> dstart=<rat> tmax=<rat> [dreward=<id>]`
(`key=value` tokens in any order, missing ones keep the defaults of `ApiReq`; `rewards=-` is the empty
tuple; `start`/`end` are used by `mom`, `times` by `acc`) → `ok <rat,…>` | `err ValueError` | `err IndexError`:
`Api.accumulateCall` / `Api.momentCall` on a distribution whose `_accumulate` is `Api.fakeRaw`,
whose `reward` has id `dreward`, `tree_height.start_time = dstart`, `tree_height.t_max = tmax`. -/
def handleApi : List String → Option String
  | v :: what :: toks => do
    let v ← if v == "c" then some Api.Variant.current else if v == "f" then some Api.Variant.falsyTimes
      else if v == "n" then some Api.Variant.noLengthCheck else none
    let r ← toks.foldlM applyApiToken ({} : ApiReq)
    let ctx : Api.DistCtx Nat :=
      { defaultReward := r.dreward, startDefault := r.dstart, tMax := r.tmax, raw := Api.fakeRaw }
    let call : Api.MomentCall Nat := ⟨r.k, r.rewards, r.startT, r.endT, r.center, r.permute⟩
    let res ← if what == "acc" then
        some (Api.accumulateCall v ctx r.k r.rewards r.times r.center r.permute)
      else if what == "mom" then
        some ((Api.momentCall v ctx call).map fun m => [m])
      else none
    match res with
    | .ok l => return s!"ok {showListOr showRat "," l}"
    | .error e => return s!"err {Api.showErr e}"
  | _ => none

/-! ## `config`: the glue between the user's containers and the tables of the transitions -/

def parseCfgVariant? (t : String) : Option Config.Variant :=
  if t == "c" then some .current else if t == "s" then some .sizesByDictOrder
  else if t == "m" then some .migBySortedNames else if t == "d" then some .demeRewardBySortedNames
  else none

def parseCfgName? (s : String) : Option String := if s == "" then none else some s

/-- `t:v;t:v` -/
def parseCfgChanges? (s : String) : Option Config.Changes :=
  (s.splitOn ";").mapM fun tv => match tv.splitOn ":" with
    | [t, v] => match parseRat? t, parseRat? v with
      | some t, some v => some (t, v)
      | _, _ => none
    | _ => none

/-- `name=cnt,…` (listing order) | `list:c0,c1,…` | `scalar:c` -/
def parseCfgN? (s : String) : Option Config.NInput :=
  match s.splitOn ":" with
  | ["list", l] => (parseList? String.toNat? l).map .list
  | ["scalar", c] => c.toNat?.map .scalar
  | [d] => (parseList? (fun kv => match kv.splitOn "=" with
      | [k, c] => match parseCfgName? k, c.toNat? with
        | some k, some c => some (k, c)
        | _, _ => none
      | _ => none) d).map .dict
  | _ => none

/-- `a>b` -/
def parseCfgPair? (s : String) : Option (String × String) :=
  match s.splitOn ">" with
  | [a, b] => match parseCfgName? a, parseCfgName? b with
    | some a, some b => some (a, b)
    | _, _ => none
  | _ => none

/-- `-` | `scalar:v` | `flat:name=v,…` | `name@t:v;t:v|name@…` -/
def parseCfgSizes? (s : String) : Option Config.SizesInput :=
  if s == "-" then some .none else
  match s.splitOn ":" with
  | ["scalar", v] => (parseRat? v).map .scalar
  | ["flat", d] => (parseList? (fun kv => match kv.splitOn "=" with
      | [k, v] => match parseCfgName? k, parseRat? v with
        | some k, some v => some (k, v)
        | _, _ => none
      | _ => none) d).map .flat
  | _ => ((s.splitOn "|").mapM fun (e : String) => match e.splitOn "@" with
      | [k, ch] => match parseCfgName? k, parseCfgChanges? ch with
        | some k, some ch => some (k, ch)
        | _, _ => none
      | _ => none).map .full

/-- `-` | `flat:a>b=v,…` | `a>b@t:v;t:v|…` -/
def parseCfgMig? (s : String) : Option Config.MigInput :=
  if s == "-" then some .none else
  match s.splitOn ":" with
  | ["flat", d] => (parseList? (fun kv => match kv.splitOn "=" with
      | [k, v] => match parseCfgPair? k, parseRat? v with
        | some k, some v => some (k, v)
        | _, _ => none
      | _ => none) d).map .flat
  | _ => ((s.splitOn "|").mapM fun (e : String) => match e.splitOn "@" with
      | [k, ch] => match parseCfgPair? k, parseCfgChanges? ch with
        | some k, some ch => some (k, ch)
        | _, _ => none
      | _ => none).map .full

/-- `config <variant c|s|m|d> <n> <pop_sizes> <migration_rates> <setOrder: names, comma separated|-> <t>` →
`axis=<names> init=<counts> sizes=<q,…> mig=<row;row;…> deme=<DemeReward index of every axis name>`
(exact rationals; `bad-request` unless `setOrder` enumerates the unsampled populations exactly once each):
`Config.axis`, `Config.initVec`, `Config.epochTable`, `Config.demeIndex`. -/
def handleConfig : List String → Option String
  | [v, n, sizes, mig, setOrder, t] => do
    let v ← parseCfgVariant? v
    let n ← parseCfgN? n
    let sizes ← parseCfgSizes? sizes
    let mig ← parseCfgMig? mig
    let setOrder ← parseList? parseCfgName? setOrder
    let t ← parseRat? t
    let I : Config.Input :=
      { n := n, sizes := Config.normaliseSizes sizes, mig := Config.normaliseMig mig, setOrder := setOrder }
    if !Config.validSetOrder I then none else
    let ax := Config.axis I
    let (sz, mg) := Config.epochTable v I t
    return s!"axis={showListOr id "," ax} init={showListOr toString "," (Config.initVec I)} sizes={showListOr showRat "," sz} mig={showListOr (showListOr showRat ",") ";" mg} deme={showListOr (fun p => toString (Config.demeIndex v I p)) "," ax}"
  | _ => none


/-- `cfgepochs <n> <pop_sizes> <migration_rates> <setOrder: names, comma separated|-> <count>` (input syntax of `config`) →
`axis=<names> <epoch> <epoch> …`, one token `start,stop|sizes|row;row;…` per epoch (exact rationals, `inf` for an open end;
`bad-request` unless `setOrder` enumerates the unsampled populations exactly once each): the first `count` epochs
`epochsUpTo {} (EndToEnd.toEvents I) count` of the demography model (default options: both `DiscretizedRateChange` repairs
present, pinned `PopulationSplit` orientation -- neither kind of event occurs in a translated input) applied to the
TRANSLATION of the named input, each read in deme-AXIS order by `EndToEnd.tableOfEpoch`. -/
def handleCfgEpochs : List String → Option String
  | [n, sizes, mig, setOrder, count] => do
    let n ← parseCfgN? n
    let sizes ← parseCfgSizes? sizes
    let mig ← parseCfgMig? mig
    let setOrder ← parseList? parseCfgName? setOrder
    let count ← count.toNat?
    let I : Config.Input :=
      { n := n, sizes := Config.normaliseSizes sizes, mig := Config.normaliseMig mig, setOrder := setOrder }
    if !Config.validSetOrder I then none else
    let eps := epochsUpTo {} (EndToEnd.toEvents I) count
    let showEp := fun (e : Epoch) =>
      let (sz, mg) := EndToEnd.tableOfEpoch I e
      s!"{showRat e.start},{showInfRat e.stop}|{showListOr showRat "," sz}|{showListOr (showListOr showRat ",") ";" mg}"
    return s!"axis={showListOr id "," (Config.axis I)} {" ".intercalate (eps.map showEp)}"
  | _ => none

/-! ## share command (state-space sharing in `Inference.get_coal`, C17 / C19) -/

/-- `<L|B>;<pop=n,…>;<loci>;<n_unlinked>;<recombination rate>;<model class>;<model parameters q,…|->` -/
def parseSSKey? (t : String) : Option Share.SSKey :=
  match t.splitOn ";" with
  | [cls, lin, nl, nu, r, m, ps] => do
    let cls ← if cls == "L" then some Share.Cls.lineage else if cls == "B" then some Share.Cls.block else none
    let lin ← parseList? (fun (kv : String) => match kv.splitOn "=" with
      | [k, v] => v.toNat?.map fun n => (k, n)
      | _ => none) lin
    let nl ← nl.toNat?
    let nu ← nu.toNat?
    let r ← parseRat? r
    let ps ← parseList? parseRat? ps
    return { cls := cls, lineages := lin, nLoci := nl, nUnlinked := nu, recRate := r, model := m, params := ps }
  | _ => none

def showSSKey (k : Share.SSKey) : String :=
  let cls := match k.cls with | .lineage => "L" | .block => "B"
  s!"{cls};{showListOr (fun (p : String × Nat) => s!"{p.1}={p.2}") "," k.lineages};{k.nLoci};{k.nUnlinked};{showRat k.recRate};{k.model};{showListOr showRat "," k.params}"

/-- `<key>@<epoch id>` -/
def parseKeyAt? (t : String) : Option (Share.SSKey × Nat) :=
  match t.splitOn "@" with
  | [k, e] => do return (← parseSSKey? k, ← e.toNat?)
  | _ => none

/-- `g:<key>@<first epoch id>` (`get_coal`) | `q:<i>:<u<e>|s|d|c|t>` (operation on the state space of the i-th coalescent) -/
def parseShareOp? (t : String) : Option (Share.Op Nat) :=
  if t.startsWith "g:" then (parseKeyAt? (t.drop 2).toString).map fun (k, e) => .getCoal k e
  else match t.splitOn ":" with
    | ["q", i, op] => do return .query (← i.toNat?) (← parseCacheOp? op)
    | _ => none

/-- `share <variant c|f> <Inference.cache 0|1> <key of x0>@<first epoch id of x0> <ops…>` →
for every read of `S` (in order) `<key>@<epoch id>` of the configuration and epoch whose rate matrix is returned
(`compute k e := (k, e)`); the history is cut at the first `get_coal` that raises and `raise` is appended. -/
def handleShare : List String → Option String
  | v :: uc :: k0 :: ops => do
    let v ← if v == "c" then some Share.EqVariant.current else if v == "f" then some Share.EqVariant.forgetsLocus else none
    let uc ← if uc == "1" then some true else if uc == "0" then some false else none
    let (key0, e0) ← parseKeyAt? k0
    let ops ← ops.mapM parseShareOp?
    let ok := ops.takeWhile fun | .getCoal k _ => !Share.getCoalRaises uc key0 k | .query _ _ => true
    let (_, ans) := Share.run (fun (k : Share.SSKey) (e : Nat) => (k, e)) (Share.Inf.init v uc key0 e0) ok
    let shown := (ans.filterMap id).map fun (k, e) => s!"{showSSKey k}@{e}"
    let shown := if ok.length < ops.length then shown ++ ["raise"] else shown
    return showListOr id " " shown
  | _ => none


/-! ## serial command (field-level serialisation, C18) -/

/-- `<q>` | `T` | `F` | `N` | `s:<str>` | `f:<callable>` | `o:<opaque object>` | `S:<state space>:<cached matrices>` |
`P:<name>~<q>,…` (parameter dict) | `R:<q>,…` (array) | `p:<value>` (dill pickle of a value) -/
partial def parseVal? (t : String) : Option Serialize.Val :=
  if t == "T" then some (.bool true) else if t == "F" then some (.bool false) else if t == "N" then some .none
  else if t.startsWith "s:" then some (.str (t.drop 2).toString)
  else if t.startsWith "f:" then some (.fn (t.drop 2).toString)
  else if t.startsWith "o:" then some (.obj (t.drop 2).toString)
  else if t.startsWith "p:" then (parseVal? (t.drop 2).toString).map .pickled
  else if t.startsWith "S:" then
    match (t.drop 2).toString.splitOn ":" with
    | [id, n] => n.toNat?.map fun n => .space id n
    | _ => none
  else if t.startsWith "P:" then
    (parseList? (fun (kv : String) => match kv.splitOn "~" with
      | [k, v] => (parseRat? v).map fun q => (k, q)
      | _ => none) (t.drop 2).toString).map .point
  else if t.startsWith "R:" then (parseList? parseRat? (t.drop 2).toString).map .rats
  else (parseRat? t).map .rat

partial def showVal : Serialize.Val → String
  | .rat q => showRat q
  | .bool b => if b then "T" else "F"
  | .str s => s!"s:{s}"
  | .none => "N"
  | .fn n => s!"f:{n}"
  | .pickled v => s!"p:{showVal v}"
  | .obj id => s!"o:{id}"
  | .space id n => s!"S:{id}:{n}"
  | .point p => "P:" ++ showListOr (fun (kv : String × Rat) => s!"{kv.1}~{showRat kv.2}") "," p
  | .rats l => "R:" ++ showListOr showRat "," l

/-- `serial <Coalescent.__setstate__ c|d> <Inference.__getstate__ i|x> <coal|inf> key=val …` (the `__dict__` in insertion
order) → the `__dict__` after `from_json(to_json())` with a lossless codec, `key=val` sorted by key (`fail` if a step
raises); for `inf` followed by ` | x0=<start point of the loaded object>` where a draw from generator `g` is shown as
`s:draw(<g>)`.  Variants: `c`/`i` pinned, `d` defaults override the saved values, `x` the cached `x0` is not saved. -/
def handleSerial : List String → Option String
  | sv :: gv :: kind :: items => do
    let sv ← if sv == "c" then some Serialize.SetVariant.current else if sv == "d" then some Serialize.SetVariant.defaultsOverride else none
    let gv ← if gv == "i" then some Serialize.GetVariant.current else if gv == "x" then some Serialize.GetVariant.dropsCachedX0 else none
    let d ← items.mapM fun (t : String) => match t.splitOn "=" with
      | [k, v] => (parseVal? v).map fun v => (k, v)
      | _ => none
    if !(d.map (·.1)).eraseDups.length == d.length then none
    let shown (d : Serialize.PyDict) : String :=
      showListOr (fun (kv : String × Serialize.Val) => s!"{kv.1}={showVal kv.2}") " " (d.toArray.qsort (fun a b => a.1 < b.1)).toList
    if kind == "coal" then
      match Serialize.fromJsonCoalescent sv some (Serialize.toJsonCoalescent sv id d).1 with
      | some d' => return shown d'
      | none => return "fail"
    else if kind == "inf" then
      match (Serialize.toJsonInference gv id d).1.bind (Serialize.fromJsonInference some) with
      | some d' =>
        let draw : Serialize.Val → Serialize.Val × Serialize.Val := fun g => (.str s!"draw({showVal g})", .obj s!"{showVal g}'")
        return s!"{shown d'} | x0={showVal (Serialize.x0Of d' draw)}"
      | none => return "fail"
    else none
  | _ => none


/-! ### `marginals`: per-deme / per-locus observables (PGModel/Marginals.lean) -/

/-- `marginals <demes|loci> <th|tbl> <T> [variant [a b]]` on the current space: the assembly of
`dist.demes` / `dist.loci` (`PGModel/Marginals.lean`) over the model's raw moments at end time `T`:
`total <mean> <var> | means … | vars … | cov row ; row … | corr row ; row … | getcov … | getcorr …`
(`cov[i][j] = get_cov(j, i)`, `getcov[i][j] = get_cov(i, j)`; `corr` / `getcorr` with `sqrtFix`; a value or the
name of the exception).  With two part indices `a b` (any naturals):
`getcov <get_cov(a, b)> getcorr <get_corr(a, b)> sub <sub[a]>`, each a value or the name of the exception. -/
def handleMarginals (c : Ctx) : List String → Option String
  | kind :: base :: t :: rest => do
    let k ← (match kind with | "demes" => some Marginals.Kind.demes | "loci" => some .loci | _ => none)
    let r ← (match base with | "th" => some Reward.treeHeight | "tbl" => some .totalBranchLength | _ => none)
    let T ← parseRat? t
    let v ← (match rest.head? with
      | none | some "current" => some Marginals.Variant.current
      | some "locusDiagJointVar" => some .locusDiagJointVar
      | some "locusCorrOneAtR0" => some .locusCorrOneAtR0
      | some "demeCovNoPermute" => some .demeCovNoPermute
      | _ => none)
    let pair ← (match rest.drop 1 with
      | [] => some none
      | [a, b] => match a.toNat?, b.toNat? with
        | some a, some b => some (some (a, b))
        | _, _ => none
      | _ => none)
    let d : Marginals.Dist := { reward := r, nDemes := c.nVec.length, nLoci := c.nLoci,
                                recRate := (c.epochsP.head?.map (·.recRate)).getD 0 }
    -- every tuple the assembly can ask for, evaluated once (the model of `functools.cache` on `_accumulate`)
    let idxs := match pair with
      | some (a, b) => (if a = b then [a] else [a, b]).filter (· < d.size k)
      | none => List.range (d.size k)
    let subs := idxs.map (Marginals.subReward r k)
    let keys := [[r], [r, r]] ++ subs.map (fun x => [x]) ++ subs.flatMap fun x => subs.map fun y => [x, y]
    let table := keys.map fun key => (key, c.rawAccum [T] key 0)
    let raw : List Reward → Rat := fun key => match table.lookup key with
      | some q => q
      | none => c.rawAccum [T] key 0
    let showErr : Marginals.Err → String
      | .valueError => "ValueError" | .keyError => "KeyError" | .zeroDivision => "ZeroDivisionError"
    let showMat : Except Marginals.Err (List (List Rat)) → String
      | .ok m => " ; ".intercalate (m.map fun row => " ".intercalate (row.map showRat))
      | .error e => showErr e
    let showVal : Except Marginals.Err Rat → String
      | .ok q => showRat q
      | .error e => showErr e
    if let some (a, b) := pair then
      let ops := Marginals.ratOps Marginals.sqrtFix
      return s!"getcov {showVal (Marginals.getCov v d raw k a b)} getcorr {showVal (Marginals.getCorr ops v d raw k a b)}"
        ++ s!" sub {showVal ((Marginals.marg? d k a).map fun _ => Marginals.margMean raw r k a)}"
    return s!"total {showRat (Marginals.distMean raw r)} {showRat (Marginals.distVar raw r)}"
      ++ " | means " ++ " ".intercalate ((Marginals.meanVector d raw k).map showRat)
      ++ " | vars " ++ " ".intercalate ((Marginals.varVector d raw k).map showRat)
      ++ " | cov " ++ showMat (Marginals.covMatrix v d raw k)
      ++ " | corr " ++ showMat (Marginals.corrMatrix (Marginals.ratOps Marginals.sqrtFix) v d raw k)
      ++ " | getcov " ++ " ; ".intercalate (idxs.map fun a => " ".intercalate (idxs.map fun b =>
          showVal (Marginals.getCov v d raw k a b)))
      ++ " | getcorr " ++ " ; ".intercalate (idxs.map fun a => " ".intercalate (idxs.map fun b =>
          showVal (Marginals.getCorr (Marginals.ratOps Marginals.sqrtFix) v d raw k a b)))
  | _ => none

/-! ## `demoobj`: the mutable `Demography` object and the hand-over to `Coalescent` (PGModel/DemoObj.lean) -/

/-- `<id>@<start>@<name>,<name>…` -/
def parseDemoEv? (t : String) : Option (DemoObj.Ev String) :=
  match t.splitOn "@" with
  | [i, st, ns] => do
    let i ← i.toNat?
    let st ← parseRat? st
    let ns ← parseList? parseCfgName? ns
    return { id := i, start := st, names := ns }
  | _ => none

/-- `-` | `<ev>;<ev>…` -/
def parseDemoEvs? (t : String) : Option (List (DemoObj.Ev String)) :=
  if t == "-" || t == "" then some [] else (t.splitOn ";").mapM parseDemoEv?

/-- `new:<evs>` | `new:<evs>:<ctor ev>` | `adds:<evs>` | `add:<ev>` | `touch` | `names` | `order` |
`coal:<id of the event it may add>:<name>=<n>,…` -/
def parseDemoOp? (t : String) : Option (DemoObj.Op String) :=
  match t.splitOn ":" with
  | ["new", evs] => (parseDemoEvs? evs).map fun evs => .new evs none
  | ["new", evs, c] => do return .new (← parseDemoEvs? evs) (some (← parseDemoEv? c))
  | ["adds", evs] => (parseDemoEvs? evs).map .addEvents
  | ["add", e] => (parseDemoEv? e).map .addEvent
  | ["touch"] => some .touchEpochs
  | ["names"] => some .readPopNames
  | ["order"] => some .readEventOrder
  | ["coal", i, smp] => do
    let i ← i.toNat?
    let smp ← parseList? (fun (kv : String) => match kv.splitOn "=" with
      | [k, c] => match parseCfgName? k, c.toNat? with
        | some k, some c => some (k, c)
        | _, _ => none
      | _ => none) smp
    return .coalescentInit smp i
  | _ => none

def showDemoObs : DemoObj.Obs String → String
  | .none => "."
  | .popNames ns n => s!"{showListOr id "," ns};n={n}"
  | .order ids => showListOr toString "," ids
  | .coal added lin =>
    let a := match added with | none => "-" | some ns => showListOr id "," ns
    s!"added={a};lin={showListOr (fun (p : String × Nat) => s!"{p.1}={p.2}") "," lin}"

/-- `demoobj <variant current|staleadd> <op> <op> …` with `<ev>` = `<id>@<start>@<name>,<name>…` and the ops of
`parseDemoOp?`: the history is replayed by `DemoObj.run` from the empty object.  Answer: one field per op joined by
` | `: `.` for an op without observation; `names` → `<pop_names, comma separated|->;n=<n_pops>`; `order` → the ids of
`self.events` in order (`-` if none); `coal` → `added=<pop_names of the event Coalescent.__init__ appended|->;lin=<name>=<n>,…`
(the completed lineage dict sorted by name). -/
def handleDemoObj : List String → Option String
  | v :: toks => do
    let v ← if v == "current" then some DemoObj.Variant.current
      else if v == "staleadd" then some DemoObj.Variant.staleadd else none
    let ops ← toks.mapM parseDemoOp?
    let (_, obs) := DemoObj.run v ({} : DemoObj.State String) ops
    return showListOr showDemoObs " | " obs
  | [] => none

/-- `<a>=<rat>,<a>=<rat>,…` (`-` or empty: no entry) → the items of `pop_sizes` in insertion order -/
def parseEKSizes? (s : String) : Option (Dict Nat Rat) :=
  parseList? (fun t => match t.splitOn "=" with
    | [a, v] => match a.toNat?, parseRat? v with
      | some a, some v => some (a, v)
      | _, _ => none
    | _ => none) s

/-- `<a>><b>=<rat>,…` (`-` or empty: no entry) → the items of `migration_rates` in insertion order -/
def parseEKMig? (s : String) : Option (Dict (Nat × Nat) Rat) :=
  parseList? (fun t => match t.splitOn "=" with
    | [ab, v] => match ab.splitOn ">", parseRat? v with
      | [a, b], some v => match a.toNat?, b.toNat? with
        | some a, some b => some ((a, b), v)
        | _, _ => none
      | _, _ => none
    | _ => none) s

/-- one epoch: the two tokens `s:<sizes>` `m:<mig>`; the constructor `Epoch.__init__` is applied (`EpochKey.mkEpoch`:
missing pairs `(p, q)`, `p ≠ q`, appended with rate 0 — the identity on the epochs `Demography.epochs` yields) -/
def parseEKEpoch? (s m : String) : Option Epoch := do
  let s ← if s.startsWith "s:" then some (s.drop 2).toString else none
  let m ← if m.startsWith "m:" then some (m.drop 2).toString else none
  return EpochKey.mkEpoch 0 none (← parseEKSizes? s) (← parseEKMig? m)

/-- `epochkey <variant current|combinations> s:<sizes> m:<mig> ; s:<sizes> m:<mig>` → `eq` | `ne`: whether the two
`Epoch` objects built from these constructor arguments compare equal (`__eq__`, i.e. equal `__hash__`) under the given
variant of `Epoch.__hash__`.  Populations are numbered by the harness (position of the name among the sorted names of
BOTH epochs); `<sizes>` = `<pop>=<rat>,…`, `<mig>` = `<src>><dst>=<rat>,…`, both IN DICT (insertion) ORDER, `-` if empty. -/
def handleEpochKey : List String → Option String
  | [v, s1, m1, ";", s2, m2] => do
    let v ← if v == "current" then some EpochKey.Variant.current
      else if v == "combinations" then some EpochKey.Variant.combinations else none
    let e1 ← parseEKEpoch? s1 m1
    let e2 ← parseEKEpoch? s2 m2
    return if EpochKey.eqUnder v e1 e2 then "eq" else "ne"
  | _ => none

/-! ## `parallel`: the work-distribution helper `utils.parallelize` (PGModel/Parallel.lean, C17) -/

/-- `parallel <variant current|unorderedWithPbar> <parallelize 0|1> <pbar 0|1> <data: naturals, comma separated|-> <schedule:
positions, comma separated|->` → the list `list(iterator)` of `parallelize(func, data, parallelize, pbar)` with `func := id`
(so the answer shows the ORDER in which the results come back) when the pool completes its units in the order `schedule`
(`Parallel.parallelizeCall`); `-` for the empty list.  `bad-request` unless `schedule` lists every position
`0 … len(data)-1` exactly once (`Parallel.isSchedule`). -/
def handleParallel : List String → Option String
  | [v, par, pbar, data, sched] => do
    let v ← if v == "current" then some Parallel.Variant.current
      else if v == "unorderedWithPbar" then some Parallel.Variant.unorderedWithPbar else none
    let par ← parseBool01? par
    let pbar ← parseBool01? pbar
    let data ← parseList? String.toNat? data
    let sched ← parseList? String.toNat? sched
    if !Parallel.isSchedule data.length sched then none
    return showListOr toString "," (Parallel.parallelizeCall v id data par pbar sched)
  | _ => none

def handle (c : Ctx) (line : String) : Ctx × String :=
  let toks := (line.trimAscii.toString.splitOn " ").filter (· != "")
  let bad := (c, "bad-request")
  match toks with
  | ["rates", m, bmax] =>
    match parseModel? m, bmax.toNat? with
    | some m, some bmax =>
      let out := (List.range (bmax + 1)).flatMap fun b => (List.range (b + 1)).filterMap fun k =>
        if k ≥ 2 then some s!"{b}:{k}:{showRat (lam m b k)}:{showRat (getRate m b k)}" else none
      (c, " ".intercalate out)
    | _, _ => bad
  | ["ratebc", m, n, bs, ks] =>
    match parseModel? m, n.toNat?, parseList? String.toNat? bs, parseList? String.toNat? ks with
    | some m, some n, some bs, some ks => (c, showRat (getRateBC m n bs ks))
    | _, _, _, _ => bad
  | ["coalesce", m, blocks] =>
    match parseModel? m, parseList? String.toNat? blocks with
    | some m, some blocks =>
      (c, " ".intercalate ((coalesceBlocks m blocks).map fun (b, r) => s!"{showNats b}={showRat r}"))
    | _, _ => bad
  | "space" :: kind :: m :: nvec :: nloci :: nunl :: rec :: ne :: rest =>
    match parseModel? m, parseList? String.toNat? nvec, nloci.toNat?, nunl.toNat?, parseRat? rec, ne.toNat? with
    | some m, some nvec, some nloci, some nunl, some rec, some ne =>
      let D := nvec.length
      let rec parseEp : Nat → List String → Option (List (EpochT × EpochP))
        | 0, [] => some []
        | 0, _ => none
        | k + 1, stop :: ts :: mig :: rest' =>
          match parseRatInf? stop, parseList? parseRat? ts, parseList? parseRat? mig, parseEp k rest' with
          | some stop, some ts, some mig, some tl =>
            let migM := (List.range D).map fun i => (List.range D).map fun j => getR mig (i * D + j)
            some (({ start := 0, stop := stop }, { ts := ts, mig := migM, recRate := rec }) :: tl)
          | _, _, _, _ => none
        | _, _ => none
      match parseEp ne rest with
      | none => bad
      | some eps =>
        -- fill in start times from the previous end
        let epsT := (eps.foldl (fun (acc : List EpochT × Rat) (p : EpochT × EpochP) =>
            (acc.1 ++ [{ start := acc.2, stop := p.1.stop }], p.1.stop.getD acc.2)) ([], (0 : Rat))).1
        let epsP := eps.map (·.2)
        let n := sumNat nvec
        let nBlocks := if kind == "bc" then n else 1
        let init := initialState nloci D nBlocks n
        match epsP.head? with
        | none => bad
        | some ep0 =>
          match bfs (transit m ep0) init 100000 with
          | none => (c, "error bfs-fuel")
          | some g =>
            let states := g.visited
            -- the code recomputes the transitions for every epoch over the same BFS
            let rowsAll := epsP.map fun ep =>
              match bfs (transit m ep) init 100000 with
              | some g' => sparseRows states g'.transitions
              | none => []
            let k := states.length
            let c' : Ctx := { model := m, nVec := nvec, nTot := n, nLoci := nloci, nUnl := nunl,
                              epochsT := epsT, epochsP := epsP, states := states,
                              rows := rowsAll,
                              gens := (rowsAll.map (denseGen k)).toArray,
                              alpha := alphaVec states nvec nloci nunl }
            (c', s!"ok {k}")
    | _, _, _, _, _, _ => bad
  | ["states"] => (c, " ".intercalate (c.states.map showState))
  | ["S", e] =>
    match e.toNat? with
    | some e =>
      let rows := c.rows.getD e []
      (c, " ".intercalate ((rows.zipIdx).flatMap fun (row, i) => row.map fun (j, r) => s!"{i}:{j}:{showRat r}"))
    | none => bad
  | ["alpha"] => (c, " ".intercalate (c.alpha.map showRat))
  | "reward" :: rest =>
    match parseReward? rest with
    | some (r, []) => (c, " ".intercalate ((c.rewardVec r).toList.map showRat))
    | _ => bad
  | "accum" :: k :: rest =>
    match k.toNat? with
    | some k =>
      match parseRewards? k rest with
      | some (rs, [ts]) =>
        match parseList? parseRat? ts with
        | some ts =>
          let f := c.rawAccum ts rs
          (c, " ".intercalate ((List.range ts.length).map fun i => showRat (f i)))
        | none => bad
      | _ => bad
    | none => bad
  | "moment" :: center :: permute :: k :: rest =>
    match k.toNat? with
    | some k =>
      match parseRewards? k rest with
      | some (rs, [ts]) =>
        match parseList? parseRat? ts with
        | some ts =>
          (c, " ".intercalate ((c.momentModel (center == "1") (permute == "1") rs ts).map showRat))
        | none => bad
      | _ => bad
    | none => bad
  | ["sfsmoment", kind, k, center, t] =>
    -- SFSDistribution.moment(k, center) at end time t: padded vector of per-bin moments
    match k.toNat?, parseRat? t with
    | some k, some t =>
      let folded := kind == "f"
      let ms := (sfsIndices folded c.nTot).map fun i =>
        (c.momentModel (center == "1") true (List.replicate k (sfsReward folded .unit i)) [t]).getD 0 0
      (c, " ".intercalate ((padSFS c.nTot ms).map showRat))
    | _, _ => bad
  | ["sfscov", kind, t] =>
    match parseRat? t with
    | some t =>
      let folded := kind == "f"
      let idx := sfsIndices folded c.nTot
      let mean := padSFS c.nTot (idx.map fun i => (c.momentModel false true [sfsReward folded .unit i] [t]).getD 0 0)
      let x := fun i j => (c.momentModel false false [sfsReward folded .unit i, sfsReward folded .unit j] [t]).getD 0 0
      -- tabulate x once
      let tab := idx.flatMap fun i => idx.map fun j => ((i, j), x i j)
      let cov := covSFS c.nTot idx (fun i j => (tab.lookup (i, j)).getD 0) mean
      (c, " ; ".intercalate (cov.map fun row => " ".intercalate (row.map showRat)))
    | none => bad
  | ["cdf", ts] =>
    match parseList? parseRat? ts with
    | some ts => (c, " ".intercalate ((c.cdf ts).map showRat))
    | none => bad
  | ["quantile", q, expansion, precision, maxIter] =>
    match parseRat? q, parseRat? expansion, parseRat? precision, maxIter.toNat? with
    | some q, some ex, some pr, some mi => (c, showRat (quantileLoop c.cdf1 q ex pr mi))
    | _, _, _, _ => bad
  | ["tabs", t0, pabs, maxIter] =>
    match parseRat? t0, parseRat? pabs, maxIter.toNat? with
    | some t0, some pa, some mi =>
      let (t, warn) := absorptionLoop c.cdf1 t0 pa mi
      (c, s!"{showRat t} {if warn then 1 else 0}")
    | _, _, _ => bad
  | "factors" :: ts :: [] =>
    match parseList? parseRat? ts with
    | some ts =>
      let fs := codeFactors c.epochsT (sortRat ts)
      (c, " ; ".intercalate (fs.map fun f => " ".intercalate (f.map fun (e, t) => s!"{e}:{showRat t}")))
    | none => bad
  | "epochs" :: opts :: count :: nev :: rest =>
    match count.toNat?, nev.toNat? with
    | some count, some nev =>
      match parseEvents? nev rest with
      | some (evs, []) =>
        (c, " ; ".intercalate ((epochsUpTo (parseOpts opts) evs count).map showEpoch))
      | _ => bad
    | _, _ => bad
  | "getepochs" :: opts :: count :: ts :: nev :: rest =>
    match count.toNat?, nev.toNat?, parseList? parseRat? ts with
    | some count, some nev, some ts =>
      match parseEvents? nev rest with
      | some (evs, []) =>
        let eps := epochsUpTo (parseOpts opts) evs count
        (c, " ".intercalate ((getEpochIdx eps ts).map fun
          | some i => toString i
          | none => "none"))
      | _ => bad
    | _, _, _ => bad
  | ["mutcfg", kind, theta, config] =>
    match parseRat? theta, parseList? String.toNat? config with
    | some theta, some config =>
      let nBins := if kind == "f" then c.nTot / 2 else c.nTot - 1
      let nonAbs := (c.states.zipIdx).filterMap fun (s, i) => if s.isAbsorbing then none else some i
      let S0 := c.gens.getD 0 #[]
      let S : RMat := (nonAbs.map fun i => (nonAbs.map fun j => (S0.getD i #[]).getD j 0).toArray).toArray
      let R := (List.range nBins).map fun b =>
        let r : Reward := if kind == "f" then .foldedSFS (b + 1) else .unfoldedSFS (b + 1)
        let v := c.rewardVec r
        (nonAbs.map fun i => v.getD i 0).toArray
      let alpha := (nonAbs.map fun i => c.alpha.getD i 0).toArray
      match mutConfigProb S R alpha theta config with
      | some p => (c, showRat p)
      | none => (c, "error singular")
    | _, _ => bad
  | ["unfold", n, config] =>
    match n.toNat?, parseList? String.toNat? config with
    | some n, some config => (c, " ".intercalate ((unfoldConfig n config).map showNats))
    | _, _ => bad
  | ["orderings", ms] =>
    match parseList? String.toNat? ms with
    | some ms => (c, " ".intercalate ((distinctOrderings ms).map showNats))
    | none => bad
  | ["partitions", n, k] =>
    match n.toNat?, k.toNat? with
    | some n, some k => (c, " ".intercalate ((partitionsOf n k).map showNats))
    | _, _ => bad
  | ["argsort", ts] =>
    match parseList? parseRat? ts with
    | some ts => (c, showNats (argsort ts) ++ " " ++ showNats (argsortNat (argsort ts)))
    | none => bad
  | "cache" :: uc :: e0 :: ops =>
    match handleCache uc e0 ops with
    | some ans => (c, ans)
    | none => bad
  | "infer" :: ops =>
    match handleInfer ops with
    | some ans => (c, ans)
    | none => bad
  | "inferlab" :: v :: bk :: x0 :: n :: runs =>
    match handleInferLab v bk x0 n runs with
    | some ans => (c, ans)
    | none => bad
  | "config" :: toks => match handleConfig toks with | some ans => (c, ans) | none => bad
  | "cfgepochs" :: toks => (c, (handleCfgEpochs toks).getD "bad-request")
  | "validate" :: toks =>
    match handleValidate toks with
    | some ans => (c, ans)
    | none => bad
  | "api" :: toks => (c, (handleApi toks).getD "bad-request")
  | "memo" :: toks => (c, (handleMemo toks).getD "bad-request")
  | "share" :: toks => (c, (handleShare toks).getD "bad-request")
  | "serial" :: toks => (c, (handleSerial toks).getD "bad-request")
  | "marginals" :: toks => (c, (handleMarginals c toks).getD "bad-request")
  | "demoobj" :: toks => (c, (handleDemoObj toks).getD "bad-request")
  | "epochkey" :: toks => (c, (handleEpochKey toks).getD "bad-request")
  | "parallel" :: toks => (c, (handleParallel toks).getD "bad-request")
  | ["loss", kind, a, b] =>
    -- PGModel/Loss.lean: exact value of the norm losses (numpy needs equal shapes: unequal lengths are a bad request)
    match parseList? parseRat? a, parseList? parseRat? b with
    | some a, some b =>
      if a.length != b.length then bad else
      match kind with
      | "l1" => (c, showRat (Loss.l1 a b))
      | "linf" => (c, showRat (Loss.linf a b))
      | "sql2" => (c, showRat (Loss.sqL2 a b))
      | _ => bad
    | _, _ => bad
  | ["lossmask", k] =>
    match parseList? parseRat? k with
    | some k => (c, showListOr (fun (b : Bool) => if b then "1" else "0") "," (Loss.skipZeroMask k))
    | none => bad
  | ["selftest"] =>
    -- exp of a nilpotent matrix is exact; exp(A)·exp(A) = exp(2A); rows of exp(Q) sum to one
    let nil := FMat.ofFn 3 fun i j => if j = i + 1 then 1 else 0
    let e := fixExp nil
    let okNil := e.get 0 2 == (fixOne >>> 1) && e.get 0 1 == fixOne && e.get 1 0 == 0
    let q : Nat → Nat → Rat := fun i j =>
      if i = 0 ∧ j = 0 then -3 else if i = 0 ∧ j = 1 then 3 else if i = 1 ∧ j = 1 then -1 else if i = 1 ∧ j = 2 then 1 else 0
    let a := fixExp (FMat.ofFn 3 q)
    let a2 := fixExp (FMat.ofFn 3 fun i j => 2 * q i j)
    let aa := a.mul a
    let tol : Int := (1 : Int) <<< (prec - 130)
    let okSq := (List.range 3).all fun i => (List.range 3).all fun j => (aa.get i j - a2.get i j).natAbs < tol.toNat
    let okRow := (List.range 3).all fun i => ((List.range 3).foldl (fun s j => s + a.get i j) (0 : Int) - fixOne).natAbs < tol.toNat
    -- exp(-3) to 40 digits
    let e3 := fixToRat (a.get 0 0)
    let ref : Rat := mkRat 4978706836786394297934241565006177663169 (10 ^ 41)
    let okVal := decide ((e3 - ref).abs < mkRat 1 (10 ^ 38))
    (c, s!"selftest nil={okNil} square={okSq} rows={okRow} value={okVal}")
  | _ => bad

partial def loop (h : IO.FS.Stream) (out : IO.FS.Stream) (c : Ctx) : IO Unit := do
  let line ← h.getLine
  if line.isEmpty then return ()
  let (c', ans) := handle c line
  out.putStrLn ans
  out.flush
  loop h out c'

def main : IO Unit := do
  loop (← IO.getStdin) (← IO.getStdout) {}
