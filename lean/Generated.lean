import Generated.Rates
