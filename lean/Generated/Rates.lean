/-
GENERATED FILE — do not edit. Written by harness/extract_rates.py from the Python AST of
phasegen/coalescent_models.py (sha256 of the source: 0240ddaa8c8ea513).
Primitives: `betaFn` (= scipy.special.beta), `Nat.choose` (= scipy.special.comb(exact=True)),
`binomPmfR` (= scipy.stats.binom.pmf), `Real.rpow` (= float **).
-/
import PGProofs.GenPrims

namespace PG.Gen
open PG

/-- translated from `StandardCoalescent._get_timescale` (phasegen/coalescent_models.py, line 134) -/
noncomputable def StandardCoalescent__get_timescale (N : ℝ) : ℝ :=
  N

/-- translated from `StandardCoalescent._get_rate` (phasegen/coalescent_models.py, line 143) -/
noncomputable def StandardCoalescent__get_rate (b : ℕ) (k : ℕ) : ℝ :=
  (if (k = 2) then ((((b : ℕ) : ℝ) * (((b : ℕ) : ℝ) - ((1 : ℕ) : ℝ))) / ((2 : ℕ) : ℝ)) else ((0 : ℕ) : ℝ))

/-- translated from `StandardCoalescent._get_rate_block_counting` (phasegen/coalescent_models.py, line 158) -/
noncomputable def StandardCoalescent__get_rate_block_counting (n : ℕ) (b : List ℕ) (k : List ℕ) : ℝ :=
  (if (b.length = 1) then (StandardCoalescent__get_rate (b.getD 0 0) (k.getD 0 0)) else (if (b.length = 2) then (if (((k.getD 0 0) = 1) ∧ ((k.getD 1 0) = 1)) then ((((b.getD 0 0) * (b.getD 1 0)) : ℕ) : ℝ) else ((0 : ℕ) : ℝ)) else ((0 : ℕ) : ℝ)))

/-- translated from `BetaCoalescent._get_base_rate` (phasegen/coalescent_models.py, line 297) -/
noncomputable def BetaCoalescent__get_base_rate (alpha : ℝ) (scale_time : Bool) (b : ℕ) (k : ℕ) : ℝ :=
  (let rate : ℝ := ((betaFn (((k : ℕ) : ℝ) - alpha) ((((b : ℕ) : ℝ) - ((k : ℕ) : ℝ)) + alpha)) / (betaFn alpha (((2 : ℕ) : ℝ) - alpha)));
    rate)

/-- translated from `BetaCoalescent._get_timescale` (phasegen/coalescent_models.py, line 309) -/
noncomputable def BetaCoalescent__get_timescale (alpha : ℝ) (scale_time : Bool) (N : ℝ) : ℝ :=
  (if (¬ (scale_time = true)) then N else (let m : ℝ := (((1 : ℕ) : ℝ) + ((((1 : ℕ) : ℝ) / (Real.rpow ((2 : ℕ) : ℝ) (alpha - ((1 : ℕ) : ℝ)))) / (alpha - ((1 : ℕ) : ℝ))));
    (let scale : ℝ := ((((Real.rpow m alpha) * (Real.rpow N (alpha - ((1 : ℕ) : ℝ)))) / alpha) / (betaFn (((2 : ℕ) : ℝ) - alpha) alpha));
    scale)))

/-- translated from `BetaCoalescent._get_rate` (phasegen/coalescent_models.py, line 325) -/
noncomputable def BetaCoalescent__get_rate (alpha : ℝ) (scale_time : Bool) (b : ℕ) (k : ℕ) : ℝ :=
  (if ((k < 1) ∨ (k > b)) then ((0 : ℕ) : ℝ) else (((Nat.choose b k : ℕ) : ℝ) * (BetaCoalescent__get_base_rate alpha scale_time b k)))

/-- translated from `BetaCoalescent._get_rate_block_counting` (phasegen/coalescent_models.py, line 339) -/
noncomputable def BetaCoalescent__get_rate_block_counting (alpha : ℝ) (scale_time : Bool) (n : ℕ) (b : List ℕ) (k : List ℕ) : ℝ :=
  (let combinations : ℝ := ((List.zipWith (fun b_i k_i => ((Nat.choose b_i k_i : ℕ) : ℝ)) b k).prod);
    (combinations * (BetaCoalescent__get_base_rate alpha scale_time n k.sum)))

/-- translated from `DiracCoalescent._get_timescale` (phasegen/coalescent_models.py, line 400) -/
noncomputable def DiracCoalescent__get_timescale (psi : ℝ) (c : ℝ) (scale_time : Bool) (N : ℝ) : ℝ :=
  (if (¬ (scale_time = true)) then N else (N ^ 2))

/-- translated from `DiracCoalescent._get_rate` (phasegen/coalescent_models.py, line 412) -/
noncomputable def DiracCoalescent__get_rate (psi : ℝ) (c : ℝ) (scale_time : Bool) (b : ℕ) (k : ℕ) : ℝ :=
  (let rate_binary : ℝ := (StandardCoalescent__get_rate b k);
    (let p_psi : ℝ := (binomPmfR k b psi);
    (let rate_multi : ℝ := (p_psi * c);
    (rate_binary + rate_multi))))

/-- translated from `DiracCoalescent._get_rate_block_counting` (phasegen/coalescent_models.py, line 432) -/
noncomputable def DiracCoalescent__get_rate_block_counting (psi : ℝ) (c : ℝ) (scale_time : Bool) (n : ℕ) (b : List ℕ) (k : List ℕ) : ℝ :=
  (let rate_binary : ℝ := (StandardCoalescent__get_rate_block_counting n b k);
    (let p_psi : ℝ := (((List.range k.length).map (fun i => (binomPmfR (k.getD i 0) (b.getD i 0) psi))).prod);
    (let p_psi : ℝ := if (b.sum < n) then (p_psi * (binomPmfR 0 (n - b.sum) psi)) else p_psi;
    (let rate_multi : ℝ := (p_psi * c);
    (let rate : ℝ := (rate_binary + rate_multi);
    rate)))))

end PG.Gen
