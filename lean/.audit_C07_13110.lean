import PGProperties.C07
#print axioms PG.C07.scatter_argsort
#print axioms PG.C07.scatter_argsort_general
#print axioms PG.C07.accumulate_pointwise
#print axioms PG.C07.cdf_pointwise
#print axioms PG.C07.get_epochs_pointwise
#print axioms PG.C07.argsort_is_permutation
#print axioms PG.C07.sorted
#print axioms PG.C07.pinned_counterexample
#print axioms PG.C07.pinned_correct_only_for_involutions
#print axioms PG.C07.example_three_cycle
