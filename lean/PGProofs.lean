import PGProofs.ExpLaw
import PGProofs.VanLoan
import PGProofs.Labelled
import PGProofs.RatesThm
import PGProofs.Schedule
import PGProofs.MomentsThm
import PGProofs.RewardsThm
import PGProofs.MutConfig
