/-
PGModel.Parallel — the work-distribution helper `utils.parallelize` and the assembly of its results
(property C17: "results do not depend on … parallel execution").

Mirror of /repo/phasegen/utils.py `parallelize` (l.12-45)

    if parallelize and len(data) > 1:  iterator = Pool().imap(func, data)
    else:                               iterator = map(func, data)
    if pbar:                            iterator = tqdm(iterator, …)
    return np.array(list(iterator), dtype=dtype)

and of the loops that put its results in place:
* `SFSDistribution.moment` (distributions.py l.1380-1388), `SFSDistribution.accumulate` (l.1451-1464):
  one unit per bin `i` of `indices = self._get_indices()`, result `k` belongs to bin `indices[k]`,
  bins 0 and above the last index stay 0;
* `SFSDistribution.cov` (l.1573-1596): `indices = [(i, j) …]`,
  `sfs = zeros((n+1, n+1)); for ((i, j), result) in zip(indices, sfs_results): sfs[i, j] = result`;
* `Inference._run` (inference.py l.377-385) / `bootstrap` (l.467-474): result `k` belongs to start
  point / resample `k`.

Abstractions
* one run of a worker pool is described by its SCHEDULE: the order in which the units complete, a list
  `sched : List Nat` of positions in `data`.  Every permutation of `List.range data.length` is a
  possible schedule (the operating system decides); a completion of a position that does not exist is
  ignored;
* `Pool.imap` (`imapOrdered`) is modelled operationally as the standard library implements it
  (`IMapIterator`: finished units are put into a buffer under their position, the consumer is handed the
  unit at position `next` as soon as it is there): the completions are processed in schedule order into a
  buffer `Nat → Option β`; after each completion the longest available run starting at `next` is emitted.
  What `list(iterator)` sees is the concatenation of everything emitted;
* `Pool.imap_unordered` (`imapUnordered`) hands the results over in completion order;
* `tqdm(iterator)` yields the items of `iterator` unchanged, in the same order: the flag `pbar` does not
  occur in the pinned variant.  The variant `unorderedWithPbar` is a seeded change
  (`pool.imap_unordered(func, data) if pbar else pool.imap(func, data)`);
* the unit function `func` is a pure function `f : α → β` (each worker evaluates it on its own copy of
  the object; that this copy answers like the original is the rest of C17).
No imports: this file is linked into the `pgdriver` executable.
-/

namespace PG.Parallel

variable {α β : Type}

/-! ### the pool -/

/-- the buffer of finished units not yet handed over (`IMapIterator._unsorted`), by position -/
abbrev Buffer (β : Type) := Nat → Option β

/-- put the result `v` of the unit at position `i` into the buffer -/
def Buffer.put (b : Buffer β) (i : Nat) (v : β) : Buffer β := fun j => if j = i then some v else b j

/-- the results at positions `next, next+1, …` as long as they are in the buffer (at most `fuel` of them) -/
def drain (b : Buffer β) : Nat → Nat → List β
  | 0, _ => []
  | fuel + 1, next =>
    match b next with
    | some v => v :: drain b fuel (next + 1)
    | none => []

/-- state of an ordered pool iterator: the buffer, the position the consumer waits for (`IMapIterator._index`)
and everything handed to the consumer so far -/
structure ImapState (β : Type) where
  buf : Buffer β
  next : Nat
  out : List β

def ImapState.init : ImapState β := { buf := fun _ => none, next := 0, out := [] }

/-- what one completion hands to the consumer: the unit at position `i` finishes, its result goes into the
buffer, and the longest run of buffered results starting at `next` is emitted -/
def emitted (f : α → β) (data : List α) (st : ImapState β) (i : Nat) : List β :=
  match data[i]? with
  | none => []
  | some x => drain (st.buf.put i (f x)) (data.length - st.next) st.next

/-- one completion -/
def imapStep (f : α → β) (data : List α) (st : ImapState β) (i : Nat) : ImapState β :=
  match data[i]? with
  | none => st
  | some x =>
    let buf := st.buf.put i (f x)
    let em := drain buf (data.length - st.next) st.next
    { buf := buf, next := st.next + em.length, out := st.out ++ em }

/-- the state of the iterator after the completions `sched` -/
def imapRun (f : α → β) (data : List α) (sched : List Nat) : ImapState β :=
  sched.foldl (imapStep f data) ImapState.init

/-- `list(Pool().imap(f, data))` when the units complete in the order `sched` -/
def imapOrdered (f : α → β) (data : List α) (sched : List Nat) : List β :=
  (imapRun f data sched).out

/-- what the consumer is handed after each single completion (one chunk per element of `sched`) -/
def imapOrderedChunks (f : α → β) (data : List α) : ImapState β → List Nat → List (List β)
  | _, [] => []
  | st, i :: rest => emitted f data st i :: imapOrderedChunks f data (imapStep f data st i) rest

/-- `list(Pool().imap_unordered(f, data))` when the units complete in the order `sched` -/
def imapUnordered (f : α → β) (data : List α) (sched : List Nat) : List β :=
  sched.filterMap fun i => data[i]?.map f

/-- is `sched` a possible schedule for `n` units: every position exactly once -/
def isSchedule (n : Nat) (sched : List Nat) : Bool :=
  sched.length == n && (List.range n).all fun i => sched.contains i

/-! ### `utils.parallelize` -/

inductive Variant where
  /-- the pinned code: `Pool().imap` -/
  | current
  /-- seeded change: `imap_unordered` when a progress bar is requested -/
  | unorderedWithPbar
  deriving DecidableEq, Repr

/-- `list(iterator)` of `parallelize(func, data, parallelize=par, pbar=pbar)` when the pool (if one is used)
completes its units in the order `sched` -/
def parallelizeCall (v : Variant) (f : α → β) (data : List α) (par pbar : Bool) (sched : List Nat) : List β :=
  if par && decide (data.length > 1) then
    match v with
    | .current => imapOrdered f data sched
    | .unorderedWithPbar => if pbar then imapUnordered f data sched else imapOrdered f data sched
  else
    data.map f

/-! ### putting the results in place -/

/-- `sfs = zeros(n + 1); for (i, result) in zip(indices, results): sfs[i] = result`
(for `indices = [1, …, m]` this is `[0] + list(results) + [0] * (n - m)` of `SFSDistribution.moment`,
see `assembleVec_eq_pad`) -/
def assembleVec (zero : β) (n : Nat) (indices : List Nat) (results : List β) : List β :=
  (indices.zip results).foldl (fun acc p => acc.set p.1 p.2) (List.replicate (n + 1) zero)

/-- `sfs = zeros((n + 1, n + 1)); for ((i, j), result) in zip(indices, results): sfs[i, j] = result` -/
def assembleMat (zero : β) (n : Nat) (indices : List (Nat × Nat)) (results : List β) : List (List β) :=
  (indices.zip results).foldl (fun acc p => acc.modify p.1.1 fun row => row.set p.1.2 p.2)
    (List.replicate (n + 1) (List.replicate (n + 1) zero))

/-- `m[i, j]` -/
def entry? (m : List (List β)) (i j : Nat) : Option β := m[i]?.bind fun row => row[j]?

/-- `SFSDistribution.moment` / `accumulate` with the per-bin computation `f`: the bins `indices` are handed to
`parallelize`, the results are put in place -/
def sfsVector (v : Variant) (zero : β) (n : Nat) (indices : List Nat) (f : Nat → β) (par pbar : Bool)
    (sched : List Nat) : List β :=
  assembleVec zero n indices (parallelizeCall v f indices par pbar sched)

/-- the matrix of second cross moments in `SFSDistribution.cov` with the per-cell computation `f` -/
def sfsMatrix (v : Variant) (zero : β) (n : Nat) (indices : List (Nat × Nat)) (f : Nat × Nat → β) (par pbar : Bool)
    (sched : List Nat) : List (List β) :=
  assembleMat zero n indices (parallelizeCall v f indices par pbar sched)

end PG.Parallel
