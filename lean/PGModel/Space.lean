/-
PGModel.Space — mirror of `phasegen/state_space.py`: `State`, `Transition.transit`
(`migrate_linked | migrate_unlinked`, `coalesce`, `recombine`, `add_target`),
`StateSpace.get_transitions` (the BFS), `_graph_to_matrix`, `alpha`.
-/
import PGModel.Rates

namespace PG

/-- A state is the pair of integer arrays `(lineages, linked)`, each indexed `[locus][deme][block]`
exactly like `State.data` in the code. -/
structure State where
  lin : List (List (List Nat))
  lnk : List (List (List Nat))
  deriving BEq, DecidableEq, Repr, Inhabited, Hashable

def get3 (a : List (List (List Nat))) (l d b : Nat) : Nat := ((a.getD l []).getD d []).getD b 0

def modify3 (a : List (List (List Nat))) (l d b : Nat) (f : Nat → Nat) : List (List (List Nat)) :=
  a.modify l fun x => x.modify d fun y => y.modify b f

def State.nLoci (s : State) : Nat := s.lin.length
def State.nDemes (s : State) : Nat := (s.lin.getD 0 []).length
def State.nBlocks (s : State) : Nat := ((s.lin.getD 0 []).getD 0 []).length

/-- lineages of locus `l` summed over demes and blocks. -/
def State.locusTotal (s : State) (l : Nat) : Nat :=
  sumNat ((s.lin.getD l []).map sumNat)

/-- `State.is_absorbing`: every locus has exactly one lineage left. -/
def State.isAbsorbing (s : State) : Bool :=
  (List.range s.nLoci).all fun l => s.locusTotal l == 1

def State.unl (s : State) (l d b : Nat) : Nat := get3 s.lin l d b - get3 s.lnk l d b

/-- What a state space needs from an epoch, with demes in the order of the sample configuration. -/
structure EpochP where
  /-- coalescent time scale of each deme (`model._get_timescale(pop_size)`) -/
  ts : List Rat
  /-- `mig[d1][d2]` = rate at which one lineage in `d1` moves to `d2` (backwards in time) -/
  mig : List (List Rat)
  /-- recombination rate -/
  recRate : Rat
  deriving Repr, BEq, Inhabited

def EpochP.m (e : EpochP) (d1 d2 : Nat) : Rat := (e.mig.getD d1 []).getD d2 0

abbrev Targets := Dict State Rat

/-- `Transition.migrate_unlinked`. -/
def migrateUnlinked (ep : EpochP) (s : State) : Targets :=
  (List.range s.nLoci).foldl (init := []) fun acc l =>
    ((pairs s.nDemes).filter fun p => p.1 != p.2).foldl (init := acc) fun acc (d1, d2) =>
      (List.range s.nBlocks).foldl (init := acc) fun acc b =>
        if get3 s.lin l d1 b > 0 ∧ s.unl l d1 b > 0 then
          let t : State := { s with lin := modify3 (modify3 s.lin l d1 b (· - 1)) l d2 b (· + 1) }
          Dict.addTarget acc t (ep.m d1 d2 * (s.unl l d1 b : Rat))
        else acc

/-- `Transition.migrate_linked` (empty for one locus). -/
def migrateLinked (ep : EpochP) (s : State) : Targets :=
  if s.nLoci = 1 then [] else
  ((pairs s.nDemes).filter fun p => p.1 != p.2).foldl (init := []) fun acc (d1, d2) =>
    (List.range s.nBlocks).foldl (init := acc) fun acc b =>
      if ((List.range s.nLoci).all fun l => get3 s.lin l d1 b != 0) ∧
         ((List.range s.nLoci).all fun l => get3 s.lnk l d1 b > 0) then
        let mv := fun (a : List (List (List Nat))) =>
          (List.range s.nLoci).foldl (init := a) fun a l =>
            modify3 (modify3 a l d1 b (· - 1)) l d2 b (· + 1)
        let t : State := { lin := mv s.lin, lnk := mv s.lnk }
        Dict.addTarget acc t (ep.m d1 d2 * (get3 s.lnk 0 d1 b : Rat))
      else acc

def migrate (ep : EpochP) (s : State) : Targets :=
  Dict.union (migrateLinked ep s) (migrateUnlinked ep s)

/-- `Transition.coalesce` for one locus. -/
def coalesce1 (m : Model) (ep : EpochP) (s : State) : Targets :=
  (List.range s.nDemes).foldl (init := []) fun acc d =>
    (coalesceBlocks m ((s.lin.getD 0 []).getD d [])).foldl (init := acc) fun acc (blk, rate) =>
      let t : State := { s with lin := s.lin.modify 0 fun x => x.set d blk }
      Dict.addTarget acc t (rate / getR ep.ts d)

/-- The three lineage classes of the two-locus chain in the order of the code's `bins` dict. -/
inductive Cls where
  | linked | unlinked1 | unlinked2
  deriving BEq, DecidableEq, Repr

def Cls.count (s : State) (d : Nat) : Cls → Nat
  | .linked => get3 s.lnk 0 d 0
  | .unlinked1 => s.unl 0 d 0
  | .unlinked2 => s.unl 1 d 0

def Cls.idx : Cls → Nat
  | .linked => 0 | .unlinked1 => 1 | .unlinked2 => 2

def clsPairs : List (Cls × Cls) :=
  [.linked, .unlinked1, .unlinked2].flatMap fun a => [.linked, .unlinked1, .unlinked2].map fun b => (a, b)

/-- `Transition.coalesce` for two loci (lineage counting, Kingman). -/
def coalesce2 (m : Model) (ep : EpochP) (s : State) : Targets :=
  (List.range s.nDemes).foldl (init := []) fun acc d =>
    let tsd := getR ep.ts d
    clsPairs.foldl (init := acc) fun acc (c1, c2) =>
      if c1 == c2 then
        if c1.count s d < 2 then acc else
        let rate := getRate m (c1.count s d) 2
        match c1 with
        | .unlinked1 =>
            Dict.addTarget acc { s with lin := modify3 s.lin 0 d 0 (· - 1) } (rate / tsd)
        | .unlinked2 =>
            Dict.addTarget acc { s with lin := modify3 s.lin 1 d 0 (· - 1) } (rate / tsd)
        | .linked =>
            if get3 s.lnk 0 d 0 > 0 ∧ get3 s.lnk 1 d 0 > 0 then
              let dec := fun a => modify3 (modify3 a 0 d 0 (· - 1)) 1 d 0 (· - 1)
              Dict.addTarget acc { lin := dec s.lin, lnk := dec s.lnk } (rate / tsd)
            else acc
      else if c1.idx < c2.idx then
        if c1.count s d < 1 ∨ c2.count s d < 1 then acc else
        let rate : Rat := (c1.count s d : Rat) * (c2.count s d : Rat)
        if c1 == .linked then
          -- mixed coalescence of a linked and an unlinked lineage
          let locus := if c2 == .unlinked1 then 0 else 1
          if get3 s.lin locus d 0 > 1 then
            Dict.addTarget acc { s with lin := modify3 s.lin locus d 0 (· - 1) } (rate / tsd)
          else acc
        else
          -- locus coalescence of two unlinked lineages
          if s.unl 0 d 0 > 0 ∧ s.unl 1 d 0 > 0 then
            Dict.addTarget acc
              { s with lnk := modify3 (modify3 s.lnk 0 d 0 (· + 1)) 1 d 0 (· + 1) } (rate / tsd)
          else acc
      else acc

/-- `Transition.recombine` (lineage counting). -/
def recombine (ep : EpochP) (s : State) : Targets :=
  if s.nLoci = 1 then [] else
  (List.range s.nDemes).foldl (init := []) fun acc d =>
    if (List.range s.nLoci).all fun l => ((s.lnk.getD l []).getD d []).all (· > 0) then
      let lnk' := (List.range s.nLoci).foldl (init := s.lnk) fun a l =>
        a.modify l fun x => x.modify d fun y => y.map (· - 1)
      let t : State := { s with lnk := lnk' }
      Dict.addTarget acc t (ep.recRate * (get3 s.lnk 0 d 0 : Rat))
    else acc

/-- `Transition.transit`. -/
def transit (m : Model) (ep : EpochP) (s : State) : Targets :=
  let targets := Dict.union [] (migrate ep s)
  if s.isAbsorbing then targets else
  let targets := Dict.union targets (if s.nLoci = 1 then coalesce1 m ep s else coalesce2 m ep s)
  Dict.union targets (recombine ep s)

/-- `_get_initial`: all `n` lineages of every locus in deme 0, block 0, nothing linked. -/
def initialState (nLoci nDemes nBlocks n : Nat) : State :=
  let zero := List.replicate nLoci (List.replicate nDemes (List.replicate nBlocks 0))
  { lin := (List.range nLoci).foldl (init := zero) fun a l => modify3 a l 0 0 (fun _ => n)
    lnk := zero }

structure Graph where
  visited : List State
  transitions : List ((State × State) × Rat)
  deriving Inhabited

/-- One sweep of the `while True` loop of `get_transitions` over the current `sources`. -/
def bfsSweep (step : State → Targets) (g : Graph) (sources : List State) : Graph × List State :=
  sources.foldl (init := (g, [])) fun (g, newT) src =>
    if g.visited.contains src then (g, newT) else
    let targets := step src
    ({ visited := g.visited ++ [src]
       transitions := g.transitions ++ targets.map fun (t, r) => ((src, t), r) },
     targets.foldl (fun acc (t, _) => if acc.contains t then acc else acc ++ [t]) newT)

/-- `StateSpace.get_transitions`, with fuel; `none` = the sweep limit was hit. -/
def bfs (step : State → Targets) (init : State) : Nat → Option Graph
  | fuel => go fuel { visited := [], transitions := [] } [init]
where
  go : Nat → Graph → List State → Option Graph
    | 0, _, _ => none
    | fuel + 1, g, sources =>
      let (g', newT) := bfsSweep step g sources
      if newT.isEmpty then some g' else go fuel g' newT

/-- `_graph_to_matrix`: entry `(i, j)` of the rate matrix over the state list `states`. -/
def rateEntry (states : List State) (tr : List ((State × State) × Rat)) (i j : Nat) : Rat :=
  let offdiag := fun (i j : Nat) =>
    match states[i]?, states[j]? with
    | some a, some b => (tr.filter fun p => p.1.1 == a && p.1.2 == b).getLast?.map (·.2) |>.getD 0
    | _, _ => 0
  if i = j then
    -- S[diag] = -sum(row), where the row sum includes whatever was written on the diagonal
    - sumRat ((List.range states.length).map fun j' => offdiag i j')
  else offdiag i j

/-- Sparse rate matrix: for every source index the list of `(target index, rate)`. Diagonal excluded. -/
def sparseRows (states : List State) (tr : List ((State × State) × Rat)) : List (List (Nat × Rat)) :=
  states.map fun a =>
    (tr.filter fun p => p.1.1 == a).map fun p => (states.idxOf p.1.2, p.2)

/-- `LineageConfig._get_initial_states * LocusConfig._get_initial_states`, normalised. -/
def alphaVec (states : List State) (nVec : List Nat) (nLoci nUnlinked : Nat) : List Rat :=
  let n := sumNat nVec
  let nLinked := n - nUnlinked
  let ind := states.map fun s =>
    let pops := (List.range nLoci).all fun l =>
      (List.range nVec.length).all fun d => get3 s.lin l d 0 == getN nVec d
    let loci := if nLoci = 1 then true else
      (List.range nLoci).all fun l => sumNat ((s.lnk.getD l []).map sumNat) == nLinked
    if pops && loci then (1 : Rat) else 0
  let tot := sumRat ind
  ind.map (· / tot)

end PG
