/-
PGModel.Loss — the loss functions an `Inference` is given (property C19).

Mirror of /repo/phasegen/norms.py:
`LNorm.compute(a, b) = np.linalg.norm(a - b, ord=p)` for `p = 1` (`L1Norm`), `p = inf` (`LInfNorm`) and
`p = 2` (`L2Norm`; the model keeps the SQUARE of the 2-norm, which is exact over `Rat`).
numpy's `a - b` needs equal shapes; the model uses `List.zipWith`, i.e. it is total and truncates to the
shorter vector (the theorems of PGProofs/LossThm.lean that need it carry `a.length = b.length`).
`np.linalg.norm(·, inf)` of an empty vector raises; the model answers 0 there.

`skipZeroMask` is the selection `seen = k > 0` of the seeded variant of `PoissonLikelihood.compute`
(sum over the classes with a positive observed count only); the Poisson likelihood itself needs
`log` and lives over ℝ in PGProofs/LossThm.lean.
No imports: this file is linked into the `pgdriver` executable (driver command `loss`).
-/

namespace PG.Loss

/-- `abs` on `Rat` (same as core `Rat.abs`, kept local so that the proofs unfold one definition). -/
def absQ (q : Rat) : Rat := if 0 ≤ q then q else -q

/-- `a - b`, entry by entry. -/
def diffs (a b : List Rat) : List Rat := List.zipWith (· - ·) a b

/-- `np.linalg.norm(a - b, ord=1)` -/
def l1 (a b : List Rat) : Rat := ((diffs a b).map absQ).sum

/-- `max` on `Rat`, spelled out (`if a ≤ b then b else a`). -/
def maxQ (a b : Rat) : Rat := if a ≤ b then b else a

/-- `np.linalg.norm(a - b, ord=inf)` (0 for empty vectors) -/
def linf (a b : List Rat) : Rat := ((diffs a b).map absQ).foldr maxQ 0

/-- `np.linalg.norm(a - b, ord=2) ** 2` -/
def sqL2 (a b : List Rat) : Rat := ((diffs a b).map fun d => d * d).sum

/-- `seen = k > 0` of the seeded `PoissonLikelihood.compute` -/
def skipZeroMask (k : List Rat) : List Bool := k.map fun x => decide (0 < x)

/-- `v[seen]`: the entries of `v` at the positions where the mask is set (boolean-mask indexing). -/
def select {α : Type} : List Bool → List α → List α
  | true :: m, x :: v => x :: select m v
  | false :: m, _ :: v => select m v
  | _, _ => []

end PG.Loss
