/-
PGModel.EpochKey — what `Epoch.__eq__` / `Epoch.__hash__` compare: the link between the ABSTRACT cache keys of
`PGModel/Cache.lean` ("a key stands for that content") and the CONCRETE epochs of `PGModel/Demography.lean`.

Mirror of /repo/phasegen/demography.py
* `Epoch.__init__` l.451-497: `self.pop_sizes = pop_sizes.copy()`, `migration_rates.copy()` (insertion order kept), every
  missing pair `(p, q)`, `p != q`, appended with rate 0 (`fillMissing`; the epochs of `Demography.epochs` already hold
  every pair INCLUDING the self pairs `(p, p)`, l.185: `itertools.product(self.pop_names, repeat=2)`, so nothing is added);
* `Epoch.__eq__` l.505-512: `hash(self) == hash(other)`;
* `Epoch.__hash__` l.514-524: `hash((tuple(self.pop_sizes.items()), tuple(self.migration_rates.items())))`
  — the items of both dicts IN INSERTION ORDER; `start_time` / `end_time` are not hashed;
* `StateSpace.update_epoch` (state_space.py l.268-279): `if self.epoch != epoch: self.drop_S()`, and `_cache` is a dict
  keyed by epochs, i.e. by `__hash__` / `__eq__`.

TRUSTED ASSUMPTION.  `key e` is the tuple that is hashed, and Python's `hash` of such a tuple is taken to be INJECTIVE on
the tuples that occur (names are `str`, values are `int`/`float`): `epochEq e₁ e₂ := key e₁ == key e₂`.  Numerically
equal values hash alike (`hash(1) == hash(1.0)`), which the `Rat`-valued model reflects: the harness converts every value
to its exact rational.  Outside the assumption: 64-bit hash collisions in general and CPython's `hash(-1) == hash(-2)`
(negative sizes / rates are rejected elsewhere), `nan`.

The variant `combinations` is a seeded change (delivered twice, independently): the hash runs over the SORTED population
names and over `itertools.combinations(self.pop_names, 2)` only — every pair `(p, q)` with `p < q`, never `(q, p)`.

Populations are natural numbers (the harness numbers the names in sorted order, as in `PGModel/Demography.lean`).
No imports beyond the model: this file is linked into `pgdriver` (command `epochkey`).
-/
import PGModel.Demography
import PGModel.Cache

namespace PG.EpochKey

open PG

/-- The type of the hashed tuple: `(tuple(pop_sizes.items()), tuple(migration_rates.items()))`. -/
abbrev KeyT := List (Nat × Rat) × List ((Nat × Nat) × Rat)

/-- The tuple `Epoch.__hash__` hashes: the items of both dicts in insertion order.  Times are not part of it. -/
def key (e : Epoch) : KeyT := (e.sizes, e.mig)

/-- `Epoch.__eq__`: `hash(self) == hash(other)` (hash taken as injective on the tuples, see the header). -/
def epochEq (e₁ e₂ : Epoch) : Bool := key e₁ == key e₂

/-- Whether `StateSpace.update_epoch(new)` drops `S` while `self.epoch = cur`: `if self.epoch != epoch`. -/
def updateDrops (cur new : Epoch) : Bool := !epochEq cur new

/-- An epoch object with the given key (times arbitrary: they are not part of the key). -/
def ofKey (k : KeyT) : Epoch := { start := 0, stop := none, sizes := k.1, mig := k.2 }

/-- `Epoch.__init__` l.489-493: `for p in pop_sizes: for q in pop_sizes: if p != q and (p, q) not in migration_rates:
migration_rates[(p, q)] = 0` — missing pairs are APPENDED, in the order of the size dict. -/
def fillMissing (sizes : Dict Nat Rat) (mig : Dict (Nat × Nat) Rat) : Dict (Nat × Nat) Rat :=
  (sizes.map (·.1)).foldl (fun m p =>
    (sizes.map (·.1)).foldl (fun m q =>
      if p != q && !(m.any fun kv => kv.1 == (p, q)) then m ++ [((p, q), (0 : Rat))] else m) m) mig

/-- `Epoch(start_time, end_time, pop_sizes, migration_rates)` as the constructor leaves it. -/
def mkEpoch (start : Rat) (stop : Option Rat) (sizes : Dict Nat Rat) (mig : Dict (Nat × Nat) Rat) : Epoch :=
  { start := start, stop := stop, sizes := sizes, mig := fillMissing sizes mig }

/-! ### the seeded variant `combinations` -/

/-- `self.pop_names = sorted(list(self.pop_sizes.keys()))` -/
def popNamesOf (e : Epoch) : List Nat := dedupSorted (e.sizes.map (·.1))

/-- `itertools.combinations(names, 2)`: the pairs `(names[i], names[j])`, `i < j`, in lexicographic position order. -/
def combinations2 : List Nat → List (Nat × Nat)
  | [] => []
  | p :: rest => rest.map (fun q => (p, q)) ++ combinations2 rest

/-- The tuple the seeded `__hash__` hashes: `tuple((p, pop_sizes[p]) for p in pop_names)` and
`tuple((k, migration_rates[k]) for k in itertools.combinations(pop_names, 2))` (`none` = `KeyError`). -/
def keyComb (e : Epoch) : List (Nat × Option Rat) × List ((Nat × Nat) × Option Rat) :=
  ((popNamesOf e).map fun p => (p, e.sizes.lookup p),
   (combinations2 (popNamesOf e)).map fun k => (k, e.mig.lookup k))

/-- `Epoch.__eq__` under the seeded change. -/
def epochEqComb (e₁ e₂ : Epoch) : Bool := keyComb e₁ == keyComb e₂

inductive Variant where
  | current
  | combinations
  deriving DecidableEq, Repr

/-- `e₁ == e₂` (equivalently `hash(e₁) == hash(e₂)`) of the real objects under the given `__hash__`. -/
def eqUnder : Variant → Epoch → Epoch → Bool
  | .current => epochEq
  | .combinations => epochEqComb

/-! ### the cache, keyed by epochs

`StateSpace._cache` and `update_epoch` touch an epoch only through `__hash__` / `__eq__`: an operation on an epoch object
IS the operation on its key. -/

/-- an operation of `PGModel/Cache.lean` on epoch objects, as the dict / the comparison see it -/
def liftOp : Cache.Op Epoch → Cache.Op KeyT
  | .updateEpoch e => .updateEpoch (key e)
  | .getS => .getS
  | .dropS => .dropS
  | .dropCache => .dropCache
  | .touchStates => .touchStates

end PG.EpochKey
