/-
PGModel.Memo — the DISTRIBUTION-LEVEL memoisation of `phasegen` (properties C17 and C15 (f)).

Mirror of the bookkeeping (not of the numerics) in /repo/phasegen/distributions.py and rewards.py:

* `_make_hashable` (l.36-61) + `functools.cache` on `PhaseTypeDistribution.moment` (l.613-672),
  `PhaseTypeDistribution._accumulate` (l.784-884), `SFSDistribution.moment` (l.1351),
  `Coalescent.moment` (l.2621) and `SFSDistribution._get_P` (l.1655);
* the `cached_property` slots `mean`, `var` (l.571-583), `cov` (l.1572-1606), `corr` (l.1627-1640);
* what `functools.cache` compares: `Reward.__hash__` / `__eq__` (rewards.py l.28-45), the `__hash__` of
  `SFSReward`, `LineageReward`, `DemeReward`, `LocusReward` (l.198, 297, 342, 380) and
  `CompositeReward.__hash__` (l.473-480).

How a lookup works in Python.  `functools.cache` stores results in a dict whose key is the tuple of the
arguments AS PASSED (`self`, the positional arguments, a marker, then the keyword arguments in call
order).  A dict lookup compares hashes first and then calls `==`; tuples compare element-wise; for rewards
`__eq__` is `self.__class__ == other.__class__ and hash(self) == hash(other)`, which already implies equal
hashes.  Hence two reward arguments are "the same key" iff (same class ∧ same hash).

Idealisations (stated once, used everywhere below)
* (H) Python's `hash` of a `str` (and of a tuple / frozenset of hashes) is treated as INJECTIVE on the
  values that occur: `hash(x) = hash(y)` is modelled by equality of the thing that is hashed, the
  structural pre-hash key `RKey` of `PGModel/Routes.lean` (`Reward.key`).  Also `cls + str(param)` is read
  back unambiguously (class names end in a letter, parameters are printed as decimal integers; a
  `DemeReward` is keyed by the index of its population on the deme axis, not by the name string).
* (S) the key of a call is its argument VALUES with `none` = "argument omitted".  The library's own calls
  (`self.moment(k=1)`, `self.moment(k=2, center=True)`, `self._accumulate(k, tuple(end_times), r)`) and the
  correspondence probe pass keyword arguments in signature order and never pass an explicit `None`.
  `functools.cache` additionally distinguishes positional from keyword passing and the keyword order;
  other call shapes only produce additional misses.  `1`, `1.0` and `True` are equal keys in Python; the
  model's `k` is a natural number, its times are rationals, its flags Booleans.
* (O) one object: `functools.cache` on a method is keyed by `self` as well, and shared by all instances;
  `State` is the part of that table (plus the instance `__dict__`) which belongs to ONE distribution.
* (N) the numerical work is a parameter (`Fresh`): `acc` is the numerical part of `_accumulate`, `plan` /
  `finish` say which uncentred `accumulate` calls a `moment` call makes and how it combines them (the call
  layer itself is `PGModel/Api.lean`), `cov`, `corrOf`, `getP` the array arithmetic of the properties.
  Errors (`ValueError`, NaN guard) are not modelled: a call that raises stores nothing.
* the memo traffic of `SFSDistribution.cov` on `CombinedReward` keys (which no public query can produce)
  and the per-bin calls of `SFSDistribution.moment` are not modelled; `cov` is a function of `mean`.

Variants = the seeded defects that lived here (see `Variant`).
No imports beyond PGModel: this file is linked into the `pgdriver` executable.
-/
import PGModel.Routes
import PGModel.Moments

namespace PG.Memo

/-! ## 1. what `functools.cache` compares -/

/-- How a reward is turned into the thing `functools.cache` compares. -/
inductive KeyScheme where
  /-- the pinned code: `hash(self.__class__.__name__ [+ str(param)])`, composites
  `hash(self.__class__.__name__ + str([hash(r) for r in self.rewards]))` -/
  | current
  /-- seeded defect (1): `CompositeReward.__hash__` returns
  `hash((self.__class__.__name__, frozenset(self.rewards)))`: the children are a SET
  (duplicates collapse, the order is lost) -/
  | frozensetComposite
  /-- seeded defect (2): `Reward.__hash__` returns `hash(__class__.__name__)`, i.e. `hash("Reward")`, for
  every class that inherits it (the stateless rewards); `__eq__` still compares the classes, but only of
  the two objects it is called on -/
  | baseClassHash
  deriving DecidableEq, Repr, Inhabited

mutual
/-- structural equality of pre-hash keys (the derived `BEq RKey` does not reduce in the kernel) -/
def keqb : RKey → RKey → Bool
  | .atom c p, .atom c' p' => c == c' && p == p'
  | .comp c ks, .comp c' ks' => c == c' && keqbList ks ks'
  | .atom _ _, .comp _ _ => false
  | .comp _ _, .atom _ _ => false
def keqbList : List RKey → List RKey → Bool
  | [], [] => true
  | k :: ks, k' :: ks' => keqb k k' && keqbList ks ks'
  | [], _ :: _ => false
  | _ :: _, [] => false
end

mutual
/-- equality of keys when the children of a composite are compared as a SET of hashes
(`frozenset`: every child of the one occurs among the children of the other, and back) -/
def ksetEq : RKey → RKey → Bool
  | .atom c p, .atom c' p' => c == c' && p == p'
  | .comp c ks, .comp c' ks' => c == c' && kAllIn ks ks' && ks'.all (fun l => kAnyEq ks l)
  | .atom _ _, .comp _ _ => false
  | .comp _ _, .atom _ _ => false
/-- every key of the first list occurs in the second -/
def kAllIn : List RKey → List RKey → Bool
  | [], _ => true
  | k :: ks, ls => ls.any (fun l => ksetEq k l) && kAllIn ks ls
/-- some key of the list equals `l` -/
def kAnyEq : List RKey → RKey → Bool
  | [], _ => false
  | k :: ks, l => ksetEq k l || kAnyEq ks l
end

mutual
/-- the pre-hash key under defect (2): the classes that INHERIT `Reward.__hash__` all hash the string
`"Reward"`; the classes with their own `__hash__` (`self.__class__.__name__ + str(param)`) and the
composites (class name + list of the children's HASHES) are as before -/
def baseKey : Reward → RKey
  | .treeHeight => .atom "Reward" none
  | .totalTreeHeight => .atom "Reward" none
  | .totalBranchLength => .atom "Reward" none
  | .unit => .atom "Reward" none
  | .unfoldedSFS i => .atom "UnfoldedSFSReward" (some i)
  | .foldedSFS i => .atom "FoldedSFSReward" (some i)
  | .lineage n => .atom "LineageReward" (some n)
  | .deme idx => .atom "DemeReward" (some idx)
  | .locus l => .atom "LocusReward" (some l)
  | .tblLocus l => .atom "TotalBranchLengthLocusReward" (some l)
  | .prod rs => .comp "ProductReward" (baseKeys rs)
  | .sum rs => .comp "SumReward" (baseKeys rs)
def baseKeys : List Reward → List RKey
  | [] => []
  | r :: rs => baseKey r :: baseKeys rs
end

/-- the class name inside a key -/
def clsOf : RKey → String
  | .atom c _ => c
  | .comp c _ => c

/-- `self.__class__ == other.__class__` (the classes of rewards.py have pairwise different names) -/
def sameClass (r r' : Reward) : Bool := clsOf r.key == clsOf r'.key

/-- `Reward.__eq__` as `functools.cache` sees it: same class ∧ same hash, the hash modelled by the
pre-hash key of the scheme (idealisation (H)). -/
def keyEq : KeyScheme → Reward → Reward → Bool
  | .current, r, r' => sameClass r r' && keqb r.key r'.key
  | .frozensetComposite, r, r' => sameClass r r' && ksetEq r.key r'.key
  | .baseClassHash, r, r' => sameClass r r' && keqb (baseKey r) (baseKey r')

/-- tuples compare element-wise (and by length) -/
def keyEqList (s : KeyScheme) : List Reward → List Reward → Bool
  | [], [] => true
  | r :: rs, r' :: rs' => keyEq s r r' && keyEqList s rs rs'
  | [], _ :: _ => false
  | _ :: _, [] => false

/-- an omitted `rewards` argument equals only an omitted one -/
def keyEqOpt (s : KeyScheme) : Option (List Reward) → Option (List Reward) → Bool
  | none, none => true
  | some rs, some rs' => keyEqList s rs rs'
  | none, some _ => false
  | some _, none => false

/-- the arguments of `moment(k, rewards, start_time, end_time, center, permute)`; `none` = omitted -/
structure MomentArgs where
  k : Nat
  rewards : Option (List Reward) := none
  start : Option Rat := none
  stop : Option Rat := none
  center : Option Bool := none
  permute : Option Bool := none
  deriving Repr, Inhabited

/-- the arguments of `_accumulate(k, end_times, rewards)` (always all three, positionally) -/
structure AccArgs where
  k : Nat
  endTimes : List Rat
  rewards : List Reward
  deriving Repr, Inhabited

def momentEq (s : KeyScheme) (a b : MomentArgs) : Bool :=
  a.k == b.k && keyEqOpt s a.rewards b.rewards && a.start == b.start && a.stop == b.stop
    && a.center == b.center && a.permute == b.permute

def accEq (s : KeyScheme) (a b : AccArgs) : Bool :=
  a.k == b.k && a.endTimes == b.endTimes && keyEqList s a.rewards b.rewards

/-! ## 2. a memo table -/

/-- the dict of `functools.cache` (insertion ordered association list) -/
abbrev Memo (κ V : Type) := List (κ × V)

/-- dict lookup: the first stored key that compares equal to the probe -/
def lookup {κ V} (eq : κ → κ → Bool) : Memo κ V → κ → Option V
  | [], _ => none
  | (k', v) :: m, k => if eq k' k then some v else lookup eq m k

/-- `d[k] = v`: an equal stored key keeps its key object and gets the new value; otherwise append -/
def insert {κ V} (eq : κ → κ → Bool) : Memo κ V → κ → V → Memo κ V
  | [], k, v => [(k, v)]
  | (k', v') :: m, k, v => if eq k' k then (k', v) :: m else (k', v') :: insert eq m k v

/-- a memoised call with a pure body: hit → the stored value, miss → compute, store, return.
The flag says whether it was a hit. -/
def callMemo {κ V} (eq : κ → κ → Bool) (compute : κ → V) (m : Memo κ V) (k : κ) : Memo κ V × V × Bool :=
  match lookup eq m k with
  | some v => (m, v, true)
  | none => let v := compute k; (insert eq m k v, v, false)

/-! ## 3. the object -/

inductive CorrImpl where
  /-- `SFS2(self.cov.data / np.outer(std, std))`: a new array -/
  | fresh
  /-- seeded defect (3): `corr = self.cov.data; corr /= np.outer(std, std)`: the array of the cached `cov`
  is overwritten -/
  | inPlace
  deriving DecidableEq, Repr, Inhabited

inductive SumImpl where
  /-- `np.sum([self._accumulate(k, tuple(end_times), r) for r in permutations], axis=0)`: a new array -/
  | fresh
  /-- seeded defect (4b): `acc = self._accumulate(…, permutations[0]); for r in permutations[1:]:
  acc += self._accumulate(…, r)`: the array stored in the memo for the first permutation is the running sum -/
  | inPlaceSum
  deriving DecidableEq, Repr, Inhabited

inductive PKey where
  /-- `@cache def _get_P(self, n, theta)` -/
  | withTheta
  /-- seeded defect (4a): the memo is keyed by `n` only -/
  | noTheta
  deriving DecidableEq, Repr, Inhabited

structure Variant where
  scheme : KeyScheme := .current
  corr : CorrImpl := .fresh
  sum : SumImpl := .fresh
  pkey : PKey := .withTheta
  deriving DecidableEq, Repr, Inhabited

/-- the pinned code -/
def Variant.current : Variant := {}
def Variant.frozensetComposite : Variant := { scheme := .frozensetComposite }
def Variant.baseClassHash : Variant := { scheme := .baseClassHash }
def Variant.corrInPlace : Variant := { corr := .inPlace }
def Variant.inPlaceSum : Variant := { sum := .inPlaceSum }
def Variant.getPNoTheta : Variant := { pkey := .noTheta }

/-- one uncentred `accumulate(k, end_times, rewards, center=False, permute)` call (l.775-782) -/
structure AccCall where
  k : Nat
  endTimes : List Rat
  rewards : List Reward
  permute : Bool
  deriving Repr, Inhabited

/-- the `_accumulate` calls it makes, in order: one per ordering of the rewards
(`itertools.permutations`, the identity first), or the single call -/
def AccCall.calls (g : AccCall) : List AccArgs :=
  if g.permute then (perms g.rewards).map fun r => { k := g.k, endTimes := g.endTimes, rewards := r }
  else [{ k := g.k, endTimes := g.endTimes, rewards := g.rewards }]

/-- The numerical work, as done by a fresh object (idealisation (N)). -/
structure Fresh (V : Type) where
  /-- the numerical part of `_accumulate(k, end_times, rewards)` -/
  acc : AccArgs → V
  /-- the uncentred `accumulate` calls a `moment` call makes (defaults resolved, centring expanded) -/
  plan : MomentArgs → List AccCall
  /-- how `moment` combines their values (centring polynomial, `m_end - m_start`, `float`) -/
  finish : MomentArgs → List V → V
  /-- array addition and `/ len(permutations)` -/
  add : V → V → V
  divN : V → Nat → V
  /-- `cov` from `mean` (`(sfs + sfs.T) / 2 - np.outer(mean, mean)`) -/
  cov : V → V
  /-- `corr` from `cov` and `var` (`cov / np.outer(std, std)`, NaN → 0) -/
  corrOf : V → V → V
  /-- `_get_P(n, theta)` for the object's `n` -/
  getP : Rat → V
  /-- value of an `accumulate` call that makes no `_accumulate` call (cannot happen: `k! ≥ 1`) -/
  zero : V

/-- like `cache_info()`: hits / misses of the three memoised functions -/
structure CacheInfo where
  momHits : Nat := 0
  momMisses : Nat := 0
  accHits : Nat := 0
  accMisses : Nat := 0
  pHits : Nat := 0
  pMisses : Nat := 0
  deriving Repr, DecidableEq, Inhabited

/-- The memoisation state that belongs to one distribution object. -/
structure State (V : Type) where
  /-- entries of the `moment` memo -/
  moments : Memo MomentArgs V := []
  /-- entries of the `_accumulate` memo -/
  accs : Memo AccArgs V := []
  /-- entries of the `_get_P` memo (key: `theta`; `n` is fixed by the object) -/
  ps : Memo Rat V := []
  /-- `cached_property` slots (`none` = not in `__dict__`) -/
  mean : Option V := none
  var : Option V := none
  cov : Option V := none
  corr : Option V := none
  info : CacheInfo := {}

/-- a fresh object (after `cache_clear()`) -/
def State.init {V : Type} : State V := {}

inductive Query where
  | moment (a : MomentArgs)
  /-- public `accumulate(k, end_times, rewards, center=False, permute)` -/
  | accumulate (g : AccCall)
  | mean
  | var
  | cov
  | corr
  /-- `_get_P(n, theta)` (through `get_mutation_config(config, theta)`) -/
  | getP (theta : Rat)
  deriving Repr, Inhabited

variable {V : Type}

/-- `self.moment(k=1)` (l.576) -/
def meanArgs : MomentArgs := { k := 1 }
/-- `self.moment(k=2, center=True)` (l.583) -/
def varArgs : MomentArgs := { k := 2, center := some true }

/-- one `_accumulate` call through its memo -/
def runAccOne (vr : Variant) (F : Fresh V) (st : State V) (a : AccArgs) : State V × V :=
  match callMemo (accEq vr.scheme) F.acc st.accs a with
  | (m, v, true) => ({ st with accs := m, info := { st.info with accHits := st.info.accHits + 1 } }, v)
  | (m, v, false) => ({ st with accs := m, info := { st.info with accMisses := st.info.accMisses + 1 } }, v)

/-- a list of `_accumulate` calls, values in call order -/
def runAccList (vr : Variant) (F : Fresh V) (st : State V) : List AccArgs → State V × List V
  | [] => (st, [])
  | a :: as =>
    let (st1, v) := runAccOne vr F st a
    let (st2, vs) := runAccList vr F st1 as
    (st2, v :: vs)

/-- the in-place loop of defect (4b): `first` is the key whose stored array is `run`; every further value
is added INTO that array, i.e. the memo entry is rewritten after every addition (later calls of the same
loop may read it) -/
def runAccInPlace (vr : Variant) (F : Fresh V) (first : AccArgs) (st : State V) (run : V) :
    List AccArgs → State V × V
  | [] => (st, run)
  | a :: as =>
    let (st1, v) := runAccOne vr F st a
    let run' := F.add run v
    runAccInPlace vr F first { st1 with accs := insert (accEq vr.scheme) st1.accs first run' } run' as

/-- the value of an uncentred `accumulate` from the values of its `_accumulate` calls -/
def groupValue (F : Fresh V) (g : AccCall) : List V → V
  | [] => F.zero
  | v :: vs => if g.permute then F.divN (vs.foldl F.add v) (vs.length + 1) else v

/-- one uncentred `accumulate` call on the object -/
def runGroup (vr : Variant) (F : Fresh V) (st : State V) (g : AccCall) : State V × V :=
  match vr.sum, g.permute, g.calls with
  | .inPlaceSum, true, first :: rest =>
    let (st1, v0) := runAccOne vr F st first
    let (st2, s) := runAccInPlace vr F first st1 v0 rest
    (st2, F.divN s (rest.length + 1))
  | _, _, cs =>
    let (st1, vs) := runAccList vr F st cs
    (st1, groupValue F g vs)

def runGroups (vr : Variant) (F : Fresh V) (st : State V) : List AccCall → State V × List V
  | [] => (st, [])
  | g :: gs =>
    let (st1, v) := runGroup vr F st g
    let (st2, vs) := runGroups vr F st1 gs
    (st2, v :: vs)

/-- `moment(…)` through its memo; a miss runs the `accumulate` calls of the plan on the object -/
def runMoment (vr : Variant) (F : Fresh V) (st : State V) (a : MomentArgs) : State V × V :=
  match lookup (momentEq vr.scheme) st.moments a with
  | some v => ({ st with info := { st.info with momHits := st.info.momHits + 1 } }, v)
  | none =>
    let (st1, vs) := runGroups vr F st (F.plan a)
    let v := F.finish a vs
    ({ st1 with moments := insert (momentEq vr.scheme) st1.moments a v,
                info := { st1.info with momMisses := st1.info.momMisses + 1 } }, v)

/-- read the `cached_property` `mean` -/
def readMean (vr : Variant) (F : Fresh V) (st : State V) : State V × V :=
  match st.mean with
  | some v => (st, v)
  | none => let (st1, v) := runMoment vr F st meanArgs; ({ st1 with mean := some v }, v)

/-- read the `cached_property` `var` -/
def readVar (vr : Variant) (F : Fresh V) (st : State V) : State V × V :=
  match st.var with
  | some v => (st, v)
  | none => let (st1, v) := runMoment vr F st varArgs; ({ st1 with var := some v }, v)

/-- read the `cached_property` `cov` (it reads `self.mean`) -/
def readCov (vr : Variant) (F : Fresh V) (st : State V) : State V × V :=
  match st.cov with
  | some v => (st, v)
  | none => let (st1, m) := readMean vr F st; let c := F.cov m; ({ st1 with cov := some c }, c)

/-- read the `cached_property` `corr`: `self.var` first, then `self.cov`; in variant `inPlace` the array
held by the `cov` slot ends up holding the correlations -/
def readCorr (vr : Variant) (F : Fresh V) (st : State V) : State V × V :=
  match st.corr with
  | some v => (st, v)
  | none =>
    let (st1, var) := readVar vr F st
    let (st2, cov) := readCov vr F st1
    let r := F.corrOf cov var
    match vr.corr with
    | .fresh => ({ st2 with corr := some r }, r)
    | .inPlace => ({ st2 with corr := some r, cov := some r }, r)

def pEq : PKey → Rat → Rat → Bool
  | .withTheta, a, b => a == b
  | .noTheta, _, _ => true

def runGetP (vr : Variant) (F : Fresh V) (st : State V) (theta : Rat) : State V × V :=
  match callMemo (pEq vr.pkey) F.getP st.ps theta with
  | (m, v, true) => ({ st with ps := m, info := { st.info with pHits := st.info.pHits + 1 } }, v)
  | (m, v, false) => ({ st with ps := m, info := { st.info with pMisses := st.info.pMisses + 1 } }, v)

/-- one public query on the object -/
def run (vr : Variant) (F : Fresh V) (st : State V) : Query → State V × V
  | .moment a => runMoment vr F st a
  | .accumulate g => runGroup vr F st g
  | .mean => readMean vr F st
  | .var => readVar vr F st
  | .cov => readCov vr F st
  | .corr => readCorr vr F st
  | .getP theta => runGetP vr F st theta

/-! ## 4. the specification: what a fresh object returns -/

/-- uncentred `accumulate` without any memo -/
def specGroup (F : Fresh V) (g : AccCall) : V := groupValue F g (g.calls.map F.acc)

/-- `moment` without any memo -/
def specMoment (F : Fresh V) (a : MomentArgs) : V := F.finish a ((F.plan a).map (specGroup F))

/-- The value a fresh object returns: a function of the query only. -/
def spec (F : Fresh V) : Query → V
  | .moment a => specMoment F a
  | .accumulate g => specGroup F g
  | .mean => specMoment F meanArgs
  | .var => specMoment F varArgs
  | .cov => F.cov (specMoment F meanArgs)
  | .corr => F.corrOf (F.cov (specMoment F meanArgs)) (specMoment F varArgs)
  | .getP theta => F.getP theta

/-- the outcome of a history of queries on one object -/
structure Trace (V : Type) where
  final : State V
  answers : List V

def runAll (vr : Variant) (F : Fresh V) (st : State V) : List Query → Trace V
  | [] => { final := st, answers := [] }
  | q :: qs =>
    let (st1, v) := run vr F st q
    let t := runAll vr F st1 qs
    { final := t.final, answers := v :: t.answers }

/-- a fresh object at the start -/
def init : State V := State.init

/-- `Coalescent.moment` (l.2621-2660) builds a NEW `PhaseTypeDistribution` per call (`_get_dist`), and the lower
memo tables are keyed by that object: their entries are never seen again.  For a `Coalescent` the `moments`
table stands for `Coalescent.moment`, and the `_accumulate` entries are forgotten after every query. -/
def State.forgetLower (st : State V) : State V := { st with accs := [] }

/-- a history on a `Coalescent` (see `State.forgetLower`) -/
def runAllForgetting (vr : Variant) (F : Fresh V) (st : State V) : List Query → Trace V
  | [] => { final := st, answers := [] }
  | q :: qs =>
    let (st1, v) := run vr F st q
    let t := runAllForgetting vr F st1.forgetLower qs
    { final := t.final, answers := v :: t.answers }

/-! ## 5. the driver's conventions -/

/-- polynomial hash of a text modulo the prime 1000000007 (start value 7, base 257) -/
def polyHash (s : String) : Nat := s.foldl (fun h c => (h * 257 + c.toNat) % 1000000007) 7

def showRatM (q : Rat) : String := if q.den = 1 then toString q.num else s!"{q.num}/{q.den}"

/-- canonical text of a reward tuple: the rendered pre-hash keys of the pinned scheme -/
def rewardsText (rs : List Reward) : String := ";".intercalate (rs.map fun r => r.key.render)

/-- canonical text of an `_accumulate` call: `a|k|t1,t2|r1;r2` -/
def AccArgs.text (a : AccArgs) : String :=
  s!"a|{a.k}|{",".intercalate (a.endTimes.map showRatM)}|{rewardsText a.rewards}"

/-- the object the driver talks about: `self.reward`, `tree_height.start_time`, `tree_height.t_max` -/
structure Obj where
  reward : Reward := .treeHeight
  startDefault : Rat := 0
  tMax : Rat := 1000

/-- Mirror of the call structure of `moment` (l.639-664) and `accumulate` (l.729-782) for argument tuples
that pass the checks (`len(rewards) = k`): which uncentred `accumulate` calls are made, in order. -/
def pyPlan (o : Obj) (a : MomentArgs) : List AccCall :=
  let s := a.start.getD o.startDefault
  let e := a.stop.getD o.tMax
  let ts := if s > 0 then [s, e] else [e]
  let rs := a.rewards.getD (List.replicate a.k o.reward)
  let center := a.center.getD true
  let permute := a.permute.getD true
  let k := a.k
  if k = 0 then []
  else if center && decide (k > 1) then
    -- l.746-753: the means, `accumulate(k=1, rewards=(rewards[i],), end_times)` (centred, permuted by default)
    (rs.take k).map (fun r => ({ k := 1, endTimes := ts, rewards := [r], permute := true } : AccCall))
    -- l.755-771: `accumulate(k=i, rewards=subset, center=False, permute=permute)`; `k = 0` returns ones at once
    ++ ((List.range (k + 1)).flatMap fun i =>
        if i = 0 then [] else
        (combinations (List.range k) i).map fun idx =>
          ({ k := i, endTimes := ts, rewards := idx.map fun j => rs.getD j o.reward, permute := permute } : AccCall))
  else [{ k := k, endTimes := ts, rewards := rs, permute := permute }]

/-- The driver's conventional numerics (`memo` command): rational values;
`acc` = polynomial hash of the canonical text of the call, `finish` = position-weighted sum
`Σ (i+1)·vᵢ`, `cov m = 3m + 1`, `corrOf c v = c / (v + 1)`, `getP θ` = hash of `p|θ`. -/
def conventional (o : Obj) : Fresh Rat where
  acc a := (polyHash a.text : Rat)
  plan := pyPlan o
  finish _ vs := sumRat (vs.zipIdx.map fun (v, i) => ((i + 1 : Nat) : Rat) * v)
  add := (· + ·)
  divN v n := v / (n : Rat)
  cov m := 3 * m + 1
  corrOf c v := c / (v + 1)
  getP theta := (polyHash ("p|" ++ showRatM theta) : Rat)
  zero := 0

end PG.Memo
