/-
PGModel.Config — the GLUE between the user's containers and the tables the transitions use.

Mirrors (file : lines of the repaired tree /repo)
* `phasegen/lineage.py`      `LineageConfig.__init__`  (dict → axis = dict order; list → `pop_i`; scalar → `pop_0`)
* `phasegen/distributions.py` `AbstractCoalescent.__init__` l.2411-2422: populations of the sample
  configuration missing in the demography get size 1 from time 0; populations of the demography
  missing in the sample configuration are APPENDED to the deme axis with 0 lineages, in the
  iteration order of a Python `set` difference (hash dependent)
* `phasegen/demography.py`   `Demography.__init__` (the three shapes of `pop_sizes` / `migration_rates`),
  `_prepare_events` (`pop_names = sorted(set(...))`), `DiscreteRateChanges.__init__/_apply`,
  `Demography.epochs` (start: size 1, rate 0 for every known name), `Epoch.__init__`
  (`pop_names = sorted(pop_sizes.keys())`)
* `phasegen/state_space.py`  `Transition.coalesce` l.632
  (`[epoch.pop_sizes[pop] for pop in lineage_config.pop_names]`), `migrate_unlinked` l.752/767
  (`epoch.migration_rates[(pop_names[d1], pop_names[d2])]`, `pop_names = lineage_config.pop_names`)
* `phasegen/rewards.py`      `DemeReward._get` l.331 (`lineage_config.pop_names.index(pop)`)

Dicts are insertion-ordered association lists; lookups go through the name exactly where the code
looks up through a dict key, and through the position exactly where the code indexes a list.
Python's `sorted` on `str` compares code points lexicographically; so does `<` on `String`.

No imports beyond PGModel.Basic: this file is linked into `pgdriver`.
-/
import PGModel.Basic

namespace PG.Config

abbrev Name := String

/-- `{time: value}` in the listing order of the dict -/
abbrev Changes := List (Rat × Rat)

/-! ## the user's containers -/

/-- the argument `n` of `Coalescent` -/
inductive NInput where
  | dict (d : List (Name × Nat))
  | list (l : List Nat)
  | scalar (n : Nat)
  deriving Repr, Inhabited

/-- `f"pop_{i}"` -/
def popName (i : Nat) : Name := "pop_" ++ toString i

/-- `LineageConfig.__init__`: the lineage dict (its key order is the deme axis) -/
def NInput.toDict : NInput → List (Name × Nat)
  | .dict d => d
  | .list l => (List.range l.length).map fun i => (popName i, l.getD i 0)
  | .scalar n => [(popName 0, n)]

/-- the argument `pop_sizes` of `Demography` in its three shapes (and `None`) -/
inductive SizesInput where
  | none
  | scalar (s : Rat)
  | flat (d : List (Name × Rat))
  | full (d : List (Name × Changes))
  deriving Repr, Inhabited

/-- the argument `migration_rates` of `Demography` in its two shapes (and `None`) -/
inductive MigInput where
  | none
  | flat (d : List ((Name × Name) × Rat))
  | full (d : List ((Name × Name) × Changes))
  deriving Repr, Inhabited

/-- `Demography.__init__` l.51-60 -/
def normaliseSizes : SizesInput → List (Name × Changes)
  | .none => []
  | .scalar s => [(popName 0, [(0, s)])]
  | .flat d => d.map fun ps => (ps.1, [(0, ps.2)])
  | .full d => d

/-- `Demography.__init__` l.62-67 -/
def normaliseMig : MigInput → List ((Name × Name) × Changes)
  | .none => []
  | .flat d => d.map fun pr => (pr.1, [(0, pr.2)])
  | .full d => d

/-- everything the glue sees, after shape normalisation.  `setOrder` is the order in which the Python
`set` `set(demography.pop_names) - set(lineage_config.pop_names)` happens to be iterated: an
arbitrary enumeration of that set (see `validSetOrder`). -/
structure Input where
  n : NInput
  sizes : List (Name × Changes)
  mig : List ((Name × Name) × Changes)
  setOrder : List Name
  deriving Repr, Inhabited

/-- `lineage_config.pop_names` before the unsampled populations are appended -/
def Input.linNames (I : Input) : List Name := I.n.toDict.map (·.1)

/-- number of lineages sampled in the population NAMED `p` (0 if not listed) -/
def nOf (I : Input) (p : Name) : Nat := (I.n.toDict.lookup p).getD 0

/-! ## names -/

/-- insert into a strictly ascending list, dropping duplicates -/
def insertName (x : Name) : List Name → List Name
  | [] => [x]
  | y :: ys => if x < y then x :: y :: ys else if x = y then y :: ys else y :: insertName x ys

/-- `sorted(set(l))` -/
def sortDedup (l : List Name) : List Name := l.foldr insertName []

/-- the names mentioned by `pop_sizes` and `migration_rates` (`DiscreteRateChanges.pop_names` before
sorting) -/
def rawDemNames (sizes : List (Name × Changes)) (mig : List ((Name × Name) × Changes)) : List Name :=
  sizes.map (·.1) ++ mig.flatMap fun e => [e.1.1, e.1.2]

/-- `Demography.pop_names` as the user built it: `sorted(set(...))` -/
def demographyNames (sizes : List (Name × Changes)) (mig : List ((Name × Name) × Changes)) :
    List Name :=
  sortDedup (rawDemNames sizes mig)

/-- `Demography.pop_names` after `AbstractCoalescent.__init__` added the populations only the sample
configuration mentions; also the key order of `epoch.pop_sizes` and `Epoch.pop_names` -/
def allNames (I : Input) : List Name := sortDedup (rawDemNames I.sizes I.mig ++ I.linNames)

/-- the set `set(demography.pop_names) - set(lineage_config.pop_names)`, in sorted order -/
def unsampled (I : Input) : List Name :=
  (demographyNames I.sizes I.mig).filter fun p => !(I.linNames.contains p)

/-- `setOrder` enumerates the set of unsampled populations: each exactly once, nothing else -/
def validSetOrder (I : Input) : Bool :=
  decide I.setOrder.Nodup && I.setOrder.all (fun p => (unsampled I).contains p)
    && (unsampled I).all (fun p => I.setOrder.contains p)

/-- the DEME AXIS: `lineage_config.pop_names` after l.2422
(`LineageConfig(lineage_dict | {p: 0 for p in unspecified_lineages})`) -/
def axis (I : Input) : List Name := I.linNames ++ I.setOrder

/-- `lineage_config.lineages`: lineage counts in axis order -/
def initVec (I : Input) : List Nat := I.n.toDict.map (·.2) ++ I.setOrder.map fun _ => 0

/-! ## values in force at a time -/

/-- the change with the largest time `≤ t` seen so far (later entries win ties) -/
def lastLE (t : Rat) : Changes → Option (Rat × Rat) → Option (Rat × Rat)
  | [], best => best
  | c :: cs, best =>
    lastLE t cs
      (if c.1 ≤ t then
        match best with
        | some b => if b.1 ≤ c.1 then some c else some b
        | none => some c
      else best)

/-- piecewise constant: the value of the last change at a time `≤ t`, `dflt` before the first one.
(`Demography.epochs` carries the previous epoch's values over and `DiscreteRateChanges._apply`
overwrites with every change whose time lies in the epoch, in ascending time order.) -/
def valueAt (ch : Changes) (t dflt : Rat) : Rat := ((lastLE t ch none).map (·.2)).getD dflt

/-- size of the population NAMED `p` at time `t`; 1 unless set (`Demography.epochs` l.184) -/
def sizeAt (sizes : List (Name × Changes)) (p : Name) (t : Rat) : Rat :=
  valueAt ((sizes.lookup p).getD []) t 1

/-- backward migration rate from the population NAMED `pq.1` to the one NAMED `pq.2` at time `t`;
0 unless set (`Demography.epochs` l.185) -/
def rateAt (mig : List ((Name × Name) × Changes)) (pq : Name × Name) (t : Rat) : Rat :=
  valueAt ((mig.lookup pq).getD []) t 0

/-- `epoch.pop_sizes` of the epoch containing `t` (a dict; key order = sorted names) -/
def epochSizes (I : Input) (t : Rat) : List (Name × Rat) :=
  (allNames I).map fun p => (p, sizeAt I.sizes p t)

/-- `epoch.migration_rates` of the epoch containing `t` (a dict keyed by ordered pairs) -/
def epochMig (I : Input) (t : Rat) : List ((Name × Name) × Rat) :=
  (allNames I).flatMap fun p => (allNames I).map fun q => ((p, q), rateAt I.mig (p, q) t)

/-! ## what the transitions and rewards use -/

/-- the current code and the three historic / seeded defects of the glue -/
inductive Variant where
  /-- the repaired tree -/
  | current
  /-- seeded: `pop_sizes = list(epoch.pop_sizes.values())` in `Transition.coalesce` -/
  | sizesByDictOrder
  /-- seeded: `pop_names = epoch.pop_names` in `Transition.migrate_unlinked` -/
  | migBySortedNames
  /-- historic (fixed by ab5179a): `epoch.pop_names.index(pop)` in `DemeReward._get` -/
  | demeRewardBySortedNames
  deriving Repr, DecidableEq, Inhabited

/-- `pop_sizes` of `Transition.coalesce`: entry `d` is the size used for deme axis position `d`.
A failed dict lookup (`KeyError`) is 0 here; it cannot happen for valid inputs
(`config_named_semantics`). -/
def sizeVec (v : Variant) (I : Input) (t : Rat) : List Rat :=
  match v with
  | .sizesByDictOrder => (epochSizes I t).map (·.2)
  | _ => (axis I).map fun p => ((epochSizes I t).lookup p).getD 0

/-- the list `pop_names` of `Transition.migrate_unlinked` -/
def migNames (v : Variant) (I : Input) : List Name :=
  match v with
  | .migBySortedNames => allNames I
  | _ => axis I

/-- entry `[d1][d2]` is `epoch.migration_rates[(pop_names[d1], pop_names[d2])]`, the base rate of a
move from deme axis position `d1` to `d2` (the code reads it for `d1 ≠ d2` only) -/
def migMat (v : Variant) (I : Input) (t : Rat) : List (List Rat) :=
  (migNames v I).map fun p => (migNames v I).map fun q => ((epochMig I t).lookup (p, q)).getD 0

/-- size vector and migration matrix IN AXIS ORDER as the transitions of the epoch containing `t`
use them -/
def epochTable (v : Variant) (I : Input) (t : Rat) : List Rat × List (List Rat) :=
  (sizeVec v I t, migMat v I t)

/-- `pop_index` of `DemeReward(name)._get` -/
def demeIndex (v : Variant) (I : Input) (name : Name) : Nat :=
  match v with
  | .demeRewardBySortedNames => (allNames I).idxOf name
  | _ => (axis I).idxOf name

/-! ## executable check of the named semantics (used for the kernel-checked counterexamples) -/

/-- position `i` of every table is about the population NAMED `axis[i]` -/
def namedOK (v : Variant) (I : Input) (t : Rat) : Bool :=
  let ax := axis I
  let tb := epochTable v I t
  tb.1.length == ax.length && tb.2.length == ax.length && (initVec I).length == ax.length &&
  (List.range ax.length).all fun i =>
    let p := ax.getD i ""
    tb.1[i]? == some (sizeAt I.sizes p t) &&
    ((List.range ax.length).all fun j =>
      (tb.2[i]?.bind (·[j]?)) == some (rateAt I.mig (p, ax.getD j "") t)) &&
    (initVec I)[i]? == some (nOf I p) &&
    demeIndex v I p == i

end PG.Config
