/-
PGModel.Routes — two small "routing" models of `phasegen`:

* the memoisation KEY of a reward (`Reward.__hash__` / `__eq__` in `rewards.py`): every reward is
  hashed as `hash(class name + parameter string)`, composites as
  `hash(class name + str([hash(child) for child in rewards]))`; `__eq__` compares the class and
  the hash.  `Reward.key` is the key BEFORE hashing (class tag, parameter, children keys).
* the state-space choice of `Coalescent._get_dist` (`distributions.py`):
  `Reward.support(LineageCountingStateSpace, rewards)` ⇒ lineage counting, else block counting
  (`Reward.supports`, `CompositeReward.supports` in `rewards.py`).

No imports beyond core Lean and PGModel.
-/
import PGModel.Rewards

namespace PG

/-! ## memoisation keys -/

/-- the thing that is hashed: `atom cls p` stands for the string `cls + str(p)` (`cls` alone if the
reward is stateless), `comp cls kids` for `cls + str([hash(k) for k in kids])`. -/
inductive RKey where
  | atom (cls : String) (param : Option Nat)
  | comp (cls : String) (kids : List RKey)
  deriving Repr, Inhabited, BEq

mutual
/-- the key of a model reward (`self.__class__.__name__` + parameter).
`DemeReward(pop)` is keyed by the population NAME; the model identifies the name with the index of
the deme axis.  `TotalBranchLengthLocusReward` subclasses `LocusReward`, inherits its `__hash__`,
and so is keyed by its own class name. -/
def Reward.key : Reward → RKey
  | .treeHeight => .atom "TreeHeightReward" none
  | .totalTreeHeight => .atom "TotalTreeHeightReward" none
  | .totalBranchLength => .atom "TotalBranchLengthReward" none
  | .unfoldedSFS i => .atom "UnfoldedSFSReward" (some i)
  | .foldedSFS i => .atom "FoldedSFSReward" (some i)
  | .lineage n => .atom "LineageReward" (some n)
  | .deme idx => .atom "DemeReward" (some idx)
  | .locus l => .atom "LocusReward" (some l)
  | .unit => .atom "UnitReward" none
  | .tblLocus l => .atom "TotalBranchLengthLocusReward" (some l)
  | .prod rs => .comp "ProductReward" (Reward.keys rs)
  | .sum rs => .comp "SumReward" (Reward.keys rs)
def Reward.keys : List Reward → List RKey
  | [] => []
  | r :: rs => Reward.key r :: Reward.keys rs
end

/-- key of `CombinedReward(rs)` (a subclass of `ProductReward` with its own class name; its
`rewards` attribute is the list AFTER the substitution of `CombinedReward.__init__`). The model
reward is `Reward.combined rs = .prod (combineRewards …)`. -/
def combinedKey (rs : List Reward) : RKey :=
  .comp "CombinedReward" (Reward.keys (combineRewards rs.length rs))

/-- the string which Python hashes for a stateless/parametrised reward; composites are rendered
with the children's strings in place of the children's hashes (documentation only). -/
def RKey.render : RKey → String
  | .atom cls none => cls
  | .atom cls (some p) => cls ++ toString p
  | .comp cls kids => cls ++ "[" ++ ", ".intercalate (kids.map RKey.render) ++ "]"

/-! ## state-space choice -/

mutual
/-- `reward.supports(LineageCountingStateSpace)`: `isinstance(self, LineageCountingReward)`;
composites: all children. The SFS rewards are `BlockCountingReward` only. -/
def Reward.supportsLC : Reward → Bool
  | .treeHeight => true
  | .totalTreeHeight => true
  | .totalBranchLength => true
  | .unfoldedSFS _ => false
  | .foldedSFS _ => false
  | .lineage _ => true
  | .deme _ => true
  | .locus _ => true
  | .unit => true
  | .tblLocus _ => true
  | .prod rs => Reward.supportsLCAll rs
  | .sum rs => Reward.supportsLCAll rs
def Reward.supportsLCAll : List Reward → Bool
  | [] => true
  | r :: rs => Reward.supportsLC r && Reward.supportsLCAll rs
end

mutual
/-- `reward.supports(BlockCountingStateSpace)`: `isinstance(self, BlockCountingReward)`. -/
def Reward.supportsBC : Reward → Bool
  | .treeHeight => true
  | .totalTreeHeight => true
  | .totalBranchLength => true
  | .unfoldedSFS _ => true
  | .foldedSFS _ => true
  | .lineage _ => false
  | .deme _ => true
  | .locus _ => false
  | .unit => true
  | .tblLocus _ => false
  | .prod rs => Reward.supportsBCAll rs
  | .sum rs => Reward.supportsBCAll rs
def Reward.supportsBCAll : List Reward → Bool
  | [] => true
  | r :: rs => Reward.supportsBC r && Reward.supportsBCAll rs
end

/-- an element of the reward tuple passed to `moment`: a model reward, or the one public reward
class the model's `Reward` type does not have, `BlockCountingUnitReward` (all ones, supports only
the block-counting state space; "can be used to force usage of the block-counting state space"). -/
inductive RouteReward where
  | model (r : Reward)
  | bcUnit
  deriving Repr, Inhabited, BEq

def RouteReward.key : RouteReward → RKey
  | .model r => r.key
  | .bcUnit => .atom "BlockCountingUnitReward" none

def RouteReward.supportsLC : RouteReward → Bool
  | .model r => r.supportsLC
  | .bcUnit => false

def RouteReward.eval (n : Nat) (s : State) : RouteReward → Rat
  | .model r => r.eval n s
  | .bcUnit => 1

inductive SpaceKind where
  | lineageCounting | blockCounting
  deriving Repr, DecidableEq, Inhabited

/-- `Reward.support(LineageCountingStateSpace, rewards)` -/
def supportLC (rs : List RouteReward) : Bool := rs.all RouteReward.supportsLC

/-- `Coalescent._get_dist(k, rewards)`: the state space on which the reward tuple is evaluated -/
def chooseSpace (rs : List RouteReward) : SpaceKind :=
  if supportLC rs then .lineageCounting else .blockCounting

/-- lineage counts `[locus][deme]` of a state (`lineages.sum(axis=3)`): what is left of a
block-counting state in the lineage-counting state space -/
def State.lineageCounts (s : State) : List (List Nat) := s.lin.map fun loc => loc.map sumNat

/-- the lineage-counting state with the same lineage counts (one block per deme) -/
def State.toLC (s : State) : State :=
  { lin := s.lin.map fun loc => loc.map fun d => [sumNat d]
    lnk := s.lnk.map fun loc => loc.map fun d => [sumNat d] }

end PG
