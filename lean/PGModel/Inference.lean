/-
PGModel.Inference — run selection and merging in `Inference` (property C19).

Mirror of the bookkeeping in /repo/phasegen/inference.py:
`_run` (l.345-404: `self.result = min(results, key=lambda r: r.fun)`, `params_inferred`,
`loss_inferred`, `loss_runs`), `add_run` (l.723-742), `add_runs` (l.744-752),
`add_bootstrap` (l.769-788), `add_bootstraps`, `create_run` (l.703-721), `x0` (l.170-175),
`_check_x0_within_bounds` (l.163-168), `_sample` (l.406-412).

The optimiser is a parameter: a run is just the point it returned and the objective value there.
"The object has been run" is, as in the code, `loss_inferred is not None`, i.e. `best.isSome`
(`State.ran`); there is no separate flag in the Python object either.
No imports: this file is linked into the `pgdriver` executable.
-/
import PGModel.Basic

namespace PG.Inference

/-- Result of one optimiser run: `OptimizeResult.x` and `OptimizeResult.fun`. -/
structure Run where
  x : List Rat
  f : Rat
  deriving DecidableEq, Repr, Inhabited

/-- Exceptions raised by the mirrored methods. -/
inductive Err where
  /-- `RuntimeError('The provided Inference object must be run first …')` -/
  | runtimeError
  /-- `ValueError` (`min()` of an empty sequence, start values out of bounds) -/
  | valueError
  deriving DecidableEq, Repr

/-- `min(results, key=lambda r: r.fun)`: the FIRST element attaining the minimum (`none` on `[]`,
where Python raises `ValueError`). -/
def bestOf : List Run → Option Run
  | [] => none
  | r :: rs =>
    match bestOf rs with
    | none => some r
    | some b => if b.f < r.f then some b else some r

/-- The same as a left fold, the way CPython's `min` actually iterates. -/
def bestOfFold : List Run → Option Run
  | [] => none
  | r :: rs => some (rs.foldl (fun b c => if c.f < b.f then c else b) r)

/-- The attributes of an `Inference` object that runs and merges touch. -/
structure State where
  /-- `result` / `params_inferred` / `loss_inferred` (all set together) -/
  best : Option Run := none
  /-- `loss_runs` -/
  lossRuns : List Rat := []
  /-- rows of the `bootstraps` data frame -/
  bootstraps : List (List Rat) := []
  deriving DecidableEq, Repr, Inhabited

/-- A freshly constructed `Inference`. -/
def State.fresh : State := {}

/-- `loss_inferred is not None` -/
def State.ran (s : State) : Bool := s.best.isSome

/-- `loss_inferred` -/
def State.lossInferred (s : State) : Option Rat := s.best.map (·.f)

/-- `params_inferred` (values in the order of the bounds' keys) -/
def State.paramsInferred (s : State) : Option (List Rat) := s.best.map (·.x)

/-- What `_run` does with the list of optimiser results. -/
def runWith (s : State) (results : List Run) : Except Err State :=
  match bestOf results with
  | none => .error .valueError
  | some b => .ok { s with best := some b, lossRuns := results.map (·.f) }

/-- `add_run(other)`. -/
def addRun (s other : State) : Except Err State :=
  match other.best with
  | none => .error .runtimeError
  | some r =>
    .ok { s with
      lossRuns := s.lossRuns ++ other.lossRuns
      best := match s.best with
        | none => some r
        | some b => if r.f < b.f then some r else some b }

/-- `add_runs(others)`: stops at the first exception. -/
def addRuns (s : State) (others : List State) : Except Err State :=
  others.foldlM addRun s

/-- `add_bootstrap(dict)` -/
def addBootstrapDict (s : State) (params : List Rat) : State :=
  { s with bootstraps := s.bootstraps ++ [params] }

/-- `add_bootstrap(other : Inference)` -/
def addBootstrapInf (s other : State) : Except Err State :=
  match other.best with
  | none => .error .runtimeError
  | some r => .ok (addBootstrapDict s r.x)

/-! ### `create_run`: where the child starts -/

/-- Start values, in the order of the bounds' keys. -/
abbrev X0 := List Rat

/-- `all(bounds[key][0] <= value <= bounds[key][1] for key, value in x0.items())` -/
def inBounds (bounds : List (Rat × Rat)) (x : X0) : Bool :=
  (bounds.zip x).all fun p => decide (p.1.1 ≤ p.2) && decide (p.2 ≤ p.1.2)

/-- Repaired `create_run`: the copied `x0` cached property is discarded, so the child's `x0` is
`self._x0 if self._x0 is not None else self._sample()` with `_x0 := given`. -/
def startOf (given : Option X0) (_cachedParent : Option X0) (sample : X0) : X0 :=
  match given with
  | some g => g
  | none => sample

/-- Pinned `create_run`: `copy.deepcopy(self)` also copied the parent's cached `x0`
(present as soon as the parent had evaluated `x0`, e.g. after `run()`), which then shadows `_x0`. -/
def startOfPinned (given : Option X0) (cachedParent : Option X0) (sample : X0) : X0 :=
  match cachedParent with
  | some c => c
  | none => startOf given none sample

/-- `create_run(x0=given)`: the start values of the child or the `ValueError` of
`_check_x0_within_bounds`. -/
def createRun (repaired : Bool) (bounds : List (Rat × Rat)) (given cachedParent : Option X0)
    (sample : X0) : Except Err X0 :=
  let x := if repaired then startOf given cachedParent sample else startOfPinned given cachedParent sample
  if inBounds bounds x then .ok x else .error .valueError

/-! ### histories (for the driver) -/

inductive Op where
  /-- `_run` with these optimiser results -/
  | runWith (results : List Run)
  /-- `add_run` of a fresh object on which `_run` produced these results (`none`: never run) -/
  | addRun (other : Option (List Run))
  /-- `add_bootstrap(dict)` -/
  | bootDict (params : List Rat)
  /-- `add_bootstrap(Inference)` of a fresh object run with these results (`none`: never run) -/
  | bootInf (other : Option (List Run))
  deriving Repr

/-- The object `create_run()`/`create_bootstrap()` hands out after it has (or has not) been run. -/
def otherOf : Option (List Run) → State
  | none => State.fresh
  | some rs => match runWith State.fresh rs with
    | .ok s => s
    | .error _ => State.fresh

def step (s : State) : Op → Except Err State
  | .runWith rs => runWith s rs
  | .addRun o => addRun s (otherOf o)
  | .bootDict p => .ok (addBootstrapDict s p)
  | .bootInf o => addBootstrapInf s (otherOf o)

/-- Replay a history the way a test harness does: an operation that raises leaves the object as it
was (true for all four methods: they raise before assigning) and its index is recorded. -/
def replay (s : State) (ops : List Op) : State × List Nat :=
  (ops.zipIdx.foldl (fun (acc : State × List Nat) (p : Op × Nat) =>
    match step acc.1 p.1 with
    | .ok s' => (s', acc.2)
    | .error _ => (acc.1, acc.2 ++ [p.2])) (s, []))

end PG.Inference
