/-
PGModel.Inference — run selection and merging in `Inference` (property C19).

Mirror of the bookkeeping in /repo/phasegen/inference.py:
`_run` (l.345-404: `self.result = min(results, key=lambda r: r.fun)`, `params_inferred`,
`loss_inferred`, `loss_runs`), `add_run` (l.723-742), `add_runs` (l.744-752),
`add_bootstrap` (l.769-788), `add_bootstraps`, `create_run` (l.703-721), `x0` (l.170-175),
`_check_x0_within_bounds` (l.163-168), `_sample` (l.406-412).

The optimiser is a parameter: a run is just the point it returned and the objective value there.
"The object has been run" is, as in the code, `loss_inferred is not None`, i.e. `best.isSome`
(`State.ran`); there is no separate flag in the Python object either.
The last section ("labelled parameters") keeps the parameter NAMES through `_optimize` (l.294-344)
and `_run`: `KV`, `Variant`, `optimizeArgs`, `startPoints`, `runOne`, `labelResults`, `runLabelled`
(theorems: PGProofs/InferenceLabels.lean; driver command `inferlab`).
No imports: this file is linked into the `pgdriver` executable.
-/
import PGModel.Basic

namespace PG.Inference

/-- Result of one optimiser run: `OptimizeResult.x` and `OptimizeResult.fun`. -/
structure Run where
  x : List Rat
  f : Rat
  deriving DecidableEq, Repr, Inhabited

/-- Exceptions raised by the mirrored methods. -/
inductive Err where
  /-- `RuntimeError('The provided Inference object must be run first …')` -/
  | runtimeError
  /-- `ValueError` (`min()` of an empty sequence, start values out of bounds) -/
  | valueError
  deriving DecidableEq, Repr

/-- `min(results, key=lambda r: r.fun)`: the FIRST element attaining the minimum (`none` on `[]`,
where Python raises `ValueError`). -/
def bestOf : List Run → Option Run
  | [] => none
  | r :: rs =>
    match bestOf rs with
    | none => some r
    | some b => if b.f < r.f then some b else some r

/-- The same as a left fold, the way CPython's `min` actually iterates. -/
def bestOfFold : List Run → Option Run
  | [] => none
  | r :: rs => some (rs.foldl (fun b c => if c.f < b.f then c else b) r)

/-- The attributes of an `Inference` object that runs and merges touch. -/
structure State where
  /-- `result` / `params_inferred` / `loss_inferred` (all set together) -/
  best : Option Run := none
  /-- `loss_runs` -/
  lossRuns : List Rat := []
  /-- rows of the `bootstraps` data frame -/
  bootstraps : List (List Rat) := []
  deriving DecidableEq, Repr, Inhabited

/-- A freshly constructed `Inference`. -/
def State.fresh : State := {}

/-- `loss_inferred is not None` -/
def State.ran (s : State) : Bool := s.best.isSome

/-- `loss_inferred` -/
def State.lossInferred (s : State) : Option Rat := s.best.map (·.f)

/-- `params_inferred` (values in the order of the bounds' keys) -/
def State.paramsInferred (s : State) : Option (List Rat) := s.best.map (·.x)

/-- What `_run` does with the list of optimiser results. -/
def runWith (s : State) (results : List Run) : Except Err State :=
  match bestOf results with
  | none => .error .valueError
  | some b => .ok { s with best := some b, lossRuns := results.map (·.f) }

/-- `add_run(other)`. -/
def addRun (s other : State) : Except Err State :=
  match other.best with
  | none => .error .runtimeError
  | some r =>
    .ok { s with
      lossRuns := s.lossRuns ++ other.lossRuns
      best := match s.best with
        | none => some r
        | some b => if r.f < b.f then some r else some b }

/-- `add_runs(others)`: stops at the first exception. -/
def addRuns (s : State) (others : List State) : Except Err State :=
  others.foldlM addRun s

/-- `add_bootstrap(dict)` -/
def addBootstrapDict (s : State) (params : List Rat) : State :=
  { s with bootstraps := s.bootstraps ++ [params] }

/-- `add_bootstrap(other : Inference)` -/
def addBootstrapInf (s other : State) : Except Err State :=
  match other.best with
  | none => .error .runtimeError
  | some r => .ok (addBootstrapDict s r.x)

/-! ### `create_run`: where the child starts -/

/-- Start values, in the order of the bounds' keys. -/
abbrev X0 := List Rat

/-- `all(bounds[key][0] <= value <= bounds[key][1] for key, value in x0.items())` -/
def inBounds (bounds : List (Rat × Rat)) (x : X0) : Bool :=
  (bounds.zip x).all fun p => decide (p.1.1 ≤ p.2) && decide (p.2 ≤ p.1.2)

/-- Repaired `create_run`: the copied `x0` cached property is discarded, so the child's `x0` is
`self._x0 if self._x0 is not None else self._sample()` with `_x0 := given`. -/
def startOf (given : Option X0) (_cachedParent : Option X0) (sample : X0) : X0 :=
  match given with
  | some g => g
  | none => sample

/-- Pinned `create_run`: `copy.deepcopy(self)` also copied the parent's cached `x0`
(present as soon as the parent had evaluated `x0`, e.g. after `run()`), which then shadows `_x0`. -/
def startOfPinned (given : Option X0) (cachedParent : Option X0) (sample : X0) : X0 :=
  match cachedParent with
  | some c => c
  | none => startOf given none sample

/-- `create_run(x0=given)`: the start values of the child or the `ValueError` of
`_check_x0_within_bounds`. -/
def createRun (repaired : Bool) (bounds : List (Rat × Rat)) (given cachedParent : Option X0)
    (sample : X0) : Except Err X0 :=
  let x := if repaired then startOf given cachedParent sample else startOfPinned given cachedParent sample
  if inBounds bounds x then .ok x else .error .valueError

/-! ### histories (for the driver) -/

inductive Op where
  /-- `_run` with these optimiser results -/
  | runWith (results : List Run)
  /-- `add_run` of a fresh object on which `_run` produced these results (`none`: never run) -/
  | addRun (other : Option (List Run))
  /-- `add_bootstrap(dict)` -/
  | bootDict (params : List Rat)
  /-- `add_bootstrap(Inference)` of a fresh object run with these results (`none`: never run) -/
  | bootInf (other : Option (List Run))
  deriving Repr

/-- The object `create_run()`/`create_bootstrap()` hands out after it has (or has not) been run. -/
def otherOf : Option (List Run) → State
  | none => State.fresh
  | some rs => match runWith State.fresh rs with
    | .ok s => s
    | .error _ => State.fresh

def step (s : State) : Op → Except Err State
  | .runWith rs => runWith s rs
  | .addRun o => addRun s (otherOf o)
  | .bootDict p => .ok (addBootstrapDict s p)
  | .bootInf o => addBootstrapInf s (otherOf o)

/-- Replay a history the way a test harness does: an operation that raises leaves the object as it
was (true for all four methods: they raise before assigning) and its index is recorded. -/
def replay (s : State) (ops : List Op) : State × List Nat :=
  (ops.zipIdx.foldl (fun (acc : State × List Nat) (p : Op × Nat) =>
    match step acc.1 p.1 with
    | .ok s' => (s', acc.2)
    | .error _ => (acc.1, acc.2 ++ [p.2])) (s, []))

/-! ### labelled parameters: which name every optimiser coordinate gets

`Inference._optimize(x0: dict, bounds: dict, …)` (l.294-344) and `Inference._run` (l.346-414) talk to
scipy's L-BFGS-B, which is purely POSITIONAL: it gets a start vector `list(x0.values())`, a list of
boxes `[bounds[key] for key in x0.keys()]` and an objective on positional vectors, which
`_get_loss_function` labels with `x0.keys()` (`params_dict = dict(zip(x0.keys(), params))`, l.270).
`_run` finally labels the winner's vector with `self.x0.keys()` (l.398).  The model above
(`Run`, `runWith`) only sees positions; the section below keeps the names.

A Python dict is an insertion-ordered association list (`KV`); the optimiser is a parameter
`opt start boxes objective`; the user's loss `L` is a function of the labelled dict.

Variants:
* `repaired`      the current code: every sampled start point is re-listed in the key order of `x0`
                  (`{k: s[k] for k in self.x0}`, l.380)
* `pinned`        the pinned code: sampled start points stay in the key order of `bounds`
                  (`[self.x0] + [self._sample() …]`), but the winner is labelled with `x0`'s keys
* `boundsValues`  seeded: `_optimize` takes `list(bounds.values())` as the boxes
-/

/-- A Python `dict` with `str` keys: association list in insertion order. -/
abbrev KV (α : Type) := List (String × α)

/-- `d.keys()` -/
abbrev KV.keys {α} (d : KV α) : List String := d.map Prod.fst

/-- `d.values()` -/
abbrev KV.values {α} (d : KV α) : List α := d.map Prod.snd

/-- `d[k]` (`none`: `KeyError`). -/
def lookup {α} : KV α → String → Option α
  | [], _ => none
  | (k', v) :: t, k => if k' = k then some v else lookup t k

/-- All entries are present (`none` as soon as one lookup raised). -/
def allSome {α} : List (Option α) → Option (List α)
  | [] => some []
  | none :: _ => none
  | some a :: t => match allSome t with
    | none => none
    | some r => some (a :: r)

inductive Variant where
  | repaired
  | pinned
  | boundsValues
  deriving DecidableEq, Repr

/-- `[bounds[key] for key in keys]` -/
def boxesFor (bounds : KV (Rat × Rat)) (keys : List String) : Option (List (Rat × Rat)) :=
  allSome (keys.map (lookup bounds))

/-- What `_optimize(x0, bounds)` hands to `scipy.optimize.minimize`: the positional start vector
`np.array(list(x0.values()))` and the positional list of boxes. -/
def optimizeArgs (v : Variant) (x0 : KV Rat) (bounds : KV (Rat × Rat)) :
    Option (List Rat × List (Rat × Rat)) :=
  match v with
  | .boundsValues => some (x0.values, bounds.values)
  | _ => match boxesFor bounds x0.keys with
    | none => none
    | some bs => some (x0.values, bs)

/-- `{k: s[k] for k in keys}` -/
def relist (keys : List String) (s : KV Rat) : Option (KV Rat) :=
  allSome (keys.map fun k => (lookup s k).map fun v => (k, v))

/-- The `data` of `_run`: the start points of the `n_runs` optimisations
(`samples` are the `n_runs - 1` values of `self._sample()`, dicts in the key order of `bounds`). -/
def startPoints (v : Variant) (x0 : KV Rat) (samples : List (KV Rat)) : Option (List (KV Rat)) :=
  match v with
  | .pinned => some (x0 :: samples)
  | _ => match allSome (samples.map (relist x0.keys)) with
    | none => none
    | some ss => some (x0 :: ss)

/-- A positional box-constrained optimiser: start vector, boxes, objective ↦ point. -/
abbrev Optimizer := List Rat → List (Rat × Rat) → (List Rat → Rat) → List Rat

/-- One call of `_optimize` from the start dict `d`: the positional objective is
`fun y => L (dict(zip(d.keys(), y)))`; `OptimizeResult.fun` is the objective at `OptimizeResult.x`. -/
def runOne (v : Variant) (opt : Optimizer) (L : KV Rat → Rat) (bounds : KV (Rat × Rat))
    (d : KV Rat) : Option Run :=
  match optimizeArgs v d bounds with
  | none => none
  | some (start, bs) =>
    let x := opt start bs (fun y => L (d.keys.zip y))
    some { x := x, f := L (d.keys.zip x) }

/-- The labelling part of `_run` (l.395-408): first minimum, `dict(zip(list(self.x0.keys()), result.x))`,
`result.fun`, `[r.fun for r in results]`.  The same in every variant. -/
def labelResults (x0keys : List String) (results : List Run) : Option (KV Rat × Rat × List Rat) :=
  match bestOf results with
  | none => none
  | some b => some (x0keys.zip b.x, b.f, results.map (·.f))

/-- The key order of the boxes the `i`-th optimisation (0-based) is given, in terms of the key lists
only: what differs between the variants. -/
def boxKeyOrder (v : Variant) (boundsKeys x0keys : List String) (i : Nat) : List String :=
  match v, i with
  | .boundsValues, _ => boundsKeys
  | .pinned, _ + 1 => boundsKeys
  | _, _ => x0keys

/-- The keys the positional objective of the `i`-th optimisation labels its argument with
(`dict(zip(x0.keys(), params))` in `_get_loss_function`): the key order of the `i`-th start dict. -/
def labelKeyOrder (v : Variant) (boundsKeys x0keys : List String) (i : Nat) : List String :=
  match v, i with
  | .pinned, _ + 1 => boundsKeys
  | _, _ => x0keys

/-- `labelKeyOrder` for runs `0 … n-1`. -/
def labelKeyOrders (v : Variant) (boundsKeys x0keys : List String) (n : Nat) : List (List String) :=
  (List.range n).map (labelKeyOrder v boundsKeys x0keys)

/-- `boxKeyOrder` for runs `0 … n-1`. -/
def boxKeyOrders (v : Variant) (boundsKeys x0keys : List String) (n : Nat) : List (List String) :=
  (List.range n).map (boxKeyOrder v boundsKeys x0keys)

/-- `_run`: (`params_inferred`, `loss_inferred`, `loss_runs`); `none` when a `KeyError` is raised. -/
def runLabelled (v : Variant) (opt : Optimizer) (L : KV Rat → Rat) (bounds : KV (Rat × Rat))
    (x0 : KV Rat) (samples : List (KV Rat)) : Option (KV Rat × Rat × List Rat) :=
  match startPoints v x0 samples with
  | none => none
  | some starts =>
    match allSome (starts.map (runOne v opt L bounds)) with
    | none => none
    | some results => labelResults x0.keys results

/-- The optimiser "project the start point onto the box" (for examples). -/
def clampOpt : Optimizer := fun start bs _ =>
  List.zipWith (fun (s : Rat) (b : Rat × Rat) => if s < b.1 then b.1 else if b.2 < s then b.2 else s) start bs

/-- `lo ≤ v ≤ hi` for the box `bounds[k]` (false when `k` has no box). -/
def inOwnBox (bounds : KV (Rat × Rat)) (k : String) (v : Rat) : Bool :=
  match lookup bounds k with
  | none => false
  | some b => decide (b.1 ≤ v) && decide (v ≤ b.2)

end PG.Inference
