/-
PGModel.DemoObj — the MUTABLE `Demography` object and its hand-over to `Coalescent` (property C05).

Mirrors (file : lines of the repaired tree /repo)
* `phasegen/demography.py`  `Demography.__init__` l.27-94 (`self.events = list(events)`, one extra
  `DiscreteRateChanges` event when `pop_sizes` / `migration_rates` are given, `_prepare_events()`),
  `_prepare_events` l.96-107 (`self.events = sorted(self.events, key=lambda e: e.start_time)`: Python's `sorted`
  is STABLE; `self.pop_names = sorted(list(set(p for e in self.events for p in e.pop_names)))`;
  `self.n_pops = len(self.pop_names)`), `epochs` l.175-221 (calls `_prepare_events()` first; `get_epochs` /
  `get_epoch` go through `epochs`), `add_events` l.282-290 (`self.events += events; self._prepare_events()`),
  `add_event` l.292-298 (`self.add_events([event])`)
* `phasegen/distributions.py` `AbstractCoalescent.__init__` l.2411-2422:
  `initial_sizes = {p: {0: 1} for p in self.lineage_config.pop_names if p not in demography.pop_names}`
  (the cached attribute `pop_names` is READ, not recomputed); `if len(initial_sizes) > 0:
  demography.add_event(PopSizeChanges(initial_sizes))`; `unspecified_lineages = set(demography.pop_names) -
  set(self.lineage_config.pop_names)` (read again after the add);
  `self.lineage_config = LineageConfig(self.lineage_config.lineage_dict | {p: 0 for p in unspecified_lineages})`
* `DiscreteRateChanges.__init__` l.694: the `pop_names` of an event are `sorted(set(...))` of its keys

What an event is, for this model: an opaque identity `id` (so that the order of `self.events` can be observed), its
`start_time` and its `pop_names`.  What the events DO to the epochs is the subject of `PGModel.Demography`.

The type `N` of population names is a parameter: any type with decidable equality and a decidable `<`
(the driver uses `String`, whose `<` is the lexicographic order on code points like Python's `sorted` on `str`;
the kernel-checked examples use `Nat`).  The theorems of `PGProofs.DemoObjThm` assume a linear order.

Variants: `current` is the pinned code; `staleadd` is the defect "`add_event` appends to `self.events` and does
NOT call `_prepare_events()`" (everything else unchanged).

No imports: this file is linked into `pgdriver`.
-/

namespace PG.DemoObj

/-- A demographic event as far as the bookkeeping of the `Demography` object is concerned. -/
structure Ev (N : Type) where
  /-- identity of the Python object (insertion counter of the history) -/
  id : Nat
  /-- `start_time` -/
  start : Rat
  /-- `pop_names` -/
  names : List N
  deriving DecidableEq, Repr

/-- The attributes of a `Demography` object: the event list and the two CACHED attributes. -/
structure State (N : Type) where
  /-- `self.events` -/
  events : List (Ev N) := []
  /-- `self.pop_names` -/
  popNames : List N := []
  /-- `self.n_pops` -/
  nPops : Nat := 0
  deriving DecidableEq, Repr

inductive Variant where
  /-- the pinned code -/
  | current
  /-- seeded defect: `add_event` does not call `_prepare_events` -/
  | staleadd
  deriving DecidableEq, Repr

section
variable {N : Type} [DecidableEq N] [LT N] [DecidableLT N]

/-! ## `sorted(set(...))` on names and the stable `sorted(..., key=start_time)` on events -/

/-- insert a name into an ascending duplicate-free list -/
def insertName (a : N) : List N → List N
  | [] => [a]
  | x :: xs => if a < x then a :: x :: xs else if a = x then x :: xs else x :: insertName a xs

/-- `sorted(list(set(l)))`: ascending, duplicates removed -/
def sortDedup (l : List N) : List N := l.foldr insertName []

/-- insert an event BEFORE the first event that does not start earlier: with `foldr` this is the stable
insertion sort (ties keep their order in the input) -/
def insertEv (e : Ev N) : List (Ev N) → List (Ev N)
  | [] => [e]
  | x :: xs => if e.start ≤ x.start then e :: x :: xs else x :: insertEv e xs

/-- `sorted(events, key=lambda e: e.start_time)` (stable) -/
def sortEvents (l : List (Ev N)) : List (Ev N) := l.foldr insertEv []

/-- `[p for e in events for p in e.pop_names]` -/
def allNames (evs : List (Ev N)) : List N := evs.flatMap (·.names)

/-! ## the methods -/

/-- `Demography._prepare_events` -/
def prepare (s : State N) : State N :=
  let evs := sortEvents s.events
  let names := sortDedup (allNames evs)
  { events := evs, popNames := names, nPops := names.length }

/-- `Demography.__init__(events=evs, pop_sizes=…, migration_rates=…)`; `ctor` is the `DiscreteRateChanges` event the
constructor builds from its two dictionaries (`none` when both are empty / omitted). -/
def construct (evs : List (Ev N)) (ctor : Option (Ev N)) : State N :=
  prepare { events := evs ++ ctor.toList, popNames := [], nPops := 0 }

/-- `Demography.add_events` -/
def addEvents (s : State N) (evs : List (Ev N)) : State N :=
  prepare { s with events := s.events ++ evs }

/-- `Demography.add_event` -/
def addEvent (v : Variant) (s : State N) (e : Ev N) : State N :=
  match v with
  | .current => addEvents s [e]
  | .staleadd => { s with events := s.events ++ [e] }

/-- The sampled populations the demography does not know, in the order of the sample:
`[p for p in lineage_config.pop_names if p not in demography.pop_names]`. -/
def missing (s : State N) (sample : List (N × Nat)) : List N :=
  (sample.map (·.1)).filter fun p => decide (p ∉ s.popNames)

/-- `PopSizeChanges({p: {0: 1} for p in missing})`: starts at 0, `pop_names = sorted(set(keys))`. -/
def completionEvent (newId : Nat) (miss : List N) : Ev N :=
  { id := newId, start := 0, names := sortDedup miss }

/-- `AbstractCoalescent.__init__`, the part that concerns the demography and the lineage configuration.
Returns the demography afterwards, the `pop_names` of the event it added (if it added one) and the completed
lineage dict in insertion order (the sample, then the populations only the demography knows with 0 lineages;
the latter come out of a Python `set`: the model lists them in ascending order). -/
def coalescentInit (v : Variant) (s : State N) (sample : List (N × Nat)) (newId : Nat) :
    State N × Option (List N) × List (N × Nat) :=
  let miss := missing s sample
  let r : State N × Option (List N) :=
    if miss.isEmpty then (s, none)
    else (addEvent v s (completionEvent newId miss), some (completionEvent newId miss).names)
  let unspecified := r.1.popNames.filter fun p => decide (p ∉ sample.map (·.1))
  (r.1, r.2, sample ++ unspecified.map fun p => (p, 0))

/-! ## histories -/

inductive Op (N : Type) where
  /-- `d = Demography(events=evs, …)`: a NEW object replaces the current one -/
  | new (evs : List (Ev N)) (ctor : Option (Ev N))
  /-- `d.add_events(evs)` -/
  | addEvents (evs : List (Ev N))
  /-- `d.add_event(e)` -/
  | addEvent (e : Ev N)
  /-- `next(d.epochs)` / `d.get_epoch(t)` / `d.get_epochs(ts)` -/
  | touchEpochs
  /-- read `d.pop_names`, `d.n_pops` -/
  | readPopNames
  /-- read the identities of `d.events` in order -/
  | readEventOrder
  /-- `Coalescent(n=sample, demography=d)`; `newId` is the identity the history gives to the event the
  constructor may add -/
  | coalescentInit (sample : List (N × Nat)) (newId : Nat)
  deriving Repr

inductive Obs (N : Type) where
  | none
  | popNames (names : List N) (nPops : Nat)
  | order (ids : List Nat)
  /-- `added`: the `pop_names` of the event `Coalescent.__init__` appended; `lineages`: the completed lineage
  dict sorted by name (the insertion order of the completed part is that of a Python set) -/
  | coal (added : Option (List N)) (lineages : List (N × Nat))
  deriving DecidableEq, Repr

/-- insert into a list of dict items sorted by key (stable) -/
def insertItem (p : N × Nat) : List (N × Nat) → List (N × Nat)
  | [] => [p]
  | x :: xs => if x.1 < p.1 then x :: insertItem p xs else p :: x :: xs

/-- the items of a dict sorted by key -/
def canonItems (l : List (N × Nat)) : List (N × Nat) := l.foldr insertItem []

def step (v : Variant) (s : State N) : Op N → State N × Obs N
  | .new evs ctor => (construct evs ctor, .none)
  | .addEvents evs => (addEvents s evs, .none)
  | .addEvent e => (addEvent v s e, .none)
  | .touchEpochs => (prepare s, .none)
  | .readPopNames => (s, .popNames s.popNames s.nPops)
  | .readEventOrder => (s, .order (s.events.map (·.id)))
  | .coalescentInit sample newId =>
    let r := coalescentInit v s sample newId
    (r.1, .coal r.2.1 (canonItems r.2.2))

/-- Replay a history; one observation slot per operation. -/
def run (v : Variant) (s : State N) : List (Op N) → State N × List (Obs N)
  | [] => (s, [])
  | op :: ops =>
    let r1 := step v s op
    let r2 := run v r1.1 ops
    (r2.1, r1.2 :: r2.2)

/-! ## ghost bookkeeping of a history (what the theorems talk about) -/

/-- The events an operation appends to `self.events` when it is executed in state `s`. -/
def inserted (s : State N) : Op N → List (Ev N)
  | .new evs ctor => evs ++ ctor.toList
  | .addEvents evs => evs
  | .addEvent e => [e]
  | .coalescentInit sample newId =>
    if (missing s sample).isEmpty then [] else [completionEvent newId (missing s sample)]
  | _ => []

/-- The insertion sequence of the current object after one more operation: a `new` starts it afresh. -/
def logStep (acc : List (Ev N)) (s : State N) : Op N → List (Ev N)
  | .new evs ctor => evs ++ ctor.toList
  | op => acc ++ inserted s op

/-- The insertion sequence of the CURRENT object: everything appended to `self.events` since the last `new`
(inclusive), in the order of the appends; `acc` is the sequence so far, `s` the state the history starts in. -/
def insertionLogFrom (v : Variant) (acc : List (Ev N)) (s : State N) : List (Op N) → List (Ev N)
  | [] => acc
  | op :: ops => insertionLogFrom v (logStep acc s op) (step v s op).1 ops

def insertionLog (v : Variant) (s : State N) (ops : List (Op N)) : List (Ev N) := insertionLogFrom v [] s ops

def userStep (acc : List (Ev N)) : Op N → List (Ev N)
  | .new evs ctor => evs ++ ctor.toList
  | .addEvents evs => acc ++ evs
  | .addEvent e => acc ++ [e]
  | _ => acc

/-- The events the USER hands to the current object (constructor incl. the event built from its dictionaries,
`add_events`, `add_event`), in the order of the calls. -/
def userEvents (ops : List (Op N)) : List (Ev N) := ops.foldl userStep []

def mentionStep (acc : List N) : Op N → List N
  | .new evs ctor => allNames (evs ++ ctor.toList)
  | .addEvents evs => acc ++ allNames evs
  | .addEvent e => acc ++ e.names
  | .coalescentInit sample _ => acc ++ sample.map (·.1)
  | _ => acc

/-- Every population name the history mentions to the current object: the names of the user's events and the
names sampled by the `Coalescent`s built on it. -/
def mentioned (ops : List (Op N)) : List N := ops.foldl mentionStep []

/-- the history begins with the constructor -/
def startsWithNew : List (Op N) → Bool
  | .new _ _ :: _ => true
  | _ => false

def Op.isCoal : Op N → Bool
  | .coalescentInit _ _ => true
  | _ => false

/-- no `Coalescent` is built in the history -/
def noCoal (ops : List (Op N)) : Bool := ops.all fun op => !op.isCoal

end

end PG.DemoObj
