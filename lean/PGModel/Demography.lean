/-
PGModel.Demography — mirror of `phasegen/demography.py`: `Demography._prepare_events`, the `epochs`
generator (`_broadcast` of every event, then `_apply` of every event), `get_epochs`, and the event
classes `DiscreteRateChanges` (and its single-change / symmetric subclasses, which only differ in how
the constructor normalises its arguments), `PopulationSplit`, `DiscretizedRateChange(s)`.

Populations are natural numbers: the harness numbers them by the sorted order of their names, so
"sorted(pop_names)" is the numeric order.
-/
import PGModel.Accumulate

namespace PG

inductive Key where
  | size (p : Nat)
  | mig (src dst : Nat)
  deriving BEq, DecidableEq, Repr, Inhabited

/-- a polynomial trajectory `c₀ + c₁ t + c₂ t² + …` (what the harness uses so that both sides are exact) -/
def polyEval (cs : List Rat) (t : Rat) : Rat := cs.foldr (fun c acc => c + t * acc) 0

inductive Event where
  /-- `DiscreteRateChanges`: ascending unique times, and for each time the values set at that time. -/
  | discrete (changes : List (Rat × List (Key × Rat)))
  /-- `PopulationSplit(time, derived, ancestral, multiplier)` -/
  | split (time : Rat) (derived : List Nat) (ancestral : Nat) (multiplier : Rat)
  /-- `DiscretizedRateChanges`: a group of `DiscretizedRateChange(trajectory, start, end, key, step)` -/
  | discretised (parts : List (List Rat × Rat × Option Rat × Key × Rat))
  deriving Repr, Inhabited

/-- `event.start_time` -/
def Event.startTime : Event → Rat
  | .discrete ch => (ch.head?.map (·.1)).getD 0
  | .split t _ _ _ => t
  | .discretised parts => match parts.map (fun p => p.2.1) with
    | [] => 0
    | x :: xs => xs.foldl min x

def Event.pops : Event → List Nat
  | .discrete ch => ch.flatMap fun c => c.2.flatMap fun kv => match kv.1 with
      | .size p => [p]
      | .mig a b => [a, b]
  | .split _ d a _ => d ++ [a]
  | .discretised parts => parts.flatMap fun p => match p.2.2.2.1 with
      | .size q => [q]
      | .mig a b => [a, b]

structure Epoch where
  start : Rat
  stop : Option Rat
  sizes : Dict Nat Rat
  mig : Dict (Nat × Nat) Rat
  deriving Repr, Inhabited

/-- `a ≤ b` where `none` is `∞` -/
def leInf (a : Rat) : Option Rat → Bool
  | none => true
  | some b => a ≤ b
def ltInf (a : Rat) : Option Rat → Bool
  | none => true
  | some b => a < b
def minInf (a : Option Rat) (b : Rat) : Option Rat :=
  match a with
  | none => some b
  | some x => some (min x b)

def insertEvent (e : Event) : List Event → List Event
  | [] => [e]
  | y :: ys => if e.startTime ≤ y.startTime then e :: y :: ys else y :: insertEvent e ys

/-- stable insertion sort of events by start time (`sorted(events, key=start_time)`) -/
def sortEvents (es : List Event) : List Event := es.foldr insertEvent []

def dedupSorted (xs : List Nat) : List Nat :=
  (argsortNat xs).map (fun i => getN xs i) |>.foldr (fun x acc => if acc.head? == some x then acc else x :: acc) []

/-- `Demography.pop_names` (sorted, unique) -/
def popNames (es : List Event) : List Nat := dedupSorted (es.flatMap Event.pops)

/-- `DiscreteDemographicEvent._broadcast` -/
def broadcastDiscrete (times : List Rat) (e : Epoch) : Epoch :=
  match times.filter fun t => e.start < t ∧ leInf t e.stop ∧ t > 0 with
  | [] => e
  | t :: _ => { e with stop := some t }

/-- `DiscretizedRateChange._broadcast`; `fixed = false` is the pinned variant that assigned the end
time instead of taking the minimum. -/
def broadcastDiscretised (fixed : Bool) (evStart : Rat) (evStop : Option Rat) (step : Rat) (e : Epoch) : Epoch :=
  -- `if epoch.end_time < self.start_time or epoch.start_time > self.end_time: return`
  if (match e.stop with | some en => decide (en < evStart) | none => false) || !(leInf e.start evStop) then e
  else
    let cand : Rat :=
      if evStart > e.start then evStart
      else evStart + ((Rat.ceil ((e.start - evStart + 1 / 10000000000) / step) : Int) : Rat) * step
    { e with stop := if fixed then minInf e.stop cand else some cand }

def Event.broadcast (fixed : Bool) (ev : Event) (e : Epoch) : Epoch :=
  match ev with
  | .discrete ch => broadcastDiscrete (ch.map (·.1)) e
  | .split t _ _ _ => broadcastDiscrete [t] e
  | .discretised parts =>
      parts.foldl (fun e p => broadcastDiscretised fixed p.2.1 p.2.2.1 p.2.2.2.2 e) e

def Epoch.set (e : Epoch) : Key → Rat → Epoch
  | .size p, v => { e with sizes := Dict.insert e.sizes p v }
  | .mig a b, v => { e with mig := Dict.insert e.mig (a, b) v }

/-- `_apply` of each event class. `splitSpec = true` uses the documented orientation of a population
split (derived → ancestral); `false` mirrors the pinned code (see known findings). -/
def Event.apply (fixedEnd splitSpec : Bool) (ev : Event) (e : Epoch) : Epoch :=
  match ev with
  | .discrete ch =>
      (ch.filter fun c => e.start ≤ c.1 ∧ ltInf c.1 e.stop).foldl
        (fun e c => c.2.foldl (fun e kv => e.set kv.1 kv.2) e) e
  | .split t derived anc mult =>
      if e.start ≤ t ∧ ltInf t e.stop then
        let names := dedupSorted (e.sizes.map (·.1))
        if splitSpec then
          let e := derived.foldl (fun e p =>
            names.foldl (fun e q => e.set (.mig q p) 0) e) e
          derived.foldl (fun e p =>
            e.set (.mig p anc) (((e.sizes.lookup p).getD 0) * mult)) e
        else
          let e := derived.foldl (fun e p =>
            e.set (.mig anc p) (((e.sizes.lookup p).getD 0) * mult)) e
          derived.foldl (fun e p => names.foldl (fun e q => e.set (.mig p q) 0) e) e
      else e
  | .discretised parts =>
      parts.foldl (fun e p =>
        let (traj, evStart, evStop, key, _) := p
        match e.stop with
        | some en =>
          if evStart ≤ e.start ∧ (if fixedEnd then leInf en evStop else ltInf en evStop) then
            e.set key ((polyEval traj e.start + polyEval traj en) / 2)
          else e
        | none => e) e

structure DemoOpts where
  /-- `min` repair of `DiscretizedRateChange._broadcast` present -/
  fixedBroadcast : Bool := true
  /-- `<=` repair of `DiscretizedRateChange._apply` present -/
  fixedWindowEnd : Bool := true
  /-- documented (Spec) orientation of `PopulationSplit` rather than the pinned one -/
  splitSpec : Bool := false
  deriving Repr, Inhabited

/-- one step of the `epochs` generator: the epoch following `prev`. -/
def nextEpoch (o : DemoOpts) (events : List Event) (prev : Epoch) : Epoch :=
  let e : Epoch := { start := (prev.stop.getD 0), stop := none, sizes := prev.sizes, mig := prev.mig }
  let e := events.foldl (fun e ev => ev.broadcast o.fixedBroadcast e) e
  events.foldl (fun e ev => ev.apply o.fixedWindowEnd o.splitSpec e) e

/-- the `prev` the generator starts from: sizes 1 and rates 0 for all known populations. -/
def epochZero (names : List Nat) : Epoch :=
  { start := 0, stop := some 0
    sizes := names.map fun p => (p, 1)
    mig := names.flatMap fun p => names.map fun q => ((p, q), 0) }

def epochsFrom (o : DemoOpts) (evs : List Event) : Nat → Epoch → List Epoch
  | 0, _ => []
  | n + 1, prev =>
    let e := nextEpoch o evs prev
    match e.stop with
    | none => [e]
    | some _ => e :: epochsFrom o evs n e

/-- the first `count` epochs (fewer if the schedule ends with an infinite epoch). -/
def epochsUpTo (o : DemoOpts) (events : List Event) (count : Nat) : List Epoch :=
  let evs := sortEvents events
  epochsFrom o evs count (epochZero (popNames evs))

/-- wind forward from epoch `j` to the epoch enclosing `t` -/
def windTo (eps : List Epoch) (t : Rat) : Nat → Nat → Option Nat
  | 0, _ => none
  | fuel + 1, j =>
    match eps[j]? with
    | none => none
    | some e => if e.start ≤ t ∧ ltInf t e.stop then some j else windTo eps t fuel (j + 1)

def sweepEpochs (eps : List Epoch) : List Rat → Nat → List (Option Nat)
  | [], _ => []
  | t :: rest, i =>
    match windTo eps t (eps.length + 1) i with
    | none => none :: sweepEpochs eps rest i
    | some j => some j :: sweepEpochs eps rest j

/-- `Demography.get_epochs(ts)`: for each time (in input order) the index of its epoch,
`none` if not within the given epochs. Mirrors the sorted sweep and the scatter back. -/
def getEpochIdx (eps : List Epoch) (ts : List Rat) : List (Option Nat) :=
  scatterBack ts (sweepEpochs eps (sortRat ts) 0)

def Epoch.toT (e : Epoch) : EpochT := { start := e.start, stop := e.stop }

end PG
