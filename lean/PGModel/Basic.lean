/-
PGModel.Basic — small total helpers shared by the executable model.
No imports beyond core Lean: everything here must link into the `pgdriver` executable.
-/

namespace PG

/-- Binomial coefficient by Pascal's rule (same recursion as Mathlib's `Nat.choose`). -/
def choose : Nat → Nat → Nat
  | _, 0 => 1
  | 0, _ + 1 => 0
  | n + 1, k + 1 => choose n k + choose n (k + 1)

def factorial : Nat → Nat
  | 0 => 1
  | n + 1 => (n + 1) * factorial n

/-- Sum of a list of naturals. -/
def sumNat (l : List Nat) : Nat := l.foldl (· + ·) 0

def sumRat (l : List Rat) : Rat := l.foldl (· + ·) 0

def prodRat (l : List Rat) : Rat := l.foldl (· * ·) 1

def prodNat (l : List Nat) : Nat := l.foldl (· * ·) 1

/-- `l[i]` with default 0 (numpy arrays in the code are always indexed in range; the model is total). -/
def getN (l : List Nat) (i : Nat) : Nat := l.getD i 0

def getR (l : List Rat) (i : Nat) : Rat := l.getD i 0

/-- `l[i] += d` (no-op out of range). -/
def addAt (l : List Nat) (i : Nat) (d : Nat) : List Nat := l.modify i (· + d)

/-- `l[i] -= d` (truncated; callers guard `d ≤ l[i]`). -/
def subAt (l : List Nat) (i : Nat) (d : Nat) : List Nat := l.modify i (· - d)

/-- dot product with weights 1,2,3,… : `comb.dot(np.arange(1, n+1))`. -/
def weight (l : List Nat) : Nat :=
  sumNat ((List.range l.length).map fun i => (i + 1) * getN l i)

/-- Cartesian product of ranges `range(b₀+1) × range(b₁+1) × …` in `itertools.product` order. -/
def boxes : List Nat → List (List Nat)
  | [] => [[]]
  | b :: bs => (List.range (b + 1)).flatMap fun i => (boxes bs).map fun r => i :: r

/-- All ordered pairs `(i, j)`, `i, j < n`, in `itertools.product(range(n), repeat=2)` order. -/
def pairs (n : Nat) : List (Nat × Nat) :=
  (List.range n).flatMap fun i => (List.range n).map fun j => (i, j)

/-- Association-list "dict" with Python semantics: keys keep first-insertion order. -/
abbrev Dict (κ : Type) (ν : Type) := List (κ × ν)

/-- `d[k] = v` (overwrite if present, append otherwise). -/
def Dict.insert {κ ν} [BEq κ] (d : Dict κ ν) (k : κ) (v : ν) : Dict κ ν :=
  if d.any (fun p => p.1 == k) then d.map (fun p => if p.1 == k then (k, v) else p)
  else d ++ [(k, v)]

/-- `d |= e` : right-biased union. -/
def Dict.union {κ ν} [BEq κ] (d e : Dict κ ν) : Dict κ ν :=
  e.foldl (fun acc p => Dict.insert acc p.1 p.2) d

/-- `Transition.add_target`: add the rate if the key is present, insert otherwise. -/
def Dict.addTarget {κ} [BEq κ] (d : Dict κ Rat) (k : κ) (r : Rat) : Dict κ Rat :=
  if d.any (fun p => p.1 == k) then d.map (fun p => if p.1 == k then (p.1, p.2 + r) else p)
  else d ++ [(k, r)]

def Dict.get? {κ ν} [BEq κ] (d : Dict κ ν) (k : κ) : Option ν := d.lookup k

/-- Integer powers of rationals with natural exponents. -/
def rpowNat (q : Rat) (n : Nat) : Rat := q ^ n

end PG
