/-
PGModel.Eval — numeric evaluation of factor lists with the fixed-point exponential:
the Van Loan block matrix, the running product of `_accumulate` / `cdf`, and the exact
rational algebra of `SFSDistribution._get_P` / `get_mutation_config`.
-/
import PGModel.Space
import PGModel.Rewards
import PGModel.FixExp
import PGModel.Accumulate
import PGModel.Moments

namespace PG

/-- dense generator from sparse rows: off-diagonal entries, diagonal = minus the row sum -/
def denseGen (n : Nat) (rows : List (List (Nat × Rat))) : Array (Array Rat) :=
  (Array.range n).map fun i =>
    let row := rows.getD i []
    let off : Array Rat := row.foldl (fun a (j, r) => if j < n then a.set! j r else a) (Array.replicate n 0)
    let tot := off.foldl (· + ·) 0
    off.set! i (-tot)

/-- `_get_van_loan_matrix(R, S, k)` scaled by `tau`, in fixed point -/
def vanLoanFix (S : Array (Array Rat)) (R : List (Array Rat)) (k : Nat) (tau : Rat) : FMat :=
  let n := S.size
  FMat.ofFn ((k + 1) * n) fun I J =>
    let bi := I / n; let bj := J / n; let i := I % n; let j := J % n
    if bi = bj then tau * ((S.getD i #[]).getD j 0)
    else if bj = bi + 1 then (if i = j then tau * ((R.getD bi #[]).getD i 0) else 0)
    else 0

/-- running product of `_accumulate`: returns `k! · α · Q[0, k] · 1` after each group of new factors -/
def evalAccum (gens : Array (Array (Array Rat))) (R : List (Array Rat)) (alpha : List Rat)
    (news : List (List Factor)) : List Rat := Id.run do
  let k := R.length
  let n := alpha.length
  let dim := (k + 1) * n
  let alphaFix : Array Int := (alpha.map fixOfRat).toArray
  let mut Q := FMat.id dim
  let mut out : List Rat := []
  for fs in news do
    for (e, tau) in fs do
      if tau != 0 then
        Q := Q.mul (fixExp (vanLoanFix (gens.getD e #[]) R k tau))
    -- α · Q[:n, -n:] · e
    let mut acc : Int := 0
    for i in [0:n] do
      let a := alphaFix.getD i 0
      if a != 0 then
        let mut rowSum : Int := 0
        for j in [0:n] do
          rowSum := rowSum + Q.get i (k * n + j)
        acc := acc + ((a * rowSum) >>> prec)
    out := out ++ [(factorial k : Rat) * fixToRat acc]
  return out

/-- running product of `cdf`: returns `1 - α · T · e` after each group of new factors -/
def evalCdf (gens : Array (Array (Array Rat))) (exitVec : Array Rat) (alpha : List Rat)
    (news : List (List Factor)) : List Rat := Id.run do
  let n := alpha.length
  let alphaFix : Array Int := (alpha.map fixOfRat).toArray
  let eFix : Array Int := exitVec.map fixOfRat
  let mut T := FMat.id n
  let mut out : List Rat := []
  for fs in news do
    for (e, tau) in fs do
      if tau != 0 then
        T := T.mul (fixExp (vanLoanFix (gens.getD e #[]) [] 0 tau))
    out := out ++ [1 - fixToRat (dotFix (vecMat alphaFix T) eFix)]
  return out

/-! ### exact linear algebra over `Rat` (Gauss–Jordan) for `_get_P` -/

abbrev RMat := Array (Array Rat)

def RMat.get (a : RMat) (i j : Nat) : Rat := (a.getD i #[]).getD j 0
def RMat.id (n : Nat) : RMat := (Array.range n).map fun i => (Array.range n).map fun j => if i = j then 1 else 0
def RMat.mul (a b : RMat) : RMat :=
  let n := a.size; let m := (b.getD 0 #[]).size; let p := b.size
  (Array.range n).map fun i => (Array.range m).map fun j =>
    (Array.range p).foldl (fun acc k => acc + a.get i k * b.get k j) 0
def RMat.add (a b : RMat) : RMat :=
  (Array.range a.size).map fun i => (Array.range (a.getD i #[]).size).map fun j => a.get i j + b.get i j

def RMat.isId (a : RMat) : Bool :=
  (List.range a.size).all fun i => (List.range a.size).all fun j => a.get i j == (if i = j then 1 else 0)

/-- inverse by Gauss–Jordan elimination; `none` if singular -/
def RMat.inv (a : RMat) : Option RMat := Id.run do
  let n := a.size
  let mut m : RMat := (Array.range n).map fun i => (a.getD i #[]) ++ ((RMat.id n).getD i #[])
  for c in [0:n] do
    -- find pivot
    let mut piv := n
    for r in [c:n] do
      if piv = n ∧ m.get r c != 0 then piv := r
    if piv = n then return none
    let rowP := m.getD piv #[]
    let rowC := m.getD c #[]
    m := (m.set! piv rowC).set! c rowP
    let p := m.get c c
    m := m.set! c ((m.getD c #[]).map (· / p))
    for r in [0:n] do
      if r != c then
        let f := m.get r c
        if f != 0 then
          let rc := m.getD c #[]
          m := m.set! r ((Array.range (2 * n)).map fun j => m.get r j - f * rc.getD j 0)
  return some (m.map fun row => row.extract n (2 * n))

/-- `SFSDistribution._get_P(n, theta)` on the non-absorbing states:
`P_total = (I - diag(1/r_total)/θ · S)⁻¹`, `p_total = (I - P_total)·1`, `P_i = P_total · diag(R_i / r_total)`. -/
def getP (S : RMat) (R : List (Array Rat)) (theta : Rat) : Option (List RMat × Array Rat) :=
  let k := S.size
  let rTotal : Array Rat := (Array.range k).map fun s => R.foldl (fun acc Ri => acc + Ri.getD s 0) 0
  let M : RMat := (Array.range k).map fun i => (Array.range k).map fun j =>
    (if i = j then 1 else 0) - (1 / rTotal.getD i 0) / theta * S.get i j
  -- the Gauss–Jordan result is used only if it is CERTIFIED: `M * Ptot = 1` and `Ptot * M = 1` exactly
  match (M.inv).filter (fun Ptot => RMat.isId (M.mul Ptot) && RMat.isId (Ptot.mul M)) with
  | none => none
  | some Ptot =>
    let pTot : Array Rat := (Array.range k).map fun i =>
      (Array.range k).foldl (fun acc j => acc + ((if i = j then 1 else 0) - Ptot.get i j)) 0
    let P := R.map fun Ri => (Array.range k).map fun i => (Array.range k).map fun j =>
      Ptot.get i j * (Ri.getD j 0 / rTotal.getD j 0)
    some (P, pTot)

/-- distinct orderings of a multiset given as a sorted list (Spec of `utils.multiset_permutations`) -/
def dedupList {α} [BEq α] (l : List α) : List α :=
  l.foldl (fun acc x => if acc.contains x then acc else acc ++ [x]) []

def distinctOrderingsAux : Nat → List Nat → List (List Nat)
  | 0, _ => [[]]
  | fuel + 1, l =>
    if l.isEmpty then [[]]
    else (dedupList l).flatMap fun x => (distinctOrderingsAux fuel (l.erase x)).map (x :: ·)

def distinctOrderings (l : List Nat) : List (List Nat) := distinctOrderingsAux l.length l

/-- `get_mutation_config(config, theta)` for `theta > 0`: `α · Σ_orderings ∏ P_i · p_total`. -/
def mutConfigProb (S : RMat) (R : List (Array Rat)) (alpha : Array Rat) (theta : Rat)
    (config : List Nat) : Option Rat :=
  match getP S R theta with
  | none => none
  | some (P, pTot) =>
    let k := S.size
    let q : List Nat := (config.zipIdx).flatMap fun (c, i) => List.replicate c (i + 1)
    let Q : RMat := (distinctOrderings q).foldl (fun acc ord =>
      acc.add (ord.foldl (fun U i => U.mul (P.getD (i - 1) (RMat.id k))) (RMat.id k)))
      ((Array.range k).map fun _ => Array.replicate k 0)
    some ((Array.range k).foldl (fun acc i =>
      acc + alpha.getD i 0 * (Array.range k).foldl (fun a j => a + Q.get i j * pTot.getD j 0) 0) 0)

/-- `StateSpace._get_partitions(n, k)`: vectors of length `k` summing to `n`, in the code's order -/
def partitionsOf : Nat → Nat → List (List Nat)
  | _, 0 => [[]]
  | n, 1 => [[n]]
  | n, k + 1 => (List.range (n + 1)).flatMap fun i => (partitionsOf (n - i) k).map (· ++ [i])

/-- `FoldedSFSDistribution._unfold(config)` for `n` lineages (as a duplicate-free list) -/
def unfoldConfig (n : Nat) (config : List Nat) : List (List Nat) :=
  let lowerCounts := if n % 2 = 1 then config else config.dropLast
  let iCenter := if n % 2 = 1 then config.length else config.length - 1
  let lowers := (boxes lowerCounts).map fun lo => if n % 2 = 1 then lo else lo ++ [config.getLastD 0]
  dedupList (lowers.map fun lower =>
    let higher := ((List.zipWith (· - ·) config lower).take iCenter).reverse
    lower ++ higher)

end PG
