/-
PGModel.Marginals — mirror of the layer of `phasegen/distributions.py` (l.162–385) which ASSEMBLES the
per-deme / per-locus observables of a phase-type distribution `dist`:

  `MarginalDemeDistributions`  (`dist.demes`)      `MarginalLocusDistributions`  (`dist.loci`)
    `.demes[pop]`  sub-distribution, reward `CombinedReward([dist.reward, DemeReward(pop)])`
    `.loci[l]`     sub-distribution, reward `CombinedReward([dist.reward, LocusReward(l)])`
    `.get_cov(a, b) = dist.moment(k=2, rewards=(Combined[r, a], Combined[r, b]), center=True)`
                     (`permute` is left at its default `True`)
    `.cov          = [[get_cov(p1, p2) for p1 in names] for p2 in names]`      (row = SECOND argument)
    `.get_corr(a, b) = get_cov(a, b) / (sub[a].std * sub[b].std)`              (`std = var ** 0.5` of the SUB-distributions)
    `.corr         = [[get_corr(p1, p2) for p1 in names] for p2 in names]`
    `ValueError` guards of `get_cov`, `KeyError` of `sub[...]`, `ZeroDivisionError` of `get_corr`.

Everything is parametrised by the raw moment functional `raw : List Reward → V` of `PGModel.Moments`
(the uncentred, order-conditioned `_accumulate` of a reward tuple at the horizon of the distribution);
`V` is any value type with `MomVal V` (`Rat` in the driver).  A part (deme / locus) is addressed by its
position on the deme axis `lineage_config.pop_names` resp. by the locus number.

Variants (seeded defects of this layer):
  `locusDiagJointVar`   locus `get_cov(i, i)` returns `dist.var` (the JOINT variance) as a "shortcut";
  `locusCorrOneAtR0`    locus `get_corr` returns `1.0` when the recombination rate is `0`;
  `demeCovNoPermute`    deme `get_cov` passes `permute=False`; only `.cov` is symmetrised afterwards
                        (`(cov + cov.swapaxes(0, 1)) / 2`).
-/
import PGModel.Moments
import PGModel.Rewards

namespace PG
namespace Marginals

inductive Variant where
  | current
  | locusDiagJointVar
  | locusCorrOneAtR0
  | demeCovNoPermute
  deriving Repr, DecidableEq, Inhabited

/-- which family of marginals: `dist.demes` or `dist.loci` -/
inductive Kind where
  | demes
  | loci
  deriving Repr, DecidableEq, Inhabited

/-- the exceptions this layer can raise -/
inductive Err where
  /-- `raise ValueError(f"Population {pop1} or {pop2} does not exist.")` / `"Locus … does not exist."` -/
  | valueError
  /-- `self.demes[pop]` / `self.loci[l]` for a key that is not in the dict -/
  | keyError
  /-- `float / 0.0` in `get_corr` -/
  | zeroDivision
  deriving Repr, DecidableEq, Inhabited

/-- what the marginal layer reads of the distribution object `self.dist` -/
structure Dist where
  /-- `dist.reward` -/
  reward : Reward
  /-- `len(dist.lineage_config.pop_names)`; deme `i` stands for `pop_names[i]` -/
  nDemes : Nat
  /-- `dist.locus_config.n` -/
  nLoci : Nat
  /-- `dist.locus_config.recombination_rate` -/
  recRate : Rat
  deriving Repr, Inhabited

/-- number of parts: `len(pop_names)` resp. `locus_config.n` -/
def Dist.size (d : Dist) : Kind → Nat
  | .demes => d.nDemes
  | .loci => d.nLoci

/-- `DemeReward(pop_names[i])` resp. `LocusReward(i)` -/
def partReward : Kind → Nat → Reward
  | .demes, i => .deme i
  | .loci, i => .locus i

/-- `CombinedReward([self.dist.reward, DemeReward(pop)])` resp. `CombinedReward([self.dist.reward, LocusReward(l)])` -/
def subReward (r : Reward) (k : Kind) (i : Nat) : Reward := Reward.combined [r, partReward k i]

section Generic
variable {V : Type} [MomVal V]

/-- `dist.moment(k=len(rs), rewards=rs, center, permute)` with the default window (start time 0, horizon of the
distribution): `PhaseTypeDistribution.accumulate` at the single end time. -/
def moment (raw : List Reward → V) (rs : List Reward) (center permute : Bool) : V :=
  accumulateModel raw center permute rs

/-- `mean = self.moment(k=1)` of a distribution with reward `r` (`center`, `permute` at their defaults `True`) -/
def distMean (raw : List Reward → V) (r : Reward) : V := moment raw [r] true true

/-- `var = self.moment(k=2, center=True)` of a distribution with reward `r` -/
def distVar (raw : List Reward → V) (r : Reward) : V := moment raw [r, r] true true

/-- `dist.demes[pop].mean` / `dist.loci[l].mean`: the sub-distribution shares state space, demography and horizon
with `dist`, so its moments are those of `raw` for its own reward -/
def margMean (raw : List Reward → V) (r : Reward) (k : Kind) (i : Nat) : V := distMean raw (subReward r k i)

/-- `dist.demes[pop].var` / `dist.loci[l].var` -/
def margVar (raw : List Reward → V) (r : Reward) (k : Kind) (i : Nat) : V := distVar raw (subReward r k i)

/-- the lookup `self.demes[pop]` / `self.loci[l]` (a dict with one entry per part): the reward of the entry -/
def marg? (d : Dist) (k : Kind) (i : Nat) : Except Err Reward :=
  if i < d.size k then .ok (subReward d.reward k i) else .error .keyError

/-- the `permute` argument `get_cov` hands to `moment` -/
def covPermute (v : Variant) (k : Kind) : Bool :=
  if v = .demeCovNoPermute ∧ k = .demes then false else true

/-- body of `get_cov` behind the guard -/
def covCore (v : Variant) (d : Dist) (raw : List Reward → V) (k : Kind) (a b : Nat) : V :=
  if v = .locusDiagJointVar ∧ k = .loci ∧ a = b then distVar raw d.reward
  else moment raw [subReward d.reward k a, subReward d.reward k b] true (covPermute v k)

/-- `get_cov(a, b)` -/
def getCov (v : Variant) (d : Dist) (raw : List Reward → V) (k : Kind) (a b : Nat) : Except Err V :=
  if a < d.size k ∧ b < d.size k then .ok (covCore v d raw k a b) else .error .valueError

/-- entry `[i][j]` of a nested list -/
def entry (m : List (List V)) (i j : Nat) : V := (m.getD i []).getD j MomVal.zero

/-- `cov`: `np.array([[self.get_cov(p1, p2) for p1 in pops] for p2 in pops])` — the OUTER index is the second
argument, so `cov[i][j] = get_cov(j, i)`. -/
def covMatrix (v : Variant) (d : Dist) (raw : List Reward → V) (k : Kind) : Except Err (List (List V)) := do
  let idx := List.range (d.size k)
  let cov ← idx.mapM fun p2 => idx.mapM fun p1 => getCov v d raw k p1 p2
  if v = .demeCovNoPermute ∧ k = .demes then
    -- `(cov + cov.swapaxes(0, 1)) / 2`
    return idx.map fun i => idx.map fun j => MomVal.smul (1 / 2) (MomVal.add (entry cov i j) (entry cov j i))
  else
    return cov

/-- the arithmetic `get_corr` needs beyond `MomVal`: `x ** 0.5`, `/`, and the test behind `ZeroDivisionError` -/
structure CorrOps (V : Type) where
  sqrt : V → V
  div : V → V → V
  isZero : V → Bool

/-- `get_corr(a, b) = get_cov(a, b) / (sub[a].std * sub[b].std)`; the numerator is evaluated first (so a missing
part raises `ValueError`, never `KeyError`), the standard deviations are those of the SUB-distributions. -/
def getCorr (ops : CorrOps V) (v : Variant) (d : Dist) (raw : List Reward → V) (k : Kind) (a b : Nat) :
    Except Err V :=
  if v = .locusCorrOneAtR0 ∧ k = .loci ∧ d.recRate = 0 then .ok MomVal.one
  else do
    let c ← getCov v d raw k a b
    let sa := ops.sqrt (margVar raw d.reward k a)
    let sb := ops.sqrt (margVar raw d.reward k b)
    let den := MomVal.mul sa sb
    if ops.isZero den then .error .zeroDivision else .ok (ops.div c den)

/-- `corr`: `np.array([[self.get_corr(p1, p2) for p1 in pops] for p2 in pops])` -/
def corrMatrix (ops : CorrOps V) (v : Variant) (d : Dist) (raw : List Reward → V) (k : Kind) :
    Except Err (List (List V)) :=
  let idx := List.range (d.size k)
  idx.mapM fun p2 => idx.mapM fun p1 => getCorr ops v d raw k p1 p2

/-- `[dist.demes[p].mean for p in pops]` -/
def meanVector (d : Dist) (raw : List Reward → V) (k : Kind) : List V :=
  (List.range (d.size k)).map (margMean raw d.reward k)

/-- `[dist.demes[p].var for p in pops]` -/
def varVector (d : Dist) (raw : List Reward → V) (k : Kind) : List V :=
  (List.range (d.size k)).map (margVar raw d.reward k)

end Generic

/-! ### rational instance (driver) -/

/-- `x ** 0.5` to `2^-128` (floor of the square root of `x · 2^256`, scaled back); `0` for `x ≤ 0` -/
def sqrtFix (x : Rat) : Rat :=
  if x ≤ 0 then 0
  else
    let p : Nat := 128
    mkRat (Nat.sqrt (x.num.toNat * 2 ^ (2 * p) / x.den)) (2 ^ p)

/-- rational arithmetic with a given square root -/
def ratOps (sqrt : Rat → Rat) : CorrOps Rat := ⟨sqrt, (· / ·), (· == 0)⟩

end Marginals
end PG
