/-
PGModel.ConfigDemo — the TRANSLATION from the user's named change dictionaries (`Config.Input`) to the
`Nat`-keyed event list the demography model (`PGModel/Demography.lean`) consumes, and the tables the
transitions read off an epoch object in deme-axis order.

Mirrors (file : lines of the repaired tree /repo)
* `phasegen/demography.py`    `Demography.__init__` l.27-110 (`events += [DiscreteRateChanges(pop_sizes,
  migration_rates)]` if one of them is non-empty), `DiscreteRateChanges.__init__` l.643-725
  (`_flatten`: all change times unique ascending; `self.pop_sizes[t]`, `self.migration_rates[t]` in the
  order of the SORTED population names), `_apply` l.727-735
* `phasegen/distributions.py` `AbstractCoalescent.__init__` l.2411-2418 (`PopSizeChanges({p: {0: 1}})` for
  the populations only the sample configuration mentions)
* `phasegen/state_space.py`   `Transition.coalesce` l.632, `migrate_unlinked` l.752/767 (`tableOfEpoch`)

The definitions were moved here VERBATIM from `PGProofs/EndToEnd2.lean` (section K) -- and `Epoch.value`
from `PGProofs/DemographyThm.lean` -- so that they can be linked into `pgdriver` (command `cfgepochs`) and
compared with the real `coal.demography.epochs` (harness/props/corr_models.py `cfg_epochs`).  They keep
their names (`PG.EndToEnd.*`, `PG.Epoch.value`): every theorem about them in `PGProofs` is unchanged.

No imports beyond the model: this file is linked into `pgdriver`.
-/
import PGModel.Config
import PGModel.Demography

namespace PG

/-- the value of a key in an epoch (`epoch.pop_sizes[p]` resp. `epoch.migration_rates[(a, b)]`). -/
def Epoch.value (e : Epoch) : Key → Option Rat
  | .size p => e.sizes.lookup p
  | .mig a b => e.mig.lookup (a, b)

namespace EndToEnd
open Config

/-- insert into a strictly ascending list of times, dropping duplicates -/
def insertTime (x : Rat) : List Rat → List Rat
  | [] => [x]
  | y :: ys => if x < y then x :: y :: ys else if x = y then y :: ys else y :: insertTime x ys

/-- `np.sort(np.unique(·))` -/
def sortDedupQ (l : List Rat) : List Rat := l.foldr insertTime []

/-- **name ↦ index**: the population NAMED `p` is the natural number "position of `p` on the
sorted list of all names" (`Demography.pop_names` after `AbstractCoalescent.__init__`,
`Config.allNames`): the numbering under which `PGModel/Demography.lean` keys populations by `ℕ` -/
def nameIdx (I : Input) (p : Name) : Nat := (allNames I).idxOf p

/-- `times_all` of `DiscreteRateChanges._flatten`: all change times of all keys, unique, ascending -/
def changeTimesOf (I : Input) : List Rat :=
  sortDedupQ (I.sizes.flatMap (fun e => e.2.map (·.1)) ++ I.mig.flatMap (fun e => e.2.map (·.1)))

/-- `self.pop_sizes[t]` of `DiscreteRateChanges` (demography.py l.712):
`{x: pops[x] for x in self.pop_names if x in pops}` with `pops = rates[t]`, `rates[t][key] = r[t]`
for the keys whose change dict `r` has the time `t` -/
def sizeEntries (I : Input) (t : Rat) : List (Key × Rat) :=
  (demographyNames I.sizes I.mig).filterMap fun p =>
    ((I.sizes.lookup p).bind fun ch => ch.lookup t).map fun v => (Key.size (nameIdx I p), v)

/-- `self.migration_rates[t]` (l.717):
`{(p, q): rates[t][(p, q)] for p in self.pop_names for q in self.pop_names if (p, q) in rates[t]}` -/
def migEntries (I : Input) (t : Rat) : List (Key × Rat) :=
  (demographyNames I.sizes I.mig).flatMap fun p =>
    (demographyNames I.sizes I.mig).filterMap fun q =>
      ((I.mig.lookup (p, q)).bind fun ch => ch.lookup t).map
        fun v => (Key.mig (nameIdx I p) (nameIdx I q), v)

/-- `Demography.__init__` l.84-85: `if len(pop_sizes) or len(migration_rates): self.events +=
[DiscreteRateChanges(pop_sizes=pop_sizes, migration_rates=migration_rates)]`; `_apply` (l.731-733)
performs, for every time `t` in its window, `epoch.pop_sizes |= self.pop_sizes[t]` then
`epoch.migration_rates |= self.migration_rates[t]` -/
def mainEvent (I : Input) : List Event :=
  if I.sizes = [] ∧ I.mig = [] then []
  else [.discrete ((changeTimesOf I).map fun t => (t, sizeEntries I t ++ migEntries I t))]

/-- `{p for p in lineage_config.pop_names if p not in demography.pop_names}`, sorted
(`DiscreteRateChanges.pop_names` of the added `PopSizeChanges`) -/
def sampleOnly (I : Input) : List Name :=
  sortDedup (I.linNames.filter fun p => !(demographyNames I.sizes I.mig).contains p)

/-- `AbstractCoalescent.__init__` l.2411-2418: `demography.add_event(PopSizeChanges({p: {0: 1}
for p in lineage_config.pop_names if p not in demography.pop_names}))` if there is such a `p` -/
def extraEvent (I : Input) : List Event :=
  if sampleOnly I = [] then []
  else [.discrete [(0, (sampleOnly I).map fun p => (Key.size (nameIdx I p), 1))]]

/-- **The translation.**  The event list of the `Demography` object the coalescent works with,
populations numbered by `nameIdx`.  (`Demography._prepare_events` then sorts it by start time:
`sortEvents` inside `epochsUpTo`.) -/
def toEvents (I : Input) : List Event := mainEvent I ++ extraEvent I

/-- the tables the transitions read off an epoch object: `Transition.coalesce` l.632
`[epoch.pop_sizes[pop] for pop in lineage_config.pop_names]`, `migrate_unlinked` l.752
`epoch.migration_rates[(pop_names[d1], pop_names[d2])]`, `pop_names = lineage_config.pop_names`
(the deme axis); the epoch's dicts are keyed by `nameIdx` of the name (a `KeyError` is 0 here) -/
def tableOfEpoch (I : Input) (e : Epoch) : List Rat × List (List Rat) :=
  ((axis I).map fun p => (e.value (.size (nameIdx I p))).getD 0,
   (axis I).map fun p => (axis I).map fun q =>
     (e.value (.mig (nameIdx I p) (nameIdx I q))).getD 0)

/-- the epochs `Demography.epochs` generates (the first `count` of them) for the user's input -/
abbrev demoEpochs (o : DemoOpts) (I : Input) (count : Nat) : List Epoch :=
  epochsUpTo o (toEvents I) count

end EndToEnd
end PG
