/-
PGModel.Validate — argument validation of a "request" (property C20).

A request is: build a coalescent model, a demography, a locus configuration, a `Coalescent`, then
ask one statistic of `coal.tree_height` / `coal.sfs` / `coal.fsfs`.  `validate` mirrors the ORDER and
the conditions of the checks the real code performs on the way:

  1. `BetaCoalescent.__init__` / `DiracCoalescent.__init__`      coalescent_models.py l.288, l.385
  2. `Demography(pop_sizes=…, migration_rates=…)` →
     `DiscreteRateChanges.__init__`                              demography.py l.673-706
  3. `LocusConfig.__init__`                                      locus.py l.34-44
     `AbstractCoalescent.__init__` (recombination rate)          distributions.py l.2389-2403
  4. first statistic access:
     `coal.sfs` evaluates `state_space=self.block_counting_state_space` first
       → `BlockCountingStateSpace.__init__`                      state_space.py l.526
     then `tree_height=self.tree_height` → `TreeHeightDistribution.__init__`
                                                                 distributions.py l.982-989
  5. the statistic itself: `cdf` l.1024-1028, `quantile` l.1150, `moment` l.641-664 (`t_max` l.1210),
     `accumulate` l.734-738, `_accumulate` l.803-811, `get_mutation_config` l.1698-1716;
     building the state space (`get_transitions` → `Transition.coalesce` l.654-660) raises
     `NotImplementedError` for two loci with a multiple-merger model.
(The order 1-2-3 is Python's left-to-right evaluation of
`Coalescent(n=…, model=…, demography=…, loci=…, recombination_rate=…)`.)

Not modelled (numerical, not argument checks): the NaN guard of `moment` (l.666-670),
"time of almost sure absorption smaller than start time" (`t_max`, l.1221), and exceptions of the
numerical phase for parameter values the constructors accept: `BetaCoalescent(alpha=1)` passes
`__init__` but `_get_timescale` divides by `alpha - 1` (ZeroDivisionError with `scale_time=True`);
`alpha=2` passes `__init__` but yields no positive rate (numpy `ValueError` in
`_check_numerical_stability`).  `ok` therefore means "no argument check fires"; a harness should
compare the endpoints `alpha ∈ {1, 2}` at constructor level.  `n ≥ 2` is assumed
(at least one SFS bin, at least one coalescence when the state space is built).

Two facts about the real code that the model keeps and `invalid` reflects:
* `PhaseTypeDistribution.accumulate` returns `ones` for `k = 0` BEFORE any time check and without
  building the state space (l.737), so an order-0 request with negative times, or with a
  multiple-merger model on two loci, does not raise;
* `moment(end_time=None)` evaluates `tree_height.t_max` first, which builds the state space unless an
  end time was given at construction.

## Flat encoding used by the driver command `validate` (all tokens `key=value`, any order,
## unspecified keys keep the valid defaults of `Request`):
  n=<nat>                 sample size (default 4)
  loci=<int>              number of loci (default 1)
  viacfg=0|1              1: `loci=LocusConfig(n=loci, n_unlinked=unl, recombination_rate=rloc)`,
                          0: `loci=<int>` (default 0)
  unl=<int>               `n_unlinked` of the LocusConfig (only used with viacfg=1)
  rloc=<rat>              `recombination_rate` of the LocusConfig (only used with viacfg=1)
  rarg=none|<rat>         the separate `recombination_rate=` argument of `Coalescent`
  model=kingman|beta|dirac   alpha=<rat>  psi=<rat>  c=<rat>
  start=<rat>  end=none|<rat>     `start_time`, `end_time` of `Coalescent`
  sizes=<t:v,t:v,…>|-     population-size changes (time:size), all demes flattened
  rates=<t:v,t:v,…>|-     migration-rate changes (time:rate), all pairs flattened
                          (both empty: `demography=None`)
  dist=th|sfs|fsfs        distribution the statistic is asked of (default th)
  query=mean
       |cdf:<t1,t2,…>                 `tree_height.cdf([t…])`
       |acc:<k>:<rewardsLen>:<t1,…>   `dist.accumulate(k, [t…], rewards of that length)`
       |mom:<k>:<rewardsLen>:<end|none>  `dist.moment(k, rewards of that length, end_time=…)`
       |quant:<q>                     `tree_height.quantile(q)`
       |mut:<configLen>:<theta>:<nEpochs>   `dist.get_mutation_config(config, theta)` on sfs/fsfs
                                      (`dist=th` is read as `sfs`), `nEpochs` = epochs of the demography
  repaired=0|1            0: the pinned variant without the check on `rarg` next to a LocusConfig
Rationals are `a` or `a/b`.  Answer: `ok` | `ValueError` | `NotImplementedError`.
No imports: this file is linked into the `pgdriver` executable.
-/
import PGModel.Basic

namespace PG.Validate

inductive Err where
  | valueError
  | notImplemented
  deriving DecidableEq, Repr

inductive ModelKind where
  | kingman
  | beta
  | dirac
  deriving DecidableEq, Repr

inductive Query where
  | mean
  | cdf (ts : List Rat)
  | accumulate (k rewardsLen : Nat) (times : List Rat)
  | moment (k rewardsLen : Nat) (endTime : Option Rat)
  | quantile (q : Rat)
  | mutationConfig (configLen : Nat) (theta : Rat) (nEpochs : Nat)
  deriving DecidableEq, Repr

structure Request where
  n : Nat := 4
  loci : Int := 1
  viaConfig : Bool := false
  nUnlinked : Int := 0
  recLocus : Rat := 0
  recArg : Option Rat := none
  model : ModelKind := .kingman
  alpha : Rat := 3 / 2
  psi : Rat := 1 / 2
  c : Rat := 1
  startTime : Rat := 0
  endTime : Option Rat := none
  sizes : List (Rat × Rat) := []
  rates : List (Rat × Rat) := []
  sfs : Bool := false
  folded : Bool := false
  query : Query := .mean
  deriving Repr

abbrev Res := Except Err Unit

/-- `if bad: raise e` -/
def check (bad : Prop) [Decidable bad] (e : Err) : Res := if bad then .error e else .ok ()

/-- sequencing: the second check runs only if the first did not raise -/
def andThen (a b : Res) : Res :=
  match a with
  | .ok _ => b
  | .error e => .error e

infixr:60 " ;; " => andThen

/-- `o is not None and o < b` -/
def optLt (o : Option Rat) (b : Rat) : Prop :=
  match o with
  | some e => e < b
  | none => False

instance (o : Option Rat) (b : Rat) : Decidable (optLt o b) :=
  match o with
  | some e => inferInstanceAs (Decidable (e < b))
  | none => inferInstanceAs (Decidable False)

/-! ### construction -/

def checkModel (r : Request) : Res :=
  match r.model with
  | .kingman => .ok ()
  | .beta => check (r.alpha < 1 ∨ r.alpha > 2) .valueError
  | .dirac => check (¬ (0 < r.psi ∧ r.psi < 1)) .valueError

/-- `DiscreteRateChanges.__init__`: sizes `<= 0`, then times `< 0`, then rates `< 0`
(the last check of the source, sizes `<= 0` again, can no longer fire). -/
def checkDemography (r : Request) : Res :=
  check (∃ p ∈ r.sizes, p.2 ≤ 0) .valueError ;;
  check (∃ p ∈ r.sizes ++ r.rates, p.1 < 0) .valueError ;;
  check (∃ p ∈ r.rates, p.2 < 0) .valueError

/-- `LocusConfig.__init__` -/
def checkLocusConfig (n nUnlinked : Int) (rec : Rat) : Res :=
  check (n < 1) .valueError ;;
  check (n > 2) .notImplemented ;;
  check (nUnlinked < 0) .valueError ;;
  check (rec < 0) .valueError

/-- The locus configuration as the user / `AbstractCoalescent.__init__` builds it.
`repaired = false` is the pinned tree, where a `recombination_rate` passed next to a `LocusConfig`
overwrote the configured rate unchecked. -/
def checkLoci (repaired : Bool) (r : Request) : Res :=
  if r.viaConfig then
    checkLocusConfig r.loci r.nUnlinked r.recLocus ;;
    (if repaired then check (optLt r.recArg 0) .valueError else .ok ())
  else
    checkLocusConfig r.loci 0 (r.recArg.getD 0)

/-! ### first statistic access -/

/-- whether the statistic lives on the block-counting state space -/
def usesSFS (r : Request) : Bool :=
  match r.query with
  | .mutationConfig _ _ _ => true
  | .cdf _ => false
  | .quantile _ => false
  | _ => r.sfs

/-- number of frequency bins: `n - 1` unfolded, `n // 2` folded -/
def bins (r : Request) : Nat := if r.folded then r.n / 2 else r.n - 1

/-- `TreeHeightDistribution.__init__` -/
def checkTreeHeight (r : Request) : Res :=
  check (r.startTime < 0) .valueError ;;
  check (optLt r.endTime 0) .valueError ;;
  check (optLt r.endTime r.startTime) .valueError

/-- Building the state space (`states` / `S` / `k`): `Transition.coalesce` refuses two loci with a
model other than the standard coalescent. -/
def buildSpace (r : Request) : Res :=
  check (r.loci = 2 ∧ r.model ≠ .kingman) .notImplemented

/-- `PhaseTypeDistribution.accumulate` followed by `_accumulate`; `neg`: some time is negative. -/
def accumulateCheck (r : Request) (k rewardsLen : Nat) (neg : Prop) [Decidable neg] : Res :=
  check (k ≠ rewardsLen) .valueError ;;
  (if k = 0 then .ok () else check neg .valueError ;; buildSpace r)

/-- `tree_height.t_max` -/
def tMax (r : Request) : Res :=
  match r.endTime with
  | some _ => .ok ()
  | none => buildSpace r

/-- `PhaseTypeDistribution.moment(k, rewards, end_time=endT)` -/
def momentCheck (r : Request) (k rewardsLen : Nat) (endT : Option Rat) : Res :=
  (match endT with
   | some _ => .ok ()
   | none => tMax r) ;;
  accumulateCheck r k rewardsLen (optLt endT 0)

/-- the statistic itself -/
def queryCheck (r : Request) : Query → Res
  | .mean => momentCheck r 1 1 none
  | .cdf ts => check (∃ t ∈ ts, t < 0) .valueError ;; buildSpace r
  | .accumulate k rl ts => accumulateCheck r k rl (∃ t ∈ ts, t < 0)
  | .moment k rl e => momentCheck r k rl e
  | .quantile q => check (q < 0 ∨ q > 1) .valueError ;; buildSpace r
  | .mutationConfig len theta nEpochs =>
    check (nEpochs ≥ 2) .notImplemented ;;
    check (theta < 0) .valueError ;;
    check (len ≠ bins r) .valueError

def checkQuery (r : Request) : Res :=
  check (usesSFS r = true ∧ r.loci > 1) .notImplemented ;;
  checkTreeHeight r ;;
  queryCheck r r.query

/-- All checks in the order the real code performs them. -/
def validateWith (repaired : Bool) (r : Request) : Res :=
  checkModel r ;; checkDemography r ;; checkLoci repaired r ;; checkQuery r

/-- The repaired tree. -/
def validate (r : Request) : Res := validateWith true r

/-- The pinned tree (no check of the separate recombination-rate argument next to a LocusConfig). -/
def validatePinned (r : Request) : Res := validateWith false r

/-! ### the invalid classes of the property statement -/

/-- alpha outside `[1, 2]`, psi outside `(0, 1)` -/
abbrev badModelParam (r : Request) : Prop :=
  (r.model = .beta ∧ (r.alpha < 1 ∨ r.alpha > 2)) ∨ (r.model = .dirac ∧ ¬ (0 < r.psi ∧ r.psi < 1))

/-- non-positive population size, negative migration rate, negative change time -/
abbrev badDemography (r : Request) : Prop :=
  (∃ p ∈ r.sizes, p.2 ≤ 0) ∨ (∃ p ∈ r.rates, p.2 < 0) ∨ (∃ p ∈ r.sizes ++ r.rates, p.1 < 0)

/-- fewer than one or more than two loci -/
abbrev badLociNumber (r : Request) : Prop := r.loci < 1 ∨ r.loci > 2

abbrev negUnlinked (r : Request) : Prop := r.viaConfig = true ∧ r.nUnlinked < 0

/-- negative recombination rate by either route -/
abbrev negRecombination (r : Request) : Prop :=
  (r.viaConfig = true ∧ r.recLocus < 0) ∨ optLt r.recArg 0

/-- SFS statistics with two loci -/
abbrev twoLociSFS (r : Request) : Prop := r.loci = 2 ∧ usesSFS r = true

/-- whether answering the query needs the lineage-counting state space at all: everything except
order-0 moments whose end time is known without `t_max`, and mutation configurations (they live on
the block-counting space, where two loci are already excluded by `twoLociSFS`) -/
def reachesSpaceQ (r : Request) : Query → Prop
  | .accumulate k _ _ => k ≠ 0
  | .moment k _ e => k ≠ 0 ∨ (e = none ∧ r.endTime = none)
  | .mutationConfig _ _ _ => False
  | _ => True

/-- multiple-merger model with two loci -/
abbrev twoLociMMC (r : Request) : Prop :=
  r.loci = 2 ∧ r.model ≠ .kingman ∧ reachesSpaceQ r r.query

/-- negative start/end time at construction, end before start (equality is accepted) -/
abbrev badConstructionTimes (r : Request) : Prop :=
  r.startTime < 0 ∨ optLt r.endTime 0 ∨ optLt r.endTime r.startTime

/-- invalid arguments of the statistic -/
def badQueryQ (r : Request) : Query → Prop
  | .mean => False
  | .cdf ts => ∃ t ∈ ts, t < 0
  | .accumulate k rl ts => k ≠ rl ∨ (k ≠ 0 ∧ ∃ t ∈ ts, t < 0)
  | .moment k rl e => k ≠ rl ∨ (k ≠ 0 ∧ optLt e 0)
  | .quantile q => q < 0 ∨ q > 1
  | .mutationConfig len theta nEpochs => nEpochs ≥ 2 ∨ theta < 0 ∨ len ≠ bins r

abbrev badQuery (r : Request) : Prop := badQueryQ r r.query

/-- The request belongs to one of the invalid classes of property C20. -/
def invalid (r : Request) : Prop :=
  badModelParam r ∨ badDemography r ∨ badLociNumber r ∨ negUnlinked r ∨ negRecombination r ∨
  twoLociSFS r ∨ twoLociMMC r ∨ badConstructionTimes r ∨ badQuery r

instance (r : Request) (q : Query) : Decidable (reachesSpaceQ r q) :=
  match q with
  | .accumulate k _ _ => inferInstanceAs (Decidable (k ≠ 0))
  | .moment k _ e => inferInstanceAs (Decidable (k ≠ 0 ∨ (e = none ∧ r.endTime = none)))
  | .mean => inferInstanceAs (Decidable True)
  | .cdf _ => inferInstanceAs (Decidable True)
  | .quantile _ => inferInstanceAs (Decidable True)
  | .mutationConfig _ _ _ => inferInstanceAs (Decidable False)

instance (r : Request) (q : Query) : Decidable (badQueryQ r q) :=
  match q with
  | .mean => inferInstanceAs (Decidable False)
  | .cdf ts => inferInstanceAs (Decidable (∃ t ∈ ts, t < 0))
  | .accumulate k rl ts => inferInstanceAs (Decidable (k ≠ rl ∨ (k ≠ 0 ∧ ∃ t ∈ ts, t < 0)))
  | .moment k rl e => inferInstanceAs (Decidable (k ≠ rl ∨ (k ≠ 0 ∧ optLt e 0)))
  | .quantile q => inferInstanceAs (Decidable (q < 0 ∨ q > 1))
  | .mutationConfig len theta nEpochs =>
    inferInstanceAs (Decidable (nEpochs ≥ 2 ∨ theta < 0 ∨ len ≠ bins r))

instance (r : Request) : Decidable (invalid r) :=
  inferInstanceAs (Decidable (
    badModelParam r ∨ badDemography r ∨ badLociNumber r ∨ negUnlinked r ∨ negRecombination r ∨
    twoLociSFS r ∨ twoLociMMC r ∨ badConstructionTimes r ∨ badQuery r))

/-- what the driver prints -/
def showRes : Res → String
  | .ok _ => "ok"
  | .error .valueError => "ValueError"
  | .error .notImplemented => "NotImplementedError"

end PG.Validate
