/-
PGModel.Serialize — bookkeeping model of `Serializable.to_json / from_json` for `Coalescent`
(`__getstate__`: deep copy of `__dict__`, state-space caches dropped) with the codec (jsonpickle / dill)
as a parameter obeying `decode (encode x) = some x`.

An object is its configuration, the rate-matrix caches of its state spaces and the results already
stored in `__dict__` by `cached_property` (statistic ↦ value).
-/
import PGModel.Basic

namespace PG.Serialize

structure Obj (Cfg Q R : Type) where
  config : Cfg
  /-- number of cached rate matrices (dropped by `to_json`) -/
  cacheSize : Nat
  /-- results already computed and stored on the object -/
  stored : Dict Q R
  deriving Repr

/-- what is handed to the codec: a deep copy with the state-space caches dropped -/
def prepare {Cfg Q R} (o : Obj Cfg Q R) : Obj Cfg Q R := { o with cacheSize := 0 }

/-- `to_json`: returns the encoded copy and the (unchanged) original -/
def toJson {Cfg Q R J} (encode : Obj Cfg Q R → J) (o : Obj Cfg Q R) : J × Obj Cfg Q R :=
  (encode (prepare o), o)

def fromJson {Cfg Q R J} (decode : J → Option (Obj Cfg Q R)) (j : J) : Option (Obj Cfg Q R) := decode j

/-- asking a statistic: the stored value if there is one, otherwise it is computed from the configuration -/
def ask {Cfg Q R} [BEq Q] (f : Cfg → Q → R) (o : Obj Cfg Q R) (q : Q) : R :=
  match o.stored.lookup q with
  | some v => v
  | none => f o.config q

/-- computing a statistic stores it (cached_property) -/
def compute {Cfg Q R} [BEq Q] (f : Cfg → Q → R) (o : Obj Cfg Q R) (q : Q) : Obj Cfg Q R :=
  match o.stored.lookup q with
  | some _ => o
  | none => { o with stored := o.stored ++ [(q, f o.config q)], cacheSize := o.cacheSize + 1 }

end PG.Serialize
