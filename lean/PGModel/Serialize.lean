/-
PGModel.Serialize — bookkeeping model of `Serializable.to_json / from_json` for `Coalescent`
(`__getstate__`: deep copy of `__dict__`, state-space caches dropped) with the codec (jsonpickle / dill)
as a parameter obeying `decode (encode x) = some x`.

An object is its configuration, the rate-matrix caches of its state spaces and the results already
stored in `__dict__` by `cached_property` (statistic ↦ value).
-/
import PGModel.Basic

namespace PG.Serialize

structure Obj (Cfg Q R : Type) where
  config : Cfg
  /-- number of cached rate matrices (dropped by `to_json`) -/
  cacheSize : Nat
  /-- results already computed and stored on the object -/
  stored : Dict Q R
  deriving Repr

/-- what is handed to the codec: a deep copy with the state-space caches dropped -/
def prepare {Cfg Q R} (o : Obj Cfg Q R) : Obj Cfg Q R := { o with cacheSize := 0 }

/-- `to_json`: returns the encoded copy and the (unchanged) original -/
def toJson {Cfg Q R J} (encode : Obj Cfg Q R → J) (o : Obj Cfg Q R) : J × Obj Cfg Q R :=
  (encode (prepare o), o)

def fromJson {Cfg Q R J} (decode : J → Option (Obj Cfg Q R)) (j : J) : Option (Obj Cfg Q R) := decode j

/-- asking a statistic: the stored value if there is one, otherwise it is computed from the configuration -/
def ask {Cfg Q R} [BEq Q] (f : Cfg → Q → R) (o : Obj Cfg Q R) (q : Q) : R :=
  match o.stored.lookup q with
  | some v => v
  | none => f o.config q

/-- computing a statistic stores it (cached_property) -/
def compute {Cfg Q R} [BEq Q] (f : Cfg → Q → R) (o : Obj Cfg Q R) (q : Q) : Obj Cfg Q R :=
  match o.stored.lookup q with
  | some _ => o
  | none => { o with stored := o.stored ++ [(q, f o.config q)], cacheSize := o.cacheSize + 1 }


/-! ## Field level: the object as its `__dict__`

Mirror of /repo/phasegen/distributions.py `Coalescent.__setstate__` / `__getstate__` / `to_json` / `drop_cache`
(l.2770-2819), /repo/phasegen/serialization.py and /repo/phasegen/inference.py `__getstate__` / `__setstate__`
(l.177-201) and the `cached_property` `x0` (l.170-175).

An object is its insertion-ordered `__dict__`.  `cached_property` values live in `__dict__` (e.g. `x0`, the state
spaces, the result distributions), so they are saved with everything else.

Abstractions
* values are immutable (`copy.deepcopy` is the identity on them; aliasing between values is not modelled);
* the JSON codec (jsonpickle) is a parameter with `decode (encode d) = some d`; dill is `Val.pickled`:
  `dill.loads(dill.dumps(v)) = v`;
* a state space is its identity and the size of its rate-matrix caches (`S` and `_cache`): `drop_cache` empties them;
* `copy.deepcopy(obj)` of an object with `__getstate__` / `__setstate__` is `__setstate__(__getstate__())` on an
  instance made by `__new__` (empty `__dict__`), which is how `copy` and jsonpickle restore objects.
-/

/-- the values stored in a `__dict__` -/
inductive Val where
  /-- a number -/
  | rat (q : Rat)
  | bool (b : Bool)
  | str (s : String)
  | none
  /-- a callable (by name) -/
  | fn (name : String)
  /-- `dill.dumps(v)` -/
  | pickled (v : Val)
  /-- an opaque sub-object (demography, model, a result distribution, the rng with its state, …) by content -/
  | obj (id : String)
  /-- a state space with `cached` cached rate matrices -/
  | space (id : String) (cached : Nat)
  /-- a parameter dict `name ↦ value` (`x0`, `params_inferred`) -/
  | point (p : List (String × Rat))
  /-- an array of numbers -/
  | rats (l : List Rat)
  deriving DecidableEq, Repr

/-- `__dict__` -/
abbrev PyDict := Dict String Val

/-- `d.pop(k, None)` -/
def pop (d : PyDict) (k : String) : PyDict := d.filter fun p => !(p.1 == k)

/-- `StateSpace.drop_cache()` (other values have no caches) -/
def Val.dropCache : Val → Val
  | .space id _ => .space id 0
  | v => v

/-- the two attributes `Coalescent.drop_cache` and `Coalescent.__getstate__` look at -/
def spaceKeys : List String := ["lineage_counting_state_space", "block_counting_state_space"]

/-- `for name in […]: if name in d: d[name].drop_cache()` -/
def dropCaches (d : PyDict) : PyDict := d.map fun p => if spaceKeys.contains p.1 then (p.1, p.2.dropCache) else p

/-- `Coalescent.__getstate__`: a deep copy of `__dict__` whose state spaces have their caches dropped -/
def getstateCoalescent (d : PyDict) : PyDict := dropCaches d

inductive SetVariant where
  /-- `self.__dict__.update(state)` -/
  | current
  /-- seeded defect: `self.__dict__.update(state | defaults)` with `defaults = dict(start_time=0, regularize=True)` -/
  | defaultsOverride
  deriving DecidableEq, Repr

def coalescentDefaults : PyDict := [("start_time", .rat 0), ("regularize", .bool true)]

/-- `Coalescent.__setstate__(state)` on an object whose `__dict__` is `self` -/
def setstateCoalescent (v : SetVariant) (self state : PyDict) : PyDict :=
  match v with
  | .current => Dict.union self state
  | .defaultsOverride => Dict.union self (Dict.union state coalescentDefaults)

/-- `copy.deepcopy(coalescent)` -/
def deepcopyCoalescent (v : SetVariant) (d : PyDict) : PyDict := setstateCoalescent v [] (getstateCoalescent d)

/-- `Coalescent.to_json`: `other = copy.deepcopy(self); other.drop_cache(); jsonpickle.encode(other)` (which calls
`other.__getstate__()`); returns the JSON and the `__dict__` of `self` after the call -/
def toJsonCoalescent {J} (v : SetVariant) (encode : PyDict → J) (d : PyDict) : J × PyDict :=
  let other := dropCaches (deepcopyCoalescent v d)
  (encode (getstateCoalescent other), d)

/-- `Coalescent.from_json` -/
def fromJsonCoalescent {J} (v : SetVariant) (decode : J → Option PyDict) (j : J) : Option PyDict :=
  (decode j).map (setstateCoalescent v [])

inductive GetVariant where
  | current
  /-- seeded defect: `state.pop('x0', None)` ("derived, re-evaluated on demand") -/
  | dropsCachedX0
  deriving DecidableEq, Repr

/-- the callables that are replaced by dill pickles -/
def callableKeys : List String := ["coal", "loss", "resample"]

/-- `state[f'{key}_pickled'] = dill.dumps(state[key]); state.pop(key)` (`KeyError` = `none`) -/
def pickleKey (state : PyDict) (key : String) : Option PyDict :=
  match Dict.get? state key with
  | some v => some (pop (Dict.insert state (key ++ "_pickled") (.pickled v)) key)
  | Option.none => Option.none

/-- `Inference.__getstate__` -/
def getstateInference (v : GetVariant) (d : PyDict) : Option PyDict :=
  let state := match v with
    | .current => d
    | .dropsCachedX0 => pop d "x0"
  callableKeys.foldlM pickleKey state

/-- `setattr(self, key, dill.loads(state[f'{key}_pickled'])); self.__dict__.pop(f'{key}_pickled')` -/
def unpickleKey (state self : PyDict) (key : String) : Option PyDict :=
  match Dict.get? state (key ++ "_pickled") with
  | some (.pickled v) => some (pop (Dict.insert self key v) (key ++ "_pickled"))
  | _ => Option.none

/-- `Inference.__setstate__(state)` on an object whose `__dict__` is `self` -/
def setstateInference (self state : PyDict) : Option PyDict :=
  callableKeys.foldlM (unpickleKey state) (Dict.union self state)

/-- `Inference.to_json` (`Serializable.to_json`: jsonpickle calls `__getstate__`); the JSON and the `__dict__` of
`self` after the call -/
def toJsonInference {J} (v : GetVariant) (encode : PyDict → J) (d : PyDict) : Option J × PyDict :=
  ((getstateInference v d).map encode, d)

/-- `Inference.from_json` -/
def fromJsonInference {J} (decode : J → Option PyDict) (j : J) : Option PyDict :=
  (decode j).bind (setstateInference [])

/-- Reading the `cached_property` `x0`: the value stored in `__dict__` if there is one, else `self._x0` if it is not
`None`, else `self._sample()`, which draws from `self._rng`.  `draw rng = (point drawn, rng afterwards)`.
Returns the value and the `__dict__` afterwards (value stored, generator advanced). -/
def accessX0 (draw : Val → Val × Val) (d : PyDict) : Val × PyDict :=
  match Dict.get? d "x0" with
  | some v => (v, d)
  | Option.none =>
    match Dict.get? d "_x0" with
    | some Val.none | Option.none =>
      let (p, rng') := draw ((Dict.get? d "_rng").getD Val.none)
      (p, Dict.insert (Dict.insert d "_rng" rng') "x0" p)
    | some v => (v, Dict.insert d "x0" v)

/-- the start point of an inference object -/
def x0Of (d : PyDict) (draw : Val → Val × Val) : Val := (accessX0 draw d).1

end PG.Serialize
