/-
PGModel.Accumulate — the control structure of `PhaseTypeDistribution._accumulate`,
`TreeHeightDistribution.cdf`, `_update`, `quantile`, `_get_absorption_time`:
sorted evaluation with a running product, an epoch cursor, and the scatter back to input order.

The matrix product itself is symbolic here: a *factor* `(e, τ)` stands for `exp(τ · V_e)`, and a list
of factors for their ordered product.  `PGModel.Eval` evaluates factor lists with `fixExp`;
`PGProofs.Accum` evaluates them with an abstract exponential satisfying `ExpLaw`.
-/
import PGModel.Basic

namespace PG

/-- start and end time of an epoch; `stop = none` means `∞`. -/
structure EpochT where
  start : Rat
  stop : Option Rat
  deriving Repr, BEq, Inhabited

abbrev Factor := Nat × Rat

/-- the `while u > epoch.end_time` loop shared by `_accumulate`, `cdf` and `_update`:
starting in epoch number `idx` (head of `eps`) at time `uPrev`, move to time `u`.
Returns the remaining epochs (head = current), the new epoch index and the factors appended. -/
def advance : List EpochT → Nat → Rat → Rat → List EpochT × Nat × List Factor
  | [], idx, _, _ => ([], idx, [])
  | e :: rest, idx, uPrev, u =>
    match e.stop with
    | some en =>
      if u > en then
        let (eps', idx', fs) := advance rest (idx + 1) en u
        (eps', idx', (idx, en - uPrev) :: fs)
      else (e :: rest, idx, [(idx, u - uPrev)])
    | none => (e :: rest, idx, [(idx, u - uPrev)])

/-- factors newly multiplied onto the running product for each of the (sorted) times. -/
def newFactors : List EpochT → Nat → Rat → List Rat → List (List Factor)
  | _, _, _, [] => []
  | eps, idx, uPrev, u :: us =>
    let (eps', idx', fs) := advance eps idx uPrev u
    fs :: newFactors eps' idx' u us

/-- the complete factor list in force when the `i`-th sorted time is recorded. -/
def cumFactors (news : List (List Factor)) : List (List Factor) :=
  (news.foldl (fun (acc : List Factor × List (List Factor)) fs =>
    (acc.1 ++ fs, acc.2 ++ [acc.1 ++ fs])) ([], [])).2

def codeFactors (eps : List EpochT) (sorted : List Rat) : List (List Factor) :=
  cumFactors (newFactors eps 0 0 sorted)

/-- direct evaluation: the factors for a single time `t` from time 0. -/
def specFactors (eps : List EpochT) (t : Rat) : List Factor := (advance eps 0 0 t).2.2

/-- insertion into a sorted list of (value, original index), ordered by value then index -/
def insertSorted (x : Rat × Nat) : List (Rat × Nat) → List (Rat × Nat)
  | [] => [x]
  | y :: ys => if x.1 < y.1 ∨ (x.1 = y.1 ∧ x.2 ≤ y.2) then x :: y :: ys else y :: insertSorted x ys

/-- `np.argsort(ts)` (a sorting permutation; the stable one) together with the sorted values. -/
def sortWithIdx (ts : List Rat) : List (Rat × Nat) :=
  (ts.zipIdx).foldr insertSorted []

def argsort (ts : List Rat) : List Nat := (sortWithIdx ts).map (·.2)
def sortRat (ts : List Rat) : List Rat := (sortWithIdx ts).map (·.1)

def argsortNat (xs : List Nat) : List Nat := argsort (xs.map fun (x : Nat) => (x : Rat))

/-- `vals[np.argsort(np.argsort(ts))]`: the repaired scatter. -/
def scatterBack {α} [Inhabited α] (ts : List Rat) (vals : List α) : List α :=
  (argsortNat (argsort ts)).map fun i => vals.getD i default

/-- `vals[np.argsort(ts)]`: what the pinned code did. -/
def gatherPinned {α} [Inhabited α] (ts : List Rat) (vals : List α) : List α :=
  (argsort ts).map fun i => vals.getD i default

/-- `_accumulate` / `cdf` as a function of the evaluator of factor lists. -/
def codeVectorised {α} [Inhabited α] (ev : List Factor → α) (eps : List EpochT) (ts : List Rat) : List α :=
  scatterBack ts ((codeFactors eps (sortRat ts)).map ev)

/-- first loop of `quantile`: multiply `b` by the expansion factor while `F b < q`;
`fuel` is the number of iterations left (`max_iter - i`). Returns `b` and the iterations used. -/
def expandLoop (F : Rat → Rat) (q expansion : Rat) : Nat → Rat → Rat × Nat
  | 0, b => (b, 0)
  | fuel + 1, b =>
    if F b < q then
      let (b', used) := expandLoop F q expansion fuel (b * expansion)
      (b', used + 1)
    else (b, 0)

/-- second loop of `quantile`: bisect while `F b - F a > precision`. -/
def bisectLoop (F : Rat → Rat) (q precision : Rat) : Nat → Rat → Rat → Rat × Rat
  | 0, a, b => (a, b)
  | fuel + 1, a, b =>
    if F b - F a > precision then
      let m := (a + b) / 2
      if F m < q then bisectLoop F q precision fuel m b else bisectLoop F q precision fuel a m
    else (a, b)

/-- `TreeHeightDistribution.quantile` over an abstract CDF `F` (time ↦ probability). -/
def quantileLoop (F : Rat → Rat) (q expansion precision : Rat) (maxIter : Nat) : Rat :=
  let (b, used) := expandLoop F q expansion maxIter 1
  let (a', b') := bisectLoop F q precision (maxIter - used) 0 b
  (a' + b') / 2

/-- doubling loop of `_get_absorption_time`. -/
def doubleLoop (F : Rat → Rat) (pAbs : Rat) : Nat → Rat → Rat
  | 0, t => t
  | fuel + 1, t => if F t < pAbs then doubleLoop F pAbs fuel (t * 2) else t

/-- `_get_absorption_time` over an abstract CDF: returns the horizon and whether the
"could not reliably find" warning is due (`p < p_absorption` after the loop). -/
def absorptionLoop (F : Rat → Rat) (t0 pAbs : Rat) (maxIter : Nat) : Rat × Bool :=
  let t := doubleLoop F pAbs maxIter t0
  (t, F t < pAbs)

end PG
