/-
PGModel.Cache — the rate-matrix cache of `StateSpace` (property C17).

Mirror of the bookkeeping in /repo/phasegen/state_space.py:
`StateSpace.__init__` (l.29-79), `states` (l.81-96), `S` (l.117-122), `update_epoch` (l.268-279),
`drop_S` (l.296-304), `drop_cache` (l.306-312), `_get_rate_matrix` (l.321-340) and
`_graph_to_matrix` (l.342-364).

Abstractions
* epochs are abstract keys `E`: `Epoch.__eq__/__hash__` (demography.py l.505-524) compare the
  population sizes and migration rates only, so a key stands for that content;
* `compute : E → M` stands for `get_transitions()` run while `self.epoch = e` (followed by
  `_graph_to_matrix`): a pure function of the epoch content, the state space being fixed;
* `computations` counts the calls of `get_transitions()` (observable by monkeypatching).

Two details of the real code that the model keeps:
* `states` is a `cached_property` that is never dropped: its first access runs `get_transitions()`
  for the epoch current at that moment and, if caching is on, stores the result under that epoch;
* `_get_rate_matrix` ends in `_graph_to_matrix`, which reads `self.k` / `self.states`; hence the first
  computation of `S` on a fresh object runs `get_transitions()` twice (the `TODO` in the source).
  This is the `+ 1` in the bound on `computations`.
No imports: this file is linked into the `pgdriver` executable.
-/
import PGModel.Basic

namespace PG.Cache

/-- The mutable attributes of a `StateSpace` that take part in the caching. -/
structure State (E M : Type) where
  /-- `self.epoch` -/
  epoch : E
  /-- the `cached_property` `S` (`none` = not in `__dict__`) -/
  S : Option M
  /-- `self._cache` (insertion ordered, Python dict semantics) -/
  cache : Dict E M
  /-- `self.cache` -/
  useCache : Bool
  /-- number of `get_transitions()` calls so far -/
  computations : Nat
  /-- whether the `cached_property` `states` has been computed -/
  touched : Bool

/-- `StateSpace(…, epoch=e, cache=useCache)` right after construction. -/
def State.init {E M : Type} (e : E) (useCache : Bool) : State E M :=
  { epoch := e, S := none, cache := [], useCache := useCache, computations := 0, touched := false }

inductive Op (E : Type) where
  /-- `update_epoch(e)` -/
  | updateEpoch (e : E)
  /-- read the property `S` -/
  | getS
  /-- `drop_S()` -/
  | dropS
  /-- `drop_cache()` -/
  | dropCache
  /-- read the property `states` (or `k`, `lineages`, … which read it) -/
  | touchStates
  deriving DecidableEq, Repr

variable {E M : Type} [BEq E]

/-- `self._cache[self.epoch] = (transitions, states)` guarded by `if self.cache`. -/
def store (compute : E → M) (s : State E M) : Dict E M :=
  if s.useCache then Dict.insert s.cache s.epoch (compute s.epoch) else s.cache

/-- First access of `states` (l.81-96); later accesses are no-ops. -/
def touch (compute : E → M) (s : State E M) : State E M :=
  if s.touched then s
  else { s with touched := true, computations := s.computations + 1, cache := store compute s }

/-- `drop_S` -/
def dropS (s : State E M) : State E M := { s with S := none }

/-- `drop_cache` -/
def dropCache (s : State E M) : State E M := { s with S := none, cache := [] }

/-- `update_epoch`: `S` is dropped only if the epoch (content) changes. -/
def updateEpoch (s : State E M) (e : E) : State E M :=
  if s.epoch != e then { s with S := none, epoch := e } else { s with epoch := e }

/-- `if self.cache and self.epoch in self._cache: … = self._cache[self.epoch]` -/
def hit (s : State E M) : Option M :=
  if s.useCache then Dict.get? s.cache s.epoch else none

/-- `_get_rate_matrix` (l.321-340) including the access of `self.states` by `_graph_to_matrix`;
returns the new state (without `S` set) and the matrix. -/
def getRateMatrix (compute : E → M) (s : State E M) : State E M × M :=
  match hit s with
  | some m => (touch compute s, m)
  | none =>
    let s1 : State E M := { s with computations := s.computations + 1, cache := store compute s }
    (touch compute s1, compute s.epoch)

/-- Reading the `cached_property` `S`. -/
def getS (compute : E → M) (s : State E M) : State E M × M :=
  match s.S with
  | some m => (s, m)
  | none =>
    let (s1, m) := getRateMatrix compute s
    ({ s1 with S := some m }, m)

/-- One operation; the answer is `some m` for `getS` and `none` for the others. -/
def step (compute : E → M) (s : State E M) : Op E → State E M × Option M
  | .updateEpoch e => (updateEpoch s e, none)
  | .getS => let (s', m) := getS compute s; (s', some m)
  | .dropS => (dropS s, none)
  | .dropCache => (dropCache s, none)
  | .touchStates => (touch compute s, none)

/-- Replay a history; one answer slot per operation (`none` for operations without an answer). -/
def run (compute : E → M) (s : State E M) : List (Op E) → State E M × List (Option M)
  | [] => (s, [])
  | op :: ops =>
    let (s1, a) := step compute s op
    let (s2, as) := run compute s1 ops
    (s2, a :: as)

/-- The epoch in force after a history: the argument of the last `updateEpoch`, else the initial one. -/
def epochAfter (e0 : E) : List (Op E) → E
  | [] => e0
  | .updateEpoch e :: ops => epochAfter e ops
  | _ :: ops => epochAfter e0 ops

/-- Specification: the answers a cache-free implementation would give. -/
def specRun (compute : E → M) (e0 : E) : List (Op E) → List (Option M)
  | [] => []
  | .updateEpoch e :: ops => none :: specRun compute e ops
  | .getS :: ops => some (compute e0) :: specRun compute e0 ops
  | _ :: ops => none :: specRun compute e0 ops

/-- All epochs a history asks for (initial one first). -/
def requested (e0 : E) : List (Op E) → List E
  | [] => [e0]
  | .updateEpoch e :: ops => e0 :: requested e ops
  | _ :: ops => requested e0 ops

/-- Number of `drop_cache()` calls in a history. -/
def drops : List (Op E) → Nat
  | [] => 0
  | .dropCache :: ops => drops ops + 1
  | _ :: ops => drops ops

/-! ### The repaired defect: a consumer reading `S` of a shared state space

`SFSDistribution.get_mutation_config` (distributions.py l.1696-1711) used to read
`self.state_space.S` without `self.state_space.update_epoch(own epoch)`.  Through
`Inference.get_coal` the same state-space object is shared between distributions built from
different parameter sets, so the matrix of the previous user was returned. -/

/-- What a consumer whose own demography has first epoch `own` does to the shared state space. -/
def consumerRead (repaired : Bool) (own : E) : List (Op E) :=
  if repaired then [.updateEpoch own, .getS] else [.getS]

/-- The matrix a consumer obtains (`getS_stale` is `consumerGet false`). -/
def consumerGet (repaired : Bool) (compute : E → M) (s : State E M) (own : E) : State E M × Option M :=
  let (s', as) := run compute s (consumerRead repaired own)
  (s', as.getLast?.join)

/-- The pinned (defective) consumer. -/
def getS_stale (compute : E → M) (s : State E M) (own : E) : State E M × Option M :=
  consumerGet false compute s own

end PG.Cache
