/-
PGModel.Moments — the moment algebra of `PhaseTypeDistribution.accumulate` (centring by
inclusion–exclusion over reward subsets, averaging over reward permutations), `moment` (start time
as a difference of two accumulations), `SFSDistribution.moment` (padding) and `SFSDistribution.cov`.

Everything is parametrised by `raw : List ρ → V`, the uncentred, order-conditioned `_accumulate`
for a tuple of rewards, with values in any type carrying pointwise `+`, `*` and rational scaling
(a number, or one number per query time).
-/
import PGModel.Basic

namespace PG

/-- what `accumulate` needs from its value type -/
class MomVal (V : Type) where
  zero : V
  one : V
  add : V → V → V
  mul : V → V → V
  smul : Rat → V → V

instance : MomVal Rat := ⟨0, 1, (· + ·), (· * ·), (· * ·)⟩

/-- one value per query time (indexed by position) -/
instance : MomVal (Nat → Rat) where
  zero := fun _ => 0
  one := fun _ => 1
  add a b := fun i => a i + b i
  mul a b := fun i => a i * b i
  smul c a := fun i => c * a i

/-- all sub-lists of positions `0..k-1` of size `i`, in `itertools.combinations` order -/
def combinations : List Nat → Nat → List (List Nat)
  | _, 0 => [[]]
  | [], _ + 1 => []
  | x :: xs, i + 1 => (combinations xs i).map (x :: ·) ++ combinations xs (i + 1)

/-- insert `x` at every position of `l` -/
def insertEverywhere {α} (x : α) : List α → List (List α)
  | [] => [[x]]
  | y :: ys => (x :: y :: ys) :: (insertEverywhere x ys).map (y :: ·)

/-- all `k!` orderings of a list by position (`itertools.permutations`, up to order) -/
def perms {α} : List α → List (List α)
  | [] => [[]]
  | x :: xs => (perms xs).flatMap (insertEverywhere x)

def sumV {V} [MomVal V] (l : List V) : V := l.foldl MomVal.add MomVal.zero
def prodV {V} [MomVal V] (l : List V) : V := l.foldl MomVal.mul MomVal.one

/-- the `permute` branch: average of `_accumulate` over all orderings of the rewards -/
def permuted {ρ V} [MomVal V] (raw : List ρ → V) (rs : List ρ) : V :=
  MomVal.smul (1 / (factorial rs.length : Rat)) (sumV ((perms rs).map raw))

/-- `accumulate(k, rewards, center=False, permute)` -/
def uncentred {ρ V} [MomVal V] (raw : List ρ → V) (permute : Bool) (rs : List ρ) : V :=
  if rs.isEmpty then MomVal.one else if permute then permuted raw rs else raw rs

/-- `accumulate(k, rewards, center, permute)`. -/
def accumulateModel {ρ V} [MomVal V] [Inhabited ρ] (raw : List ρ → V) (center permute : Bool) (rs : List ρ) : V :=
  let k := rs.length
  if center ∧ k > 1 then
    let means := rs.map fun r => uncentred raw true [r]
    sumV ((List.range (k + 1)).flatMap fun i =>
      (combinations (List.range k) i).map fun idx =>
        let muI := uncentred raw permute (idx.map fun j => rs.getD j default)
        let mu1 := prodV (((List.range k).filter fun j => !idx.contains j).map fun j => means.getD j MomVal.one)
        MomVal.smul ((-1 : Rat) ^ (k - i)) (MomVal.mul muI mu1))
  else uncentred raw permute rs

/-- `SFSDistribution.moment`: `[0] + moments + [0] * (n - len(moments))` -/
def padSFS (n : Nat) (moments : List Rat) : List Rat :=
  [0] ++ moments ++ List.replicate (n - moments.length) 0

/-- `SFSDistribution.cov`: `(X + Xᵀ)/2 - μ μᵀ` on the `(n+1) × (n+1)` grid, where `X[i][j]` is the
ordered uncentred second cross moment for `i, j` in `indices` and 0 elsewhere. -/
def covSFS (n : Nat) (indices : List Nat) (x : Nat → Nat → Rat) (mean : List Rat) : List (List Rat) :=
  let X := fun i j => if indices.contains i ∧ indices.contains j then x i j else 0
  (List.range (n + 1)).map fun i => (List.range (n + 1)).map fun j =>
    (X i j + X j i) / 2 - getR mean i * getR mean j

end PG
