/-
PGModel.Rewards — mirror of `phasegen/rewards.py`: the reward vector of every public reward class,
composite rewards and the `CombinedReward` substitution.
-/
import PGModel.Space

namespace PG

inductive Reward where
  | treeHeight
  | totalTreeHeight
  | totalBranchLength
  | unfoldedSFS (i : Nat)
  | foldedSFS (i : Nat)
  | lineage (n : Nat)
  /-- `DemeReward(pop)`; `idx` is the position of `pop` on the deme axis of the states. -/
  | deme (idx : Nat)
  | locus (l : Nat)
  | unit
  | tblLocus (l : Nat)
  | prod (rs : List Reward)
  | sum (rs : List Reward)
  deriving Repr, Inhabited, BEq

def State.total (s : State) : Nat := sumNat ((List.range s.nLoci).map s.locusTotal)

/-- lineages in deme `d` summed over loci and blocks. -/
def State.demeTotal (s : State) (d : Nat) : Nat :=
  sumNat ((List.range s.nLoci).map fun l => sumNat ((s.lin.getD l []).getD d []))

/-- blocks of size `i+1` summed over loci and demes. -/
def State.blockTotal (s : State) (i : Nat) : Nat :=
  sumNat ((List.range s.nLoci).map fun l => sumNat ((s.lin.getD l []).map fun d => getN d i))

/-- `FoldedSFSReward._get_indices`. -/
def foldedIndices (n i : Nat) : List Nat :=
  if i = n - i then [i - 1] else [i - 1, n - i - 1]

mutual
/-- `Reward._get` evaluated on one state; `n` is `lineage_config.n`. -/
def Reward.eval (n : Nat) (s : State) : Reward → Rat
  | .treeHeight => if (List.range s.nLoci).any fun l => s.locusTotal l > 1 then 1 else 0
  | .totalTreeHeight =>
      sumRat ((List.range s.nLoci).map fun l => if s.locusTotal l > 1 then 1 else 0)
  | .totalBranchLength =>
      sumRat ((List.range s.nLoci).map fun l =>
        if s.locusTotal l > 1 then (s.locusTotal l : Rat) else 0)
  | .unfoldedSFS i => (s.blockTotal (i - 1) : Rat)
  | .foldedSFS i => sumRat ((foldedIndices n i).map fun b => (s.blockTotal b : Rat))
  | .lineage k => if s.total = k then 1 else 0
  | .deme d => (s.demeTotal d : Rat) / (s.total : Rat)
  | .locus l => if s.locusTotal l > 1 then 1 else 0
  | .unit => 1
  | .tblLocus l => if s.locusTotal l < 2 then 0 else (s.locusTotal l : Rat)
  | .prod rs => Reward.evalProd n s rs
  | .sum rs => Reward.evalSum n s rs
def Reward.evalProd (n : Nat) (s : State) : List Reward → Rat
  | [] => 1
  | r :: rs => Reward.eval n s r * Reward.evalProd n s rs
def Reward.evalSum (n : Nat) (s : State) : List Reward → Rat
  | [] => 0
  | r :: rs => Reward.eval n s r + Reward.evalSum n s rs
end

def Reward.isTBL : Reward → Bool
  | .totalBranchLength => true
  | _ => false

def Reward.locusOf? : Reward → Option Nat
  | .locus l => some l
  | .tblLocus l => some l
  | _ => none

/-- remove the first element satisfying `p`. -/
def removeFirst (p : Reward → Bool) : List Reward → List Reward
  | [] => []
  | r :: rs => if p r then rs else r :: removeFirst p rs

/-- `CombinedReward.__init__`: while the list holds a `TotalBranchLengthReward` and a
`LocusReward` (or subclass), replace the first of each by `TotalBranchLengthLocusReward(locus)`. -/
def combineRewards : Nat → List Reward → List Reward
  | 0, rs => rs
  | fuel + 1, rs =>
    match rs.find? Reward.isTBL, rs.findSome? Reward.locusOf? with
    | some _, some l =>
        let rs := removeFirst Reward.isTBL rs
        let rs := removeFirst (fun r => r.locusOf?.isSome) rs
        combineRewards fuel (rs ++ [.tblLocus l])
    | _, _ => rs

/-- `CombinedReward(rs)` as a reward. -/
def Reward.combined (rs : List Reward) : Reward := .prod (combineRewards rs.length rs)

end PG
