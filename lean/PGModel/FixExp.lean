/-
PGModel.FixExp — the driver's matrix arithmetic: dense matrices of fixed-point integers
(scale `2^prec`) with a scaling-and-squaring Taylor exponential.

This is an *approximation* of the matrix exponential, used only to produce reference numbers for the
correspondence check.  The theorems speak about an exponential satisfying `ExpLaw`
(`PGProofs.ExpLaw`); `fixExp ≈ exp` is part of the trusted base and is self-tested on every run
(`selftest` request of the driver).
-/
import PGModel.Basic

namespace PG

/-- number of fractional bits -/
def prec : Nat := 160

abbrev FMat := Array (Array Int)

def FMat.dim (a : FMat) : Nat := a.size

def fixOne : Int := (1 : Int) <<< prec

def fixOfRat (q : Rat) : Int := (q.num <<< prec) / (q.den : Int)

def fixToRat (x : Int) : Rat := mkRat x (2 ^ prec)

def FMat.zero (n : Nat) : FMat := Array.replicate n (Array.replicate n 0)

def FMat.id (n : Nat) : FMat :=
  (Array.range n).map fun i => (Array.range n).map fun j => if i = j then fixOne else 0

def FMat.ofFn (n : Nat) (f : Nat → Nat → Rat) : FMat :=
  (Array.range n).map fun i => (Array.range n).map fun j => fixOfRat (f i j)

def FMat.get (a : FMat) (i j : Nat) : Int := (a.getD i #[]).getD j 0

def FMat.add (a b : FMat) : FMat :=
  (Array.range a.size).map fun i => (Array.range a.size).map fun j => a.get i j + b.get i j

/-- matrix product; one rounding per entry -/
def FMat.mul (a b : FMat) : FMat := Id.run do
  let n := a.size
  -- transpose b for locality
  let bt : FMat := (Array.range n).map fun j => (Array.range n).map fun i => b.get i j
  let mut out : FMat := Array.mkEmpty n
  for i in [0:n] do
    let ai := a.getD i #[]
    let mut row : Array Int := Array.mkEmpty n
    for j in [0:n] do
      let bj := bt.getD j #[]
      let mut acc : Int := 0
      for k in [0:n] do
        let x := ai.getD k 0
        if x != 0 then
          acc := acc + x * bj.getD k 0
      row := row.push (acc >>> prec)
    out := out.push row
  return out

def FMat.shiftRight (a : FMat) (s : Nat) : FMat := a.map fun (r : Array Int) => r.map fun (x : Int) => x >>> s

def FMat.divNat (a : FMat) (k : Nat) : FMat := a.map fun (r : Array Int) => r.map fun (x : Int) => x / (k : Int)

/-- max absolute row sum (fixed-point) -/
def FMat.norm (a : FMat) : Int :=
  a.foldl (fun m r => max m (r.foldl (fun s x => s + x.natAbs) (0 : Int))) 0

def FMat.isZero (a : FMat) : Bool := a.all fun r => r.all (· == 0)

/-- smallest `s` with `x / 2^s ≤ 2^(prec-6)` (norm at most 1/64: few Taylor terms) -/
def halvings (x : Int) : Nat := Id.run do
  let mut s := 0
  let mut y := x
  while y > (fixOne >>> 6) do
    y := y >>> 1
    s := s + 1
  return s

/-- `exp a` by scaling, a Taylor series run until the terms vanish in fixed point, and squaring. -/
def fixExp (a : FMat) : FMat := Id.run do
  let n := a.size
  let s := halvings a.norm
  let a' := a.shiftRight s
  let mut term := FMat.id n
  let mut sum := FMat.id n
  for k in [1:200] do
    term := (term.mul a').divNat k
    if term.isZero then break
    sum := sum.add term
  let mut r := sum
  for _ in [0:s] do
    r := r.mul r
  return r

/-- row vector (fixed) times matrix -/
def vecMat (v : Array Int) (a : FMat) : Array Int :=
  let n := a.size
  (Array.range n).map fun j =>
    ((Array.range n).foldl (fun acc i => acc + v.getD i 0 * a.get i j) (0 : Int)) >>> prec

def dotFix (v w : Array Int) : Int :=
  ((Array.range v.size).foldl (fun acc i => acc + v.getD i 0 * w.getD i 0) (0 : Int)) >>> prec

end PG
