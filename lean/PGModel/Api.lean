/-
PGModel.Api — the CALL LAYER of `PhaseTypeDistribution.moment` (distributions.py l.613-672) and
`PhaseTypeDistribution.accumulate` (l.709-782) down to the two argument checks of `_accumulate`
(l.800-811): resolution of the optional arguments, the order of the checks, the window arithmetic.

What is a parameter (`DistCtx`):
  * `defaultReward`  `self.reward`
  * `startDefault`   `self.tree_height.start_time`   (the `start_time` given to `Coalescent`)
  * `tMax`           `self.tree_height.t_max`        (the `end_time` given to `Coalescent`, or the time
                                                      of almost sure absorption)
  * `raw rs t`       the numerical part of `_accumulate(len rs, (t,), rs)` (l.813-884): the uncentred,
                     order-conditioned moment of the reward tuple `rs` accumulated up to time `t`.
                     `_accumulate` treats its end times independently (sorted, evaluated, scattered back:
                     `PGModel/Accumulate.lean`), so one function of ONE time describes all of it.
Centring and the permutation average are `accumulateModel` of `PGModel/Moments.lean`, instantiated with
`raw` at a fixed time.

The callers forward their arguments unchanged: `Coalescent.moment` / `Coalescent.accumulate`
(l.2621-2716) replace `rewards=None` by `(TreeHeightReward(),) * int(k)` and pass `k`, `start_time`,
`end_time`, `center`, `permute` through; `SFSDistribution._moment` (l.1417) wraps every reward and calls
`PhaseTypeDistribution.moment` once per frequency bin with the same `start_time` / `end_time`.

Variants (seeded defects that lived in this layer):
  * `falsyTimes`     `start_time = start_time or default; end_time = end_time or default` in `moment`
                     (Python truthiness: an explicit `0` is replaced by the default);
  * `noLengthCheck`  the `if k != len(rewards): raise ValueError` of `accumulate` (l.734) removed.

Exceptions: `ValueError` (l.735, l.804, l.811) and — only reachable in variant `noLengthCheck` —
the `IndexError` of `rewards[i] for i in range(k)` (l.750) on a too short tuple.

Not modelled: the NaN guard of `moment` (l.666), exceptions of `t_max` itself, `end_times` passed as a
one-shot iterator.  No imports beyond PGModel: this file is linked into the `pgdriver` executable.
-/
import PGModel.Basic
import PGModel.Moments

namespace PG.Api

inductive ApiErr where
  | valueError
  | indexError
  deriving DecidableEq, Repr

inductive Variant where
  | current
  | falsyTimes
  | noLengthCheck
  deriving DecidableEq, Repr

/-- the arguments of `moment(k, rewards, start_time, end_time, center, permute)` as passed -/
structure MomentCall (ρ : Type) where
  /-- `int(k)` -/
  k : Int
  rewards : Option (List ρ) := none
  startTime : Option Rat := none
  endTime : Option Rat := none
  center : Bool := true
  permute : Bool := true

/-- the distribution object the call is made on -/
structure DistCtx (ρ : Type) where
  defaultReward : ρ
  startDefault : Rat
  tMax : Rat
  raw : List ρ → Rat → Rat

/-- `np.any(end_times < 0)` -/
def negTimes (ts : List Rat) : Bool := ts.any (· < 0)

/-- `rewards = [self.reward] * k if rewards is None` (l.731-732); a negative `k` gives `[]` -/
def resolveRewards {ρ} (ctx : DistCtx ρ) (k : Int) (rewards : Option (List ρ)) : List ρ :=
  rewards.getD (List.replicate k.toNat ctx.defaultReward)

/-- value of a successful `accumulate(k, rewards, center, permute)` at ONE end time: only the first `k`
rewards are ever read (`rewards[i] for i in range(k)`, `itertools.combinations(range(k), i)`) -/
def accAt {ρ} (ctx : DistCtx ρ) (k : Int) (rs : List ρ) (center permute : Bool) (t : Rat) : Rat :=
  haveI : Inhabited ρ := ⟨ctx.defaultReward⟩
  accumulateModel (fun l => ctx.raw l t) center permute (rs.take k.toNat)

/-- `PhaseTypeDistribution.accumulate(k, end_times, rewards, center, permute)`, l.729-782, followed by
the checks of `_accumulate`, l.803-811. -/
def accumulateCall {ρ} (v : Variant) (ctx : DistCtx ρ) (k : Int) (rewards : Option (List ρ))
    (endTimes : List Rat) (center permute : Bool) : Except ApiErr (List Rat) :=
  -- l.731-732
  let rs := resolveRewards ctx k rewards
  -- l.734-735
  if v ≠ .noLengthCheck ∧ (rs.length : Int) ≠ k then .error .valueError
  -- l.737-738: ones, BEFORE any check of the times
  else if k = 0 then .ok (endTimes.map fun _ => 1)
  -- l.741-773
  else if center = true ∧ k > 1 then
    -- l.746-753: `accumulate(k=1, rewards=(rewards[i],), end_times)` for i = 0, 1, …: reading `rewards[0]`
    -- of an empty tuple raises IndexError at once; otherwise the first mean reaches `_accumulate`, which
    -- checks the times (l.803); then `rewards[len(rewards)]` raises IndexError on a too short tuple.
    match rs with
    | [] => .error .indexError
    | _ :: _ =>
      if negTimes endTimes then .error .valueError
      else if rs.length < k.toNat then .error .indexError
      else .ok (endTimes.map (accAt ctx k rs center permute))
  else
    -- l.775-782: every route ends in `_accumulate(k, tuple(end_times), r)` with `len(r) = len(rewards)`:
    -- l.803 negative times, l.810 length
    if negTimes endTimes then .error .valueError
    else if (rs.length : Int) ≠ k then .error .valueError
    else .ok (endTimes.map (accAt ctx k rs center permute))

/-- resolution of an optional time argument of `moment`:
`if x is None: x = default` (current) / `x = x or default` (variant `falsyTimes`) -/
def resolveTime (v : Variant) (arg : Option Rat) (dflt : Rat) : Rat :=
  match arg with
  | none => dflt
  | some x => if v = .falsyTimes ∧ x = 0 then dflt else x

/-- `PhaseTypeDistribution.moment`, l.639-664 -/
def momentCall {ρ} (v : Variant) (ctx : DistCtx ρ) (c : MomentCall ρ) : Except ApiErr Rat :=
  -- l.639-643
  let s := resolveTime v c.startTime ctx.startDefault
  let e := resolveTime v c.endTime ctx.tMax
  if s > 0 then
    -- l.645-655: `m_start, m_end = accumulate(k, [start_time, end_time], …); m = m_end - m_start`
    (accumulateCall v ctx c.k c.rewards [s, e] c.center c.permute).map fun l => l.getD 1 0 - l.getD 0 0
  else
    -- l.657-664: `accumulate(k, [end_time], …)[0]`
    (accumulateCall v ctx c.k c.rewards [e] c.center c.permute).map fun l => l.getD 0 0

/-! ### the driver's conventions -/

/-- The FAKE `raw` of the driver command `api` (mirrored in Python by the correspondence probe
`props/corr_models.py: api_calls`): `t^len(rs) · Π_j (rs[j] + 2)^(j+1)` — rational, sensitive to the
order of the rewards, `1` for the empty tuple and `0` at time 0 otherwise. -/
def fakeRaw (rs : List Nat) (t : Rat) : Rat :=
  t ^ rs.length * prodRat (rs.zipIdx.map fun (r, j) => ((r + 2 : Nat) : Rat) ^ (j + 1))

def showErr : ApiErr → String
  | .valueError => "ValueError"
  | .indexError => "IndexError"

end PG.Api
