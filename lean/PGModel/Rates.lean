/-
PGModel.Rates — mirror of `phasegen/coalescent_models.py`:
`_get_rate`, `_get_base_rate`, `_get_rate_block_counting`, `_get_timescale`, `coalesce`.

All parameters are rationals (every Python float is one).  The Beta base rate
`B(k-α, b-k+α) / B(α, 2-α)` is represented by the polynomial it equals for integers `2 ≤ k ≤ b`
(`PGProofs.Beta`: `betaBase_eq_Beta` proves the identity with Mathlib's real Beta function).
-/
import PGModel.Basic

namespace PG

inductive Model where
  | kingman
  | beta (alpha : Rat) (scaleTime : Bool)
  | dirac (psi c : Rat) (scaleTime : Bool)
  deriving Repr, BEq, Inhabited

/-- `∏_{j=lo}^{hi-1} f j` -/
def prodRange (lo hi : Nat) (f : Nat → Rat) : Rat :=
  prodRat (((List.range (hi - lo)).map (· + lo)).map f)

/-- Beta-coalescent rate of one given `k`-merger among `b` lineages (`2 ≤ k ≤ b`):
`∏_{j=2}^{k-1} (j - α) · ∏_{j=0}^{b-k-1} (j + α) / (b-1)!`. -/
def betaBase (alpha : Rat) (b k : Nat) : Rat :=
  prodRange 2 k (fun j => (j : Rat) - alpha) * prodRange 0 (b - k) (fun j => (j : Rat) + alpha)
    / (factorial (b - 1) : Rat)

/-- `scipy.stats.binom.pmf(k, n, p)`. -/
def binomPmf (k n : Nat) (p : Rat) : Rat :=
  if k > n then 0 else (choose n k : Rat) * p ^ k * (1 - p) ^ (n - k)

/-- Λ-coalescent rate `λ_{b,k}` at which ONE given set of `k` out of `b` lineages merges. -/
def lam : Model → Nat → Nat → Rat
  | .kingman, _, k => if k = 2 then 1 else 0
  | .beta a _, b, k => betaBase a b k
  | .dirac psi c _, b, k => (if k = 2 then 1 else 0) + c * psi ^ k * (1 - psi) ^ (b - k)

def kingmanRate (b k : Nat) : Rat := if k = 2 then (b : Rat) * ((b : Rat) - 1) / 2 else 0

/-- `_get_rate(b, k)`: total rate of a merger of some `k` out of `b` lineages. -/
def getRate : Model → Nat → Nat → Rat
  | .kingman, b, k => kingmanRate b k
  | .beta a _, b, k => if k < 1 ∨ k > b then 0 else (choose b k : Rat) * betaBase a b k
  | .dirac psi c _, b, k => kingmanRate b k + binomPmf k b psi * c

def kingmanRateBC (bs ks : List Nat) : Rat :=
  match bs, ks with
  | [b], [k] => kingmanRate b k
  | [b0, b1], [1, 1] => (b0 : Rat) * (b1 : Rat)
  | _, _ => 0

/-- `_get_rate_block_counting(n, b, k)`. -/
def getRateBC : Model → Nat → List Nat → List Nat → Rat
  | .kingman, _, bs, ks => kingmanRateBC bs ks
  | .beta a _, n, bs, ks =>
      (prodNat (List.zipWith choose bs ks) : Rat) * betaBase a n (sumNat ks)
  | .dirac psi c _, n, bs, ks =>
      let pPsi := prodRat (List.zipWith (fun b k => binomPmf k b psi) bs ks)
      let pPsi := if sumNat bs < n then pPsi * binomPmf 0 (n - sumNat bs) psi else pPsi
      kingmanRateBC bs ks + pPsi * c

/-- `_get_timescale(N)` where it is rational; `none` for the time-scaled Beta coalescent
(real powers; supplied to the model as a number, see `PGProofs.Timescale`). -/
def timescaleRat : Model → Rat → Option Rat
  | .kingman, N => some N
  | .beta _ false, N => some N
  | .beta _ true, _ => none
  | .dirac _ _ true, N => some (N * N)
  | .dirac _ _ false, N => some N

def isKingman : Model → Bool
  | .kingman => true
  | _ => false

/-- `StandardCoalescent.coalesce(n, blocks)`. -/
def coalesceStd (blocks : List Nat) : List (List Nat × Rat) :=
  let nb := blocks.length
  if nb = 1 then
    if getN blocks 0 > 1 then [([getN blocks 0 - 1], kingmanRate (getN blocks 0) 2)] else []
  else
    (pairs nb).flatMap fun (i, j) =>
      if i = j then
        if getN blocks i > 1 then
          [(addAt (subAt blocks i 2) (2 * (i + 1) - 1) 1, kingmanRateBC [getN blocks i] [2])]
        else []
      else if i > j then
        if getN blocks i > 0 ∧ getN blocks j > 0 then
          [(addAt (subAt (subAt blocks i 1) j 1) (i + j + 1) 1,
            kingmanRateBC [getN blocks i, getN blocks j] [1, 1])]
        else []
      else []

/-- entries of `xs` at the positions where `mask > 0` (`blocks[comb > 0]`). -/
def selectPos (xs mask : List Nat) : List Nat :=
  (List.zip xs mask).filterMap fun (x, m) => if m > 0 then some x else none

/-- `MultipleMergerCoalescent.coalesce(n, blocks)`. -/
def coalesceMM (m : Model) (blocks : List Nat) : List (List Nat × Rat) :=
  let nb := blocks.length
  if nb = 1 then
    ((List.range (getN blocks 0)).drop 1).map fun k =>
      ([getN blocks 0 - k], getRate m (getN blocks 0) (k + 1))
  else
    (boxes blocks).filterMap fun comb =>
      if sumNat comb > 1 then
        let new := addAt (List.zipWith (· - ·) blocks comb) (weight comb - 1) 1
        some (new, getRateBC m (sumNat blocks) (selectPos blocks comb) (selectPos comb comb))
      else none

/-- `model.coalesce(n, blocks)` dispatch. -/
def coalesceBlocks (m : Model) (blocks : List Nat) : List (List Nat × Rat) :=
  match m with
  | .kingman => coalesceStd blocks
  | _ => coalesceMM m blocks

end PG
