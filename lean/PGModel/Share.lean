/-
PGModel.Share — state-space sharing in `Inference.get_coal` (properties C17 / C19).

Mirror of /repo/phasegen/inference.py `get_coal` (l.203-225), `_lineage_counting_state_space` /
`_block_counting_state_space` (l.227-239) and of the four `__eq__` methods that decide whether the
state space of a freshly built `Coalescent` is REPLACED by the one cached from `x0`:

* `StateSpace.__eq__` (state_space.py l.281-294): `__class__`, `lineage_config`, `locus_config`, `model`;
  NOT the epoch (`update_epoch` re-points it) and not the `cache` flag;
* `LineageConfig.__eq__` (lineage.py l.72-79): `self.lineage_dict == other.lineage_dict`, i.e. equality of two
  Python dicts `pop name ↦ number of lineages`.  Python dict equality IGNORES THE INSERTION ORDER, whereas the
  states (hence the rate matrix) are laid out in the order of `pop_names`: `dictEq` below mirrors this exactly and
  `PGProofs.ShareThm.eqKey_current_ignores_deme_order` records the consequence;
* `LocusConfig.__eq__` (locus.py l.75-87): `n`, `n_unlinked`, `recombination_rate`, `_allow_coalescence`
  (the last one is the constant `True` set in `__init__` and never written: not a field of the model);
* `CoalescentModel.__eq__` (coalescent_models.py l.221-228, 352-363, 459-471): `isinstance(other, <own class>)`
  and every constructor parameter of that class (`alpha, scale_time` / `psi, c, scale_time`; none for the
  standard coalescent).  A model is a class tag plus the list of those parameters.

One `SSKey` describes ONE state space: the class (lineage / block counting) is a field of the key, so a
model instance is the slice of an `Inference` object that concerns one of the two classes (the two cached
state spaces `_lineage_counting_state_space` and `_block_counting_state_space` never interact: each is only
compared with a space of its own class).  The block-counting slice has the extra guard
`coal.locus_config.n == 1` of `get_coal`.

Abstractions
* epochs are abstract keys `E` as in `PGModel.Cache`;
* `compute : SSKey → E → M` is the rate matrix of that configuration in that epoch (`get_transitions()` +
  `_graph_to_matrix` on a state space with that configuration while `self.epoch = e`);
* a handed-out `Coalescent` is its key and its state space: a reference to the shared space (`none`) or an own
  `Cache.State`; the shared space computes with the configuration it was BUILT from (`key0`), whoever reads it;
* the callback is called with the parameters and returns a coalescent with key `k` whose demography has first
  epoch `e`: `getCoal k e`;
* `get_coal` raises `NotImplementedError` when sharing is on, the requested coalescent has one locus and the
  coalescent of `x0` has two (the cached block-counting space cannot be built): `getCoalRaises`; `run` does not
  represent exceptions, `runChecked` does.
No Mathlib: this file is linked into the `pgdriver` executable.
-/
import PGModel.Cache

namespace PG.Share

/-- `StateSpace.__class__` -/
inductive Cls where
  | lineage
  | block
  deriving DecidableEq, Repr

/-- Everything a state space is built from, except the epoch. -/
structure SSKey where
  /-- `LineageCountingStateSpace` or `BlockCountingStateSpace` -/
  cls : Cls
  /-- `lineage_config.lineage_dict` in insertion order (`pop_names` zipped with `lineages`) -/
  lineages : List (String × Nat)
  /-- `locus_config.n` -/
  nLoci : Nat
  /-- `locus_config.n_unlinked` -/
  nUnlinked : Nat
  /-- `locus_config.recombination_rate` -/
  recRate : Rat
  /-- class of `model` (`"standard"`, `"beta"`, `"dirac"`, …) -/
  model : String
  /-- the constructor parameters of the model class, as its `__eq__` compares them
  (`[]`, `[alpha, scale_time]`, `[psi, c, scale_time]`; booleans as 0/1) -/
  params : List Rat
  deriving DecidableEq, Repr

/-- Which `StateSpace.__eq__` is in force. -/
inductive EqVariant where
  /-- the pinned code -/
  | current
  /-- seeded defect: `self.locus_config == self.locus_config` -/
  | forgetsLocus
  deriving DecidableEq, Repr

/-- `a == b` for two Python dicts with unique keys: same number of items and every item of `a` is an item of
`b` (the insertion order does not matter). -/
def dictEq (a b : List (String × Nat)) : Bool :=
  a.length == b.length && a.all fun p => b.lookup p.1 == some p.2

/-- `LineageConfig.__eq__` -/
def lineageEq (a b : SSKey) : Bool := dictEq a.lineages b.lineages

/-- `LocusConfig.__eq__` -/
def locusEq (a b : SSKey) : Bool :=
  a.nLoci == b.nLoci && a.nUnlinked == b.nUnlinked && a.recRate == b.recRate

/-- `CoalescentModel.__eq__` -/
def modelEq (a b : SSKey) : Bool := a.model == b.model && a.params == b.params

/-- `StateSpace.__eq__` (`a` is `self`, `b` is `other`). -/
def eqKey : EqVariant → SSKey → SSKey → Bool
  | .current, a, b => a.cls == b.cls && lineageEq a b && locusEq a b && modelEq a b
  | .forgetsLocus, a, b => a.cls == b.cls && lineageEq a b && locusEq a a && modelEq a b

/-- A `Coalescent` returned by `get_coal`, as far as one class of state space is concerned. -/
structure Coal (E M : Type) where
  key : SSKey
  /-- `none`: `__dict__[…_state_space]` was replaced by the shared object; `some s`: its own state space -/
  space : Option (Cache.State E M)

/-- The slice of an `Inference` object that concerns one class of state space. -/
structure Inf (E M : Type) where
  variant : EqVariant
  /-- `Inference.cache` -/
  useShare : Bool
  /-- configuration of `self.coal(**self.x0)` -/
  key0 : SSKey
  /-- `self._lineage_counting_state_space` (resp. `_block_…`): built once from `x0` -/
  shared : Cache.State E M
  /-- the coalescents handed out so far, in order -/
  coals : List (Coal E M)

/-- A new `Inference`; `e0` is the first epoch of the demography of `self.coal(**self.x0)`.  (The real
`cached_property` is evaluated at the first `get_coal`; as its value does not depend on when, the model
builds it at once.  State spaces are created with their own `cache=True` default.) -/
def Inf.init {E M : Type} (v : EqVariant) (useShare : Bool) (key0 : SSKey) (e0 : E) : Inf E M :=
  { variant := v, useShare := useShare, key0 := key0, shared := Cache.State.init e0 true, coals := [] }

inductive Op (E : Type) where
  /-- `inf.get_coal(**params)` where the callback returns a coalescent with key `k` and first epoch `e` -/
  | getCoal (k : SSKey) (e : E)
  /-- an operation on the state space of the `i`-th coalescent handed out (0-based) -/
  | query (i : Nat) (op : Cache.Op E)

/-- Is the state space of a new coalescent with key `k` replaced by the shared one?  The new space is `self`
in `coal.…_state_space == self._…_state_space`; the block-counting space is only considered for one locus. -/
def shares (v : EqVariant) (useShare : Bool) (key0 k : SSKey) : Bool :=
  useShare && (k.cls != .block || k.nLoci == 1) && eqKey v k key0

/-- `get_coal` raises (from `BlockCountingStateSpace.__init__` of the coalescent of `x0`). -/
def getCoalRaises (useShare : Bool) (key0 k : SSKey) : Bool :=
  useShare && k.cls == .block && key0.cls == .block && k.nLoci == 1 && key0.nLoci != 1

variable {E M : Type} [BEq E]

/-- `get_coal` (when it does not raise). -/
def getCoal (s : Inf E M) (k : SSKey) (e : E) : Inf E M :=
  let c : Coal E M :=
    if shares s.variant s.useShare s.key0 k then { key := k, space := none }
    else { key := k, space := some (Cache.State.init e true) }
  { s with coals := s.coals ++ [c] }

/-- An operation on the state space of the `i`-th coalescent (no-op for an index not handed out yet). -/
def query (compute : SSKey → E → M) (s : Inf E M) (i : Nat) (op : Cache.Op E) : Inf E M × Option M :=
  match s.coals[i]? with
  | none => (s, none)
  | some c =>
    match c.space with
    | none =>
      let (sh, a) := Cache.step (compute s.key0) s.shared op
      ({ s with shared := sh }, a)
    | some st =>
      let (st', a) := Cache.step (compute c.key) st op
      ({ s with coals := s.coals.set i { c with space := some st' } }, a)

def step (compute : SSKey → E → M) (s : Inf E M) : Op E → Inf E M × Option M
  | .getCoal k e => (getCoal s k e, none)
  | .query i op => query compute s i op

/-- Replay a history; one answer slot per operation (`some m` for a read of `S`). -/
def run (compute : SSKey → E → M) (s : Inf E M) : List (Op E) → Inf E M × List (Option M)
  | [] => (s, [])
  | op :: ops =>
    let (s1, a) := step compute s op
    let (s2, as) := run compute s1 ops
    (s2, a :: as)

/-- Does some `get_coal` of the history raise? -/
def raises (useShare : Bool) (key0 : SSKey) (ops : List (Op E)) : Bool :=
  ops.any fun | .getCoal k _ => getCoalRaises useShare key0 k | .query _ _ => false

/-- The answers of a history on a new `Inference`, `none` if some `get_coal` raises. -/
def runChecked (compute : SSKey → E → M) (v : EqVariant) (useShare : Bool) (key0 : SSKey) (e0 : E)
    (ops : List (Op E)) : Option (List (Option M)) :=
  if raises useShare key0 ops then none else some (run compute (Inf.init v useShare key0 e0) ops).2

/-! ### Specification: no rate-matrix cache, no stored `S`, every coalescent answers with ITS OWN configuration.

What remains of sharing is only which coalescents follow the same `epoch` attribute: the epoch of a space is
the argument of the last `update_epoch` made through ANY coalescent holding that space. -/

structure Spec (E : Type) where
  variant : EqVariant
  useShare : Bool
  key0 : SSKey
  /-- `epoch` of the shared space -/
  sharedEpoch : E
  /-- key of every coalescent and the `epoch` of its own space (`none`: it holds the shared space) -/
  coals : List (SSKey × Option E)

def Spec.init {E : Type} (v : EqVariant) (useShare : Bool) (key0 : SSKey) (e0 : E) : Spec E :=
  { variant := v, useShare := useShare, key0 := key0, sharedEpoch := e0, coals := [] }

/-- The epoch in force on the space of the `i`-th coalescent. -/
def Spec.epochAt {E : Type} (t : Spec E) (i : Nat) : Option E :=
  t.coals[i]?.map fun c => c.2.getD t.sharedEpoch

def specStep (compute : SSKey → E → M) (t : Spec E) : Op E → Spec E × Option M
  | .getCoal k e =>
    ({ t with coals := t.coals ++ [(k, if shares t.variant t.useShare t.key0 k then none else some e)] }, none)
  | .query i op =>
    match t.coals[i]? with
    | none => (t, none)
    | some c =>
      match op with
      | .updateEpoch e =>
        match c.2 with
        | none => ({ t with sharedEpoch := e }, none)
        | some _ => ({ t with coals := t.coals.set i (c.1, some e) }, none)
      | .getS => (t, some (compute c.1 (c.2.getD t.sharedEpoch)))
      | _ => (t, none)

def specRun (compute : SSKey → E → M) (t : Spec E) : List (Op E) → List (Option M)
  | [] => []
  | op :: ops =>
    let (t1, a) := specStep compute t op
    a :: specRun compute t1 ops

/-- The consumer discipline of the library (every distribution calls `state_space.update_epoch(own epoch)`
right before it reads `S`, cf. `Cache.consumerRead true`): every read of `S` through coalescent `i` happens
while the most recent `update_epoch` of the whole history was made through `i` and no `get_coal` came in
between.  `p` is the coalescent of that most recent `update_epoch`. -/
def disciplined : Option Nat → List (Op E) → Bool
  | _, [] => true
  | _, .getCoal _ _ :: ops => disciplined none ops
  | _, .query i (.updateEpoch _) :: ops => disciplined (some i) ops
  | p, .query i .getS :: ops => p == some i && disciplined p ops
  | p, .query _ _ :: ops => disciplined p ops

end PG.Share
