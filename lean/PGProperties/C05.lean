/-
# C05 — The epoch schedule reproduces the demography the user specified

At every time t the population sizes and migration rates in force are those of the most recent
change specified at or before t (size 1 and rate 0 before any change), whichever way the demography
was written (nested dicts, constants, individual events, symmetric rates, or any mixture and order
of these together with discretised trajectories); epochs tile [0, inf) without gaps or overlaps and
every specified change time and every grid point of a discretised event is an epoch boundary. A
discretised trajectory takes, on every epoch inside its window, the mean of the trajectory at the
epoch's two ends, and a population split makes lineages of the derived population join the ancestral
one after the split time.

Quantifier: for all sets of change times/values, all event types and all orders in which events are passed or
added (add_event), all query times t including boundaries

Proved on the code model of Demography.epochs: tiling of [0,inf), change times are boundaries, value
in force for any number of discrete events (latest change wins, stable order on ties), lookup of
get_epochs is pointwise, order independence (no conflicts), discretised endpoint mean, split
orientation lemmas, and kernel-checked counterexamples for the three historic defects. Schedules
mixing discretised events with the other classes: whole-schedule theorems
mixed_value_in_force_discrete, mixed_discretised_mean, mixed_terminates, mixed_epoch_length,
mixed_grid_boundaries. Partial: float ceil with non-dyadic steps.

This file restates the theorems the property rests on (full statements; proofs are in PGProofs/).
Generated once by harness/mkprops.py from harness/props_table.py + PGProperties/extra/C05.lean.in; committed as source.
-/
import PGProofs.DemographyMixed
import PGProofs.DemographyThm
import PGProofs.EndToEnd2
import PGProofs.DemoObjThm

set_option linter.all false
set_option pp.fieldNotation.generalized false

namespace PG.C05
open PG

/-- schedules mixing all event classes: keys only discrete events touch still follow the latest change -/
theorem mixed_value_in_force : ∀ (o : DemoOpts), o.fixedBroadcast = true → ∀ (events : List Event), (∀ ev ∈ events, Event.WF ev) → ∀ (k : Key), (∀ ev ∈ events, ¬Event.IsDiscrete ev → ¬Event.Touches ev k) → ∀ (count : ℕ), ∀ e ∈ epochsUpTo o events count, ∀ (t : ℚ), e.start ≤ t → ltInf t e.stop = true → Epoch.value e k = specValue (allChanges (sortEvents events)) (popNames (sortEvents events)) k t := @PG.mixed_value_in_force_discrete

/-- schedules mixing all event classes: endpoint mean inside the window -/
theorem mixed_discretised_mean : ∀ (o : DemoOpts), o.fixedWindowEnd = true → ∀ (events : List Event) (parts : List PG.Part), Event.discretised parts ∈ events → ∀ p ∈ parts, (∀ ev ∈ events, Event.QuietFor p ev) → ∀ (count : ℕ), ∀ e ∈ epochsUpTo o events count, ∀ (en : ℚ), e.stop = some en → p.2.1 ≤ e.start → leInf en p.2.2.1 = true → Epoch.value e p.2.2.2.1 = some ((polyEval p.1 e.start + polyEval p.1 en) / 2) := @PG.mixed_discretised_mean

/-- finite windows: the schedule ends with an infinite epoch after an explicit number of epochs and tiles [0, inf) -/
theorem mixed_terminates : ∀ (o : DemoOpts), o.fixedBroadcast = true → ∀ (events : List Event), (∀ ev ∈ events, Event.WF ev) → (∀ ev ∈ events, Event.FiniteWindows ev) → ∀ (count : ℕ), List.length (stopTimes events) < count → (∃ e ∈ epochsUpTo o events count, e.stop = none) ∧ Tiled (epochsUpTo o events count) := @PG.mixed_terminates

/-- inside a window no epoch is longer than one step (+1e-10) -/
theorem mixed_epoch_length : ∀ (o : DemoOpts), o.fixedBroadcast = true → ∀ (events : List Event) (parts : List PG.Part), Event.discretised parts ∈ events → ∀ p ∈ parts, 0 < p.2.2.2.2 → ∀ (count : ℕ), ∀ e ∈ epochsUpTo o events count, p.2.1 ≤ e.start → leInf e.start p.2.2.1 = true → ∃ en, e.stop = some en ∧ en - e.start < p.2.2.2.2 + 1 / 10000000000 := @PG.mixed_epoch_length

/-- grid points are epoch starts -/
theorem mixed_grid_boundaries : ∀ (o : DemoOpts), o.fixedBroadcast = true → ∀ (events : List Event), (∀ ev ∈ events, Event.WF ev) → (∀ ev ∈ events, Event.FiniteWindows ev) → ∀ (count : ℕ), List.length (stopTimes events) < count → ∀ (parts : List PG.Part), Event.discretised parts ∈ events → ∀ p ∈ parts, ∀ (j : ℕ), leInf (p.2.1 + ↑j * p.2.2.2.2) p.2.2.1 = true → (∀ e ∈ epochsUpTo o events count, e.start < p.2.1 + ↑j * p.2.2.2.2 → e.start + 1 / 10000000000 ≤ p.2.1 + ↑j * p.2.2.2.2) → ∃ e ∈ epochsUpTo o events count, e.start = p.2.1 + ↑j * p.2.2.2.2 := @PG.mixed_grid_boundaries_of_count

/-- epochs tile [0, inf): first starts at 0, consecutive, only the last is infinite, non-empty -/
theorem tiling : ∀ (o : DemoOpts) (events : List Event) (count : ℕ), let eps := epochsUpTo o events count; (∀ (e : Epoch), List.head? eps = some e → e.start = 0) ∧ (∀ (i : ℕ) (h : i + 1 < List.length eps), eps[i].stop = some eps[i + 1].start) ∧ (∀ (i : ℕ) (h : i < List.length eps), eps[i].stop = none → i + 1 = List.length eps) ∧ (List.length eps < count → ∃ e, List.getLast? eps = some e ∧ e.stop = none) ∧ List.length eps ≤ count ∧ ((∀ ev ∈ events, Event.StepsPos ev) → ∀ e ∈ eps, ∀ (en : ℚ), e.stop = some en → e.start < en) := @PG.epochs_tiling

/-- the schedule is a well-formed epoch list for the accumulation theorems -/
theorem tiling_WF : ∀ (o : DemoOpts) (events : List Event), (∀ ev ∈ events, Event.StepsPos ev) → ∀ (count : ℕ), (∃ e ∈ epochsUpTo o events count, e.stop = none) → WF (List.map Epoch.toT (epochsUpTo o events count)) 0 := @PG.epochs_WF

/-- every positive change time starts an epoch and nothing else does -/
theorem change_times_are_boundaries : ∀ (o : DemoOpts) (events : List Event), (∀ ev ∈ events, Event.NotDiscretised ev) → (∀ ev ∈ events, Event.WF ev) → ∀ (count : ℕ), List.length (changeTimes events) < count → (∃ e ∈ epochsUpTo o events count, e.stop = none) ∧ Tiled (epochsUpTo o events count) ∧ (∀ t ∈ changeTimes events, 0 < t → ∃ e ∈ epochsUpTo o events count, e.start = t) ∧ ∀ e ∈ epochsUpTo o events count, e.start = 0 ∨ e.start ∈ changeTimes events ∧ 0 < e.start := @PG.change_time_is_boundary

/-- every key has the value of the latest change at or before t (default 1 / 0) -/
theorem value_in_force : ∀ (o : DemoOpts) (events : List Event), (∀ ev ∈ events, Event.IsDiscrete ev) → (∀ ev ∈ events, Event.WF ev) → ∀ (count : ℕ), ∀ e ∈ epochsUpTo o events count, ∀ (t : ℚ), e.start ≤ t → ltInf t e.stop = true → ∀ (k : Key), Epoch.value e k = specValue (allChanges (sortEvents events)) (popNames (sortEvents events)) k t := @PG.value_in_force'

/-- get_epochs returns for each time the unique epoch containing it, independently of the other times -/
theorem lookup : ∀ (eps : List Epoch), Tiled eps → ∀ (ts : List ℚ), (∀ t ∈ ts, 0 ≤ t) → getEpochIdx eps ts = List.map (fun t ↦ some (epochOf eps t)) ts := @PG.getEpochIdx_spec

/-- a time on a boundary belongs to the epoch that starts there -/
theorem lookup_boundary : ∀ {eps : List Epoch}, Tiled eps → ∀ {j : ℕ} (hj : j < List.length eps), epochOf eps eps[j].start = j := @PG.epochOf_start

/-- sorting events is a permutation -/
theorem sort_stable_perm : ∀ (es : List Event), List.Perm (sortEvents es) es := @PG.sortEvents_perm

/-- boundaries do not depend on the order events are given -/
theorem order_independent_boundaries : ∀ (o : DemoOpts) {es es' : List Event}, List.Perm es es' → (∀ ev ∈ es, Event.NotDiscretised ev) → (∀ ev ∈ es, Event.WF ev) → ∀ (count : ℕ), List.length (changeTimes es) < count → ∀ (t : ℚ), (∃ e ∈ epochsUpTo o es count, e.start = t) ↔ ∃ e ∈ epochsUpTo o es' count, e.start = t := @PG.boundaries_perm

/-- values do not depend on the order events are given (no conflicting changes) -/
theorem order_independent_values : ∀ (o o' : DemoOpts) {es es' : List Event}, List.Perm es es' → (∀ ev ∈ es, Event.IsDiscrete ev) → (∀ ev ∈ es, Event.WF ev) → NoConflict (allChanges es) → ∀ (count count' : ℕ) (e e' : Epoch), e ∈ epochsUpTo o es count → e' ∈ epochsUpTo o' es' count' → ∀ (t : ℚ), e.start ≤ t → ltInf t e.stop = true → e'.start ≤ t → ltInf t e'.stop = true → ∀ (k : Key), Epoch.value e k = Epoch.value e' k := @PG.value_perm

/-- inside its window a discretised event takes the endpoint mean -/
theorem discretised_mean : ∀ (o : DemoOpts), o.fixedWindowEnd = true → ∀ (traj : List ℚ) (s E : ℚ) (key : Key) (step : ℚ) (count : ℕ), ∀ e ∈ epochsUpTo o [Event.discretised [(traj, s, some E, key, step)]] count, ∀ (en : ℚ), e.stop = some en → s ≤ e.start → en ≤ E → Epoch.value e key = some ((polyEval traj e.start + polyEval traj en) / 2) := @PG.discretised_mean

/-- grid points of a discretised event end the current epoch (repaired broadcast) -/
theorem grid_points : ∀ (o : DemoOpts), o.fixedBroadcast = true → ∀ (evs : List Event) (prev : Epoch) (parts : List (List ℚ × ℚ × Option ℚ × Key × ℚ)), Event.discretised parts ∈ evs → ∀ p ∈ parts, 0 < p.2.2.2.2 → ∀ (n : ℕ), leInf (p.2.1 + ↑n * p.2.2.2.2) p.2.2.1 = true → (nextEpoch o evs prev).start + 1 / 10000000000 ≤ p.2.1 + ↑n * p.2.2.2.2 → ∃ s, (nextEpoch o evs prev).stop = some s ∧ s ≤ p.2.1 + ↑n * p.2.2.2.2 := @PG.grid_point_boundary

/-- documented split: derived -> ancestral at size*multiplier, nothing into derived -/
theorem split_documented : ∀ (fe : Bool) (t mult : ℚ) (derived : List ℕ) (anc : ℕ) (e : Epoch), e.start ≤ t ∧ ltInf t e.stop = true → anc ∉ derived → (∀ p ∈ derived, Epoch.value (Event.apply fe true (Event.split t derived anc mult) e) (Key.mig p anc) = some (Option.getD (List.lookup p e.sizes) 0 * mult)) ∧ (∀ p ∈ derived, ∀ q ∈ List.map (fun x ↦ x.1) e.sizes, Epoch.value (Event.apply fe true (Event.split t derived anc mult) e) (Key.mig q p) = some 0) ∧ (Event.apply fe true (Event.split t derived anc mult) e).sizes = e.sizes := @PG.split_spec

/-- what the pinned code does instead (known finding) -/
theorem split_pinned : ∀ (fe : Bool) (t mult : ℚ) (derived : List ℕ) (anc : ℕ) (e : Epoch), e.start ≤ t ∧ ltInf t e.stop = true → anc ∉ derived → (∀ p ∈ derived, Epoch.value (Event.apply fe false (Event.split t derived anc mult) e) (Key.mig anc p) = some (Option.getD (List.lookup p e.sizes) 0 * mult)) ∧ ∀ p ∈ derived, ∀ q ∈ List.map (fun x ↦ x.1) e.sizes, Epoch.value (Event.apply fe false (Event.split t derived anc mult) e) (Key.mig p q) = some 0 := @PG.split_pinned

/-- the pre-fix broadcast applies a change at 1/20 from time 0 -/
theorem historic_broadcast : type_of% @PG.historic_broadcast_counterexample := @PG.historic_broadcast_counterexample   -- (printed statement does not re-elaborate; see the source lemma)

/-- the pre-fix window test skipped the last step -/
theorem historic_window_end : List.map (fun e ↦ (e.start, e.stop, Epoch.value e (Key.size 0))) (epochsUpTo { } [Event.discretised [([1, 1], 0, some 1, Key.size 0, 1 / 2)]] 2) = [(0, some (1 / 2), some (5 / 4)), (1 / 2, some 1, some (7 / 4))] ∧ List.map (fun e ↦ (e.start, e.stop, Epoch.value e (Key.size 0))) (epochsUpTo { fixedWindowEnd := false } [Event.discretised [([1, 1], 0, some 1, Key.size 0, 1 / 2)]] 2) = [(0, some (1 / 2), some (5 / 4)), (1 / 2, some 1, some (5 / 4))] := @PG.historic_windowEnd_counterexample

/-- pinned vs documented orientation on a concrete demography -/
theorem split_orientation : type_of% @PG.split_orientation_counterexample := @PG.split_orientation_counterexample   -- (printed statement does not re-elaborate; see the source lemma)

/-- a grid point closer than 1e-10 to a boundary is skipped (documented limitation) -/
theorem grid_point_skipped : List.map (fun e ↦ (e.start, e.stop)) (epochsUpTo { } [Event.discrete [(1 / 10 - 1 / 100000000000, [(Key.size 0, 2)])], Event.discretised [([1, 1], 0, some 1, Key.size 1, 1 / 10)]] 3) = [(0, some (1 / 10 - 1 / 100000000000)), (1 / 10 - 1 / 100000000000, some (1 / 5)), (1 / 5, some (3 / 10))] := @PG.grid_point_skipped

/-- for every epoch the generator produces from the translated user dictionaries and every time inside it, the table the transitions use equals the table read off the epoch -/
theorem glue_link : ∀ (I : Config.Input), EndToEnd.DictInput I → Config.ValidSetOrder I → ∀ (o : DemoOpts) (count : ℕ), ∀ e ∈ epochsUpTo o (EndToEnd.toEvents I) count, ∀ (t : ℚ), e.start ≤ t → ltInf t e.stop = true → Config.epochTable Config.Variant.current I t = EndToEnd.tableOfEpoch I e := @PG.EndToEnd.epoch_tables_from_demography

/-- the generated epochs tile [0, inf) with boundaries exactly at the positive change times of the input -/
theorem schedule_from_input : ∀ (I : Config.Input), EndToEnd.DictInput I → ∀ (o : DemoOpts) (count : ℕ), List.length (changeTimes (EndToEnd.toEvents I)) < count → epochsUpTo o (EndToEnd.toEvents I) count ≠ [] ∧ WF (List.map Epoch.toT (epochsUpTo o (EndToEnd.toEvents I) count)) 0 ∧ (∀ t ∈ changeTimes (EndToEnd.toEvents I), 0 < t → ∃ e ∈ epochsUpTo o (EndToEnd.toEvents I) count, e.start = t) ∧ ∀ e ∈ epochsUpTo o (EndToEnd.toEvents I) count, e.start = 0 ∨ e.start ∈ changeTimes (EndToEnd.toEvents I) ∧ 0 < e.start := @PG.EndToEnd.demography_schedule

/-- the mutable Demography object: after ANY history of constructor / add_events / add_event / epochs / reads / Coalescent(...) the cached pop_names, n_pops are those of the events held and the events are sorted -/
theorem object_invariant : ∀ {N : Type} [inst : LinearOrder N] (s₀ : DemoObj.State N) (evs : List (DemoObj.Ev N)) (ctor : Option (DemoObj.Ev N)) (ops : List (DemoObj.Op N)), DemoObj.Fresh (DemoObj.run DemoObj.Variant.current s₀ (DemoObj.Op.new evs ctor :: ops)).1 := @PG.DemoObj.inv_reachable

/-- the events held are the stable sort by start time of everything handed over, whichever route it came -/
theorem object_events_stable_sort : ∀ {N : Type} [inst : LinearOrder N] (s₀ : DemoObj.State N) (h : List (DemoObj.Op N)), DemoObj.startsWithNew h = true → DemoObj.StableSortOf (DemoObj.run DemoObj.Variant.current s₀ h).1.events (DemoObj.insertionLog DemoObj.Variant.current s₀ h) := @PG.DemoObj.events_eq_stable_sort

/-- pop_names is the sorted set of every population mentioned so far (events of any route, sampled populations of a Coalescent) -/
theorem object_pop_names : ∀ {N : Type} [inst : LinearOrder N] (s₀ : DemoObj.State N) (h : List (DemoObj.Op N)), DemoObj.startsWithNew h = true → (DemoObj.run DemoObj.Variant.current s₀ h).1.popNames = DemoObj.sortDedup (DemoObj.mentioned h) ∧ (DemoObj.run DemoObj.Variant.current s₀ h).1.nPops = List.length (DemoObj.sortDedup (DemoObj.mentioned h)) := @PG.DemoObj.popNames_eq_sortDedup_mentioned

/-- two histories handing over permutations of the same events agree on pop_names, n_pops, on the events up to ties and on the relative order of events with different start times -/
theorem object_order_independent : ∀ {N : Type} [inst : LinearOrder N] (s₁ s₂ : DemoObj.State N) (h₁ h₂ : List (DemoObj.Op N)), DemoObj.startsWithNew h₁ = true → DemoObj.startsWithNew h₂ = true → DemoObj.noCoal h₁ = true → DemoObj.noCoal h₂ = true → List.Perm (DemoObj.userEvents h₁) (DemoObj.userEvents h₂) → (DemoObj.run DemoObj.Variant.current s₁ h₁).1.popNames = (DemoObj.run DemoObj.Variant.current s₂ h₂).1.popNames ∧ (DemoObj.run DemoObj.Variant.current s₁ h₁).1.nPops = (DemoObj.run DemoObj.Variant.current s₂ h₂).1.nPops ∧ DemoObj.StableSortOf (DemoObj.run DemoObj.Variant.current s₁ h₁).1.events (DemoObj.userEvents h₁) ∧ DemoObj.StableSortOf (DemoObj.run DemoObj.Variant.current s₂ h₂).1.events (DemoObj.userEvents h₂) ∧ List.Perm (DemoObj.run DemoObj.Variant.current s₁ h₁).1.events (DemoObj.run DemoObj.Variant.current s₂ h₂).1.events ∧ ∀ (a b : DemoObj.Ev N), a ∈ DemoObj.userEvents h₁ → b ∈ DemoObj.userEvents h₁ → a.start < b.start → List.Sublist [a, b] (DemoObj.run DemoObj.Variant.current s₁ h₁).1.events ∧ List.Sublist [a, b] (DemoObj.run DemoObj.Variant.current s₂ h₂).1.events := @PG.DemoObj.popNames_order_independent

/-- Coalescent(n, demography) on an up-to-date object: names complete, lineage dict = sample + zeros, the added PopSizeChanges mentions exactly the sampled names no event mentions, earlier events untouched -/
theorem object_coalescent_init : ∀ {N : Type} [inst : LinearOrder N] (s : DemoObj.State N) (sample : List (N × ℕ)) (newId : ℕ), DemoObj.Fresh s → have r := DemoObj.coalescentInit DemoObj.Variant.current s sample newId; have sampled := List.map (fun x ↦ x.1) sample; (DemoObj.Fresh r.1 ∧ (∀ x ∈ sampled, x ∈ r.1.popNames) ∧ ∀ e ∈ r.1.events, ∀ x ∈ e.names, x ∈ r.1.popNames) ∧ ((∀ (x : N), x ∈ List.map (fun x ↦ x.1) r.2.2 ↔ x ∈ sampled ∨ x ∈ s.popNames) ∧ (∀ (x : N), x ∈ List.map (fun x ↦ x.1) r.2.2 ↔ x ∈ r.1.popNames) ∧ sample <+: r.2.2 ∧ (∀ p ∈ r.2.2, p ∈ sample ∨ p.2 = 0 ∧ p.1 ∉ sampled) ∧ (List.Nodup sampled → List.Nodup (List.map (fun x ↦ x.1) r.2.2))) ∧ ((r.2.1 = none ↔ ∀ x ∈ sampled, ∃ e ∈ s.events, x ∈ e.names) ∧ (r.2.1 = none → r.1 = s) ∧ ∀ (ns : List N), r.2.1 = some ns → (∀ (x : N), x ∈ ns ↔ x ∈ sampled ∧ ∀ e ∈ s.events, x ∉ e.names) ∧ List.Pairwise (fun x1 x2 ↦ x1 < x2) ns ∧ List.Perm r.1.events (s.events ++ [{ id := newId, start := 0, names := ns }])) ∧ List.Sublist s.events r.1.events := @PG.DemoObj.coalescentInit_complete

/-- in every history every Coalescent(...) meets an up-to-date object -/
theorem object_coalescent_init_reachable : ∀ {N : Type} [inst : LinearOrder N] (s₀ : DemoObj.State N) (h : List (DemoObj.Op N)), DemoObj.startsWithNew h = true → DemoObj.Fresh (DemoObj.run DemoObj.Variant.current s₀ h).1 := @PG.DemoObj.coalescentInit_on_fresh

/-- add_event without _prepare_events (a seeded change): pop_names misses a specified population and Coalescent overrides its size -/
theorem object_stale_add_event : (DemoObj.run DemoObj.Variant.staleadd { } DemoObj.staleHistory).2 = [DemoObj.Obs.none, DemoObj.Obs.none, DemoObj.Obs.popNames [] 0] ∧ (∃ e ∈ (DemoObj.run DemoObj.Variant.staleadd { } DemoObj.staleHistory).1.events, 7 ∈ e.names) ∧ (DemoObj.run DemoObj.Variant.current { } DemoObj.staleHistory).2 = [DemoObj.Obs.none, DemoObj.Obs.none, DemoObj.Obs.popNames [7] 1] ∧ (DemoObj.coalescentInit DemoObj.Variant.staleadd (DemoObj.run DemoObj.Variant.staleadd { } DemoObj.staleHistory).1 [(7, 2)] 1).2.1 = some [7] ∧ ¬((DemoObj.coalescentInit DemoObj.Variant.staleadd (DemoObj.run DemoObj.Variant.staleadd { } DemoObj.staleHistory).1 [(7, 2)] 1).2.1 = none ↔ ∀ x ∈ List.map (fun x ↦ x.1) [(7, 2)], ∃ e ∈ (DemoObj.run DemoObj.Variant.staleadd { } DemoObj.staleHistory).1.events, x ∈ e.names) ∧ (DemoObj.coalescentInit DemoObj.Variant.staleadd (DemoObj.run DemoObj.Variant.staleadd { } DemoObj.staleHistory).1 [(7, 2)] 1).1.events = [DemoObj.staleEv, { id := 1, start := 0, names := [7] }] ∧ (DemoObj.coalescentInit DemoObj.Variant.current (DemoObj.run DemoObj.Variant.current { } DemoObj.staleHistory).1 [(7, 2)] 1).2.1 = none := @PG.DemoObj.staleadd_counterexample

/-! ## hand-written part: glue, non-vacuity examples, counterexamples -/
/-- non-vacuity: a schedule with a discrete event and a discretised window tiles [0, ∞) in 6 epochs -/
theorem example_schedule :
    ((epochsUpTo {} [Event.discrete [(0, [(Key.size 0, 2)]), (1/2, [(Key.size 0, 5)])],
                     Event.discretised [([1, 1], 0, some 1, Key.size 1, 1/4)]] 20).map
      fun e => (e.start, e.stop)) =
      [(0, some (1/4)), (1/4, some (1/2)), (1/2, some (3/4)), (3/4, some 1), (1, some (5/4)), (5/4, none)] := by
  decide +kernel

end PG.C05

#print axioms PG.C05.mixed_value_in_force
#print axioms PG.C05.mixed_discretised_mean
#print axioms PG.C05.mixed_terminates
#print axioms PG.C05.mixed_epoch_length
#print axioms PG.C05.mixed_grid_boundaries
#print axioms PG.C05.tiling
#print axioms PG.C05.tiling_WF
#print axioms PG.C05.change_times_are_boundaries
#print axioms PG.C05.value_in_force
#print axioms PG.C05.lookup
#print axioms PG.C05.lookup_boundary
#print axioms PG.C05.sort_stable_perm
#print axioms PG.C05.order_independent_boundaries
#print axioms PG.C05.order_independent_values
#print axioms PG.C05.discretised_mean
#print axioms PG.C05.grid_points
#print axioms PG.C05.split_documented
#print axioms PG.C05.split_pinned
#print axioms PG.C05.historic_broadcast
#print axioms PG.C05.historic_window_end
#print axioms PG.C05.split_orientation
#print axioms PG.C05.grid_point_skipped
#print axioms PG.C05.glue_link
#print axioms PG.C05.schedule_from_input
#print axioms PG.C05.object_invariant
#print axioms PG.C05.object_events_stable_sort
#print axioms PG.C05.object_pop_names
#print axioms PG.C05.object_order_independent
#print axioms PG.C05.object_coalescent_init
#print axioms PG.C05.object_coalescent_init_reachable
#print axioms PG.C05.object_stale_add_event
#print axioms PG.C05.example_schedule
