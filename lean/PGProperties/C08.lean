/-
# C08 — Results do not depend on population naming, listing order or the process

Every statistic, including the per-population marginals and their covariances, is attached to the
population name the user gave: renaming populations consistently, or listing them in a different
order in the sample configuration, the size dictionary or the migration dictionary, yields the same
value for the same named population. The same script returns the same values in every Python process
(no dependence on hash randomisation).

Quantifier: for all permutations of the population order in each input container, all name sets (sorted or not),
sample configurations that omit unsampled populations, and all PYTHONHASHSEED values

Proved: relabelling states by any bijection leaves every moment and cdf unchanged (perm_accum /
perm_cdf, E_reindex); the labelled generator is invariant under permutation of particles; deme
rewards sum to one. The code model `transit` is equivariant under permutation of the deme axis
(transit_lineage_equivariant) and the moments / cdf on the BFS graphs the code builds are invariant
(C08_moments_perm, C08_cdf_perm); the input glue from the user's containers to the axis is modelled
and proved for every listing order, omission of unsampled demes and every iteration order of the
Python set (ConfigThm). Hash-seed independence of the real interpreter is exercised.

This file restates the theorems the property rests on (full statements; proofs are in PGProofs/).
Generated once by harness/mkprops.py from harness/props_table.py + PGProperties/extra/C08.lean.in; committed as source.
-/
import PGProofs.DemePerm
import PGProofs.VanLoan
import PGProofs.RewardsThm
import PGProofs.Labelled
import PGProofs.ConfigThm
import PGProofs.EndToEnd
import PGProofs.EndToEnd3

set_option linter.all false
set_option pp.fieldNotation.generalized false

namespace PG.C08
open PG

/-- HEADLINE: on the BFS graphs the code builds, listing the demes in a different order (sample vector, time scales, migration matrix permuted consistently) gives the same moment for rewards transported by name -/
theorem moments_perm : ∀ {D : ℕ} {K : Type} [inst : Field K] [inst_1 : LinearOrder K] [inst_2 : IsStrictOrderedRing K] (σ : Equiv.Perm (Fin D)) {m : Model} {cinit cinit' : Fin D → ℕ} {ts : ℕ → Fin D → ℚ} {mig : ℕ → Fin D → Fin D → ℚ} {r r' : ℕ → ℚ} {fuel fuel' : ℕ → ℕ} {G G' : ℕ → Graph}, (∀ (e : ℕ), bfs (transit m (mkEpoch (ts e) (mig e) (r e))) (encLC cinit) (fuel e) = some (G e)) → (∀ (e : ℕ), bfs (transit m (mkEpoch (DemePerm.permTs σ (ts e)) (DemePerm.permMig σ (mig e)) (r' e))) (encLC cinit') (fuel' e) = some (G' e)) → ∑ d, cinit' d = ∑ d, cinit d → ∀ (L : ExpLaw K) (n : ℕ) {k : ℕ} (rs rs' : Fin k → Reward), (∀ (a : Fin k) (c : Fin D → ℕ), Reward.eval n (encLC (DemePerm.permC σ c)) (rs' a) = Reward.eval n (encLC c) (rs a)) → ∀ (c0 : Fin D → ℕ), ∑ d, c0 d = ∑ d, cinit d → ∀ (fs : List (ℕ × K)), accumVal L (fun e ↦ Matrix.map (Assembly.codeMat G' e) fun q ↦ ↑q) (fun a j ↦ ↑(Reward.eval n (G' 0).visited[j] (rs' a))) (fun j ↦ ↑(List.getD (alphaVec (G' 0).visited (List.ofFn (DemePerm.permC σ c0)) 1 0) (↑j) 0)) fs = accumVal L (fun e ↦ Matrix.map (Assembly.codeMat G e) fun q ↦ ↑q) (fun a i ↦ ↑(Reward.eval n (G 0).visited[i] (rs a))) (fun i ↦ ↑(List.getD (alphaVec (G 0).visited (List.ofFn c0) 1 0) (↑i) 0)) fs := @PG.DemePerm.C08_moments_perm

/-- same for the cdf -/
theorem cdf_perm : ∀ {D : ℕ} {K : Type} [inst : Field K] [inst_1 : LinearOrder K] [inst_2 : IsStrictOrderedRing K] (σ : Equiv.Perm (Fin D)) {m : Model} {cinit cinit' : Fin D → ℕ} {ts : ℕ → Fin D → ℚ} {mig : ℕ → Fin D → Fin D → ℚ} {r r' : ℕ → ℚ} {fuel fuel' : ℕ → ℕ} {G G' : ℕ → Graph}, (∀ (e : ℕ), bfs (transit m (mkEpoch (ts e) (mig e) (r e))) (encLC cinit) (fuel e) = some (G e)) → (∀ (e : ℕ), bfs (transit m (mkEpoch (DemePerm.permTs σ (ts e)) (DemePerm.permMig σ (mig e)) (r' e))) (encLC cinit') (fuel' e) = some (G' e)) → ∑ d, cinit' d = ∑ d, cinit d → ∀ (L : ExpLaw K) (n : ℕ) (c0 : Fin D → ℕ), ∑ d, c0 d = ∑ d, cinit d → ∀ (fs : List (ℕ × K)), cdfVal L (fun e ↦ Matrix.map (Assembly.codeMat G' e) fun q ↦ ↑q) (fun j ↦ ↑(List.getD (alphaVec (G' 0).visited (List.ofFn (DemePerm.permC σ c0)) 1 0) (↑j) 0)) (fun j ↦ ↑(Reward.eval n (G' 0).visited[j] Reward.treeHeight)) fs = cdfVal L (fun e ↦ Matrix.map (Assembly.codeMat G e) fun q ↦ ↑q) (fun i ↦ ↑(List.getD (alphaVec (G 0).visited (List.ofFn c0) 1 0) (↑i) 0)) (fun i ↦ ↑(Reward.eval n (G 0).visited[i] Reward.treeHeight)) fs := @PG.DemePerm.C08_cdf_perm

/-- per-deme rewards addressed by the permuted axis index give the same moments -/
theorem deme_marginals_perm : ∀ {D : ℕ} {K : Type} [inst : Field K] [inst_1 : LinearOrder K] [inst_2 : IsStrictOrderedRing K] (σ : Equiv.Perm (Fin D)) {m : Model} {cinit cinit' : Fin D → ℕ} {ts : ℕ → Fin D → ℚ} {mig : ℕ → Fin D → Fin D → ℚ} {r r' : ℕ → ℚ} {fuel fuel' : ℕ → ℕ} {G G' : ℕ → Graph}, (∀ (e : ℕ), bfs (transit m (mkEpoch (ts e) (mig e) (r e))) (encLC cinit) (fuel e) = some (G e)) → (∀ (e : ℕ), bfs (transit m (mkEpoch (DemePerm.permTs σ (ts e)) (DemePerm.permMig σ (mig e)) (r' e))) (encLC cinit') (fuel' e) = some (G' e)) → ∑ d, cinit' d = ∑ d, cinit d → ∀ (L : ExpLaw K) (n : ℕ) {k : ℕ} (q : Fin k → Fin D) (c0 : Fin D → ℕ), ∑ d, c0 d = ∑ d, cinit d → ∀ (fs : List (ℕ × K)), accumVal L (fun e ↦ Matrix.map (Assembly.codeMat G' e) fun q ↦ ↑q) (fun a j ↦ ↑(Reward.eval n (G' 0).visited[j] (Reward.deme ↑(σ (q a))))) (fun j ↦ ↑(List.getD (alphaVec (G' 0).visited (List.ofFn (DemePerm.permC σ c0)) 1 0) (↑j) 0)) fs = accumVal L (fun e ↦ Matrix.map (Assembly.codeMat G e) fun q ↦ ↑q) (fun a i ↦ ↑(Reward.eval n (G 0).visited[i] (Reward.deme ↑(q a)))) (fun i ↦ ↑(List.getD (alphaVec (G 0).visited (List.ofFn c0) 1 0) (↑i) 0)) fs := @PG.DemePerm.C08_moments_deme

/-- the lineage-counting generator commutes with relabelling of demes -/
theorem generator_equivariant : ∀ {D : ℕ} {K : Type u_1} [inst : Field K] (σ : Equiv.Perm (Fin D)) (lam : ℕ → ℕ → K) (ts : Fin D → K) (mig : Fin D → Fin D → K) (g : (Fin D → ℕ) → K) (c : Fin D → ℕ), QCs (linRate lam ts mig) linRes (fun c' ↦ g (DemePerm.permC σ c')) c = QCs (linRate lam (DemePerm.permTs σ ts) (DemePerm.permMig σ mig)) linRes g (DemePerm.permC σ c) := @PG.DemePerm.lineage_equivariant

/-- the block-counting generator commutes with relabelling of demes -/
theorem generator_equivariant_block : ∀ {D n : ℕ} [inst : NeZero n] {K : Type u_1} [inst_1 : Field K] (σ : Equiv.Perm (Fin D)) (lam : ℕ → ℕ → K) (ts : Fin D → K) (mig : Fin D → Fin D → K) (g : (Fin D × Fin n → ℕ) → K) (c : Fin D × Fin n → ℕ), QCs (blkRate lam ts mig) blkRes (fun c' ↦ g (DemePerm.permB σ c')) c = QCs (blkRate lam (DemePerm.permTs σ ts) (DemePerm.permMig σ mig)) blkRes g (DemePerm.permB σ c) := @PG.DemePerm.block_equivariant

/-- the code model `transit` commutes with relabelling of demes -/
theorem transit_equivariant : ∀ {D : ℕ} (σ : Equiv.Perm (Fin D)) (m : Model) (ts : Fin D → ℚ) (mig : Fin D → Fin D → ℚ) (r : ℚ) (c : Fin D → ℕ) (g g' : State → ℚ), (∀ (c' : Fin D → ℕ), g' (encLC (DemePerm.permC σ c')) = g (encLC c')) → genOf (transit m (mkEpoch (DemePerm.permTs σ ts) (DemePerm.permMig σ mig) r) (encLC (DemePerm.permC σ c))) g' (encLC (DemePerm.permC σ c)) = genOf (transit m (mkEpoch ts mig r) (encLC c)) g (encLC c) := @PG.DemePerm.transit_lineage_equivariant

/-- SFS rewards (sums over demes) are invariant -/
theorem sfs_perm : ∀ {K : Type} [inst : Field K] [inst_1 : LinearOrder K] [inst_2 : IsStrictOrderedRing K] {ι : Type} [inst_3 : Fintype ι] [inst_4 : DecidableEq ι] {ι' : Type} [inst_5 : Fintype ι'] [inst_6 : DecidableEq ι'] {k : ℕ} (L : ExpLaw K) {D n : ℕ} [inst_7 : NeZero n] (σ : Equiv.Perm (Fin D)) (lam : ℕ → ℕ → K) (ts : ℕ → Fin D → K) (mig : ℕ → Fin D → Fin D → K) (dec : ι → Fin D × Fin n → ℕ) (dec' : ι' → Fin D × Fin n → ℕ) (S : ℕ → Matrix ι ι K) (S' : ℕ → Matrix ι' ι' K), Function.Injective dec' → (∀ (e : ℕ) (f : (Fin D × Fin n → ℕ) → K) (i : ι), ∑ j, S e i j * f (dec j) = QCs (blkRate lam (ts e) (mig e)) blkRes f (dec i)) → (∀ (e : ℕ) (f : (Fin D × Fin n → ℕ) → K) (i : ι'), ∑ j, S' e i j * f (dec' j) = QCs (blkRate lam (DemePerm.permTs σ (ts e)) (DemePerm.permMig σ (mig e))) blkRes f (dec' i)) → ∀ (p : ι → ι'), (∀ (i : ι), dec' (p i) = DemePerm.permB σ (dec i)) → ∀ (hb : Fin k → (Fin n → ℕ) → K) (α : ι → K) (fs : List (ℕ × K)), accumVal L S' (fun a j ↦ hb a fun i ↦ ∑ d, dec' j (d, i)) (Matrix.vecMul α (Marginal.projMat p)) fs = accumVal L S (fun a x ↦ hb a fun i ↦ ∑ d, dec x (d, i)) α fs := @PG.DemePerm.demePerm_moments_sfs

/-- pre-fix DemeReward: looking the name up in the sorted list while the axis follows the sample dict returns the other deme -/
theorem sorted_name_lookup_defect : Reward.eval 4 DemePerm.sDefect (Reward.deme (DemePerm.axisOf 'b')) = 3 / 4 ∧ Reward.eval 4 DemePerm.sDefect (Reward.deme (DemePerm.sortedIdxOf 'b')) = 1 / 4 ∧ Reward.eval 4 DemePerm.sDefect (Reward.deme (DemePerm.sortedIdxOf 'b')) = Reward.eval 4 DemePerm.sDefect (Reward.deme (DemePerm.axisOf 'a')) ∧ Reward.eval 4 DemePerm.sDefect (Reward.deme (DemePerm.sortedIdxOf 'b')) ≠ Reward.eval 4 DemePerm.sDefect (Reward.deme (DemePerm.axisOf 'b')) := @PG.DemePerm.defect_counterexample

/-- moments are invariant under a bijective relabelling of states -/
theorem relabel_moments : ∀ {K : Type} [inst : Field K] [inst_1 : LinearOrder K] [inst_2 : IsStrictOrderedRing K] {ι : Type} [inst_3 : Fintype ι] [inst_4 : DecidableEq ι] {ι' : Type} [inst_5 : Fintype ι'] [inst_6 : DecidableEq ι'] {k : ℕ} (L : ExpLaw K) (σ : ι ≃ ι') (S : ℕ → Matrix ι ι K) (R : Fin k → ι → K) (α : ι → K) (fs : List (ℕ × K)), accumVal L (fun e ↦ (Matrix.reindex σ σ) (S e)) (fun a x ↦ R a ((Equiv.symm σ) x)) (fun x ↦ α ((Equiv.symm σ) x)) fs = accumVal L S R α fs := @PG.perm_accum

/-- cdf likewise -/
theorem relabel_cdf : ∀ {K : Type} [inst : Field K] [inst_1 : LinearOrder K] [inst_2 : IsStrictOrderedRing K] {ι : Type} [inst_3 : Fintype ι] [inst_4 : DecidableEq ι] {ι' : Type} [inst_5 : Fintype ι'] [inst_6 : DecidableEq ι'] (L : ExpLaw K) (σ : ι ≃ ι') (S : ℕ → Matrix ι ι K) (α exitVec : ι → K) (fs : List (ℕ × K)), cdfVal L (fun e ↦ (Matrix.reindex σ σ) (S e)) (fun x ↦ α ((Equiv.symm σ) x)) (fun x ↦ exitVec ((Equiv.symm σ) x)) fs = cdfVal L S α exitVec fs := @PG.perm_cdf

/-- the exponential commutes with reindexing -/
theorem exp_reindex : ∀ {K : Type} [inst : Field K] [inst_1 : LinearOrder K] [inst_2 : IsStrictOrderedRing K] (L : ExpLaw K) {ι κ : Type} [inst_3 : Fintype ι] [inst_4 : DecidableEq ι] [inst_5 : Fintype κ] [inst_6 : DecidableEq κ] (A : Matrix ι ι K) (σ : ι ≃ κ), L.E ((Matrix.reindex σ σ) A) = (Matrix.reindex σ σ) (L.E A) := @PG.ExpLaw.E_reindex

/-- the labelled generator ignores the order of particles -/
theorem particle_order_irrelevant : ∀ {T : Type u_1} [inst : DecidableEq T] [Fintype T] {K : Type u_2} [inst_2 : CommRing K] {ε : Type u_3} [inst_3 : Fintype ε] (rate : ε → (T → ℕ) → (T → ℕ) → K) (res : ε → (T → ℕ) → T → ℕ) (g : (T → ℕ) → K) {x y : List T}, List.Perm x y → QLs rate res g x = QLs rate res g y := @PG.QLs_perm

/-- per-deme fractions sum to one -/
theorem deme_rewards_sum_one : ∀ (n : ℕ) (s : State) (D : ℕ), 0 < State.total s → (∀ l < State.nLoci s, List.length (List.getD s.lin l []) = D) → ∑ d ∈ Finset.range D, Reward.eval n s (Reward.deme d) = 1 := @PG.deme_rewards_sum_one

/-- INPUT GLUE: position i of the size vector, migration matrix, initial vector and DemeReward index built from the user's containers is about the population NAMED axis[i] (any shapes, unsorted names, unsampled demes appended in ANY set order) -/
theorem glue_named_semantics : ∀ (I : Config.Input) (t : ℚ), List.Nodup (Config.Input.linNames I) → Config.ValidSetOrder I → Config.NamedSemantics Config.Variant.current I t := @PG.Config.config_named_semantics

/-- listing the populations in another order in the sample dict / size dict / migration dict, listing unsampled ones with 0 or omitting them, any set iteration order: the tables are the name-matching permutation (permTs / permMig / permC) of each other -/
theorem glue_listing_order : ∀ (I I' : Config.Input), List.Nodup (Config.Input.linNames I) → Config.ValidSetOrder I → List.Nodup (Config.Input.linNames I') → Config.ValidSetOrder I' → List.Perm I'.sizes I.sizes → List.Nodup (List.map (fun x ↦ x.1) I.sizes) → List.Perm I'.mig I.mig → List.Nodup (List.map (fun x ↦ x.1) I.mig) → List.Perm (List.filter (fun e ↦ decide (e.2 ≠ 0)) (Config.NInput.toDict I'.n)) (List.filter (fun e ↦ decide (e.2 ≠ 0)) (Config.NInput.toDict I.n)) → (∀ p ∈ Config.Input.linNames I, Config.nOf I p = 0 → p ∈ Config.Input.linNames I' ∨ p ∈ Config.rawDemNames I.sizes I.mig) → (∀ p ∈ Config.Input.linNames I', Config.nOf I' p = 0 → p ∈ Config.Input.linNames I ∨ p ∈ Config.rawDemNames I.sizes I.mig) → List.length (Config.axis I') = List.length (Config.axis I) ∧ ∃ σ, (∀ (i : Fin (List.length (Config.axis I))), ↑(σ i) = List.idxOf (Config.axis I)[i] (Config.axis I') ∧ (Config.axis I')[↑(σ i)]? = some (Config.axis I)[i]) ∧ (∀ (t : ℚ), Config.sizesFn Config.Variant.current I' t (List.length (Config.axis I)) = DemePerm.permTs σ (Config.sizesFn Config.Variant.current I t (List.length (Config.axis I)))) ∧ (∀ (t : ℚ), Config.migFn Config.Variant.current I' t (List.length (Config.axis I)) = DemePerm.permMig σ (Config.migFn Config.Variant.current I t (List.length (Config.axis I)))) ∧ Config.initFn I' (List.length (Config.axis I)) = DemePerm.permC σ (Config.initFn I (List.length (Config.axis I))) ∧ ∀ (i : Fin (List.length (Config.axis I))), Config.demeIndex Config.Variant.current I (Config.axis I)[i] = ↑i ∧ Config.demeIndex Config.Variant.current I' (Config.axis I)[i] = ↑(σ i) := @PG.Config.config_listing_order_irrelevant

/-- a consistent injective renaming yields the name-matching permutation of the same tables (sorting may move the axis) -/
theorem glue_rename : ∀ (I : Config.Input) (ρ : Config.Name → Config.Name), Function.Injective ρ → ∀ (so' : List Config.Name), List.Nodup (Config.Input.linNames I) → Config.ValidSetOrder I → Config.ValidSetOrder (Config.renameInput ρ I so') → List.length (Config.axis (Config.renameInput ρ I so')) = List.length (Config.axis I) ∧ ∃ σ, (∀ (i : Fin (List.length (Config.axis I))), ↑(σ i) = List.idxOf (ρ (Config.axis I)[i]) (Config.axis (Config.renameInput ρ I so')) ∧ (Config.axis (Config.renameInput ρ I so'))[↑(σ i)]? = some (ρ (Config.axis I)[i])) ∧ (∀ (t : ℚ), Config.sizesFn Config.Variant.current (Config.renameInput ρ I so') t (List.length (Config.axis I)) = DemePerm.permTs σ (Config.sizesFn Config.Variant.current I t (List.length (Config.axis I)))) ∧ (∀ (t : ℚ), Config.migFn Config.Variant.current (Config.renameInput ρ I so') t (List.length (Config.axis I)) = DemePerm.permMig σ (Config.migFn Config.Variant.current I t (List.length (Config.axis I)))) ∧ Config.initFn (Config.renameInput ρ I so') (List.length (Config.axis I)) = DemePerm.permC σ (Config.initFn I (List.length (Config.axis I))) ∧ ∀ (i : Fin (List.length (Config.axis I))), Config.demeIndex Config.Variant.current I (Config.axis I)[i] = ↑i ∧ Config.demeIndex Config.Variant.current (Config.renameInput ρ I so') (ρ (Config.axis I)[i]) = ↑(σ i) := @PG.Config.config_rename_equivariant

/-- the values attached to a name do not depend on the iteration order of the Python set of unsampled names -/
theorem glue_hash_independent : ∀ (I : Config.Input) (so so' : List Config.Name) (t : ℚ), List.Nodup (Config.Input.linNames I) → Config.ValidSetOrder { n := I.n, sizes := I.sizes, mig := I.mig, setOrder := so } → Config.ValidSetOrder { n := I.n, sizes := I.sizes, mig := I.mig, setOrder := so' } → (∀ (p : Config.Name), p ∈ Config.axis { n := I.n, sizes := I.sizes, mig := I.mig, setOrder := so } ↔ p ∈ Config.axis { n := I.n, sizes := I.sizes, mig := I.mig, setOrder := so' }) ∧ ∀ p ∈ Config.axis { n := I.n, sizes := I.sizes, mig := I.mig, setOrder := so }, List.getD (Config.epochTable Config.Variant.current { n := I.n, sizes := I.sizes, mig := I.mig, setOrder := so } t).1 (Config.demeIndex Config.Variant.current { n := I.n, sizes := I.sizes, mig := I.mig, setOrder := so } p) 0 = List.getD (Config.epochTable Config.Variant.current { n := I.n, sizes := I.sizes, mig := I.mig, setOrder := so' } t).1 (Config.demeIndex Config.Variant.current { n := I.n, sizes := I.sizes, mig := I.mig, setOrder := so' } p) 0 ∧ (∀ q ∈ Config.axis { n := I.n, sizes := I.sizes, mig := I.mig, setOrder := so }, List.getD (List.getD (Config.epochTable Config.Variant.current { n := I.n, sizes := I.sizes, mig := I.mig, setOrder := so } t).2 (Config.demeIndex Config.Variant.current { n := I.n, sizes := I.sizes, mig := I.mig, setOrder := so } p) []) (Config.demeIndex Config.Variant.current { n := I.n, sizes := I.sizes, mig := I.mig, setOrder := so } q) 0 = List.getD (List.getD (Config.epochTable Config.Variant.current { n := I.n, sizes := I.sizes, mig := I.mig, setOrder := so' } t).2 (Config.demeIndex Config.Variant.current { n := I.n, sizes := I.sizes, mig := I.mig, setOrder := so' } p) []) (Config.demeIndex Config.Variant.current { n := I.n, sizes := I.sizes, mig := I.mig, setOrder := so' } q) 0) ∧ List.getD (Config.initVec { n := I.n, sizes := I.sizes, mig := I.mig, setOrder := so }) (Config.demeIndex Config.Variant.current { n := I.n, sizes := I.sizes, mig := I.mig, setOrder := so } p) 0 = List.getD (Config.initVec { n := I.n, sizes := I.sizes, mig := I.mig, setOrder := so' }) (Config.demeIndex Config.Variant.current { n := I.n, sizes := I.sizes, mig := I.mig, setOrder := so' } p) 0 := @PG.Config.config_hash_independent

/-- glue + state level composed: moments of DemeReward(name) built from two listings of the same named input are equal (instantiates C08_moments_deme) -/
theorem glue_to_moments : ∀ {K : Type} [inst : Field K] [inst_1 : LinearOrder K] [inst_2 : IsStrictOrderedRing K] (I I' : Config.Input), List.Nodup (Config.Input.linNames I) → Config.ValidSetOrder I → List.Nodup (Config.Input.linNames I') → Config.ValidSetOrder I' → List.Perm I'.sizes I.sizes → List.Nodup (List.map (fun x ↦ x.1) I.sizes) → List.Perm I'.mig I.mig → List.Nodup (List.map (fun x ↦ x.1) I.mig) → List.Perm (List.filter (fun e ↦ decide (e.2 ≠ 0)) (Config.NInput.toDict I'.n)) (List.filter (fun e ↦ decide (e.2 ≠ 0)) (Config.NInput.toDict I.n)) → (∀ p ∈ Config.Input.linNames I, Config.nOf I p = 0 → p ∈ Config.Input.linNames I' ∨ p ∈ Config.rawDemNames I.sizes I.mig) → (∀ p ∈ Config.Input.linNames I', Config.nOf I' p = 0 → p ∈ Config.Input.linNames I ∨ p ∈ Config.rawDemNames I.sizes I.mig) → ∀ {m : Model} (tsOf : ℚ → ℚ) (te : ℕ → ℚ) {cinit cinit' : Fin (List.length (Config.axis I)) → ℕ} {r r' : ℕ → ℚ} {fuel fuel' : ℕ → ℕ} {G G' : ℕ → Graph}, (∀ (e : ℕ), bfs (transit m (mkEpoch (fun d ↦ tsOf (Config.sizesFn Config.Variant.current I (te e) (List.length (Config.axis I)) d)) (Config.migFn Config.Variant.current I (te e) (List.length (Config.axis I))) (r e))) (encLC cinit) (fuel e) = some (G e)) → (∀ (e : ℕ), bfs (transit m (mkEpoch (fun d ↦ tsOf (Config.sizesFn Config.Variant.current I' (te e) (List.length (Config.axis I)) d)) (Config.migFn Config.Variant.current I' (te e) (List.length (Config.axis I))) (r' e))) (encLC cinit') (fuel' e) = some (G' e)) → ∑ d, cinit' d = ∑ d, cinit d → ∀ (L : ExpLaw K) (n : ℕ) {k : ℕ} (names : Fin k → Config.Name), (∀ (a : Fin k), names a ∈ Config.axis I) → ∑ d, Config.initFn I (List.length (Config.axis I)) d = ∑ d, cinit d → ∀ (fs : List (ℕ × K)), accumVal L (fun e ↦ Matrix.map (Assembly.codeMat G' e) fun q ↦ ↑q) (fun a j ↦ ↑(Reward.eval n (G' 0).visited[j] (Reward.deme (Config.demeIndex Config.Variant.current I' (names a))))) (fun j ↦ ↑(List.getD (alphaVec (G' 0).visited (List.ofFn (Config.initFn I' (List.length (Config.axis I)))) 1 0) (↑j) 0)) fs = accumVal L (fun e ↦ Matrix.map (Assembly.codeMat G e) fun q ↦ ↑q) (fun a i ↦ ↑(Reward.eval n (G 0).visited[i] (Reward.deme (Config.demeIndex Config.Variant.current I (names a))))) (fun i ↦ ↑(List.getD (alphaVec (G 0).visited (List.ofFn (Config.initFn I (List.length (Config.axis I)))) 1 0) (↑i) 0)) fs := @PG.Config.config_moments_listing_order_irrelevant

/-- kernel-checked: looking sizes up by dict position attaches them to the wrong name -/
theorem glue_sizes_by_dict_order_defect : ¬Config.NamedSemantics Config.Variant.sizesByDictOrder Config.exInput 0 ∧ (Config.epochTable Config.Variant.sizesByDictOrder Config.exInput 0).1 = [7, 2, 5, 3] ∧ (Config.epochTable Config.Variant.sizesByDictOrder Config.exInput 0).1[0]? ≠ some (Config.sizeAt Config.exInput.sizes "pop_10" 0) := @PG.Config.sizesByDictOrder_violates

/-- kernel-checked: indexing the sorted epoch names in migrate_unlinked attaches rates to the wrong pair -/
theorem glue_mig_by_sorted_names_defect : ¬Config.NamedSemantics Config.Variant.migBySortedNames Config.exInput 0 ∧ (Config.epochTable Config.Variant.migBySortedNames Config.exInput 0).2 = [[0, 0, 0, 1 / 2], [0, 0, 1 / 5, 0], [1 / 3, 0, 0, 0], [0, 0, 0, 0]] ∧ (Option.bind (Config.epochTable Config.Variant.migBySortedNames Config.exInput 0).2[0]? fun x ↦ x[1]?) ≠ some (Config.rateAt Config.exInput.mig ("pop_10", "B") 0) := @PG.Config.migBySortedNames_violates

/-- kernel-checked: the pre-fix DemeReward lookup -/
theorem glue_deme_reward_sorted_defect : ¬Config.NamedSemantics Config.Variant.demeRewardBySortedNames Config.exInput 0 ∧ Config.demeIndex Config.Variant.demeRewardBySortedNames Config.exInput "pop_10" = 2 ∧ Config.demeIndex Config.Variant.current Config.exInput "pop_10" = 0 := @PG.Config.demeRewardBySortedNames_violates

/-- a 4-deme instance with unsorted names and two omitted populations satisfies the hypotheses and the conclusion -/
theorem glue_nonvacuous : Config.NamedSemantics Config.Variant.current Config.exInput 0 ∧ Config.NamedSemantics Config.Variant.current Config.exInput (3 / 2) ∧ Config.NamedSemantics Config.Variant.current Config.exInput (5 / 2) := @PG.Config.exInput_current_ok

/-- CAPSTONE: two listings of the same named input (any order in each container, unsampled demes listed or omitted, any set order) make moment(...) return the same value for rewards given BY NAME, for every call and call-layer variant, exceptions included -/
theorem end_to_end_named : ∀ {K : Type} [inst : Field K] [inst_1 : LinearOrder K] [inst_2 : IsStrictOrderedRing K] (I I' : Config.Input), List.Nodup (Config.Input.linNames I) → Config.ValidSetOrder I → List.Nodup (Config.Input.linNames I') → Config.ValidSetOrder I' → List.Perm I'.sizes I.sizes → List.Nodup (List.map (fun x ↦ x.1) I.sizes) → List.Perm I'.mig I.mig → List.Nodup (List.map (fun x ↦ x.1) I.mig) → List.Perm (List.filter (fun e ↦ decide (e.2 ≠ 0)) (Config.NInput.toDict I'.n)) (List.filter (fun e ↦ decide (e.2 ≠ 0)) (Config.NInput.toDict I.n)) → (∀ p ∈ Config.Input.linNames I, Config.nOf I p = 0 → p ∈ Config.Input.linNames I' ∨ p ∈ Config.rawDemNames I.sizes I.mig) → (∀ p ∈ Config.Input.linNames I', Config.nOf I' p = 0 → p ∈ Config.Input.linNames I ∨ p ∈ Config.rawDemNames I.sizes I.mig) → ∀ {m : Model} (tsOf : ℚ → ℚ) (te : ℕ → ℚ) {cinit cinit' : Fin (List.length (Config.axis I)) → ℕ} {r r' : ℕ → ℚ} {fuel fuel' : ℕ → ℕ} {G G' : ℕ → Graph}, (∀ (e : ℕ), bfs (transit m (mkEpoch (fun d ↦ tsOf (Config.sizesFn Config.Variant.current I (te e) (List.length (Config.axis I)) d)) (Config.migFn Config.Variant.current I (te e) (List.length (Config.axis I))) (r e))) (encLC cinit) (fuel e) = some (G e)) → (∀ (e : ℕ), bfs (transit m (mkEpoch (fun d ↦ tsOf (Config.sizesFn Config.Variant.current I' (te e) (List.length (Config.axis I)) d)) (Config.migFn Config.Variant.current I' (te e) (List.length (Config.axis I))) (r' e))) (encLC cinit') (fuel' e) = some (G' e)) → ∑ d, cinit' d = ∑ d, cinit d → ∀ (L : ExpLaw K) (n : ℕ), ∑ d, Config.initFn I (List.length (Config.axis I)) d = ∑ d, cinit d → ∀ (eps : List EpochT) (dr : EndToEnd.NamedReward) (sd tm : ℚ) (v : Api.Variant) (c : Api.MomentCall EndToEnd.NamedReward), EndToEnd.NamedReward.OnAxis I dr → (∀ (rs : List EndToEnd.NamedReward), c.rewards = some rs → ∀ nr ∈ rs, EndToEnd.NamedReward.OnAxis I nr) → EndToEnd.momentCallK v (EndToEnd.codeCtx L G' n (Config.initFn I' (List.length (Config.axis I))) eps (EndToEnd.NamedReward.resolve I' dr) sd tm) (EndToEnd.mapRewards (EndToEnd.NamedReward.resolve I') c) = EndToEnd.momentCallK v (EndToEnd.codeCtx L G n (Config.initFn I (List.length (Config.axis I))) eps (EndToEnd.NamedReward.resolve I dr) sd tm) (EndToEnd.mapRewards (EndToEnd.NamedReward.resolve I) c) := @PG.EndToEnd.moment_call_named_invariant

/-- and that value is the labelled-process combination for the first listing -/
theorem end_to_end_named_labelled : type_of% @PG.EndToEnd.moment_call_named_eq_labelled := @PG.EndToEnd.moment_call_named_eq_labelled   -- (printed statement does not re-elaborate; see the source lemma)

/-- a concrete two-deme instance with every dict reversed -/
theorem end_to_end_named_instance : ∀ {K : Type} [inst : Field K] [inst_1 : LinearOrder K] [inst_2 : IsStrictOrderedRing K] (L : ExpLaw K) (n : ℕ) (eps : List EpochT) (sd tm : ℚ) (v : Api.Variant), EndToEnd.momentCallK v (EndToEnd.codeCtx L (fun x ↦ EndToEnd.exGI EndToEnd.exI') n (Config.initFn EndToEnd.exI' (List.length (Config.axis EndToEnd.exI))) eps (EndToEnd.NamedReward.resolve EndToEnd.exI' EndToEnd.NamedReward.treeHeight) sd tm) (EndToEnd.mapRewards (EndToEnd.NamedReward.resolve EndToEnd.exI') { k := 2, rewards := some [EndToEnd.NamedReward.deme "a", EndToEnd.NamedReward.treeHeight] }) = EndToEnd.momentCallK v (EndToEnd.codeCtx L (fun x ↦ EndToEnd.exGI EndToEnd.exI) n (Config.initFn EndToEnd.exI (List.length (Config.axis EndToEnd.exI))) eps (EndToEnd.NamedReward.resolve EndToEnd.exI EndToEnd.NamedReward.treeHeight) sd tm) (EndToEnd.mapRewards (EndToEnd.NamedReward.resolve EndToEnd.exI) { k := 2, rewards := some [EndToEnd.NamedReward.deme "a", EndToEnd.NamedReward.treeHeight] }) := @PG.EndToEnd.named_invariant_instance

/-- CAPSTONE: both listings driven by the epoch generator: a re-listed input generates literally the same event list (Relisted.toEvents_eq), the same epoch boundaries and name-permuted tables, and moment(...) returns the same value for rewards given by name -/
theorem end_to_end_named_both_runs : ∀ {K : Type} [inst : Field K] [inst_1 : LinearOrder K] [inst_2 : IsStrictOrderedRing K] (I I' : Config.Input), EndToEnd.Relisted I I' → EndToEnd.DictInput I → Config.ValidSetOrder I → Config.ValidSetOrder I' → ∀ (o : DemoOpts) (count : ℕ), List.length (changeTimes (EndToEnd.toEvents I)) < count → ∀ {m : Model} (tsOf : ℚ → ℚ) {cinit cinit' : Fin (List.length (Config.axis I)) → ℕ} {r r' : ℕ → ℚ} {fuel fuel' : ℕ → ℕ} {G G' : ℕ → Graph}, (∀ (e : ℕ), bfs (transit m (mkEpoch (EndToEnd.demoTs tsOf I (EndToEnd.demoEpochs o I count) (List.length (Config.axis I)) e) (EndToEnd.demoMig I (EndToEnd.demoEpochs o I count) (List.length (Config.axis I)) e) (r e))) (encLC cinit) (fuel e) = some (G e)) → (∀ (e : ℕ), bfs (transit m (mkEpoch (EndToEnd.demoTs tsOf I' (EndToEnd.demoEpochs o I' count) (List.length (Config.axis I)) e) (EndToEnd.demoMig I' (EndToEnd.demoEpochs o I' count) (List.length (Config.axis I)) e) (r' e))) (encLC cinit') (fuel' e) = some (G' e)) → ∑ d, cinit' d = ∑ d, cinit d → ∀ (L : ExpLaw K) (n : ℕ), ∑ d, Config.initFn I (List.length (Config.axis I)) d = ∑ d, cinit d → ∀ (dr : EndToEnd.NamedReward) (sd tm : ℚ) (v : Api.Variant) (c : Api.MomentCall EndToEnd.NamedReward), EndToEnd.NamedReward.OnAxis I dr → (∀ (rs : List EndToEnd.NamedReward), c.rewards = some rs → ∀ nr ∈ rs, EndToEnd.NamedReward.OnAxis I nr) → EndToEnd.momentCallK v (EndToEnd.codeCtx L G' n (Config.initFn I' (List.length (Config.axis I))) (List.map Epoch.toT (EndToEnd.demoEpochs o I' count)) (EndToEnd.NamedReward.resolve I' dr) sd tm) (EndToEnd.mapRewards (EndToEnd.NamedReward.resolve I') c) = EndToEnd.momentCallK v (EndToEnd.codeCtx L G n (Config.initFn I (List.length (Config.axis I))) (List.map Epoch.toT (EndToEnd.demoEpochs o I count)) (EndToEnd.NamedReward.resolve I dr) sd tm) (EndToEnd.mapRewards (EndToEnd.NamedReward.resolve I) c) := @PG.EndToEnd.named_invariant_both_runs_with_demography

/-- listing order, omission of unsampled demes and set order do not change the translated event list -/
theorem relisted_same_events : ∀ {I I' : Config.Input}, EndToEnd.Relisted I I' → EndToEnd.toEvents I' = EndToEnd.toEvents I := @PG.EndToEnd.Relisted.toEvents_eq

end PG.C08

#print axioms PG.C08.moments_perm
#print axioms PG.C08.cdf_perm
#print axioms PG.C08.deme_marginals_perm
#print axioms PG.C08.generator_equivariant
#print axioms PG.C08.generator_equivariant_block
#print axioms PG.C08.transit_equivariant
#print axioms PG.C08.sfs_perm
#print axioms PG.C08.sorted_name_lookup_defect
#print axioms PG.C08.relabel_moments
#print axioms PG.C08.relabel_cdf
#print axioms PG.C08.exp_reindex
#print axioms PG.C08.particle_order_irrelevant
#print axioms PG.C08.deme_rewards_sum_one
#print axioms PG.C08.glue_named_semantics
#print axioms PG.C08.glue_listing_order
#print axioms PG.C08.glue_rename
#print axioms PG.C08.glue_hash_independent
#print axioms PG.C08.glue_to_moments
#print axioms PG.C08.glue_sizes_by_dict_order_defect
#print axioms PG.C08.glue_mig_by_sorted_names_defect
#print axioms PG.C08.glue_deme_reward_sorted_defect
#print axioms PG.C08.glue_nonvacuous
#print axioms PG.C08.end_to_end_named
#print axioms PG.C08.end_to_end_named_labelled
#print axioms PG.C08.end_to_end_named_instance
#print axioms PG.C08.end_to_end_named_both_runs
#print axioms PG.C08.relisted_same_events
