/-
# C08 — Results do not depend on population naming, listing order or the process

Every statistic, including the per-population marginals and their covariances, is attached to the
population name the user gave: renaming populations consistently, or listing them in a different
order in the sample configuration, the size dictionary or the migration dictionary, yields the same
value for the same named population. The same script returns the same values in every Python process
(no dependence on hash randomisation).

Quantifier: for all permutations of the population order in each input container, all name sets (sorted or not),
sample configurations that omit unsampled populations, and all PYTHONHASHSEED values

Proved: relabelling states by any bijection leaves every moment and cdf unchanged (perm_accum /
perm_cdf, E_reindex); the labelled generator is invariant under permutation of particles; deme
rewards sum to one. Equivariance of the code model `transit` under a permutation of the deme axis is
exercised by the correspondence, not yet a theorem (partial); hash-seed independence is runtime
(exploration).

This file restates the theorems the property rests on (full statements; proofs are in PGProofs/).
Generated once by harness/mkprops.py from harness/props_table.py + PGProperties/extra/C08.lean.in; committed as source.
-/
import PGProofs.VanLoan
import PGProofs.RewardsThm
import PGProofs.Labelled

set_option linter.all false
set_option pp.fieldNotation.generalized false

namespace PG.C08
open PG

/-- moments are invariant under a bijective relabelling of states -/
theorem relabel_moments : ∀ {K : Type} [inst : Field K] [inst_1 : LinearOrder K] [inst_2 : IsStrictOrderedRing K] {ι : Type} [inst_3 : Fintype ι] [inst_4 : DecidableEq ι] {ι' : Type} [inst_5 : Fintype ι'] [inst_6 : DecidableEq ι'] {k : ℕ} (L : ExpLaw K) (σ : ι ≃ ι') (S : ℕ → Matrix ι ι K) (R : Fin k → ι → K) (α : ι → K) (fs : List (ℕ × K)), accumVal L (fun e ↦ (Matrix.reindex σ σ) (S e)) (fun a x ↦ R a ((Equiv.symm σ) x)) (fun x ↦ α ((Equiv.symm σ) x)) fs = accumVal L S R α fs := @PG.perm_accum

/-- cdf likewise -/
theorem relabel_cdf : ∀ {K : Type} [inst : Field K] [inst_1 : LinearOrder K] [inst_2 : IsStrictOrderedRing K] {ι : Type} [inst_3 : Fintype ι] [inst_4 : DecidableEq ι] {ι' : Type} [inst_5 : Fintype ι'] [inst_6 : DecidableEq ι'] (L : ExpLaw K) (σ : ι ≃ ι') (S : ℕ → Matrix ι ι K) (α exitVec : ι → K) (fs : List (ℕ × K)), cdfVal L (fun e ↦ (Matrix.reindex σ σ) (S e)) (fun x ↦ α ((Equiv.symm σ) x)) (fun x ↦ exitVec ((Equiv.symm σ) x)) fs = cdfVal L S α exitVec fs := @PG.perm_cdf

/-- the exponential commutes with reindexing -/
theorem exp_reindex : ∀ {K : Type} [inst : Field K] [inst_1 : LinearOrder K] [inst_2 : IsStrictOrderedRing K] (L : ExpLaw K) {ι κ : Type} [inst_3 : Fintype ι] [inst_4 : DecidableEq ι] [inst_5 : Fintype κ] [inst_6 : DecidableEq κ] (A : Matrix ι ι K) (σ : ι ≃ κ), L.E ((Matrix.reindex σ σ) A) = (Matrix.reindex σ σ) (L.E A) := @PG.ExpLaw.E_reindex

/-- the labelled generator ignores the order of particles -/
theorem particle_order_irrelevant : ∀ {T : Type u_1} [inst : DecidableEq T] [Fintype T] {K : Type u_2} [inst_2 : CommRing K] {ε : Type u_3} [inst_3 : Fintype ε] (rate : ε → (T → ℕ) → (T → ℕ) → K) (res : ε → (T → ℕ) → T → ℕ) (g : (T → ℕ) → K) {x y : List T}, List.Perm x y → QLs rate res g x = QLs rate res g y := @PG.QLs_perm

/-- per-deme fractions sum to one -/
theorem deme_rewards_sum_one : ∀ (n : ℕ) (s : State) (D : ℕ), 0 < State.total s → (∀ l < State.nLoci s, List.length (List.getD s.lin l []) = D) → ∑ d ∈ Finset.range D, Reward.eval n s (Reward.deme d) = 1 := @PG.deme_rewards_sum_one

end PG.C08

#print axioms PG.C08.relabel_moments
#print axioms PG.C08.relabel_cdf
#print axioms PG.C08.exp_reindex
#print axioms PG.C08.particle_order_irrelevant
#print axioms PG.C08.deme_rewards_sum_one
