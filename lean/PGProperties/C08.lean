/-
# C08 — Results do not depend on population naming, listing order or the process

Every statistic, including the per-population marginals and their covariances, is attached to the
population name the user gave: renaming populations consistently, or listing them in a different
order in the sample configuration, the size dictionary or the migration dictionary, yields the same
value for the same named population. The same script returns the same values in every Python process
(no dependence on hash randomisation).

Quantifier: for all permutations of the population order in each input container, all name sets (sorted or not),
sample configurations that omit unsampled populations, and all PYTHONHASHSEED values

Proved: relabelling states by any bijection leaves every moment and cdf unchanged (perm_accum /
perm_cdf, E_reindex); the labelled generator is invariant under permutation of particles; deme
rewards sum to one. Equivariance of the code model `transit` under a permutation of the deme axis is
exercised by the correspondence, not yet a theorem (partial); hash-seed independence is runtime
(exploration).

This file restates the theorems the property rests on (full statements; proofs are in PGProofs/).
Generated once by harness/mkprops.py from harness/props_table.py + PGProperties/extra/C08.lean.in; committed as source.
-/
import PGProofs.DemePerm
import PGProofs.VanLoan
import PGProofs.RewardsThm
import PGProofs.Labelled

set_option linter.all false
set_option pp.fieldNotation.generalized false

namespace PG.C08
open PG

/-- HEADLINE: on the BFS graphs the code builds, listing the demes in a different order (sample vector, time scales, migration matrix permuted consistently) gives the same moment for rewards transported by name -/
theorem moments_perm : ∀ {D : ℕ} {K : Type} [inst : Field K] [inst_1 : LinearOrder K] [inst_2 : IsStrictOrderedRing K] (σ : Equiv.Perm (Fin D)) {m : Model} {cinit cinit' : Fin D → ℕ} {ts : ℕ → Fin D → ℚ} {mig : ℕ → Fin D → Fin D → ℚ} {r r' : ℕ → ℚ} {fuel fuel' : ℕ → ℕ} {G G' : ℕ → Graph}, (∀ (e : ℕ), bfs (transit m (mkEpoch (ts e) (mig e) (r e))) (encLC cinit) (fuel e) = some (G e)) → (∀ (e : ℕ), bfs (transit m (mkEpoch (DemePerm.permTs σ (ts e)) (DemePerm.permMig σ (mig e)) (r' e))) (encLC cinit') (fuel' e) = some (G' e)) → ∑ d, cinit' d = ∑ d, cinit d → ∀ (L : ExpLaw K) (n : ℕ) {k : ℕ} (rs rs' : Fin k → Reward), (∀ (a : Fin k) (c : Fin D → ℕ), Reward.eval n (encLC (DemePerm.permC σ c)) (rs' a) = Reward.eval n (encLC c) (rs a)) → ∀ (c0 : Fin D → ℕ), ∑ d, c0 d = ∑ d, cinit d → ∀ (fs : List (ℕ × K)), accumVal L (fun e ↦ Matrix.map (Assembly.codeMat G' e) fun q ↦ ↑q) (fun a j ↦ ↑(Reward.eval n (G' 0).visited[j] (rs' a))) (fun j ↦ ↑(List.getD (alphaVec (G' 0).visited (List.ofFn (DemePerm.permC σ c0)) 1 0) (↑j) 0)) fs = accumVal L (fun e ↦ Matrix.map (Assembly.codeMat G e) fun q ↦ ↑q) (fun a i ↦ ↑(Reward.eval n (G 0).visited[i] (rs a))) (fun i ↦ ↑(List.getD (alphaVec (G 0).visited (List.ofFn c0) 1 0) (↑i) 0)) fs := @PG.DemePerm.C08_moments_perm

/-- same for the cdf -/
theorem cdf_perm : ∀ {D : ℕ} {K : Type} [inst : Field K] [inst_1 : LinearOrder K] [inst_2 : IsStrictOrderedRing K] (σ : Equiv.Perm (Fin D)) {m : Model} {cinit cinit' : Fin D → ℕ} {ts : ℕ → Fin D → ℚ} {mig : ℕ → Fin D → Fin D → ℚ} {r r' : ℕ → ℚ} {fuel fuel' : ℕ → ℕ} {G G' : ℕ → Graph}, (∀ (e : ℕ), bfs (transit m (mkEpoch (ts e) (mig e) (r e))) (encLC cinit) (fuel e) = some (G e)) → (∀ (e : ℕ), bfs (transit m (mkEpoch (DemePerm.permTs σ (ts e)) (DemePerm.permMig σ (mig e)) (r' e))) (encLC cinit') (fuel' e) = some (G' e)) → ∑ d, cinit' d = ∑ d, cinit d → ∀ (L : ExpLaw K) (n : ℕ) (c0 : Fin D → ℕ), ∑ d, c0 d = ∑ d, cinit d → ∀ (fs : List (ℕ × K)), cdfVal L (fun e ↦ Matrix.map (Assembly.codeMat G' e) fun q ↦ ↑q) (fun j ↦ ↑(List.getD (alphaVec (G' 0).visited (List.ofFn (DemePerm.permC σ c0)) 1 0) (↑j) 0)) (fun j ↦ ↑(Reward.eval n (G' 0).visited[j] Reward.treeHeight)) fs = cdfVal L (fun e ↦ Matrix.map (Assembly.codeMat G e) fun q ↦ ↑q) (fun i ↦ ↑(List.getD (alphaVec (G 0).visited (List.ofFn c0) 1 0) (↑i) 0)) (fun i ↦ ↑(Reward.eval n (G 0).visited[i] Reward.treeHeight)) fs := @PG.DemePerm.C08_cdf_perm

/-- per-deme rewards addressed by the permuted axis index give the same moments -/
theorem deme_marginals_perm : ∀ {D : ℕ} {K : Type} [inst : Field K] [inst_1 : LinearOrder K] [inst_2 : IsStrictOrderedRing K] (σ : Equiv.Perm (Fin D)) {m : Model} {cinit cinit' : Fin D → ℕ} {ts : ℕ → Fin D → ℚ} {mig : ℕ → Fin D → Fin D → ℚ} {r r' : ℕ → ℚ} {fuel fuel' : ℕ → ℕ} {G G' : ℕ → Graph}, (∀ (e : ℕ), bfs (transit m (mkEpoch (ts e) (mig e) (r e))) (encLC cinit) (fuel e) = some (G e)) → (∀ (e : ℕ), bfs (transit m (mkEpoch (DemePerm.permTs σ (ts e)) (DemePerm.permMig σ (mig e)) (r' e))) (encLC cinit') (fuel' e) = some (G' e)) → ∑ d, cinit' d = ∑ d, cinit d → ∀ (L : ExpLaw K) (n : ℕ) {k : ℕ} (q : Fin k → Fin D) (c0 : Fin D → ℕ), ∑ d, c0 d = ∑ d, cinit d → ∀ (fs : List (ℕ × K)), accumVal L (fun e ↦ Matrix.map (Assembly.codeMat G' e) fun q ↦ ↑q) (fun a j ↦ ↑(Reward.eval n (G' 0).visited[j] (Reward.deme ↑(σ (q a))))) (fun j ↦ ↑(List.getD (alphaVec (G' 0).visited (List.ofFn (DemePerm.permC σ c0)) 1 0) (↑j) 0)) fs = accumVal L (fun e ↦ Matrix.map (Assembly.codeMat G e) fun q ↦ ↑q) (fun a i ↦ ↑(Reward.eval n (G 0).visited[i] (Reward.deme ↑(q a)))) (fun i ↦ ↑(List.getD (alphaVec (G 0).visited (List.ofFn c0) 1 0) (↑i) 0)) fs := @PG.DemePerm.C08_moments_deme

/-- the lineage-counting generator commutes with relabelling of demes -/
theorem generator_equivariant : ∀ {D : ℕ} {K : Type u_1} [inst : Field K] (σ : Equiv.Perm (Fin D)) (lam : ℕ → ℕ → K) (ts : Fin D → K) (mig : Fin D → Fin D → K) (g : (Fin D → ℕ) → K) (c : Fin D → ℕ), QCs (linRate lam ts mig) linRes (fun c' ↦ g (DemePerm.permC σ c')) c = QCs (linRate lam (DemePerm.permTs σ ts) (DemePerm.permMig σ mig)) linRes g (DemePerm.permC σ c) := @PG.DemePerm.lineage_equivariant

/-- the block-counting generator commutes with relabelling of demes -/
theorem generator_equivariant_block : ∀ {D n : ℕ} [inst : NeZero n] {K : Type u_1} [inst_1 : Field K] (σ : Equiv.Perm (Fin D)) (lam : ℕ → ℕ → K) (ts : Fin D → K) (mig : Fin D → Fin D → K) (g : (Fin D × Fin n → ℕ) → K) (c : Fin D × Fin n → ℕ), QCs (blkRate lam ts mig) blkRes (fun c' ↦ g (DemePerm.permB σ c')) c = QCs (blkRate lam (DemePerm.permTs σ ts) (DemePerm.permMig σ mig)) blkRes g (DemePerm.permB σ c) := @PG.DemePerm.block_equivariant

/-- the code model `transit` commutes with relabelling of demes -/
theorem transit_equivariant : ∀ {D : ℕ} (σ : Equiv.Perm (Fin D)) (m : Model) (ts : Fin D → ℚ) (mig : Fin D → Fin D → ℚ) (r : ℚ) (c : Fin D → ℕ) (g g' : State → ℚ), (∀ (c' : Fin D → ℕ), g' (encLC (DemePerm.permC σ c')) = g (encLC c')) → genOf (transit m (mkEpoch (DemePerm.permTs σ ts) (DemePerm.permMig σ mig) r) (encLC (DemePerm.permC σ c))) g' (encLC (DemePerm.permC σ c)) = genOf (transit m (mkEpoch ts mig r) (encLC c)) g (encLC c) := @PG.DemePerm.transit_lineage_equivariant

/-- SFS rewards (sums over demes) are invariant -/
theorem sfs_perm : ∀ {K : Type} [inst : Field K] [inst_1 : LinearOrder K] [inst_2 : IsStrictOrderedRing K] {ι : Type} [inst_3 : Fintype ι] [inst_4 : DecidableEq ι] {ι' : Type} [inst_5 : Fintype ι'] [inst_6 : DecidableEq ι'] {k : ℕ} (L : ExpLaw K) {D n : ℕ} [inst_7 : NeZero n] (σ : Equiv.Perm (Fin D)) (lam : ℕ → ℕ → K) (ts : ℕ → Fin D → K) (mig : ℕ → Fin D → Fin D → K) (dec : ι → Fin D × Fin n → ℕ) (dec' : ι' → Fin D × Fin n → ℕ) (S : ℕ → Matrix ι ι K) (S' : ℕ → Matrix ι' ι' K), Function.Injective dec' → (∀ (e : ℕ) (f : (Fin D × Fin n → ℕ) → K) (i : ι), ∑ j, S e i j * f (dec j) = QCs (blkRate lam (ts e) (mig e)) blkRes f (dec i)) → (∀ (e : ℕ) (f : (Fin D × Fin n → ℕ) → K) (i : ι'), ∑ j, S' e i j * f (dec' j) = QCs (blkRate lam (DemePerm.permTs σ (ts e)) (DemePerm.permMig σ (mig e))) blkRes f (dec' i)) → ∀ (p : ι → ι'), (∀ (i : ι), dec' (p i) = DemePerm.permB σ (dec i)) → ∀ (hb : Fin k → (Fin n → ℕ) → K) (α : ι → K) (fs : List (ℕ × K)), accumVal L S' (fun a j ↦ hb a fun i ↦ ∑ d, dec' j (d, i)) (Matrix.vecMul α (Marginal.projMat p)) fs = accumVal L S (fun a x ↦ hb a fun i ↦ ∑ d, dec x (d, i)) α fs := @PG.DemePerm.demePerm_moments_sfs

/-- pre-fix DemeReward: looking the name up in the sorted list while the axis follows the sample dict returns the other deme -/
theorem sorted_name_lookup_defect : Reward.eval 4 DemePerm.sDefect (Reward.deme (DemePerm.axisOf 'b')) = 3 / 4 ∧ Reward.eval 4 DemePerm.sDefect (Reward.deme (DemePerm.sortedIdxOf 'b')) = 1 / 4 ∧ Reward.eval 4 DemePerm.sDefect (Reward.deme (DemePerm.sortedIdxOf 'b')) = Reward.eval 4 DemePerm.sDefect (Reward.deme (DemePerm.axisOf 'a')) ∧ Reward.eval 4 DemePerm.sDefect (Reward.deme (DemePerm.sortedIdxOf 'b')) ≠ Reward.eval 4 DemePerm.sDefect (Reward.deme (DemePerm.axisOf 'b')) := @PG.DemePerm.defect_counterexample

/-- moments are invariant under a bijective relabelling of states -/
theorem relabel_moments : ∀ {K : Type} [inst : Field K] [inst_1 : LinearOrder K] [inst_2 : IsStrictOrderedRing K] {ι : Type} [inst_3 : Fintype ι] [inst_4 : DecidableEq ι] {ι' : Type} [inst_5 : Fintype ι'] [inst_6 : DecidableEq ι'] {k : ℕ} (L : ExpLaw K) (σ : ι ≃ ι') (S : ℕ → Matrix ι ι K) (R : Fin k → ι → K) (α : ι → K) (fs : List (ℕ × K)), accumVal L (fun e ↦ (Matrix.reindex σ σ) (S e)) (fun a x ↦ R a ((Equiv.symm σ) x)) (fun x ↦ α ((Equiv.symm σ) x)) fs = accumVal L S R α fs := @PG.perm_accum

/-- cdf likewise -/
theorem relabel_cdf : ∀ {K : Type} [inst : Field K] [inst_1 : LinearOrder K] [inst_2 : IsStrictOrderedRing K] {ι : Type} [inst_3 : Fintype ι] [inst_4 : DecidableEq ι] {ι' : Type} [inst_5 : Fintype ι'] [inst_6 : DecidableEq ι'] (L : ExpLaw K) (σ : ι ≃ ι') (S : ℕ → Matrix ι ι K) (α exitVec : ι → K) (fs : List (ℕ × K)), cdfVal L (fun e ↦ (Matrix.reindex σ σ) (S e)) (fun x ↦ α ((Equiv.symm σ) x)) (fun x ↦ exitVec ((Equiv.symm σ) x)) fs = cdfVal L S α exitVec fs := @PG.perm_cdf

/-- the exponential commutes with reindexing -/
theorem exp_reindex : ∀ {K : Type} [inst : Field K] [inst_1 : LinearOrder K] [inst_2 : IsStrictOrderedRing K] (L : ExpLaw K) {ι κ : Type} [inst_3 : Fintype ι] [inst_4 : DecidableEq ι] [inst_5 : Fintype κ] [inst_6 : DecidableEq κ] (A : Matrix ι ι K) (σ : ι ≃ κ), L.E ((Matrix.reindex σ σ) A) = (Matrix.reindex σ σ) (L.E A) := @PG.ExpLaw.E_reindex

/-- the labelled generator ignores the order of particles -/
theorem particle_order_irrelevant : ∀ {T : Type u_1} [inst : DecidableEq T] [Fintype T] {K : Type u_2} [inst_2 : CommRing K] {ε : Type u_3} [inst_3 : Fintype ε] (rate : ε → (T → ℕ) → (T → ℕ) → K) (res : ε → (T → ℕ) → T → ℕ) (g : (T → ℕ) → K) {x y : List T}, List.Perm x y → QLs rate res g x = QLs rate res g y := @PG.QLs_perm

/-- per-deme fractions sum to one -/
theorem deme_rewards_sum_one : ∀ (n : ℕ) (s : State) (D : ℕ), 0 < State.total s → (∀ l < State.nLoci s, List.length (List.getD s.lin l []) = D) → ∑ d ∈ Finset.range D, Reward.eval n s (Reward.deme d) = 1 := @PG.deme_rewards_sum_one

end PG.C08

#print axioms PG.C08.moments_perm
#print axioms PG.C08.cdf_perm
#print axioms PG.C08.deme_marginals_perm
#print axioms PG.C08.generator_equivariant
#print axioms PG.C08.generator_equivariant_block
#print axioms PG.C08.transit_equivariant
#print axioms PG.C08.sfs_perm
#print axioms PG.C08.sorted_name_lookup_defect
#print axioms PG.C08.relabel_moments
#print axioms PG.C08.relabel_cdf
#print axioms PG.C08.exp_reindex
#print axioms PG.C08.particle_order_irrelevant
#print axioms PG.C08.deme_rewards_sum_one
