/-
# C13 — Expected spectra are consistent across sample sizes

In a single population (any coalescent model, any demography, any end time) the expected SFS for n-1
samples is the hypergeometric down-projection of the expected SFS for n samples, and the expected
tree height and total branch length never decrease when a sample is added.

Quantifier: for all n >= 3, all three models and parameters, all piecewise-constant size histories, all end
times

Proved in full generality (any Lambda with consistent rates, any n, any size history, any end time):
removing a uniformly chosen sample intertwines the block-counting generators of n+1 and n samples,
hence the expected SFS projects hypergeometrically and mean height / branch length are monotone in
n; the three models are consistent.

This file restates the theorems the property rests on (full statements; proofs are in PGProofs/).
Generated once by harness/mkprops.py from harness/props_table.py + PGProperties/extra/C13.lean.in; committed as source.
-/
import PGProofs.SampleConsistency
import PGProofs.RatesThm

set_option linter.all false
set_option pp.fieldNotation.generalized false

namespace PG.C13
open PG

/-- lambda(b,k) = lambda(b+1,k) + lambda(b+1,k+1) for Kingman, Beta, Dirac -/
theorem rates_consistent : ∀ (m : Model) (b k : ℕ), 2 ≤ k → k ≤ b → lam m b k = lam m (b + 1) k + lam m (b + 1) (k + 1) := @PG.lam_consistent

/-- Q_{n+1} K = K Q_n for the sample-removal kernel -/
theorem kernel_intertwine : ∀ {T : Type} [inst : DecidableEq T] [inst_1 : Fintype T] {K : Type} [inst_2 : Field K] {sz : T → ℕ} {ty : ℕ → T} (lam : ℕ → ℕ → K) {N : ℕ}, (∀ (b k : ℕ), 2 ≤ k → k ≤ b → lam b k = lam (b + 1) k + lam (b + 1) (k + 1)) → (∀ (t : T), ty (sz t) = t) → (∀ (t : T), 1 ≤ sz t) → (∀ (t : T), sz t ≤ N) → (∀ (s : ℕ), 1 ≤ s → s ≤ N → sz (ty s) = s) → ∀ (n : ℕ) (g : (T → ℕ) → K) (a : T → ℕ), mass sz a ≤ N → Qgen sz ty lam (Kker sz ty n g) a = Kker sz ty n (Qgen sz ty lam g) a := @PG.kernel_intertwine

/-- matrix form -/
theorem matrix_intertwine : ∀ {T : Type} [inst : DecidableEq T] [inst_1 : Fintype T] {sz : T → ℕ} {ty : ℕ → T} {K : Type} [inst_2 : Field K] (lam : ℕ → ℕ → K) {N : ℕ}, (∀ (b k : ℕ), 2 ≤ k → k ≤ b → lam b k = lam (b + 1) k + lam (b + 1) (k + 1)) → (∀ (t : T), ty (sz t) = t) → (∀ (t : T), 1 ≤ sz t) → (∀ (t : T), sz t ≤ N) → (∀ (s : ℕ), 1 ≤ s → s ≤ N → sz (ty s) = s) → ∀ (n : ℕ), n + 1 ≤ N → genMat sz ty lam (n + 1) * Kmat sz ty n = Kmat sz ty n * genMat sz ty lam n := @PG.genMat_intertwine

/-- K applied to an SFS reward is the hypergeometric combination -/
theorem K_sfs : type_of% @PG.K_sfs := @PG.K_sfs   -- (printed statement does not re-elaborate; see the source lemma)

/-- K height <= height -/
theorem K_height : type_of% @PG.K_height := @PG.K_height   -- (printed statement does not re-elaborate; see the source lemma)

/-- K branch length <= branch length -/
theorem K_tbl : type_of% @PG.K_tbl := @PG.K_tbl   -- (printed statement does not re-elaborate; see the source lemma)

/-- K maps the initial state to the initial state -/
theorem K_initial : type_of% @PG.K_alpha := @PG.K_alpha   -- (printed statement does not re-elaborate; see the source lemma)

/-- expected SFS for n is the down-projection of the one for n+1 -/
theorem sfs_projection : type_of% @PG.C13_sfs := @PG.C13_sfs   -- (printed statement does not re-elaborate; see the source lemma)

/-- instantiated for the three models of the library -/
theorem sfs_projection_models : type_of% @PG.C13_sfs_model := @PG.C13_sfs_model   -- (printed statement does not re-elaborate; see the source lemma)

/-- mean tree height does not decrease with n -/
theorem height_monotone : type_of% @PG.C13_height := @PG.C13_height   -- (printed statement does not re-elaborate; see the source lemma)

/-- mean total branch length does not decrease with n -/
theorem tbl_monotone : type_of% @PG.C13_tbl := @PG.C13_tbl   -- (printed statement does not re-elaborate; see the source lemma)

end PG.C13

#print axioms PG.C13.rates_consistent
#print axioms PG.C13.kernel_intertwine
#print axioms PG.C13.matrix_intertwine
#print axioms PG.C13.K_sfs
#print axioms PG.C13.K_height
#print axioms PG.C13.K_tbl
#print axioms PG.C13.K_initial
#print axioms PG.C13.sfs_projection
#print axioms PG.C13.sfs_projection_models
#print axioms PG.C13.height_monotone
#print axioms PG.C13.tbl_monotone
