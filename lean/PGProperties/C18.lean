/-
# C18 — Serialisation round-trips preserve configuration and results

Writing a Coalescent, an Inference object or a 2-SFS to JSON (string or file) and reading it back
yields an object with the same configuration that returns the same statistics, inferred parameters
and losses as the original, whether or not results had been computed before saving; saving does not
alter the original object.

Quantifier: for all configurations (all models, one or two loci, demographies built from discrete events;
trajectory callables of discretised events are not serialisable, fail loudly on first use after
loading, and are not claimed), before/after any computation, and repeated save/load cycles

Proved on the bookkeeping model with the codec as a parameter (decode (encode x) = some x): the
loaded object answers every statistic like the original whether or not it was computed before
saving, saving leaves the original untouched, cycles are idempotent. Partial by construction:
jsonpickle/dill losslessness is the hypothesis the correspondence exercises.

This file restates the theorems the property rests on (full statements; proofs are in PGProofs/).
Generated once by harness/mkprops.py from harness/props_table.py + PGProperties/extra/C18.lean.in; committed as source.
-/
import PGProofs.SerializeThm

set_option linter.all false
set_option pp.fieldNotation.generalized false

namespace PG.C18
open PG

/-- save/load preserves configuration and every statistic -/
theorem roundtrip : ∀ {Cfg Q R J : Type} [inst : BEq Q] (encode : Serialize.Obj Cfg Q R → J) (decode : J → Option (Serialize.Obj Cfg Q R)), (∀ (x : Serialize.Obj Cfg Q R), decode (encode x) = some x) → ∀ (f : Cfg → Q → R) (o : Serialize.Obj Cfg Q R), Serialize.Inv f o → ∃ o', Serialize.fromJson decode (Serialize.toJson encode o).fst = some o' ∧ o'.config = o.config ∧ Serialize.Inv f o' ∧ ∀ (q : Q), Serialize.ask f o' q = Serialize.ask f o q := @PG.Serialize.C18_roundtrip

/-- to_json returns the original unchanged -/
theorem original_untouched : ∀ {Cfg Q R J : Type} [BEq Q] (encode : Serialize.Obj Cfg Q R → J) (o : Serialize.Obj Cfg Q R), (Serialize.toJson encode o).snd = o := @PG.Serialize.C18_original_untouched

/-- a second cycle is the identity -/
theorem idempotent : ∀ {Cfg Q R J : Type} [BEq Q] (encode : Serialize.Obj Cfg Q R → J) (decode : J → Option (Serialize.Obj Cfg Q R)), (∀ (x : Serialize.Obj Cfg Q R), decode (encode x) = some x) → ∀ (o o₁ : Serialize.Obj Cfg Q R), Serialize.fromJson decode (Serialize.toJson encode o).fst = some o₁ → Serialize.fromJson decode (Serialize.toJson encode o₁).fst = some o₁ := @PG.Serialize.C18_idempotent

/-- statistics computed after loading keep agreeing -/
theorem later_queries : ∀ {Cfg Q R : Type} [inst : BEq Q] [LawfulBEq Q] (f : Cfg → Q → R) (o : Serialize.Obj Cfg Q R), Serialize.Inv f o → ∀ (q : Q), Serialize.Inv f (Serialize.compute f o q) := @PG.Serialize.compute_inv

end PG.C18

#print axioms PG.C18.roundtrip
#print axioms PG.C18.original_untouched
#print axioms PG.C18.idempotent
#print axioms PG.C18.later_queries
