/-
# C18 — Serialisation round-trips preserve configuration and results

Writing a Coalescent, an Inference object or a 2-SFS to JSON (string or file) and reading it back
yields an object with the same configuration that returns the same statistics, inferred parameters
and losses as the original, whether or not results had been computed before saving; saving does not
alter the original object.

Quantifier: for all configurations (all models, one or two loci, demographies built from discrete events;
trajectory callables of discretised events are not serialisable, fail loudly on first use after
loading, and are not claimed), before/after any computation, and repeated save/load cycles

Proved on the bookkeeping model with the codec as a parameter (decode (encode x) = some x): the
loaded object answers every statistic like the original whether or not it was computed before
saving, saving leaves the original untouched, cycles are idempotent. Partial by construction:
jsonpickle/dill losslessness is the hypothesis the correspondence exercises.

This file restates the theorems the property rests on (full statements; proofs are in PGProofs/).
Generated once by harness/mkprops.py from harness/props_table.py + PGProperties/extra/C18.lean.in; committed as source.
-/
import PGProofs.SerializeThm
import PGProofs.SerializeFields

set_option linter.all false
set_option pp.fieldNotation.generalized false

namespace PG.C18
open PG

/-- save/load preserves configuration and every statistic -/
theorem roundtrip : ∀ {Cfg Q R J : Type} [inst : BEq Q] (encode : Serialize.Obj Cfg Q R → J) (decode : J → Option (Serialize.Obj Cfg Q R)), (∀ (x : Serialize.Obj Cfg Q R), decode (encode x) = some x) → ∀ (f : Cfg → Q → R) (o : Serialize.Obj Cfg Q R), Serialize.Inv f o → ∃ o', Serialize.fromJson decode (Serialize.toJson encode o).1 = some o' ∧ o'.config = o.config ∧ Serialize.Inv f o' ∧ ∀ (q : Q), Serialize.ask f o' q = Serialize.ask f o q := @PG.Serialize.C18_roundtrip

/-- to_json returns the original unchanged -/
theorem original_untouched : ∀ {Cfg Q R J : Type} [BEq Q] (encode : Serialize.Obj Cfg Q R → J) (o : Serialize.Obj Cfg Q R), (Serialize.toJson encode o).2 = o := @PG.Serialize.C18_original_untouched

/-- a second cycle is the identity -/
theorem idempotent : ∀ {Cfg Q R J : Type} [BEq Q] (encode : Serialize.Obj Cfg Q R → J) (decode : J → Option (Serialize.Obj Cfg Q R)), (∀ (x : Serialize.Obj Cfg Q R), decode (encode x) = some x) → ∀ (o o₁ : Serialize.Obj Cfg Q R), Serialize.fromJson decode (Serialize.toJson encode o).1 = some o₁ → Serialize.fromJson decode (Serialize.toJson encode o₁).1 = some o₁ := @PG.Serialize.C18_idempotent

/-- statistics computed after loading keep agreeing -/
theorem later_queries : ∀ {Cfg Q R : Type} [inst : BEq Q] [LawfulBEq Q] (f : Cfg → Q → R) (o : Serialize.Obj Cfg Q R), Serialize.Inv f o → ∀ (q : Q), Serialize.Inv f (Serialize.compute f o q) := @PG.Serialize.compute_inv

/-- FIELD LEVEL: after Coalescent.to_json / from_json every attribute of __dict__ (start_time, end_time, regularize, model, demography, results, ...) is the one that was saved, in the same order; only the two state-space entries may differ, and only by their dropped caches -/
theorem fields_roundtrip_coalescent : ∀ {J : Type} (encode : Serialize.PyDict → J) (decode : J → Option Serialize.PyDict), (∀ (d : Serialize.PyDict), decode (encode d) = some d) → ∀ (d : Serialize.PyDict), Serialize.WF d → ∃ d', Serialize.fromJsonCoalescent Serialize.SetVariant.current decode (Serialize.toJsonCoalescent Serialize.SetVariant.current encode d).1 = some d' ∧ List.map Prod.fst d' = List.map Prod.fst d ∧ (∀ k ∉ Serialize.spaceKeys, Dict.get? d' k = Dict.get? d k) ∧ ∀ k ∈ Serialize.spaceKeys, Dict.get? d' k = Option.map Serialize.Val.dropCache (Dict.get? d k) := @PG.Serialize.roundtrip_dict_coalescent

/-- restated for the named configuration fields -/
theorem fields_named : ∀ {J : Type} (encode : Serialize.PyDict → J) (decode : J → Option Serialize.PyDict), (∀ (d : Serialize.PyDict), decode (encode d) = some d) → ∀ (d : Serialize.PyDict), Serialize.WF d → ∃ d', Serialize.fromJsonCoalescent Serialize.SetVariant.current decode (Serialize.toJsonCoalescent Serialize.SetVariant.current encode d).1 = some d' ∧ ∀ k ∈ ["start_time", "end_time", "regularize", "parallelize", "pbar", "model", "demography", "lineage_config", "locus_config", "tree_height", "total_branch_length", "sfs", "fsfs"], Dict.get? d' k = Dict.get? d k := @PG.Serialize.roundtrip_coalescent_fields

/-- Inference: every key comes back with its value (callables through dill), no key is added -/
theorem fields_roundtrip_inference : ∀ {J : Type} (encode : Serialize.PyDict → J) (decode : J → Option Serialize.PyDict), (∀ (d : Serialize.PyDict), decode (encode d) = some d) → ∀ (d : Serialize.PyDict), Serialize.WF d → ∀ (vc vl vr : Serialize.Val), Dict.get? d "coal" = some vc → Dict.get? d "loss" = some vl → Dict.get? d "resample" = some vr → Dict.get? d "coal_pickled" = none → Dict.get? d "loss_pickled" = none → Dict.get? d "resample_pickled" = none → ∃ j d', (Serialize.toJsonInference Serialize.GetVariant.current encode d).1 = some j ∧ Serialize.fromJsonInference decode j = some d' ∧ d' = Serialize.loadedDict d vc vl vr ∧ Serialize.WF d' ∧ ∀ (k : String), Dict.get? d' k = Dict.get? d k := @PG.Serialize.roundtrip_dict_inference

/-- the start point after loading equals the one before, for every rng draw function -/
theorem x0_stable : ∀ {J : Type} (encode : Serialize.PyDict → J) (decode : J → Option Serialize.PyDict), (∀ (d : Serialize.PyDict), decode (encode d) = some d) → ∀ (d : Serialize.PyDict), Serialize.WF d → ∀ (vc vl vr : Serialize.Val), Dict.get? d "coal" = some vc → Dict.get? d "loss" = some vl → Dict.get? d "resample" = some vr → Dict.get? d "coal_pickled" = none → Dict.get? d "loss_pickled" = none → Dict.get? d "resample_pickled" = none → ∀ (draw : Serialize.Val → Serialize.Val × Serialize.Val), ∃ j d', (Serialize.toJsonInference Serialize.GetVariant.current encode d).1 = some j ∧ Serialize.fromJsonInference decode j = some d' ∧ Serialize.x0Of d' draw = Serialize.x0Of d draw := @PG.Serialize.roundtrip_x0_stable

/-- saving leaves the original dict untouched -/
theorem fields_original_untouched : ∀ {J : Type} (v : Serialize.SetVariant) (encode : Serialize.PyDict → J) (d : Serialize.PyDict), (Serialize.toJsonCoalescent v encode d).2 = d := @PG.Serialize.original_untouched_coalescent

/-- kernel-checked: `state | defaults` in __setstate__ resets start_time / regularize -/
theorem setstate_defaults_defect : type_of% @PG.Serialize.defaultsOverride_loses_start_time := @PG.Serialize.defaultsOverride_loses_start_time   -- (printed statement does not re-elaborate; see the source lemma)

/-- kernel-checked: dropping the cached x0 in __getstate__ makes the loaded object draw another start point -/
theorem getstate_x0_defect : type_of% @PG.Serialize.dropsCachedX0_redraws := @PG.Serialize.dropsCachedX0_redraws   -- (printed statement does not re-elaborate; see the source lemma)

end PG.C18

#print axioms PG.C18.roundtrip
#print axioms PG.C18.original_untouched
#print axioms PG.C18.idempotent
#print axioms PG.C18.later_queries
#print axioms PG.C18.fields_roundtrip_coalescent
#print axioms PG.C18.fields_named
#print axioms PG.C18.fields_roundtrip_inference
#print axioms PG.C18.x0_stable
#print axioms PG.C18.fields_original_untouched
#print axioms PG.C18.setstate_defaults_defect
#print axioms PG.C18.getstate_x0_defect
