/-
# C14 — Coalescent-model merger rates follow their defining measure and time scale

For each model the rate at which a given set of k out of b lineages merges is the integral of
x^(k-2)(1-x)^(b-k) against the model's Lambda-measure (Kingman: pairs at rate 1; Beta(2-alpha,
alpha); Dirac: Kingman plus mass c*psi^2 at psi), hence rates are non-negative, sampling-consistent
(lambda[b,k] = lambda[b+1,k] + lambda[b+1,k+1]) and reduce to Kingman as alpha -> 2 or c -> 0. The
block-counting rates of all outcomes with the same reduction sum to the lineage-counting rate, and
the time scale is N, the documented msprime scaling for Beta, and N^2 for Dirac (N when scaling is
off).

Quantifier: for all 2 <= k <= b <= 12, all block configurations of up to 7 lineages, alpha in (1,2), psi in
(0,1), c >= 0, N > 0

Proved on the model (tied to the source by the AST translator, see GenBridge when present): total
rate = C(b,k) lambda; block-counting rate = product of binomials times lambda; Beta rate = ratio of
Beta functions = the Lambda-integral; non-negativity, consistency, alpha = 2 and c = 0 reduce to
Kingman, outcome sums (Vandermonde), time scales.

This file restates the theorems the property rests on (full statements; proofs are in PGProofs/).
Generated once by harness/mkprops.py from harness/props_table.py + PGProperties/extra/C14.lean.in; committed as source.
-/
import PGProofs.GenBridge
import PGProofs.RatesThm

set_option linter.all false
set_option pp.fieldNotation.generalized false

namespace PG.C14
open PG

/-- TRANSLATION TIE: the definitions generated from the Python AST of StandardCoalescent equal the model -/
theorem generated_eq_model_kingman : (∀ (b k : ℕ), Gen.StandardCoalescent__get_rate b k = ↑(getRate Model.kingman b k)) ∧ (∀ (n : ℕ) (bs ks : List ℕ), List.length ks ≤ List.length bs → Gen.StandardCoalescent__get_rate_block_counting n bs ks = ↑(getRateBC Model.kingman n bs ks)) ∧ ∀ (N : ℚ), some (Gen.StandardCoalescent__get_timescale ↑N) = Option.map (fun q ↦ ↑q) (timescaleRat Model.kingman N) := @PG.gen_standard_eq_model

/-- TRANSLATION TIE: BetaCoalescent -/
theorem generated_eq_model_beta : ∀ (a : ℚ) (st : Bool), 0 < a → a < 2 → (∀ (b k : ℕ), 2 ≤ k → k ≤ b → Gen.BetaCoalescent__get_base_rate (↑a) st b k = ↑(betaBase a b k)) ∧ (∀ (b k : ℕ), k ≠ 1 → Gen.BetaCoalescent__get_rate (↑a) st b k = ↑(getRate (Model.beta a st) b k)) ∧ (∀ (n : ℕ) (bs ks : List ℕ), 2 ≤ List.sum ks → List.sum ks ≤ n → Gen.BetaCoalescent__get_rate_block_counting (↑a) st n bs ks = ↑(getRateBC (Model.beta a st) n bs ks)) ∧ (∀ (N : ℚ), Gen.BetaCoalescent__get_timescale (↑a) st ↑N = if st = true then betaTimescale ↑a ↑N else ↑N) ∧ ∀ (N : ℚ), timescaleRat (Model.beta a st) N = if st = true then none else some N := @PG.gen_beta_eq_model

/-- TRANSLATION TIE: DiracCoalescent -/
theorem generated_eq_model_dirac : ∀ (psi c : ℚ) (st : Bool), (∀ (b k : ℕ), Gen.DiracCoalescent__get_rate (↑psi) (↑c) st b k = ↑(getRate (Model.dirac psi c st) b k)) ∧ (∀ (n : ℕ) (bs ks : List ℕ), List.length ks ≤ List.length bs → Gen.DiracCoalescent__get_rate_block_counting (↑psi) (↑c) st n bs ks = ↑(getRateBC (Model.dirac psi c st) n bs ks)) ∧ ∀ (N : ℚ), some (Gen.DiracCoalescent__get_timescale (↑psi) (↑c) st ↑N) = Option.map (fun q ↦ ↑q) (timescaleRat (Model.dirac psi c st) N) := @PG.gen_dirac_eq_model

/-- outside the domain the library uses (k = 1) the source formula and the model polynomial differ: documented, never requested by coalesce -/
theorem generated_beta_k1_differs : type_of% @PG.gen_beta_rate_one_ne := @PG.gen_beta_rate_one_ne   -- (printed statement does not re-elaborate; see the source lemma)

/-- _get_rate(b,k) = C(b,k) * lambda(b,k) -/
theorem total_rate : ∀ (m : Model) (b k : ℕ), 2 ≤ k → k ≤ b → getRate m b k = ↑(Nat.choose b k) * lam m b k := @PG.getRate_eq

/-- _get_rate_block_counting = prod C(b_i,k_i) * lambda(n, sum k) -/
theorem block_rate : ∀ (m : Model) (n : ℕ) (bs ks : List ℕ), BCShape bs ks → List.sum bs ≤ n → getRateBC m n bs ks = ↑(List.prod (List.zipWith Nat.choose bs ks)) * lam m n (List.sum ks) := @PG.getRateBC_eq

/-- Beta rate = B(k-a, b-k+a) / B(a, 2-a) -/
theorem beta_is_beta_function : ∀ (a : ℚ), 0 < a → a < 2 → ∀ (b k : ℕ), 2 ≤ k → k ≤ b → ↑(betaBase a b k) = betaFn (↑k - ↑a) (↑b - ↑k + ↑a) / betaFn (↑a) (2 - ↑a) := @PG.betaBase_eq_Beta

/-- = integral of x^(k-2)(1-x)^(b-k) against Beta(2-a, a) -/
theorem beta_is_lambda_integral : ∀ (α : ℝ), 0 < α → α < 2 → ∀ (b k : ℕ), 2 ≤ k → k ≤ b → betaBaseR α b k = (∫ (t : ℝ) in 0..1, t ^ (k - 2) * (1 - t) ^ (b - k) * (t ^ (1 - α) * (1 - t) ^ (α - 1))) / betaFn (2 - α) α := @PG.betaBaseR_eq_integral

/-- rates are non-negative on the accepted parameter ranges -/
theorem nonneg : ∀ (m : Model), Model.Valid m → ∀ (b k : ℕ), 0 ≤ lam m b k := @PG.lam_nonneg

/-- sampling consistency -/
theorem consistent : ∀ (m : Model) (b k : ℕ), 2 ≤ k → k ≤ b → lam m b k = lam m (b + 1) k + lam m (b + 1) (k + 1) := @PG.lam_consistent

/-- alpha = 2 is Kingman -/
theorem alpha_two : ∀ (st : Bool) (b k : ℕ), 2 ≤ k → k ≤ b → lam (Model.beta 2 st) b k = lam Model.kingman b k := @PG.lam_beta_two

/-- c = 0 is Kingman -/
theorem c_zero : ∀ (psi : ℚ) (st : Bool) (b k : ℕ), lam (Model.dirac psi 0 st) b k = lam Model.kingman b k := @PG.lam_dirac_c_zero

/-- block-counting rates of all outcomes with k merging lineages sum to the lineage-counting rate -/
theorem outcome_sum : ∀ (m : Model) (a : List ℕ) (k : ℕ), 2 ≤ k → k ≤ List.sum a → List.sum (List.map (fun κ ↦ getRateBC m (sumNat a) (selectPos a κ) (selectPos κ κ)) (List.filter (fun κ ↦ decide (sumNat κ = k)) (boxes a))) = getRate m (List.sum a) k := @PG.sum_getRateBC_eq_getRate

/-- generalised Vandermonde on the code enumeration -/
theorem vandermonde : ∀ (a : List ℕ) (k : ℕ), List.sum (List.map (fun κ ↦ prodNat (List.zipWith choose a κ)) (List.filter (fun κ ↦ decide (sumNat κ = k)) (boxes a))) = Nat.choose (List.sum a) k := @PG.vandermonde_boxes

/-- msprime Beta time scale scaling -/
theorem timescale_beta : ∀ (α c N : ℝ), 1 < α → 0 < c → 0 < N → betaTimescale α (c ^ (1 / (α - 1)) * N) = c * betaTimescale α N := @PG.betaTimescale_scale

end PG.C14

#print axioms PG.C14.generated_eq_model_kingman
#print axioms PG.C14.generated_eq_model_beta
#print axioms PG.C14.generated_eq_model_dirac
#print axioms PG.C14.generated_beta_k1_differs
#print axioms PG.C14.total_rate
#print axioms PG.C14.block_rate
#print axioms PG.C14.beta_is_beta_function
#print axioms PG.C14.beta_is_lambda_integral
#print axioms PG.C14.nonneg
#print axioms PG.C14.consistent
#print axioms PG.C14.alpha_two
#print axioms PG.C14.c_zero
#print axioms PG.C14.outcome_sum
#print axioms PG.C14.vandermonde
#print axioms PG.C14.timescale_beta
