/-
# C07 — Vectorised evaluation is pointwise and independent of argument order

Whenever a function accepts several times at once (CDF, density, moment accumulation, SFS
accumulation, epoch lookup), the i-th returned value is the value for the i-th supplied time,
identical to evaluating that time alone, for any ordering, duplication or container type of the
times.

Quantifier: for all finite sequences of non-negative times in every permutation (sorted, reversed, arbitrary,
with repeats), given as list, tuple or array

Proved for every finite sequence of times, any order, any duplicates: scatter with the inverse
sorting permutation after a sorted sweep returns the i-th value for the i-th time; instantiated for
_accumulate, cdf, pdf (two vector cdf calls, PdfVec) and get_epochs. The pinned gather variant is
refuted on [2, 1/2, 1] and characterised (correct iff the sort is an involution).

This file restates the theorems the property rests on (full statements; proofs are in PGProofs/).
Generated once by harness/mkprops.py from harness/props_table.py + PGProperties/extra/C07.lean.in; committed as source.
-/
import PGProofs.Glue
import PGProofs.DemographyThm
import PGProofs.EndToEnd2
import PGProofs.PdfVec

set_option linter.all false
set_option pp.fieldNotation.generalized false

namespace PG.C07
open PG

/-- scatterBack ts (map f (sort ts)) = map f ts -/
theorem scatter_argsort : ∀ {α : Type u_1} [inst : Inhabited α] (ts : List ℚ) (f : ℚ → α), scatterBack ts (List.map f (sortRat ts)) = List.map f ts := @PG.scatter_argsort

/-- same for any list of values computed at the sorted positions -/
theorem scatter_argsort_general : type_of% @PG.scatter_argsort' := @PG.scatter_argsort'   -- (printed statement does not re-elaborate; see the source lemma)

/-- _accumulate -/
theorem accumulate_pointwise : ∀ {K : Type} [inst : Field K] [inst_1 : LinearOrder K] [inst_2 : IsStrictOrderedRing K] {ι : Type} [inst_3 : Fintype ι] [inst_4 : DecidableEq ι] {k : ℕ} (L : ExpLaw K) (S : ℕ → Matrix ι ι K) (R : Fin k → ι → K) (α : ι → K) (eps : List EpochT) (ts : List ℚ), codeVectorised (fun fs ↦ accumVal L S R α (castF fs)) eps ts = List.map (fun t ↦ accumVal L S R α (castF (specFactors eps t))) ts := @PG.code_accumulate_pointwise

/-- cdf (and pdf, two cdf calls) -/
theorem cdf_pointwise : ∀ {K : Type} [inst : Field K] [inst_1 : LinearOrder K] [inst_2 : IsStrictOrderedRing K] {ι : Type} [inst_3 : Fintype ι] [inst_4 : DecidableEq ι] (L : ExpLaw K) (S : ℕ → Matrix ι ι K) (α exitVec : ι → K) (eps : List EpochT) (ts : List ℚ), codeVectorised (fun fs ↦ cdfVal L S α exitVec (castF fs)) eps ts = List.map (fun t ↦ cdfVal L S α exitVec (castF (specFactors eps t))) ts := @PG.code_cdf_pointwise

/-- get_epochs -/
theorem get_epochs_pointwise : ∀ (eps : List Epoch), Tiled eps → ∀ (ts : List ℚ), (∀ t ∈ ts, 0 ≤ t) → getEpochIdx eps ts = List.map (fun t ↦ some (epochOf eps t)) ts := @PG.getEpochIdx_spec

/-- argsort is a permutation of the positions -/
theorem argsort_is_permutation : ∀ (ts : List ℚ), List.Perm (argsort ts) (List.range (List.length ts)) := @PG.argsort_perm

/-- the sweep sees the times in ascending order -/
theorem sorted : ∀ (ts : List ℚ), List.Pairwise (fun x1 x2 ↦ x1 ≤ x2) (sortRat ts) := @PG.sortRat_sorted

/-- indexing with argsort instead of its inverse is wrong on [2, 1/2, 1] -/
theorem pinned_counterexample : gatherPinned [2, 1 / 2, 1] (List.map (fun t ↦ t) (sortRat [2, 1 / 2, 1])) ≠ List.map (fun t ↦ t) [2, 1 / 2, 1] := @PG.gatherPinned_counterexample

/-- it is right when the sorting permutation is an involution (why reversed / sorted inputs hid the defect) -/
theorem pinned_correct_only_for_involutions : type_of% @PG.gatherPinned_of_involutive := @PG.gatherPinned_of_involutive   -- (printed statement does not re-elaborate; see the source lemma)

/-- entry i of a vector cdf call is the labelled cdf at times[i], whatever the other times -/
theorem end_to_end_cdf_vector : ∀ {D : ℕ} {K : Type} [inst : Field K] [inst_1 : LinearOrder K] [inst_2 : IsStrictOrderedRing K] {m : Model} {cinit : Fin D → ℕ} {ts : ℕ → Fin D → ℚ} {mig : ℕ → Fin D → Fin D → ℚ} {r : ℕ → ℚ} {fuel : ℕ → ℕ} {G : ℕ → Graph}, (∀ (e : ℕ), bfs (transit m (mkEpoch (ts e) (mig e) (r e))) (encLC cinit) (fuel e) = some (G e)) → ∀ (L : ExpLaw K) (n : ℕ) (c0 : Fin D → ℕ) (x0 : Assembly.LabS encLC (G 0).visited (∑ d, cinit d)), cntF (Assembly.LabP.val x0) = c0 → ∀ (eps : List EpochT) (times : List ℚ), (∀ t ∈ times, 0 ≤ t) → ∃ out, EndToEnd.cdfCallK L G n c0 eps times = Except.ok out ∧ List.length out = List.length times ∧ ∀ (i : ℕ) (hi : i < List.length times), List.getD out i 0 = EndToEnd.labCdf L m ts mig G cinit n x0 eps times[i] := @PG.EndToEnd.cdf_call_entry_eq_labelled

/-- pdf(times, dx) = two vector cdf calls at max(t - dx/2, 0) and that + dx: entry i is the difference quotient of the direct cdf at times[i] -/
theorem pdf_pointwise : ∀ {K : Type} [inst : Field K] [inst_1 : LinearOrder K] [inst_2 : IsStrictOrderedRing K] {ι : Type} [inst_3 : Fintype ι] [inst_4 : DecidableEq ι] (L : ExpLaw K) (S : ℕ → Matrix ι ι K) (α exitVec : ι → K) (eps : List EpochT) (dx : ℚ) (ts : List ℚ), codePdf (codeVectorised (fun fs ↦ cdfVal L S α exitVec (castF fs)) eps) dx ts = List.map (pdfAt (fun t ↦ cdfVal L S α exitVec (castF (specFactors eps t))) dx) ts := @PG.code_pdf_pointwise

/-- any entry of a vector pdf call equals the one-element call for that time -/
theorem pdf_entry_eq_single : type_of% @PG.code_pdf_entry_eq_single := @PG.code_pdf_entry_eq_single   -- (printed statement does not re-elaborate; see the source lemma)

/-- permuting the supplied times permutes the pdf values the same way -/
theorem pdf_perm : ∀ {K : Type} [inst : Field K] [inst_1 : LinearOrder K] [inst_2 : IsStrictOrderedRing K] {ι : Type} [inst_3 : Fintype ι] [inst_4 : DecidableEq ι] (L : ExpLaw K) (S : ℕ → Matrix ι ι K) (α exitVec : ι → K) (eps : List EpochT) (dx : ℚ) {ts ts' : List ℚ}, List.Perm ts ts' → List.Perm (codePdf (codeVectorised (fun fs ↦ cdfVal L S α exitVec (castF fs)) eps) dx ts) (codePdf (codeVectorised (fun fs ↦ cdfVal L S α exitVec (castF fs)) eps) dx ts') := @PG.code_pdf_perm

/-- the evaluation points of pdf are never negative -/
theorem pdf_points_nonneg : ∀ (dx t : ℚ), 0 ≤ pdfX1 dx t := @PG.pdfX1_nonneg

/-- for t >= dx/2 the window is [t - dx/2, t + dx/2] -/
theorem pdf_window_centred : ∀ (dx t : ℚ), dx / 2 ≤ t → pdfX1 dx t = t - dx / 2 ∧ pdfX2 dx t = t + dx / 2 := @PG.pdf_window_centred

/-- for t <= dx/2 the window is [0, dx] -/
theorem pdf_window_at_zero : ∀ (dx t : ℚ), t ≤ dx / 2 → pdfX1 dx t = 0 ∧ pdfX2 dx t = dx := @PG.pdf_window_at_zero

/-! ## hand-written part: glue, non-vacuity examples, counterexamples -/
/-- the statement on a concrete 3-cycle: the repaired scatter returns the values in input order -/
theorem example_three_cycle : scatterBack [2, 1/2, 1] ((sortRat [2, 1/2, 1]).map fun t => 10 * t) = [20, 5, 10] := by
  decide +kernel

end PG.C07

#print axioms PG.C07.scatter_argsort
#print axioms PG.C07.scatter_argsort_general
#print axioms PG.C07.accumulate_pointwise
#print axioms PG.C07.cdf_pointwise
#print axioms PG.C07.get_epochs_pointwise
#print axioms PG.C07.argsort_is_permutation
#print axioms PG.C07.sorted
#print axioms PG.C07.pinned_counterexample
#print axioms PG.C07.pinned_correct_only_for_involutions
#print axioms PG.C07.end_to_end_cdf_vector
#print axioms PG.C07.pdf_pointwise
#print axioms PG.C07.pdf_entry_eq_single
#print axioms PG.C07.pdf_perm
#print axioms PG.C07.pdf_points_nonneg
#print axioms PG.C07.pdf_window_centred
#print axioms PG.C07.pdf_window_at_zero
#print axioms PG.C07.example_three_cycle
