/-
# C12 — Per-population and per-locus marginals decompose the totals

The per-population marginals of any statistic sum to the statistic itself (mean; and the entries of
the between-population covariance matrix sum to its variance), the per-locus branch lengths sum to
the total over loci, marginal covariance matrices are symmetric and positive semi-definite with
correlations in [-1,1] wherever both variances are positive, and a population that can never hold a
lineage contributes exactly zero.

Quantifier: for all structured configurations with 2-3 demes, all demographies, tree height / branch length /
SFS, one and two loci

Proved: deme rewards sum to one and product rewards decompose, per-locus branch rewards sum to the
total, first moments are linear (means decompose), covariance is symmetric; a set of states that is
never entered contributes nothing (accumVal_congr_closed). Partial: positive semi-definiteness needs
the probabilistic representation PT1.

This file restates the theorems the property rests on (full statements; proofs are in PGProofs/).
Generated once by harness/mkprops.py from harness/props_table.py + PGProperties/extra/C12.lean.in; committed as source.
-/
import PGProofs.Corollaries
import PGProofs.DemePerm
import PGProofs.Conservation
import PGProofs.RewardsThm
import PGProofs.SampleConsistency
import PGProofs.Marginal
import PGProofs.MomentsThm
import PGProofs.MarginalsThm
import PGProofs.EndToEnd3

set_option linter.all false
set_option pp.fieldNotation.generalized false

namespace PG.C12
open PG

/-- HEADLINE: on the code matrices, a deme with no sample and no migration into it has marginal moments exactly 0 -/
theorem empty_deme_zero : ∀ {K : Type} [inst : Field K] [inst_1 : LinearOrder K] [inst_2 : IsStrictOrderedRing K] {k : ℕ} (L : ExpLaw K) {D : ℕ} {m : Model} {cinit : Fin D → ℕ} {ts : ℕ → Fin D → ℚ} {mig : ℕ → Fin D → Fin D → ℚ} {r : ℕ → ℚ} {fuel : ℕ → ℕ} {G : ℕ → Graph}, (∀ (e : ℕ), bfs (transit m (mkEpoch (ts e) (mig e) (r e))) (encLC cinit) (fuel e) = some (G e)) → ∀ (p : Fin D), (∀ (e : ℕ) (d : Fin D), d ≠ p → mig e d p = 0) → ∀ (α : Fin (List.length (G 0).visited) → K), (∀ (j : Fin (List.length (G 0).visited)) (c : Fin D → ℕ), (G 0).visited[j] = encLC c → c p ≠ 0 → α j = 0) → ∀ (n : ℕ) (rwd : Fin k → Reward) (a : Fin k) (rs : List Reward), rwd a = Reward.prod (Reward.deme ↑p :: rs) → ∀ (fs : List (ℕ × K)), accumVal L (fun e ↦ Matrix.map (Assembly.codeMat G e) fun q ↦ ↑q) (fun b j ↦ ↑(Reward.eval n (G 0).visited[j] (rwd b))) α fs = 0 := @PG.Corollaries.C12_lineage_code

/-- generic form -/
theorem empty_deme_zero_generic : ∀ {K : Type} [inst : Field K] [inst_1 : LinearOrder K] [inst_2 : IsStrictOrderedRing K] {ι : Type} [inst_3 : Fintype ι] [inst_4 : DecidableEq ι] {k : ℕ} (L : ExpLaw K) {D : ℕ} (dec : ι → Fin D → ℕ), Function.Injective dec → ∀ (lam : ℕ → ℕ → K) (ts : ℕ → Fin D → K) (mig : ℕ → Fin D → Fin D → K) (S : ℕ → Matrix ι ι K), (∀ (e : ℕ) (f : (Fin D → ℕ) → K) (i : ι), ∑ j, S e i j * f (dec j) = QCs (linRate lam (ts e) (mig e)) linRes f (dec i)) → ∀ (p : Fin D), (∀ (e : ℕ) (d : Fin D), d ≠ p → mig e d p = 0) → ∀ (α : ι → K), (∀ (i : ι), dec i p ≠ 0 → α i = 0) → ∀ (R : Fin k → ι → K) (a : Fin k) (g : ι → K), (∀ (i : ι), R a i = g i * Corollaries.demeFrac p (dec i)) → ∀ (fs : List (ℕ × K)), accumVal L S R α fs = 0 := @PG.Corollaries.C12_zero_deme

/-- a moment with a vanishing reward slot is 0 -/
theorem zero_slot : ∀ {K : Type} [inst : Field K] [inst_1 : LinearOrder K] [inst_2 : IsStrictOrderedRing K] {ι : Type} [inst_3 : Fintype ι] [inst_4 : DecidableEq ι] {k : ℕ} (L : ExpLaw K) (S : ℕ → Matrix ι ι K) (R : Fin k → ι → K) (a : Fin k), (∀ (i : ι), R a i = 0) → ∀ (α : ι → K) (fs : List (ℕ × K)), accumVal L S R α fs = 0 := @PG.Corollaries.accumVal_zero_slot

/-- covariances of parts sum to the variance of the total -/
theorem cov_sum : ∀ {K : Type} [inst : Field K] [inst_1 : LinearOrder K] [inst_2 : IsStrictOrderedRing K] {ι : Type} [inst_3 : Fintype ι] [inst_4 : DecidableEq ι] {J : Type} [DecidableEq J] (L : ExpLaw K) (S : ℕ → Matrix ι ι K) (s : Finset J) (r : J → ι → K) (α : ι → K) (fs : List (ℕ × K)), ∑ j ∈ s, ∑ j' ∈ s, Conservation.covVal L S (r j) (r j') α fs = Conservation.covVal L S (fun i ↦ ∑ j ∈ s, r j i) (fun i ↦ ∑ j ∈ s, r j i) α fs := @PG.Conservation.sum_cov

/-- covariance is bilinear over weighted finite sums -/
theorem cov_bilinear : ∀ {K : Type} [inst : Field K] [inst_1 : LinearOrder K] [inst_2 : IsStrictOrderedRing K] {ι : Type} [inst_3 : Fintype ι] [inst_4 : DecidableEq ι] {J : Type} [DecidableEq J] (L : ExpLaw K) {J' : Type} [DecidableEq J'] (S : ℕ → Matrix ι ι K) (s : Finset J) (t : Finset J') (w : J → K) (w' : J' → K) (r : J → ι → K) (r' : J' → ι → K) (α : ι → K) (fs : List (ℕ × K)), Conservation.covVal L S (fun i ↦ ∑ j ∈ s, w j * r j i) (fun i ↦ ∑ j' ∈ t, w' j' * r' j' i) α fs = ∑ j ∈ s, ∑ j' ∈ t, w j * w' j' * Conservation.covVal L S (r j) (r' j') α fs := @PG.Conservation.covVal_bilinear

/-- any pointwise linear identity between rewards passes to means -/
theorem mean_transfer : type_of% @PG.Conservation.mean_of_pointwise := @PG.Conservation.mean_of_pointwise   -- (printed statement does not re-elaborate; see the source lemma)

/-- and to covariances -/
theorem cov_transfer : ∀ {K : Type} [inst : Field K] [inst_1 : LinearOrder K] [inst_2 : IsStrictOrderedRing K] {ι : Type} [inst_3 : Fintype ι] [inst_4 : DecidableEq ι] {J : Type} [DecidableEq J] {J' : Type} [DecidableEq J'] (L : ExpLaw K) (S : ℕ → Matrix ι ι K) (s : Finset J) (t : Finset J') (w : J → K) (w' : J' → K) (r : J → ι → K) (r' : J' → ι → K), (∀ (i : ι), ∑ j ∈ s, w j * r j i = ∑ j' ∈ t, w' j' * r' j' i) → ∀ (α : ι → K) (fs : List (ℕ × K)), ∑ j ∈ s, ∑ j₂ ∈ s, w j * w j₂ * Conservation.covVal L S (r j) (r j₂) α fs = ∑ j' ∈ t, ∑ j₂' ∈ t, w' j' * w' j₂' * Conservation.covVal L S (r' j') (r' j₂') α fs := @PG.Conservation.cov_of_pointwise

/-- sum over demes of the deme reward is 1 -/
theorem deme_sum_one : ∀ (n : ℕ) (s : State) (D : ℕ), 0 < State.total s → (∀ l < State.nLoci s, List.length (List.getD s.lin l []) = D) → ∑ d ∈ Finset.range D, Reward.eval n s (Reward.deme d) = 1 := @PG.deme_rewards_sum_one

/-- sum over demes of r * deme reward = r -/
theorem deme_product_decomposes : ∀ (n : ℕ) (s : State) (D : ℕ) (r : Reward), 0 < State.total s → (∀ l < State.nLoci s, List.length (List.getD s.lin l []) = D) → ∑ d ∈ Finset.range D, Reward.eval n s (Reward.prod [r, Reward.deme d]) = Reward.eval n s r := @PG.deme_prod_sum

/-- per-locus branch lengths sum to the total -/
theorem loci_sum : ∀ (n : ℕ) (s : State), Reward.eval n s Reward.totalBranchLength = ∑ l ∈ Finset.range (State.nLoci s), Reward.eval n s (Reward.tblLocus l) := @PG.tbl_eq_sum_tblLocus

/-- means are linear in the reward -/
theorem mean_linear : type_of% @PG.accumVal_one_linear := @PG.accumVal_one_linear   -- (printed statement does not re-elaborate; see the source lemma)

/-- covariance entries are symmetric -/
theorem cross_moment_symmetric : ∀ {ρ : Type u_1} [inst : Inhabited ρ] (raw : List ρ → ℚ) (center : Bool) (a b : ρ), accumulateModel raw center true [a, b] = accumulateModel raw center true [b, a] := @PG.accumulate_swap

/-- rewards may be changed outside a closed class carrying the initial mass -/
theorem unreachable_states_irrelevant : ∀ {K : Type} [inst : Field K] [inst_1 : LinearOrder K] [inst_2 : IsStrictOrderedRing K] {ι : Type} [inst_3 : Fintype ι] [inst_4 : DecidableEq ι] {k : ℕ} (L : ExpLaw K) (S : ℕ → Matrix ι ι K) (R R' : Fin k → ι → K) (α : ι → K) (N : Finset ι), (∀ (e : ℕ) (i j : ι), i ∈ N → j ∉ N → S e i j = 0) → (∀ i ∉ N, α i = 0) → (∀ (a : Fin k), ∀ i ∈ N, R a i = R' a i) → ∀ (fs : List (ℕ × K)), accumVal L S R α fs = accumVal L S R' α fs := @PG.Marginal.accumVal_congr_closed

/-- ASSEMBLY LAYER (MarginalDeme/LocusDistributions): get_cov(a, b) = get_cov(b, a), exceptions included -/
theorem marg_getcov_symm : ∀ {K : Type} [inst : Field K] [CharZero K] [inst_2 : MomVal K] [Marginals.LawfulMomVal K] (d : Marginals.Dist) (raw : List Reward → K) (k : Marginals.Kind) (a b : ℕ), Marginals.getCov Marginals.Variant.current d raw k a b = Marginals.getCov Marginals.Variant.current d raw k b a := @PG.Marginals.getCov_symm

/-- the diagonal of cov is the variance of the sub-distribution of that part -/
theorem marg_cov_diag : ∀ {K : Type} [inst : Field K] [CharZero K] [inst_2 : MomVal K] [Marginals.LawfulMomVal K] (d : Marginals.Dist) (raw : List Reward → K) (k : Marginals.Kind), ∀ a < Marginals.Dist.size d k, Marginals.getCov Marginals.Variant.current d raw k a a = Except.ok (Marginals.margVar raw d.reward k a) := @PG.Marginals.cov_diag_eq_margVar

/-- the matrix [[get_cov(p1, p2) for p1] for p2] is symmetric (the transpose layout is harmless) -/
theorem marg_cov_matrix_symm : ∀ {K : Type} [inst : Field K] [CharZero K] [inst_2 : MomVal K] [Marginals.LawfulMomVal K] (d : Marginals.Dist) (raw : List Reward → K) (k : Marginals.Kind) (M : List (List K)), Marginals.covMatrix Marginals.Variant.current d raw k = Except.ok M → ∀ (i j : ℕ), i < Marginals.Dist.size d k → j < Marginals.Dist.size d k → Marginals.entry M i j = Marginals.entry M j i := @PG.Marginals.cov_matrix_symm

/-- the entries of cov sum to the variance of the total whenever the part rewards sum to the total reward (slot-additive raw functional) -/
theorem marg_cov_sum : ∀ {K : Type} [inst : Field K] [CharZero K] [inst_2 : MomVal K] [Marginals.LawfulMomVal K] {n : ℕ} {S : State → Prop} {raw : List Reward → K} (d : Marginals.Dist) (k : Marginals.Kind), Marginals.SlotAdditiveOn n S raw → Marginals.IsPartition n S d k → ∑ a ∈ Finset.range (Marginals.Dist.size d k), ∑ b ∈ Finset.range (Marginals.Dist.size d k), Marginals.covCore Marginals.Variant.current d raw k a b = Marginals.distVar raw d.reward := @PG.Marginals.cov_sum_eq_var

/-- part means sum to the mean -/
theorem marg_mean_sum : ∀ {K : Type} [inst : Field K] [CharZero K] [inst_2 : MomVal K] [Marginals.LawfulMomVal K] {n : ℕ} {S : State → Prop} {raw : List Reward → K} (d : Marginals.Dist) (k : Marginals.Kind), Marginals.SlotAdditiveOn n S raw → Marginals.IsPartition n S d k → ∑ i ∈ Finset.range (Marginals.Dist.size d k), Marginals.margMean raw d.reward k i = Marginals.distMean raw d.reward := @PG.Marginals.mean_sum_eq_mean

/-- deme rewards partition any base reward on states with at least one lineage -/
theorem marg_partition_demes : ∀ (n : ℕ) (S : State → Prop) (d : Marginals.Dist), (∀ (s : State), S s → Marginals.DemeShape d.nDemes s) → Marginals.IsPartition n S d Marginals.Kind.demes := @PG.Marginals.isPartition_demes

/-- locus rewards partition the total branch length -/
theorem marg_partition_loci : ∀ (n : ℕ) (S : State → Prop) (d : Marginals.Dist), d.reward = Reward.totalBranchLength → (∀ (s : State), S s → State.nLoci s = d.nLoci) → Marginals.IsPartition n S d Marginals.Kind.loci := @PG.Marginals.isPartition_loci_tbl

/-- corr * (sd_a sd_b) = cov and corr^2 var_a var_b = cov^2 (exact square roots) -/
theorem marg_corr : ∀ {K : Type} [inst : Field K] [CharZero K] [inst_2 : MomVal K] [Marginals.LawfulMomVal K] (ops : Marginals.CorrOps K), Marginals.CorrOps.Lawful ops → ∀ (d : Marginals.Dist) (raw : List Reward → K) (k : Marginals.Kind) (a b : ℕ), a < Marginals.Dist.size d k → b < Marginals.Dist.size d k → ops.sqrt (Marginals.margVar raw d.reward k a) * ops.sqrt (Marginals.margVar raw d.reward k a) = Marginals.margVar raw d.reward k a → ops.sqrt (Marginals.margVar raw d.reward k b) * ops.sqrt (Marginals.margVar raw d.reward k b) = Marginals.margVar raw d.reward k b → Marginals.margVar raw d.reward k a ≠ 0 → Marginals.margVar raw d.reward k b ≠ 0 → ∃ c, Marginals.getCorr ops Marginals.Variant.current d raw k a b = Except.ok c ∧ c * (ops.sqrt (Marginals.margVar raw d.reward k a) * ops.sqrt (Marginals.margVar raw d.reward k b)) = Marginals.covCore Marginals.Variant.current d raw k a b ∧ c ^ 2 * Marginals.margVar raw d.reward k a * Marginals.margVar raw d.reward k b = Marginals.covCore Marginals.Variant.current d raw k a b ^ 2 := @PG.Marginals.corr_is_normalised_cov

/-- corr[a][a] = 1 when the variance is non-zero -/
theorem marg_corr_diag : ∀ {K : Type} [inst : Field K] [CharZero K] [inst_2 : MomVal K] [Marginals.LawfulMomVal K] (ops : Marginals.CorrOps K), Marginals.CorrOps.Lawful ops → ∀ (d : Marginals.Dist) (raw : List Reward → K) (k : Marginals.Kind), ∀ a < Marginals.Dist.size d k, ops.sqrt (Marginals.margVar raw d.reward k a) * ops.sqrt (Marginals.margVar raw d.reward k a) = Marginals.margVar raw d.reward k a → Marginals.margVar raw d.reward k a ≠ 0 → Marginals.getCorr ops Marginals.Variant.current d raw k a a = Except.ok 1 := @PG.Marginals.corr_diag_one

/-- a part whose reward the functional kills has mean, variance and covariances 0 -/
theorem marg_empty_part : ∀ {K : Type} [inst : Field K] [CharZero K] [inst_2 : MomVal K] [Marginals.LawfulMomVal K] (d : Marginals.Dist) (raw : List Reward → K) (k : Marginals.Kind) (i : ℕ), Marginals.KillsPart raw (Marginals.subReward d.reward k i) → Marginals.margMean raw d.reward k i = 0 ∧ Marginals.margVar raw d.reward k i = 0 ∧ ∀ (a : ℕ), Marginals.covCore Marginals.Variant.current d raw k a i = 0 ∧ Marginals.covCore Marginals.Variant.current d raw k i a = 0 := @PG.Marginals.empty_part_zero

/-- all of the above for the code model functional codeRaw (slot additivity from accumVal_slot_linear) -/
theorem marg_code_demes : type_of% @PG.Marginals.code_deme_marginals := @PG.Marginals.code_deme_marginals   -- (printed statement does not re-elaborate; see the source lemma)

/-- kernel-checked: permute=False in get_cov with a symmetrised .cov leaves get_cov / corr asymmetric -/
theorem marg_no_permute_defect : Marginals.covCore Marginals.Variant.demeCovNoPermute Marginals.Examples.distA Marginals.Examples.rawA Marginals.Kind.demes 0 1 = 25 / 18 ∧ Marginals.covCore Marginals.Variant.demeCovNoPermute Marginals.Examples.distA Marginals.Examples.rawA Marginals.Kind.demes 1 0 = 5 / 6 := @PG.Marginals.Examples.demeCovNoPermute_violates_getCov_symm

/-- deme marginals of the code functional decompose the total with NO hypothesis on the visited states (DemeShape derived from the BFS invariant 1 <= sum c <= sum cinit) -/
theorem marg_code_demes_unconditional : type_of% @PG.EndToEnd.code_deme_marginals_unconditional := @PG.EndToEnd.code_deme_marginals_unconditional   -- (printed statement does not re-elaborate; see the source lemma)

end PG.C12

#print axioms PG.C12.empty_deme_zero
#print axioms PG.C12.empty_deme_zero_generic
#print axioms PG.C12.zero_slot
#print axioms PG.C12.cov_sum
#print axioms PG.C12.cov_bilinear
#print axioms PG.C12.mean_transfer
#print axioms PG.C12.cov_transfer
#print axioms PG.C12.deme_sum_one
#print axioms PG.C12.deme_product_decomposes
#print axioms PG.C12.loci_sum
#print axioms PG.C12.mean_linear
#print axioms PG.C12.cross_moment_symmetric
#print axioms PG.C12.unreachable_states_irrelevant
#print axioms PG.C12.marg_getcov_symm
#print axioms PG.C12.marg_cov_diag
#print axioms PG.C12.marg_cov_matrix_symm
#print axioms PG.C12.marg_cov_sum
#print axioms PG.C12.marg_mean_sum
#print axioms PG.C12.marg_partition_demes
#print axioms PG.C12.marg_partition_loci
#print axioms PG.C12.marg_corr
#print axioms PG.C12.marg_corr_diag
#print axioms PG.C12.marg_empty_part
#print axioms PG.C12.marg_code_demes
#print axioms PG.C12.marg_no_permute_defect
#print axioms PG.C12.marg_code_demes_unconditional
