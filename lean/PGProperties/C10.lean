/-
# C10 — Accumulation over time is consistent: refinement, truncation, additivity

Inserting redundant change points (a change to the value already in force) or evaluating on a finer
time grid never changes a result; a moment with end time T equals the accumulation curve at T,
whether T is given to the Coalescent or to the call, and the default (no end time) equals the
infinite-horizon value or else a warning is logged that the horizon could not be reached. First
moments are additive over adjacent windows [0,a] and [a,b], and raw (uncentred) accumulation curves
of non-negative rewards are non-decreasing in time.

Quantifier: for all configurations, all redundant refinements of the epoch grid, all 0 <= a <= b, all evaluation
grids (including points on epoch boundaries and beyond the last change)

Proved: redundant boundaries merge (E_add), the sweep over any grid equals direct evaluation (so
refinement and the three end-time routes agree), durations of a direct evaluation are non-negative
and sum to t, raw accumulation of non-negative rewards is non-decreasing, the horizon search either
reaches p_absorption or must warn. Partial: the threshold 1 - 1e-15 itself is numeric.

This file restates the theorems the property rests on (full statements; proofs are in PGProofs/).
Generated once by harness/mkprops.py from harness/props_table.py + PGProperties/extra/C10.lean.in; committed as source.
-/
import PGProofs.MeanIncrement
import PGProofs.Glue
import PGProofs.ApiThm
import PGProofs.WindowVar

set_option linter.all false
set_option pp.fieldNotation.generalized false

namespace PG.C10
open PG

/-- the cached property var of a windowed distribution is the difference of the CENTRED second-order accumulation curve at the two ends of the window -/
theorem window_var_curve_difference : ∀ {ρ : Type} (ctx : Api.DistCtx ρ), 0 < ctx.startDefault → 0 ≤ ctx.tMax → Api.propVar ctx = Except.ok (Api.c2At ctx ctx.tMax - Api.c2At ctx ctx.startDefault) := @PG.Api.propVar_curve_difference

/-- m2 - mean**2 (a seeded change, twice) differs from it by 2 m1(start) (m1(end) - m1(start)) -/
theorem window_var_shortcut_gap : ∀ {ρ : Type} (ctx : Api.DistCtx ρ), 0 < ctx.startDefault → ∀ (v w : ℚ), Api.propVar ctx = Except.ok v → Api.shortcutVar ctx = Except.ok w → w - v = 2 * Api.m1At ctx ctx.startDefault * (Api.m1At ctx ctx.tMax - Api.m1At ctx ctx.startDefault) := @PG.Api.shortcutVar_sub_propVar

/-- and agrees exactly when m1(start) = 0 or m1(end) = m1(start) -/
theorem window_var_shortcut_iff : ∀ {ρ : Type} (ctx : Api.DistCtx ρ), 0 < ctx.startDefault → ∀ (v w : ℚ), Api.propVar ctx = Except.ok v → Api.shortcutVar ctx = Except.ok w → (w = v ↔ Api.m1At ctx ctx.startDefault = 0 ∨ Api.m1At ctx ctx.tMax = Api.m1At ctx ctx.startDefault) := @PG.Api.shortcut_eq_var_iff

/-- kernel-checked instance: var 63, shortcut 77 on the window [1/2, 4] -/
theorem window_var_shortcut_counterexample : Api.propMean Api.ctxEx = Except.ok 7 ∧ Api.propM2 Api.ctxEx = Except.ok 126 ∧ Api.propVar Api.ctxEx = Except.ok 63 ∧ Api.shortcutVar Api.ctxEx = Except.ok 77 ∧ Api.shortcutVar Api.ctxEx ≠ Api.propVar Api.ctxEx := @PG.Api.var_shortcut_differs

/-- first moments are additive over adjacent windows: the increment over [a,b] is a function of the distribution at a -/
theorem additive_windows : type_of% @PG.accum_increment := @PG.accum_increment   -- (printed statement does not re-elaborate; see the source lemma)

/-- E(s V) E(t V) = E((s+t) V) -/
theorem redundant_boundary : ∀ {K : Type} [inst : Field K] [inst_1 : LinearOrder K] [inst_2 : IsStrictOrderedRing K] {κ : Type} [inst_3 : Fintype κ] [inst_4 : DecidableEq κ] (L : ExpLaw K) (V : ℕ → Matrix κ κ K) (e : ℕ) (s t : K) (fs : List (ℕ × K)), evalFactors L V ((e, s) :: (e, t) :: fs) = evalFactors L V ((e, s + t) :: fs) := @PG.redundant_boundary

/-- a zero-length piece contributes the identity -/
theorem zero_duration : ∀ {K : Type} [inst : Field K] [inst_1 : LinearOrder K] [inst_2 : IsStrictOrderedRing K] {κ : Type} [inst_3 : Fintype κ] [inst_4 : DecidableEq κ] (L : ExpLaw K) (V : ℕ → Matrix κ κ K) (e : ℕ) (fs : List (ℕ × K)), evalFactors L V ((e, 0) :: fs) = evalFactors L V fs := @PG.evalFactors_zero_duration

/-- any evaluation grid: every entry is the direct evaluation at its time -/
theorem grid_refinement : ∀ {K : Type} [inst : Field K] [inst_1 : LinearOrder K] [inst_2 : IsStrictOrderedRing K] {ι : Type} [inst_3 : Fintype ι] [inst_4 : DecidableEq ι] {k : ℕ} (L : ExpLaw K) (S : ℕ → Matrix ι ι K) (R : Fin k → ι → K) (α : ι → K) (eps : List EpochT) (ts : List ℚ), codeVectorised (fun fs ↦ accumVal L S R α (castF fs)) eps ts = List.map (fun t ↦ accumVal L S R α (castF (specFactors eps t))) ts := @PG.code_accumulate_pointwise

/-- the pieces up to t are non-negative and add up to t -/
theorem direct_durations : ∀ (eps : List EpochT) (t : ℚ), WF eps 0 → 0 ≤ t → (∀ f ∈ specFactors eps t, 0 ≤ f.2) ∧ List.sum (List.map (fun x ↦ x.2) (specFactors eps t)) = t := @PG.specFactors_nonneg_sum

/-- exactly the epochs that start before t, each cut at t -/
theorem direct_pieces : ∀ (eps : List EpochT) (t : ℚ), WF eps 0 → 0 < t → specFactors eps t = List.map (fun p ↦ (p.2, capStop p.1 t - p.1.start)) (List.filter (fun p ↦ decide (p.1.start < t)) (List.zipIdx eps)) := @PG.specFactors_durations

/-- raw moments of non-negative rewards do not decrease when time is added -/
theorem monotone : ∀ {K : Type} [inst : Field K] [inst_1 : LinearOrder K] [inst_2 : IsStrictOrderedRing K] {ι : Type} [inst_3 : Fintype ι] [inst_4 : DecidableEq ι] {k : ℕ} (L : ExpLaw K) (S : ℕ → Matrix ι ι K) (R : Fin k → ι → K) (α : ι → K), (∀ (e : ℕ) (i j : ι), i ≠ j → 0 ≤ S e i j) → (∀ (e : ℕ) (i : ι), ∑ j, S e i j = 0) → (∀ (a : Fin k) (i : ι), 0 ≤ R a i) → (∀ (i : ι), 0 ≤ α i) → ∀ (fs : List (ℕ × K)), (∀ f ∈ fs, 0 ≤ f.2) → ∀ (e : ℕ) (τ : K), 0 ≤ τ → accumVal L S R α fs ≤ accumVal L S R α (fs ++ [(e, τ)]) := @PG.accum_mono

/-- the doubling search: no warning iff the threshold was reached; warning implies all iterations used -/
theorem horizon_spec : ∀ (F : ℚ → ℚ) (t0 pAbs : ℚ) (maxIter : ℕ) (t : ℚ) (warn : Bool), absorptionLoop F t0 pAbs maxIter = (t, warn) → (warn = false ↔ pAbs ≤ F t) ∧ ∃ j ≤ maxIter, t = t0 * 2 ^ j ∧ (∀ k < j, F (t0 * 2 ^ k) < pAbs) ∧ (warn = true → j = maxIter) := @PG.absorption_spec

/-- CALL LAYER: moment(end_time=T), moment() on an object whose horizon is T, and accumulate([T]) are the same number -/
theorem call_routes_agree : ∀ {ρ : Type} (v : Api.Variant), v ≠ Api.Variant.falsyTimes → ∀ (ctx : Api.DistCtx ρ) (c : Api.MomentCall ρ) (T : ℚ), Api.resolveTime v c.startTime ctx.startDefault ≤ 0 → Api.momentCall v ctx { k := c.k, rewards := c.rewards, startTime := c.startTime, endTime := some T, center := c.center, permute := c.permute } = Except.map (fun l ↦ List.getD l 0 0) (Api.accumulateCall v ctx c.k c.rewards [T] c.center c.permute) ∧ Api.momentCall v { defaultReward := ctx.defaultReward, startDefault := ctx.startDefault, tMax := T, raw := ctx.raw } { k := c.k, rewards := c.rewards, startTime := c.startTime, center := c.center, permute := c.permute } = Except.map (fun l ↦ List.getD l 0 0) (Api.accumulateCall v ctx c.k c.rewards [T] c.center c.permute) := @PG.Api.api_routes_agree

/-- moment(start_time=a>0, end_time=b) is accumulate at b minus accumulate at a -/
theorem call_window_difference : ∀ {ρ : Type} (v : Api.Variant), v ≠ Api.Variant.falsyTimes → ∀ (ctx : Api.DistCtx ρ) (c : Api.MomentCall ρ) (a b : ℚ), 0 < a → Api.momentCall v ctx (Api.MomentCall.window c a b) = Except.map (fun l ↦ List.getD l 1 0 - List.getD l 0 0) (Api.accumulateCall v ctx c.k c.rewards [a, b] c.center c.permute) := @PG.Api.api_window_difference

/-- windows [0,a] and [a,b] add up to [0,b] for every order and centring flag -/
theorem call_window_additive : ∀ {ρ : Type} (v : Api.Variant), v ≠ Api.Variant.falsyTimes → ∀ (ctx : Api.DistCtx ρ) (c : Api.MomentCall ρ) (a b : ℚ), 0 < a → ∀ (x y : ℚ), Api.momentCall v ctx (Api.MomentCall.window c 0 a) = Except.ok x → Api.momentCall v ctx (Api.MomentCall.window c a b) = Except.ok y → Api.momentCall v ctx (Api.MomentCall.window c 0 b) = Except.ok (x + y) := @PG.Api.api_window_additive

/-- the boundary a = 0 (single-accumulate route) under "nothing accumulated at time 0" -/
theorem call_window_additive_at_zero : ∀ {ρ : Type} (ctx : Api.DistCtx ρ) (c : Api.MomentCall ρ) (b : ℚ), 1 ≤ c.k → (∀ (rs : List ρ), c.rewards = some rs → ↑(List.length rs) = c.k) → (∀ (l : List ρ), l ≠ [] → ctx.raw l 0 = 0) → ∀ (y : ℚ), Api.momentCall Api.Variant.current ctx (Api.MomentCall.window c 0 b) = Except.ok y → Api.momentCall Api.Variant.current ctx (Api.MomentCall.window c 0 0) = Except.ok 0 ∧ Api.momentCall Api.Variant.current ctx (Api.MomentCall.window c 0 b) = Except.ok (0 + y) := @PG.Api.api_window_additive_at_zero

/-- an explicit end_time = 0 yields 0, not the default horizon -/
theorem call_explicit_zero_end : ∀ {ρ : Type} (ctx : Api.DistCtx ρ) (c : Api.MomentCall ρ), c.endTime = some 0 → Api.resolveTime Api.Variant.current c.startTime ctx.startDefault ≤ 0 → 1 ≤ c.k → (∀ (rs : List ρ), c.rewards = some rs → ↑(List.length rs) = c.k) → (∀ (l : List ρ), l ≠ [] → ctx.raw l 0 = 0) → Api.momentCall Api.Variant.current ctx c = Except.ok 0 := @PG.Api.api_explicit_zero_end_value

/-- an explicit start_time = 0 overrides a positive default start -/
theorem call_explicit_zero_start : ∀ {ρ : Type} (v : Api.Variant), v ≠ Api.Variant.falsyTimes → ∀ (ctx : Api.DistCtx ρ) (c : Api.MomentCall ρ) (d : ℚ), Api.momentCall v { defaultReward := ctx.defaultReward, startDefault := d, tMax := ctx.tMax, raw := ctx.raw } { k := c.k, rewards := c.rewards, startTime := some 0, endTime := c.endTime, center := c.center, permute := c.permute } = Api.momentCall v { defaultReward := ctx.defaultReward, startDefault := 0, tMax := ctx.tMax, raw := ctx.raw } { k := c.k, rewards := c.rewards, endTime := c.endTime, center := c.center, permute := c.permute } := @PG.Api.api_explicit_zero_start

/-- None arguments are the defaults (of any value) -/
theorem call_none_is_default : ∀ {ρ : Type} (v : Api.Variant) (ctx : Api.DistCtx ρ) (c : Api.MomentCall ρ), Api.momentCall v ctx { k := c.k, rewards := c.rewards, endTime := c.endTime, center := c.center, permute := c.permute } = Api.momentCall v ctx { k := c.k, rewards := c.rewards, startTime := some ctx.startDefault, endTime := c.endTime, center := c.center, permute := c.permute } ∧ Api.momentCall v ctx { k := c.k, rewards := c.rewards, startTime := c.startTime, center := c.center, permute := c.permute } = Api.momentCall v ctx { k := c.k, rewards := c.rewards, startTime := c.startTime, endTime := some ctx.tMax, center := c.center, permute := c.permute } ∧ Api.momentCall v ctx { k := c.k, startTime := c.startTime, endTime := c.endTime, center := c.center, permute := c.permute } = Api.momentCall v ctx { k := c.k, rewards := some (List.replicate (Int.toNat c.k) ctx.defaultReward), startTime := c.startTime, endTime := c.endTime, center := c.center, permute := c.permute } ∧ ∀ (ts : List ℚ), Api.accumulateCall v ctx c.k none ts c.center c.permute = Api.accumulateCall v ctx c.k (some (List.replicate (Int.toNat c.k) ctx.defaultReward)) ts c.center c.permute := @PG.Api.api_none_is_default

/-- accumulate on a list of times is entrywise the single-time call -/
theorem call_pointwise : ∀ {ρ : Type} {v : Api.Variant} {ctx : Api.DistCtx ρ} {k : ℤ} {rewards : Option (List ρ)} {ts : List ℚ} {center permute : Bool} {l : List ℚ}, Api.accumulateCall v ctx k rewards ts center permute = Except.ok l → ∀ i < List.length ts, Api.accumulateCall v ctx k rewards [List.getD ts i 0] center permute = Except.ok [List.getD l i 0] := @PG.Api.api_accumulate_pointwise

/-- kernel-checked: `x or default` replaces an explicit 0 -/
theorem call_falsy_times_defect : Api.momentCall Api.Variant.falsyTimes (have __src := Api.ctxEx; { defaultReward := __src.defaultReward, startDefault := 0, tMax := __src.tMax, raw := __src.raw }) { k := 1, endTime := some 0, center := false } = Except.ok 8 ∧ Api.momentCall Api.Variant.current (have __src := Api.ctxEx; { defaultReward := __src.defaultReward, startDefault := 0, tMax := __src.tMax, raw := __src.raw }) { k := 1, endTime := some 0, center := false } = Except.ok 0 ∧ Api.momentCall Api.Variant.falsyTimes Api.ctxEx { k := 1, startTime := some 0, center := false } = Except.ok 7 ∧ Api.momentCall Api.Variant.current Api.ctxEx { k := 1, startTime := some 0, center := false } = Except.ok 8 ∧ Api.momentCall Api.Variant.current (have __src := Api.ctxEx; { defaultReward := __src.defaultReward, startDefault := 0, tMax := __src.tMax, raw := __src.raw }) { k := 1, center := false } = Except.ok 8 := @PG.Api.api_falsyTimes_counterexample

end PG.C10

#print axioms PG.C10.window_var_curve_difference
#print axioms PG.C10.window_var_shortcut_gap
#print axioms PG.C10.window_var_shortcut_iff
#print axioms PG.C10.window_var_shortcut_counterexample
#print axioms PG.C10.additive_windows
#print axioms PG.C10.redundant_boundary
#print axioms PG.C10.zero_duration
#print axioms PG.C10.grid_refinement
#print axioms PG.C10.direct_durations
#print axioms PG.C10.direct_pieces
#print axioms PG.C10.monotone
#print axioms PG.C10.horizon_spec
#print axioms PG.C10.call_routes_agree
#print axioms PG.C10.call_window_difference
#print axioms PG.C10.call_window_additive
#print axioms PG.C10.call_window_additive_at_zero
#print axioms PG.C10.call_explicit_zero_end
#print axioms PG.C10.call_explicit_zero_start
#print axioms PG.C10.call_none_is_default
#print axioms PG.C10.call_pointwise
#print axioms PG.C10.call_falsy_times_defect
