/-
# C10 — Accumulation over time is consistent: refinement, truncation, additivity

Inserting redundant change points (a change to the value already in force) or evaluating on a finer
time grid never changes a result; a moment with end time T equals the accumulation curve at T,
whether T is given to the Coalescent or to the call, and the default (no end time) equals the
infinite-horizon value or else a warning is logged that the horizon could not be reached. First
moments are additive over adjacent windows [0,a] and [a,b], and raw (uncentred) accumulation curves
of non-negative rewards are non-decreasing in time.

Quantifier: for all configurations, all redundant refinements of the epoch grid, all 0 <= a <= b, all evaluation
grids (including points on epoch boundaries and beyond the last change)

Proved: redundant boundaries merge (E_add), the sweep over any grid equals direct evaluation (so
refinement and the three end-time routes agree), durations of a direct evaluation are non-negative
and sum to t, raw accumulation of non-negative rewards is non-decreasing, the horizon search either
reaches p_absorption or must warn. Partial: the threshold 1 - 1e-15 itself is numeric.

This file restates the theorems the property rests on (full statements; proofs are in PGProofs/).
Generated once by harness/mkprops.py from harness/props_table.py + PGProperties/extra/C10.lean.in; committed as source.
-/
import PGProofs.MeanIncrement
import PGProofs.Glue

set_option linter.all false
set_option pp.fieldNotation.generalized false

namespace PG.C10
open PG

/-- first moments are additive over adjacent windows: the increment over [a,b] is a function of the distribution at a -/
theorem additive_windows : type_of% @PG.accum_increment := @PG.accum_increment   -- (printed statement does not re-elaborate; see the source lemma)

/-- E(s V) E(t V) = E((s+t) V) -/
theorem redundant_boundary : ∀ {K : Type} [inst : Field K] [inst_1 : LinearOrder K] [inst_2 : IsStrictOrderedRing K] {κ : Type} [inst_3 : Fintype κ] [inst_4 : DecidableEq κ] (L : ExpLaw K) (V : ℕ → Matrix κ κ K) (e : ℕ) (s t : K) (fs : List (ℕ × K)), evalFactors L V ((e, s) :: (e, t) :: fs) = evalFactors L V ((e, s + t) :: fs) := @PG.redundant_boundary

/-- a zero-length piece contributes the identity -/
theorem zero_duration : ∀ {K : Type} [inst : Field K] [inst_1 : LinearOrder K] [inst_2 : IsStrictOrderedRing K] {κ : Type} [inst_3 : Fintype κ] [inst_4 : DecidableEq κ] (L : ExpLaw K) (V : ℕ → Matrix κ κ K) (e : ℕ) (fs : List (ℕ × K)), evalFactors L V ((e, 0) :: fs) = evalFactors L V fs := @PG.evalFactors_zero_duration

/-- any evaluation grid: every entry is the direct evaluation at its time -/
theorem grid_refinement : ∀ {K : Type} [inst : Field K] [inst_1 : LinearOrder K] [inst_2 : IsStrictOrderedRing K] {ι : Type} [inst_3 : Fintype ι] [inst_4 : DecidableEq ι] {k : ℕ} (L : ExpLaw K) (S : ℕ → Matrix ι ι K) (R : Fin k → ι → K) (α : ι → K) (eps : List EpochT) (ts : List ℚ), codeVectorised (fun fs ↦ accumVal L S R α (castF fs)) eps ts = List.map (fun t ↦ accumVal L S R α (castF (specFactors eps t))) ts := @PG.code_accumulate_pointwise

/-- the pieces up to t are non-negative and add up to t -/
theorem direct_durations : ∀ (eps : List EpochT) (t : ℚ), WF eps 0 → 0 ≤ t → (∀ f ∈ specFactors eps t, 0 ≤ f.2) ∧ List.sum (List.map (fun x ↦ x.2) (specFactors eps t)) = t := @PG.specFactors_nonneg_sum

/-- exactly the epochs that start before t, each cut at t -/
theorem direct_pieces : ∀ (eps : List EpochT) (t : ℚ), WF eps 0 → 0 < t → specFactors eps t = List.map (fun p ↦ (p.2, capStop p.1 t - p.1.start)) (List.filter (fun p ↦ decide (p.1.start < t)) (List.zipIdx eps)) := @PG.specFactors_durations

/-- raw moments of non-negative rewards do not decrease when time is added -/
theorem monotone : ∀ {K : Type} [inst : Field K] [inst_1 : LinearOrder K] [inst_2 : IsStrictOrderedRing K] {ι : Type} [inst_3 : Fintype ι] [inst_4 : DecidableEq ι] {k : ℕ} (L : ExpLaw K) (S : ℕ → Matrix ι ι K) (R : Fin k → ι → K) (α : ι → K), (∀ (e : ℕ) (i j : ι), i ≠ j → 0 ≤ S e i j) → (∀ (e : ℕ) (i : ι), ∑ j, S e i j = 0) → (∀ (a : Fin k) (i : ι), 0 ≤ R a i) → (∀ (i : ι), 0 ≤ α i) → ∀ (fs : List (ℕ × K)), (∀ f ∈ fs, 0 ≤ f.2) → ∀ (e : ℕ) (τ : K), 0 ≤ τ → accumVal L S R α fs ≤ accumVal L S R α (fs ++ [(e, τ)]) := @PG.accum_mono

/-- the doubling search: no warning iff the threshold was reached; warning implies all iterations used -/
theorem horizon_spec : ∀ (F : ℚ → ℚ) (t0 pAbs : ℚ) (maxIter : ℕ) (t : ℚ) (warn : Bool), absorptionLoop F t0 pAbs maxIter = (t, warn) → (warn = false ↔ pAbs ≤ F t) ∧ ∃ j ≤ maxIter, t = t0 * 2 ^ j ∧ (∀ k < j, F (t0 * 2 ^ k) < pAbs) ∧ (warn = true → j = maxIter) := @PG.absorption_spec

end PG.C10

#print axioms PG.C10.additive_windows
#print axioms PG.C10.redundant_boundary
#print axioms PG.C10.zero_duration
#print axioms PG.C10.grid_refinement
#print axioms PG.C10.direct_durations
#print axioms PG.C10.direct_pieces
#print axioms PG.C10.monotone
#print axioms PG.C10.horizon_spec
