/-
# C01 — Tree-height and branch-length moments equal those of the true coalescent

For every supported single-locus configuration (sample sizes per deme, Kingman/Beta/Dirac model,
piecewise-constant population sizes and migration rates, optional end time, and a start time for
first moments) the mean, variance and higher raw and central moments reported for the tree height
and the total branch length equal the corresponding moments of the labelled structured coalescent
process they describe, to numerical precision (error at most 1e-6 of the raw-moment scale, 1e-7 for
means, in the non-stiff regime).

Quantifier: for all sample configurations n_d >= 0 with 2 <= sum n_d, all numbers of demes, all three coalescent
models and their parameters, all piecewise-constant demographies with any number of epochs, all
moment orders k >= 1 and all end times

Proved for all inputs: the generator the code builds on lineage counts is the projection of the
labelled structured Lambda-coalescent (lumping + bridge), the rate matrix rows represent it, equal
moments follow for any abstract exponential obeying the four laws (lump_accum), the sorted sweep of
_accumulate is pointwise, the regularisation factor cancels exactly, centring is the expansion of
prod (X_i - mu_i). Partial: PT1/PT3 (the Van Loan formula IS the moment; the coalescent IS this
particle system) and floating point accuracy.

This file restates the theorems the property rests on (full statements; proofs are in PGProofs/).
Generated once by harness/mkprops.py from harness/props_table.py + PGProperties/extra/C01.lean.in; committed as source.
-/
import PGProofs.Assembly
import PGProofs.Glue
import PGProofs.Bridge
import PGProofs.MomentsThm
import PGProofs.RewardsThm
import PGProofs.EndToEnd
import PGProofs.EndToEnd2

set_option linter.all false
set_option pp.fieldNotation.generalized false

namespace PG.C01
open PG

/-- HEADLINE: every Van Loan moment the code computes on lineage counts (any order k, any rewards, any epochs and durations, any exponential obeying the laws) equals the moment of the labelled structured coalescent -/
theorem moments_eq_labelled : ∀ {D : ℕ} {K : Type} [inst : Field K] [inst_1 : LinearOrder K] [inst_2 : IsStrictOrderedRing K] {m : Model} {cinit : Fin D → ℕ} {ts : ℕ → Fin D → ℚ} {mig : ℕ → Fin D → Fin D → ℚ} {r : ℕ → ℚ} {fuel : ℕ → ℕ} {G : ℕ → Graph}, (∀ (e : ℕ), bfs (transit m (mkEpoch (ts e) (mig e) (r e))) (encLC cinit) (fuel e) = some (G e)) → ∀ (L : ExpLaw K) (n : ℕ) {k : ℕ} (rs : Fin k → Reward) (c0 : Fin D → ℕ) (x0 : Assembly.LabS encLC (G 0).visited (∑ d, cinit d)), cntF (Assembly.LabP.val x0) = c0 → ∀ (fs : List (ℕ × K)), accumVal L (fun e ↦ Assembly.QLmat (Assembly.castRate (linRate (lam m) (ts e) (mig e))) Assembly.linNew Assembly.LabP.val) (fun a x ↦ ↑(Reward.eval n (encLC (cntF (Assembly.LabP.val x))) (rs a))) (fun x ↦ if x = x0 then 1 else 0) fs = accumVal L (fun e ↦ Matrix.map (Assembly.codeMat G e) fun q ↦ ↑q) (fun a j ↦ ↑(Reward.eval n (G 0).visited[j] (rs a))) (fun j ↦ ↑(List.getD (alphaVec (G 0).visited (List.ofFn c0) 1 0) (↑j) 0)) fs := @PG.Assembly.C01_moments_eq_labelled

/-- the labelled matrix used in the headline theorem is the generator of the labelled particle system -/
theorem labelled_matrix_is_generator : ∀ {D : ℕ} {K : Type} [inst : Field K] [inst_1 : LinearOrder K] [IsStrictOrderedRing K] {m : Model} {cinit : Fin D → ℕ} {ts : ℕ → Fin D → ℚ} {mig : ℕ → Fin D → Fin D → ℚ} {r : ℕ → ℚ} {fuel : ℕ → ℕ} {G : ℕ → Graph}, (∀ (e : ℕ), bfs (transit m (mkEpoch (ts e) (mig e) (r e))) (encLC cinit) (fuel e) = some (G e)) → ∀ (e : ℕ) (x : Assembly.LabS encLC (G 0).visited (∑ d, cinit d)) (F : List (Fin D) → K), ∑ y, Assembly.QLmat (Assembly.castRate (linRate (lam m) (ts e) (mig e))) Assembly.linNew Assembly.LabP.val x y * F (Assembly.LabP.val y) = Assembly.QLsfull (Assembly.castRate (linRate (lam m) (ts e) (mig e))) Assembly.linNew F (Assembly.LabP.val x) := @PG.Assembly.lineage_labelled_is_generator

/-- the state list does not depend on the epoch (zero-rate edges are kept) -/
theorem visited_independent_of_epoch : ∀ {D : ℕ} (m : Model) (cinit : Fin D → ℕ) (ts : ℕ → Fin D → ℚ) (mig : ℕ → Fin D → Fin D → ℚ) (r : ℕ → ℚ) (fuel : ℕ → ℕ) (G : ℕ → Graph), (∀ (e : ℕ), bfs (transit m (mkEpoch (ts e) (mig e) (r e))) (encLC cinit) (fuel e) = some (G e)) → ∀ (e : ℕ), (G e).visited = (G 0).visited := @PG.Assembly.visited_indep

/-- alpha is the indicator of the state matching the sample -/
theorem alpha_is_indicator : ∀ {D : ℕ} {m : Model} {cinit : Fin D → ℕ} {ts : ℕ → Fin D → ℚ} {mig : ℕ → Fin D → Fin D → ℚ} {r : ℕ → ℚ} {fuel : ℕ → ℕ} {G : ℕ → Graph}, (∀ (e : ℕ), bfs (transit m (mkEpoch (ts e) (mig e) (r e))) (encLC cinit) (fuel e) = some (G e)) → ∀ (c0 : Fin D → ℕ), encLC c0 ∈ (G 0).visited → ∀ (j : Fin (List.length (G 0).visited)), List.getD (alphaVec (G 0).visited (List.ofFn c0) 1 0) (↑j) 0 = if (G 0).visited[j] = encLC c0 then 1 else 0 := @PG.Assembly.lineage_alpha

/-- the count generator built by `transit` is the labelled generator projected onto counts (all D, n, models, rates) -/
theorem lumping_lineage : ∀ {D : ℕ} (m : Model) (ts : Fin D → ℚ) (mig : Fin D → Fin D → ℚ) (r : ℚ) (g : State → ℚ) (x : List (Fin D)), 2 ≤ List.length x → QLs (linRate (lam m) ts mig) linRes (fun c' ↦ g (encLC c')) x = genOf (transit m (mkEpoch ts mig r) (encLC (cntF x))) g (encLC (cntF x)) := @PG.C04_lumping_lineage

/-- every row of the BFS rate matrix represents that generator; rows sum to zero -/
theorem matrix_row_lineage : type_of% @PG.lineage_matrix_row := @PG.lineage_matrix_row   -- (printed statement does not re-elaborate; see the source lemma)

/-- intertwined generators, compatible rewards and initial vectors have identical Van Loan moments of every order -/
theorem moments_of_lumped_chain : ∀ {K : Type} [inst : Field K] [inst_1 : LinearOrder K] [inst_2 : IsStrictOrderedRing K] {ι : Type} [inst_3 : Fintype ι] [inst_4 : DecidableEq ι] {κ : Type} [inst_5 : Fintype κ] [inst_6 : DecidableEq κ] {k : ℕ} (L : ExpLaw K) (SL : ℕ → Matrix κ κ K) (S : ℕ → Matrix ι ι K) (RL : Fin k → κ → K) (R : Fin k → ι → K) (αL : κ → K) (α : ι → K) (P : Matrix κ ι K), (∀ (e : ℕ), SL e * P = P * S e) → (∀ (a : Fin k), Matrix.diagonal (RL a) * P = P * Matrix.diagonal (R a)) → (∀ (x : κ), ∑ c, P x c = 1) → α = Matrix.vecMul αL P → ∀ (fs : List (ℕ × K)), accumVal L SL RL αL fs = accumVal L S R α fs := @PG.lump_accum

/-- the model of `_accumulate` (sort, running product over epochs, scatter) is the direct evaluation at every time -/
theorem accumulate_pointwise : ∀ {K : Type} [inst : Field K] [inst_1 : LinearOrder K] [inst_2 : IsStrictOrderedRing K] {ι : Type} [inst_3 : Fintype ι] [inst_4 : DecidableEq ι] {k : ℕ} (L : ExpLaw K) (S : ℕ → Matrix ι ι K) (R : Fin k → ι → K) (α : ι → K) (eps : List EpochT) (ts : List ℚ), codeVectorised (fun fs ↦ accumVal L S R α (castF fs)) eps ts = List.map (fun t ↦ accumVal L S R α (castF (specFactors eps t))) ts := @PG.code_accumulate_pointwise

/-- rewards scaled by c scale the k-th moment by c^k: lamb**k * expm(V_lamb * t / lamb) is independent of lamb -/
theorem regularisation_cancels : ∀ {K : Type} [inst : Field K] [inst_1 : LinearOrder K] [inst_2 : IsStrictOrderedRing K] {ι : Type} [inst_3 : Fintype ι] [inst_4 : DecidableEq ι] {k : ℕ} (L : ExpLaw K) (S : ℕ → Matrix ι ι K) (R : Fin k → ι → K) (α : ι → K) (c : K) (fs : List (ℕ × K)), accumVal L S (fun a i ↦ c * R a i) α fs = c ^ k * accumVal L S R α fs := @PG.accumVal_scale

/-- the inclusion-exclusion loop of accumulate(center=True) as a sum over subsets -/
theorem centering_expansion : ∀ {ρ : Type u_1} [inst : Inhabited ρ] (raw : List ρ → ℚ) (permute : Bool) (rs : List ρ), 2 ≤ List.length rs → accumulateModel raw true permute rs = ∑ A ∈ Finset.powerset (Finset.range (List.length rs)), (-1) ^ (List.length rs - Finset.card A) * uncentred raw permute (subTuple rs A) * ∏ j ∈ Finset.range (List.length rs) \ A, uncentred raw true [List.getD rs j default] := @PG.accumulate_center_eq

/-- that sum is E[prod (X_j - E X_j)] for any linear expectation -/
theorem centering_is_central_moment : ∀ {𝔸 : Type u_1} [inst : CommRing 𝔸] [inst_1 : Algebra ℚ 𝔸] {k : ℕ} (Ex : 𝔸 →ₗ[ℚ] ℚ) (X : Fin k → 𝔸), ∑ A ∈ Finset.powerset Finset.univ, (-1) ^ (k - Finset.card A) * Ex (∏ j ∈ A, X j) * ∏ j ∈ Aᶜ, Ex (X j) = Ex (∏ j, (X j - (algebraMap ℚ 𝔸) (Ex (X j)))) := @PG.center_expansion

/-- k = 2: var = m2 - mean^2 -/
theorem variance_formula : ∀ {ρ : Type u_1} [inst : Inhabited ρ] (raw : List ρ → ℚ) (permute : Bool) (r : ρ), accumulateModel raw true permute [r, r] = uncentred raw permute [r, r] - raw [r] ^ 2 := @PG.accumulate_variance

/-- k = 3, equal rewards: m3 - 3 m2 mu + 2 mu^3 -/
theorem third_central_formula : ∀ {ρ : Type u_1} [inst : Inhabited ρ] (raw : List ρ → ℚ) (permute : Bool) (r : ρ), accumulateModel raw true permute [r, r, r] = uncentred raw permute [r, r, r] - 3 * uncentred raw permute [r, r] * raw [r] + 2 * raw [r] ^ 3 := @PG.accumulate_third_central

/-- the tree-height reward is the indicator of non-absorbing states -/
theorem treeHeight_reward : ∀ (n : ℕ) (s : State), (∀ l < State.nLoci s, 1 ≤ State.locusTotal s l) → (Reward.eval n s Reward.treeHeight = 0 ↔ State.isAbsorbing s = true) := @PG.treeHeight_zero_iff_absorbing

/-- Metzler generators and non-negative rewards give non-negative raw moments -/
theorem moments_nonneg : ∀ {K : Type} [inst : Field K] [inst_1 : LinearOrder K] [inst_2 : IsStrictOrderedRing K] {ι : Type} [inst_3 : Fintype ι] [inst_4 : DecidableEq ι] {k : ℕ} (L : ExpLaw K) (S : ℕ → Matrix ι ι K) (R : Fin k → ι → K) (α : ι → K), (∀ (e : ℕ) (i j : ι), i ≠ j → 0 ≤ S e i j) → (∀ (a : Fin k) (i : ι), 0 ≤ R a i) → (∀ (i : ι), 0 ≤ α i) → ∀ (fs : List (ℕ × K)), (∀ f ∈ fs, 0 ≤ f.2) → 0 ≤ accumVal L S R α fs := @PG.accum_nonneg

/-- CAPSTONE: what Coalescent/dist.moment(k, rewards, start_time, end_time, center, permute) RETURNS for a well-formed call (argument resolution, window difference, centring, permutation average, epoch sweep, rate matrices built by BFS) equals the same combination of moments of the LABELLED structured coalescent -/
theorem end_to_end_moment : type_of% @PG.EndToEnd.moment_call_eq_labelled := @PG.EndToEnd.moment_call_eq_labelled   -- (printed statement does not re-elaborate; see the source lemma)

/-- accumulate on ANY list of times (unsorted, repeated): entry i is the labelled value at times[i] -/
theorem end_to_end_vector : type_of% @PG.EndToEnd.accumulate_call_vector_eq_labelled := @PG.EndToEnd.accumulate_call_vector_eq_labelled   -- (printed statement does not re-elaborate; see the source lemma)

/-- a labelled start configuration with the right counts always exists -/
theorem end_to_end_nonvacuous : type_of% @PG.EndToEnd.moment_call_eq_labelled_exists := @PG.EndToEnd.moment_call_eq_labelled_exists   -- (printed statement does not re-elaborate; see the source lemma)

/-- the raw conditioned accumulation of the call layer is the sweep of the code model -/
theorem end_to_end_raw : ∀ {D : ℕ} {K : Type} [inst : Field K] [inst_1 : LinearOrder K] [inst_2 : IsStrictOrderedRing K] (L : ExpLaw K) (G : ℕ → Graph) (n : ℕ) (c0 : Fin D → ℕ) (eps : List EpochT) (rs : List Reward) (times : List ℚ), codeVectorised (fun fs ↦ accumVal L (fun e ↦ Matrix.map (Assembly.codeMat G e) fun q ↦ ↑q) (fun a j ↦ ↑(Reward.eval n (G 0).visited[j] rs[a])) (fun j ↦ ↑(List.getD (alphaVec (G 0).visited (List.ofFn c0) 1 0) (↑j) 0)) (castF fs)) eps times = List.map (EndToEnd.codeRaw L G n c0 eps rs) times := @PG.EndToEnd.raw_of_code

/-- instantiated with the real matrix exponential on a concrete model (BFS evaluated in the kernel) -/
theorem end_to_end_instance : type_of% @PG.EndToEnd.capstone_instance := @PG.EndToEnd.capstone_instance   -- (printed statement does not re-elaborate; see the source lemma)

/-- CAPSTONE with the epoch list, size vectors and migration matrices produced by the demography model from the user's named change dictionaries (translation toEvents; config_value_is_specValue; epoch_tables_from_demography) -/
theorem end_to_end_with_demography : type_of% @PG.EndToEnd.capstone_with_demography := @PG.EndToEnd.capstone_with_demography   -- (printed statement does not re-elaborate; see the source lemma)

/-- the named value in force of the input glue = the value the epoch generator assigns (distinct keys per dict level) -/
theorem demography_value_link : ∀ (I : Config.Input), EndToEnd.DictInput I → ∀ (t : ℚ), (∀ p ∈ Config.allNames I, specValue (allChanges (sortEvents (EndToEnd.toEvents I))) (popNames (sortEvents (EndToEnd.toEvents I))) (Key.size (EndToEnd.nameIdx I p)) t = some (Config.sizeAt I.sizes p t)) ∧ ∀ p ∈ Config.allNames I, ∀ q ∈ Config.allNames I, specValue (allChanges (sortEvents (EndToEnd.toEvents I))) (popNames (sortEvents (EndToEnd.toEvents I))) (Key.mig (EndToEnd.nameIdx I p) (EndToEnd.nameIdx I q)) t = some (Config.rateAt I.mig (p, q) t) := @PG.EndToEnd.config_value_is_specValue

end PG.C01

#print axioms PG.C01.moments_eq_labelled
#print axioms PG.C01.labelled_matrix_is_generator
#print axioms PG.C01.visited_independent_of_epoch
#print axioms PG.C01.alpha_is_indicator
#print axioms PG.C01.lumping_lineage
#print axioms PG.C01.matrix_row_lineage
#print axioms PG.C01.moments_of_lumped_chain
#print axioms PG.C01.accumulate_pointwise
#print axioms PG.C01.regularisation_cancels
#print axioms PG.C01.centering_expansion
#print axioms PG.C01.centering_is_central_moment
#print axioms PG.C01.variance_formula
#print axioms PG.C01.third_central_formula
#print axioms PG.C01.treeHeight_reward
#print axioms PG.C01.moments_nonneg
#print axioms PG.C01.end_to_end_moment
#print axioms PG.C01.end_to_end_vector
#print axioms PG.C01.end_to_end_nonvacuous
#print axioms PG.C01.end_to_end_raw
#print axioms PG.C01.end_to_end_instance
#print axioms PG.C01.end_to_end_with_demography
#print axioms PG.C01.demography_value_link
