/-
# C06 — Two-locus statistics under recombination match the ancestral recombination graph

With two loci and recombination rate r, the moments of the time until both loci have coalesced, of
each locus' own tree height and branch length, and the covariance/correlation between loci equal
those of the two-locus ancestral recombination graph. Each locus' marginal distribution is the
single-locus coalescent for every r; at r=0 the two trees coincide (correlation 1) and the
covariance between loci tends to 0 as r grows without bound.

Quantifier: for all n, all r >= 0, all initial numbers of unlinked lineages (single deme), all deme structures
and piecewise-constant demographies

Proved: the two-locus chain is the lumping of the ARG particle system; each locus is a strong
lumping onto the single-locus chain for EVERY recombination rate, hence equal marginal moments/cdf
of every order; at r = 0 from a fully linked start the loci coincide on every reachable state, so
cross moments equal second moments; locus rewards and the CombinedReward substitution. Partial: r ->
infinity (limit), PT1/PT3.

This file restates the theorems the property rests on (full statements; proofs are in PGProofs/).
Generated once by harness/mkprops.py from harness/props_table.py + PGProperties/extra/C06.lean.in; committed as source.
-/
import PGProofs.TwoLocusInit
import PGProofs.Assembly
import PGProofs.BridgeTwoLocus
import PGProofs.Marginal
import PGProofs.RewardsThm
import PGProofs.EndToEnd2
import PGProofs.MarginalsThm

set_option linter.all false
set_option pp.fieldNotation.generalized false

namespace PG.C06
open PG

/-- single deme, any number of initially unlinked lineages: moments with the alpha the code uses equal those of the labelled stopped ARG -/
theorem arg_eq_labelled_any_linkage : type_of% @PG.TwoLocusInit.C06_arg_eq_labelled_alpha_init := @PG.TwoLocusInit.C06_arg_eq_labelled_alpha_init   -- (printed statement does not re-elaborate; see the source lemma)

/-- alpha is the point mass at (n-u linked, u + u unlinked) -/
theorem initial_linkage : ∀ {ts : ℕ → Fin 1 → ℚ} {mig : ℕ → Fin 1 → Fin 1 → ℚ} {r : ℕ → ℚ} {fuel : ℕ → ℕ} {G : ℕ → Graph} {n : ℕ}, 2 ≤ n → (∀ (e : ℕ), bfs (transit Model.kingman (mkEpoch (ts e) (mig e) (r e))) (initialState 2 1 1 n) (fuel e) = some (G e)) → ∀ u ≤ n, ∀ (j : Fin (List.length (G 0).visited)), List.getD (alphaVec (G 0).visited [n] 2 u) (↑j) 0 = if (G 0).visited[j] = enc2 (TwoLocusInit.sample2u (fun x ↦ n) u) then 1 else 0 := @PG.TwoLocusInit.two_locus_alpha_one_deme_init

/-- HEADLINE: every two-locus moment of the code equals the moment of the labelled ancestral recombination graph stopped at absorption -/
theorem arg_eq_labelled : ∀ {D : ℕ} {K : Type} [inst : Field K] [inst_1 : LinearOrder K] [inst_2 : IsStrictOrderedRing K] {cinit : Fin D × LCls → ℕ} {ts : ℕ → Fin D → ℚ} {mig : ℕ → Fin D → Fin D → ℚ} {r : ℕ → ℚ} {fuel : ℕ → ℕ} {G : ℕ → Graph}, (∀ (e : ℕ), bfs (transit Model.kingman (mkEpoch (ts e) (mig e) (r e))) (enc2 cinit) (fuel e) = some (G e)) → ∀ (L : ExpLaw K) (n' : ℕ) {k : ℕ} (rs : Fin k → Reward) (x0 : Assembly.LabS enc2 (G 0).visited (Assembly.bound2 (G 0).visited)) (fs : List (ℕ × K)), accumVal L (fun e ↦ Assembly.QLmat (Assembly.castRate (Assembly.argRateStop (r e) (ts e) (mig e))) Assembly.argNew Assembly.LabP.val) (fun a x ↦ ↑(Reward.eval n' (enc2 (cntF (Assembly.LabP.val x))) (rs a))) (fun x ↦ if x = x0 then 1 else 0) fs = accumVal L (fun e ↦ Matrix.map (Assembly.codeMat G e) fun q ↦ ↑q) (fun a j ↦ ↑(Reward.eval n' (G 0).visited[j] (rs a))) (fun j ↦ if (G 0).visited[j] = enc2 (cntF (Assembly.LabP.val x0)) then 1 else 0) fs := @PG.Assembly.C06_arg_eq_labelled

/-- the stopped ARG: full generator before absorption, migration only afterwards -/
theorem stopped_arg_generator : ∀ {D : ℕ} (r : ℚ) (ts : Fin D → ℚ) (mig : Fin D → Fin D → ℚ) (g : (Fin D × LCls → ℕ) → ℚ) (c : Fin D × LCls → ℕ), QCs (Assembly.argRateStop r ts mig) argRes g c = if Absorbing2 c then Marginal.argMig r ts mig g c else QCs (argRate r ts mig) argRes g c := @PG.Assembly.QCs_argRateStop

/-- two-locus generator = ARG particle system projected onto counts -/
theorem lumping_two_locus : ∀ {D : ℕ} (ts : Fin D → ℚ) (mig : Fin D → Fin D → ℚ) (r : ℚ) (g : State → ℚ) (x : List (Fin D × LCls)), ¬Absorbing2 (cntF x) → QLs (argRate r ts mig) argRes (fun c' ↦ g (enc2 c')) x = genOf (transit Model.kingman (mkEpoch ts mig r) (enc2 (cntF x))) g (enc2 (cntF x)) := @PG.C04_lumping_two_locus

/-- locus 1 counts are a strong lumping of the code chain onto the single-locus chain, any r -/
theorem marginal_locus1 : ∀ {D : ℕ} {K : Type u_1} [inst : Field K] (r : K) (ts : Fin D → K) (mig : Fin D → Fin D → K) (g : (Fin D → ℕ) → K) (c : Fin D × LCls → ℕ), Marginal.QCode r ts mig (fun c' ↦ g (Marginal.φ₁ c')) c = QCs (linRate Marginal.lamK ts mig) linRes g (Marginal.φ₁ c) := @PG.Marginal.marginal_code₁

/-- same for locus 2 -/
theorem marginal_locus2 : ∀ {D : ℕ} {K : Type u_1} [inst : Field K] (r : K) (ts : Fin D → K) (mig : Fin D → Fin D → K) (g : (Fin D → ℕ) → K) (c : Fin D × LCls → ℕ), Marginal.QCode r ts mig (fun c' ↦ g (Marginal.φ₂ c')) c = QCs (linRate Marginal.lamK ts mig) linRes g (Marginal.φ₂ c) := @PG.Marginal.marginal_code₂

/-- per-locus moments of every order equal single-locus moments, any r, any epochs -/
theorem marginal_moments : ∀ {K : Type} [inst : Field K] [inst_1 : LinearOrder K] [inst_2 : IsStrictOrderedRing K] {ι₂ : Type} [inst_3 : Fintype ι₂] [inst_4 : DecidableEq ι₂] {ι₁ : Type} [inst_5 : Fintype ι₁] [inst_6 : DecidableEq ι₁] {k : ℕ} (L : ExpLaw K) {D : ℕ} (r : ℕ → K) (ts : ℕ → Fin D → K) (mig : ℕ → Fin D → Fin D → K) (dec₂ : ι₂ → Fin D × LCls → ℕ) (dec₁ : ι₁ → Fin D → ℕ) (S₂ : ℕ → Matrix ι₂ ι₂ K) (S₁ : ℕ → Matrix ι₁ ι₁ K), Function.Injective dec₁ → (∀ (e : ℕ) (f : (Fin D × LCls → ℕ) → K) (i : ι₂), ∑ j, S₂ e i j * f (dec₂ j) = Marginal.QCode (r e) (ts e) (mig e) f (dec₂ i)) → (∀ (e : ℕ) (f : (Fin D → ℕ) → K) (i : ι₁), ∑ j, S₁ e i j * f (dec₁ j) = QCs (linRate Marginal.lamK (ts e) (mig e)) linRes f (dec₁ i)) → ∀ (p : ι₂ → ι₁), (∀ (i : ι₂), dec₁ (p i) = Marginal.φ₁ (dec₂ i)) → ∀ (R : Fin k → ι₁ → K) (α₂ : ι₂ → K) (fs : List (ℕ × K)), accumVal L S₂ (fun a i ↦ R a (p i)) α₂ fs = accumVal L S₁ R (Matrix.vecMul α₂ (Marginal.projMat p)) fs := @PG.Marginal.marginal_moments₁

/-- per-locus cdf equals the single-locus cdf -/
theorem marginal_cdf : ∀ {K : Type} [inst : Field K] [inst_1 : LinearOrder K] [inst_2 : IsStrictOrderedRing K] {ι₂ : Type} [inst_3 : Fintype ι₂] [inst_4 : DecidableEq ι₂] {ι₁ : Type} [inst_5 : Fintype ι₁] [inst_6 : DecidableEq ι₁] (L : ExpLaw K) {D : ℕ} (r : ℕ → K) (ts : ℕ → Fin D → K) (mig : ℕ → Fin D → Fin D → K) (dec₂ : ι₂ → Fin D × LCls → ℕ) (dec₁ : ι₁ → Fin D → ℕ) (S₂ : ℕ → Matrix ι₂ ι₂ K) (S₁ : ℕ → Matrix ι₁ ι₁ K), Function.Injective dec₁ → (∀ (e : ℕ) (f : (Fin D × LCls → ℕ) → K) (i : ι₂), ∑ j, S₂ e i j * f (dec₂ j) = Marginal.QCode (r e) (ts e) (mig e) f (dec₂ i)) → (∀ (e : ℕ) (f : (Fin D → ℕ) → K) (i : ι₁), ∑ j, S₁ e i j * f (dec₁ j) = QCs (linRate Marginal.lamK (ts e) (mig e)) linRes f (dec₁ i)) → ∀ (p : ι₂ → ι₁), (∀ (i : ι₂), dec₁ (p i) = Marginal.φ₁ (dec₂ i)) → ∀ (exitVec : ι₁ → K) (α₂ : ι₂ → K) (fs : List (ℕ × K)), cdfVal L S₂ α₂ (fun i ↦ exitVec (p i)) fs = cdfVal L S₁ (Matrix.vecMul α₂ (Marginal.projMat p)) exitVec fs := @PG.Marginal.marginal_cdf₁

/-- r = 0, no unlinked lineages: both loci have the same lineage count on all reachable states -/
theorem r_zero_loci_coincide : ∀ {D : ℕ} (n : ℕ) (ts : Fin D → ℚ) (mig : Fin D → Fin D → ℚ) (c0 : Fin D × LCls → ℕ), NoUnlinked c0 → ∀ (s : State), PosReach (transit Model.kingman (mkEpoch ts mig 0)) (enc2 c0) s → State.locusTotal s 0 = State.locusTotal s 1 ∧ Reward.eval n s (Reward.locus 0) = Reward.eval n s (Reward.locus 1) := @PG.C06_r_zero

/-- then any mix of locus-1 / locus-2 rewards gives the locus-1 moment (correlation 1) -/
theorem r_zero_cross_moments : ∀ {K : Type} [inst : Field K] [inst_1 : LinearOrder K] [inst_2 : IsStrictOrderedRing K] {ι : Type} [inst_3 : Fintype ι] [inst_4 : DecidableEq ι] {k : ℕ} (L : ExpLaw K) {D : ℕ} (ts : ℕ → Fin D → K) (mig : ℕ → Fin D → Fin D → K) (dec₂ : ι → Fin D × LCls → ℕ) (S₂ : ℕ → Matrix ι ι K), Function.Injective dec₂ → (∀ (e : ℕ) (f : (Fin D × LCls → ℕ) → K) (i : ι), ∑ j, S₂ e i j * f (dec₂ j) = Marginal.QCode 0 (ts e) (mig e) f (dec₂ i)) → ∀ (α₂ : ι → K), (∀ (i : ι), ¬Marginal.linked (dec₂ i) → α₂ i = 0) → ∀ (h : Fin k → (Fin D → ℕ) → K) (sel : Fin k → Bool) (fs : List (ℕ × K)), accumVal L S₂ (fun a i ↦ h a (if sel a = true then Marginal.φ₂ (dec₂ i) else Marginal.φ₁ (dec₂ i))) α₂ fs = accumVal L S₂ (fun a i ↦ h a (Marginal.φ₁ (dec₂ i))) α₂ fs := @PG.Marginal.r0_cross_moments

/-- total branch length reward = sum of per-locus rewards -/
theorem tbl_sum_of_loci : ∀ (n : ℕ) (s : State), Reward.eval n s Reward.totalBranchLength = ∑ l ∈ Finset.range (State.nLoci s), Reward.eval n s (Reward.tblLocus l) := @PG.tbl_eq_sum_tblLocus

/-- CombinedReward([TBL, Locus l]) is the per-locus branch count -/
theorem combined_tbl_locus : ∀ (n : ℕ) (s : State) (l : ℕ), Reward.eval n s (Reward.combined [Reward.totalBranchLength, Reward.locus l]) = Reward.eval n s (Reward.tblLocus l) := @PG.combined_tbl_locus

/-- CombinedReward([TreeHeight, Locus l]) is the per-locus indicator -/
theorem combined_height_locus : ∀ (n : ℕ) (s : State) (l : ℕ), Reward.eval n s (Reward.combined [Reward.treeHeight, Reward.locus l]) = Reward.eval n s (Reward.locus l) := @PG.combined_height_locus'

/-- CAPSTONE (two loci): what moment(...) returns on the two-locus graph equals the labelled ARG combination -/
theorem end_to_end_two_locus : type_of% @PG.EndToEnd.two_locus_moment_call_eq_labelled := @PG.EndToEnd.two_locus_moment_call_eq_labelled   -- (printed statement does not re-elaborate; see the source lemma)

/-- kernel-checked: returning the joint variance on the diagonal of loci.cov is wrong (8 instead of 4) and breaks the sum -/
theorem marg_locus_diag_defect : Marginals.covCore Marginals.Variant.locusDiagJointVar Marginals.Examples.distB Marginals.Examples.rawB Marginals.Kind.loci 0 0 = 8 ∧ Marginals.margVar Marginals.Examples.rawB Reward.totalBranchLength Marginals.Kind.loci 0 = 4 ∧ Option.map (fun M ↦ List.sum (List.map List.sum M)) (Except.toOption (Marginals.covMatrix Marginals.Variant.locusDiagJointVar Marginals.Examples.distB Marginals.Examples.rawB Marginals.Kind.loci)) = some 16 ∧ Marginals.distVar Marginals.Examples.rawB Reward.totalBranchLength = 8 := @PG.Marginals.Examples.locusDiagJointVar_violates

/-- kernel-checked: corr = 1 at r = 0 is wrong for unlinked starts (cov 0) -/
theorem marg_locus_corr_r0_defect : Except.toOption (Marginals.getCorr (Marginals.ratOps Marginals.Examples.sqrtB) Marginals.Variant.locusCorrOneAtR0 Marginals.Examples.distB Marginals.Examples.rawB Marginals.Kind.loci 0 1) = some 1 ∧ Marginals.covCore Marginals.Variant.locusCorrOneAtR0 Marginals.Examples.distB Marginals.Examples.rawB Marginals.Kind.loci 0 1 = 0 ∧ Marginals.Examples.sqrtB (Marginals.margVar Marginals.Examples.rawB Reward.totalBranchLength Marginals.Kind.loci 0) = 2 ∧ Marginals.Examples.sqrtB (Marginals.margVar Marginals.Examples.rawB Reward.totalBranchLength Marginals.Kind.loci 1) = 2 := @PG.Marginals.Examples.locusCorrOneAtR0_violates

/-- two-locus code functional: locus marginals of the total branch length decompose the total -/
theorem marg_code_loci : type_of% @PG.Marginals.code2_loci_tbl_marginals := @PG.Marginals.code2_loci_tbl_marginals   -- (printed statement does not re-elaborate; see the source lemma)

end PG.C06

#print axioms PG.C06.arg_eq_labelled_any_linkage
#print axioms PG.C06.initial_linkage
#print axioms PG.C06.arg_eq_labelled
#print axioms PG.C06.stopped_arg_generator
#print axioms PG.C06.lumping_two_locus
#print axioms PG.C06.marginal_locus1
#print axioms PG.C06.marginal_locus2
#print axioms PG.C06.marginal_moments
#print axioms PG.C06.marginal_cdf
#print axioms PG.C06.r_zero_loci_coincide
#print axioms PG.C06.r_zero_cross_moments
#print axioms PG.C06.tbl_sum_of_loci
#print axioms PG.C06.combined_tbl_locus
#print axioms PG.C06.combined_height_locus
#print axioms PG.C06.end_to_end_two_locus
#print axioms PG.C06.marg_locus_diag_defect
#print axioms PG.C06.marg_locus_corr_r0_defect
#print axioms PG.C06.marg_code_loci
