/-
# C11 — Tree statistics satisfy the conservation identities that link them

For every single-locus configuration the SFS bins sum to the total branch length (in mean, and their
covariances sum to its variance), the size-weighted bins sum to n times the tree height, the folded
spectrum is the fold of the unfolded one, and tree height and total branch length have the same
moments whether computed on the lineage-counting or the block-counting representation.

Quantifier: for all configurations, models, demographies, end times, and moment orders 1 and 2

Proved: on every block-counting state of mass n the SFS rewards sum to the branch-length reward, the
size-weighted sum is n times the height reward, folded = fold of unfolded; first moments are linear
in the reward (so the identities pass to means). Second-order versions (covariances sum to the
variance, C11_sum_cov) follow from multilinearity in every slot, proved for all orders
(accumVal_slot_linear); agreement of lineage- and block-counting moments follows from both being
lumpings of one labelled process.

This file restates the theorems the property rests on (full statements; proofs are in PGProofs/).
Generated once by harness/mkprops.py from harness/props_table.py + PGProperties/extra/C11.lean.in; committed as source.
-/
import PGProofs.Conservation
import PGProofs.RewardsThm
import PGProofs.SampleConsistency
import PGProofs.BridgeBC
import PGProofs.Bridge

set_option linter.all false
set_option pp.fieldNotation.generalized false

namespace PG.C11
open PG

/-- HEADLINE: all mixed moments of tree height and total branch length agree between the block-counting and the lineage-counting chain -/
theorem spaces_agree : ∀ {K : Type} [inst : Field K] [inst_1 : LinearOrder K] [inst_2 : IsStrictOrderedRing K] {ι₂ : Type} [inst_3 : Fintype ι₂] [inst_4 : DecidableEq ι₂] {ι₁ : Type} [inst_5 : Fintype ι₁] [inst_6 : DecidableEq ι₁] {k D n : ℕ} [inst_7 : NeZero n] (L : ExpLaw K) (lam : ℕ → ℕ → ℕ → K) (ts : ℕ → Fin D → K) (mig : ℕ → Fin D → Fin D → K) (dec₂ : ι₂ → Fin D × Fin n → ℕ) (dec₁ : ι₁ → Fin D → ℕ) (S₂ : ℕ → Matrix ι₂ ι₂ K) (S₁ : ℕ → Matrix ι₁ ι₁ K), Function.Injective dec₁ → (∀ (e : ℕ) (f : (Fin D × Fin n → ℕ) → K) (i : ι₂), ∑ j, S₂ e i j * f (dec₂ j) = QCs (blkRate (lam e) (ts e) (mig e)) blkRes f (dec₂ i)) → (∀ (e : ℕ) (f : (Fin D → ℕ) → K) (i : ι₁), ∑ j, S₁ e i j * f (dec₁ j) = QCs (linRate (lam e) (ts e) (mig e)) linRes f (dec₁ i)) → ∀ (p : ι₂ → ι₁), (∀ (i : ι₂), dec₁ (p i) = Conservation.psi (dec₂ i)) → ∀ (sel : Fin k → Bool) (α₂ : ι₂ → K) (fs : List (ℕ × K)), accumVal L S₂ (fun a i ↦ if sel a = true then Conservation.tblB (dec₂ i) else Conservation.heightB (dec₂ i)) α₂ fs = accumVal L S₁ (fun a j ↦ if sel a = true then Conservation.tblL (dec₁ j) else Conservation.heightL (dec₁ j)) (Matrix.vecMul α₂ (Marginal.projMat p)) fs := @PG.Conservation.C11_spaces_agree

/-- forgetting block sizes is a strong lumping of the block-counting generator onto the lineage-counting generator (Vandermonde collapse) -/
theorem block_to_lineage : ∀ {D n : ℕ} [inst : NeZero n] {K : Type u_1} [inst_1 : Field K] (lam : ℕ → ℕ → K) (ts : Fin D → K) (mig : Fin D → Fin D → K) (g : (Fin D → ℕ) → K) (c : Fin D × Fin n → ℕ), QCs (blkRate lam ts mig) blkRes (fun c' ↦ g (Conservation.psi c')) c = QCs (linRate lam ts mig) linRes g (Conservation.psi c) := @PG.Conservation.block_to_lineage

/-- means of rewards that sum pointwise to a total sum to the mean of the total -/
theorem sum_mean : type_of% @PG.Conservation.C11_sum_mean := @PG.Conservation.C11_sum_mean   -- (printed statement does not re-elaborate; see the source lemma)

/-- their covariances sum to the variance of the total -/
theorem sum_cov : type_of% @PG.Conservation.C11_sum_cov := @PG.Conservation.C11_sum_cov   -- (printed statement does not re-elaborate; see the source lemma)

/-- weighted sums -/
theorem weighted : type_of% @PG.Conservation.C11_weighted := @PG.Conservation.C11_weighted   -- (printed statement does not re-elaborate; see the source lemma)

/-- folded means -/
theorem fold : type_of% @PG.Conservation.C11_fold := @PG.Conservation.C11_fold   -- (printed statement does not re-elaborate; see the source lemma)

/-- folded covariances -/
theorem fold_cov : ∀ {K : Type} [inst : Field K] [inst_1 : LinearOrder K] [inst_2 : IsStrictOrderedRing K] {ι : Type} [inst_3 : Fintype ι] [inst_4 : DecidableEq ι] (L : ExpLaw K) (S : ℕ → Matrix ι ι K) (n : ℕ) (ru rf : ℕ → ι → K), (∀ (j : ℕ) (i : ι), rf j i = ru j i + if j = n - j then 0 else ru (n - j) i) → ∀ (j j' : ℕ) (α : ι → K) (fs : List (ℕ × K)), Conservation.covVal L S (rf j) (rf j') α fs = ((Conservation.covVal L S (ru j) (ru j') α fs + if j' = n - j' then 0 else Conservation.covVal L S (ru j) (ru (n - j')) α fs) + if j = n - j then 0 else Conservation.covVal L S (ru (n - j)) (ru j') α fs) + if j = n - j ∨ j' = n - j' then 0 else Conservation.covVal L S (ru (n - j)) (ru (n - j')) α fs := @PG.Conservation.C11_fold_cov

/-- every moment is linear in each reward slot (all orders k) -/
theorem multilinear : ∀ {K : Type} [inst : Field K] [inst_1 : LinearOrder K] [inst_2 : IsStrictOrderedRing K] {ι : Type} [inst_3 : Fintype ι] [inst_4 : DecidableEq ι] {k : ℕ} (L : ExpLaw K) (S : ℕ → Matrix ι ι K) (R : Fin k → ι → K) (a : Fin k) (r' : ι → K) (c1 c2 : K) (α : ι → K) (fs : List (ℕ × K)), accumVal L S (Function.update R a fun i ↦ c1 * R a i + c2 * r' i) α fs = c1 * accumVal L S R α fs + c2 * accumVal L S (Function.update R a r') α fs := @PG.Conservation.accumVal_slot_linear

/-- instantiated with the model SFS / branch-length rewards -/
theorem model_sum_mean : type_of% @PG.Conservation.C11_model_sum_mean := @PG.Conservation.C11_model_sum_mean   -- (printed statement does not re-elaborate; see the source lemma)

/-- instantiated: SFS covariances sum to the branch-length variance -/
theorem model_sum_cov : type_of% @PG.Conservation.C11_model_sum_cov := @PG.Conservation.C11_model_sum_cov   -- (printed statement does not re-elaborate; see the source lemma)

/-- sum of SFS rewards = total branch length reward -/
theorem sum_sfs_eq_tbl : ∀ (n D : ℕ) (s : State), 2 ≤ n → IsBC n D s → massOK n s → ∑ i ∈ Finset.Icc 1 (n - 1), Reward.eval n s (Reward.unfoldedSFS i) = Reward.eval n s Reward.totalBranchLength := @PG.sum_sfs_eq_tbl

/-- size-weighted SFS rewards = n * tree height reward -/
theorem weighted_sfs : ∀ (n D : ℕ) (s : State), 2 ≤ n → IsBC n D s → massOK n s → ∑ i ∈ Finset.Icc 1 (n - 1), ↑i * Reward.eval n s (Reward.unfoldedSFS i) = ↑n * Reward.eval n s Reward.treeHeight := @PG.weighted_sfs_eq_n_height

/-- folded reward -/
theorem folded_is_fold : ∀ (n : ℕ) (s : State) (i : ℕ), Reward.eval n s (Reward.foldedSFS i) = Reward.eval n s (Reward.unfoldedSFS i) + if i = n - i then 0 else Reward.eval n s (Reward.unfoldedSFS (n - i)) := @PG.folded_eq_fold

/-- folded bins also sum to the branch length -/
theorem sum_folded : ∀ (n D : ℕ) (s : State), 2 ≤ n → IsBC n D s → massOK n s → ∑ i ∈ Finset.Icc 1 (n / 2), Reward.eval n s (Reward.foldedSFS i) = Reward.eval n s Reward.totalBranchLength := @PG.sum_folded_eq_tbl

/-- first moments are linear in the reward vector -/
theorem mean_linear : type_of% @PG.accumVal_one_linear := @PG.accumVal_one_linear   -- (printed statement does not re-elaborate; see the source lemma)

/-- lineage counting is a lumping of the labelled process -/
theorem lumping_lineage : ∀ {D : ℕ} (m : Model) (ts : Fin D → ℚ) (mig : Fin D → Fin D → ℚ) (r : ℚ) (g : State → ℚ) (x : List (Fin D)), 2 ≤ List.length x → QLs (linRate (lam m) ts mig) linRes (fun c' ↦ g (encLC c')) x = genOf (transit m (mkEpoch ts mig r) (encLC (cntF x))) g (encLC (cntF x)) := @PG.C04_lumping_lineage

/-- block counting is a lumping of the labelled process -/
theorem lumping_block : ∀ {D n : ℕ} [inst : NeZero n] (m : Model) (ts : Fin D → ℚ) (mig : Fin D → Fin D → ℚ) (r : ℚ) (g : State → ℚ) (x : List (Fin D × Fin n)), 2 ≤ n → massBC (cntF x) = n → 2 ≤ List.length x → QLs (blkRate (lam m) ts mig) blkRes (fun c' ↦ g (encBC c')) x = genOf (transit m (mkEpoch ts mig r) (encBC (cntF x))) g (encBC (cntF x)) := @PG.C04_lumping_block

end PG.C11

#print axioms PG.C11.spaces_agree
#print axioms PG.C11.block_to_lineage
#print axioms PG.C11.sum_mean
#print axioms PG.C11.sum_cov
#print axioms PG.C11.weighted
#print axioms PG.C11.fold
#print axioms PG.C11.fold_cov
#print axioms PG.C11.multilinear
#print axioms PG.C11.model_sum_mean
#print axioms PG.C11.model_sum_cov
#print axioms PG.C11.sum_sfs_eq_tbl
#print axioms PG.C11.weighted_sfs
#print axioms PG.C11.folded_is_fold
#print axioms PG.C11.sum_folded
#print axioms PG.C11.mean_linear
#print axioms PG.C11.lumping_lineage
#print axioms PG.C11.lumping_block
