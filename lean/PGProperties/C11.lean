/-
# C11 — Tree statistics satisfy the conservation identities that link them

For every single-locus configuration the SFS bins sum to the total branch length (in mean, and their
covariances sum to its variance), the size-weighted bins sum to n times the tree height, the folded
spectrum is the fold of the unfolded one, and tree height and total branch length have the same
moments whether computed on the lineage-counting or the block-counting representation.

Quantifier: for all configurations, models, demographies, end times, and moment orders 1 and 2

Proved: on every block-counting state of mass n the SFS rewards sum to the branch-length reward, the
size-weighted sum is n times the height reward, folded = fold of unfolded; first moments are linear
in the reward (so the identities pass to means). Second-order versions (covariances sum to the
variance) follow from multilinearity, proved for k = 1 only so far (partial); agreement of lineage-
and block-counting moments follows from both being lumpings of one labelled process.

This file restates the theorems the property rests on (full statements; proofs are in PGProofs/).
Generated once by harness/mkprops.py from harness/props_table.py + PGProperties/extra/C11.lean.in; committed as source.
-/
import PGProofs.RewardsThm
import PGProofs.SampleConsistency
import PGProofs.BridgeBC
import PGProofs.Bridge

set_option linter.all false
set_option pp.fieldNotation.generalized false

namespace PG.C11
open PG

/-- sum of SFS rewards = total branch length reward -/
theorem sum_sfs_eq_tbl : ∀ (n D : ℕ) (s : State), 2 ≤ n → IsBC n D s → massOK n s → ∑ i ∈ Finset.Icc 1 (n - 1), Reward.eval n s (Reward.unfoldedSFS i) = Reward.eval n s Reward.totalBranchLength := @PG.sum_sfs_eq_tbl

/-- size-weighted SFS rewards = n * tree height reward -/
theorem weighted_sfs : ∀ (n D : ℕ) (s : State), 2 ≤ n → IsBC n D s → massOK n s → ∑ i ∈ Finset.Icc 1 (n - 1), ↑i * Reward.eval n s (Reward.unfoldedSFS i) = ↑n * Reward.eval n s Reward.treeHeight := @PG.weighted_sfs_eq_n_height

/-- folded reward -/
theorem folded_is_fold : ∀ (n : ℕ) (s : State) (i : ℕ), Reward.eval n s (Reward.foldedSFS i) = Reward.eval n s (Reward.unfoldedSFS i) + if i = n - i then 0 else Reward.eval n s (Reward.unfoldedSFS (n - i)) := @PG.folded_eq_fold

/-- folded bins also sum to the branch length -/
theorem sum_folded : ∀ (n D : ℕ) (s : State), 2 ≤ n → IsBC n D s → massOK n s → ∑ i ∈ Finset.Icc 1 (n / 2), Reward.eval n s (Reward.foldedSFS i) = Reward.eval n s Reward.totalBranchLength := @PG.sum_folded_eq_tbl

/-- first moments are linear in the reward vector -/
theorem mean_linear : type_of% @PG.accumVal_one_linear := @PG.accumVal_one_linear   -- (printed statement does not re-elaborate; see the source lemma)

/-- lineage counting is a lumping of the labelled process -/
theorem lumping_lineage : ∀ {D : ℕ} (m : Model) (ts : Fin D → ℚ) (mig : Fin D → Fin D → ℚ) (r : ℚ) (g : State → ℚ) (x : List (Fin D)), 2 ≤ List.length x → QLs (linRate (lam m) ts mig) linRes (fun c' ↦ g (encLC c')) x = genOf (transit m (mkEpoch ts mig r) (encLC (cntF x))) g (encLC (cntF x)) := @PG.C04_lumping_lineage

/-- block counting is a lumping of the labelled process -/
theorem lumping_block : ∀ {D n : ℕ} [inst : NeZero n] (m : Model) (ts : Fin D → ℚ) (mig : Fin D → Fin D → ℚ) (r : ℚ) (g : State → ℚ) (x : List (Fin D × Fin n)), 2 ≤ n → massBC (cntF x) = n → 2 ≤ List.length x → QLs (blkRate (lam m) ts mig) blkRes (fun c' ↦ g (encBC c')) x = genOf (transit m (mkEpoch ts mig r) (encBC (cntF x))) g (encBC (cntF x)) := @PG.C04_lumping_block

end PG.C11

#print axioms PG.C11.sum_sfs_eq_tbl
#print axioms PG.C11.weighted_sfs
#print axioms PG.C11.folded_is_fold
#print axioms PG.C11.sum_folded
#print axioms PG.C11.mean_linear
#print axioms PG.C11.lumping_lineage
#print axioms PG.C11.lumping_block
