/-
# C03 — Tree-height CDF, density and quantiles describe the true time to the MRCA

cdf(t) equals the probability that all sampled lineages (at every locus) have found their common
ancestor by time t in the true process; it is 0 at t=0, non-decreasing, within [0,1], tends to 1
when coalescence is certain, and the integral of 1-cdf reproduces the reported mean. quantile(q)
returns a time whose CDF is within the stated precision (1e-5) of q, and pdf agrees with the
derivative of cdf.

Quantifier: for all supported configurations (1 or 2 loci), all t >= 0, all q in (0,1), all epoch layouts
including evaluation points exactly on epoch boundaries

Proved: cdf of the code chain = cdf of the labelled chain (lump_cdf + bridges, one and two loci);
cdf in [0,1] and non-decreasing along any extension of the factor list (from the four laws); the
sorted sweep and `_update` are direct evaluation, also exactly on epoch boundaries; the bisection
returns m with |F m - q| <= precision. For the real matrix exponential the mean over a further piece
of time is the integral of 1 - cdf (mean_increment_eq_integral). Partial: pdf (numerical
differentiation in the code), PT2.

This file restates the theorems the property rests on (full statements; proofs are in PGProofs/).
Generated once by harness/mkprops.py from harness/props_table.py + PGProperties/extra/C03.lean.in; committed as source.
-/
import PGProofs.TwoLocusInit
import PGProofs.Corollaries
import PGProofs.MeanIncrement
import PGProofs.Assembly
import PGProofs.Glue
import PGProofs.Bridge
import PGProofs.BridgeTwoLocus
import PGProofs.RewardsThm
import PGProofs.EndToEnd2
import PGProofs.EndToEnd3

set_option linter.all false
set_option pp.fieldNotation.generalized false

namespace PG.C03
open PG

/-- cdf(0) = 0 when the initial state is not absorbing (n >= 2) -/
theorem cdf_zero : ∀ {K : Type} [inst : Field K] [inst_1 : LinearOrder K] [inst_2 : IsStrictOrderedRing K] (L : ExpLaw K) {states : List State} (S : ℕ → Matrix (Fin (List.length states)) (Fin (List.length states)) K) (n : ℕ) (j0 : Fin (List.length states)), (∀ l < State.nLoci states[j0], 1 ≤ State.locusTotal states[j0] l) → State.isAbsorbing states[j0] = false → ∀ (eps : List EpochT), WF eps 0 → cdfVal L S (fun j ↦ if j = j0 then 1 else 0) (fun j ↦ ↑(Reward.eval n states[j] Reward.treeHeight)) (castF (specFactors eps 0)) = 0 := @PG.Corollaries.cdf_zero_code

/-- no time, no accumulated reward -/
theorem moment_zero_at_time_zero : ∀ {K : Type} [inst : Field K] [inst_1 : LinearOrder K] [inst_2 : IsStrictOrderedRing K] {ι : Type} [inst_3 : Fintype ι] [inst_4 : DecidableEq ι] {k : ℕ} (L : ExpLaw K) (S : ℕ → Matrix ι ι K) (R : Fin k → ι → K) (α : ι → K), 1 ≤ k → ∀ (eps : List EpochT), WF eps 0 → accumVal L S R α (castF (specFactors eps 0)) = 0 := @PG.Corollaries.accumVal_time_zero

/-- for the real matrix exponential: mean(t + tau) - mean(t) = integral over [0, tau] of 1 - cdf(t + s), within any epoch after any history -/
theorem mean_is_integral_of_survival : type_of% @PG.mean_increment_eq_integral := @PG.mean_increment_eq_integral   -- (printed statement does not re-elaborate; see the source lemma)

/-- Van Loan (1978): block (0,1) of exp(tau V) is the integral of exp(sS) diag(r) exp((tau-s)S) -/
theorem van_loan_integral : type_of% @PG.vanLoan_topRight_eq_integral := @PG.vanLoan_topRight_eq_integral   -- (printed statement does not re-elaborate; see the source lemma)

/-- from the four laws: the mean accumulated over a further piece of time depends only on the distribution at its start -/
theorem mean_increment : type_of% @PG.accum_increment := @PG.accum_increment   -- (printed statement does not re-elaborate; see the source lemma)

/-- HEADLINE: the cdf the code computes equals the absorption probability of the labelled coalescent -/
theorem cdf_eq_labelled : ∀ {D : ℕ} {K : Type} [inst : Field K] [inst_1 : LinearOrder K] [inst_2 : IsStrictOrderedRing K] {m : Model} {cinit : Fin D → ℕ} {ts : ℕ → Fin D → ℚ} {mig : ℕ → Fin D → Fin D → ℚ} {r : ℕ → ℚ} {fuel : ℕ → ℕ} {G : ℕ → Graph}, (∀ (e : ℕ), bfs (transit m (mkEpoch (ts e) (mig e) (r e))) (encLC cinit) (fuel e) = some (G e)) → ∀ (L : ExpLaw K) (n : ℕ) (c0 : Fin D → ℕ) (x0 : Assembly.LabS encLC (G 0).visited (∑ d, cinit d)), cntF (Assembly.LabP.val x0) = c0 → ∀ (fs : List (ℕ × K)), cdfVal L (fun e ↦ Assembly.QLmat (Assembly.castRate (linRate (lam m) (ts e) (mig e))) Assembly.linNew Assembly.LabP.val) (fun x ↦ if x = x0 then 1 else 0) (fun x ↦ ↑(Reward.eval n (encLC (cntF (Assembly.LabP.val x))) Reward.treeHeight)) fs = cdfVal L (fun e ↦ Matrix.map (Assembly.codeMat G e) fun q ↦ ↑q) (fun j ↦ ↑(List.getD (alphaVec (G 0).visited (List.ofFn c0) 1 0) (↑j) 0)) (fun j ↦ ↑(Reward.eval n (G 0).visited[j] Reward.treeHeight)) fs := @PG.Assembly.C03_cdf_eq_labelled

/-- same for two loci (ARG stopped at absorption) -/
theorem cdf_eq_labelled_two_loci : ∀ {D : ℕ} {K : Type} [inst : Field K] [inst_1 : LinearOrder K] [inst_2 : IsStrictOrderedRing K] {cinit : Fin D × LCls → ℕ} {ts : ℕ → Fin D → ℚ} {mig : ℕ → Fin D → Fin D → ℚ} {r : ℕ → ℚ} {fuel : ℕ → ℕ} {G : ℕ → Graph}, (∀ (e : ℕ), bfs (transit Model.kingman (mkEpoch (ts e) (mig e) (r e))) (enc2 cinit) (fuel e) = some (G e)) → ∀ (L : ExpLaw K) (n' : ℕ) (x0 : Assembly.LabS enc2 (G 0).visited (Assembly.bound2 (G 0).visited)) (fs : List (ℕ × K)), cdfVal L (fun e ↦ Assembly.QLmat (Assembly.castRate (Assembly.argRateStop (r e) (ts e) (mig e))) Assembly.argNew Assembly.LabP.val) (fun x ↦ if x = x0 then 1 else 0) (fun x ↦ ↑(Reward.eval n' (enc2 (cntF (Assembly.LabP.val x))) Reward.treeHeight)) fs = cdfVal L (fun e ↦ Matrix.map (Assembly.codeMat G e) fun q ↦ ↑q) (fun j ↦ if (G 0).visited[j] = enc2 (cntF (Assembly.LabP.val x0)) then 1 else 0) (fun j ↦ ↑(Reward.eval n' (G 0).visited[j] Reward.treeHeight)) fs := @PG.Assembly.C06_cdf_eq_labelled

/-- intertwined generators have the same absorption probabilities -/
theorem cdf_of_lumped_chain : ∀ {K : Type} [inst : Field K] [inst_1 : LinearOrder K] [inst_2 : IsStrictOrderedRing K] {ι : Type} [inst_3 : Fintype ι] [inst_4 : DecidableEq ι] {κ : Type} [inst_5 : Fintype κ] [inst_6 : DecidableEq κ] (L : ExpLaw K) (SL : ℕ → Matrix κ κ K) (S : ℕ → Matrix ι ι K) (αL : κ → K) (α exitVec : ι → K) (P : Matrix κ ι K), (∀ (e : ℕ), SL e * P = P * S e) → α = Matrix.vecMul αL P → ∀ (fs : List (ℕ × K)), cdfVal L SL αL (Matrix.mulVec P exitVec) fs = cdfVal L S α exitVec fs := @PG.lump_cdf

/-- 0 <= cdf <= 1 -/
theorem cdf_range : ∀ {K : Type} [inst : Field K] [inst_1 : LinearOrder K] [inst_2 : IsStrictOrderedRing K] {ι : Type} [inst_3 : Fintype ι] [inst_4 : DecidableEq ι] (L : ExpLaw K) (S : ℕ → Matrix ι ι K) (α : ι → K) (N : Finset ι), (∀ (e : ℕ) (i j : ι), i ≠ j → 0 ≤ S e i j) → (∀ (e : ℕ) (i : ι), ∑ j, S e i j = 0) → (∀ (i : ι), 0 ≤ α i) → ∑ i, α i = 1 → ∀ (fs : List (ℕ × K)), (∀ f ∈ fs, 0 ≤ f.2) → 0 ≤ cdfVal L S α (indVec N) fs ∧ cdfVal L S α (indVec N) fs ≤ 1 := @PG.cdf_range

/-- cdf does not decrease when time is added (complement of the non-absorbing set closed) -/
theorem cdf_monotone : ∀ {K : Type} [inst : Field K] [inst_1 : LinearOrder K] [inst_2 : IsStrictOrderedRing K] {ι : Type} [inst_3 : Fintype ι] [inst_4 : DecidableEq ι] (L : ExpLaw K) (S : ℕ → Matrix ι ι K) (α : ι → K) (N : Finset ι), (∀ (e : ℕ) (i j : ι), i ≠ j → 0 ≤ S e i j) → (∀ (e : ℕ) (i : ι), ∑ j, S e i j = 0) → (∀ (e : ℕ) (i j : ι), i ∉ N → j ∈ N → S e i j = 0) → (∀ (i : ι), 0 ≤ α i) → ∀ (fs : List (ℕ × K)), (∀ f ∈ fs, 0 ≤ f.2) → ∀ (e : ℕ) (τ : K), 0 ≤ τ → cdfVal L S α (indVec N) fs ≤ cdfVal L S α (indVec N) (fs ++ [(e, τ)]) := @PG.cdf_mono

/-- the model of `cdf` (sort, running product, scatter) is the direct evaluation at every time -/
theorem cdf_pointwise : ∀ {K : Type} [inst : Field K] [inst_1 : LinearOrder K] [inst_2 : IsStrictOrderedRing K] {ι : Type} [inst_3 : Fintype ι] [inst_4 : DecidableEq ι] (L : ExpLaw K) (S : ℕ → Matrix ι ι K) (α exitVec : ι → K) (eps : List EpochT) (ts : List ℚ), codeVectorised (fun fs ↦ cdfVal L S α exitVec (castF fs)) eps ts = List.map (fun t ↦ cdfVal L S α exitVec (castF (specFactors eps t))) ts := @PG.code_cdf_pointwise

/-- `_update` through any boundaries, also landing exactly on one, composes to direct evaluation -/
theorem update_is_direct : ∀ {K : Type} [inst : Field K] [inst_1 : LinearOrder K] [inst_2 : IsStrictOrderedRing K] {κ : Type} [inst_3 : Fintype κ] [inst_4 : DecidableEq κ] (L : ExpLaw K) (V : ℕ → Matrix κ κ K) (eps : List EpochT) (idx : ℕ) (uPrev u u' : ℚ), u ≤ u' → evalFactors L V (castF (advance eps idx uPrev u).2.2) * evalFactors L V (castF (advance (advance eps idx uPrev u).1 (advance eps idx uPrev u).2.1 u u').2.2) = evalFactors L V (castF (advance eps idx uPrev u').2.2) := @PG.update_compose

/-- evaluation at t = 0 is the empty product -/
theorem boundary_zero_factor : ∀ (eps : List EpochT), WF eps 0 → specFactors eps 0 = [(0, 0)] := @PG.specFactors_zero

/-- expansion + bisection: returned point has CDF within precision of q -/
theorem quantile_spec : ∀ (F : ℚ → ℚ), (∀ (a b : ℚ), a ≤ b → F a ≤ F b) → ∀ (q expansion precision : ℚ) (maxIter : ℕ), F 0 ≤ q → 1 < expansion → have r := expandLoop F q expansion maxIter 1; have r2 := bisectLoop F q precision (maxIter - r.2) 0 r.1; q ≤ F r.1 → F r2.2 - F r2.1 ≤ precision → quantileLoop F q expansion precision maxIter = (r2.1 + r2.2) / 2 ∧ F r2.1 ≤ q ∧ q ≤ F r2.2 ∧ 0 ≤ r2.1 ∧ r2.1 ≤ r2.2 ∧ r2.2 ≤ r.1 ∧ |F (quantileLoop F q expansion precision maxIter) - q| ≤ precision := @PG.quantile_spec

/-- the exit vector (tree-height reward) is the indicator of non-absorbing states -/
theorem exit_vector : ∀ (n : ℕ) (s : State), (∀ l < State.nLoci s, 1 ≤ State.locusTotal s l) → (Reward.eval n s Reward.treeHeight = 0 ↔ State.isAbsorbing s = true) := @PG.treeHeight_zero_iff_absorbing

/-- two-locus generator of the code on non-absorbing states -/
theorem two_locus_generator : ∀ {D : ℕ} (ts : Fin D → ℚ) (mig : Fin D → Fin D → ℚ) (r : ℚ) (c : Fin D × LCls → ℕ), ¬Absorbing2 c → ∀ (g : State → ℚ), genOf (transit Model.kingman (mkEpoch ts mig r) (enc2 c)) g (enc2 c) = QCs (argRate r ts mig) argRes (fun c' ↦ g (enc2 c')) c := @PG.genOf_transit_two_locus

/-- CAPSTONE (cdf route): cdf on ANY list of non-negative times (unsorted, repeated) returns entrywise the cdf of the labelled process; a negative time raises (cdf_call_error_iff) -/
theorem end_to_end_cdf : ∀ {D : ℕ} {K : Type} [inst : Field K] [inst_1 : LinearOrder K] [inst_2 : IsStrictOrderedRing K] {m : Model} {cinit : Fin D → ℕ} {ts : ℕ → Fin D → ℚ} {mig : ℕ → Fin D → Fin D → ℚ} {r : ℕ → ℚ} {fuel : ℕ → ℕ} {G : ℕ → Graph}, (∀ (e : ℕ), bfs (transit m (mkEpoch (ts e) (mig e) (r e))) (encLC cinit) (fuel e) = some (G e)) → ∀ (L : ExpLaw K) (n : ℕ) (c0 : Fin D → ℕ) (x0 : Assembly.LabS encLC (G 0).visited (∑ d, cinit d)), cntF (Assembly.LabP.val x0) = c0 → ∀ (eps : List EpochT) (times : List ℚ), (∀ t ∈ times, 0 ≤ t) → EndToEnd.cdfCallK L G n c0 eps times = Except.ok (List.map (EndToEnd.labCdf L m ts mig G cinit n x0 eps) times) := @PG.EndToEnd.cdf_call_eq_labelled

/-- with the epochs produced by the demography model -/
theorem end_to_end_cdf_demography : ∀ {K : Type} [inst : Field K] [inst_1 : LinearOrder K] [inst_2 : IsStrictOrderedRing K] (I : Config.Input) (o : DemoOpts) (count : ℕ) {m : Model} (tsOf : ℚ → ℚ) {cinit : Fin (List.length (Config.axis I)) → ℕ} {r : ℕ → ℚ} {fuel : ℕ → ℕ} {G : ℕ → Graph}, (∀ (e : ℕ), bfs (transit m (mkEpoch (EndToEnd.demoTs tsOf I (EndToEnd.demoEpochs o I count) (List.length (Config.axis I)) e) (EndToEnd.demoMig I (EndToEnd.demoEpochs o I count) (List.length (Config.axis I)) e) (r e))) (encLC cinit) (fuel e) = some (G e)) → ∀ (L : ExpLaw K) (n : ℕ) (c0 : Fin (List.length (Config.axis I)) → ℕ) (x0 : Assembly.LabS encLC (G 0).visited (∑ d, cinit d)), cntF (Assembly.LabP.val x0) = c0 → ∀ (times : List ℚ), (∀ t ∈ times, 0 ≤ t) → EndToEnd.cdfCallK L G n c0 (List.map Epoch.toT (EndToEnd.demoEpochs o I count)) times = Except.ok (List.map (EndToEnd.labCdf L m (EndToEnd.demoTs tsOf I (EndToEnd.demoEpochs o I count) (List.length (Config.axis I))) (EndToEnd.demoMig I (EndToEnd.demoEpochs o I count) (List.length (Config.axis I))) G cinit n x0 (List.map Epoch.toT (EndToEnd.demoEpochs o I count))) times) := @PG.EndToEnd.cdf_with_demography

/-- CAPSTONE: the two-locus tree_height.cdf on any list of non-negative times is the cdf of the labelled ARG -/
theorem end_to_end_cdf_two_locus : ∀ {D : ℕ} {K : Type} [inst : Field K] [inst_1 : LinearOrder K] [inst_2 : IsStrictOrderedRing K] {cinit : Fin D × LCls → ℕ} {ts : ℕ → Fin D → ℚ} {mig : ℕ → Fin D → Fin D → ℚ} {r : ℕ → ℚ} {fuel : ℕ → ℕ} {G : ℕ → Graph}, (∀ (e : ℕ), bfs (transit Model.kingman (mkEpoch (ts e) (mig e) (r e))) (enc2 cinit) (fuel e) = some (G e)) → ∀ (L : ExpLaw K) (n' : ℕ) (nv : Fin D → ℕ) (x0 : Assembly.LabS enc2 (G 0).visited (Assembly.bound2 (G 0).visited)), cntF (Assembly.LabP.val x0) = Assembly.sample2 nv → ∀ (eps : List EpochT) (times : List ℚ), (∀ t ∈ times, 0 ≤ t) → EndToEnd.cdfCallK2 L G n' nv eps times = Except.ok (List.map (EndToEnd.labCdf2 L ts mig r G n' x0 eps) times) := @PG.EndToEnd.cdf_two_locus_eq_labelled

end PG.C03

#print axioms PG.C03.cdf_zero
#print axioms PG.C03.moment_zero_at_time_zero
#print axioms PG.C03.mean_is_integral_of_survival
#print axioms PG.C03.van_loan_integral
#print axioms PG.C03.mean_increment
#print axioms PG.C03.cdf_eq_labelled
#print axioms PG.C03.cdf_eq_labelled_two_loci
#print axioms PG.C03.cdf_of_lumped_chain
#print axioms PG.C03.cdf_range
#print axioms PG.C03.cdf_monotone
#print axioms PG.C03.cdf_pointwise
#print axioms PG.C03.update_is_direct
#print axioms PG.C03.boundary_zero_factor
#print axioms PG.C03.quantile_spec
#print axioms PG.C03.exit_vector
#print axioms PG.C03.two_locus_generator
#print axioms PG.C03.end_to_end_cdf
#print axioms PG.C03.end_to_end_cdf_demography
#print axioms PG.C03.end_to_end_cdf_two_locus
