/-
# C04 — State spaces are the exact lumping of the labelled coalescent

For every configuration the lineage-counting and block-counting Markov chains that the library
builds are exactly the projection of the labelled ancestral process (set partitions of the samples
with a deme per block; for two loci, lineages carrying ancestral material per locus) onto the counts
they record: every reachable count-state is present exactly once, every transition rate equals the
summed rate of the labelled process, nothing leaves a fully coalesced state except migration, and
the initial distribution is concentrated on the state matching the requested sample and linkage.
Each rate matrix is a proper generator (non-negative off-diagonal, zero row sums) in every epoch.

Quantifier: exhaustively for all sample splits with n <= 5 over <= 3 demes (two loci: n <= 4 / <= 2 demes), all
three models, both state spaces, and for arbitrary (algebraically generic) population sizes,
migration rates and recombination rates in every epoch

Proved for every n, every number of demes, all rates (unbounded, subsuming the bound of the
property): the three state spaces are exact lumpings of the labelled particle system (lineage
counting and block counting for Kingman, Beta, Dirac; two loci for Kingman), BFS returns each
reachable state once, closed under transitions, rate matrix rows represent the generator and sum to
zero, rates are non-negative, absorbing states only migrate. The exact difference between the code
and the unstopped ARG at absorbing two-locus states is QCs_absorbing. Partial: PT3.

This file restates the theorems the property rests on (full statements; proofs are in PGProofs/).
Generated once by harness/mkprops.py from harness/props_table.py + PGProperties/extra/C04.lean.in; committed as source.
-/
import PGProofs.TwoLocusInit
import PGProofs.DriverPath
import PGProofs.Assembly
import PGProofs.Bridge
import PGProofs.BridgeBC
import PGProofs.BridgeTwoLocus

set_option linter.all false
set_option pp.fieldNotation.generalized false

namespace PG.C04
open PG

/-- two loci: from the all-unlinked start every state with n lineages at both loci is reached (zero-rate edges included), for every D -/
theorem two_locus_all_visited : ∀ {D : ℕ} [NeZero D] (ts : Fin D → ℚ) (mig : Fin D → Fin D → ℚ) (r : ℚ) (n fuel : ℕ) (G : Graph), 2 ≤ n → bfs (transit Model.kingman (mkEpoch ts mig r)) (initialState 2 D 1 n) fuel = some G → ∀ (c : Fin D × LCls → ℕ), ∑ d, (c (d, LCls.L) + c (d, LCls.U1)) = n → ∑ d, (c (d, LCls.L) + c (d, LCls.U2)) = n → enc2 c ∈ G.visited := @PG.TwoLocusInit.two_locus_all_visited

/-- two-locus alpha is uniform over exactly the visited states matching the sample and the linkage -/
theorem two_locus_alpha : type_of% @PG.TwoLocusInit.two_locus_alpha := @PG.TwoLocusInit.two_locus_alpha   -- (printed statement does not re-elaborate; see the source lemma)

/-- and sums to one -/
theorem two_locus_alpha_sum : ∀ {D : ℕ} [NeZero D] (ts : Fin D → ℚ) (mig : Fin D → Fin D → ℚ) (r : ℚ) (n fuel : ℕ) (G : Graph), 2 ≤ n → bfs (transit Model.kingman (mkEpoch ts mig r)) (initialState 2 D 1 n) fuel = some G → ∀ (nv : Fin D → ℕ), ∑ d, nv d = n → ∀ (u : ℕ), List.sum (alphaVec G.visited (List.ofFn nv) 2 u) = 1 := @PG.TwoLocusInit.two_locus_alpha_sum

/-- documented: for n = 1 no state passes the test (alpha would be 0/0); the properties require n >= 2 -/
theorem two_locus_n_one : ∀ {D : ℕ} [NeZero D] (ts : Fin D → ℚ) (mig : Fin D → Fin D → ℚ) (r : ℚ) (fuel : ℕ) (G : Graph), bfs (transit Model.kingman (mkEpoch ts mig r)) (initialState 2 D 1 1) fuel = some G → ∀ (nv : Fin D → ℕ), ∑ d, nv d = 1 → alphaVec G.visited (List.ofFn nv) 2 0 = List.map (fun x ↦ 0) G.visited := @PG.TwoLocusInit.two_locus_alpha_n_one

/-- the dense generator the DRIVER builds equals rateEntry entry by entry -/
theorem driver_matrix : ∀ (states : List State), List.Nodup states → ∀ (tr : List ((State × State) × ℚ)) (i j : ℕ), i < List.length states → j < List.length states → Array.getD (Array.getD (denseGen (List.length states) (sparseRows states tr)) i #[]) j 0 = rateEntry states tr i j := @PG.denseGen_sparseRows

/-- hence equals the matrices of the headline theorems -/
theorem driver_matrix_is_codeMat : ∀ (G : ℕ → Graph) (step : State → Targets) (init : State) (fuel : ℕ), bfs step init fuel = some (G 0) → ∀ (e : ℕ) (i j : Fin (List.length (G 0).visited)), Assembly.codeMat G e i j = Array.getD (Array.getD (denseGen (List.length (G 0).visited) (sparseRows (G 0).visited (G e).transitions)) ↑i #[]) (↑j) 0 := @PG.codeMat_eq_denseGen_bfs

/-- every count vector with the right total is a state -/
theorem all_sample_configs_visited : ∀ {D : ℕ} {m : Model} {cinit : Fin D → ℕ} {ts : ℕ → Fin D → ℚ} {mig : ℕ → Fin D → Fin D → ℚ} {r : ℕ → ℚ} {fuel : ℕ → ℕ} {G : ℕ → Graph}, (∀ (e : ℕ), bfs (transit m (mkEpoch (ts e) (mig e) (r e))) (encLC cinit) (fuel e) = some (G e)) → ∀ (c : Fin D → ℕ), ∑ d, c d = ∑ d, cinit d → encLC c ∈ (G 0).visited := @PG.Assembly.lineage_all_configs_visited

/-- alpha is concentrated on the state matching the sample -/
theorem alpha_is_indicator : ∀ {D : ℕ} {m : Model} {cinit : Fin D → ℕ} {ts : ℕ → Fin D → ℚ} {mig : ℕ → Fin D → Fin D → ℚ} {r : ℕ → ℚ} {fuel : ℕ → ℕ} {G : ℕ → Graph}, (∀ (e : ℕ), bfs (transit m (mkEpoch (ts e) (mig e) (r e))) (encLC cinit) (fuel e) = some (G e)) → ∀ (c0 : Fin D → ℕ), encLC c0 ∈ (G 0).visited → ∀ (j : Fin (List.length (G 0).visited)), List.getD (alphaVec (G 0).visited (List.ofFn c0) 1 0) (↑j) 0 = if (G 0).visited[j] = encLC c0 then 1 else 0 := @PG.Assembly.lineage_alpha

/-- one state list serves all epochs -/
theorem visited_independent_of_epoch : ∀ {D : ℕ} (m : Model) (cinit : Fin D → ℕ) (ts : ℕ → Fin D → ℚ) (mig : ℕ → Fin D → Fin D → ℚ) (r : ℕ → ℚ) (fuel : ℕ → ℕ) (G : ℕ → Graph), (∀ (e : ℕ), bfs (transit m (mkEpoch (ts e) (mig e) (r e))) (encLC cinit) (fuel e) = some (G e)) → ∀ (e : ℕ), (G e).visited = (G 0).visited := @PG.Assembly.visited_indep

/-- exchangeable particle system: labelled generator on count functions = count generator -/
theorem general_lumping : ∀ {T : Type u_1} [inst : DecidableEq T] [inst_1 : Fintype T] {K : Type u_2} [inst_2 : CommRing K] {ε : Type u_3} [inst_3 : Fintype ε] (rate : ε → (T → ℕ) → (T → ℕ) → K) (res : ε → (T → ℕ) → T → ℕ) (g : (T → ℕ) → K) (x : List T), QLs rate res g x = QCs rate res g (cntF x) := @PG.lumpings

/-- the labelled generator does not depend on the order of the particles -/
theorem representative_independent : ∀ {T : Type u_1} [inst : DecidableEq T] [Fintype T] {K : Type u_2} [inst_2 : CommRing K] {ε : Type u_3} [inst_3 : Fintype ε] (rate : ε → (T → ℕ) → (T → ℕ) → K) (res : ε → (T → ℕ) → T → ℕ) (g : (T → ℕ) → K) {x y : List T}, List.Perm x y → QLs rate res g x = QLs rate res g y := @PG.QLs_perm

/-- lineage counting -/
theorem lumping_lineage : ∀ {D : ℕ} (m : Model) (ts : Fin D → ℚ) (mig : Fin D → Fin D → ℚ) (r : ℚ) (g : State → ℚ) (x : List (Fin D)), 2 ≤ List.length x → QLs (linRate (lam m) ts mig) linRes (fun c' ↦ g (encLC c')) x = genOf (transit m (mkEpoch ts mig r) (encLC (cntF x))) g (encLC (cntF x)) := @PG.C04_lumping_lineage

/-- block counting -/
theorem lumping_block : ∀ {D n : ℕ} [inst : NeZero n] (m : Model) (ts : Fin D → ℚ) (mig : Fin D → Fin D → ℚ) (r : ℚ) (g : State → ℚ) (x : List (Fin D × Fin n)), 2 ≤ n → massBC (cntF x) = n → 2 ≤ List.length x → QLs (blkRate (lam m) ts mig) blkRes (fun c' ↦ g (encBC c')) x = genOf (transit m (mkEpoch ts mig r) (encBC (cntF x))) g (encBC (cntF x)) := @PG.C04_lumping_block

/-- two loci, non-absorbing states -/
theorem lumping_two_locus : ∀ {D : ℕ} (ts : Fin D → ℚ) (mig : Fin D → Fin D → ℚ) (r : ℚ) (g : State → ℚ) (x : List (Fin D × LCls)), ¬Absorbing2 (cntF x) → QLs (argRate r ts mig) argRes (fun c' ↦ g (enc2 c')) x = genOf (transit Model.kingman (mkEpoch ts mig r) (enc2 (cntF x))) g (enc2 (cntF x)) := @PG.C04_lumping_two_locus

/-- at absorbing two-locus states the code drops recombination and locus coalescence: exact difference -/
theorem two_locus_absorbing : ∀ {D : ℕ} (ts : Fin D → ℚ) (mig : Fin D → Fin D → ℚ) (r : ℚ) (c : Fin D × LCls → ℕ), Absorbing2 c → ∀ (g : State → ℚ), QCs (argRate r ts mig) argRes (fun c' ↦ g (enc2 c')) c = genOf (transit Model.kingman (mkEpoch ts mig r) (enc2 c)) g (enc2 c) + ∑ d, ↑(c (d, LCls.L)) * r * (g (enc2 (c - e1 (d, LCls.L) + (e1 (d, LCls.U1) + e1 (d, LCls.U2)))) - g (enc2 c)) + ∑ d, ↑(c (d, LCls.U1)) * ↑(c (d, LCls.U2)) * (1 / ts d) * (g (enc2 (c - (e1 (d, LCls.U1) + e1 (d, LCls.U2)) + e1 (d, LCls.L))) - g (enc2 c)) := @PG.QCs_absorbing

/-- BFS: no duplicates, initial state present, closed, transitions = rows, all reachable -/
theorem bfs_correct : ∀ (step : State → Targets) (init : State) (fuel : ℕ) (g : Graph), bfs step init fuel = some g → List.Nodup g.visited ∧ init ∈ g.visited ∧ (∀ s ∈ g.visited, ∀ p ∈ step s, p.1 ∈ g.visited) ∧ g.transitions = List.flatMap (fun s ↦ List.map (fun p ↦ ((s, p.1), p.2)) (step s)) g.visited ∧ ∀ s ∈ g.visited, Reach step init s := @PG.bfs_spec

/-- rate matrix rows, lineage counting -/
theorem matrix_row_lineage : type_of% @PG.lineage_matrix_row := @PG.lineage_matrix_row   -- (printed statement does not re-elaborate; see the source lemma)

/-- rate matrix rows, block counting -/
theorem matrix_row_block : type_of% @PG.block_matrix_row := @PG.block_matrix_row   -- (printed statement does not re-elaborate; see the source lemma)

/-- rate matrix rows, two loci -/
theorem matrix_row_two_locus : type_of% @PG.two_locus_matrix_row := @PG.two_locus_matrix_row   -- (printed statement does not re-elaborate; see the source lemma)

/-- every transition rate is non-negative for valid parameters -/
theorem rates_nonneg : ∀ (m : Model), Model.Valid m → ∀ (ep : EpochP), EpochP.Valid ep → ∀ (s : State), ∀ p ∈ transit m ep s, 0 ≤ p.2 := @PG.transit_rates_nonneg

/-- from a fully coalesced state only migration leaves -/
theorem absorbing_only_migrate : ∀ (m : Model) (ep : EpochP) (s : State), State.isAbsorbing s = true → transit m ep s = Dict.union [] (migrate ep s) := @PG.transit_absorbing

/-- zero row sums without self loops -/
theorem row_sum_zero : type_of% @PG.rateEntry_row_sum_zero := @PG.rateEntry_row_sum_zero   -- (printed statement does not re-elaborate; see the source lemma)

/-- distinct count vectors are distinct states -/
theorem encLC_injective : type_of% @PG.encLC_injective := @PG.encLC_injective   -- (printed statement does not re-elaborate; see the source lemma)

/-! ## hand-written part: glue, non-vacuity examples, counterexamples -/
/-- non-vacuity: the BFS hypothesis of the matrix-row / headline theorems holds on a concrete two-deme Kingman
configuration (3 samples, asymmetric migration), and the state list has the expected 9 states -/
theorem nonvacuous_bfs_lineage :
    ((bfs (transit .kingman (mkEpoch (D := 2) ![1, 2] ![![0, 1/2], ![1/4, 0]] 0)) (encLC ![3, 0]) 50).map
      (·.visited.length)) = some 9 := by decide +kernel

/-- non-vacuity for multiple mergers on the block-counting space: Beta(3/2), n = 4, one deme: 5 states -/
theorem nonvacuous_bfs_block :
    ((bfs (transit (.beta (3/2) true) (mkEpoch (D := 1) ![1] ![![0]] 0)) (initialState 1 1 4 4) 50).map
      (·.visited.length)) = some 5 := by decide +kernel

/-- non-vacuity for two loci: n = 2, one deme, r = 1: 9 states -/
theorem nonvacuous_bfs_two_locus :
    ((bfs (transit .kingman (mkEpoch (D := 1) ![1] ![![0]] 1)) (initialState 2 1 1 2) 50).map
      (·.visited.length)) = some 9 := by decide +kernel

end PG.C04

#print axioms PG.C04.two_locus_all_visited
#print axioms PG.C04.two_locus_alpha
#print axioms PG.C04.two_locus_alpha_sum
#print axioms PG.C04.two_locus_n_one
#print axioms PG.C04.driver_matrix
#print axioms PG.C04.driver_matrix_is_codeMat
#print axioms PG.C04.all_sample_configs_visited
#print axioms PG.C04.alpha_is_indicator
#print axioms PG.C04.visited_independent_of_epoch
#print axioms PG.C04.general_lumping
#print axioms PG.C04.representative_independent
#print axioms PG.C04.lumping_lineage
#print axioms PG.C04.lumping_block
#print axioms PG.C04.lumping_two_locus
#print axioms PG.C04.two_locus_absorbing
#print axioms PG.C04.bfs_correct
#print axioms PG.C04.matrix_row_lineage
#print axioms PG.C04.matrix_row_block
#print axioms PG.C04.matrix_row_two_locus
#print axioms PG.C04.rates_nonneg
#print axioms PG.C04.absorbing_only_migrate
#print axioms PG.C04.row_sum_zero
#print axioms PG.C04.encLC_injective
#print axioms PG.C04.nonvacuous_bfs_lineage
#print axioms PG.C04.nonvacuous_bfs_block
#print axioms PG.C04.nonvacuous_bfs_two_locus
