/-
# C16 — Mutation-configuration probabilities form the distribution implied by the tree

For a single-epoch model and mutation rate theta, the probabilities of mutational configurations are
non-negative, sum to 1 over all configurations (the running generated mass converges to 1), give the
empty configuration the Laplace transform of the total branch length at theta, have expected counts
theta times the expected SFS, and equal the first-step (Ethier-Griffiths type) recursion on the
block-counting process; a folded configuration's probability is the sum over its unfoldings.

Quantifier: for all n, all structured single-epoch configurations and models, all theta >= 0, all configurations
with up to 6 mutations

Proved exactly over any field, unbounded n: the matrix the code inverts, sum of P_i = P_total, words
of length m sum to P_total^m and regroup by configuration through distinct orderings, total mass of
<= M mutations = 1 - alpha P_total^(M+1) 1, empty configuration = resolvent form of the Laplace
transform, expected counts = theta times expected SFS, first-step recursion, `_unfold` lists exactly
the unfoldings, `_get_partitions` and the distinct-orderings spec. The numbers are probabilities:
for a sub-generator (off-diagonals >= 0, row sums <= 0), theta > 0 and positive total reward the
resolvent is entrywise non-negative (M-matrix minimum principle), hence every configuration
probability lies in [0, 1] and every partial mass in [0, 1]. Partial: PT4.

This file restates the theorems the property rests on (full statements; proofs are in PGProofs/).
Generated once by harness/mkprops.py from harness/props_table.py + PGProperties/extra/C16.lean.in; committed as source.
-/
import PGProofs.DriverPath
import PGProofs.MutConfig
import PGProofs.MutConfigNonneg
import PGProofs.MutConfigBridge
import PGProofs.MutConfigBridge2

set_option linter.all false
set_option pp.fieldNotation.generalized false

namespace PG.C16
open PG

/-- the EXECUTABLE getP (certified Gauss-Jordan inverse) returns the matrices of the theorems -/
theorem executable_getP : ∀ {S : RMat} {R : List (Array ℚ)} {θ : ℚ} {P : List RMat} {pTot : Array ℚ}, getP S R θ = some (P, pTot) → ∃ Ptot, mcCode θ (rFun (Array.size S) R) (toMatrix (Array.size S) S) * Ptot = 1 ∧ Ptot * mcCode θ (rFun (Array.size S) R) (toMatrix (Array.size S) S) = 1 ∧ List.length P = List.length R ∧ (∀ A ∈ P, WellShaped (Array.size S) A) ∧ (∀ (i : Fin (List.length R)), toMatrix (Array.size S) (List.getD P (↑i) (RMat.id (Array.size S))) = Ptot * Matrix.diagonal fun s ↦ rFun (Array.size S) R i s / mcRtot (rFun (Array.size S) R) s) ∧ toVec (Array.size S) pTot = Matrix.mulVec (1 - Ptot) 1 := @PG.getP_spec

/-- and provides the resolvent hypotheses of the C16 theorems -/
theorem executable_resolvent : ∀ {S : RMat} {R : List (Array ℚ)} {θ : ℚ} {P : List RMat} {pTot : Array ℚ}, getP S R θ = some (P, pTot) → θ ≠ 0 → (∀ (s : Fin (Array.size S)), mcRtot (rFun (Array.size S) R) s ≠ 0) → ∃ G, (θ • mcD (rFun (Array.size S) R) - toMatrix (Array.size S) S) * G = 1 ∧ G * (θ • mcD (rFun (Array.size S) R) - toMatrix (Array.size S) S) = 1 ∧ List.length P = List.length R ∧ (∀ A ∈ P, WellShaped (Array.size S) A) ∧ (∀ (i : Fin (List.length R)), toMatrix (Array.size S) (List.getD P (↑i) (RMat.id (Array.size S))) = mcP G θ (rFun (Array.size S) R) i) ∧ toVec (Array.size S) pTot = mcptot G θ (rFun (Array.size S) R) := @PG.getP_resolvent

/-- the EXECUTABLE mutConfigProb the driver prints is alpha . (sum over distinct orderings) . p_total -/
theorem executable_prob : ∀ {S : RMat} {R : List (Array ℚ)} {alpha : Array ℚ} {θ : ℚ} {config : List ℕ} {p : ℚ}, mutConfigProb S R alpha θ config = some p → θ ≠ 0 → (∀ (s : Fin (Array.size S)), mcRtot (rFun (Array.size S) R) s ≠ 0) → List.length config ≤ List.length R → ∃ G, (θ • mcD (rFun (Array.size S) R) - toMatrix (Array.size S) S) * G = 1 ∧ G * (θ • mcD (rFun (Array.size S) R) - toMatrix (Array.size S) S) = 1 ∧ p = toVec (Array.size S) alpha ⬝ᵥ Matrix.mulVec (orderingsSum (mcPnat G θ (rFun (Array.size S) R)) (configWord config)) (mcptot G θ (rFun (Array.size S) R)) := @PG.mutConfigProb_spec

/-- so the printed probabilities of all configurations with m mutations sum to alpha P_total^m p_total -/
theorem executable_mass : ∀ {S : RMat} {R : List (Array ℚ)} {θ : ℚ} {P : List RMat} {pTot : Array ℚ}, getP S R θ = some (P, pTot) → θ ≠ 0 → (∀ (s : Fin (Array.size S)), mcRtot (rFun (Array.size S) R) s ≠ 0) → 1 ≤ List.length R → ∀ (alpha : Array ℚ), ∃ G, (θ • mcD (rFun (Array.size S) R) - toMatrix (Array.size S) S) * G = 1 ∧ G * (θ • mcD (rFun (Array.size S) R) - toMatrix (Array.size S) S) = 1 ∧ ∀ (m : ℕ), List.sum (List.map (fun c ↦ Option.getD (mutConfigProb S R alpha θ c) 0) (partitionsOf m (List.length R))) = toVec (Array.size S) alpha ⬝ᵥ Matrix.mulVec (mcPtot G θ (rFun (Array.size S) R) ^ m) (mcptot G θ (rFun (Array.size S) R)) := @PG.mutConfigProb_mass

/-- and the printed empty-configuration probability is the resolvent form -/
theorem executable_empty : ∀ {S : RMat} {R : List (Array ℚ)} {alpha : Array ℚ} {θ p : ℚ}, mutConfigProb S R alpha θ [] = some p → θ ≠ 0 → (∀ (s : Fin (Array.size S)), mcRtot (rFun (Array.size S) R) s ≠ 0) → ∃ G, (θ • mcD (rFun (Array.size S) R) - toMatrix (Array.size S) S) * G = 1 ∧ G * (θ • mcD (rFun (Array.size S) R) - toMatrix (Array.size S) S) = 1 ∧ p = toVec (Array.size S) alpha ⬝ᵥ Matrix.mulVec G (Matrix.mulVec (-toMatrix (Array.size S) S) 1) := @PG.mutConfigProb_empty

/-- P_total is the right inverse of the matrix the code builds -/
theorem code_matrix_left : ∀ {K : Type u_1} [inst : Field K] {ι : Type u_2} [inst_1 : Fintype ι] [inst_2 : DecidableEq ι] {n : ℕ} {θ : K} {R : Fin n → ι → K} {S G : Matrix ι ι K}, θ ≠ 0 → (∀ (s : ι), mcRtot R s ≠ 0) → (θ • mcD R - S) * G = 1 → mcCode θ R S * mcPtot G θ R = 1 := @PG.C16_code_mul_Ptot

/-- and the left inverse -/
theorem code_matrix_right : ∀ {K : Type u_1} [inst : Field K] {ι : Type u_2} [inst_1 : Fintype ι] [inst_2 : DecidableEq ι] {n : ℕ} {θ : K} {R : Fin n → ι → K} {S G : Matrix ι ι K}, θ ≠ 0 → (∀ (s : ι), mcRtot R s ≠ 0) → G * (θ • mcD R - S) = 1 → mcPtot G θ R * mcCode θ R S = 1 := @PG.C16_Ptot_mul_code

/-- sum_i P_i = P_total -/
theorem P_total : ∀ {K : Type u_1} [inst : Field K] {ι : Type u_2} [inst_1 : Fintype ι] [inst_2 : DecidableEq ι] {n : ℕ} {θ : K} {R : Fin n → ι → K} {G : Matrix ι ι K}, (∀ (s : ι), mcRtot R s ≠ 0) → ∑ i, mcP G θ R i = mcPtot G θ R := @PG.C16_Ptotal

/-- all words of length m -/
theorem words : type_of% @PG.C16_words := @PG.C16_words   -- (printed statement does not re-elaborate; see the source lemma)

/-- regrouped by configuration via distinct orderings -/
theorem words_by_config : ∀ {M : Type u_1} [inst : Semiring M] (P : ℕ → M) (n m : ℕ), 1 ≤ n → List.sum (List.map (fun c ↦ orderingsSum P (configWord c)) (partitionsOf m n)) = (∑ i ∈ Finset.range n, P (i + 1)) ^ m := @PG.C16_words_by_config

/-- configurations with exactly m mutations carry alpha P_total^m p_total -/
theorem config_mass : ∀ {K : Type u_1} [inst : Field K] {ι : Type u_2} [inst_1 : Fintype ι] [inst_2 : DecidableEq ι] {n : ℕ} {θ : K} {R : Fin n → ι → K} {G : Matrix ι ι K}, (∀ (s : ι), mcRtot R s ≠ 0) → 1 ≤ n → ∀ (α : ι → K) (m : ℕ), List.sum (List.map (fun c ↦ α ⬝ᵥ Matrix.mulVec (orderingsSum (mcPnat G θ R) (configWord c)) (mcptot G θ R)) (partitionsOf m n)) = α ⬝ᵥ Matrix.mulVec (mcPtot G θ R ^ m) (mcptot G θ R) := @PG.C16_config_mass

/-- cumulative mass telescopes -/
theorem mass : ∀ {K : Type u_1} [inst : Field K] {ι : Type u_2} [inst_1 : Fintype ι] [inst_2 : DecidableEq ι] {n : ℕ} {θ : K} {R : Fin n → ι → K} {G : Matrix ι ι K} (α : ι → K) (M : ℕ), ∑ m' ∈ Finset.range (M + 1), α ⬝ᵥ Matrix.mulVec (mcPtot G θ R ^ m') (mcptot G θ R) = ∑ s, α s - α ⬝ᵥ Matrix.mulVec (mcPtot G θ R ^ (M + 1)) 1 := @PG.C16_mass

/-- empty configuration: resolvent form -/
theorem empty : ∀ {K : Type u_1} [inst : Field K] {ι : Type u_2} [inst_1 : Fintype ι] [inst_2 : DecidableEq ι] {n : ℕ} {θ : K} {R : Fin n → ι → K} {S G : Matrix ι ι K}, G * (θ • mcD R - S) = 1 → mcptot G θ R = Matrix.mulVec G (Matrix.mulVec (-S) 1) := @PG.C16_empty

/-- expected counts = theta * (-S)^-1 diag(R_i) -/
theorem expected_counts : ∀ {K : Type u_1} [inst : Field K] {ι : Type u_2} [inst_1 : Fintype ι] [inst_2 : DecidableEq ι] {n : ℕ} {θ : K} {R : Fin n → ι → K} {S G : Matrix ι ι K}, (∀ (s : ι), mcRtot R s ≠ 0) → G * (θ • mcD R - S) = 1 → (θ • mcD R - S) * G = 1 → ∀ {Sinv : Matrix ι ι K}, Sinv * S = 1 → S * Sinv = 1 → ∀ (i : Fin n), (1 - mcPtot G θ R) * -(Sinv * (θ • mcD R - S)) = 1 ∧ -(Sinv * (θ • mcD R - S)) * (1 - mcPtot G θ R) = 1 ∧ -(Sinv * (θ • mcD R - S)) * mcP G θ R i = θ • (-Sinv * Matrix.diagonal (R i)) := @PG.C16_expected_counts

/-- first-step recursion -/
theorem first_step : ∀ {K : Type u_1} [inst : Field K] {ι : Type u_2} [inst_1 : Fintype ι] [inst_2 : DecidableEq ι] {n : ℕ} {θ : K} {R : Fin n → ι → K} {S G : Matrix ι ι K}, (∀ (s : ι), mcRtot R s ≠ 0) → (θ • mcD R - S) * G = 1 → ∀ (v : Fin n → ι → K), Matrix.mulVec (θ • mcD R - S) (∑ i, Matrix.mulVec (mcP G θ R i) (v i)) = θ • ∑ i, Matrix.mulVec (Matrix.diagonal (R i)) (v i) := @PG.C16_first_step_vec

/-- orderings of c = union over i of i :: orderings of c - e_i -/
theorem orderings_recursion : ∀ {M : Type u_1} [inst : Semiring M] (P : ℕ → M) (q : List ℕ), q ≠ [] → orderingsSum P q = List.sum (List.map (fun x ↦ P x * orderingsSum P (List.erase q x)) (dedupList q)) := @PG.C16_orderings_recursion

/-- every distinct ordering exactly once -/
theorem orderings_spec : ∀ (q : List ℕ), List.Nodup (distinctOrderings q) ∧ ∀ (w : List ℕ), w ∈ distinctOrderings q ↔ List.Perm w q := @PG.distinctOrderings_spec

/-- _get_partitions lists every configuration once -/
theorem partitions_spec : ∀ (m n : ℕ), 1 ≤ n → List.Nodup (partitionsOf m n) ∧ ∀ (c : List ℕ), c ∈ partitionsOf m n ↔ List.length c = n ∧ List.sum c = m := @PG.partitionsOf_spec

/-- _unfold lists exactly the configurations that fold to the given one -/
theorem unfold_spec : ∀ (n : ℕ) (config : List ℕ), List.length config = n / 2 → 2 ≤ n → List.Nodup (unfoldConfig n config) ∧ ∀ (u : List ℕ), u ∈ unfoldConfig n config ↔ List.length u = n - 1 ∧ foldConfig n u = config := @PG.unfoldConfig_spec

/-- M-MATRIX: (theta D - S)^-1 is entrywise non-negative for every sub-generator S, theta > 0, positive total reward (minimum principle for Z-matrices with positive row sums) -/
theorem resolvent_nonneg : ∀ {K : Type u_1} [inst : Field K] [inst_1 : LinearOrder K] [IsStrictOrderedRing K] {ι : Type u_2} [inst_3 : Fintype ι] [inst_4 : DecidableEq ι] {n : ℕ} {θ : K} {R : Fin n → ι → K} {S G : Matrix ι ι K}, (∀ (i j : ι), i ≠ j → 0 ≤ S i j) → (∀ (i : ι), ∑ j, S i j ≤ 0) → 0 < θ → (∀ (s : ι), 0 < mcRtot R s) → (θ • mcD R - S) * G = 1 → ∀ (i j : ι), 0 ≤ G i j := @PG.resolvent_nonneg

/-- the matrix the code inverts is invertible under the same hypotheses -/
theorem resolvent_exists : ∀ {K : Type u_1} [inst : Field K] [inst_1 : LinearOrder K] [IsStrictOrderedRing K] {ι : Type u_2} [inst_3 : Fintype ι] [inst_4 : DecidableEq ι] {n : ℕ} {θ : K} {R : Fin n → ι → K} {S : Matrix ι ι K}, (∀ (i j : ι), i ≠ j → 0 ≤ S i j) → (∀ (i : ι), ∑ j, S i j ≤ 0) → 0 < θ → (∀ (s : ι), 0 < mcRtot R s) → Matrix.det (θ • mcD R - S) ≠ 0 := @PG.resolvent_det_ne_zero

/-- every configuration probability (sum over distinct orderings) is >= 0 -/
theorem prob_nonneg : ∀ {K : Type u_1} [inst : Field K] [inst_1 : LinearOrder K] [IsStrictOrderedRing K] {ι : Type u_2} [inst_3 : Fintype ι] [inst_4 : DecidableEq ι] {n : ℕ} {θ : K} {R : Fin n → ι → K} {S G : Matrix ι ι K}, (∀ (i j : ι), i ≠ j → 0 ≤ S i j) → (∀ (i : ι), ∑ j, S i j ≤ 0) → 0 < θ → (∀ (i : Fin n) (s : ι), 0 ≤ R i s) → (∀ (s : ι), 0 < mcRtot R s) → (θ • mcD R - S) * G = 1 → ∀ {α : ι → K}, (∀ (s : ι), 0 ≤ α s) → ∀ (q : List ℕ), 0 ≤ α ⬝ᵥ Matrix.mulVec (orderingsSum (mcPnat G θ R) q) (mcptot G θ R) := @PG.config_orderings_prob_nonneg

/-- and <= 1 -/
theorem prob_le_one : ∀ {K : Type u_1} [inst : Field K] [inst_1 : LinearOrder K] [IsStrictOrderedRing K] {ι : Type u_2} [inst_3 : Fintype ι] [inst_4 : DecidableEq ι] {n : ℕ} {θ : K} {R : Fin n → ι → K} {S G : Matrix ι ι K}, (∀ (i j : ι), i ≠ j → 0 ≤ S i j) → (∀ (i : ι), ∑ j, S i j ≤ 0) → 0 < θ → (∀ (i : Fin n) (s : ι), 0 ≤ R i s) → (∀ (s : ι), 0 < mcRtot R s) → (θ • mcD R - S) * G = 1 → ∀ {α : ι → K}, (∀ (s : ι), 0 ≤ α s) → ∑ s, α s ≤ 1 → 1 ≤ n → ∀ {c : List ℕ}, List.length c = n → α ⬝ᵥ Matrix.mulVec (orderingsSum (mcPnat G θ R) (configWord c)) (mcptot G θ R) ≤ 1 := @PG.config_orderings_prob_le_one

/-- the mass of all configurations with at most M mutations is <= 1 (and >= 0: config_mass_nonneg) -/
theorem mass_le_one : ∀ {K : Type u_1} [inst : Field K] [inst_1 : LinearOrder K] [IsStrictOrderedRing K] {ι : Type u_2} [inst_3 : Fintype ι] [inst_4 : DecidableEq ι] {n : ℕ} {θ : K} {R : Fin n → ι → K} {S G : Matrix ι ι K}, (∀ (i j : ι), i ≠ j → 0 ≤ S i j) → (∀ (i : ι), ∑ j, S i j ≤ 0) → 0 < θ → (∀ (s : ι), 0 < mcRtot R s) → (θ • mcD R - S) * G = 1 → ∀ {α : ι → K}, (∀ (s : ι), 0 ≤ α s) → ∑ s, α s ≤ 1 → ∀ (M : ℕ), ∑ m' ∈ Finset.range (M + 1), α ⬝ᵥ Matrix.mulVec (mcPtot G θ R ^ m') (mcptot G θ R) ≤ 1 := @PG.config_mass_le_one

/-- the EXECUTABLE mutConfigProb returns a non-negative number under the sign hypotheses on its inputs -/
theorem executable_prob_nonneg : ∀ {S : RMat} {R : List (Array ℚ)} {alpha : Array ℚ} {θ : ℚ} {config : List ℕ} {p : ℚ}, mutConfigProb S R alpha θ config = some p → (∀ (i j : Fin (Array.size S)), i ≠ j → 0 ≤ toMatrix (Array.size S) S i j) → (∀ (i : Fin (Array.size S)), ∑ j, toMatrix (Array.size S) S i j ≤ 0) → 0 < θ → (∀ (i : Fin (List.length R)) (s : Fin (Array.size S)), 0 ≤ rFun (Array.size S) R i s) → (∀ (s : Fin (Array.size S)), 0 < mcRtot (rFun (Array.size S) R) s) → (∀ (s : Fin (Array.size S)), 0 ≤ toVec (Array.size S) alpha s) → List.length config ≤ List.length R → 0 ≤ p := @PG.mutConfigProb_nonneg

/-- and at most 1 -/
theorem executable_prob_le_one : ∀ {S : RMat} {R : List (Array ℚ)} {alpha : Array ℚ} {θ : ℚ} {config : List ℕ} {p : ℚ}, mutConfigProb S R alpha θ config = some p → (∀ (i j : Fin (Array.size S)), i ≠ j → 0 ≤ toMatrix (Array.size S) S i j) → (∀ (i : Fin (Array.size S)), ∑ j, toMatrix (Array.size S) S i j ≤ 0) → 0 < θ → (∀ (i : Fin (List.length R)) (s : Fin (Array.size S)), 0 ≤ rFun (Array.size S) R i s) → (∀ (s : Fin (Array.size S)), 0 < mcRtot (rFun (Array.size S) R) s) → (∀ (s : Fin (Array.size S)), 0 ≤ toVec (Array.size S) alpha s) → ∑ s, toVec (Array.size S) alpha s ≤ 1 → 1 ≤ List.length R → List.length config = List.length R → p ≤ 1 := @PG.mutConfigProb_le_one

/-- M x >= 0 implies x >= 0 for a Z-matrix with strictly positive row sums -/
theorem minimum_principle : ∀ {K : Type u_1} [inst : Field K] [inst_1 : LinearOrder K] [IsStrictOrderedRing K] {ι : Type u_2} [inst_3 : Fintype ι] [DecidableEq ι] {M : Matrix ι ι K}, (∀ (i j : ι), i ≠ j → M i j ≤ 0) → (∀ (i : ι), 0 < ∑ j, M i j) → ∀ {x : ι → K}, (∀ (i : ι), 0 ≤ Matrix.mulVec M x i) → ∀ (i : ι), 0 ≤ x i := @PG.zmatrix_minimum_principle

/-- UNCONDITIONAL on the code model: for every valid model and epoch, every n >= 2 and number of demes, the inputs the mutcfg path builds from the BFS graph satisfy all sign hypotheses, so whatever mutConfigProb returns lies in [0, 1] (no hypothesis on S, R, alpha left) -/
theorem code_prob_in_unit_interval : ∀ {D n : ℕ} (m : Model), Model.Valid m → ∀ (ep : EpochP), EpochP.Valid ep → 0 < D → 2 ≤ n → ∀ (fuel : ℕ) (g : Graph), bfs (transit m ep) (initialState 1 D n n) fuel = some g → ∀ (nVec : List ℕ) (nLoci nUnl : ℕ) (θ : ℚ), 0 < θ → ∀ (config : List ℕ) (p : ℚ), mutConfigProb (mutcfgInputs g n nVec nLoci nUnl).1 (mutcfgInputs g n nVec nLoci nUnl).2.1 (mutcfgInputs g n nVec nLoci nUnl).2.2 θ config = some p → 0 ≤ p ∧ (List.length config = n - 1 → p ≤ 1) := @PG.C16_code_prob_in_unit_interval

/-- the values returned for all configurations with at most M mutations sum to a number in [0, 1] -/
theorem code_total_mass : ∀ {D n : ℕ} (m : Model), Model.Valid m → ∀ (ep : EpochP), EpochP.Valid ep → 0 < D → 2 ≤ n → ∀ (fuel : ℕ) (g : Graph), bfs (transit m ep) (initialState 1 D n n) fuel = some g → ∀ (nVec : List ℕ) (nLoci nUnl : ℕ) (θ : ℚ), 0 < θ → ∀ (P : List RMat) (pTot : Array ℚ), getP (mutcfgS g) (mutcfgR g n) θ = some (P, pTot) → ∀ (M : ℕ), 0 ≤ ∑ k ∈ Finset.range (M + 1), List.sum (List.map (fun c ↦ Option.getD (mutConfigProb (mutcfgS g) (mutcfgR g n) (mutcfgAlpha g nVec nLoci nUnl) θ c) 0) (partitionsOf k (n - 1))) ∧ ∑ k ∈ Finset.range (M + 1), List.sum (List.map (fun c ↦ Option.getD (mutConfigProb (mutcfgS g) (mutcfgR g n) (mutcfgAlpha g nVec nLoci nUnl) θ c) 0) (partitionsOf k (n - 1))) ≤ 1 := @PG.C16_code_total_mass_in_unit_interval

/-- the transient block of the code generator has non-positive row sums (and non-negative off-diagonals: generator_offdiag_nonneg) -/
theorem generator_signs : ∀ (m : Model), Model.Valid m → ∀ (ep : EpochP), EpochP.Valid ep → ∀ (init : State) (fuel : ℕ) (g : Graph), bfs (transit m ep) init fuel = some g → ∀ (T : Finset (Fin (List.length g.visited))), ∀ i ∈ T, ∑ j ∈ T, rateEntry g.visited g.transitions ↑i ↑j ≤ 0 := @PG.transient_block_row_sum_nonpos

/-- every non-absorbing block-counting state carries total branch-length reward >= 2 -/
theorem transient_reward_pos : ∀ {D n : ℕ} (m : Model) (ep : EpochP), 0 < D → 2 ≤ n → ∀ (fuel : ℕ) (g : Graph), bfs (transit m ep) (initialState 1 D n n) fuel = some g → ∀ s ∈ g.visited, State.isAbsorbing s = false → 0 < Reward.eval n s Reward.totalBranchLength := @PG.transient_total_reward_pos

/-- TOTAL on the code model: mutConfigProb RETURNS a value (the certified Gauss-Jordan inverse cannot take its singular branch) and it lies in [0, 1] - valid model and epoch, n >= 2, theta > 0, nothing else -/
theorem code_prob_total : ∀ {D n : ℕ} (m : Model), Model.Valid m → ∀ (ep : EpochP), EpochP.Valid ep → 0 < D → 2 ≤ n → ∀ (fuel : ℕ) (g : Graph), bfs (transit m ep) (initialState 1 D n n) fuel = some g → ∀ (nVec : List ℕ) (nLoci nUnl : ℕ) (θ : ℚ), 0 < θ → ∀ (config : List ℕ), ∃ p, mutConfigProb (mutcfgInputs g n nVec nLoci nUnl).1 (mutcfgInputs g n nVec nLoci nUnl).2.1 (mutcfgInputs g n nVec nLoci nUnl).2.2 θ config = some p ∧ 0 ≤ p ∧ (List.length config = n - 1 → p ≤ 1) := @PG.C16_code_prob_total

/-- the same for the folded path (rewards foldedSFS_i, n/2 bins) -/
theorem code_prob_folded : ∀ {D n : ℕ} (m : Model), Model.Valid m → ∀ (ep : EpochP), EpochP.Valid ep → 0 < D → 2 ≤ n → ∀ (fuel : ℕ) (g : Graph), bfs (transit m ep) (initialState 1 D n n) fuel = some g → ∀ (nVec : List ℕ) (nLoci nUnl : ℕ) (θ : ℚ), 0 < θ → ∀ (config : List ℕ), ∃ p, mutConfigProb (mutcfgInputsFolded g n nVec nLoci nUnl).1 (mutcfgInputsFolded g n nVec nLoci nUnl).2.1 (mutcfgInputsFolded g n nVec nLoci nUnl).2.2 θ config = some p ∧ 0 ≤ p ∧ (List.length config = n / 2 → p ≤ 1) := @PG.C16_code_prob_total_folded

/-- the executable Gauss-Jordan routine (pivot search, swap, scale, eliminate; loop invariant Left = Right * A with injective left block) returns the two-sided inverse of every well-shaped matrix with non-zero determinant -/
theorem gauss_jordan_succeeds : ∀ {k : ℕ} (a : RMat), WellShaped k a → Matrix.det (toMatrix k a) ≠ 0 → ∃ b, RMat.inv a = some b ∧ WellShaped k b ∧ toMatrix k b * toMatrix k a = 1 ∧ toMatrix k a * toMatrix k b = 1 := @PG.RMat.inv_spec_of_det_ne_zero

/-- getP returns a value exactly when the matrix the code inverts is invertible -/
theorem getP_defined_iff : ∀ (S : RMat) (R : List (Array ℚ)) (θ : ℚ), (∃ out, getP S R θ = some out) ↔ Matrix.det (mcCode θ (rFun (Array.size S) R) (toMatrix (Array.size S) S)) ≠ 0 := @PG.getP_isSome_iff

end PG.C16

#print axioms PG.C16.executable_getP
#print axioms PG.C16.executable_resolvent
#print axioms PG.C16.executable_prob
#print axioms PG.C16.executable_mass
#print axioms PG.C16.executable_empty
#print axioms PG.C16.code_matrix_left
#print axioms PG.C16.code_matrix_right
#print axioms PG.C16.P_total
#print axioms PG.C16.words
#print axioms PG.C16.words_by_config
#print axioms PG.C16.config_mass
#print axioms PG.C16.mass
#print axioms PG.C16.empty
#print axioms PG.C16.expected_counts
#print axioms PG.C16.first_step
#print axioms PG.C16.orderings_recursion
#print axioms PG.C16.orderings_spec
#print axioms PG.C16.partitions_spec
#print axioms PG.C16.unfold_spec
#print axioms PG.C16.resolvent_nonneg
#print axioms PG.C16.resolvent_exists
#print axioms PG.C16.prob_nonneg
#print axioms PG.C16.prob_le_one
#print axioms PG.C16.mass_le_one
#print axioms PG.C16.executable_prob_nonneg
#print axioms PG.C16.executable_prob_le_one
#print axioms PG.C16.minimum_principle
#print axioms PG.C16.code_prob_in_unit_interval
#print axioms PG.C16.code_total_mass
#print axioms PG.C16.generator_signs
#print axioms PG.C16.transient_reward_pos
#print axioms PG.C16.code_prob_total
#print axioms PG.C16.code_prob_folded
#print axioms PG.C16.gauss_jordan_succeeds
#print axioms PG.C16.getP_defined_iff
