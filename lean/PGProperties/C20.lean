/-
# C20 — Unsupported or invalid requests fail loudly instead of returning numbers

Requests outside the documented domain raise an exception instead of returning a value: SFS
statistics with two loci, multiple-merger models with two loci, fewer than one or more than two
loci, negative times (construction, cdf, accumulation, moment end time), an end time before the
start time at construction, non-positive population sizes, negative migration or recombination rates
by every route they can be supplied, alpha outside [1,2] and psi outside (0,1), a reward tuple whose
length differs from the order, a mutation configuration of the wrong length or with negative theta
or more than one epoch, and quantile levels outside [0,1]. A not-a-number result is never returned
without an exception or a logged warning.

Quantifier: for all members of each invalid input class and all entry points that could observe them

Proved on the model of the argument checks (order and boundary conditions mirrored): validate
rejects exactly the invalid classes (complete and sound), boundary members decided, the pre-fix
recombination-rate route refuted. Documented exceptions: order-0 accumulate returns ones before any
check (not a listed class). Partial: the NaN clause is runtime exploration.

This file restates the theorems the property rests on (full statements; proofs are in PGProofs/).
Generated once by harness/mkprops.py from harness/props_table.py + PGProperties/extra/C20.lean.in; committed as source.
-/
import PGProofs.ValidateThm
import PGProofs.ApiThm

set_option linter.all false
set_option pp.fieldNotation.generalized false

namespace PG.C20
open PG

/-- every invalid request is rejected -/
theorem complete : ∀ (r : Validate.Request), Validate.invalid r → Except.isOk (Validate.validate r) = false := @PG.Validate.C20_complete

/-- valid requests are not rejected -/
theorem sound : ∀ (r : Validate.Request), ¬Validate.invalid r → Validate.validate r = Except.ok () := @PG.Validate.C20_sound

/-- accepted iff not invalid -/
theorem exact : ∀ (r : Validate.Request), Validate.validate r = Except.ok () ↔ ¬Validate.invalid r := @PG.Validate.validate_ok_iff

/-- pre-fix: negative recombination rate next to a LocusConfig was accepted -/
theorem pinned_defect : type_of% @PG.Validate.pinned_defect := @PG.Validate.pinned_defect   -- (printed statement does not re-elaborate; see the source lemma)

/-- the repair changes nothing else -/
theorem pinned_agrees_elsewhere : ∀ (r : Validate.Request), ¬(r.viaConfig = true ∧ Validate.optLt r.recArg 0) → Validate.validatePinned r = Validate.validate r := @PG.Validate.pinned_agrees

/-- alpha in {1,2} accepted, psi in {0,1} rejected -/
theorem boundary_model : Validate.validate { model := Validate.ModelKind.beta, alpha := 1 } = Except.ok () ∧ Validate.validate { model := Validate.ModelKind.beta, alpha := 2 } = Except.ok () ∧ Validate.validate { model := Validate.ModelKind.beta, alpha := 999 / 1000 } = Except.error Validate.Err.valueError ∧ Validate.validate { model := Validate.ModelKind.beta, alpha := 2001 / 1000 } = Except.error Validate.Err.valueError ∧ Validate.validate { model := Validate.ModelKind.dirac, psi := 0 } = Except.error Validate.Err.valueError ∧ Validate.validate { model := Validate.ModelKind.dirac, psi := 1 } = Except.error Validate.Err.valueError ∧ Validate.validate { model := Validate.ModelKind.dirac, psi := 1 / 1000, c := -1 } = Except.ok () := @PG.Validate.boundary_model

/-- end = start accepted, end < start rejected -/
theorem boundary_times : Validate.validate { startTime := -1 } = Except.error Validate.Err.valueError ∧ Validate.validate { endTime := some (-1) } = Except.error Validate.Err.valueError ∧ Validate.validate { startTime := 2, endTime := some 1 } = Except.error Validate.Err.valueError ∧ Validate.validate { startTime := 2, endTime := some 2 } = Except.ok () ∧ Validate.validate { endTime := some 0 } = Except.ok () := @PG.Validate.boundary_times

/-- quantile 0 and 1 accepted -/
theorem boundary_query : Validate.validate { query := Validate.Query.cdf [0, 1] } = Except.ok () ∧ Validate.validate { query := Validate.Query.cdf [1, -1 / 1000] } = Except.error Validate.Err.valueError ∧ Validate.validate { query := Validate.Query.accumulate 2 2 [0, 1] } = Except.ok () ∧ Validate.validate { query := Validate.Query.accumulate 2 1 [0, 1] } = Except.error Validate.Err.valueError ∧ Validate.validate { query := Validate.Query.accumulate 2 3 [0, 1] } = Except.error Validate.Err.valueError ∧ Validate.validate { query := Validate.Query.accumulate 1 1 [1, -1] } = Except.error Validate.Err.valueError ∧ Validate.validate { query := Validate.Query.moment 1 1 (some 0) } = Except.ok () ∧ Validate.validate { query := Validate.Query.moment 1 1 (some (-1)) } = Except.error Validate.Err.valueError ∧ Validate.validate { query := Validate.Query.moment 2 1 none } = Except.error Validate.Err.valueError ∧ Validate.validate { query := Validate.Query.quantile 0 } = Except.ok () ∧ Validate.validate { query := Validate.Query.quantile 1 } = Except.ok () ∧ Validate.validate { query := Validate.Query.quantile (-1 / 1000) } = Except.error Validate.Err.valueError ∧ Validate.validate { query := Validate.Query.quantile (1001 / 1000) } = Except.error Validate.Err.valueError := @PG.Validate.boundary_query

/-- order-0 accumulation returns before any check (documented) -/
theorem order0_escapes : Validate.validate { query := Validate.Query.accumulate 0 0 [-1] } = Except.ok () ∧ Validate.validate { loci := 2, model := Validate.ModelKind.beta, query := Validate.Query.accumulate 0 0 [1] } = Except.ok () ∧ Validate.validate { loci := 2, model := Validate.ModelKind.beta, query := Validate.Query.moment 0 0 (some 1) } = Except.ok () ∧ Validate.validate { loci := 2, model := Validate.ModelKind.beta, query := Validate.Query.moment 0 0 none } = Except.error Validate.Err.notImplemented ∧ Validate.validate { loci := 2, model := Validate.ModelKind.beta, endTime := some 1, query := Validate.Query.moment 0 0 none } = Except.ok () := @PG.Validate.order0_escapes

/-- CALL LAYER: a reward tuple whose length differs from the order is rejected by accumulate and moment for EVERY k (incl. 0 and negative), times, centring and permutation flag -/
theorem call_length_mismatch : ∀ {ρ : Type} (v : Api.Variant), v ≠ Api.Variant.noLengthCheck → ∀ (ctx : Api.DistCtx ρ) (k : ℤ) (rs : List ρ), ↑(List.length rs) ≠ k → (∀ (ts : List ℚ) (center permute : Bool), Api.accumulateCall v ctx k (some rs) ts center permute = Except.error Api.ApiErr.valueError) ∧ ∀ (startTime endTime : Option ℚ) (center permute : Bool), Api.momentCall v ctx { k := k, rewards := some rs, startTime := startTime, endTime := endTime, center := center, permute := permute } = Except.error Api.ApiErr.valueError := @PG.Api.api_length_mismatch_rejected

/-- a negative order is rejected whatever the rewards -/
theorem call_negative_order : ∀ {ρ : Type} (v : Api.Variant) (ctx : Api.DistCtx ρ), ∀ k < 0, ∀ (rewards : Option (List ρ)), (∀ (ts : List ℚ) (center permute : Bool), Api.accumulateCall v ctx k rewards ts center permute = Except.error Api.ApiErr.valueError) ∧ ∀ (startTime endTime : Option ℚ) (center permute : Bool), Api.momentCall v ctx { k := k, rewards := rewards, startTime := startTime, endTime := endTime, center := center, permute := permute } = Except.error Api.ApiErr.valueError := @PG.Api.api_negative_order_rejected

/-- documented exception: order 0 with no rewards returns ones before any time check -/
theorem call_order0 : ∀ {ρ : Type} (v : Api.Variant) (ctx : Api.DistCtx ρ) (rewards : Option (List ρ)), rewards = none ∨ rewards = some [] → ∀ (ts : List ℚ) (center permute : Bool), Api.accumulateCall v ctx 0 rewards ts center permute = Except.ok (List.map (fun x ↦ 1) ts) := @PG.Api.api_order0

/-- kernel-checked: without the check in accumulate a longer tuple silently uses its prefix (the check in _accumulate is not equivalent) -/
theorem call_no_length_check_defect : Api.accumulateCall Api.Variant.noLengthCheck Api.ctxEx 2 (some [1, 2, 3]) [1 / 2, 2] true true = Except.ok [15 / 2, 120] ∧ Api.accumulateCall Api.Variant.noLengthCheck Api.ctxEx 2 (some [1, 2]) [1 / 2, 2] true true = Except.ok [15 / 2, 120] ∧ Api.accumulateCall Api.Variant.current Api.ctxEx 2 (some [1, 2, 3]) [1 / 2, 2] true true = Except.error Api.ApiErr.valueError ∧ Api.accumulateCall Api.Variant.noLengthCheck Api.ctxEx 0 (some [1]) [1 / 2, -2] true true = Except.ok [1, 1] ∧ Api.accumulateCall Api.Variant.current Api.ctxEx 0 (some [1]) [1 / 2, -2] true true = Except.error Api.ApiErr.valueError ∧ Api.accumulateCall Api.Variant.noLengthCheck Api.ctxEx 3 (some [1, 2]) [1 / 2] true true = Except.error Api.ApiErr.indexError ∧ Api.momentCall Api.Variant.noLengthCheck Api.ctxEx { k := 2, rewards := some [1, 2, 3], startTime := some 0, endTime := some 2 } = Except.ok 120 ∧ Api.momentCall Api.Variant.current Api.ctxEx { k := 2, rewards := some [1, 2, 3], startTime := some 0, endTime := some 2 } = Except.error Api.ApiErr.valueError := @PG.Api.api_centred_reads_prefix_noLengthCheck_counterexample

end PG.C20

#print axioms PG.C20.complete
#print axioms PG.C20.sound
#print axioms PG.C20.exact
#print axioms PG.C20.pinned_defect
#print axioms PG.C20.pinned_agrees_elsewhere
#print axioms PG.C20.boundary_model
#print axioms PG.C20.boundary_times
#print axioms PG.C20.boundary_query
#print axioms PG.C20.order0_escapes
#print axioms PG.C20.call_length_mismatch
#print axioms PG.C20.call_negative_order
#print axioms PG.C20.call_order0
#print axioms PG.C20.call_no_length_check_defect
