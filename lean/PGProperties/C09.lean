/-
# C09 — Results obey the time-rescaling law and are accurate at every scale

Changing the unit of time by a factor c (all change times and the model's coalescent time scale
multiplied by c, migration and recombination rates divided by c) multiplies every k-th order moment
by c^k, shifts cdf and quantiles accordingly, and leaves correlations unchanged. With default
settings this holds to relative 1e-9 for population sizes anywhere between 1e-3 and 1e9 whenever no
numerical or horizon warning is logged, and switching the numerical regularisation off changes
nothing in the moderate-scale regime.

Quantifier: for all configurations, all c > 0 that keep every population size within [1e-3, 1e9], all models
(time scale N, N^(alpha-1), N^2), all orders k

Proved for every k, every epoch list and every exponential obeying the laws: durations times c with
generators divided by c multiply the k-th moment by c^k and leave the cdf unchanged; the
regularisation factor cancels exactly; model time scales (Kingman, Dirac N^2, Beta N^(alpha-1) with
real powers) scale as stated. Partial: 1e-9 accuracy of floats.

This file restates the theorems the property rests on (full statements; proofs are in PGProofs/).
Generated once by harness/mkprops.py from harness/props_table.py + PGProperties/extra/C09.lean.in; committed as source.
-/
import PGProofs.Corollaries
import PGProofs.VanLoan
import PGProofs.RatesThm

set_option linter.all false
set_option pp.fieldNotation.generalized false

namespace PG.C09
open PG

/-- HEADLINE: on the BFS graphs the code builds, time scales times c and migration rates divided by c multiply every k-th moment by c^k (durations times c) -/
theorem code_moments_rescale : ∀ {K : Type} [inst : Field K] [inst_1 : LinearOrder K] [inst_2 : IsStrictOrderedRing K] {k D : ℕ} {m : Model} {cinit : Fin D → ℕ} {ts ts' : ℕ → Fin D → ℚ} {mig mig' : ℕ → Fin D → Fin D → ℚ} {r r' : ℕ → ℚ} {fuel fuel' : ℕ → ℕ} {G G' : ℕ → Graph} (L : ExpLaw K) (c : ℚ), c ≠ 0 → (∀ (e : ℕ) (d : Fin D), ts' e d = c * ts e d) → (∀ (e : ℕ) (a b : Fin D), mig' e a b = mig e a b / c) → (∀ (e : ℕ), bfs (transit m (mkEpoch (ts e) (mig e) (r e))) (encLC cinit) (fuel e) = some (G e)) → (∀ (e : ℕ), bfs (transit m (mkEpoch (ts' e) (mig' e) (r' e))) (encLC cinit) (fuel' e) = some (G' e)) → ∀ (R : Fin k → Fin (List.length (G 0).visited) → K) (α : Fin (List.length (G 0).visited) → K) (fs : List (ℕ × K)), accumVal L (fun e ↦ Matrix.map (Corollaries.codeMatOn G G' e) fun q ↦ ↑q) R α (List.map (fun f ↦ (f.1, ↑c * f.2)) fs) = ↑c ^ k * accumVal L (fun e ↦ Matrix.map (Assembly.codeMat G e) fun q ↦ ↑q) R α fs := @PG.Corollaries.C09_lineage_moments

/-- and leave the cdf unchanged -/
theorem code_cdf_rescale : ∀ {K : Type} [inst : Field K] [inst_1 : LinearOrder K] [inst_2 : IsStrictOrderedRing K] {D : ℕ} {m : Model} {cinit : Fin D → ℕ} {ts ts' : ℕ → Fin D → ℚ} {mig mig' : ℕ → Fin D → Fin D → ℚ} {r r' : ℕ → ℚ} {fuel fuel' : ℕ → ℕ} {G G' : ℕ → Graph} (L : ExpLaw K) (c : ℚ), c ≠ 0 → (∀ (e : ℕ) (d : Fin D), ts' e d = c * ts e d) → (∀ (e : ℕ) (a b : Fin D), mig' e a b = mig e a b / c) → (∀ (e : ℕ), bfs (transit m (mkEpoch (ts e) (mig e) (r e))) (encLC cinit) (fuel e) = some (G e)) → (∀ (e : ℕ), bfs (transit m (mkEpoch (ts' e) (mig' e) (r' e))) (encLC cinit) (fuel' e) = some (G' e)) → ∀ (α exitVec : Fin (List.length (G 0).visited) → K) (fs : List (ℕ × K)), cdfVal L (fun e ↦ Matrix.map (Corollaries.codeMatOn G G' e) fun q ↦ ↑q) α exitVec (List.map (fun f ↦ (f.1, ↑c * f.2)) fs) = cdfVal L (fun e ↦ Matrix.map (Assembly.codeMat G e) fun q ↦ ↑q) α exitVec fs := @PG.Corollaries.C09_lineage_cdf

/-- the code model transit scales by 1/c (lineage counting) -/
theorem transit_rescale_lineage : ∀ {D : ℕ} (m : Model) (ts ts' : Fin D → ℚ) (mig mig' : Fin D → Fin D → ℚ) (r r' c : ℚ), (∀ (d : Fin D), ts' d = c * ts d) → (∀ (a b : Fin D), mig' a b = mig a b / c) → ∀ (x : Fin D → ℕ) (g : State → ℚ), genOf (transit m (mkEpoch ts' mig' r') (encLC x)) g (encLC x) = c⁻¹ * genOf (transit m (mkEpoch ts mig r) (encLC x)) g (encLC x) := @PG.Corollaries.genOf_transit_lineage_rescale

/-- block counting -/
theorem transit_rescale_block : ∀ {D n : ℕ} [NeZero n] (m : Model) (ts ts' : Fin D → ℚ) (mig mig' : Fin D → Fin D → ℚ) (r r' c : ℚ), (∀ (d : Fin D), ts' d = c * ts d) → (∀ (a b : Fin D), mig' a b = mig a b / c) → ∀ (x : Fin D × Fin n → ℕ), 2 ≤ n → massBC x ≤ n → ∀ (g : State → ℚ), genOf (transit m (mkEpoch ts' mig' r') (encBC x)) g (encBC x) = c⁻¹ * genOf (transit m (mkEpoch ts mig r) (encBC x)) g (encBC x) := @PG.Corollaries.genOf_transit_block_rescale

/-- two loci (recombination rate divided by c) -/
theorem transit_rescale_two_locus : ∀ {D : ℕ} (ts ts' : Fin D → ℚ) (mig mig' : Fin D → Fin D → ℚ) (r r' c : ℚ), (∀ (d : Fin D), ts' d = c * ts d) → (∀ (a b : Fin D), mig' a b = mig a b / c) → r' = r / c → ∀ (x : Fin D × LCls → ℕ) (g : State → ℚ), genOf (transit Model.kingman (mkEpoch ts' mig' r') (enc2 x)) g (enc2 x) = c⁻¹ * genOf (transit Model.kingman (mkEpoch ts mig r) (enc2 x)) g (enc2 x) := @PG.Corollaries.genOf_transit_two_locus_rescale

/-- all population sizes times a: generators divided by the model time factor (a, or a^2 for Dirac) -/
theorem popsize_rescale : ∀ {D : ℕ} (m : Model) (a : ℚ) (N ts ts' : Fin D → ℚ), (∀ (d : Fin D), timescaleRat m (N d) = some (ts d)) → (∀ (d : Fin D), timescaleRat m (a * N d) = some (ts' d)) → ∀ (mig mig' : Fin D → Fin D → ℚ) (r r' : ℚ), (∀ (x y : Fin D), mig' x y = mig x y / Corollaries.timeFactor m a) → ∀ (x : Fin D → ℕ) (g : State → ℚ), genOf (transit m (mkEpoch ts' mig' r') (encLC x)) g (encLC x) = (Corollaries.timeFactor m a)⁻¹ * genOf (transit m (mkEpoch ts mig r) (encLC x)) g (encLC x) := @PG.Corollaries.genOf_transit_lineage_popsize_rescale

/-- time unit change by c: k-th moment times c^k -/
theorem moment_rescale : ∀ {K : Type} [inst : Field K] [inst_1 : LinearOrder K] [inst_2 : IsStrictOrderedRing K] {ι : Type} [inst_3 : Fintype ι] [inst_4 : DecidableEq ι] {k : ℕ} (L : ExpLaw K) (S : ℕ → Matrix ι ι K) (R : Fin k → ι → K) (α : ι → K) (c : K), c ≠ 0 → ∀ (fs : List (ℕ × K)), accumVal L (fun e ↦ c⁻¹ • S e) R α (List.map (fun f ↦ (f.1, c * f.2)) fs) = c ^ k * accumVal L S R α fs := @PG.accumVal_time_rescale

/-- cdf(c t) unchanged -/
theorem cdf_rescale : ∀ {K : Type} [inst : Field K] [inst_1 : LinearOrder K] [inst_2 : IsStrictOrderedRing K] {ι : Type} [inst_3 : Fintype ι] [inst_4 : DecidableEq ι] (L : ExpLaw K) (S : ℕ → Matrix ι ι K) (α exitVec : ι → K) (c : K), c ≠ 0 → ∀ (fs : List (ℕ × K)), cdfVal L (fun e ↦ c⁻¹ • S e) α exitVec (List.map (fun f ↦ (f.1, c * f.2)) fs) = cdfVal L S α exitVec fs := @PG.cdfVal_time_rescale

/-- regularisation factor cancels -/
theorem regularise : ∀ {K : Type} [inst : Field K] [inst_1 : LinearOrder K] [inst_2 : IsStrictOrderedRing K] {ι : Type} [inst_3 : Fintype ι] [inst_4 : DecidableEq ι] {k : ℕ} (L : ExpLaw K) (S : ℕ → Matrix ι ι K) (R : Fin k → ι → K) (α : ι → K) (c : K) (fs : List (ℕ × K)), accumVal L S (fun a i ↦ c * R a i) α fs = c ^ k * accumVal L S R α fs := @PG.accumVal_scale

/-- entrywise form -/
theorem top_right_scale : ∀ {K : Type} [inst : Field K] [inst_1 : LinearOrder K] [inst_2 : IsStrictOrderedRing K] {ι : Type} [inst_3 : Fintype ι] [inst_4 : DecidableEq ι] {k : ℕ} (L : ExpLaw K) (S : Matrix ι ι K) (R : Fin k → ι → K) (c τ : K) (i j : ι), c ^ k * L.E (τ • vanLoan S R) (0, i) (Fin.last k, j) = L.E (τ • vanLoan S fun a i ↦ c * R a i) (0, i) (Fin.last k, j) := @PG.topRight_scale

/-- Kingman: ts(cN) = c ts(N) -/
theorem timescale_kingman : ∀ (c N : ℚ), timescaleRat Model.kingman (c * N) = Option.map (fun x ↦ c * x) (timescaleRat Model.kingman N) := @PG.timescaleRat_kingman_scale

/-- Dirac: ts(aN) = a^2 ts(N) -/
theorem timescale_dirac : ∀ (psi c0 a N : ℚ), timescaleRat (Model.dirac psi c0 true) (a * N) = Option.map (fun x ↦ a ^ 2 * x) (timescaleRat (Model.dirac psi c0 true) N) := @PG.timescaleRat_dirac_scaled_scale

/-- Beta: ts(c^(1/(alpha-1)) N) = c ts(N) -/
theorem timescale_beta : ∀ (α c N : ℝ), 1 < α → 0 < c → 0 < N → betaTimescale α (c ^ (1 / (α - 1)) * N) = c * betaTimescale α N := @PG.betaTimescale_scale

end PG.C09

#print axioms PG.C09.code_moments_rescale
#print axioms PG.C09.code_cdf_rescale
#print axioms PG.C09.transit_rescale_lineage
#print axioms PG.C09.transit_rescale_block
#print axioms PG.C09.transit_rescale_two_locus
#print axioms PG.C09.popsize_rescale
#print axioms PG.C09.moment_rescale
#print axioms PG.C09.cdf_rescale
#print axioms PG.C09.regularise
#print axioms PG.C09.top_right_scale
#print axioms PG.C09.timescale_kingman
#print axioms PG.C09.timescale_dirac
#print axioms PG.C09.timescale_beta
