/-
# C19 — Inference returns the best run, within bounds, reproducibly

After run(), the reported parameters lie within the given bounds, the reported loss is the minimum
over all runs and equals the loss function evaluated at the reported parameters, and the reported
distribution is the one built from them; with a fixed seed the whole result is reproducible,
identical with state-space caching on or off, and on noise-free data from an identifiable model the
generating parameters are recovered. Merging runs keeps the lower loss, merging bootstraps appends
exactly one row each, and a run created with explicit start values starts from them (values outside
the bounds are rejected).

Quantifier: for all bounded parameterisations, seeds, numbers of runs, loss functions (norms, Poisson
likelihood) and orders of add_run/add_bootstrap

Proved with the optimiser as a parameter: _run stores the first minimum of the results,
loss_inferred = min(loss_runs), the stored point attains it; add_run keeps the lower loss,
concatenates losses, any merge order gives the global minimum; bootstraps append one row; create_run
uses the given start values and rejects out-of-bounds ones (pre-fix variant refuted). Cache
transparency is C17. The loss functions (norms, Poisson likelihood) are zero / minimal exactly at
the generating values, so a run that reaches the global minimum of an identifiable model on noise-
free data reports the generating parameters. Partial: L-BFGS-B behaviour (that some run reaches the
global minimum is a hypothesis).

This file restates the theorems the property rests on (full statements; proofs are in PGProofs/).
Generated once by harness/mkprops.py from harness/props_table.py + PGProperties/extra/C19.lean.in; committed as source.
-/
import PGProofs.InferenceThm
import PGProofs.InferenceLabels
import PGProofs.CacheThm
import PGProofs.ShareThm
import PGProofs.LossThm

set_option linter.all false
set_option pp.fieldNotation.generalized false

namespace PG.C19
open PG

/-- L1 loss is zero exactly when modelled = observed (same for Linf, squared L2: linf_eq_zero_iff, sqL2_eq_zero_iff) -/
theorem loss_norm_zero_iff : ∀ (a b : List ℚ), List.length a = List.length b → (Loss.l1 a b = 0 ↔ a = b) := @PG.Loss.l1_eq_zero_iff

/-- Linf -/
theorem loss_linf_zero_iff : ∀ (a b : List ℚ), List.length a = List.length b → (Loss.linf a b = 0 ↔ a = b) := @PG.Loss.linf_eq_zero_iff

/-- squared L2 -/
theorem loss_sql2_zero_iff : ∀ (a b : List ℚ), List.length a = List.length b → (Loss.sqL2 a b = 0 ↔ a = b) := @PG.Loss.sqL2_eq_zero_iff

/-- the negative Poisson log-likelihood of positive counts is minimal exactly at modelled = observed -/
theorem loss_poisson_min_at_truth : ∀ (c : ℝ → ℝ) (k mu : List ℝ), List.length k = List.length mu → (∀ x ∈ k, 0 < x) → (∀ x ∈ mu, 0 < x) → Loss.poissonNLL c k k ≤ Loss.poissonNLL c k mu ∧ (Loss.poissonNLL c k mu = Loss.poissonNLL c k k ↔ mu = k) := @PG.Loss.poissonNLL_min_at_truth

/-- noise-free data of an identifiable model: the generating parameter is the unique minimiser of the Poisson loss -/
theorem loss_noise_free_recovered : ∀ {Θ : Type u_1} (c : ℝ → ℝ) (m : Θ → List ℝ) (θstar : Θ), (∀ (θ : Θ), ∀ x ∈ m θ, 0 < x) → (∀ (θ : Θ), List.length (m θ) = List.length (m θstar)) → (∀ (θ : Θ), Loss.poissonNLL c (m θstar) (m θstar) ≤ Loss.poissonNLL c (m θstar) (m θ)) ∧ (∀ (θ : Θ), Loss.poissonNLL c (m θstar) (m θ) = Loss.poissonNLL c (m θstar) (m θstar) ↔ m θ = m θstar) ∧ (Function.Injective m → ∀ (θ : Θ), (∀ (θ' : Θ), Loss.poissonNLL c (m θstar) (m θ) ≤ Loss.poissonNLL c (m θstar) (m θ')) ↔ θ = θstar) := @PG.Loss.noise_free_recovered

/-- with the best-run theorem: if some run reaches the global minimum, params_inferred is the generating parameter (Poisson loss) -/
theorem loss_best_run_truth_poisson : ∀ (c : ℝ → ℝ) (D : List ℚ → Prop) (m : List ℚ → List ℝ) (θstar : List ℚ), D θstar → (∀ (θ : List ℚ), D θ → ∀ x ∈ m θ, 0 < x) → (∀ (θ : List ℚ), D θ → List.length (m θ) = List.length (m θstar)) → (∀ (θ : List ℚ), D θ → ∀ (θ' : List ℚ), D θ' → m θ = m θ' → θ = θ') → ∀ (s : Inference.State) (rs : List Inference.Run), (∀ r ∈ rs, D r.x) → (∀ r ∈ rs, ∀ r' ∈ rs, r.f ≤ r'.f → Loss.poissonNLL c (m θstar) (m r.x) ≤ Loss.poissonNLL c (m θstar) (m r'.x)) → (∃ r ∈ rs, ∀ (θ : List ℚ), D θ → Loss.poissonNLL c (m θstar) (m r.x) ≤ Loss.poissonNLL c (m θstar) (m θ)) → ∃ s', Inference.runWith s rs = Except.ok s' ∧ Inference.State.paramsInferred s' = some θstar ∧ ∃ f, Inference.State.lossInferred s' = some f ∧ f ∈ List.map (fun x ↦ x.f) rs ∧ ∀ y ∈ List.map (fun x ↦ x.f) rs, f ≤ y := @PG.Loss.best_run_is_truth_poisson

/-- the same for the norm losses; loss_inferred = 0 -/
theorem loss_best_run_truth_norm : ∀ (loss : List ℚ → List ℚ → ℚ), (∀ (a b : List ℚ), 0 ≤ loss a b) → (∀ (a b : List ℚ), List.length a = List.length b → (loss a b = 0 ↔ a = b)) → ∀ (D : List ℚ → Prop) (m : List ℚ → List ℚ) (θstar : List ℚ), D θstar → (∀ (θ : List ℚ), D θ → List.length (m θ) = List.length (m θstar)) → (∀ (θ : List ℚ), D θ → ∀ (θ' : List ℚ), D θ' → m θ = m θ' → θ = θ') → ∀ (s : Inference.State) (rs : List Inference.Run), (∀ r ∈ rs, D r.x) → (∀ r ∈ rs, r.f = loss (m θstar) (m r.x)) → (∃ r ∈ rs, r.f = 0) → ∃ s', Inference.runWith s rs = Except.ok s' ∧ Inference.State.paramsInferred s' = some θstar ∧ Inference.State.lossInferred s' = some 0 := @PG.Loss.best_run_is_truth_norm

/-- skipping empty classes (a seeded change) drops exactly the modelled mass of those classes -/
theorem loss_skip_zero_identity : ∀ (c : ℝ → ℝ) (k mu : List ℝ), (∀ x ∈ k, 0 ≤ x) → Loss.poissonNLL c k mu = Loss.poissonNLLSkip c k mu + Loss.emptyMass c k mu := @PG.Loss.poissonNLLSkip_eq

/-- and then prefers a wrong parameter: minimiser 10 instead of the maximum-likelihood value 100/11 on a concrete scaling family -/
theorem loss_skip_zero_wrong_parameter : type_of% @PG.Loss.skip_variant_wrong_parameter := @PG.Loss.skip_variant_wrong_parameter   -- (printed statement does not re-elaborate; see the source lemma)

/-- after _run: first minimum, loss_inferred = min, params belong to it, loss_runs recorded -/
theorem best : ∀ (s : Inference.State) (rs : List Inference.Run), rs ≠ [] → ∃ s' b, Inference.runWith s rs = Except.ok s' ∧ s'.best = some b ∧ Inference.FirstMin rs b ∧ b ∈ rs ∧ (∀ r ∈ rs, b.f ≤ r.f) ∧ Inference.State.lossInferred s' = some b.f ∧ b.f ∈ List.map (fun x ↦ x.f) rs ∧ (∀ y ∈ List.map (fun x ↦ x.f) rs, b.f ≤ y) ∧ Inference.State.paramsInferred s' = some b.x ∧ s'.lossRuns = List.map (fun x ↦ x.f) rs ∧ s'.bootstraps = s.bootstraps ∧ Inference.State.ran s' = true := @PG.Inference.C19_best

/-- Python min(key=...) semantics: first minimal element -/
theorem first_minimum : ∀ {rs : List Inference.Run} {b : Inference.Run}, Inference.bestOf rs = some b → Inference.FirstMin rs b := @PG.Inference.bestOf_spec

/-- merging runs in any order yields the global minimum and a permutation of the losses -/
theorem merge : ∀ (s : Inference.State) (l₁ l₂ : List Inference.State), List.Perm l₁ l₂ → (∀ o ∈ l₁, Inference.State.ran o = true) → ∃ s₁ s₂, Inference.addRuns s l₁ = Except.ok s₁ ∧ Inference.addRuns s l₂ = Except.ok s₂ ∧ Inference.State.lossInferred s₁ = Inference.State.lossInferred s₂ ∧ List.Perm s₁.lossRuns s₂.lossRuns ∧ s₁.lossRuns = s.lossRuns ++ List.flatMap (fun x ↦ x.lossRuns) l₁ ∧ (Inference.candidates s l₁ ≠ [] → ∃ b, s₁.best = some b ∧ Inference.IsGlobalMin (Inference.candidates s l₁) b) ∧ s₁.bootstraps = s.bootstraps ∧ s₂.bootstraps = s.bootstraps := @PG.Inference.C19_merge

/-- add_runs: losses concatenated, best = global minimum -/
theorem merge_spec : ∀ (s : Inference.State) (l : List Inference.State), (∀ o ∈ l, Inference.State.ran o = true) → ∃ s', Inference.addRuns s l = Except.ok s' ∧ s'.lossRuns = s.lossRuns ++ List.flatMap (fun x ↦ x.lossRuns) l ∧ s'.bootstraps = s.bootstraps ∧ (Inference.candidates s l = [] → s'.best = none) ∧ (Inference.candidates s l ≠ [] → ∃ b, s'.best = some b ∧ Inference.IsGlobalMin (Inference.candidates s l) b) := @PG.Inference.addRuns_spec

/-- adding a not-run object raises and changes nothing -/
theorem merge_not_run : ∀ (s o : Inference.State), Inference.State.ran o = false → Inference.addRun s o = Except.error Inference.Err.runtimeError ∧ Inference.replay s [Inference.Op.addRun none] = (s, [0]) := @PG.Inference.addRun_not_run

/-- each add_bootstrap appends exactly one row -/
theorem bootstrap_rows : ∀ (s o : Inference.State) (p : List ℚ), ((Inference.addBootstrapDict s p).bootstraps = s.bootstraps ++ [p] ∧ List.length (Inference.addBootstrapDict s p).bootstraps = List.length s.bootstraps + 1 ∧ (Inference.addBootstrapDict s p).best = s.best ∧ (Inference.addBootstrapDict s p).lossRuns = s.lossRuns) ∧ (Inference.State.ran o = false → Inference.addBootstrapInf s o = Except.error Inference.Err.runtimeError) ∧ ∀ (s' : Inference.State), Inference.addBootstrapInf s o = Except.ok s' → ∃ r, o.best = some r ∧ s'.bootstraps = s.bootstraps ++ [r.x] ∧ List.length s'.bootstraps = List.length s.bootstraps + 1 ∧ s'.best = s.best ∧ s'.lossRuns = s.lossRuns := @PG.Inference.C19_bootstrap_rows

/-- explicit start values are used; out-of-bounds rejected -/
theorem create_run : ∀ (bounds : List (ℚ × ℚ)) (g : Inference.X0) (cached : Option Inference.X0) (smp : Inference.X0), (Inference.inBounds bounds g = true → Inference.createRun true bounds (some g) cached smp = Except.ok g) ∧ (Inference.inBounds bounds g = false → Inference.createRun true bounds (some g) cached smp = Except.error Inference.Err.valueError) ∧ (∀ (x : Inference.X0), Inference.createRun true bounds (some g) cached smp = Except.ok x → x = g ∧ Inference.inBounds bounds g = true) ∧ (Inference.createRun true bounds none cached smp = if Inference.inBounds bounds smp = true then Except.ok smp else Except.error Inference.Err.valueError) ∧ ∀ (given cached' : Option Inference.X0), Inference.createRun true bounds given cached smp = Inference.createRun true bounds given cached' smp := @PG.Inference.C19_create_run

/-- the pre-fix create_run kept the parent's start values -/
theorem create_run_pinned_defect : Inference.createRun false [(0, 1)] (some [5]) (some [1]) [0] = Except.ok [1] ∧ Inference.createRun true [(0, 1)] (some [5]) (some [1]) [0] = Except.error Inference.Err.valueError ∧ Inference.createRun false [(0, 1)] (some [0]) (some [1]) [1] = Except.ok [1] ∧ Inference.createRun true [(0, 1)] (some [0]) (some [1]) [1] = Except.ok [0] := @PG.Inference.create_run_pinned_defect

/-- dict level: for x0 listed in ANY key order, every start point and any box-respecting optimiser, params_inferred carries the keys of x0, each value lies in ITS OWN bounds, loss_inferred is the loss at params_inferred and the minimum of loss_runs -/
theorem labels_within_bounds : ∀ (opt : Inference.Optimizer) (L : Inference.KV ℚ → ℚ) (bounds : Inference.KV (ℚ × ℚ)) (x0 : Inference.KV ℚ) (samples : List (Inference.KV ℚ)), List.Nodup (List.map Prod.fst bounds) → List.Perm (List.map Prod.fst x0) (List.map Prod.fst bounds) → (∀ s ∈ samples, List.map Prod.fst s = List.map Prod.fst bounds) → (∀ kb ∈ bounds, kb.2.1 ≤ kb.2.2) → (∀ (start : List ℚ) (bs : List (ℚ × ℚ)) (obj : List ℚ → ℚ), List.length start = List.length bs → (∀ b ∈ bs, b.1 ≤ b.2) → List.length (opt start bs obj) = List.length bs ∧ ∀ p ∈ List.zip bs (opt start bs obj), p.1.1 ≤ p.2 ∧ p.2 ≤ p.1.2) → ∃ p f runs, Inference.runLabelled Inference.Variant.repaired opt L bounds x0 samples = some (p, f, runs) ∧ List.map Prod.fst p = List.map Prod.fst x0 ∧ (∀ kv ∈ p, ∃ b, Inference.lookup bounds kv.1 = some b ∧ b.1 ≤ kv.2 ∧ kv.2 ≤ b.2) ∧ f = L p ∧ List.length runs = List.length samples + 1 ∧ (∀ r ∈ runs, f ≤ r) ∧ f ∈ runs := @PG.Inference.C19_labels_within_bounds

/-- every bounded parameter is reported, inside its own box -/
theorem labels_lookup : ∀ (opt : Inference.Optimizer) (L : Inference.KV ℚ → ℚ) (bounds : Inference.KV (ℚ × ℚ)) (x0 : Inference.KV ℚ) (samples : List (Inference.KV ℚ)), List.Nodup (List.map Prod.fst bounds) → List.Perm (List.map Prod.fst x0) (List.map Prod.fst bounds) → (∀ s ∈ samples, List.map Prod.fst s = List.map Prod.fst bounds) → (∀ kb ∈ bounds, kb.2.1 ≤ kb.2.2) → InfLab.RespectsBoxes opt → ∃ p f runs, Inference.runLabelled Inference.Variant.repaired opt L bounds x0 samples = some (p, f, runs) ∧ ∀ kb ∈ bounds, ∃ v, Inference.lookup p kb.1 = some v ∧ kb.2.1 ≤ v ∧ v ≤ kb.2.2 := @PG.Inference.C19_labels_lookup_within_bounds

/-- the key order in which x0 is written does not change the result (label-equivariant optimiser, order-insensitive loss) -/
theorem labels_order_irrelevant : ∀ (opt : Inference.Optimizer) (L : Inference.KV ℚ → ℚ) (bounds : Inference.KV (ℚ × ℚ)) (x0 x0' : Inference.KV ℚ) (samples : List (Inference.KV ℚ)), List.Nodup (List.map Prod.fst bounds) → List.Perm (List.map Prod.fst x0) (List.map Prod.fst bounds) → (∀ s ∈ samples, List.map Prod.fst s = List.map Prod.fst bounds) → List.Perm x0 x0' → (∀ (a b : Inference.KV ℚ), List.Perm a b → L a = L b) → InfLab.LabelEquivariant opt → ∃ p p' f runs, Inference.runLabelled Inference.Variant.repaired opt L bounds x0 samples = some (p, f, runs) ∧ Inference.runLabelled Inference.Variant.repaired opt L bounds x0' samples = some (p', f, runs) ∧ List.Perm p p' ∧ ∀ (k : String), Inference.lookup p k = Inference.lookup p' k := @PG.Inference.C19_labels_order_irrelevant

/-- kernel-checked: the pre-fix _run reports swapped names / values outside their bounds when a sampled start wins -/
theorem labels_pinned_defect : Inference.runLabelled Inference.Variant.pinned Inference.clampOpt Inference.exLoss Inference.exBounds Inference.exX0 Inference.exSamples = some ([("m", 12), ("N", 1 / 4)], 0, [145 / 16, 0]) ∧ Inference.inOwnBox Inference.exBounds "m" 12 = false ∧ Inference.inOwnBox Inference.exBounds "N" (1 / 4) = false ∧ Inference.exLoss [("m", 12), ("N", 1 / 4)] = 2209 / 8 ∧ ¬∃ p f runs, Inference.runLabelled Inference.Variant.pinned Inference.clampOpt Inference.exLoss Inference.exBounds Inference.exX0 Inference.exSamples = some (p, f, runs) ∧ ∀ kv ∈ p, ∃ b, Inference.lookup Inference.exBounds kv.1 = some b ∧ b.1 ≤ kv.2 ∧ kv.2 ≤ b.2 := @PG.Inference.C19_labels_pinned_counterexample

/-- kernel-checked: pre-fix loss_inferred is not the loss at params_inferred -/
theorem labels_pinned_loss : ¬∃ p f runs, Inference.runLabelled Inference.Variant.pinned Inference.clampOpt Inference.exLoss Inference.exBounds Inference.exX0 Inference.exSamples = some (p, f, runs) ∧ f = Inference.exLoss p := @PG.Inference.C19_labels_pinned_loss_mismatch

/-- kernel-checked: _optimize with list(bounds.values()) optimises under another parameter's bounds -/
theorem labels_bounds_values_defect : Inference.runLabelled Inference.Variant.boundsValues Inference.clampOpt Inference.exLoss Inference.exBounds Inference.exX0 Inference.exSamples = some ([("m", 10), ("N", 1)], 3457 / 16, [3457 / 16, 3457 / 16]) ∧ Inference.inOwnBox Inference.exBounds "m" 10 = false ∧ Inference.inOwnBox Inference.exBounds "N" 1 = false ∧ ¬∃ p f runs, Inference.runLabelled Inference.Variant.boundsValues Inference.clampOpt Inference.exLoss Inference.exBounds Inference.exX0 Inference.exSamples = some (p, f, runs) ∧ ∀ kv ∈ p, ∃ b, Inference.lookup Inference.exBounds kv.1 = some b ∧ b.1 ≤ kv.2 ∧ kv.2 ≤ b.2 := @PG.Inference.C19_labels_boundsValues_counterexample

/-- the hypotheses of labels_within_bounds are met by a concrete instance -/
theorem labels_nonvacuous : ∃ p f runs, Inference.runLabelled Inference.Variant.repaired Inference.clampOpt Inference.exLoss Inference.exBounds Inference.exX0 Inference.exSamples = some (p, f, runs) ∧ List.map Prod.fst p = List.map Prod.fst Inference.exX0 ∧ (∀ kv ∈ p, ∃ b, Inference.lookup Inference.exBounds kv.1 = some b ∧ b.1 ≤ kv.2 ∧ kv.2 ≤ b.2) ∧ f = Inference.exLoss p ∧ List.length runs = List.length Inference.exSamples + 1 ∧ (∀ r ∈ runs, f ≤ r) ∧ f ∈ runs := @PG.Inference.ex_theorem_applies

/-- the driver command inferlab computes the labelling part of the proved function -/
theorem labels_driver : ∀ (v : Inference.Variant) (opt : Inference.Optimizer) (L : Inference.KV ℚ → ℚ) (bounds : Inference.KV (ℚ × ℚ)) (x0 : Inference.KV ℚ) (samples : List (Inference.KV ℚ)), Inference.runLabelled v opt L bounds x0 samples = Option.bind (Inference.startPoints v x0 samples) fun starts ↦ Option.bind (Inference.allSome (List.map (Inference.runOne v opt L bounds) starts)) (Inference.labelResults (List.map Prod.fst x0)) := @PG.InfLab.runLabelled_eq_labelResults

/-- shared state spaces do not change answers -/
theorem cache_transparent : ∀ {E M : Type} [inst : BEq E] [LawfulBEq E] (compute : E → M) (s : Cache.State E M), Cache.Inv compute s → ∀ (ops : List (Cache.Op E)), (Cache.run compute s ops).2 = Cache.specRun compute s.epoch ops := @PG.Cache.C17_refinement

/-- state-space caching on or off: same rate matrices for every parameter set -/
theorem cache_flag_irrelevant : ∀ {E M : Type} [inst : BEq E] [LawfulBEq E] (compute : Share.SSKey → E → M), Share.Compat compute → ∀ (key0 : Share.SSKey) (e0 : E) (ops : List (Share.Op E)), Share.disciplined none ops = true → (Share.run compute (Share.Inf.init Share.EqVariant.current true key0 e0) ops).2 = (Share.run compute (Share.Inf.init Share.EqVariant.current false key0 e0) ops).2 := @PG.Share.share_cache_flag_irrelevant

end PG.C19

#print axioms PG.C19.loss_norm_zero_iff
#print axioms PG.C19.loss_linf_zero_iff
#print axioms PG.C19.loss_sql2_zero_iff
#print axioms PG.C19.loss_poisson_min_at_truth
#print axioms PG.C19.loss_noise_free_recovered
#print axioms PG.C19.loss_best_run_truth_poisson
#print axioms PG.C19.loss_best_run_truth_norm
#print axioms PG.C19.loss_skip_zero_identity
#print axioms PG.C19.loss_skip_zero_wrong_parameter
#print axioms PG.C19.best
#print axioms PG.C19.first_minimum
#print axioms PG.C19.merge
#print axioms PG.C19.merge_spec
#print axioms PG.C19.merge_not_run
#print axioms PG.C19.bootstrap_rows
#print axioms PG.C19.create_run
#print axioms PG.C19.create_run_pinned_defect
#print axioms PG.C19.labels_within_bounds
#print axioms PG.C19.labels_lookup
#print axioms PG.C19.labels_order_irrelevant
#print axioms PG.C19.labels_pinned_defect
#print axioms PG.C19.labels_pinned_loss
#print axioms PG.C19.labels_bounds_values_defect
#print axioms PG.C19.labels_nonvacuous
#print axioms PG.C19.labels_driver
#print axioms PG.C19.cache_transparent
#print axioms PG.C19.cache_flag_irrelevant
