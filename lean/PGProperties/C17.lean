/-
# C17 — Caching, query order and parallel execution never change a result

Any statistic has the same value whether it is the first thing asked of a fresh object or is asked
after an arbitrary sequence of other queries on the same object (which share and re-point mutable
state spaces and memoised rate matrices), whether rate-matrix caching is on or off, whether the
state space was reused from an earlier parameter set as the inference engine does, and whether SFS
bins are computed sequentially or in worker processes.

Quantifier: for all sequences of public queries (moments, cdf, quantile, accumulate, marginals, different end
times) on one Coalescent, all sequences of parameter sets routed through one shared state space, and
both execution modes

Proved on the state-machine model of StateSpace caching (epoch, S, per-epoch cache, drop_S,
drop_cache, first access of states): for EVERY history of operations every read of S returns the
matrix of the epoch in force, with caching on or off; the number of recomputations is bounded; the
repaired consumer (update_epoch before reading) is correct and the pre-fix stale read is refuted by
a kernel-checked 2-step history. Query procedures are sequences of these operations followed by pure
evaluation (code_accumulate_pointwise). Partial: process pools (imap order) are a runtime parameter.

This file restates the theorems the property rests on (full statements; proofs are in PGProofs/).
Generated once by harness/mkprops.py from harness/props_table.py + PGProperties/extra/C17.lean.in; committed as source.
-/
import PGProofs.CacheThm
import PGProofs.Glue
import PGProofs.MomentsThm

set_option linter.all false
set_option pp.fieldNotation.generalized false

namespace PG.C17
open PG

/-- every answer of every history equals the cache-free specification -/
theorem refinement : ∀ {E M : Type} [inst : BEq E] [LawfulBEq E] (compute : E → M) (s : Cache.State E M), Cache.Inv compute s → ∀ (ops : List (Cache.Op E)), (Cache.run compute s ops).2 = Cache.specRun compute s.epoch ops := @PG.Cache.C17_refinement

/-- the i-th read returns compute(epoch after the first i operations) -/
theorem read_at : ∀ {E M : Type} [inst : BEq E] [LawfulBEq E] (compute : E → M) (s : Cache.State E M), Cache.Inv compute s → ∀ (ops : List (Cache.Op E)) (i : ℕ), ops[i]? = some Cache.Op.getS → (Cache.run compute s ops).2[i]? = some (some (compute (Cache.epochAfter s.epoch (List.take i ops)))) := @PG.Cache.C17_getS_at

/-- S and every cache entry are the true matrices of their epochs -/
theorem invariant : ∀ {E M : Type} [inst : BEq E] [LawfulBEq E] (compute : E → M) (s : Cache.State E M) (op : Cache.Op E), Cache.Inv compute s → Cache.Inv compute (Cache.step compute s op).1 := @PG.Cache.inv_preserved

/-- same with caching disabled -/
theorem cache_off : ∀ {E M : Type} [inst : BEq E] [LawfulBEq E] (compute : E → M) (e0 : E) (ops : List (Cache.Op E)), (Cache.run compute (Cache.State.init e0 false) ops).2 = Cache.specRun compute e0 ops := @PG.Cache.C17_no_cache

/-- fresh object with caching -/
theorem cache_on : ∀ {E M : Type} [inst : BEq E] [LawfulBEq E] (compute : E → M) (e0 : E) (ops : List (Cache.Op E)), (Cache.run compute (Cache.State.init e0 true) ops).2 = Cache.specRun compute e0 ops := @PG.Cache.C17_cache

/-- without drops at most one computation per distinct epoch (+1 for states) -/
theorem recomputation_bound : ∀ {E M : Type} [inst : BEq E] [LawfulBEq E] [inst_2 : DecidableEq E] (compute : E → M) (e0 : E) (ops : List (Cache.Op E)), Cache.drops ops = 0 → (Cache.run compute (Cache.State.init e0 true) ops).1.computations ≤ Finset.card (List.toFinset (Cache.requested e0 ops)) + 1 := @PG.Cache.computations_bound_no_drop

/-- update_epoch then read: always the consumer's own epoch -/
theorem repaired_consumer : ∀ {E M : Type} [inst : BEq E] [LawfulBEq E] (compute : E → M) (s : Cache.State E M), Cache.Inv compute s → ∀ (own : E), (Cache.consumerGet true compute s own).2 = some (compute own) := @PG.Cache.repaired_consumer

/-- pre-fix get_mutation_config on a shared state space read the other parameter set's matrix -/
theorem stale_read_defect : type_of% @PG.Cache.stale_read_defect := @PG.Cache.stale_read_defect   -- (printed statement does not re-elaborate; see the source lemma)

/-- given the right matrices a query is a pure function of its arguments -/
theorem queries_are_pure : ∀ {K : Type} [inst : Field K] [inst_1 : LinearOrder K] [inst_2 : IsStrictOrderedRing K] {ι : Type} [inst_3 : Fintype ι] [inst_4 : DecidableEq ι] {k : ℕ} (L : ExpLaw K) (S : ℕ → Matrix ι ι K) (R : Fin k → ι → K) (α : ι → K) (eps : List EpochT) (ts : List ℚ), codeVectorised (fun fs ↦ accumVal L S R α (castF fs)) eps ts = List.map (fun t ↦ accumVal L S R α (castF (specFactors eps t))) ts := @PG.code_accumulate_pointwise

end PG.C17

#print axioms PG.C17.refinement
#print axioms PG.C17.read_at
#print axioms PG.C17.invariant
#print axioms PG.C17.cache_off
#print axioms PG.C17.cache_on
#print axioms PG.C17.recomputation_bound
#print axioms PG.C17.repaired_consumer
#print axioms PG.C17.stale_read_defect
#print axioms PG.C17.queries_are_pure
