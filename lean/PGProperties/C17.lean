/-
# C17 — Caching, query order and parallel execution never change a result

Any statistic has the same value whether it is the first thing asked of a fresh object or is asked
after an arbitrary sequence of other queries on the same object (which share and re-point mutable
state spaces and memoised rate matrices), whether rate-matrix caching is on or off, whether the
state space was reused from an earlier parameter set as the inference engine does, and whether SFS
bins are computed sequentially or in worker processes.

Quantifier: for all sequences of public queries (moments, cdf, quantile, accumulate, marginals, different end
times) on one Coalescent, all sequences of parameter sets routed through one shared state space, and
both execution modes

Proved on the state-machine model of StateSpace caching (epoch, S, per-epoch cache, drop_S,
drop_cache, first access of states): for EVERY history of operations every read of S returns the
matrix of the epoch in force, with caching on or off; the number of recomputations is bounded; the
repaired consumer (update_epoch before reading) is correct and the pre-fix stale read is refuted by
a kernel-checked 2-step history. Query procedures are sequences of these operations followed by pure
evaluation (code_accumulate_pointwise). Worker pools: for EVERY completion schedule the ordered
iterator hands the results back in data order, so the assembled SFS vectors and matrices equal the
sequential ones (ParallelThm); the operating system scheduler itself is the quantified parameter.

This file restates the theorems the property rests on (full statements; proofs are in PGProofs/).
Generated once by harness/mkprops.py from harness/props_table.py + PGProperties/extra/C17.lean.in; committed as source.
-/
import PGProofs.CacheThm
import PGProofs.Glue
import PGProofs.MomentsThm
import PGProofs.MemoThm
import PGProofs.ShareThm
import PGProofs.EpochKeyThm
import PGProofs.ParallelThm

set_option linter.all false
set_option pp.fieldNotation.generalized false

namespace PG.C17
open PG

/-- every answer of every history equals the cache-free specification -/
theorem refinement : ∀ {E M : Type} [inst : BEq E] [LawfulBEq E] (compute : E → M) (s : Cache.State E M), Cache.Inv compute s → ∀ (ops : List (Cache.Op E)), (Cache.run compute s ops).2 = Cache.specRun compute s.epoch ops := @PG.Cache.C17_refinement

/-- utils.parallelize: for every completion schedule of the worker pool, with or without progress bar, the result list is data.map f -/
theorem pool_schedule_irrelevant : ∀ {α β : Type} (f : α → β) (data : List α) (par pbar : Bool) (sched : List ℕ), List.Perm sched (List.range (List.length data)) → Parallel.parallelizeCall Parallel.Variant.current f data par pbar sched = List.map f data := @PG.Parallel.parallelize_schedule_irrelevant

/-- the SFS vector assembled from a parallel run has f(i) at every bin of the index list and 0 elsewhere, for every schedule -/
theorem pool_sfs_vector : ∀ {β : Type} (zero : β) (n : ℕ) (indices : List ℕ) (f : ℕ → β) (par pbar : Bool) (sched : List ℕ), List.Perm sched (List.range (List.length indices)) → ∀ j ≤ n, (Parallel.sfsVector Parallel.Variant.current zero n indices f par pbar sched)[j]? = some (if j ∈ indices then f j else zero) := @PG.Parallel.sfs_moment_parallel_eq_sequential

/-- the same for the matrix of SFSDistribution.cov -/
theorem pool_sfs_matrix : ∀ {β : Type} (zero : β) (n : ℕ) (indices : List (ℕ × ℕ)) (f : ℕ × ℕ → β) (par pbar : Bool) (sched : List ℕ), List.Perm sched (List.range (List.length indices)) → ∀ (i j : ℕ), i ≤ n → j ≤ n → Parallel.entry? (Parallel.sfsMatrix Parallel.Variant.current zero n indices f par pbar sched) i j = some (if (i, j) ∈ indices then f (i, j) else zero) := @PG.Parallel.sfs_cov_parallel_eq_sequential

/-- an unordered iterator gives the data order exactly for the identity schedule -/
theorem pool_unordered_iff : ∀ {α β : Type} (f : α → β) (data : List α) (sched : List ℕ), List.Perm sched (List.range (List.length data)) → Function.Injective f → List.Nodup data → (Parallel.imapUnordered f data sched = List.map f data ↔ sched = List.range (List.length data)) := @PG.Parallel.imapUnordered_eq_map_iff

/-- imap_unordered behind the progress bar (a seeded change): values land in the wrong frequency class -/
theorem pool_unordered_counterexample : Parallel.sfsVector Parallel.Variant.unorderedWithPbar 0 4 [1, 2, 3] (fun i ↦ 10 * i) true true [1, 2, 0] = [0, 20, 30, 10, 0] ∧ Parallel.sfsVector Parallel.Variant.current 0 4 [1, 2, 3] (fun i ↦ 10 * i) true true [1, 2, 0] = [0, 10, 20, 30, 0] ∧ Parallel.sfsVector Parallel.Variant.unorderedWithPbar 0 4 [1, 2, 3] (fun i ↦ 10 * i) true false [1, 2, 0] = [0, 10, 20, 30, 0] ∧ Parallel.sfsVector Parallel.Variant.unorderedWithPbar 0 4 [1, 2, 3] (fun i ↦ 10 * i) false true [1, 2, 0] = [0, 10, 20, 30, 0] := @PG.Parallel.unordered_counterexample

/-- the CONCRETE cache key (what Epoch.__hash__ hashes): equal keys give the same table of sizes and rates to the transitions -/
theorem epoch_key_sound : ∀ (I : Config.Input) {e₁ e₂ : Epoch}, EpochKey.key e₁ = EpochKey.key e₂ → EndToEnd.tableOfEpoch I e₁ = EndToEnd.tableOfEpoch I e₂ := @PG.EpochKey.key_sound_table

/-- the cache model instantiated with concrete epoch objects: after any history every S read is the matrix of the current epoch object itself -/
theorem epoch_key_cache : ∀ (I : Config.Input) (useCache : Bool) (e0 : Epoch) (ops : List (Cache.Op Epoch)), (Cache.run (fun k ↦ EndToEnd.tableOfEpoch I (EpochKey.ofKey k)) (Cache.State.init (EpochKey.key e0) useCache) (List.map EpochKey.liftOp ops)).2 = EpochKey.specAnswers (EndToEnd.tableOfEpoch I) e0 ops := @PG.EpochKey.cache_instantiated_table

/-- between two epochs of one demography update_epoch drops S exactly if some size or rate differs -/
theorem epoch_key_complete : ∀ (o : DemoOpts) (events : List Event) (count : ℕ) {e₁ e₂ : Epoch}, e₁ ∈ epochsUpTo o events count → e₂ ∈ epochsUpTo o events count → (EpochKey.updateDrops e₁ e₂ = true ↔ ∃ k, Epoch.value e₁ k ≠ Epoch.value e₂ k) := @PG.EpochKey.generated_updateDrops_iff

/-- all epochs of one generator run list their keys in the same order (so equal content gives equal keys) -/
theorem epoch_key_order : ∀ (o : DemoOpts) (events : List Event) (count : ℕ), ∀ e₁ ∈ epochsUpTo o events count, ∀ e₂ ∈ epochsUpTo o events count, List.map (fun x ↦ x.1) e₁.sizes = List.map (fun x ↦ x.1) e₂.sizes ∧ List.map (fun x ↦ x.1) e₁.mig = List.map (fun x ↦ x.1) e₂.mig := @PG.EpochKey.generated_same_key_order

/-- start and end time do not enter the key (documented) -/
theorem epoch_key_ignores_time : ∀ (e : Epoch) (s : ℚ) (t : Option ℚ), EpochKey.key { start := s, stop := t, sizes := e.sizes, mig := e.mig } = EpochKey.key e := @PG.EpochKey.key_ignores_time

/-- hashing over combinations of sorted names (seeded twice independently): a reverse-direction rate change is not seen and the second read is stale -/
theorem epoch_key_combinations : (Cache.run id (Cache.State.init (EpochKey.keyComb EpochKey.exA) true) (List.map EpochKey.liftOpComb [Cache.Op.getS, Cache.Op.updateEpoch EpochKey.exB, Cache.Op.getS])).1.computations = 2 ∧ (Cache.updateEpoch (Cache.getS id (Cache.State.init (EpochKey.keyComb EpochKey.exA) true)).1 (EpochKey.keyComb EpochKey.exB)).S = some (EpochKey.keyComb EpochKey.exA) ∧ (Cache.run id (Cache.State.init (EpochKey.key EpochKey.exA) true) (List.map EpochKey.liftOp [Cache.Op.getS, Cache.Op.updateEpoch EpochKey.exB, Cache.Op.getS])).2 = [some (EpochKey.key EpochKey.exA), none, some (EpochKey.key EpochKey.exB)] ∧ (Cache.run id (Cache.State.init (EpochKey.key EpochKey.exA) true) (List.map EpochKey.liftOp [Cache.Op.getS, Cache.Op.updateEpoch EpochKey.exB, Cache.Op.getS])).1.computations = 3 ∧ EpochKey.key EpochKey.exA ≠ EpochKey.key EpochKey.exB := @PG.EpochKey.combinations_stale_history

/-- the i-th read returns compute(epoch after the first i operations) -/
theorem read_at : ∀ {E M : Type} [inst : BEq E] [LawfulBEq E] (compute : E → M) (s : Cache.State E M), Cache.Inv compute s → ∀ (ops : List (Cache.Op E)) (i : ℕ), ops[i]? = some Cache.Op.getS → (Cache.run compute s ops).2[i]? = some (some (compute (Cache.epochAfter s.epoch (List.take i ops)))) := @PG.Cache.C17_getS_at

/-- S and every cache entry are the true matrices of their epochs -/
theorem invariant : ∀ {E M : Type} [inst : BEq E] [LawfulBEq E] (compute : E → M) (s : Cache.State E M) (op : Cache.Op E), Cache.Inv compute s → Cache.Inv compute (Cache.step compute s op).1 := @PG.Cache.inv_preserved

/-- same with caching disabled -/
theorem cache_off : ∀ {E M : Type} [inst : BEq E] [LawfulBEq E] (compute : E → M) (e0 : E) (ops : List (Cache.Op E)), (Cache.run compute (Cache.State.init e0 false) ops).2 = Cache.specRun compute e0 ops := @PG.Cache.C17_no_cache

/-- fresh object with caching -/
theorem cache_on : ∀ {E M : Type} [inst : BEq E] [LawfulBEq E] (compute : E → M) (e0 : E) (ops : List (Cache.Op E)), (Cache.run compute (Cache.State.init e0 true) ops).2 = Cache.specRun compute e0 ops := @PG.Cache.C17_cache

/-- without drops at most one computation per distinct epoch (+1 for states) -/
theorem recomputation_bound : ∀ {E M : Type} [inst : BEq E] [LawfulBEq E] [inst_2 : DecidableEq E] (compute : E → M) (e0 : E) (ops : List (Cache.Op E)), Cache.drops ops = 0 → (Cache.run compute (Cache.State.init e0 true) ops).1.computations ≤ Finset.card (List.toFinset (Cache.requested e0 ops)) + 1 := @PG.Cache.computations_bound_no_drop

/-- update_epoch then read: always the consumer's own epoch -/
theorem repaired_consumer : ∀ {E M : Type} [inst : BEq E] [LawfulBEq E] (compute : E → M) (s : Cache.State E M), Cache.Inv compute s → ∀ (own : E), (Cache.consumerGet true compute s own).2 = some (compute own) := @PG.Cache.repaired_consumer

/-- pre-fix get_mutation_config on a shared state space read the other parameter set's matrix -/
theorem stale_read_defect : type_of% @PG.Cache.stale_read_defect := @PG.Cache.stale_read_defect   -- (printed statement does not re-elaborate; see the source lemma)

/-- given the right matrices a query is a pure function of its arguments -/
theorem queries_are_pure : ∀ {K : Type} [inst : Field K] [inst_1 : LinearOrder K] [inst_2 : IsStrictOrderedRing K] {ι : Type} [inst_3 : Fintype ι] [inst_4 : DecidableEq ι] {k : ℕ} (L : ExpLaw K) (S : ℕ → Matrix ι ι K) (R : Fin k → ι → K) (α : ι → K) (eps : List EpochT) (ts : List ℚ), codeVectorised (fun fs ↦ accumVal L S R α (castF fs)) eps ts = List.map (fun t ↦ accumVal L S R α (castF (specFactors eps t))) ts := @PG.code_accumulate_pointwise

/-- DISTRIBUTION-LEVEL MEMO: with functools.cache on moment / _accumulate / _get_P and the cached_property slots mean, var, cov, corr, the answers to EVERY history of queries are those of the memo-free evaluator -/
theorem memo_refinement : ∀ {V : Type} (F : Memo.Fresh V) (qs : List Memo.Query), (Memo.runAll Memo.Variant.current F Memo.init qs).answers = List.map (Memo.spec F) qs := @PG.Memo.memo_refinement

/-- the answer to a query does not depend on the history before it -/
theorem memo_order_irrelevant : ∀ {V : Type} (F : Memo.Fresh V) (hist hist' : List Memo.Query) (q : Memo.Query), Memo.answerAfter Memo.Variant.current F hist q = Memo.answerAfter Memo.Variant.current F hist' q := @PG.Memo.memo_order_irrelevant

/-- same answer as a fresh object -/
theorem memo_fresh_equiv : ∀ {V : Type} (F : Memo.Fresh V) (hist : List Memo.Query) (q : Memo.Query), Memo.answerAfter Memo.Variant.current F hist q = Memo.answerAfter Memo.Variant.current F [] q := @PG.Memo.memo_fresh_equiv

/-- the Coalescent.moment route (a new lower object per call) likewise -/
theorem memo_forgetting : ∀ {V : Type} (F : Memo.Fresh V) (qs : List Memo.Query) (st : Memo.State V), Memo.Inv F st → (Memo.runAllForgetting Memo.Variant.current F st qs).answers = List.map (Memo.spec F) qs := @PG.Memo.memo_refinement_forgetting

/-- the key comparison functools.cache performs (same class and equal hash, hash read as the structural key) identifies exactly equal rewards -/
theorem memo_keys : ∀ (r r' : Reward), Memo.keyEq Memo.KeyScheme.current r r' = true ↔ r = r' := @PG.Memo.memo_keyEq_iff

/-- kernel-checked: corr computed in place on the cached cov array makes a later cov read return correlations -/
theorem memo_corr_in_place_defect : (Memo.runAll Memo.Variant.corrInPlace Memo.toy Memo.init [Memo.Query.cov, Memo.Query.corr, Memo.Query.cov]).answers = [1924, 13468, 13468] ∧ List.map (Memo.spec Memo.toy) [Memo.Query.cov, Memo.Query.corr, Memo.Query.cov] = [1924, 13468, 1924] ∧ (Memo.runAll Memo.Variant.current Memo.toy Memo.init [Memo.Query.cov, Memo.Query.corr, Memo.Query.cov]).answers = [1924, 13468, 1924] := @PG.Memo.corr_inPlace_poisons_cov

/-- kernel-checked: a _get_P memo keyed without theta -/
theorem memo_getP_theta_defect : (Memo.runAll Memo.Variant.getPNoTheta Memo.toy Memo.init [Memo.Query.getP 1, Memo.Query.getP 2]).answers = [6, 6] ∧ List.map (Memo.spec Memo.toy) [Memo.Query.getP 1, Memo.Query.getP 2] = [6, 7] ∧ (Memo.runAll Memo.Variant.current Memo.toy Memo.init [Memo.Query.getP 1, Memo.Query.getP 2]).answers = [6, 7] := @PG.Memo.getP_forgets_theta

/-- kernel-checked: in-place += on an array returned from a memoised call -/
theorem memo_in_place_sum_defect : (Memo.runAll Memo.Variant.inPlaceSum Memo.toy Memo.init [Memo.Query.accumulate { k := 2, endTimes := [1], rewards := [Memo.A, Memo.B], permute := true }, Memo.Query.accumulate { k := 2, endTimes := [1], rewards := [Memo.A, Memo.B], permute := false }]).answers = [5872, 11744] ∧ List.map (Memo.spec Memo.toy) [Memo.Query.accumulate { k := 2, endTimes := [1], rewards := [Memo.A, Memo.B], permute := true }, Memo.Query.accumulate { k := 2, endTimes := [1], rewards := [Memo.A, Memo.B], permute := false }] = [5872, 5952] ∧ (Memo.runAll Memo.Variant.current Memo.toy Memo.init [Memo.Query.accumulate { k := 2, endTimes := [1], rewards := [Memo.A, Memo.B], permute := true }, Memo.Query.accumulate { k := 2, endTimes := [1], rewards := [Memo.A, Memo.B], permute := false }]).answers = [5872, 5952] := @PG.Memo.inPlaceSum_poisons_memo

/-- STATE-SPACE SHARING in Inference.get_coal: every interleaving of get_coal / update_epoch / S reads through any handed-out Coalescent answers like unshared, own-configuration state spaces -/
theorem share_refinement : ∀ {E M : Type} [inst : BEq E] [LawfulBEq E] (compute : Share.SSKey → E → M), Share.Compat compute → ∀ (useShare : Bool) (key0 : Share.SSKey) (e0 : E) (ops : List (Share.Op E)), (Share.run compute (Share.Inf.init Share.EqVariant.current useShare key0 e0) ops).2 = Share.specRun compute (Share.Spec.init Share.EqVariant.current useShare key0 e0) ops := @PG.Share.share_refinement

/-- a read after update_epoch through a handle returns the rate matrix of THAT configuration in THAT epoch -/
theorem share_read_own : ∀ {E M : Type} [inst : BEq E] [LawfulBEq E] (compute : Share.SSKey → E → M), Share.Compat compute → ∀ (useShare : Bool) (key0 : Share.SSKey) (e0 : E) (ops : List (Share.Op E)) (j i : ℕ) (e : E) (k : Share.SSKey), ops[j]? = some (Share.Op.query i (Cache.Op.updateEpoch e)) → ops[j + 1]? = some (Share.Op.query i Cache.Op.getS) → (Share.handedOut (List.take j ops))[i]? = some k → (Share.run compute (Share.Inf.init Share.EqVariant.current useShare key0 e0) ops).2[j + 1]? = some (some (compute k e)) := @PG.Share.share_read_own

/-- cache=True and cache=False give the same answers (consumer protocol: update the epoch before reading) -/
theorem share_cache_flag : ∀ {E M : Type} [inst : BEq E] [LawfulBEq E] (compute : Share.SSKey → E → M), Share.Compat compute → ∀ (key0 : Share.SSKey) (e0 : E) (ops : List (Share.Op E)), Share.disciplined none ops = true → (Share.run compute (Share.Inf.init Share.EqVariant.current true key0 e0) ops).2 = (Share.run compute (Share.Inf.init Share.EqVariant.current false key0 e0) ops).2 := @PG.Share.share_cache_flag_irrelevant

/-- documented: StateSpace.__eq__ (dict equality of lineage configs) ignores the ORDER of the demes; harmless because every consumer reads the axis from the shared state space (Compat discharged by compat_of_order_invariant) -/
theorem share_eq_deme_order : type_of% @PG.Share.eqKey_current_ignores_deme_order := @PG.Share.eqKey_current_ignores_deme_order   -- (printed statement does not re-elaborate; see the source lemma)

/-- kernel-checked: a key that forgets the locus configuration hands a coalescent the matrix of another recombination rate -/
theorem share_forgets_locus_defect : Share.eqKey Share.EqVariant.current Share.exK1 Share.exK0 = false ∧ Share.eqKey Share.EqVariant.forgetsLocus Share.exK1 Share.exK0 = true ∧ (Share.run Share.exCompute (Share.Inf.init Share.EqVariant.forgetsLocus true Share.exK0 0) Share.exOps).2 = [none, none, none, some (1, 0), none, some (1, 0)] ∧ (Share.run Share.exCompute (Share.Inf.init Share.EqVariant.current true Share.exK0 0) Share.exOps).2 = [none, none, none, some (1, 0), none, some (2, 0)] ∧ (Share.run Share.exCompute (Share.Inf.init Share.EqVariant.forgetsLocus false Share.exK0 0) Share.exOps).2 = [none, none, none, some (1, 0), none, some (2, 0)] ∧ Share.disciplined none Share.exOps = true := @PG.Share.forgetsLocus_stale

end PG.C17

#print axioms PG.C17.refinement
#print axioms PG.C17.pool_schedule_irrelevant
#print axioms PG.C17.pool_sfs_vector
#print axioms PG.C17.pool_sfs_matrix
#print axioms PG.C17.pool_unordered_iff
#print axioms PG.C17.pool_unordered_counterexample
#print axioms PG.C17.epoch_key_sound
#print axioms PG.C17.epoch_key_cache
#print axioms PG.C17.epoch_key_complete
#print axioms PG.C17.epoch_key_order
#print axioms PG.C17.epoch_key_ignores_time
#print axioms PG.C17.epoch_key_combinations
#print axioms PG.C17.read_at
#print axioms PG.C17.invariant
#print axioms PG.C17.cache_off
#print axioms PG.C17.cache_on
#print axioms PG.C17.recomputation_bound
#print axioms PG.C17.repaired_consumer
#print axioms PG.C17.stale_read_defect
#print axioms PG.C17.queries_are_pure
#print axioms PG.C17.memo_refinement
#print axioms PG.C17.memo_order_irrelevant
#print axioms PG.C17.memo_fresh_equiv
#print axioms PG.C17.memo_forgetting
#print axioms PG.C17.memo_keys
#print axioms PG.C17.memo_corr_in_place_defect
#print axioms PG.C17.memo_getP_theta_defect
#print axioms PG.C17.memo_in_place_sum_defect
#print axioms PG.C17.share_refinement
#print axioms PG.C17.share_read_own
#print axioms PG.C17.share_cache_flag
#print axioms PG.C17.share_eq_deme_order
#print axioms PG.C17.share_forgets_locus_defect
