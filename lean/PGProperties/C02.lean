/-
# C02 — Site-frequency-spectrum moments equal those of the true coalescent

For every supported single-locus configuration, the expected unfolded and folded site-frequency
spectrum, its per-bin variances, and the full covariance and correlation matrices between bins equal
the corresponding moments of the branch lengths subtending i samples in the labelled structured
coalescent (error at most 1e-6 of the raw-moment scale, 1e-7 for means); bins 0 and n are zero and
each bin i sits at index i.

Quantifier: for all sample configurations, deme counts, coalescent models, piecewise-constant demographies, bins
1 <= i, j <= n-1 (folded: 1 <= i <= n//2), and end times

Proved for all inputs: block-counting generator = projection of the labelled coalescent on typed
blocks (all three models incl. multiple mergers), matrix rows represent it, equal moments for SFS
rewards; padding puts bin i at index i with zeros at 0 and n; cov is the symmetrised second moment
minus the outer product of means. Partial: PT1/PT3, floating point.

This file restates the theorems the property rests on (full statements; proofs are in PGProofs/).
Generated once by harness/mkprops.py from harness/props_table.py + PGProperties/extra/C02.lean.in; committed as source.
-/
import PGProofs.Corollaries
import PGProofs.Assembly
import PGProofs.Glue
import PGProofs.BridgeBC
import PGProofs.MomentsThm
import PGProofs.RewardsThm
import PGProofs.EndToEnd2
import PGProofs.EndToEnd3

set_option linter.all false
set_option pp.fieldNotation.generalized false

namespace PG.C02
open PG

/-- sfs.cov (symmetrised ordered second moments minus outer product of means) equals get_cov (centred, permutation-averaged moment) entry by entry -/
theorem cov_routes_agree : ∀ {ρ : Type} [inst : Inhabited ρ] (n : ℕ) (idx : List ℕ) (r : ℕ → ρ) (raw : List ρ → ℚ) (mean : List ℚ), (∀ i ∈ idx, getR mean i = raw [r i]) → ∀ (i j : ℕ), i ≤ n → j ≤ n → i ∈ idx → j ∈ idx → covEntry n idx (fun i j ↦ raw [r i, r j]) mean i j = accumulateModel raw true true [r i, r j] := @PG.Corollaries.cov_routes_agree

/-- and its diagonal is the variance -/
theorem cov_diag_is_var : ∀ {ρ : Type} [inst : Inhabited ρ] (n : ℕ) (idx : List ℕ) (r : ℕ → ρ) (raw : List ρ → ℚ) (mean : List ℚ), (∀ i ∈ idx, getR mean i = raw [r i]) → ∀ i ≤ n, i ∈ idx → covEntry n idx (fun i j ↦ raw [r i, r j]) mean i i = raw [r i, r i] - raw [r i] ^ 2 ∧ accumulateModel raw true true [r i, r i] = raw [r i, r i] - raw [r i] ^ 2 := @PG.Corollaries.cov_routes_agree_diag

/-- HEADLINE: every moment on the block-counting chain (SFS rewards included) equals the moment of the labelled coalescent on typed blocks -/
theorem sfs_eq_labelled : type_of% @PG.Assembly.C02_sfs_eq_labelled := @PG.Assembly.C02_sfs_eq_labelled   -- (printed statement does not re-elaborate; see the source lemma)

/-- with the initial vector the code uses -/
theorem sfs_eq_labelled_alpha : type_of% @PG.Assembly.C02_sfs_eq_labelled_alpha := @PG.Assembly.C02_sfs_eq_labelled_alpha   -- (printed statement does not re-elaborate; see the source lemma)

/-- block-counting generator of the code = labelled generator on typed blocks projected onto counts -/
theorem lumping_block : ∀ {D n : ℕ} [inst : NeZero n] (m : Model) (ts : Fin D → ℚ) (mig : Fin D → Fin D → ℚ) (r : ℚ) (g : State → ℚ) (x : List (Fin D × Fin n)), 2 ≤ n → massBC (cntF x) = n → 2 ≤ List.length x → QLs (blkRate (lam m) ts mig) blkRes (fun c' ↦ g (encBC c')) x = genOf (transit m (mkEpoch ts mig r) (encBC (cntF x))) g (encBC (cntF x)) := @PG.C04_lumping_block

/-- rows of the block-counting rate matrix represent that generator; every visited state has mass n -/
theorem matrix_row_block : type_of% @PG.block_matrix_row := @PG.block_matrix_row   -- (printed statement does not re-elaborate; see the source lemma)

/-- equal Van Loan moments under lumping -/
theorem moments_of_lumped_chain : ∀ {K : Type} [inst : Field K] [inst_1 : LinearOrder K] [inst_2 : IsStrictOrderedRing K] {ι : Type} [inst_3 : Fintype ι] [inst_4 : DecidableEq ι] {κ : Type} [inst_5 : Fintype κ] [inst_6 : DecidableEq κ] {k : ℕ} (L : ExpLaw K) (SL : ℕ → Matrix κ κ K) (S : ℕ → Matrix ι ι K) (RL : Fin k → κ → K) (R : Fin k → ι → K) (αL : κ → K) (α : ι → K) (P : Matrix κ ι K), (∀ (e : ℕ), SL e * P = P * S e) → (∀ (a : Fin k), Matrix.diagonal (RL a) * P = P * Matrix.diagonal (R a)) → (∀ (x : κ), ∑ c, P x c = 1) → α = Matrix.vecMul αL P → ∀ (fs : List (ℕ × K)), accumVal L SL RL αL fs = accumVal L S R α fs := @PG.lump_accum

/-- the assembled spectrum has n+1 entries -/
theorem sfs_length : ∀ (n : ℕ) (ms : List ℚ), List.length ms ≤ n → List.length (padSFS n ms) = n + 1 := @PG.length_padSFS

/-- entry 0 is 0 -/
theorem sfs_bin_zero : ∀ (n : ℕ) (ms : List ℚ), getR (padSFS n ms) 0 = 0 := @PG.padSFS_zero

/-- entry i is the i-th bin -/
theorem sfs_bin_i : ∀ (n : ℕ) (ms : List ℚ) (i : ℕ), 1 ≤ i → i ≤ List.length ms → getR (padSFS n ms) i = getR ms (i - 1) := @PG.padSFS_inner

/-- entry n is 0 (unfolded) -/
theorem sfs_bin_n : ∀ (n : ℕ) (ms : List ℚ), List.length ms = n - 1 → 1 ≤ n → getR (padSFS n ms) n = 0 := @PG.padSFS_last

/-- entries above n/2 are 0 (folded) -/
theorem sfs_folded_padding : ∀ (n : ℕ) (ms : List ℚ), List.length ms = n / 2 → ∀ (i : ℕ), n / 2 < i → getR (padSFS n ms) i = 0 := @PG.padSFS_folded

/-- cov is symmetric -/
theorem cov_symm : ∀ (n : ℕ) (idx : List ℕ) (x : ℕ → ℕ → ℚ) (mean : List ℚ) (i j : ℕ), i ≤ n → j ≤ n → covEntry n idx x mean i j = covEntry n idx x mean j i := @PG.covSFS_symm

/-- its diagonal is the second moment minus the squared mean -/
theorem cov_diag : ∀ (n : ℕ) (idx : List ℕ) (x : ℕ → ℕ → ℚ) (mean : List ℚ), ∀ i ≤ n, i ∈ idx → covEntry n idx x mean i i = x i i - getR mean i ^ 2 := @PG.covSFS_diag

/-- rows/columns of the padded bins are zero -/
theorem cov_padding : ∀ (n : ℕ) (idx : List ℕ) (x : ℕ → ℕ → ℚ) (mean : List ℚ) (i j : ℕ), i ≤ n → j ≤ n → i ∉ idx ∨ j ∉ idx → (∀ a ∉ idx, getR mean a = 0) → covEntry n idx x mean i j = 0 := @PG.covSFS_outside_zero

/-- folded reward = unfolded i plus unfolded n-i, once if equal -/
theorem folded_reward : ∀ (n : ℕ) (s : State) (i : ℕ), Reward.eval n s (Reward.foldedSFS i) = Reward.eval n s (Reward.unfoldedSFS i) + if i = n - i then 0 else Reward.eval n s (Reward.unfoldedSFS (n - i)) := @PG.folded_eq_fold

/-- CAPSTONE (SFS route): the padded vector SFSDistribution.moment(k, rewards, start, end, center, permute) returns, bin by bin through CombinedReward([r, SFS_i]) on the block-counting graph, equals the padded vector of labelled typed-block combinations; all orders k -/
theorem end_to_end_sfs : ∀ {D n : ℕ} [inst : NeZero n] {K : Type} [inst_1 : Field K] [inst_2 : LinearOrder K] [inst_3 : IsStrictOrderedRing K] {m : Model} {cinit : Fin D × Fin n → ℕ} {ts : ℕ → Fin D → ℚ} {mig : ℕ → Fin D → Fin D → ℚ} {r : ℕ → ℚ} {fuel : ℕ → ℕ} {G : ℕ → Graph}, 2 ≤ n → massBC cinit ≤ n → (∀ (e : ℕ), bfs (transit m (mkEpoch (ts e) (mig e) (r e))) (encBC cinit) (fuel e) = some (G e)) → ∀ (L : ExpLaw K) (n' : ℕ) (nv : Fin D → ℕ), ∑ d, nv d = massBC cinit → ∀ (x0 : Assembly.LabS encBC (G 0).visited n), cntF (Assembly.LabP.val x0) = Assembly.sampleBC nv → ∀ (eps : List EpochT) (dr : Reward) (sd tm : ℚ) (N : ℕ) (indices : List ℕ) (sfsReward : ℕ → Reward) (c : Api.MomentCall Reward), 1 ≤ c.k → (∀ (rs : List Reward), c.rewards = some rs → ↑(List.length rs) = c.k) → 0 ≤ Api.resolveTime Api.Variant.current c.endTime tm → EndToEnd.sfsMomentCallK Api.Variant.current (EndToEnd.codeCtx L G n' nv eps dr sd tm) N indices sfsReward c = Except.ok (EndToEnd.padSFSK N (List.map (fun i ↦ if 0 < Api.resolveTime Api.Variant.current c.startTime sd then EndToEnd.labAccBC L m ts mig G n' x0 eps sfsReward (EndToEnd.resolveRewardsK dr c.k c.rewards) c.center c.permute i (Api.resolveTime Api.Variant.current c.endTime tm) - EndToEnd.labAccBC L m ts mig G n' x0 eps sfsReward (EndToEnd.resolveRewardsK dr c.k c.rewards) c.center c.permute i (Api.resolveTime Api.Variant.current c.startTime sd) else EndToEnd.labAccBC L m ts mig G n' x0 eps sfsReward (EndToEnd.resolveRewardsK dr c.k c.rewards) c.center c.permute i (Api.resolveTime Api.Variant.current c.endTime tm)) indices)) := @PG.EndToEnd.sfs_moment_call_eq_labelled

/-- specialised to the unfolded spectrum -/
theorem end_to_end_sfs_unfolded : ∀ {D n : ℕ} [inst : NeZero n] {K : Type} [inst_1 : Field K] [inst_2 : LinearOrder K] [inst_3 : IsStrictOrderedRing K] {m : Model} {cinit : Fin D × Fin n → ℕ} {ts : ℕ → Fin D → ℚ} {mig : ℕ → Fin D → Fin D → ℚ} {r : ℕ → ℚ} {fuel : ℕ → ℕ} {G : ℕ → Graph}, 2 ≤ n → massBC cinit ≤ n → (∀ (e : ℕ), bfs (transit m (mkEpoch (ts e) (mig e) (r e))) (encBC cinit) (fuel e) = some (G e)) → ∀ (L : ExpLaw K) (nv : Fin D → ℕ), ∑ d, nv d = massBC cinit → ∀ (x0 : Assembly.LabS encBC (G 0).visited n), cntF (Assembly.LabP.val x0) = Assembly.sampleBC nv → ∀ (eps : List EpochT) (dr : Reward) (sd tm : ℚ) (c : Api.MomentCall Reward), 1 ≤ c.k → (∀ (rs : List Reward), c.rewards = some rs → ↑(List.length rs) = c.k) → 0 ≤ Api.resolveTime Api.Variant.current c.endTime tm → EndToEnd.sfsMomentCallK Api.Variant.current (EndToEnd.codeCtx L G n nv eps dr sd tm) n (EndToEnd.unfoldedIndices n) Reward.unfoldedSFS c = Except.ok (EndToEnd.padSFSK n (List.map (fun i ↦ if 0 < Api.resolveTime Api.Variant.current c.startTime sd then EndToEnd.labAccBC L m ts mig G n x0 eps Reward.unfoldedSFS (EndToEnd.resolveRewardsK dr c.k c.rewards) c.center c.permute i (Api.resolveTime Api.Variant.current c.endTime tm) - EndToEnd.labAccBC L m ts mig G n x0 eps Reward.unfoldedSFS (EndToEnd.resolveRewardsK dr c.k c.rewards) c.center c.permute i (Api.resolveTime Api.Variant.current c.startTime sd) else EndToEnd.labAccBC L m ts mig G n x0 eps Reward.unfoldedSFS (EndToEnd.resolveRewardsK dr c.k c.rewards) c.center c.permute i (Api.resolveTime Api.Variant.current c.endTime tm)) (EndToEnd.unfoldedIndices n))) := @PG.EndToEnd.unfolded_sfs_moment_call_eq_labelled

/-- CAPSTONE: the (n+1) x |times| matrix SFSDistribution.accumulate returns (zero row, one row per bin, zero padding; any list of non-negative times) equals entrywise the labelled typed-block combinations -/
theorem end_to_end_sfs_accumulate : ∀ {D n : ℕ} [inst : NeZero n] {K : Type} [inst_1 : Field K] [inst_2 : LinearOrder K] [inst_3 : IsStrictOrderedRing K] {m : Model} {cinit : Fin D × Fin n → ℕ} {ts : ℕ → Fin D → ℚ} {mig : ℕ → Fin D → Fin D → ℚ} {r : ℕ → ℚ} {fuel : ℕ → ℕ} {G : ℕ → Graph}, 2 ≤ n → massBC cinit ≤ n → (∀ (e : ℕ), bfs (transit m (mkEpoch (ts e) (mig e) (r e))) (encBC cinit) (fuel e) = some (G e)) → ∀ (L : ExpLaw K) (n' : ℕ) (nv : Fin D → ℕ), ∑ d, nv d = massBC cinit → ∀ (x0 : Assembly.LabS encBC (G 0).visited n), cntF (Assembly.LabP.val x0) = Assembly.sampleBC nv → ∀ (eps : List EpochT) (dr : Reward) (sd tm : ℚ) (N : ℕ) (indices : List ℕ), List.length indices ≤ N → ∀ (sfsReward : ℕ → Reward) (k : ℤ) (rewards : Option (List Reward)) (times : List ℚ) (center permute : Bool), 1 ≤ k → (∀ (rs : List Reward), rewards = some rs → ↑(List.length rs) = k) → (∀ t ∈ times, 0 ≤ t) → EndToEnd.sfsAccumulateCallK Api.Variant.current (EndToEnd.codeCtx L G n' nv eps dr sd tm) N indices sfsReward k rewards times center permute = Except.ok (EndToEnd.padRowsK N (List.length times) (List.map (fun i ↦ List.map (fun t ↦ EndToEnd.labAccBC L m ts mig G n' x0 eps sfsReward (EndToEnd.resolveRewardsK dr k rewards) center permute i t) times) indices)) := @PG.EndToEnd.sfs_accumulate_call_vector_eq_labelled

/-- CAPSTONE: SFSDistribution.cov ((X + X^T)/2 - mu mu^T from ordered uncentred cross moments) equals the same expression of labelled moments; symmetric (covSFSK_symm) -/
theorem end_to_end_sfs_cov : ∀ {D n : ℕ} [inst : NeZero n] {K : Type} [inst_1 : Field K] [inst_2 : LinearOrder K] [inst_3 : IsStrictOrderedRing K] {m : Model} {cinit : Fin D × Fin n → ℕ} {ts : ℕ → Fin D → ℚ} {mig : ℕ → Fin D → Fin D → ℚ} {r : ℕ → ℚ} {fuel : ℕ → ℕ} {G : ℕ → Graph}, 2 ≤ n → massBC cinit ≤ n → (∀ (e : ℕ), bfs (transit m (mkEpoch (ts e) (mig e) (r e))) (encBC cinit) (fuel e) = some (G e)) → ∀ (L : ExpLaw K) (n' : ℕ) (nv : Fin D → ℕ), ∑ d, nv d = massBC cinit → ∀ (x0 : Assembly.LabS encBC (G 0).visited n), cntF (Assembly.LabP.val x0) = Assembly.sampleBC nv → ∀ (eps : List EpochT) (dr : Reward) (sd tm : ℚ) (N : ℕ) (indices : List ℕ) (sfsReward : ℕ → Reward), 0 ≤ tm → EndToEnd.sfsCovCallK Api.Variant.current (EndToEnd.codeCtx L G n' nv eps dr sd tm) N indices sfsReward = Except.ok (EndToEnd.covSFSK N indices (EndToEnd.labX L m ts mig G n' x0 eps sfsReward dr sd tm) (EndToEnd.padSFSK N (List.map (EndToEnd.labMu L m ts mig G n' x0 eps sfsReward dr sd tm) indices))) := @PG.EndToEnd.sfs_cov_eq_labelled

end PG.C02

#print axioms PG.C02.cov_routes_agree
#print axioms PG.C02.cov_diag_is_var
#print axioms PG.C02.sfs_eq_labelled
#print axioms PG.C02.sfs_eq_labelled_alpha
#print axioms PG.C02.lumping_block
#print axioms PG.C02.matrix_row_block
#print axioms PG.C02.moments_of_lumped_chain
#print axioms PG.C02.sfs_length
#print axioms PG.C02.sfs_bin_zero
#print axioms PG.C02.sfs_bin_i
#print axioms PG.C02.sfs_bin_n
#print axioms PG.C02.sfs_folded_padding
#print axioms PG.C02.cov_symm
#print axioms PG.C02.cov_diag
#print axioms PG.C02.cov_padding
#print axioms PG.C02.folded_reward
#print axioms PG.C02.end_to_end_sfs
#print axioms PG.C02.end_to_end_sfs_unfolded
#print axioms PG.C02.end_to_end_sfs_accumulate
#print axioms PG.C02.end_to_end_sfs_cov
