/-
# C15 — Moment algebra and documented API routes agree with each other

Central moments equal the binomial combination of raw moments (var = m2 - mean^2, and likewise for
cross- and third-order moments), cross-moments are symmetric in their rewards, covariance matrices
are symmetric positive semi-definite with unit-diagonal correlations wherever the variance is
positive, and sums/products of rewards act linearly. The same statistic obtained through different
documented routes (cached properties, moment() on a distribution, moment() on the Coalescent with
explicit or default rewards, end time on the object or on the call) is the same number.

Quantifier: for all configurations, all reward tuples built from the public reward classes (including
Sum/Product), orders k <= 4, and all equivalent call routes

Proved: centring = binomial / inclusion-exclusion combination of raw moments = central moment of any
linear expectation (all k), explicit k = 2, 3; permutation averaging makes cross moments symmetric
(all permutations); additivity in each reward slot; unit reward neutral in products; covariance
assembly symmetric. Routes: cached properties, dist.moment and Coalescent.moment all unfold to
accumulateModel of the same raw function (model level). Partial: PSD (needs PT1).

This file restates the theorems the property rests on (full statements; proofs are in PGProofs/).
Generated once by harness/mkprops.py from harness/props_table.py + PGProperties/extra/C15.lean.in; committed as source.
-/
import PGProofs.Corollaries
import PGProofs.RoutesThm
import PGProofs.Conservation
import PGProofs.MomentsThm
import PGProofs.RewardsThm
import PGProofs.SampleConsistency
import PGProofs.ApiThm
import PGProofs.MemoThm
import PGProofs.EndToEnd

set_option linter.all false
set_option pp.fieldNotation.generalized false

namespace PG.C15
open PG

/-- the matrix route and the element route to a covariance agree -/
theorem cov_routes_agree : ∀ {ρ : Type} [inst : Inhabited ρ] (n : ℕ) (idx : List ℕ) (r : ℕ → ρ) (raw : List ρ → ℚ) (mean : List ℚ), (∀ i ∈ idx, getR mean i = raw [r i]) → ∀ (i j : ℕ), i ≤ n → j ≤ n → i ∈ idx → j ∈ idx → covEntry n idx (fun i j ↦ raw [r i, r j]) mean i j = accumulateModel raw true true [r i, r j] := @PG.Corollaries.cov_routes_agree

/-- moments are linear in every reward slot (SumReward / scalar ProductReward act linearly), all k -/
theorem multilinear : ∀ {K : Type} [inst : Field K] [inst_1 : LinearOrder K] [inst_2 : IsStrictOrderedRing K] {ι : Type} [inst_3 : Fintype ι] [inst_4 : DecidableEq ι] {k : ℕ} (L : ExpLaw K) (S : ℕ → Matrix ι ι K) (R : Fin k → ι → K) (a : Fin k) (r' : ι → K) (c1 c2 : K) (α : ι → K) (fs : List (ℕ × K)), accumVal L S (Function.update R a fun i ↦ c1 * R a i + c2 * r' i) α fs = c1 * accumVal L S R α fs + c2 * accumVal L S (Function.update R a r') α fs := @PG.Conservation.accumVal_slot_linear

/-- two different reward tuples never share a memoisation key (key = class name + parameters, as in Reward.__hash__) -/
theorem memo_keys_injective : Function.Injective (List.map Reward.key) := @PG.Reward.keys_injective

/-- if _get_dist picks the lineage-counting space every reward of the tuple only depends on lineage counts -/
theorem state_space_choice : ∀ (n : ℕ) (s₁ s₂ : State) (rs : List RouteReward), chooseSpace rs = SpaceKind.lineageCounting → ∀ r ∈ rs, State.lineageCounts s₁ = State.lineageCounts s₂ → RouteReward.eval n s₁ r = RouteReward.eval n s₂ r := @PG.chooseSpace_lineageCounting

/-- rewards supporting lineage counting give the same value on block states with the same lineage counts -/
theorem lc_rewards_ignore_blocks : ∀ (n : ℕ) (s₁ s₂ : State) (r : Reward), Reward.supportsLC r = true → State.lineageCounts s₁ = State.lineageCounts s₂ → Reward.eval n s₁ r = Reward.eval n s₂ r := @PG.eval_of_supportsLC

/-- accumulate(center=True) = sum over subsets -/
theorem centering : ∀ {ρ : Type u_1} [inst : Inhabited ρ] (raw : List ρ → ℚ) (permute : Bool) (rs : List ρ), 2 ≤ List.length rs → accumulateModel raw true permute rs = ∑ A ∈ Finset.powerset (Finset.range (List.length rs)), (-1) ^ (List.length rs - Finset.card A) * uncentred raw permute (subTuple rs A) * ∏ j ∈ Finset.range (List.length rs) \ A, uncentred raw true [List.getD rs j default] := @PG.accumulate_center_eq

/-- = E prod (X_j - mu_j) -/
theorem central_moment : ∀ {ρ : Type u_1} {𝔸 : Type u_2} [inst : Inhabited ρ] [inst_1 : CommRing 𝔸] [inst_2 : Algebra ℚ 𝔸] (raw : List ρ → ℚ) (permute : Bool) (rs : List ρ), 2 ≤ List.length rs → ∀ (Ex : 𝔸 →ₗ[ℚ] ℚ) (X : ℕ → 𝔸), (∀ A ⊆ Finset.range (List.length rs), uncentred raw permute (subTuple rs A) = Ex (∏ j ∈ A, X j)) → accumulateModel raw true permute rs = Ex (∏ j ∈ Finset.range (List.length rs), (X j - (algebraMap ℚ 𝔸) (Ex (X j)))) := @PG.accumulate_center_eq_central_moment

/-- var = m2 - mean^2 -/
theorem variance : ∀ {ρ : Type u_1} [inst : Inhabited ρ] (raw : List ρ → ℚ) (permute : Bool) (r : ρ), accumulateModel raw true permute [r, r] = uncentred raw permute [r, r] - raw [r] ^ 2 := @PG.accumulate_variance

/-- cov = E[XY] - E[X]E[Y] -/
theorem covariance : ∀ {ρ : Type u_1} [inst : Inhabited ρ] (raw : List ρ → ℚ) (permute : Bool) (a b : ρ), accumulateModel raw true permute [a, b] = uncentred raw permute [a, b] - raw [a] * raw [b] := @PG.accumulate_center_two

/-- third central moment -/
theorem third_central : ∀ {ρ : Type u_1} [inst : Inhabited ρ] (raw : List ρ → ℚ) (permute : Bool) (r : ρ), accumulateModel raw true permute [r, r, r] = uncentred raw permute [r, r, r] - 3 * uncentred raw permute [r, r] * raw [r] + 2 * raw [r] ^ 3 := @PG.accumulate_third_central

/-- cross moments are invariant under any permutation of the rewards -/
theorem symmetric : ∀ {ρ : Type u_1} [inst : Inhabited ρ] (raw : List ρ → ℚ) (center : Bool) {rs rs' : List ρ}, List.Perm rs rs' → accumulateModel raw center true rs = accumulateModel raw center true rs' := @PG.accumulate_perm

/-- additive in each reward slot -/
theorem slot_additive : ∀ {ρ : Type u_1} {add : ρ → ρ → ρ} {raw : List ρ → ℚ}, SlotAdditive add raw → ∀ (permute : Bool) (l₁ l₂ : List ρ) (a b : ρ), uncentred raw permute (l₁ ++ add a b :: l₂) = uncentred raw permute (l₁ ++ a :: l₂) + uncentred raw permute (l₁ ++ b :: l₂) := @PG.uncentred_add

/-- ProductReward([Unit, r]) = r -/
theorem unit_neutral : ∀ (n : ℕ) (s : State) (r : Reward), Reward.eval n s (Reward.prod [Reward.unit, r]) = Reward.eval n s r := @PG.eval_prod_unit

/-- the algebra acts independently at every query time -/
theorem pointwise_in_time : ∀ {ρ : Type u_1} [inst : Inhabited ρ] (raw : List ρ → ℕ → ℚ) (center permute : Bool) (rs : List ρ) (t : ℕ), accumulateModel raw center permute rs t = accumulateModel (fun l ↦ raw l t) center permute rs := @PG.accumulateModel_apply

/-- SFS covariance is symmetric -/
theorem cov_symm : ∀ (n : ℕ) (idx : List ℕ) (x : ℕ → ℕ → ℚ) (mean : List ℚ) (i j : ℕ), i ≤ n → j ≤ n → covEntry n idx x mean i j = covEntry n idx x mean j i := @PG.covSFS_symm

/-- CALL LAYER: accumulate(k, times, rewards, center, permute) either raises (exactly when the mirrored checks fire) or returns accumulateModel at each time on the first k rewards -/
theorem call_layer_exact : ∀ {ρ : Type} (v : Api.Variant) (ctx : Api.DistCtx ρ) (k : ℤ) (rewards : Option (List ρ)) (ts : List ℚ) (center permute : Bool), Api.accumulateCall v ctx k rewards ts center permute = match Api.accErr v k (List.length (Api.resolveRewards ctx k rewards)) center (Api.negTimes ts) with | some e => Except.error e | none => Except.ok (List.map (Api.accAt ctx k (Api.resolveRewards ctx k rewards) center permute) ts) := @PG.Api.accumulateCall_eq

/-- moment / accumulate / object-level end time are the same number -/
theorem call_routes_agree : ∀ {ρ : Type} (v : Api.Variant), v ≠ Api.Variant.falsyTimes → ∀ (ctx : Api.DistCtx ρ) (c : Api.MomentCall ρ) (T : ℚ), Api.resolveTime v c.startTime ctx.startDefault ≤ 0 → Api.momentCall v ctx { k := c.k, rewards := c.rewards, startTime := c.startTime, endTime := some T, center := c.center, permute := c.permute } = Except.map (fun l ↦ List.getD l 0 0) (Api.accumulateCall v ctx c.k c.rewards [T] c.center c.permute) ∧ Api.momentCall v { defaultReward := ctx.defaultReward, startDefault := ctx.startDefault, tMax := T, raw := ctx.raw } { k := c.k, rewards := c.rewards, startTime := c.startTime, center := c.center, permute := c.permute } = Except.map (fun l ↦ List.getD l 0 0) (Api.accumulateCall v ctx c.k c.rewards [T] c.center c.permute) := @PG.Api.api_routes_agree

/-- rewards=None means [self.reward]*k; None times mean the defaults -/
theorem call_none_is_default : ∀ {ρ : Type} (v : Api.Variant) (ctx : Api.DistCtx ρ) (c : Api.MomentCall ρ), Api.momentCall v ctx { k := c.k, rewards := c.rewards, endTime := c.endTime, center := c.center, permute := c.permute } = Api.momentCall v ctx { k := c.k, rewards := c.rewards, startTime := some ctx.startDefault, endTime := c.endTime, center := c.center, permute := c.permute } ∧ Api.momentCall v ctx { k := c.k, rewards := c.rewards, startTime := c.startTime, center := c.center, permute := c.permute } = Api.momentCall v ctx { k := c.k, rewards := c.rewards, startTime := c.startTime, endTime := some ctx.tMax, center := c.center, permute := c.permute } ∧ Api.momentCall v ctx { k := c.k, startTime := c.startTime, endTime := c.endTime, center := c.center, permute := c.permute } = Api.momentCall v ctx { k := c.k, rewards := some (List.replicate (Int.toNat c.k) ctx.defaultReward), startTime := c.startTime, endTime := c.endTime, center := c.center, permute := c.permute } ∧ ∀ (ts : List ℚ), Api.accumulateCall v ctx c.k none ts c.center c.permute = Api.accumulateCall v ctx c.k (some (List.replicate (Int.toNat c.k) ctx.defaultReward)) ts c.center c.permute := @PG.Api.api_none_is_default

/-- two different reward tuples asked one after the other on the same object each get their own value -/
theorem memo_tuples_separate : ∀ {V : Type} (F : Memo.Fresh V) (a b : Memo.MomentArgs), (Memo.runAll Memo.Variant.current F Memo.init [Memo.Query.moment a, Memo.Query.moment b]).answers = [Memo.specMoment F a, Memo.specMoment F b] := @PG.Memo.memo_reward_tuples_separate

/-- memo-key comparison = equality of rewards (nested composites included) -/
theorem memo_keys_exact : ∀ (r r' : Reward), Memo.keyEq Memo.KeyScheme.current r r' = true ↔ r = r' := @PG.Memo.memo_keyEq_iff

/-- kernel-checked: a composite hash built from frozenset(children) makes Sum[A,A,B] collide with Sum[A,B] -/
theorem memo_frozenset_defect : (Memo.runAll Memo.Variant.frozensetComposite Memo.toy Memo.init [Memo.momentOf [Reward.sum [Memo.A, Memo.A, Memo.B]], Memo.momentOf [Reward.sum [Memo.A, Memo.B]]]).answers = [5356691, 5356691] ∧ List.map (Memo.spec Memo.toy) [Memo.momentOf [Reward.sum [Memo.A, Memo.A, Memo.B]], Memo.momentOf [Reward.sum [Memo.A, Memo.B]]] = [5356691, 595691] ∧ (Memo.runAll Memo.Variant.current Memo.toy Memo.init [Memo.momentOf [Reward.sum [Memo.A, Memo.A, Memo.B]], Memo.momentOf [Reward.sum [Memo.A, Memo.B]]]).answers = [5356691, 595691] := @PG.Memo.frozensetComposite_collides

/-- kernel-checked: hashing the defining class name makes composites differing in a stateless member collide (bare atoms still do not) -/
theorem memo_base_class_hash_defect : (Memo.runAll Memo.Variant.baseClassHash Memo.toy Memo.init [Memo.momentOf [Reward.prod [Reward.unit, Memo.A]], Memo.momentOf [Reward.prod [Reward.unit, Memo.B]]]).answers = [580681, 580681] ∧ List.map (Memo.spec Memo.toy) [Memo.momentOf [Reward.prod [Reward.unit, Memo.A]], Memo.momentOf [Reward.prod [Reward.unit, Memo.B]]] = [580681, 598681] ∧ (Memo.runAll Memo.Variant.current Memo.toy Memo.init [Memo.momentOf [Reward.prod [Reward.unit, Memo.A]], Memo.momentOf [Reward.prod [Reward.unit, Memo.B]]]).answers = [580681, 598681] := @PG.Memo.baseClassHash_collides

/-- accumulate(center, permute) is a fixed combination of the raw moments of its sub-tuples: equal raw ingredients give equal results -/
theorem call_congruence : ∀ {ρ V : Type} [inst : MomVal V] [inst_1 : Inhabited ρ] (raw raw' : List ρ → V) (c p : Bool) (rs : List ρ), (∀ l' ⊆ rs, raw l' = raw' l') → accumulateModel raw c p rs = accumulateModel raw' c p rs := @PG.EndToEnd.accumulateModel_congr

end PG.C15

#print axioms PG.C15.cov_routes_agree
#print axioms PG.C15.multilinear
#print axioms PG.C15.memo_keys_injective
#print axioms PG.C15.state_space_choice
#print axioms PG.C15.lc_rewards_ignore_blocks
#print axioms PG.C15.centering
#print axioms PG.C15.central_moment
#print axioms PG.C15.variance
#print axioms PG.C15.covariance
#print axioms PG.C15.third_central
#print axioms PG.C15.symmetric
#print axioms PG.C15.slot_additive
#print axioms PG.C15.unit_neutral
#print axioms PG.C15.pointwise_in_time
#print axioms PG.C15.cov_symm
#print axioms PG.C15.call_layer_exact
#print axioms PG.C15.call_routes_agree
#print axioms PG.C15.call_none_is_default
#print axioms PG.C15.memo_tuples_separate
#print axioms PG.C15.memo_keys_exact
#print axioms PG.C15.memo_frozenset_defect
#print axioms PG.C15.memo_base_class_hash_defect
#print axioms PG.C15.call_congruence
