/-
PGProofs.RoutesThm — theorems about `PGModel.Routes`:

* C15: the memoisation keys of rewards are injective (`Reward.key_injective`,
  `RouteReward.key_injective`, `combinedKey_injective`).
* C11/C15: the state-space choice of `_get_dist` is harmless: a reward which supports the
  lineage-counting state space depends on a (block-counting) state only through its lineage counts
  (`eval_of_supportsLC`, `eval_toLC`, `chooseSpace_lineageCounting`).
-/
import PGModel.Routes
import PGProofs.RatesThm
import Mathlib.Data.List.Basic
import Mathlib.Data.List.GetD
import Mathlib.Tactic.Ring
import Mathlib.Tactic.Linarith

set_option linter.unusedVariables false

namespace PG

/-! ## 4. Injectivity of the memoisation keys -/

section Keys

mutual
theorem Reward.key_inj : ∀ (r r' : Reward), r.key = r'.key → r = r'
  | .prod rs, r', h => by
    cases r' <;> simp [Reward.key] at h
    exact congrArg Reward.prod (Reward.keys_inj rs _ h)
  | .sum rs, r', h => by
    cases r' <;> simp [Reward.key] at h
    exact congrArg Reward.sum (Reward.keys_inj rs _ h)
  | .treeHeight, r', h => by cases r' <;> simp [Reward.key] at h ⊢
  | .totalTreeHeight, r', h => by cases r' <;> simp [Reward.key] at h ⊢
  | .totalBranchLength, r', h => by cases r' <;> simp [Reward.key] at h ⊢
  | .unfoldedSFS i, r', h => by (cases r' <;> simp [Reward.key] at h ⊢); exact h
  | .foldedSFS i, r', h => by (cases r' <;> simp [Reward.key] at h ⊢); exact h
  | .lineage i, r', h => by (cases r' <;> simp [Reward.key] at h ⊢); exact h
  | .deme i, r', h => by (cases r' <;> simp [Reward.key] at h ⊢); exact h
  | .locus i, r', h => by (cases r' <;> simp [Reward.key] at h ⊢); exact h
  | .unit, r', h => by cases r' <;> simp [Reward.key] at h ⊢
  | .tblLocus i, r', h => by (cases r' <;> simp [Reward.key] at h ⊢); exact h
theorem Reward.keys_inj : ∀ (rs rs' : List Reward), Reward.keys rs = Reward.keys rs' → rs = rs'
  | [], [], _ => rfl
  | [], _ :: _, h => by simp [Reward.keys] at h
  | _ :: _, [], h => by simp [Reward.keys] at h
  | r :: rs, r' :: rs', h => by
    simp only [Reward.keys, List.cons.injEq] at h
    rw [Reward.key_inj r r' h.1, Reward.keys_inj rs rs' h.2]
end

/-- **C15 (keys).** Two model rewards with the same memoisation key are the same reward. -/
theorem Reward.key_injective : Function.Injective Reward.key := fun r r' h => Reward.key_inj r r' h

theorem Reward.keys_eq_map (rs : List Reward) : Reward.keys rs = rs.map Reward.key := by
  induction rs with
  | nil => rfl
  | cons r rs ih => simp [Reward.keys, ih]

/-- reward TUPLES (the arguments of the memoised `moment`) with equal key tuples are equal -/
theorem Reward.keys_injective : Function.Injective (List.map Reward.key) :=
  Reward.key_injective.list_map

/-- a model reward never shares the key of `BlockCountingUnitReward` -/
theorem Reward.key_ne_bcUnit (r : Reward) : r.key ≠ .atom "BlockCountingUnitReward" none := by
  cases r <;> simp [Reward.key]

/-- **C15 (keys, including `BlockCountingUnitReward`).** In particular `UnitReward` and
`BlockCountingUnitReward` (equal reward vectors, different state-space choice) have different keys. -/
theorem RouteReward.key_injective : Function.Injective RouteReward.key := by
  intro a b h
  cases a <;> cases b
  · exact congrArg RouteReward.model (Reward.key_inj _ _ h)
  · exact absurd h (Reward.key_ne_bcUnit _)
  · exact absurd h.symm (Reward.key_ne_bcUnit _)
  · rfl

/-- `CombinedReward` keys: equal keys ⇒ equal (combined) model rewards, and a `CombinedReward` never
shares its key with a plain model reward (class name `CombinedReward`) -/
theorem combinedKey_injective (rs rs' : List Reward) (h : combinedKey rs = combinedKey rs') :
    Reward.combined rs = Reward.combined rs' := by
  unfold combinedKey at h
  simp only [RKey.comp.injEq, true_and] at h
  unfold Reward.combined
  rw [Reward.keys_inj _ _ h]

theorem combinedKey_ne_key (rs : List Reward) (r : Reward) : combinedKey rs ≠ r.key := by
  unfold combinedKey
  cases r <;> simp [Reward.key]

end Keys

/-! ## 5. The state-space choice is harmless -/

section Choice

theorem sumNat_nil : sumNat [] = 0 := rfl

theorem sumNat_singleton (x : ℕ) : sumNat [x] = x := by simp [sumNat]

theorem nLoci_eq_lc (s : State) : s.nLoci = s.lineageCounts.length := by
  simp [State.nLoci, State.lineageCounts]

theorem lineageCounts_getD (s : State) (l : ℕ) :
    s.lineageCounts.getD l [] = (s.lin.getD l []).map sumNat := by
  unfold State.lineageCounts
  exact List.getD_map s.lin [] (fun loc : List (List ℕ) => loc.map sumNat)

theorem locusTotal_eq_lc (s : State) (l : ℕ) :
    s.locusTotal l = sumNat (s.lineageCounts.getD l []) := by
  rw [lineageCounts_getD]; rfl

theorem demeTotal_eq_lc (s : State) (d : ℕ) :
    s.demeTotal d
      = sumNat ((List.range s.lineageCounts.length).map fun l =>
          (s.lineageCounts.getD l []).getD d 0) := by
  unfold State.demeTotal
  rw [nLoci_eq_lc]
  congr 1
  refine List.map_congr_left fun l _ => ?_
  rw [lineageCounts_getD, ← sumNat_nil]
  exact (List.getD_map _ [] sumNat).symm

theorem total_eq_lc (s : State) :
    s.total = sumNat ((List.range s.lineageCounts.length).map fun l =>
      sumNat (s.lineageCounts.getD l [])) := by
  unfold State.total
  rw [nLoci_eq_lc]
  congr 1
  exact List.map_congr_left fun l _ => locusTotal_eq_lc s l

variable (n : ℕ) (s₁ s₂ : State)

mutual
theorem eval_congr_aux (hn : s₁.nLoci = s₂.nLoci) (hl : ∀ l, s₁.locusTotal l = s₂.locusTotal l)
    (ht : s₁.total = s₂.total) (hd : ∀ d, s₁.demeTotal d = s₂.demeTotal d) :
    ∀ r : Reward, r.supportsLC = true → r.eval n s₁ = r.eval n s₂
  | .treeHeight, _ => by simp only [Reward.eval, hn, hl]
  | .totalTreeHeight, _ => by simp only [Reward.eval, hn, hl]
  | .totalBranchLength, _ => by simp only [Reward.eval, hn, hl]
  | .unfoldedSFS _, h => by simp [Reward.supportsLC] at h
  | .foldedSFS _, h => by simp [Reward.supportsLC] at h
  | .lineage _, _ => by simp only [Reward.eval, ht]
  | .deme _, _ => by simp only [Reward.eval, ht, hd]
  | .locus _, _ => by simp only [Reward.eval, hl]
  | .unit, _ => by simp only [Reward.eval]
  | .tblLocus _, _ => by simp only [Reward.eval, hl]
  | .prod rs, h => by
    rw [Reward.eval, Reward.eval]
    exact evalProd_congr_aux hn hl ht hd rs (by simpa [Reward.supportsLC] using h)
  | .sum rs, h => by
    rw [Reward.eval, Reward.eval]
    exact evalSum_congr_aux hn hl ht hd rs (by simpa [Reward.supportsLC] using h)
theorem evalProd_congr_aux (hn : s₁.nLoci = s₂.nLoci)
    (hl : ∀ l, s₁.locusTotal l = s₂.locusTotal l)
    (ht : s₁.total = s₂.total) (hd : ∀ d, s₁.demeTotal d = s₂.demeTotal d) :
    ∀ rs : List Reward, Reward.supportsLCAll rs = true →
      Reward.evalProd n s₁ rs = Reward.evalProd n s₂ rs
  | [], _ => by simp only [Reward.evalProd]
  | r :: rs, h => by
    simp only [Reward.supportsLCAll, Bool.and_eq_true] at h
    rw [Reward.evalProd, Reward.evalProd, eval_congr_aux hn hl ht hd r h.1,
      evalProd_congr_aux hn hl ht hd rs h.2]
theorem evalSum_congr_aux (hn : s₁.nLoci = s₂.nLoci)
    (hl : ∀ l, s₁.locusTotal l = s₂.locusTotal l)
    (ht : s₁.total = s₂.total) (hd : ∀ d, s₁.demeTotal d = s₂.demeTotal d) :
    ∀ rs : List Reward, Reward.supportsLCAll rs = true →
      Reward.evalSum n s₁ rs = Reward.evalSum n s₂ rs
  | [], _ => by simp only [Reward.evalSum]
  | r :: rs, h => by
    simp only [Reward.supportsLCAll, Bool.and_eq_true] at h
    rw [Reward.evalSum, Reward.evalSum, eval_congr_aux hn hl ht hd r h.1,
      evalSum_congr_aux hn hl ht hd rs h.2]
end

/-- **ψ-invariance.** A reward that supports the lineage-counting state space (no SFS reward
anywhere inside it) takes the same value on two states with the same lineage counts
`[locus][deme]` — in particular on a block-counting state and on its lineage-counting image. -/
theorem eval_of_supportsLC (r : Reward) (hr : r.supportsLC = true)
    (h : s₁.lineageCounts = s₂.lineageCounts) : r.eval n s₁ = r.eval n s₂ := by
  refine eval_congr_aux n s₁ s₂ ?_ ?_ ?_ ?_ r hr
  · rw [nLoci_eq_lc, nLoci_eq_lc, h]
  · intro l; rw [locusTotal_eq_lc, locusTotal_eq_lc, h]
  · rw [total_eq_lc, total_eq_lc, h]
  · intro d; rw [demeTotal_eq_lc, demeTotal_eq_lc, h]

theorem lineageCounts_toLC (s : State) : s.toLC.lineageCounts = s.lineageCounts := by
  unfold State.toLC State.lineageCounts
  simp only [List.map_map]
  refine List.map_congr_left fun loc _ => ?_
  simp only [Function.comp_apply, List.map_map]
  refine List.map_congr_left fun d _ => ?_
  exact sumNat_singleton _

/-- the value on a block-counting state equals the value on its lineage-counting image -/
theorem eval_toLC (s : State) (r : Reward) (hr : r.supportsLC = true) :
    r.eval n s.toLC = r.eval n s :=
  eval_of_supportsLC n _ _ r hr (lineageCounts_toLC s)

theorem supportsLCAll_eq_all (rs : List Reward) :
    Reward.supportsLCAll rs = rs.all Reward.supportsLC := by
  induction rs with
  | nil => rfl
  | cons r rs ih => simp [Reward.supportsLCAll, ih]

/-- `_get_dist` picks the lineage-counting state space iff every reward of the tuple supports it -/
theorem chooseSpace_lineageCounting_iff (rs : List RouteReward) :
    chooseSpace rs = .lineageCounting ↔ ∀ r ∈ rs, r.supportsLC = true := by
  unfold chooseSpace supportLC
  split_ifs with h
  · simpa using h
  · simp only [false_iff]
    intro h'
    exact h (List.all_eq_true.mpr h')

/-- `BlockCountingUnitReward` in the tuple forces the block-counting state space -/
theorem chooseSpace_bcUnit (rs : List RouteReward) (h : RouteReward.bcUnit ∈ rs) :
    chooseSpace rs = .blockCounting := by
  rcases hc : chooseSpace rs with _ | _
  · have := (chooseSpace_lineageCounting_iff rs).mp hc _ h
    simp [RouteReward.supportsLC] at this
  · rfl

/-- **C11/C15 (state-space choice is harmless).** Whenever `_get_dist` picks the lineage-counting
state space, every reward of the tuple is a function of the lineage counts only: its value on any
(block-counting) state equals its value on any state with the same lineage counts, e.g. the
lineage-counting image `s.toLC`. -/
theorem chooseSpace_lineageCounting (rs : List RouteReward)
    (h : chooseSpace rs = .lineageCounting) (r : RouteReward) (hr : r ∈ rs)
    (h12 : s₁.lineageCounts = s₂.lineageCounts) : r.eval n s₁ = r.eval n s₂ := by
  have hs := (chooseSpace_lineageCounting_iff rs).mp h r hr
  cases r with
  | model r => exact eval_of_supportsLC n s₁ s₂ r hs h12
  | bcUnit => rfl

/-- the forced block-counting route gives the same numbers as `UnitReward` -/
theorem eval_bcUnit (s : State) :
    RouteReward.eval n s .bcUnit = RouteReward.eval n s (.model .unit) := by
  simp [RouteReward.eval, Reward.eval]

/-! sanity checks on concrete inputs -/

example : chooseSpace [.model .treeHeight, .model (.deme 1)] = .lineageCounting := by decide
example : chooseSpace [.model .treeHeight, .model (.unfoldedSFS 2)] = .blockCounting := by decide
example : chooseSpace [.model (.prod [.unit, .sum [.foldedSFS 1]])] = .blockCounting := by decide
example : chooseSpace [.model .unit, .bcUnit] = .blockCounting := by decide
example : chooseSpace [] = .lineageCounting := by decide
example : (Reward.prod [.lineage 3, .tblLocus 0]).key
    = .comp "ProductReward" [.atom "LineageReward" (some 3),
        .atom "TotalBranchLengthLocusReward" (some 0)] := by
  simp [Reward.key, Reward.keys]

end Choice

end PG

#print axioms PG.Reward.key_injective
#print axioms PG.Reward.keys_injective
#print axioms PG.RouteReward.key_injective
#print axioms PG.combinedKey_injective
#print axioms PG.combinedKey_ne_key
#print axioms PG.eval_of_supportsLC
#print axioms PG.eval_toLC
#print axioms PG.chooseSpace_lineageCounting_iff
#print axioms PG.chooseSpace_bcUnit
#print axioms PG.chooseSpace_lineageCounting
