/-
PGProofs.DemographyThm — the `epochs` generator of `PGModel.Demography`.

Main results (namespace `PG`):
* `epochs_tiling`, `epochs_WF`            — the epochs tile `[0, ∞)` (any events, any options)
* `change_time_is_boundary`               — discrete events / splits: termination, every positive change
                                            time is an epoch start and conversely
* `value_in_force`, `value_in_force'`     — discrete events: the value of every key at every time is that
                                            of the last change at or before that time (default otherwise)
* `getEpochIdx_spec`, `epochOf_spec/_unique/_start` — `get_epochs` is pointwise the enclosing epoch
* `sortEvents_perm`, `sortEvents_sorted`, `epochsUpTo_perm`, `boundaries_perm`, `value_perm`
                                          — independence of the order in which events are given
* `discretised_mean`, `grid_point_boundary` — discretised trajectories
* `split_spec`, `split_pinned`            — the two orientations of a population split
* `historic_*_counterexample`, `grid_point_skipped`, `value_order_dependence_with_conflict`
                                          — evaluated counterexamples
-/
import PGModel.Demography
import PGModel.ConfigDemo
import PGProofs.Schedule

namespace PG

/-! ## Part 0 — generic helpers -/

theorem foldl_inv {β α γ : Type _} (g : β → γ) (f : β → α → β) (h : ∀ b a, g (f b a) = g b) :
    ∀ (l : List α) (b : β), g (l.foldl f b) = g b
  | [], _ => rfl
  | a :: l, b => by rw [List.foldl_cons, foldl_inv g f h l, h]

theorem foldl_pres {β α : Type _} (P : β → Prop) (f : β → α → β) (h : ∀ b a, P b → P (f b a)) :
    ∀ (l : List α) (b : β), P b → P (l.foldl f b)
  | [], _, hb => hb
  | a :: l, b, hb => by rw [List.foldl_cons]; exact foldl_pres P f h l _ (h _ _ hb)

theorem foldl_pres_mem {β α : Type _} (P : β → Prop) (f : β → α → β) :
    ∀ (l : List α) (b : β), (∀ b, ∀ a ∈ l, P b → P (f b a)) → P b → P (l.foldl f b)
  | [], _, _, hb => hb
  | a :: l, b, h, hb => by
    rw [List.foldl_cons]
    exact foldl_pres_mem P f l _ (fun b a ha => h b a (List.mem_cons_of_mem _ ha))
      (h _ _ List.mem_cons_self hb)

/-! ## Part 1 — what `broadcast` and `apply` leave unchanged -/

@[simp] theorem Epoch.set_start (e : Epoch) (k : Key) (v : ℚ) : (e.set k v).start = e.start := by
  cases k <;> rfl
@[simp] theorem Epoch.set_stop (e : Epoch) (k : Key) (v : ℚ) : (e.set k v).stop = e.stop := by
  cases k <;> rfl

theorem broadcastDiscrete_start (ts : List ℚ) (e : Epoch) : (broadcastDiscrete ts e).start = e.start := by
  unfold broadcastDiscrete; split <;> rfl
theorem broadcastDiscrete_sizes (ts : List ℚ) (e : Epoch) : (broadcastDiscrete ts e).sizes = e.sizes := by
  unfold broadcastDiscrete; split <;> rfl
theorem broadcastDiscrete_mig (ts : List ℚ) (e : Epoch) : (broadcastDiscrete ts e).mig = e.mig := by
  unfold broadcastDiscrete; split <;> rfl

theorem broadcastDiscretised_start (f : Bool) (a : ℚ) (b : Option ℚ) (st : ℚ) (e : Epoch) :
    (broadcastDiscretised f a b st e).start = e.start := by
  unfold broadcastDiscretised; dsimp only; split_ifs <;> rfl
theorem broadcastDiscretised_sizes (f : Bool) (a : ℚ) (b : Option ℚ) (st : ℚ) (e : Epoch) :
    (broadcastDiscretised f a b st e).sizes = e.sizes := by
  unfold broadcastDiscretised; dsimp only; split_ifs <;> rfl
theorem broadcastDiscretised_mig (f : Bool) (a : ℚ) (b : Option ℚ) (st : ℚ) (e : Epoch) :
    (broadcastDiscretised f a b st e).mig = e.mig := by
  unfold broadcastDiscretised; dsimp only; split_ifs <;> rfl

theorem Event.broadcast_start (f : Bool) (ev : Event) (e : Epoch) : (ev.broadcast f e).start = e.start := by
  cases ev with
  | discrete ch => exact broadcastDiscrete_start _ _
  | split t d a m => exact broadcastDiscrete_start _ _
  | discretised parts =>
    exact foldl_inv Epoch.start _ (fun b a => broadcastDiscretised_start _ _ _ _ _) _ _

theorem Event.broadcast_sizes (f : Bool) (ev : Event) (e : Epoch) : (ev.broadcast f e).sizes = e.sizes := by
  cases ev with
  | discrete ch => exact broadcastDiscrete_sizes _ _
  | split t d a m => exact broadcastDiscrete_sizes _ _
  | discretised parts =>
    exact foldl_inv Epoch.sizes _ (fun b a => broadcastDiscretised_sizes _ _ _ _ _) _ _

theorem Event.broadcast_mig (f : Bool) (ev : Event) (e : Epoch) : (ev.broadcast f e).mig = e.mig := by
  cases ev with
  | discrete ch => exact broadcastDiscrete_mig _ _
  | split t d a m => exact broadcastDiscrete_mig _ _
  | discretised parts =>
    exact foldl_inv Epoch.mig _ (fun b a => broadcastDiscretised_mig _ _ _ _ _) _ _

/-- `apply` changes neither end of the epoch. -/
theorem Event.apply_ends (fe sp : Bool) (ev : Event) (e : Epoch) :
    ((ev.apply fe sp e).start, (ev.apply fe sp e).stop) = (e.start, e.stop) := by
  let g : Epoch → ℚ × Option ℚ := fun e => (e.start, e.stop)
  have hset : ∀ (e : Epoch) k v, g (e.set k v) = g e := fun e k v => by simp [g]
  change g _ = g e
  cases ev with
  | discrete ch =>
    exact foldl_inv g _ (fun b a => foldl_inv g _ (fun b a => hset _ _ _) _ _) _ _
  | split t d a m =>
    simp only [Event.apply]
    split
    · split
      · rw [foldl_inv g _ (fun b a => hset _ _ _)]
        exact foldl_inv g _ (fun b a => foldl_inv g _ (fun b a => hset _ _ _) _ _) _ _
      · rw [foldl_inv g _ (fun b a => foldl_inv g _ (fun b a => hset _ _ _) _ _)]
        exact foldl_inv g _ (fun b a => hset _ _ _) _ _
    · rfl
  | discretised parts =>
    refine foldl_inv g _ (fun b a => ?_) _ _
    obtain ⟨traj, s, E, key, st⟩ := a
    dsimp only
    split
    · split_ifs
      all_goals first | exact hset _ _ _ | rfl
    · rfl

theorem Event.apply_start (fe sp : Bool) (ev : Event) (e : Epoch) : (ev.apply fe sp e).start = e.start :=
  congrArg Prod.fst (Event.apply_ends fe sp ev e)
theorem Event.apply_stop (fe sp : Bool) (ev : Event) (e : Epoch) : (ev.apply fe sp e).stop = e.stop :=
  congrArg Prod.snd (Event.apply_ends fe sp ev e)

/-- the candidate epoch after all broadcasts (the first phase of `nextEpoch`). -/
def broadcastAll (f : Bool) (evs : List Event) (e : Epoch) : Epoch :=
  evs.foldl (fun e ev => ev.broadcast f e) e

def applyAll (fe sp : Bool) (evs : List Event) (e : Epoch) : Epoch :=
  evs.foldl (fun e ev => ev.apply fe sp e) e

theorem nextEpoch_eq (o : DemoOpts) (evs : List Event) (prev : Epoch) :
    nextEpoch o evs prev = applyAll o.fixedWindowEnd o.splitSpec evs
      (broadcastAll o.fixedBroadcast evs
        { start := prev.stop.getD 0, stop := none, sizes := prev.sizes, mig := prev.mig }) := rfl

theorem broadcastAll_start (f : Bool) (evs : List Event) (e : Epoch) :
    (broadcastAll f evs e).start = e.start :=
  foldl_inv Epoch.start _ (fun _ _ => Event.broadcast_start _ _ _) _ _
theorem broadcastAll_sizes (f : Bool) (evs : List Event) (e : Epoch) :
    (broadcastAll f evs e).sizes = e.sizes :=
  foldl_inv Epoch.sizes _ (fun _ _ => Event.broadcast_sizes _ _ _) _ _
theorem broadcastAll_mig (f : Bool) (evs : List Event) (e : Epoch) :
    (broadcastAll f evs e).mig = e.mig :=
  foldl_inv Epoch.mig _ (fun _ _ => Event.broadcast_mig _ _ _) _ _
theorem applyAll_start (fe sp : Bool) (evs : List Event) (e : Epoch) :
    (applyAll fe sp evs e).start = e.start :=
  foldl_inv Epoch.start _ (fun _ _ => Event.apply_start _ _ _ _) _ _
theorem applyAll_stop (fe sp : Bool) (evs : List Event) (e : Epoch) :
    (applyAll fe sp evs e).stop = e.stop :=
  foldl_inv Epoch.stop _ (fun _ _ => Event.apply_stop _ _ _ _) _ _

@[simp] theorem nextEpoch_start (o : DemoOpts) (evs : List Event) (prev : Epoch) :
    (nextEpoch o evs prev).start = prev.stop.getD 0 := by
  rw [nextEpoch_eq, applyAll_start, broadcastAll_start]

theorem nextEpoch_stop (o : DemoOpts) (evs : List Event) (prev : Epoch) :
    (nextEpoch o evs prev).stop = (broadcastAll o.fixedBroadcast evs
        { start := prev.stop.getD 0, stop := none, sizes := prev.sizes, mig := prev.mig }).stop := by
  rw [nextEpoch_eq, applyAll_stop]

/-! ## Part 2 — tiling -/

/-- all steps of discretised events are positive. -/
def Event.StepsPos : Event → Prop
  | .discretised parts => ∀ p ∈ parts, 0 < p.2.2.2.2
  | _ => True

/-- well-formed events: change times `≥ 0`, discrete change times strictly ascending, steps `> 0`,
discretised windows `0 ≤ start < stop`. -/
def Event.WF : Event → Prop
  | .discrete ch => (∀ c ∈ ch, 0 ≤ c.1) ∧ (ch.map (·.1)).Pairwise (· < ·)
  | .split t _ _ _ => 0 ≤ t
  | .discretised parts => ∀ p ∈ parts, 0 ≤ p.2.1 ∧ 0 < p.2.2.2.2 ∧ ∀ E, p.2.2.1 = some E → p.2.1 < E

theorem Event.WF.stepsPos {ev : Event} (h : ev.WF) : ev.StepsPos := by
  cases ev with
  | discrete ch => trivial
  | split t d a m => trivial
  | discretised parts => exact fun p hp => (h p hp).2.1

/-- the grid point chosen by `DiscretizedRateChange._broadcast` lies strictly after the epoch start. -/
theorem grid_cand_gt (evStart start step : ℚ) (hstep : 0 < step) :
    start < evStart + ((Rat.ceil ((start - evStart + 1 / 10000000000) / step) : ℤ) : ℚ) * step := by
  have h1 : (start - evStart + 1 / 10000000000) / step
      ≤ ((Rat.ceil ((start - evStart + 1 / 10000000000) / step) : ℤ) : ℚ) := Rat.le_ceil
  have h2 := mul_le_mul_of_nonneg_right h1 hstep.le
  rw [div_mul_cancel₀ _ hstep.ne'] at h2
  linarith

theorem broadcast_cand_gt (evStart start step : ℚ) (hstep : 0 < step) :
    start < (if evStart > start then evStart
      else evStart + ((Rat.ceil ((start - evStart + 1 / 10000000000) / step) : ℤ) : ℚ) * step) := by
  split_ifs with h
  · exact h
  · exact grid_cand_gt _ _ _ hstep

/-- the candidate epoch is non-degenerate: `stop = ∞` or `start < stop`. -/
def Epoch.Proper (e : Epoch) : Prop := ltInf e.start e.stop = true

theorem ltInf_some {a b : ℚ} : ltInf a (some b) = true ↔ a < b := by simp [ltInf]
theorem leInf_some {a b : ℚ} : leInf a (some b) = true ↔ a ≤ b := by simp [leInf]
@[simp] theorem ltInf_none {a : ℚ} : ltInf a none = true := rfl
@[simp] theorem leInf_none {a : ℚ} : leInf a none = true := rfl

theorem broadcastDiscrete_cases (ts : List ℚ) (e : Epoch) :
    (ts.filter (fun t => e.start < t ∧ leInf t e.stop ∧ t > 0) = [] ∧ broadcastDiscrete ts e = e) ∨
    ∃ t rest, ts.filter (fun t => e.start < t ∧ leInf t e.stop ∧ t > 0) = t :: rest ∧
      broadcastDiscrete ts e = { e with stop := some t } := by
  unfold broadcastDiscrete
  cases h : ts.filter (fun t => e.start < t ∧ leInf t e.stop ∧ t > 0) with
  | nil => exact Or.inl ⟨rfl, rfl⟩
  | cons t rest => exact Or.inr ⟨t, rest, rfl, rfl⟩

theorem broadcastDiscrete_proper (ts : List ℚ) (e : Epoch) (h : e.Proper) :
    (broadcastDiscrete ts e).Proper := by
  rcases broadcastDiscrete_cases ts e with ⟨_, h2⟩ | ⟨t, rest, h1, h2⟩
  · rw [h2]; exact h
  · rw [h2]
    have hm : t ∈ ts.filter (fun t => e.start < t ∧ leInf t e.stop ∧ t > 0) := by
      rw [h1]; exact List.mem_cons_self
    have := (List.mem_filter.1 hm).2
    simp only [decide_eq_true_eq] at this
    exact ltInf_some.2 this.1

theorem broadcastDiscretised_eq (f : Bool) (a : ℚ) (b : Option ℚ) (st : ℚ) (e : Epoch) :
    ∃ c : Bool, broadcastDiscretised f a b st e = if c then e else
      { e with stop :=
          if f then minInf e.stop (if a > e.start then a
            else a + ((Rat.ceil ((e.start - a + 1 / 10000000000) / st) : ℤ) : ℚ) * st)
          else some (if a > e.start then a
            else a + ((Rat.ceil ((e.start - a + 1 / 10000000000) / st) : ℤ) : ℚ) * st) } :=
  ⟨_, rfl⟩

theorem broadcastDiscretised_proper (f : Bool) (a : ℚ) (b : Option ℚ) (st : ℚ) (hst : 0 < st)
    (e : Epoch) (h : e.Proper) : (broadcastDiscretised f a b st e).Proper := by
  obtain ⟨c, hc'⟩ := broadcastDiscretised_eq f a b st e
  rw [hc']
  have hc := broadcast_cand_gt a e.start st hst
  generalize (if a > e.start then a
    else a + ((Rat.ceil ((e.start - a + 1 / 10000000000) / st) : ℤ) : ℚ) * st) = cand at hc ⊢
  cases c with
  | true => exact h
  | false =>
    unfold Epoch.Proper
    cases f with
    | false => exact ltInf_some.2 hc
    | true =>
      simp only [if_true]
      cases hs : e.stop with
      | none => exact ltInf_some.2 hc
      | some x =>
        have hx : e.start < x := by
          have := h; unfold Epoch.Proper at this; rw [hs] at this; exact ltInf_some.1 this
        exact ltInf_some.2 (lt_min hx hc)

theorem Event.broadcast_proper (f : Bool) (ev : Event) (hev : ev.StepsPos) (e : Epoch) (h : e.Proper) :
    (ev.broadcast f e).Proper := by
  cases ev with
  | discrete ch => exact broadcastDiscrete_proper _ _ h
  | split t d a m => exact broadcastDiscrete_proper _ _ h
  | discretised parts =>
    exact foldl_pres_mem Epoch.Proper _ parts e
      (fun b p hp hb => broadcastDiscretised_proper _ _ _ _ (hev p hp) _ hb) h

theorem nextEpoch_proper (o : DemoOpts) (evs : List Event) (hevs : ∀ ev ∈ evs, ev.StepsPos)
    (prev : Epoch) : (nextEpoch o evs prev).Proper := by
  unfold Epoch.Proper
  rw [nextEpoch_stop, nextEpoch_start]
  have := foldl_pres_mem Epoch.Proper (fun e ev => ev.broadcast o.fixedBroadcast e) evs
    { start := prev.stop.getD 0, stop := none, sizes := prev.sizes, mig := prev.mig }
    (fun b ev hev hb => Event.broadcast_proper _ ev (hevs ev hev) b hb) rfl
  unfold Epoch.Proper at this
  rw [show (List.foldl (fun e ev => Event.broadcast o.fixedBroadcast ev e)
    { start := prev.stop.getD 0, stop := none, sizes := prev.sizes, mig := prev.mig } evs)
    = broadcastAll o.fixedBroadcast evs
      { start := prev.stop.getD 0, stop := none, sizes := prev.sizes, mig := prev.mig } from rfl,
    broadcastAll_start] at this
  exact this

/-! ### the generated list -/

theorem epochsFrom_zero (o : DemoOpts) (evs : List Event) (prev : Epoch) :
    epochsFrom o evs 0 prev = [] := rfl

theorem epochsFrom_succ_none (o : DemoOpts) (evs : List Event) (n : ℕ) (prev : Epoch)
    (h : (nextEpoch o evs prev).stop = none) :
    epochsFrom o evs (n + 1) prev = [nextEpoch o evs prev] := by
  simp only [epochsFrom]; rw [h]

theorem epochsFrom_succ_some (o : DemoOpts) (evs : List Event) (n : ℕ) (prev : Epoch) (s : ℚ)
    (h : (nextEpoch o evs prev).stop = some s) :
    epochsFrom o evs (n + 1) prev = nextEpoch o evs prev :: epochsFrom o evs n (nextEpoch o evs prev) := by
  simp only [epochsFrom]; rw [h]

/-- induction along the generator. -/
theorem epochsFrom_ind (o : DemoOpts) (evs : List Event) (P : Epoch → Prop)
    (hstep : ∀ prev s, prev.stop = some s → P prev → P (nextEpoch o evs prev)) :
    ∀ (n : ℕ) (prev : Epoch) (s : ℚ), prev.stop = some s → P prev →
      ∀ e ∈ epochsFrom o evs n prev, P e
  | 0, _, _, _, _, e, he => by simp [epochsFrom_zero] at he
  | n + 1, prev, s, hs, hp, e, he => by
    cases h : (nextEpoch o evs prev).stop with
    | none =>
      rw [epochsFrom_succ_none o evs n prev h, List.mem_singleton] at he
      rw [he]; exact hstep prev s hs hp
    | some s' =>
      rw [epochsFrom_succ_some o evs n prev s' h, List.mem_cons] at he
      rcases he with he | he
      · rw [he]; exact hstep prev s hs hp
      · exact epochsFrom_ind o evs P hstep n _ s' h (hstep prev s hs hp) e he

/-- every generated epoch is `nextEpoch` of something (the start `prev` or an earlier epoch). -/
theorem epochsFrom_mem_next (o : DemoOpts) (evs : List Event) (n : ℕ) (prev : Epoch) (e : Epoch)
    (he : e ∈ epochsFrom o evs n prev) : ∃ p, e = nextEpoch o evs p := by
  induction n generalizing prev with
  | zero => simp [epochsFrom_zero] at he
  | succ n ih =>
    cases h : (nextEpoch o evs prev).stop with
    | none =>
      rw [epochsFrom_succ_none o evs n prev h, List.mem_singleton] at he
      exact ⟨prev, he⟩
    | some s' =>
      rw [epochsFrom_succ_some o evs n prev s' h, List.mem_cons] at he
      rcases he with he | he
      · exact ⟨prev, he⟩
      · exact ih _ he

theorem epochsFrom_length_le (o : DemoOpts) (evs : List Event) :
    ∀ (n : ℕ) (prev : Epoch), (epochsFrom o evs n prev).length ≤ n
  | 0, _ => by simp [epochsFrom_zero]
  | n + 1, prev => by
    cases h : (nextEpoch o evs prev).stop with
    | none => rw [epochsFrom_succ_none o evs n prev h]; simp
    | some s' =>
      rw [epochsFrom_succ_some o evs n prev s' h, List.length_cons]
      exact Nat.succ_le_succ (epochsFrom_length_le o evs n _)

/-- (a) the first generated epoch starts where `prev` stopped. -/
theorem epochsFrom_head_start (o : DemoOpts) (evs : List Event) (n : ℕ) (prev : Epoch) (e : Epoch)
    (he : (epochsFrom o evs n prev).head? = some e) : e.start = prev.stop.getD 0 := by
  cases n with
  | zero => simp [epochsFrom_zero] at he
  | succ n =>
    cases h : (nextEpoch o evs prev).stop with
    | none =>
      rw [epochsFrom_succ_none o evs n prev h] at he
      simp only [List.head?_cons, Option.some.injEq] at he
      rw [← he, nextEpoch_start]
    | some s' =>
      rw [epochsFrom_succ_some o evs n prev s' h] at he
      simp only [List.head?_cons, Option.some.injEq] at he
      rw [← he, nextEpoch_start]

/-- (b) consecutive epochs abut. -/
theorem epochsFrom_consecutive (o : DemoOpts) (evs : List Event) :
    ∀ (n : ℕ) (prev : Epoch) (i : ℕ) (h : i + 1 < (epochsFrom o evs n prev).length),
      ((epochsFrom o evs n prev)[i]).stop = some ((epochsFrom o evs n prev)[i + 1]).start
  | 0, _, i, h => by simp [epochsFrom_zero] at h
  | n + 1, prev, i, h => by
    cases hs : (nextEpoch o evs prev).stop with
    | none =>
      exfalso
      rw [epochsFrom_succ_none o evs n prev hs] at h
      simp at h
    | some s' =>
      have heq := epochsFrom_succ_some o evs n prev s' hs
      have hlen : i < (epochsFrom o evs n (nextEpoch o evs prev)).length := by
        rw [heq, List.length_cons] at h; omega
      simp only [heq]
      cases i with
      | zero =>
        simp only [List.getElem_cons_zero, List.getElem_cons_succ]
        have := epochsFrom_head_start o evs n (nextEpoch o evs prev)
          ((epochsFrom o evs n (nextEpoch o evs prev))[0]) (by
            rw [List.head?_eq_getElem?]; exact List.getElem?_eq_getElem hlen)
        rw [this, hs]; rfl
      | succ i =>
        simp only [List.getElem_cons_succ]
        exact epochsFrom_consecutive o evs n _ i (by rw [heq, List.length_cons] at h; omega)

/-- (c) a schedule shorter than requested ends with an infinite epoch. -/
theorem epochsFrom_short (o : DemoOpts) (evs : List Event) :
    ∀ (n : ℕ) (prev : Epoch), (epochsFrom o evs n prev).length < n →
      ∃ e, (epochsFrom o evs n prev).getLast? = some e ∧ e.stop = none
  | 0, _, h => by simp at h
  | n + 1, prev, h => by
    cases hs : (nextEpoch o evs prev).stop with
    | none =>
      rw [epochsFrom_succ_none o evs n prev hs]
      exact ⟨_, rfl, hs⟩
    | some s' =>
      rw [epochsFrom_succ_some o evs n prev s' hs] at h ⊢
      rw [List.length_cons] at h
      obtain ⟨e, he, hn⟩ := epochsFrom_short o evs n (nextEpoch o evs prev) (by omega)
      refine ⟨e, ?_, hn⟩
      rw [List.getLast?_cons, he]; rfl

/-- an infinite epoch is the last one. -/
theorem epochsFrom_none_last (o : DemoOpts) (evs : List Event) (n : ℕ) (prev : Epoch) (i : ℕ)
    (h : i < (epochsFrom o evs n prev).length) (hn : ((epochsFrom o evs n prev)[i]).stop = none) :
    i + 1 = (epochsFrom o evs n prev).length := by
  by_contra hne
  have h2 : i + 1 < (epochsFrom o evs n prev).length := by omega
  have := epochsFrom_consecutive o evs n prev i h2
  rw [hn] at this
  exact absurd this (by simp)

/-- (d) every epoch is non-degenerate. -/
theorem epochsFrom_proper (o : DemoOpts) (evs : List Event) (hevs : ∀ ev ∈ evs, ev.StepsPos)
    (n : ℕ) (prev : Epoch) : ∀ e ∈ epochsFrom o evs n prev, e.Proper := by
  intro e he
  obtain ⟨p, rfl⟩ := epochsFrom_mem_next o evs n prev e he
  exact nextEpoch_proper o evs hevs p

/-- connection to `PG.WF` of `PGProofs.Schedule`: a generated list containing an infinite epoch
tiles `[s, ∞)`. -/
theorem epochsFrom_WF (o : DemoOpts) (evs : List Event) (hevs : ∀ ev ∈ evs, ev.StepsPos) :
    ∀ (n : ℕ) (prev : Epoch) (s : ℚ), prev.stop = some s →
      (∃ e ∈ epochsFrom o evs n prev, e.stop = none) →
      WF ((epochsFrom o evs n prev).map Epoch.toT) s
  | 0, _, _, _, h => by simp [epochsFrom_zero] at h
  | n + 1, prev, s, hs, h => by
    have hst : (nextEpoch o evs prev).start = s := by rw [nextEpoch_start, hs]; rfl
    cases hs' : (nextEpoch o evs prev).stop with
    | none =>
      rw [epochsFrom_succ_none o evs n prev hs']
      refine ⟨hst, ?_⟩
      simp only [Epoch.toT, hs', List.map_nil]
    | some s' =>
      rw [epochsFrom_succ_some o evs n prev s' hs'] at h ⊢
      refine ⟨hst, ?_⟩
      simp only [Epoch.toT, hs']
      have hp := nextEpoch_proper o evs hevs prev
      unfold Epoch.Proper at hp
      rw [hs', hst, ltInf_some] at hp
      refine ⟨hp, epochsFrom_WF o evs hevs n _ s' hs' ?_⟩
      obtain ⟨e, he, hn⟩ := h
      rcases List.mem_cons.1 he with rfl | he
      · rw [hs'] at hn; exact absurd hn (by simp)
      · exact ⟨e, he, hn⟩

theorem insertEvent_perm (e : Event) : ∀ l : List Event, (insertEvent e l).Perm (e :: l)
  | [] => List.Perm.refl _
  | y :: ys => by
    unfold insertEvent
    split_ifs
    · exact List.Perm.refl _
    · exact ((List.Perm.cons y (insertEvent_perm e ys)).trans (List.Perm.swap e y ys))

/-- `sortEvents` permutes its input. -/
theorem sortEvents_perm : ∀ es : List Event, (sortEvents es).Perm es
  | [] => List.Perm.refl _
  | e :: es => (insertEvent_perm e _).trans (List.Perm.cons e (sortEvents_perm es))

/-- **Tiling.** The epochs of any demography tile `[0, ∞)`:
(a) the first starts at 0; (b) each finite stop is the next start; (c) an infinite epoch is the last
one and a schedule shorter than requested ends with one; (d) if all steps of discretised events are
positive, every epoch has `start < stop`. -/
theorem epochs_tiling (o : DemoOpts) (events : List Event) (count : ℕ) :
    let eps := epochsUpTo o events count
    (∀ e, eps.head? = some e → e.start = 0) ∧
    (∀ (i : ℕ) (h : i + 1 < eps.length), eps[i].stop = some eps[i + 1].start) ∧
    (∀ (i : ℕ) (h : i < eps.length), eps[i].stop = none → i + 1 = eps.length) ∧
    (eps.length < count → ∃ e, eps.getLast? = some e ∧ e.stop = none) ∧
    eps.length ≤ count ∧
    ((∀ ev ∈ events, ev.StepsPos) → ∀ e ∈ eps, ∀ en, e.stop = some en → e.start < en) := by
  refine ⟨fun e he => ?_, fun i h => epochsFrom_consecutive _ _ _ _ i h,
    fun i h hn => epochsFrom_none_last _ _ _ _ i h hn, epochsFrom_short _ _ _ _,
    epochsFrom_length_le _ _ _ _, fun hev e he en hen => ?_⟩
  · exact epochsFrom_head_start _ _ _ _ e he
  · have hev' : ∀ ev ∈ sortEvents events, ev.StepsPos :=
      fun ev h => hev ev ((sortEvents_perm events).subset h)
    have := epochsFrom_proper o _ hev' _ _ e he
    unfold Epoch.Proper at this
    rw [hen, ltInf_some] at this
    exact this

/-- … and as a `PG.WF` list (the form consumed by `PGProofs.Schedule`). -/
theorem epochs_WF (o : DemoOpts) (events : List Event) (hev : ∀ ev ∈ events, ev.StepsPos) (count : ℕ)
    (hinf : ∃ e ∈ epochsUpTo o events count, e.stop = none) :
    WF ((epochsUpTo o events count).map Epoch.toT) 0 :=
  epochsFrom_WF o _ (fun ev h => hev ev ((sortEvents_perm events).subset h)) _ _ 0 rfl hinf

/-! ## Part 3 — epoch lookup (`get_epochs`) -/

/-- `t` lies in the epoch: `start ≤ t < stop`. -/
def Epoch.Contains (e : Epoch) (t : ℚ) : Prop := e.start ≤ t ∧ ltInf t e.stop = true

instance (e : Epoch) (t : ℚ) : Decidable (e.Contains t) := by unfold Epoch.Contains; infer_instance

/-- the index of the first epoch containing `t` (`eps.length` if there is none). -/
def epochOf (eps : List Epoch) (t : ℚ) : ℕ := eps.findIdx fun e => decide (e.Contains t)

/-- the epoch list tiles `[0, ∞)` (see `epochs_WF`). -/
def Tiled (eps : List Epoch) : Prop := WF (eps.map Epoch.toT) 0

theorem WF_pairwise : ∀ (l : List EpochT) (s0 : ℚ), WF l s0 →
    l.Pairwise (fun a b => ∃ s, a.stop = some s ∧ s ≤ b.start)
  | [], _, h => List.Pairwise.nil
  | e :: rest, s0, h => by
    obtain ⟨h1, h2⟩ := h
    cases hs : e.stop with
    | none =>
      rw [hs] at h2; dsimp only at h2
      rw [h2]; exact List.pairwise_singleton _ _
    | some s =>
      rw [hs] at h2; dsimp only at h2
      refine List.Pairwise.cons (fun b hb => ⟨s, hs, WF_start_ge rest s h2.2 b hb⟩)
        (WF_pairwise rest s h2.2)

theorem WF_exists : ∀ (l : List EpochT) (s0 t : ℚ), WF l s0 → s0 ≤ t →
    ∃ e ∈ l, e.start ≤ t ∧ ltInf t e.stop = true
  | [], _, _, h, _ => h.elim
  | e :: rest, s0, t, h, ht => by
    obtain ⟨h1, h2⟩ := h
    cases hs : e.stop with
    | none => exact ⟨e, List.mem_cons_self, h1 ▸ ht, by rw [hs]; rfl⟩
    | some s =>
      rw [hs] at h2; dsimp only at h2
      by_cases hts : t < s
      · exact ⟨e, List.mem_cons_self, h1 ▸ ht, by rw [hs]; exact ltInf_some.2 hts⟩
      · obtain ⟨e', he', h3⟩ := WF_exists rest s t h2.2 (not_lt.1 hts)
        exact ⟨e', List.mem_cons_of_mem _ he', h3⟩

theorem WF_proper : ∀ (l : List EpochT) (s0 : ℚ), WF l s0 → ∀ e ∈ l, ltInf e.start e.stop = true
  | [], _, h, _, _ => h.elim
  | e :: rest, s0, h, e', he' => by
    obtain ⟨h1, h2⟩ := h
    cases hs : e.stop with
    | none =>
      rw [hs] at h2; dsimp only at h2
      subst h2
      rw [List.mem_singleton] at he'
      rw [he', hs]; rfl
    | some s =>
      rw [hs] at h2; dsimp only at h2
      rcases List.mem_cons.1 he' with rfl | he'
      · rw [hs, h1]; exact ltInf_some.2 h2.1
      · exact WF_proper rest s h2.2 e' he'

theorem Tiled.pairwise {eps : List Epoch} (h : Tiled eps) :
    eps.Pairwise (fun a b => ∃ s, a.stop = some s ∧ s ≤ b.start) := by
  have := WF_pairwise _ _ h
  rw [List.pairwise_map] at this
  exact this

theorem Tiled.exists_contains {eps : List Epoch} (h : Tiled eps) {t : ℚ} (ht : 0 ≤ t) :
    ∃ e ∈ eps, e.Contains t := by
  obtain ⟨e', he', h1, h2⟩ := WF_exists _ 0 t h ht
  obtain ⟨e, he, rfl⟩ := List.mem_map.1 he'
  exact ⟨e, he, h1, h2⟩

theorem Tiled.proper {eps : List Epoch} (h : Tiled eps) : ∀ e ∈ eps, e.Proper := by
  intro e he
  exact WF_proper _ 0 h e.toT (List.mem_map.2 ⟨e, he, rfl⟩)

theorem Tiled.start_nonneg {eps : List Epoch} (h : Tiled eps) : ∀ e ∈ eps, 0 ≤ e.start := by
  intro e he
  exact WF_start_ge _ 0 h e.toT (List.mem_map.2 ⟨e, he, rfl⟩)

/-- in a tiled list the epochs containing increasing times have increasing indices; in particular
(`t = t'`) at most one epoch contains a given time. -/
theorem Tiled.contains_mono {eps : List Epoch} (h : Tiled eps) {i j : ℕ} (hi : i < eps.length)
    (hj : j < eps.length) {t t' : ℚ} (hci : eps[i].Contains t) (hcj : eps[j].Contains t')
    (htt : t ≤ t') : i ≤ j := by
  by_contra hlt
  have hlt : j < i := not_le.1 hlt
  obtain ⟨s, hs, hle⟩ := (List.pairwise_iff_getElem.1 h.pairwise) j i hj hi hlt
  have h1 := hcj.2
  rw [hs, ltInf_some] at h1
  have h2 := hci.1
  linarith

theorem Tiled.contains_unique {eps : List Epoch} (h : Tiled eps) {i j : ℕ} (hi : i < eps.length)
    (hj : j < eps.length) {t : ℚ} (hci : eps[i].Contains t) (hcj : eps[j].Contains t) : i = j :=
  le_antisymm (h.contains_mono hi hj hci hcj le_rfl) (h.contains_mono hj hi hcj hci le_rfl)

/-- `epochOf` is the index of an epoch containing `t` … -/
theorem epochOf_spec {eps : List Epoch} (h : Tiled eps) {t : ℚ} (ht : 0 ≤ t) :
    ∃ hlt : epochOf eps t < eps.length, eps[epochOf eps t].Contains t := by
  obtain ⟨e, he, hc⟩ := h.exists_contains ht
  have hlt : epochOf eps t < eps.length :=
    List.findIdx_lt_length_of_exists ⟨e, he, by simpa using hc⟩
  refine ⟨hlt, ?_⟩
  have hlt' : eps.findIdx (fun e => decide (e.Contains t)) < eps.length := hlt
  have h2 := List.findIdx_getElem (w := hlt')
  exact of_decide_eq_true h2

/-- … and the only one. -/
theorem epochOf_unique {eps : List Epoch} (h : Tiled eps) {t : ℚ} {j : ℕ} (hj : j < eps.length)
    (hc : eps[j].Contains t) : j = epochOf eps t := by
  have ht : 0 ≤ t := le_trans (h.start_nonneg _ (List.getElem_mem hj)) hc.1
  obtain ⟨hlt, hc'⟩ := epochOf_spec h ht
  exact h.contains_unique hj hlt hc hc'

/-- a time exactly on a boundary belongs to the epoch that starts there. -/
theorem epochOf_start {eps : List Epoch} (h : Tiled eps) {j : ℕ} (hj : j < eps.length) :
    epochOf eps eps[j].start = j :=
  (epochOf_unique h hj ⟨le_rfl, h.proper _ (List.getElem_mem hj)⟩).symm

theorem epochOf_mono {eps : List Epoch} (h : Tiled eps) {t t' : ℚ} (ht : 0 ≤ t) (htt : t ≤ t') :
    epochOf eps t ≤ epochOf eps t' := by
  obtain ⟨h1, c1⟩ := epochOf_spec h ht
  obtain ⟨h2, c2⟩ := epochOf_spec h (le_trans ht htt)
  exact h.contains_mono h1 h2 c1 c2 htt

/-- the cursor loop finds the enclosing epoch when started at or before it with enough fuel. -/
theorem windTo_spec {eps : List Epoch} (h : Tiled eps) {t : ℚ} (ht : 0 ≤ t) :
    ∀ (fuel j : ℕ), j ≤ epochOf eps t → epochOf eps t - j < fuel →
      windTo eps t fuel j = some (epochOf eps t)
  | 0, _, _, h2 => by omega
  | fuel + 1, j, h1, h2 => by
    obtain ⟨hlt, hc⟩ := epochOf_spec h ht
    have hj : j < eps.length := lt_of_le_of_lt h1 hlt
    unfold windTo
    rw [List.getElem?_eq_getElem hj]
    dsimp only
    by_cases hcj : eps[j].start ≤ t ∧ ltInf t eps[j].stop = true
    · rw [if_pos hcj, epochOf_unique h hj hcj]
    · rw [if_neg hcj]
      have hne : j ≠ epochOf eps t := by
        intro heq
        apply hcj
        have := hc
        simp only [← heq] at this
        exact this
      exact windTo_spec h ht fuel (j + 1) (by omega) (by omega)

theorem sweepEpochs_spec {eps : List Epoch} (h : Tiled eps) :
    ∀ (ts : List ℚ) (i : ℕ), ts.Pairwise (· ≤ ·) → (∀ t ∈ ts, 0 ≤ t) →
      (∀ t ∈ ts, i ≤ epochOf eps t) →
      sweepEpochs eps ts i = ts.map fun t => some (epochOf eps t)
  | [], _, _, _, _ => rfl
  | t :: rest, i, hs, hnn, hi => by
    have ht : 0 ≤ t := hnn t List.mem_cons_self
    obtain ⟨hlt, _⟩ := epochOf_spec h ht
    have hw := windTo_spec h ht (eps.length + 1) i (hi t List.mem_cons_self) (by omega)
    unfold sweepEpochs
    rw [hw]
    dsimp only
    rw [List.map_cons, sweepEpochs_spec h rest (epochOf eps t) (List.pairwise_cons.1 hs).2
      (fun t' ht' => hnn t' (List.mem_cons_of_mem _ ht'))
      (fun t' ht' => epochOf_mono h ht ((List.pairwise_cons.1 hs).1 t' ht'))]

/-- **Lookup.** For a tiled epoch list and non-negative query times, `get_epochs` returns for every
time — independently of the other times and of their order — the index of the unique epoch with
`start ≤ t < stop` (`epochOf_spec`, `epochOf_unique`); a boundary belongs to the epoch starting
there (`epochOf_start`). -/
theorem getEpochIdx_spec (eps : List Epoch) (h : Tiled eps) (ts : List ℚ) (hts : ∀ t ∈ ts, 0 ≤ t) :
    getEpochIdx eps ts = ts.map fun t => some (epochOf eps t) := by
  unfold getEpochIdx
  rw [sweepEpochs_spec h (sortRat ts) 0 (sortRat_sorted ts)
    (fun t ht => hts t ((sortRat_perm ts).subset ht)) (fun _ _ => Nat.zero_le _)]
  exact scatter_argsort ts _

/-- the same, spelled out pointwise. -/
theorem getEpochIdx_pointwise (eps : List Epoch) (h : Tiled eps) (ts : List ℚ)
    (hts : ∀ t ∈ ts, 0 ≤ t) (k : ℕ) (hk : k < ts.length) :
    ∃ (i : ℕ) (hi : i < eps.length),
      (getEpochIdx eps ts)[k]? = some (some i) ∧ eps[i].start ≤ ts[k] ∧ ltInf ts[k] eps[i].stop = true ∧
      ∀ (j : ℕ) (hj : j < eps.length), eps[j].start ≤ ts[k] → ltInf ts[k] eps[j].stop = true → j = i := by
  obtain ⟨hlt, hc⟩ := epochOf_spec h (hts _ (List.getElem_mem hk))
  refine ⟨epochOf eps ts[k], hlt, ?_, hc.1, hc.2, fun j hj h1 h2 => epochOf_unique h hj ⟨h1, h2⟩⟩
  rw [getEpochIdx_spec eps h ts hts]
  simp [hk]

/-! ## Part 4 — dictionaries and the values of an epoch -/

theorem lookup_map_replace {κ ν} [BEq κ] [LawfulBEq κ] (k k' : κ) (v : ν) : ∀ d : List (κ × ν),
    List.lookup k' (d.map fun p => if p.1 == k then (k, v) else p) =
      if k' == k then (if d.any (fun p => p.1 == k) then some v else none) else List.lookup k' d
  | [] => by simp
  | (a, b) :: d => by
    have ih := lookup_map_replace k k' v d
    rw [List.map_cons, List.any_cons]
    by_cases hp : a == k
    · have hpk : a = k := eq_of_beq hp
      simp only [hp, if_true, List.lookup_cons, Bool.true_or]
      by_cases hk : k' == k
      · simp [hk]
      · have : (k' == a) = false := by rw [hpk]; simpa using hk
        simp [hk, this, ih]
    · simp only [hp, Bool.false_eq_true, if_false, List.lookup_cons, Bool.false_or]
      by_cases hk : k' == k
      · have hkk : k' = k := eq_of_beq hk
        have : (k' == a) = false := by
          rw [hkk]; simp only [beq_eq_false_iff_ne, ne_eq]; intro h; exact hp (by rw [h]; simp)
        simp [hk, this, ih]
      · simp only [hk, Bool.false_eq_true, if_false] at ih ⊢
        rw [ih]

theorem Dict.lookup_insert {κ ν} [BEq κ] [LawfulBEq κ] (d : Dict κ ν) (k k' : κ) (v : ν) :
    List.lookup k' (Dict.insert d k v) = if k' == k then some v else List.lookup k' d := by
  unfold Dict.insert
  by_cases hany : d.any (fun p => p.1 == k) = true
  · rw [if_pos hany, lookup_map_replace, hany]; simp
  · rw [if_neg hany, List.lookup_append]
    by_cases hk : k' == k
    · have hkk : k' = k := eq_of_beq hk
      have : List.lookup k' d = none := by
        rw [List.lookup_eq_none_iff]
        intro p hp
        subst hkk
        simp only [List.any_eq_true, not_exists, not_and] at hany
        have := hany p hp
        simp only [beq_iff_eq] at this
        simp only [bne_iff_ne, ne_eq]
        exact fun h => this h.symm
      simp [hk, this, List.lookup_cons]
    · simp [hk, List.lookup_cons]


/- `Epoch.value` (the value of a key in an epoch) lives in `PGModel/ConfigDemo.lean`, linked into `pgdriver`. -/

theorem Epoch.value_set (e : Epoch) (k k' : Key) (v : ℚ) :
    (e.set k v).value k' = if k' = k then some v else e.value k' := by
  cases k with
  | size p =>
    cases k' with
    | size p' =>
      simp only [Epoch.set, Epoch.value, Dict.lookup_insert, Key.size.injEq, beq_iff_eq]
    | mig a b => simp [Epoch.set, Epoch.value]
  | mig a b =>
    cases k' with
    | size p' => simp [Epoch.set, Epoch.value]
    | mig a' b' =>
      simp only [Epoch.set, Epoch.value, Dict.lookup_insert, Key.mig.injEq, beq_iff_eq, Prod.mk.injEq]

/-- a timed change `(time, key, value)`. -/
abbrev Change := ℚ × Key × ℚ

/-- apply a list of changes in order. -/
def setAll (cs : List Change) (e : Epoch) : Epoch := cs.foldl (fun e c => e.set c.2.1 c.2.2) e

theorem setAll_append (l1 l2 : List Change) (e : Epoch) :
    setAll (l1 ++ l2) e = setAll l2 (setAll l1 e) := List.foldl_append

theorem setAll_value_none (k : Key) : ∀ (cs : List Change) (e : Epoch), (∀ c ∈ cs, c.2.1 ≠ k) →
    (setAll cs e).value k = e.value k
  | [], _, _ => rfl
  | c :: cs, e, h => by
    change (setAll cs (e.set c.2.1 c.2.2)).value k = _
    rw [setAll_value_none k cs _ (fun c' hc' => h c' (List.mem_cons_of_mem _ hc')), Epoch.value_set,
      if_neg (fun hk => h c List.mem_cons_self hk.symm)]

theorem setAll_value_last (l1 : List Change) (c : Change) (l2 : List Change) (e : Epoch)
    (h : ∀ c' ∈ l2, c'.2.1 ≠ c.2.1) : (setAll (l1 ++ c :: l2) e).value c.2.1 = some c.2.2 := by
  rw [setAll_append]
  change (setAll l2 ((setAll l1 e).set c.2.1 c.2.2)).value c.2.1 = _
  rw [setAll_value_none _ l2 _ h, Epoch.value_set, if_pos rfl]

/-- the value before any change: size 1 for known populations, rate 0 between known populations. -/
def defaultValue (names : List ℕ) : Key → Option ℚ
  | .size p => if p ∈ names then some 1 else none
  | .mig a b => if a ∈ names ∧ b ∈ names then some 0 else none

theorem lookup_map_const {α β γ : Type} [BEq α] [LawfulBEq α] [DecidableEq γ] (f : γ → α)
    (hf : Function.Injective f) (v : β) (a : γ) :
    ∀ l : List γ, List.lookup (f a) (l.map fun q => (f q, v)) = if a ∈ l then some v else none
  | [] => by simp
  | q :: l => by
    rw [List.map_cons, List.lookup_cons, lookup_map_const f hf v a l]
    by_cases h : a = q
    · subst h; simp
    · have : (f a == f q) = false := by simpa using fun h' => h (hf h')
      simp [this, h]

theorem epochZero_value (names : List ℕ) (k : Key) : (epochZero names).value k = defaultValue names k := by
  cases k with
  | size p =>
    exact lookup_map_const (fun p => p) (fun _ _ h => h) (1 : ℚ) p names
  | mig a b =>
    simp only [Epoch.value, epochZero, defaultValue]
    have inner : ∀ p : ℕ, List.lookup (a, b) (names.map fun q => ((p, q), (0 : ℚ)))
        = if a = p ∧ b ∈ names then some 0 else none := by
      intro p
      by_cases hp : a = p
      · subst hp
        have := lookup_map_const (fun q => (a, q)) (fun _ _ h => (Prod.mk.inj h).2) (0 : ℚ) b names
        simpa using this
      · rw [List.lookup_eq_none_iff.2]
        · simp [hp]
        · intro x hx
          obtain ⟨q, _, rfl⟩ := List.mem_map.1 hx
          simp [hp]
    have outer : ∀ l : List ℕ, List.lookup (a, b)
        (l.flatMap fun p => names.map fun q => ((p, q), (0 : ℚ)))
        = if a ∈ l ∧ b ∈ names then some 0 else none := by
      intro l
      induction l with
      | nil => simp
      | cons p l ih =>
        rw [List.flatMap_cons, List.lookup_append, inner, ih]
        by_cases hp : a = p <;> by_cases hb : b ∈ names <;> by_cases hl : a ∈ l <;> simp [hp, hb, hl]
    exact outer names


/-! ## Part 5 — discrete events: flattening `apply` -/

/-- the timed changes of a discrete event, in the order in which `_apply` performs them. -/
def Event.changes : Event → List Change
  | .discrete ch => ch.flatMap fun c => c.2.map fun kv => (c.1, kv.1, kv.2)
  | _ => []

/-- all timed changes, in event order. -/
def allChanges (evs : List Event) : List Change := evs.flatMap Event.changes

/-- the change times of a discrete event or split (epoch boundaries to be). -/
def Event.times : Event → List ℚ
  | .discrete ch => ch.map (·.1)
  | .split t _ _ _ => [t]
  | .discretised _ => []

def changeTimes (evs : List Event) : List ℚ := evs.flatMap Event.times

def Event.IsDiscrete : Event → Prop
  | .discrete _ => True
  | _ => False

def Event.NotDiscretised : Event → Prop
  | .discretised _ => False
  | _ => True

theorem Event.IsDiscrete.notDiscretised {ev : Event} (h : ev.IsDiscrete) : ev.NotDiscretised := by
  cases ev <;> trivial

/-- the window test of `_apply`: `start ≤ time < stop`. -/
def inWindow (s : ℚ) (st : Option ℚ) (c : Change) : Bool := decide (s ≤ c.1 ∧ ltInf c.1 st = true)

theorem discrete_apply_flat (s : ℚ) (st : Option ℚ) :
    ∀ (ch : List (ℚ × List (Key × ℚ))) (e0 : Epoch),
    (ch.filter fun c => decide (s ≤ c.1 ∧ ltInf c.1 st = true)).foldl
        (fun e c => c.2.foldl (fun e kv => e.set kv.1 kv.2) e) e0
      = setAll ((ch.flatMap fun c => c.2.map fun kv => (c.1, kv.1, kv.2)).filter (inWindow s st)) e0
  | [], _ => rfl
  | c :: ch, e0 => by
    rw [List.flatMap_cons, List.filter_append, setAll_append]
    by_cases hp : s ≤ c.1 ∧ ltInf c.1 st = true
    · rw [List.filter_cons_of_pos (by simpa using hp), List.foldl_cons, discrete_apply_flat s st ch]
      congr 1
      rw [List.filter_eq_self.2 (by
        intro x hx
        obtain ⟨kv, _, rfl⟩ := List.mem_map.1 hx
        simpa [inWindow] using hp)]
      unfold setAll
      rw [List.foldl_map]
    · rw [List.filter_cons_of_neg (by simpa using hp), discrete_apply_flat s st ch]
      congr 1
      rw [List.filter_eq_nil_iff.2 (by
        intro x hx
        obtain ⟨kv, _, rfl⟩ := List.mem_map.1 hx
        simpa [inWindow] using hp)]
      rfl

theorem Event.apply_discrete (fe sp : Bool) (ev : Event) (hev : ev.IsDiscrete) (e : Epoch) :
    ev.apply fe sp e = setAll (ev.changes.filter (inWindow e.start e.stop)) e := by
  cases ev with
  | discrete ch => exact discrete_apply_flat e.start e.stop ch e
  | split t d a m => exact hev.elim
  | discretised parts => exact hev.elim

theorem setAll_start (cs : List Change) (e : Epoch) : (setAll cs e).start = e.start :=
  foldl_inv Epoch.start _ (fun _ _ => Epoch.set_start _ _ _) _ _
theorem setAll_stop (cs : List Change) (e : Epoch) : (setAll cs e).stop = e.stop :=
  foldl_inv Epoch.stop _ (fun _ _ => Epoch.set_stop _ _ _) _ _

theorem applyAll_discrete (fe sp : Bool) (s : ℚ) (st : Option ℚ) :
    ∀ (evs : List Event), (∀ ev ∈ evs, ev.IsDiscrete) → ∀ (e : Epoch), e.start = s → e.stop = st →
      applyAll fe sp evs e = setAll ((allChanges evs).filter (inWindow s st)) e
  | [], _, _, _, _ => rfl
  | ev :: evs, h, e, hs, hst => by
    change applyAll fe sp evs (ev.apply fe sp e) = _
    rw [Event.apply_discrete fe sp ev (h ev List.mem_cons_self) e, hs, hst,
      applyAll_discrete fe sp s st evs (fun ev' h' => h ev' (List.mem_cons_of_mem _ h')) _
        (by rw [setAll_start, hs]) (by rw [setAll_stop, hst])]
    unfold allChanges
    rw [List.flatMap_cons, List.filter_append, setAll_append]

theorem Epoch.value_congr {e e' : Epoch} (h1 : e.sizes = e'.sizes) (h2 : e.mig = e'.mig) (k : Key) :
    e.value k = e'.value k := by
  cases k <;> simp [Epoch.value, h1, h2]

theorem setAll_value_congr : ∀ (cs : List Change) (e e' : Epoch), (∀ k, e.value k = e'.value k) →
    ∀ k, (setAll cs e).value k = (setAll cs e').value k
  | [], _, _, h, k => h k
  | c :: cs, e, e', h, k =>
    setAll_value_congr cs (e.set c.2.1 c.2.2) (e'.set c.2.1 c.2.2)
      (fun k' => by rw [Epoch.value_set, Epoch.value_set, h]) k

/-- for discrete events only, the values of the next epoch are those of the previous one updated by
the changes inside the new window, in event order. -/
theorem nextEpoch_value (o : DemoOpts) (evs : List Event) (hd : ∀ ev ∈ evs, ev.IsDiscrete)
    (prev : Epoch) (k : Key) :
    (nextEpoch o evs prev).value k =
      (setAll ((allChanges evs).filter
        (inWindow (nextEpoch o evs prev).start (nextEpoch o evs prev).stop)) prev).value k := by
  have h1 := nextEpoch_eq o evs prev
  set eb := broadcastAll o.fixedBroadcast evs
        { start := prev.stop.getD 0, stop := none, sizes := prev.sizes, mig := prev.mig } with heb
  have hs : eb.start = (nextEpoch o evs prev).start := by rw [h1, applyAll_start]
  have hst : eb.stop = (nextEpoch o evs prev).stop := by rw [h1, applyAll_stop]
  have h2 := applyAll_discrete o.fixedWindowEnd o.splitSpec _ _ evs hd eb hs hst
  rw [← h1] at h2
  generalize (allChanges evs).filter
        (inWindow (nextEpoch o evs prev).start (nextEpoch o evs prev).stop) = cs at h2 ⊢
  rw [h2]
  have hv : ∀ k, eb.value k = prev.value k := fun k =>
    Epoch.value_congr (by rw [heb, broadcastAll_sizes]) (by rw [heb, broadcastAll_mig]) k
  exact setAll_value_congr cs eb prev hv k


/-! ## Part 6 — discrete events and splits: the stop chosen by `broadcast` -/

/-- every positive time of `T` after the start of `e` is at or after its stop
(no time of `T` lies strictly inside `e`). -/
def Epoch.Bounded (e : Epoch) (T : List ℚ) : Prop :=
  ∀ t ∈ T, 0 < t → e.start < t → ∃ s, e.stop = some s ∧ s ≤ t

/-- a finite stop is one of the times `T`. -/
def Epoch.StopIn (e : Epoch) (T : List ℚ) : Prop := ∀ s, e.stop = some s → s ∈ T

theorem broadcastDiscrete_le (ts : List ℚ) (e : Epoch) (s : ℚ) (hs : e.stop = some s) :
    ∃ s', (broadcastDiscrete ts e).stop = some s' ∧ s' ≤ s := by
  rcases broadcastDiscrete_cases ts e with ⟨_, h2⟩ | ⟨t, rest, h1, h2⟩
  · rw [h2]; exact ⟨s, hs, le_rfl⟩
  · rw [h2]
    refine ⟨t, rfl, ?_⟩
    have hm : t ∈ ts.filter (fun t => e.start < t ∧ leInf t e.stop ∧ t > 0) := by
      rw [h1]; exact List.mem_cons_self
    have := (List.mem_filter.1 hm).2
    simp only [decide_eq_true_eq] at this
    have h3 := this.2.1
    rw [hs, leInf_some] at h3
    exact h3

theorem broadcastDiscrete_bounded_mono (ts T : List ℚ) (e : Epoch) (h : e.Bounded T) :
    (broadcastDiscrete ts e).Bounded T := by
  intro t ht h0 hst
  rw [broadcastDiscrete_start] at hst
  obtain ⟨s, hs, hle⟩ := h t ht h0 hst
  obtain ⟨s', hs', hle'⟩ := broadcastDiscrete_le ts e s hs
  exact ⟨s', hs', le_trans hle' hle⟩

theorem broadcastDiscrete_bounded_self (ts : List ℚ) (hsorted : ts.Pairwise (· ≤ ·)) (e : Epoch) :
    (broadcastDiscrete ts e).Bounded ts := by
  intro t ht h0 hst
  rw [broadcastDiscrete_start] at hst
  by_cases hle : leInf t e.stop = true
  · have hm : t ∈ ts.filter (fun t => e.start < t ∧ leInf t e.stop ∧ t > 0) :=
      List.mem_filter.2 ⟨ht, by simpa using ⟨hst, hle, h0⟩⟩
    rcases broadcastDiscrete_cases ts e with ⟨h1, _⟩ | ⟨t0, rest, h1, h2⟩
    · rw [h1] at hm; simp at hm
    · rw [h2]
      refine ⟨t0, rfl, ?_⟩
      have hsf : (ts.filter (fun t => e.start < t ∧ leInf t e.stop ∧ t > 0)).Pairwise (· ≤ ·) :=
        hsorted.sublist List.filter_sublist
      rw [h1] at hsf hm
      rcases List.mem_cons.1 hm with rfl | hm
      · exact le_rfl
      · exact (List.pairwise_cons.1 hsf).1 t hm
  · cases hs : e.stop with
    | none => rw [hs] at hle; exact absurd leInf_none hle
    | some s =>
      rw [hs, leInf_some] at hle
      obtain ⟨s', hs', hle'⟩ := broadcastDiscrete_le ts e s hs
      exact ⟨s', hs', by linarith⟩

theorem broadcastDiscrete_stopIn (ts T : List ℚ) (e : Epoch) (h : e.StopIn T) :
    (broadcastDiscrete ts e).StopIn (T ++ ts) := by
  intro s hs
  rcases broadcastDiscrete_cases ts e with ⟨_, h2⟩ | ⟨t, rest, h1, h2⟩
  · rw [h2] at hs; exact List.mem_append_left _ (h s hs)
  · rw [h2] at hs
    have hm : t ∈ ts.filter (fun t => e.start < t ∧ leInf t e.stop ∧ t > 0) := by
      rw [h1]; exact List.mem_cons_self
    have : s = t := by simpa using hs.symm
    rw [this]
    exact List.mem_append_right _ (List.mem_filter.1 hm).1

theorem Event.broadcast_eq_times (f : Bool) (ev : Event) (h : ev.NotDiscretised) (e : Epoch) :
    ev.broadcast f e = broadcastDiscrete ev.times e := by
  cases ev with
  | discrete ch => rfl
  | split t d a m => rfl
  | discretised parts => exact h.elim

theorem Event.WF.times_sorted {ev : Event} (h : ev.WF) : ev.times.Pairwise (· ≤ ·) := by
  cases ev with
  | discrete ch => exact h.2.imp le_of_lt
  | split t d a m => exact List.pairwise_singleton _ _
  | discretised parts => exact List.Pairwise.nil

theorem broadcastAll_bounded (f : Bool) : ∀ (evs : List Event), (∀ ev ∈ evs, ev.NotDiscretised) →
    (∀ ev ∈ evs, ev.WF) → ∀ (e : Epoch) (T : List ℚ), e.Bounded T →
    (broadcastAll f evs e).Bounded (T ++ changeTimes evs)
  | [], _, _, e, T, h => by simpa [changeTimes, broadcastAll] using h
  | ev :: evs, hd, hwf, e, T, h => by
    change (broadcastAll f evs (ev.broadcast f e)).Bounded _
    have := broadcastAll_bounded f evs (fun ev' h' => hd ev' (List.mem_cons_of_mem _ h'))
      (fun ev' h' => hwf ev' (List.mem_cons_of_mem _ h')) (ev.broadcast f e) (T ++ ev.times) (by
        rw [Event.broadcast_eq_times f ev (hd ev List.mem_cons_self)]
        intro t ht
        rcases List.mem_append.1 ht with ht | ht
        · exact broadcastDiscrete_bounded_mono _ T e h t ht
        · exact broadcastDiscrete_bounded_self _ (hwf ev List.mem_cons_self).times_sorted e t ht)
    simpa [changeTimes, List.append_assoc] using this

theorem broadcastAll_stopIn (f : Bool) : ∀ (evs : List Event), (∀ ev ∈ evs, ev.NotDiscretised) →
    ∀ (e : Epoch) (T : List ℚ), e.StopIn T → (broadcastAll f evs e).StopIn (T ++ changeTimes evs)
  | [], _, e, T, h => by simpa [changeTimes, broadcastAll] using h
  | ev :: evs, hd, e, T, h => by
    change (broadcastAll f evs (ev.broadcast f e)).StopIn _
    have := broadcastAll_stopIn f evs (fun ev' h' => hd ev' (List.mem_cons_of_mem _ h'))
      (ev.broadcast f e) (T ++ ev.times) (by
        rw [Event.broadcast_eq_times f ev (hd ev List.mem_cons_self)]
        exact broadcastDiscrete_stopIn _ T e h)
    simpa [changeTimes, List.append_assoc] using this

/-- no positive change time lies strictly inside a generated epoch. -/
theorem nextEpoch_bounded (o : DemoOpts) (evs : List Event) (hd : ∀ ev ∈ evs, ev.NotDiscretised)
    (hwf : ∀ ev ∈ evs, ev.WF) (prev : Epoch) : (nextEpoch o evs prev).Bounded (changeTimes evs) := by
  have := broadcastAll_bounded o.fixedBroadcast evs hd hwf
    { start := prev.stop.getD 0, stop := none, sizes := prev.sizes, mig := prev.mig } []
    (fun t ht => by simp at ht)
  intro t ht h0 hst
  rw [nextEpoch_start] at hst
  rw [nextEpoch_stop]
  exact this t (by simpa using ht) h0 (by rw [broadcastAll_start]; exact hst)

/-- a finite stop of a generated epoch is a change time. -/
theorem nextEpoch_stopIn (o : DemoOpts) (evs : List Event) (hd : ∀ ev ∈ evs, ev.NotDiscretised)
    (prev : Epoch) : (nextEpoch o evs prev).StopIn (changeTimes evs) := by
  have := broadcastAll_stopIn o.fixedBroadcast evs hd
    { start := prev.stop.getD 0, stop := none, sizes := prev.sizes, mig := prev.mig } []
    (fun s hs => by simp at hs)
  intro s hs
  rw [nextEpoch_stop] at hs
  simpa using this s hs


/-! ## Part 7 — boundaries and termination (discrete events and splits) -/

theorem Event.NotDiscretised.stepsPos {ev : Event} (h : ev.NotDiscretised) : ev.StepsPos := by
  cases ev with
  | discrete ch => trivial
  | split t d a m => trivial
  | discretised parts => exact h.elim

/-- number of change times after `s`. -/
def remaining (T : List ℚ) (s : ℚ) : ℕ := T.countP fun t => decide (s < t)

theorem remaining_lt {T : List ℚ} {s s' : ℚ} (hmem : s' ∈ T) (h : s < s') :
    remaining T s' < remaining T s := by
  obtain ⟨l1, l2, rfl⟩ := List.append_of_mem hmem
  unfold remaining
  have hm : ∀ l : List ℚ, l.countP (fun t => decide (s' < t)) ≤ l.countP (fun t => decide (s < t)) :=
    fun l => List.countP_mono_left (fun x _ hx => by
      simp only [decide_eq_true_eq] at hx ⊢; exact lt_trans h hx)
  have h1 := hm l1
  have h2 := hm l2
  simp only [List.countP_append, List.countP_cons, lt_self_iff_false, decide_false, h, decide_true]
  simp only [Bool.false_eq_true, if_false, if_true]
  omega

theorem remaining_le_length (T : List ℚ) (s : ℚ) : remaining T s ≤ T.length := List.countP_le_length

/-- the generator reaches an infinite epoch once the requested count exceeds the number of change
times still ahead. -/
theorem epochsFrom_ends (o : DemoOpts) (evs : List Event) (hd : ∀ ev ∈ evs, ev.NotDiscretised) :
    ∀ (n : ℕ) (prev : Epoch) (s : ℚ), prev.stop = some s → remaining (changeTimes evs) s < n →
      ∃ e ∈ epochsFrom o evs n prev, e.stop = none
  | 0, _, _, _, h => by omega
  | n + 1, prev, s, hs, h => by
    cases hs' : (nextEpoch o evs prev).stop with
    | none =>
      rw [epochsFrom_succ_none o evs n prev hs']
      exact ⟨_, List.mem_singleton.2 rfl, hs'⟩
    | some s' =>
      rw [epochsFrom_succ_some o evs n prev s' hs']
      have hmem := nextEpoch_stopIn o evs hd prev s' hs'
      have hp := nextEpoch_proper o evs (fun ev h => (hd ev h).stepsPos) prev
      unfold Epoch.Proper at hp
      rw [hs', nextEpoch_start, hs, Option.getD_some, ltInf_some] at hp
      have hlt := remaining_lt hmem hp
      obtain ⟨e, he, hn⟩ := epochsFrom_ends o evs hd n (nextEpoch o evs prev) s' hs' (by omega)
      exact ⟨e, List.mem_cons_of_mem _ he, hn⟩

theorem changeTimes_perm {es es' : List Event} (h : es.Perm es') :
    (changeTimes es).Perm (changeTimes es') := h.flatMap_right _

theorem allChanges_perm {es es' : List Event} (h : es.Perm es') :
    (allChanges es).Perm (allChanges es') := h.flatMap_right _

/-- every start of a generated epoch is `0` or a positive change time. -/
theorem epochsFrom_start_mem (o : DemoOpts) (evs : List Event) (hd : ∀ ev ∈ evs, ev.NotDiscretised)
    (n : ℕ) : ∀ e ∈ epochsFrom o evs n (epochZero (popNames evs)),
      e.start = 0 ∨ (e.start ∈ changeTimes evs ∧ 0 < e.start) := by
  let P : Epoch → Prop := fun e =>
    (e.start = 0 ∨ (e.start ∈ changeTimes evs ∧ 0 < e.start)) ∧
    ∀ s, e.stop = some s → s = 0 ∨ (s ∈ changeTimes evs ∧ 0 < s)
  have := epochsFrom_ind o evs P (fun prev s hs hp => by
    have hst : (nextEpoch o evs prev).start = s := by rw [nextEpoch_start, hs]; rfl
    refine ⟨by rw [hst]; exact hp.2 s hs, fun s' hs' => Or.inr ?_⟩
    have hmem := nextEpoch_stopIn o evs hd prev s' hs'
    have hpr := nextEpoch_proper o evs (fun ev h => (hd ev h).stepsPos) prev
    unfold Epoch.Proper at hpr
    rw [hs', hst, ltInf_some] at hpr
    refine ⟨hmem, ?_⟩
    rcases hp.2 s hs with h0 | h0
    · rw [h0] at hpr; exact hpr
    · exact lt_trans h0.2 hpr) n (epochZero (popNames evs)) 0 rfl
    ⟨Or.inl rfl, fun s hs => Or.inl (by simpa [epochZero] using hs.symm)⟩
  exact fun e he => (this e he).1

/-- **Boundaries.** For discrete events and population splits (well-formed), once `count` exceeds
the number of change times the schedule ends with an infinite epoch, tiles `[0, ∞)`, and every
positive change time is the start of an epoch; conversely every epoch start is `0` or a positive
change time. -/
theorem change_time_is_boundary (o : DemoOpts) (events : List Event)
    (hd : ∀ ev ∈ events, ev.NotDiscretised) (hwf : ∀ ev ∈ events, ev.WF) (count : ℕ)
    (hcount : (changeTimes events).length < count) :
    (∃ e ∈ epochsUpTo o events count, e.stop = none) ∧
    Tiled (epochsUpTo o events count) ∧
    (∀ t ∈ changeTimes events, 0 < t → ∃ e ∈ epochsUpTo o events count, e.start = t) ∧
    (∀ e ∈ epochsUpTo o events count, e.start = 0 ∨ (e.start ∈ changeTimes events ∧ 0 < e.start)) := by
  have hperm := sortEvents_perm events
  have hd' : ∀ ev ∈ sortEvents events, ev.NotDiscretised := fun ev h => hd ev (hperm.subset h)
  have hwf' : ∀ ev ∈ sortEvents events, ev.WF := fun ev h => hwf ev (hperm.subset h)
  have hct := changeTimes_perm hperm
  have hinf : ∃ e ∈ epochsUpTo o events count, e.stop = none :=
    epochsFrom_ends o _ hd' count _ 0 rfl (lt_of_le_of_lt (remaining_le_length _ _)
      (by rw [hct.length_eq]; exact hcount))
  have htiled : Tiled (epochsUpTo o events count) :=
    epochs_WF o events (fun ev h => (hd ev h).stepsPos) count hinf
  refine ⟨hinf, htiled, fun t ht h0 => ?_, fun e he => ?_⟩
  · obtain ⟨e, he, hc⟩ := htiled.exists_contains h0.le
    refine ⟨e, he, ?_⟩
    obtain ⟨p, rfl⟩ := epochsFrom_mem_next _ _ _ _ e he
    by_contra hne
    have hlt : (nextEpoch o (sortEvents events) p).start < t := lt_of_le_of_ne hc.1 hne
    obtain ⟨s, hs, hle⟩ := nextEpoch_bounded o _ hd' hwf' p t (hct.symm.subset ht) h0 hlt
    have := hc.2
    rw [hs, ltInf_some] at this
    linarith
  · rcases epochsFrom_start_mem o _ hd' count e he with h | h
    · exact Or.inl h
    · exact Or.inr ⟨hct.subset h.1, h.2⟩


/-! ## Part 8 — the value in force (discrete events) -/

/-- `c = cs[i]` is the last change to key `k` among the changes whose time satisfies `P`, in the
order "ascending time, ties resolved by position in `cs`" (later position wins). -/
def LastChange (cs : List Change) (k : Key) (P : ℚ → Prop) (i : ℕ) (c : Change) : Prop :=
  cs[i]? = some c ∧ c.2.1 = k ∧ P c.1 ∧
  ∀ (j : ℕ) (c' : Change), cs[j]? = some c' → c'.2.1 = k → P c'.1 →
    c'.1 < c.1 ∨ (c'.1 = c.1 ∧ j ≤ i)

/-- the values `val` are those specified by the changes `cs` whose time satisfies `P`: the value of
the last such change to the key, the default if there is none. -/
def ValSpec (cs : List Change) (names : List ℕ) (P : ℚ → Prop) (val : Key → Option ℚ) : Prop :=
  ∀ k, (∀ i c, LastChange cs k P i c → val k = some c.2.2) ∧
    ((∀ c ∈ cs, c.2.1 = k → ¬ P c.1) → val k = defaultValue names k)

theorem LastChange.congr {cs : List Change} {k : Key} {P Q : ℚ → Prop} {i : ℕ} {c : Change}
    (hPQ : ∀ c ∈ cs, P c.1 ↔ Q c.1) (h : LastChange cs k P i c) : LastChange cs k Q i c := by
  obtain ⟨h1, h2, h3, h4⟩ := h
  refine ⟨h1, h2, (hPQ c (List.mem_of_getElem? h1)).1 h3, fun j c' hj hk hq => ?_⟩
  exact h4 j c' hj hk ((hPQ c' (List.mem_of_getElem? hj)).2 hq)

theorem ValSpec.congr {cs : List Change} {names : List ℕ} {P Q : ℚ → Prop} {val : Key → Option ℚ}
    (hPQ : ∀ c ∈ cs, P c.1 ↔ Q c.1) (h : ValSpec cs names P val) : ValSpec cs names Q val := by
  intro k
  refine ⟨fun i c hl => (h k).1 i c (hl.congr fun c hc => (hPQ c hc).symm), fun hn => (h k).2 ?_⟩
  exact fun c hc hk hp => hn c hc hk ((hPQ c hc).1 hp)

theorem mem_changes_time {ev : Event} {c : Change} (h : c ∈ ev.changes) : c.1 ∈ ev.times := by
  cases ev with
  | discrete ch =>
    simp only [Event.changes, List.mem_flatMap, List.mem_map] at h
    obtain ⟨x, hx, kv, _, rfl⟩ := h
    exact List.mem_map.2 ⟨x, hx, rfl⟩
  | split t d a m => simp [Event.changes] at h
  | discretised parts => simp [Event.changes] at h

theorem mem_allChanges_time {evs : List Event} {c : Change} (h : c ∈ allChanges evs) :
    c.1 ∈ changeTimes evs := by
  obtain ⟨ev, hev, hc⟩ := List.mem_flatMap.1 h
  exact List.mem_flatMap.2 ⟨ev, hev, mem_changes_time hc⟩

theorem mem_changeTimes_nonneg {evs : List Event} (hwf : ∀ ev ∈ evs, ev.WF) {t : ℚ}
    (h : t ∈ changeTimes evs) : 0 ≤ t := by
  obtain ⟨ev, hev, ht⟩ := List.mem_flatMap.1 h
  have hw := hwf ev hev
  cases ev with
  | discrete ch =>
    obtain ⟨x, hx, rfl⟩ := List.mem_map.1 ht
    exact hw.1 x hx
  | split t' d a m =>
    simp only [Event.times, List.mem_singleton] at ht
    rw [ht]; exact hw
  | discretised parts => simp [Event.times] at ht

/-- one step of the generator preserves "the values are those specified by all changes before the
stop". -/
theorem nextEpoch_valSpec (o : DemoOpts) (evs : List Event) (hd : ∀ ev ∈ evs, ev.IsDiscrete)
    (hwf : ∀ ev ∈ evs, ev.WF) (names : List ℕ) (prev : Epoch) (s : ℚ) (hs : prev.stop = some s)
    (h0 : 0 ≤ s)
    (hprev : ValSpec (allChanges evs) names (fun t => ltInf t prev.stop = true) prev.value) :
    ValSpec (allChanges evs) names (fun t => ltInf t (nextEpoch o evs prev).stop = true)
      (nextEpoch o evs prev).value := by
  have hnd : ∀ ev ∈ evs, ev.NotDiscretised := fun ev h => (hd ev h).notDiscretised
  set e' := nextEpoch o evs prev with he'
  set cs := allChanges evs with hcs
  have hst : e'.start = s := by rw [he', nextEpoch_start, hs]; rfl
  have hproper : ltInf s e'.stop = true := by
    have := nextEpoch_proper o evs (fun ev h => (hnd ev h).stepsPos) prev
    unfold Epoch.Proper at this
    rw [← he', hst] at this
    exact this
  have hbd := nextEpoch_bounded o evs hnd hwf prev
  rw [← he'] at hbd
  -- a change before the new stop is before or at the new start
  have hA : ∀ c ∈ cs, ltInf c.1 e'.stop = true → c.1 < s ∨ c.1 = s := by
    intro c hc hlt
    by_contra hcon
    have hgt : s < c.1 := by
      rcases lt_trichotomy c.1 s with h | h | h
      · exact absurd (Or.inl h) hcon
      · exact absurd (Or.inr h) hcon
      · exact h
    obtain ⟨x, hx, hle⟩ := hbd c.1 (mem_allChanges_time hc) (lt_of_le_of_lt h0 hgt)
      (by rw [hst]; exact hgt)
    rw [hx, ltInf_some] at hlt
    linarith
  have hB : ∀ t : ℚ, t ≤ s → ltInf t e'.stop = true := by
    intro t ht
    cases hx : e'.stop with
    | none => rfl
    | some x =>
      rw [hx] at hproper
      rw [ltInf_some] at hproper ⊢
      linarith
  -- the window of the new epoch holds exactly the changes at its start
  have hW : ∀ c ∈ cs, (inWindow e'.start e'.stop c = true ↔ c.1 = s) := by
    intro c hc
    simp only [inWindow, decide_eq_true_eq, hst]
    constructor
    · rintro ⟨h1, h2⟩
      rcases hA c hc h2 with h | h
      · linarith
      · exact h
    · intro h; exact ⟨h.ge, hB _ h.le⟩
  have hval := nextEpoch_value o evs hd prev
  rw [← he', ← hcs] at hval
  have hPprev : ∀ t : ℚ, (ltInf t prev.stop = true) ↔ t < s := by
    intro t; rw [hs, ltInf_some]
  intro k
  rw [hval k]
  constructor
  · intro i c hl
    obtain ⟨hi, hk, hP, hdom⟩ := hl
    have hmem : c ∈ cs := List.mem_of_getElem? hi
    rcases hA c hmem hP with hlt | heq
    · -- the last change is older: nothing in the window touches `k`
      have hnone : ∀ c' ∈ cs.filter (inWindow e'.start e'.stop), c'.2.1 ≠ k := by
        intro c' hc' hk'
        obtain ⟨hm', hw'⟩ := List.mem_filter.1 hc'
        have ht' := (hW c' hm').1 hw'
        obtain ⟨j, hj⟩ := List.getElem?_of_mem hm'
        rcases hdom j c' hj hk' (hB _ ht'.le) with h | h
        · linarith
        · linarith [h.1]
      rw [setAll_value_none k _ _ hnone]
      refine (hprev k).1 i c ⟨hi, hk, (hPprev _).2 hlt, fun j c' hj hk' hp' => ?_⟩
      exact hdom j c' hj hk' (hB _ ((hPprev _).1 hp').le)
    · -- the last change is in the window, and last there
      obtain ⟨hilt, hget⟩ := List.getElem?_eq_some_iff.1 hi
      have hsplit : cs = cs.take i ++ c :: cs.drop (i + 1) := by
        rw [← hget]; simp
      have hwc : inWindow e'.start e'.stop c = true := (hW c hmem).2 heq
      have hfil : cs.filter (inWindow e'.start e'.stop)
          = (cs.take i).filter (inWindow e'.start e'.stop)
            ++ c :: (cs.drop (i + 1)).filter (inWindow e'.start e'.stop) := by
        conv_lhs => rw [hsplit]
        rw [List.filter_append, List.filter_cons_of_pos hwc]
      rw [hfil, ← hk]
      apply setAll_value_last
      intro c' hc' hk'
      obtain ⟨hm', hw'⟩ := List.mem_filter.1 hc'
      obtain ⟨j, hj⟩ := List.getElem?_of_mem hm'
      rw [List.getElem?_drop] at hj
      have hm'' : c' ∈ cs := List.mem_of_getElem? hj
      have ht' := (hW c' hm'').1 hw'
      rcases hdom (i + 1 + j) c' hj (hk'.trans hk) (hB _ ht'.le) with h | h
      · linarith
      · omega
  · intro hn
    have hnone : ∀ c' ∈ cs.filter (inWindow e'.start e'.stop), c'.2.1 ≠ k := by
      intro c' hc' hk'
      obtain ⟨hm', hw'⟩ := List.mem_filter.1 hc'
      exact hn c' hm' hk' (hB _ ((hW c' hm').1 hw').le)
    rw [setAll_value_none k _ _ hnone]
    exact (hprev k).2 fun c hc hk hp => hn c hc hk (hB _ ((hPprev _).1 hp).le)


theorem epochZero_valSpec (evs : List Event) (hwf : ∀ ev ∈ evs, ev.WF) (names : List ℕ) :
    ValSpec (allChanges evs) names (fun t => ltInf t (epochZero names).stop = true)
      (epochZero names).value := by
  intro k
  refine ⟨fun i c hl => ?_, fun _ => epochZero_value names k⟩
  obtain ⟨hi, _, hP, _⟩ := hl
  have h0 := mem_changeTimes_nonneg hwf (mem_allChanges_time (List.mem_of_getElem? hi))
  have : c.1 < 0 := by simpa [epochZero, ltInf] using hP
  linarith

/-- the invariant of the generator for discrete events. -/
theorem epochsFrom_valSpec (o : DemoOpts) (evs : List Event) (hd : ∀ ev ∈ evs, ev.IsDiscrete)
    (hwf : ∀ ev ∈ evs, ev.WF) (names : List ℕ) (n : ℕ) :
    ∀ e ∈ epochsFrom o evs n (epochZero names), 0 ≤ e.start ∧
      ValSpec (allChanges evs) names (fun t => ltInf t e.stop = true) e.value := by
  let P : Epoch → Prop := fun e => 0 ≤ e.start ∧ (∀ s, e.stop = some s → 0 ≤ s) ∧
      ValSpec (allChanges evs) names (fun t => ltInf t e.stop = true) e.value
  have := epochsFrom_ind o evs P (fun prev s hs hp => by
    have hst : (nextEpoch o evs prev).start = s := by rw [nextEpoch_start, hs]; rfl
    have h0 : 0 ≤ s := hp.2.1 s hs
    refine ⟨by rw [hst]; exact h0, fun s' hs' => ?_,
      nextEpoch_valSpec o evs hd hwf names prev s hs h0 hp.2.2⟩
    have hpr := nextEpoch_proper o evs (fun ev h => (hd ev h).notDiscretised.stepsPos) prev
    unfold Epoch.Proper at hpr
    rw [hs', hst, ltInf_some] at hpr
    linarith) n (epochZero names) 0 rfl
    ⟨le_rfl, fun s hs => by
      have : s = 0 := by simpa [epochZero] using hs.symm
      rw [this], epochZero_valSpec evs hwf names⟩
  exact fun e he => ⟨(this e he).1, (this e he).2.2⟩

/-- **Value in force** (any number of discrete events, well-formed). In every epoch `e` of the
schedule and at every time `t` of that epoch, the value of every key `k` is the value of the last
change to `k` with time `≤ t` — last in the order "ascending time, ties between events resolved by
the (stable) event order, later wins" — and the default (size 1, rate 0) if there is none. -/
theorem value_in_force (o : DemoOpts) (events : List Event) (hd : ∀ ev ∈ events, ev.IsDiscrete)
    (hwf : ∀ ev ∈ events, ev.WF) (count : ℕ) (e : Epoch) (he : e ∈ epochsUpTo o events count)
    (t : ℚ) (h1 : e.start ≤ t) (h2 : ltInf t e.stop = true) :
    ValSpec (allChanges (sortEvents events)) (popNames (sortEvents events)) (fun u => u ≤ t)
      e.value := by
  have hperm := sortEvents_perm events
  have hd' : ∀ ev ∈ sortEvents events, ev.IsDiscrete := fun ev h => hd ev (hperm.subset h)
  have hwf' : ∀ ev ∈ sortEvents events, ev.WF := fun ev h => hwf ev (hperm.subset h)
  obtain ⟨h0, hv⟩ := epochsFrom_valSpec o _ hd' hwf' _ count e he
  refine hv.congr fun c hc => ?_
  obtain ⟨p, hp⟩ := epochsFrom_mem_next _ _ _ _ e he
  have hbd := nextEpoch_bounded o _ (fun ev h => (hd' ev h).notDiscretised) hwf' p
  rw [← hp] at hbd
  constructor
  · intro hlt
    by_contra hcon
    have hgt : e.start < c.1 := by linarith [not_le.1 hcon]
    obtain ⟨x, hx, hle⟩ := hbd c.1 (mem_allChanges_time hc) (lt_of_le_of_lt h0 hgt) hgt
    rw [hx, ltInf_some] at hlt
    linarith
  · intro hle
    cases hx : e.stop with
    | none => rfl
    | some x =>
      rw [hx] at h2
      rw [ltInf_some] at h2 ⊢
      linarith

/-! ### the same with a computable specification -/

/-- position and content of the last change to `k` at or before `t` (latest time; among equal times
the later position). -/
def lastChange? (k : Key) (t : ℚ) : List Change → Option (ℕ × Change)
  | [] => none
  | c :: cs =>
    match lastChange? k t cs with
    | some (i, b) => if c.2.1 = k ∧ c.1 ≤ t ∧ b.1 < c.1 then some (0, c) else some (i + 1, b)
    | none => if c.2.1 = k ∧ c.1 ≤ t then some (0, c) else none

/-- the specified value of key `k` at time `t`. -/
def specValue (cs : List Change) (names : List ℕ) (k : Key) (t : ℚ) : Option ℚ :=
  match lastChange? k t cs with
  | some (_, c) => some c.2.2
  | none => defaultValue names k

theorem lastChange?_none (k : Key) (t : ℚ) : ∀ cs : List Change, lastChange? k t cs = none →
    ∀ c ∈ cs, c.2.1 = k → ¬ c.1 ≤ t
  | [], _, c, hc, _ => by simp at hc
  | c0 :: cs, h, c, hc, hk => by
    unfold lastChange? at h
    cases hr : lastChange? k t cs with
    | some ib =>
      rw [hr] at h
      obtain ⟨i, b⟩ := ib
      dsimp only at h
      split_ifs at h
    | none =>
      rw [hr] at h
      dsimp only at h
      split_ifs at h with hcond
      rcases List.mem_cons.1 hc with rfl | hc
      · exact fun hle => hcond ⟨hk, hle⟩
      · exact lastChange?_none k t cs hr c hc hk

theorem lastChange?_some (k : Key) (t : ℚ) : ∀ (cs : List Change) (i : ℕ) (b : Change),
    lastChange? k t cs = some (i, b) → LastChange cs k (fun u => u ≤ t) i b
  | [], _, _, h => by simp [lastChange?] at h
  | c0 :: cs, i, b, h => by
    unfold lastChange? at h
    cases hr : lastChange? k t cs with
    | some ib =>
      rw [hr] at h
      obtain ⟨i', b'⟩ := ib
      obtain ⟨g1, g2, g3, g4⟩ := lastChange?_some k t cs i' b' hr
      dsimp only at h
      split_ifs at h with hcond
      · simp only [Option.some.injEq, Prod.mk.injEq] at h
        obtain ⟨rfl, rfl⟩ := h
        refine ⟨rfl, hcond.1, hcond.2.1, fun j c' hj hk' hp' => ?_⟩
        cases j with
        | zero =>
          simp only [List.getElem?_cons_zero, Option.some.injEq] at hj
          rw [← hj]; exact Or.inr ⟨rfl, le_rfl⟩
        | succ j =>
          rw [List.getElem?_cons_succ] at hj
          rcases g4 j c' hj hk' hp' with h' | h'
          · exact Or.inl (lt_trans h' hcond.2.2)
          · exact Or.inl (by rw [h'.1]; exact hcond.2.2)
      · simp only [Option.some.injEq, Prod.mk.injEq] at h
        obtain ⟨rfl, rfl⟩ := h
        refine ⟨by rw [List.getElem?_cons_succ]; exact g1, g2, g3, fun j c' hj hk' hp' => ?_⟩
        cases j with
        | zero =>
          simp only [List.getElem?_cons_zero, Option.some.injEq] at hj
          subst hj
          have : ¬ b'.1 < c0.1 := fun hlt => hcond ⟨hk', hp', hlt⟩
          rcases lt_or_eq_of_le (not_lt.1 this) with h' | h'
          · exact Or.inl h'
          · exact Or.inr ⟨h', Nat.zero_le _⟩
        | succ j =>
          rw [List.getElem?_cons_succ] at hj
          rcases g4 j c' hj hk' hp' with h' | h'
          · exact Or.inl h'
          · exact Or.inr ⟨h'.1, Nat.succ_le_succ h'.2⟩
    | none =>
      rw [hr] at h
      dsimp only at h
      split_ifs at h with hcond
      simp only [Option.some.injEq, Prod.mk.injEq] at h
      obtain ⟨rfl, rfl⟩ := h
      refine ⟨rfl, hcond.1, hcond.2, fun j c' hj hk' hp' => ?_⟩
      cases j with
      | zero =>
        simp only [List.getElem?_cons_zero, Option.some.injEq] at hj
        rw [← hj]; exact Or.inr ⟨rfl, le_rfl⟩
      | succ j =>
        rw [List.getElem?_cons_succ] at hj
        exact absurd hp' (lastChange?_none k t cs hr c' (List.mem_of_getElem? hj) hk')

theorem ValSpec.eq_specValue {cs : List Change} {names : List ℕ} {t : ℚ} {val : Key → Option ℚ}
    (h : ValSpec cs names (fun u => u ≤ t) val) (k : Key) : val k = specValue cs names k t := by
  unfold specValue
  cases hr : lastChange? k t cs with
  | some ib =>
    obtain ⟨i, b⟩ := ib
    exact (h k).1 i b (lastChange?_some k t cs i b hr)
  | none => exact (h k).2 (lastChange?_none k t cs hr)

/-- **Value in force**, functional form: the value of `k` throughout the epoch is
`specValue (all changes, in stable event order) k t`. -/
theorem value_in_force' (o : DemoOpts) (events : List Event) (hd : ∀ ev ∈ events, ev.IsDiscrete)
    (hwf : ∀ ev ∈ events, ev.WF) (count : ℕ) (e : Epoch) (he : e ∈ epochsUpTo o events count)
    (t : ℚ) (h1 : e.start ≤ t) (h2 : ltInf t e.stop = true) (k : Key) :
    e.value k = specValue (allChanges (sortEvents events)) (popNames (sortEvents events)) k t :=
  (value_in_force o events hd hwf count e he t h1 h2).eq_specValue k


/-! ## Part 9 — order independence -/

theorem insertEvent_sorted (e : Event) : ∀ l : List Event,
    l.Pairwise (fun a b => a.startTime ≤ b.startTime) →
    (insertEvent e l).Pairwise (fun a b => a.startTime ≤ b.startTime)
  | [], _ => List.pairwise_singleton _ _
  | y :: ys, h => by
    unfold insertEvent
    split_ifs with hle
    · refine List.Pairwise.cons (fun b hb => ?_) h
      rcases List.mem_cons.1 hb with rfl | hb
      · exact hle
      · exact le_trans hle ((List.pairwise_cons.1 h).1 b hb)
    · refine List.Pairwise.cons (fun b hb => ?_)
        (insertEvent_sorted e ys (List.pairwise_cons.1 h).2)
      rcases List.mem_cons.1 ((insertEvent_perm e ys).subset hb) with rfl | hb
      · exact (not_le.1 hle).le
      · exact (List.pairwise_cons.1 h).1 b hb

/-- `sortEvents` sorts by start time. -/
theorem sortEvents_sorted : ∀ es : List Event,
    (sortEvents es).Pairwise (fun a b => a.startTime ≤ b.startTime)
  | [] => List.Pairwise.nil
  | e :: es => insertEvent_sorted e _ (sortEvents_sorted es)

/-- **Order independence (distinct start times).** If no two events share a start time, the sorted
event list — hence the whole schedule, values included — does not depend on the order in which the
events were given. -/
theorem sortEvents_eq_of_perm {es es' : List Event} (h : es.Perm es')
    (hinj : ∀ a ∈ es, ∀ b ∈ es, a.startTime = b.startTime → a = b) :
    sortEvents es = sortEvents es' := by
  have hp : (sortEvents es).Perm (sortEvents es') :=
    (sortEvents_perm es).trans (h.trans (sortEvents_perm es').symm)
  refine List.Perm.eq_of_pairwise (le := fun a b => a.startTime ≤ b.startTime) ?_
    (sortEvents_sorted es) (sortEvents_sorted es') hp
  intro a b ha hb h1 h2
  exact hinj a ((sortEvents_perm es).subset ha) b
    (h.symm.subset ((sortEvents_perm es').subset hb)) (le_antisymm h1 h2)

theorem epochsUpTo_perm (o : DemoOpts) {es es' : List Event} (h : es.Perm es')
    (hinj : ∀ a ∈ es, ∀ b ∈ es, a.startTime = b.startTime → a = b) (count : ℕ) :
    epochsUpTo o es count = epochsUpTo o es' count := by
  unfold epochsUpTo
  rw [sortEvents_eq_of_perm h hinj]

/-- **Order independence of the boundaries** (discrete events and splits, any start times): the set
of epoch starts is `{0} ∪ {positive change times}` whatever the order of the events. -/
theorem boundaries_perm (o : DemoOpts) {es es' : List Event} (h : es.Perm es')
    (hd : ∀ ev ∈ es, ev.NotDiscretised) (hwf : ∀ ev ∈ es, ev.WF) (count : ℕ)
    (hcount : (changeTimes es).length < count) (t : ℚ) :
    (∃ e ∈ epochsUpTo o es count, e.start = t) ↔ (∃ e ∈ epochsUpTo o es' count, e.start = t) := by
  have hd' : ∀ ev ∈ es', ev.NotDiscretised := fun ev hev => hd ev (h.symm.subset hev)
  have hwf' : ∀ ev ∈ es', ev.WF := fun ev hev => hwf ev (h.symm.subset hev)
  have hct := changeTimes_perm h
  have hcount' : (changeTimes es').length < count := by rw [← hct.length_eq]; exact hcount
  obtain ⟨⟨e0, he0, _⟩, ht1, hb1, hs1⟩ := change_time_is_boundary o es hd hwf count hcount
  obtain ⟨⟨e0', he0', _⟩, ht2, hb2, hs2⟩ := change_time_is_boundary o es' hd' hwf' count hcount'
  have hzero : ∀ (l : List Event), (∃ e0, e0 ∈ epochsUpTo o l count) →
      ∃ e ∈ epochsUpTo o l count, e.start = 0 := by
    intro l ⟨e0, he0⟩
    cases hl : epochsUpTo o l count with
    | nil => rw [hl] at he0; simp at he0
    | cons a as =>
      refine ⟨a, List.mem_cons_self, ?_⟩
      exact (epochs_tiling o l count).1 a (by rw [hl]; rfl)
  constructor
  · rintro ⟨e, he, rfl⟩
    rcases hs1 e he with h0 | ⟨hm, hpos⟩
    · rw [h0]; exact hzero es' ⟨e0', he0'⟩
    · exact hb2 _ (hct.subset hm) hpos
  · rintro ⟨e, he, rfl⟩
    rcases hs2 e he with h0 | ⟨hm, hpos⟩
    · rw [h0]; exact hzero es ⟨e0, he0⟩
    · exact hb1 _ (hct.symm.subset hm) hpos


/-! ## Part 10 — discretised trajectories -/

/-- **Discretised mean** (`_apply` of a single part, repaired window test): on an epoch `[a, en)`
inside the window `[s, E]` the key takes the mean of the trajectory at the two ends. -/
theorem discretised_apply_mean (sp : Bool) (traj : List ℚ) (s : ℚ) (E : Option ℚ) (key : Key) (step : ℚ)
    (e : Epoch) (en : ℚ) (hstop : e.stop = some en) (hs : s ≤ e.start) (hE : leInf en E = true) :
    (Event.discretised [(traj, s, E, key, step)]).apply true sp e
      = e.set key ((polyEval traj e.start + polyEval traj en) / 2) := by
  simp only [Event.apply, List.foldl_cons, List.foldl_nil, hstop]
  rw [if_pos ⟨hs, by simpa using hE⟩]

theorem discretised_apply_value (sp : Bool) (traj : List ℚ) (s : ℚ) (E : Option ℚ) (key : Key) (step : ℚ)
    (e : Epoch) (en : ℚ) (hstop : e.stop = some en) (hs : s ≤ e.start) (hE : leInf en E = true) :
    ((Event.discretised [(traj, s, E, key, step)]).apply true sp e).value key
      = some ((polyEval traj e.start + polyEval traj en) / 2) := by
  rw [discretised_apply_mean sp traj s E key step e en hstop hs hE, Epoch.value_set, if_pos rfl]

/-- **Discretised mean**, schedule form: in the schedule of a single discretised part every finite
epoch `[a, en)` with `s ≤ a` and `en ≤ E` carries the mean of the trajectory at `a` and `en`. -/
theorem discretised_mean (o : DemoOpts) (ho : o.fixedWindowEnd = true) (traj : List ℚ) (s E : ℚ)
    (key : Key) (step : ℚ) (count : ℕ) (e : Epoch)
    (he : e ∈ epochsUpTo o [Event.discretised [(traj, s, some E, key, step)]] count)
    (en : ℚ) (hstop : e.stop = some en) (hs : s ≤ e.start) (hE : en ≤ E) :
    e.value key = some ((polyEval traj e.start + polyEval traj en) / 2) := by
  obtain ⟨p, hp⟩ := epochsFrom_mem_next _ _ _ _ e he
  have hsort : sortEvents [Event.discretised [(traj, s, some E, key, step)]]
      = [Event.discretised [(traj, s, some E, key, step)]] := rfl
  rw [hsort, nextEpoch_eq, ho] at hp
  set eb := broadcastAll o.fixedBroadcast [Event.discretised [(traj, s, some E, key, step)]]
    { start := p.stop.getD 0, stop := none, sizes := p.sizes, mig := p.mig } with heb
  have happ : e = (Event.discretised [(traj, s, some E, key, step)]).apply true o.splitSpec eb := hp
  have h1 : eb.start = e.start := by rw [happ, Event.apply_start]
  have h2 : eb.stop = some en := by rw [← hstop, happ, Event.apply_stop]
  have := discretised_apply_value o.splitSpec traj s (some E) key step eb en h2 (by rw [h1]; exact hs)
    (leInf_some.2 hE)
  rw [← happ, h1] at this
  exact this

/-- the historic window test (`<` instead of `≤`) leaves the last step of the window with the old
value: window `[0, 1]`, step `1/2`, trajectory `t ↦ 1 + t`, size of population 0.
Repaired: epochs `[0, 1/2)`, `[1/2, 1)` carry `5/4` and `7/4`; historic: the second keeps `5/4`. -/
theorem historic_windowEnd_counterexample :
    ((epochsUpTo { fixedWindowEnd := true } [Event.discretised [([1, 1], 0, some 1, .size 0, 1/2)]] 2).map
        fun e => (e.start, e.stop, e.value (.size 0)))
      = [(0, some (1/2), some (5/4)), (1/2, some 1, some (7/4))] ∧
    ((epochsUpTo { fixedWindowEnd := false } [Event.discretised [([1, 1], 0, some 1, .size 0, 1/2)]] 2).map
        fun e => (e.start, e.stop, e.value (.size 0)))
      = [(0, some (1/2), some (5/4)), (1/2, some 1, some (5/4))] := by
  decide +kernel


/-! ## Part 11 — population splits -/

theorem setAll_value_of_forall (k : Key) (v : ℚ) : ∀ (cs : List Change) (e : Epoch),
    (∃ c ∈ cs, c.2.1 = k) → (∀ c ∈ cs, c.2.1 = k → c.2.2 = v) → (setAll cs e).value k = some v
  | [], _, h, _ => by obtain ⟨c, hc, _⟩ := h; simp at hc
  | c :: cs, e, h, hv => by
    change (setAll cs (e.set c.2.1 c.2.2)).value k = _
    by_cases hex : ∃ c' ∈ cs, c'.2.1 = k
    · exact setAll_value_of_forall k v cs _ hex (fun c' hc' => hv c' (List.mem_cons_of_mem _ hc'))
    · have hnone : ∀ c' ∈ cs, c'.2.1 ≠ k := fun c' hc' hk => hex ⟨c', hc', hk⟩
      rw [setAll_value_none k cs _ hnone, Epoch.value_set]
      obtain ⟨c0, hc0, hk0⟩ := h
      rcases List.mem_cons.1 hc0 with rfl | hc0
      · rw [if_pos hk0.symm, hv c0 List.mem_cons_self hk0]
      · exact absurd hk0 (hnone c0 hc0)

theorem foldl_setAll_flatMap {α : Type} (g : α → List Change) : ∀ (l : List α) (e : Epoch),
    l.foldl (fun e a => setAll (g a) e) e = setAll (l.flatMap g) e
  | [], _ => rfl
  | a :: l, e => by
    rw [List.foldl_cons, foldl_setAll_flatMap g l, List.flatMap_cons, setAll_append]

theorem setAll_sizes_of_mig : ∀ (cs : List Change) (e : Epoch),
    (∀ c ∈ cs, ∃ a b, c.2.1 = Key.mig a b) → (setAll cs e).sizes = e.sizes
  | [], _, _ => rfl
  | c :: cs, e, h => by
    change (setAll cs (e.set c.2.1 c.2.2)).sizes = _
    rw [setAll_sizes_of_mig cs _ (fun c' hc' => h c' (List.mem_cons_of_mem _ hc'))]
    obtain ⟨a, b, hab⟩ := h c List.mem_cons_self
    rw [hab]; rfl

theorem foldl_set_sizes (S : Dict ℕ ℚ) (f : ℕ → Key) (hf : ∀ p, ∃ a b, f p = Key.mig a b) (mult : ℚ) :
    ∀ (l : List ℕ) (e : Epoch), e.sizes = S →
      l.foldl (fun e p => e.set (f p) (((e.sizes.lookup p).getD 0) * mult)) e
        = setAll (l.map fun p => ((0 : ℚ), f p, ((S.lookup p).getD 0) * mult)) e
  | [], _, _ => rfl
  | p :: l, e, h => by
    rw [List.foldl_cons, foldl_set_sizes S f hf mult l _ (by
      obtain ⟨a, b, hab⟩ := hf p
      rw [hab]; exact h), h]
    rfl

/-- the two phases of `PopulationSplit._apply` as lists of changes. -/
theorem split_apply_eq (fe : Bool) (t mult : ℚ) (derived : List ℕ) (anc : ℕ) (e : Epoch)
    (hc : e.start ≤ t ∧ ltInf t e.stop = true) :
    (Event.split t derived anc mult).apply fe true e =
      setAll (derived.map fun p => ((0 : ℚ), Key.mig p anc, ((e.sizes.lookup p).getD 0) * mult))
        (setAll (derived.flatMap fun p => (dedupSorted (e.sizes.map (·.1))).map fun q =>
          ((0 : ℚ), Key.mig q p, (0 : ℚ))) e) ∧
    (Event.split t derived anc mult).apply fe false e =
      setAll (derived.flatMap fun p => (dedupSorted (e.sizes.map (·.1))).map fun q =>
          ((0 : ℚ), Key.mig p q, (0 : ℚ)))
        (setAll (derived.map fun p => ((0 : ℚ), Key.mig anc p, ((e.sizes.lookup p).getD 0) * mult)) e) := by
  constructor
  · simp only [Event.apply, if_pos hc, if_true]
    have h1 : ∀ e0 : Epoch, derived.foldl (fun e p =>
        (dedupSorted (e0.sizes.map (·.1))).foldl (fun e q => e.set (.mig q p) 0) e) e0
        = setAll (derived.flatMap fun p => (dedupSorted (e0.sizes.map (·.1))).map fun q =>
          ((0 : ℚ), Key.mig q p, (0 : ℚ))) e0 := by
      intro e0
      rw [← foldl_setAll_flatMap]
      congr 1
      funext e1 p
      unfold setAll
      rw [List.foldl_map]
    rw [h1]
    refine foldl_set_sizes e.sizes (fun p => Key.mig p anc) (fun p => ⟨p, anc, rfl⟩) mult derived _ ?_
    refine setAll_sizes_of_mig _ _ (fun c hc => ?_)
    obtain ⟨p, _, hc⟩ := List.mem_flatMap.1 hc
    obtain ⟨q, _, rfl⟩ := List.mem_map.1 hc
    exact ⟨q, p, rfl⟩
  · simp only [Event.apply, if_pos hc, Bool.false_eq_true, if_false]
    rw [foldl_set_sizes e.sizes (fun p => Key.mig anc p) (fun p => ⟨anc, p, rfl⟩) mult derived e rfl]
    rw [← foldl_setAll_flatMap]
    congr 1
    funext e1 p
    unfold setAll
    rw [List.foldl_map]


theorem mem_dedup_foldr (x : ℕ) : ∀ l : List ℕ,
    x ∈ l.foldr (fun x acc => if acc.head? == some x then acc else x :: acc) [] ↔ x ∈ l
  | [] => Iff.rfl
  | a :: l => by
    rw [List.foldr_cons]
    have ih := mem_dedup_foldr x l
    split_ifs with h
    · rw [ih, List.mem_cons]
      constructor
      · exact Or.inr
      · rintro (rfl | h')
        · have hh : (l.foldr (fun x acc => if acc.head? == some x then acc else x :: acc) []).head?
              = some x := by simpa using h
          exact ih.1 (List.mem_of_mem_head? hh)
        · exact h'
    · rw [List.mem_cons, List.mem_cons, ih]

theorem argsortNat_map_perm (xs : List ℕ) : ((argsortNat xs).map fun i => getN xs i).Perm xs := by
  have h1 : (argsortNat xs).Perm (List.range xs.length) := by
    have := argsort_perm (xs.map fun (x : ℕ) => (x : ℚ))
    rwa [List.length_map] at this
  refine (h1.map _).trans ?_
  have : (List.range xs.length).map (fun i => getN xs i) = xs := by
    apply List.ext_getElem
    · simp
    · intro i h1 h2
      simp [getN, List.getD_eq_getElem?_getD, h2]
  rw [this]

/-- `dedupSorted` keeps exactly the members of its input. -/
theorem mem_dedupSorted (x : ℕ) (xs : List ℕ) : x ∈ dedupSorted xs ↔ x ∈ xs := by
  unfold dedupSorted
  rw [mem_dedup_foldr]
  exact (argsortNat_map_perm xs).mem_iff

/-- **Population split, documented orientation** (`splitSpec := true`). In the epoch containing the
split time, for every derived population `p` (the ancestral one not being among the derived): lineages
of `p` move to the ancestral population at rate `size p · multiplier`, all migration *into* `p` from
populations with a size entry is switched off, and the sizes are untouched. -/
theorem split_spec (fe : Bool) (t mult : ℚ) (derived : List ℕ) (anc : ℕ) (e : Epoch)
    (hc : e.start ≤ t ∧ ltInf t e.stop = true) (hanc : anc ∉ derived) :
    (∀ p ∈ derived, ((Event.split t derived anc mult).apply fe true e).value (.mig p anc)
        = some (((e.sizes.lookup p).getD 0) * mult)) ∧
    (∀ p ∈ derived, ∀ q ∈ e.sizes.map (·.1),
      ((Event.split t derived anc mult).apply fe true e).value (.mig q p) = some 0) ∧
    ((Event.split t derived anc mult).apply fe true e).sizes = e.sizes := by
  rw [(split_apply_eq fe t mult derived anc e hc).1]
  refine ⟨fun p hp => ?_, fun p hp q hq => ?_, ?_⟩
  · refine setAll_value_of_forall _ _ _ _ ⟨_, List.mem_map.2 ⟨p, hp, rfl⟩, rfl⟩ (fun c hc hk => ?_)
    obtain ⟨p', _, rfl⟩ := List.mem_map.1 hc
    simp only [Key.mig.injEq] at hk
    rw [hk.1]
  · rw [setAll_value_none]
    · refine setAll_value_of_forall _ _ _ _ ⟨(0, Key.mig q p, 0), ?_, rfl⟩ (fun c hc hk => ?_)
      · exact List.mem_flatMap.2 ⟨p, hp, List.mem_map.2 ⟨q, (mem_dedupSorted q _).2 hq, rfl⟩⟩
      · obtain ⟨p', _, hc⟩ := List.mem_flatMap.1 hc
        obtain ⟨q', _, rfl⟩ := List.mem_map.1 hc
        rfl
    · intro c hc hk
      obtain ⟨p', hp', rfl⟩ := List.mem_map.1 hc
      simp only [Key.mig.injEq] at hk
      exact hanc (hk.2 ▸ hp)
  · rw [setAll_sizes_of_mig, setAll_sizes_of_mig]
    · intro c hc
      obtain ⟨p', _, hc⟩ := List.mem_flatMap.1 hc
      obtain ⟨q', _, rfl⟩ := List.mem_map.1 hc
      exact ⟨_, _, rfl⟩
    · intro c hc
      obtain ⟨p', _, rfl⟩ := List.mem_map.1 hc
      exact ⟨_, _, rfl⟩

/-- **Population split, pinned orientation** (`splitSpec := false`): the rate `size p · multiplier`
is put on `(ancestral, p)` and all migration *out of* `p` is switched off — the reverse of the
documented behaviour. -/
theorem split_pinned (fe : Bool) (t mult : ℚ) (derived : List ℕ) (anc : ℕ) (e : Epoch)
    (hc : e.start ≤ t ∧ ltInf t e.stop = true) (hanc : anc ∉ derived) :
    (∀ p ∈ derived, ((Event.split t derived anc mult).apply fe false e).value (.mig anc p)
        = some (((e.sizes.lookup p).getD 0) * mult)) ∧
    (∀ p ∈ derived, ∀ q ∈ e.sizes.map (·.1),
      ((Event.split t derived anc mult).apply fe false e).value (.mig p q) = some 0) := by
  rw [(split_apply_eq fe t mult derived anc e hc).2]
  refine ⟨fun p hp => ?_, fun p hp q hq => ?_⟩
  · rw [setAll_value_none]
    · refine setAll_value_of_forall _ _ _ _ ⟨_, List.mem_map.2 ⟨p, hp, rfl⟩, rfl⟩ (fun c hc hk => ?_)
      obtain ⟨p', _, rfl⟩ := List.mem_map.1 hc
      simp only [Key.mig.injEq] at hk
      rw [hk.2]
    · intro c hc hk
      obtain ⟨p', hp', hc⟩ := List.mem_flatMap.1 hc
      obtain ⟨q', _, rfl⟩ := List.mem_map.1 hc
      simp only [Key.mig.injEq] at hk
      exact hanc (hk.1 ▸ hp')
  · refine setAll_value_of_forall _ _ _ _ ⟨(0, Key.mig p q, 0), ?_, rfl⟩ (fun c hc hk => ?_)
    · exact List.mem_flatMap.2 ⟨p, hp, List.mem_map.2 ⟨q, (mem_dedupSorted q _).2 hq, rfl⟩⟩
    · obtain ⟨p', _, hc⟩ := List.mem_flatMap.1 hc
      obtain ⟨q', _, rfl⟩ := List.mem_map.1 hc
      rfl

/-! ## Part 12 — the historic variants, by evaluation -/

/-- **Historic `_broadcast`** (`fixedBroadcast := false`): a discretised event *assigned* its grid
point as the epoch end instead of taking the minimum, so the change at `1/20` disappears as a
boundary and is applied from time `0` on; the repaired variant keeps the boundary. -/
theorem historic_broadcast_counterexample :
    let evs := [Event.discrete [(0, [(Key.size 0, 2)]), (1/20, [(Key.size 0, 5)])],
      Event.discretised [([1, 1], 0, some 1, Key.size 1, 1/10)]]
    ((epochsUpTo { fixedBroadcast := false } evs 2).map
        fun e => (e.start, e.stop, e.value (.size 0)))
      = [(0, some (1/10), some 5), (1/10, some (1/5), some 5)] ∧
    ((epochsUpTo { fixedBroadcast := true } evs 2).map
        fun e => (e.start, e.stop, e.value (.size 0)))
      = [(0, some (1/20), some 2), (1/20, some (1/10), some 5)] := by
  decide +kernel

/-- **Split orientation**: populations `0` (ancestral, size 1) and `1` (derived, size 2), split at
time `1`, multiplier `3`. Pinned code: rate `6` on `(0, 1)` and `0` on `(1, 0)` after the split;
documented orientation: the other way round. -/
theorem split_orientation_counterexample :
    let evs := [Event.discrete [(0, [(Key.size 0, 1), (Key.size 1, 2)])], Event.split 1 [1] 0 3]
    ((epochsUpTo { splitSpec := false } evs 3).map
        fun e => (e.start, e.stop, e.value (.mig 0 1), e.value (.mig 1 0)))
      = [(0, some 1, some 0, some 0), (1, none, some 6, some 0)] ∧
    ((epochsUpTo { splitSpec := true } evs 3).map
        fun e => (e.start, e.stop, e.value (.mig 0 1), e.value (.mig 1 0)))
      = [(0, some 1, some 0, some 0), (1, none, some 0, some 6)] := by
  decide +kernel


/-! ## Part 13 — the values do not depend on the order of the events -/

/-- no two changes set the same key at the same time to different values. -/
def NoConflict (cs : List Change) : Prop :=
  ∀ c ∈ cs, ∀ c' ∈ cs, c.2.1 = c'.2.1 → c.1 = c'.1 → c.2.2 = c'.2.2

theorem defaultValue_congr {n1 n2 : List ℕ} (h : ∀ p, p ∈ n1 ↔ p ∈ n2) (k : Key) :
    defaultValue n1 k = defaultValue n2 k := by
  cases k <;> simp [defaultValue, h]

theorem mem_popNames_perm {es es' : List Event} (h : es.Perm es') (p : ℕ) :
    p ∈ popNames es ↔ p ∈ popNames es' := by
  unfold popNames
  rw [mem_dedupSorted, mem_dedupSorted]
  exact (h.flatMap_right Event.pops).mem_iff

/-- two value assignments specified by permuted, conflict-free change lists agree. -/
theorem ValSpec.perm_eq {cs cs' : List Change} {n n' : List ℕ} {t : ℚ} {val val' : Key → Option ℚ}
    (hp : cs.Perm cs') (hn : ∀ p, p ∈ n ↔ p ∈ n') (hnc : NoConflict cs)
    (h : ValSpec cs n (fun u => u ≤ t) val) (h' : ValSpec cs' n' (fun u => u ≤ t) val') (k : Key) :
    val k = val' k := by
  cases hr : lastChange? k t cs with
  | none =>
    have hnone := lastChange?_none k t cs hr
    rw [(h k).2 hnone, (h' k).2 (fun c hc => hnone c (hp.symm.subset hc)), defaultValue_congr hn]
  | some ib =>
    obtain ⟨i, c⟩ := ib
    have hl := lastChange?_some k t cs i c hr
    rw [(h k).1 i c hl]
    cases hr' : lastChange? k t cs' with
    | none =>
      exact absurd hl.2.2.1
        (lastChange?_none k t cs' hr' c (hp.subset (List.mem_of_getElem? hl.1)) hl.2.1)
    | some ib' =>
      obtain ⟨i', c'⟩ := ib'
      have hl' := lastChange?_some k t cs' i' c' hr'
      rw [(h' k).1 i' c' hl']
      have hc : c ∈ cs := List.mem_of_getElem? hl.1
      have hc' : c' ∈ cs' := List.mem_of_getElem? hl'.1
      obtain ⟨j, hj⟩ := List.getElem?_of_mem (hp.symm.subset hc')
      obtain ⟨j', hj'⟩ := List.getElem?_of_mem (hp.subset hc)
      have h1 : c'.1 ≤ c.1 := by
        rcases hl.2.2.2 j c' hj hl'.2.1 hl'.2.2.1 with h | h
        · exact h.le
        · exact h.1.le
      have h2 : c.1 ≤ c'.1 := by
        rcases hl'.2.2.2 j' c hj' hl.2.1 hl.2.2.1 with h | h
        · exact h.le
        · exact h.1.le
      rw [hnc c hc c' (hp.symm.subset hc') (hl.2.1.trans hl'.2.1.symm) (le_antisymm h2 h1)]

/-- **Order independence of the values** (discrete events, well-formed). If no two changes set the
same key at the same time to different values, then at every time `t` the value of every key is the
same for any permutation of the event list — and for any choice of the options and of the number of
epochs generated. -/
theorem value_perm (o o' : DemoOpts) {es es' : List Event} (h : es.Perm es')
    (hd : ∀ ev ∈ es, ev.IsDiscrete) (hwf : ∀ ev ∈ es, ev.WF) (hnc : NoConflict (allChanges es))
    (count count' : ℕ) (e e' : Epoch) (he : e ∈ epochsUpTo o es count)
    (he' : e' ∈ epochsUpTo o' es' count') (t : ℚ)
    (h1 : e.start ≤ t) (h2 : ltInf t e.stop = true) (h1' : e'.start ≤ t) (h2' : ltInf t e'.stop = true)
    (k : Key) : e.value k = e'.value k := by
  have hd' : ∀ ev ∈ es', ev.IsDiscrete := fun ev hev => hd ev (h.symm.subset hev)
  have hwf' : ∀ ev ∈ es', ev.WF := fun ev hev => hwf ev (h.symm.subset hev)
  have hs : (sortEvents es).Perm (sortEvents es') :=
    (sortEvents_perm es).trans (h.trans (sortEvents_perm es').symm)
  have hnc' : NoConflict (allChanges (sortEvents es)) := by
    have hp := allChanges_perm (sortEvents_perm es)
    exact fun c hc c' hc' => hnc c (hp.subset hc) c' (hp.subset hc')
  exact ValSpec.perm_eq (allChanges_perm hs) (mem_popNames_perm hs) hnc'
    (value_in_force o es hd hwf count e he t h1 h2)
    (value_in_force o' es' hd' hwf' count' e' he' t h1' h2') k


/-! ## Part 14 — grid points of discretised events (repaired `_broadcast`) -/

theorem foldl_establish {β α : Type _} (Q P : β → Prop) (f : β → α → β) (a : α)
    (hQ : ∀ b x, Q b → Q (f b x)) (hP : ∀ b x, P b → P (f b x)) (ha : ∀ b, Q b → P (f b a)) :
    ∀ (l : List α) (b : β), a ∈ l → Q b → P (l.foldl f b)
  | [], _, h, _ => by simp at h
  | x :: l, b, h, hb => by
    rw [List.foldl_cons]
    rcases List.mem_cons.1 h with rfl | h
    · exact foldl_pres P f hP l _ (ha b hb)
    · exact foldl_establish Q P f a hQ hP ha l _ h (hQ b x hb)

/-- the stop is at or before `g`. -/
def Epoch.StopLe (e : Epoch) (g : ℚ) : Prop := ∃ s, e.stop = some s ∧ s ≤ g

theorem broadcastDiscrete_stopLe (ts : List ℚ) (e : Epoch) (g : ℚ) (h : e.StopLe g) :
    (broadcastDiscrete ts e).StopLe g := by
  obtain ⟨s, hs, hle⟩ := h
  obtain ⟨s', hs', hle'⟩ := broadcastDiscrete_le ts e s hs
  exact ⟨s', hs', le_trans hle' hle⟩

theorem broadcastDiscretised_stopLe (a : ℚ) (b : Option ℚ) (st : ℚ) (e : Epoch) (g : ℚ)
    (h : e.StopLe g) : (broadcastDiscretised true a b st e).StopLe g := by
  obtain ⟨s, hs, hle⟩ := h
  obtain ⟨c, hc⟩ := broadcastDiscretised_eq true a b st e
  rw [hc]
  cases c with
  | true => exact ⟨s, hs, hle⟩
  | false =>
    simp only [Bool.false_eq_true, if_false, if_true, hs, minInf]
    exact ⟨_, rfl, le_trans (min_le_left _ _) hle⟩

theorem Event.broadcast_stopLe (ev : Event) (e : Epoch) (g : ℚ) (h : e.StopLe g) :
    (ev.broadcast true e).StopLe g := by
  cases ev with
  | discrete ch => exact broadcastDiscrete_stopLe _ _ _ h
  | split t d a m => exact broadcastDiscrete_stopLe _ _ _ h
  | discretised parts =>
    exact foldl_pres (fun e => e.StopLe g) _
      (fun b p hb => broadcastDiscretised_stopLe _ _ _ _ _ hb) parts e h

theorem grid_cand_le (evStart start step : ℚ) (n : ℕ) (hstep : 0 < step)
    (h : start + 1 / 10000000000 ≤ evStart + n * step) :
    evStart + ((Rat.ceil ((start - evStart + 1 / 10000000000) / step) : ℤ) : ℚ) * step
      ≤ evStart + n * step := by
  have h1 : (start - evStart + 1 / 10000000000) / step ≤ ((n : ℤ) : ℚ) := by
    rw [div_le_iff₀ hstep]
    push_cast
    linarith
  have h2 : Rat.ceil ((start - evStart + 1 / 10000000000) / step) ≤ (n : ℤ) := Rat.ceil_le_iff.2 h1
  have h3 : ((Rat.ceil ((start - evStart + 1 / 10000000000) / step) : ℤ) : ℚ) ≤ ((n : ℤ) : ℚ) := by
    exact_mod_cast h2
  have h4 := mul_le_mul_of_nonneg_right h3 hstep.le
  push_cast at h4
  linarith

/-- one repaired broadcast of a part puts the stop at or before each of its grid points that lies
in the window and at least `1e-10` after the epoch start. -/
theorem broadcastDiscretised_grid (evStart : ℚ) (evStop : Option ℚ) (step : ℚ) (hstep : 0 < step)
    (e : Epoch) (n : ℕ) (hwin : leInf (evStart + n * step) evStop = true)
    (hgap : e.start + 1 / 10000000000 ≤ evStart + n * step) :
    (broadcastDiscretised true evStart evStop step e).StopLe (evStart + n * step) := by
  have hg0 : evStart ≤ evStart + n * step := by
    have : (0 : ℚ) ≤ n * step := mul_nonneg (Nat.cast_nonneg n) hstep.le
    linarith
  unfold broadcastDiscretised
  dsimp only
  have hcand : (if evStart > e.start then evStart
      else evStart + ((Rat.ceil ((e.start - evStart + 1 / 10000000000) / step) : ℤ) : ℚ) * step)
      ≤ evStart + n * step := by
    split_ifs
    · exact hg0
    · exact grid_cand_le evStart e.start step n hstep hgap
  generalize (if evStart > e.start then evStart
      else evStart + ((Rat.ceil ((e.start - evStart + 1 / 10000000000) / step) : ℤ) : ℚ) * step)
      = cand at hcand ⊢
  have hle2 : leInf e.start evStop = true := by
    cases evStop with
    | none => rfl
    | some E =>
      rw [leInf_some] at hwin ⊢
      linarith
  cases hs : e.stop with
  | none =>
    simp only [hle2, Bool.not_true, Bool.or_false, Bool.false_eq_true, if_false, if_true, minInf]
    exact ⟨cand, rfl, hcand⟩
  | some en =>
    simp only [hle2, Bool.not_true, Bool.or_false, decide_eq_true_eq, if_true, minInf]
    split_ifs with hlt
    · exact ⟨en, hs, le_trans hlt.le hg0⟩
    · exact ⟨_, rfl, le_trans (min_le_right _ _) hcand⟩

/-- **Grid points are boundaries** (repaired `_broadcast`, any mixture of events). A grid point
`start + n·step` of a discretised part, inside the part's window and at least `1e-10` after the start
of a generated epoch, is not strictly inside that epoch: the epoch stops at or before it. (A grid
point closer than `1e-10` behind another boundary is skipped: `grid_point_skipped`.) -/
theorem grid_point_boundary (o : DemoOpts) (ho : o.fixedBroadcast = true) (evs : List Event)
    (prev : Epoch) (parts : List (List ℚ × ℚ × Option ℚ × Key × ℚ))
    (hev : Event.discretised parts ∈ evs) (p : List ℚ × ℚ × Option ℚ × Key × ℚ) (hp : p ∈ parts)
    (hstep : 0 < p.2.2.2.2) (n : ℕ) (hwin : leInf (p.2.1 + n * p.2.2.2.2) p.2.2.1 = true)
    (hgap : (nextEpoch o evs prev).start + 1 / 10000000000 ≤ p.2.1 + n * p.2.2.2.2) :
    ∃ s, (nextEpoch o evs prev).stop = some s ∧ s ≤ p.2.1 + n * p.2.2.2.2 := by
  rw [nextEpoch_stop, ho]
  rw [nextEpoch_start] at hgap
  set g := p.2.1 + n * p.2.2.2.2 with hg
  refine foldl_establish (fun e => e.start = prev.stop.getD 0) (fun e => e.StopLe g)
    (fun e ev => ev.broadcast true e) (Event.discretised parts)
    (fun b x hb => by rw [Event.broadcast_start]; exact hb)
    (fun b x hb => Event.broadcast_stopLe x b g hb) (fun b hb => ?_) evs
    { start := prev.stop.getD 0, stop := none, sizes := prev.sizes, mig := prev.mig } hev rfl
  refine foldl_establish (fun e => e.start = prev.stop.getD 0) (fun e => e.StopLe g)
    (fun e q => broadcastDiscretised true q.2.1 q.2.2.1 q.2.2.2.2 e) p
    (fun b x hb => by rw [broadcastDiscretised_start]; exact hb)
    (fun b x hb => broadcastDiscretised_stopLe _ _ _ _ g hb) (fun b' hb' => ?_) parts b hp hb
  exact broadcastDiscretised_grid p.2.1 p.2.2.1 p.2.2.2.2 hstep b' n hwin (by rw [hb']; exact hgap)

/-- a grid point less than `1e-10` after another boundary is skipped: the change at `1/10 - 1e-11`
starts an epoch that runs to the grid point `2/10`, over the grid point `1/10`. -/
theorem grid_point_skipped :
    ((epochsUpTo {} [Event.discrete [(1/10 - 1/100000000000, [(Key.size 0, 2)])],
        Event.discretised [([1, 1], 0, some 1, Key.size 1, 1/10)]] 3).map
      fun e => (e.start, e.stop))
      = [(0, some (1/10 - 1/100000000000)), (1/10 - 1/100000000000, some (1/5)),
         (1/5, some (3/10))] := by
  decide +kernel


/-! ## Part 15 — sanity checks by evaluation -/

/-- the specification is not vacuous: two events, a tie at time `1` resolved in favour of the later
event; the generated values agree with `specValue` at sample times. -/
example :
    let evs := [Event.discrete [(0, [(Key.size 0, 2)]), (1, [(Key.size 0, 3), (Key.mig 0 1, 4)])],
      Event.discrete [(1, [(Key.size 0, 7)]), (2, [(Key.size 1, 9)])]]
    ((epochsUpTo {} evs 5).map fun e => (e.start, e.stop)) = [(0, some 1), (1, some 2), (2, none)] ∧
    ((epochsUpTo {} evs 5).map fun e =>
        (e.value (.size 0), e.value (.size 1), e.value (.mig 0 1), e.value (.mig 1 0)))
      = [(some 2, some 1, some 0, some 0), (some 7, some 1, some 4, some 0),
         (some 7, some 9, some 4, some 0)] ∧
    ([0, 1/2, 1, 3/2, 2, 5].map fun t =>
        specValue (allChanges (sortEvents evs)) (popNames (sortEvents evs)) (.size 0) t)
      = [some 2, some 2, some 7, some 7, some 7, some 7] := by
  decide +kernel

/-- the hypothesis `NoConflict` of `value_perm` is needed: two events with the same start time that
set the same key at the same time to different values — the later one in the input order wins. -/
theorem value_order_dependence_with_conflict :
    let a := Event.discrete [(1, [(Key.size 0, 3)])]
    let b := Event.discrete [(1, [(Key.size 0, 7)])]
    ((epochsUpTo {} [a, b] 3).map fun e => (e.start, e.value (.size 0))) = [(0, some 1), (1, some 7)] ∧
    ((epochsUpTo {} [b, a] 3).map fun e => (e.start, e.value (.size 0))) = [(0, some 1), (1, some 3)] := by
  decide +kernel

/-- `get_epochs` on a concrete tiled schedule: unsorted query times with a duplicate and a time
exactly on a boundary. -/
example :
    getEpochIdx (epochsUpTo {} [Event.discrete [(1, [(Key.size 0, 3)]), (2, [(Key.size 0, 4)])]] 5)
      [5/2, 0, 1, 1/2, 1, 2] = [some 2, some 0, some 1, some 0, some 1, some 2] := by
  decide +kernel

end PG

#print axioms PG.epochs_tiling
#print axioms PG.epochs_WF
#print axioms PG.change_time_is_boundary
#print axioms PG.value_in_force
#print axioms PG.value_in_force'
#print axioms PG.getEpochIdx_spec
#print axioms PG.getEpochIdx_pointwise
#print axioms PG.epochOf_start
#print axioms PG.sortEvents_perm
#print axioms PG.sortEvents_sorted
#print axioms PG.epochsUpTo_perm
#print axioms PG.boundaries_perm
#print axioms PG.value_perm
#print axioms PG.discretised_mean
#print axioms PG.historic_windowEnd_counterexample
#print axioms PG.grid_point_boundary
#print axioms PG.grid_point_skipped
#print axioms PG.split_spec
#print axioms PG.split_pinned
#print axioms PG.historic_broadcast_counterexample
#print axioms PG.split_orientation_counterexample
#print axioms PG.value_order_dependence_with_conflict
