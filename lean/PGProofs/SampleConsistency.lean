/-
  PGProofs/SampleConsistency.lean

  C13: "expected spectra are consistent across sample sizes".

  In a single population, for a Λ-coalescent whose rates are sampling-consistent
  (`λ b k = λ (b+1) k + λ (b+1) (k+1)`, `2 ≤ k ≤ b`), any epoch-wise time change and any end time,
  the expected site-frequency spectrum for `n` samples is the hypergeometric down-projection of the
  expected spectrum for `n + 1` samples, and the expected tree height and total branch length do
  not decrease when a sample is added.

  Contents
  * `MatrixLevel`  : linearity of the first moment (`k = 1` Van Loan) in the reward; projection of
                     first moments through an intertwining stochastic kernel (`accumVal_project`,
                     `accumVal_project_le`, `accumVal_project_comb`).
  * `IicSums` …    : Pascal / absorption identities for the sub-collection weights `wt`.
  * `Kernel` …     : the block-counting generator `Qgen` (an instance of `QC` from
                     `PGProofs/Labelled.lean`), the kernel `Kker` "remove a uniformly chosen sample",
                     and the **kernel intertwining** `kernel_intertwine : Q (K g) = K (Q g)`,
                     proved through the chain with one marked sample
                     (`Qgen_Umark` = exchangeability, `Qm_Gm` = consistency).
  * `Projection`   : `K_one`, `K_sfs`, `K_alpha`, `K_height`, `K_tbl`.
  * `Concrete`     : generator / kernel matrices on the finite state spaces and the final theorems
                     `C13_sfs`, `C13_height`, `C13_tbl`, `Kmat_alpha`; the coding `Fin N`
                     (`i ↦` block size `i + 1`) and the model rates `lam m`.

  Encoding.  Block types `T` are coded by their size `sz : T → ℕ` with inverse `ty : ℕ → T`
  (`SizeCoding`); the concrete instance is `T = Fin N`, `sz i = i + 1` (`finCoding`), with `N` any
  bound on the number of samples, so that the states for `n + 1` and for `n` samples live in the
  same ambient space `Fin N → ℕ` and no casts between `Fin (n+1)` and `Fin n` are needed.
-/
import PGProofs.VanLoan
import PGProofs.Labelled
import PGProofs.RatesThm
import Mathlib.Tactic.FinCases
import Mathlib.Tactic.FieldSimp
import Mathlib.Tactic.LinearCombination

set_option linter.unusedSectionVars false

namespace PG

open Matrix

section MatrixLevel

variable {K : Type} [Field K] [LinearOrder K] [IsStrictOrderedRing K]
variable {ι : Type} [Fintype ι] [DecidableEq ι]
variable {ι' : Type} [Fintype ι'] [DecidableEq ι']

/-! ## Linearity of the first moment in the reward -/

/-- `C ⊗ 1`: a "block-constant" matrix between block spaces. -/
def kronL {m n : ℕ} (C : Matrix (Fin m) (Fin n) K) (ι : Type) [DecidableEq ι] :
    Matrix (Fin m × ι) (Fin n × ι) K :=
  Matrix.of fun p q => if p.2 = q.2 then C p.1 q.1 else 0

theorem mul_kronL_apply {β : Type} {m n : ℕ} (M : Matrix β (Fin m × ι) K)
    (C : Matrix (Fin m) (Fin n) K) (p : β) (b : Fin n) (j : ι) :
    (M * kronL C ι) p (b, j) = ∑ a, M p (a, j) * C a b := by
  rw [Matrix.mul_apply, Fintype.sum_prod_type]
  refine Finset.sum_congr rfl fun a _ => ?_
  rw [Finset.sum_eq_single j]
  · simp [kronL]
  · intro l _ hl; simp [kronL, hl]
  · intro h; exact absurd (Finset.mem_univ _) h

theorem kronL_mul_apply {β : Type} {m n : ℕ} (C : Matrix (Fin m) (Fin n) K)
    (N : Matrix (Fin n × ι) β K) (a : Fin m) (i : ι) (q : β) :
    (kronL C ι * N) (a, i) q = ∑ b, C a b * N (b, i) q := by
  rw [Matrix.mul_apply, Fintype.sum_prod_type]
  refine Finset.sum_congr rfl fun b _ => ?_
  rw [Finset.sum_eq_single i]
  · simp [kronL]
  · intro l _ hl; simp [kronL, Ne.symm hl]
  · intro h; exact absurd (Finset.mem_univ _) h

/-- three-block matrix `[[S, diag r₁, diag r₂], [0, S, 0], [0, 0, S]]` -/
def vanLoan3 (S : Matrix ι ι K) (r1 r2 : ι → K) : Matrix (Fin 3 × ι) (Fin 3 × ι) K :=
  Matrix.of fun p q =>
    if p.1 = q.1 then S p.2 q.2
    else if p.1 = 0 ∧ p.2 = q.2 then (if q.1 = 1 then r1 p.2 else r2 p.2)
    else 0

/-- coefficient matrix `[[1, 0], [0, c₁], [0, c₂]]` -/
def coef3 (c1 c2 : K) : Matrix (Fin 3) (Fin (1 + 1)) K :=
  Matrix.of fun a b =>
    if a = 0 then (if b = 0 then 1 else 0)
    else if b = 0 then 0 else (if a = 1 then c1 else c2)

theorem vanLoan3_intertwine (S : Matrix ι ι K) (r1 r2 : ι → K) (c1 c2 : K) :
    vanLoan3 S r1 r2 * kronL (coef3 c1 c2) ι
      = kronL (coef3 c1 c2) ι * vanLoan S (fun (_ : Fin 1) i => c1 * r1 i + c2 * r2 i) := by
  ext ⟨a, i⟩ ⟨b, j⟩
  rw [mul_kronL_apply, kronL_mul_apply, Fin.sum_univ_three, Fin.sum_univ_two]
  fin_cases a <;> fin_cases b <;>
    simp [vanLoan3, vanLoan, coef3] <;> (try split_ifs) <;> (try ring)

variable (L : ExpLaw K)

/-- the top-right block of the `k = 1` Van Loan product is linear in the reward -/
theorem topRight_linear (S : ℕ → Matrix ι ι K) (r1 r2 : ι → K) (c1 c2 : K)
    (fs : List (ℕ × K)) (i j : ι) :
    (evalFactors L (fun e => vanLoan (S e) (fun (_ : Fin 1) x => c1 * r1 x + c2 * r2 x)) fs)
        (0, i) (Fin.last 1, j)
      = c1 * (evalFactors L (fun e => vanLoan (S e) (fun (_ : Fin 1) x => r1 x)) fs)
              (0, i) (Fin.last 1, j)
        + c2 * (evalFactors L (fun e => vanLoan (S e) (fun (_ : Fin 1) x => r2 x)) fs)
              (0, i) (Fin.last 1, j) := by
  have key : ∀ d1 d2 : K,
      (evalFactors L (fun e => vanLoan (S e) (fun (_ : Fin 1) x => d1 * r1 x + d2 * r2 x)) fs)
          (0, i) (Fin.last 1, j)
        = d1 * (evalFactors L (fun e => vanLoan3 (S e) r1 r2) fs) (0, i) (1, j)
          + d2 * (evalFactors L (fun e => vanLoan3 (S e) r1 r2) fs) (0, i) (2, j) := by
    intro d1 d2
    have h := congrFun (congrFun (evalFactors_intertwine L (fun e => vanLoan3 (S e) r1 r2)
      (fun e => vanLoan (S e) (fun (_ : Fin 1) x => d1 * r1 x + d2 * r2 x))
      (kronL (coef3 d1 d2) ι) (fun e => vanLoan3_intertwine (S e) r1 r2 d1 d2) fs) (0, i))
      (Fin.last 1, j)
    rw [mul_kronL_apply, kronL_mul_apply, Fin.sum_univ_three, Fin.sum_univ_two] at h
    simp [coef3] at h
    have hl : (Fin.last 1 : Fin (1 + 1)) = 1 := rfl
    rw [hl, ← h]; ring
  have h1 := key 1 0
  have h2 := key 0 1
  simp only [one_mul, zero_mul, add_zero, zero_add] at h1 h2
  rw [key c1 c2, h1, h2]

/-- **Linearity of the first moment in the reward.** -/
theorem accumVal_one_linear (S : ℕ → Matrix ι ι K) (r1 r2 : ι → K) (c1 c2 : K) (α : ι → K)
    (fs : List (ℕ × K)) :
    accumVal L S (fun (_ : Fin 1) x => c1 * r1 x + c2 * r2 x) α fs
      = c1 * accumVal L S (fun (_ : Fin 1) x => r1 x) α fs
        + c2 * accumVal L S (fun (_ : Fin 1) x => r2 x) α fs := by
  unfold accumVal
  simp only [topRight_linear L S r1 r2 c1 c2 fs, Finset.mul_sum, ← Finset.sum_add_distrib]
  refine Finset.sum_congr rfl fun i _ => Finset.sum_congr rfl fun j _ => ?_
  ring

theorem accumVal_one_add (S : ℕ → Matrix ι ι K) (r1 r2 : ι → K) (α : ι → K)
    (fs : List (ℕ × K)) :
    accumVal L S (fun (_ : Fin 1) x => r1 x + r2 x) α fs
      = accumVal L S (fun (_ : Fin 1) x => r1 x) α fs
        + accumVal L S (fun (_ : Fin 1) x => r2 x) α fs := by
  have := accumVal_one_linear L S r1 r2 1 1 α fs
  simpa using this

theorem accumVal_one_smul (S : ℕ → Matrix ι ι K) (r : ι → K) (c : K) (α : ι → K)
    (fs : List (ℕ × K)) :
    accumVal L S (fun (_ : Fin 1) x => c * r x) α fs
      = c * accumVal L S (fun (_ : Fin 1) x => r x) α fs := by
  have := accumVal_one_linear L S r r c 0 α fs
  simpa using this

/-- the first moment is monotone in the reward -/
theorem accumVal_one_mono (S : ℕ → Matrix ι ι K) (r1 r2 : ι → K) (α : ι → K)
    (hS : ∀ e i j, i ≠ j → 0 ≤ S e i j) (hr : ∀ i, r1 i ≤ r2 i) (hα : ∀ i, 0 ≤ α i)
    (fs : List (ℕ × K)) (hfs : ∀ f ∈ fs, 0 ≤ f.2) :
    accumVal L S (fun (_ : Fin 1) x => r1 x) α fs ≤ accumVal L S (fun (_ : Fin 1) x => r2 x) α fs := by
  have h2 : (fun (_ : Fin 1) x => r2 x) = (fun (_ : Fin 1) x => r1 x + (r2 x - r1 x)) := by
    funext _ x; ring
  rw [h2, accumVal_one_add]
  have := accum_nonneg L S (fun (_ : Fin 1) x => r2 x - r1 x) α hS
    (fun _ i => sub_nonneg.mpr (hr i)) hα fs hfs
  linarith

/-! ## Projection of first moments through an intertwining stochastic kernel -/

/-- bordered generator `[[S, r], [0, 0]]` on `ι ⊕ Unit` -/
def bord (S : Matrix ι ι K) (r : ι → K) : Matrix (ι ⊕ Unit) (ι ⊕ Unit) K :=
  Matrix.of fun p q =>
    match p, q with
    | Sum.inl i, Sum.inl j => S i j
    | Sum.inl i, Sum.inr _ => r i
    | Sum.inr _, _ => 0

/-- `[[P, 0], [0, 1]]` from the two-block space `Fin 2 × ι` to `ι' ⊕ Unit` (second block summed) -/
def bordP (P : Matrix ι ι' K) : Matrix (Fin (1 + 1) × ι) (ι' ⊕ Unit) K :=
  Matrix.of fun p q =>
    match q with
    | Sum.inl j => if p.1 = 0 then P p.2 j else 0
    | Sum.inr _ => if p.1 = 0 then 0 else 1

theorem vanLoan_bord (S : Matrix ι ι K) (S' : Matrix ι' ι' K) (P : Matrix ι ι' K)
    (r : ι → K) (r' : ι' → K) (hS : S * P = P * S') (hr : r = P *ᵥ r')
    (hrow : ∀ i, ∑ j, S i j = 0) :
    vanLoan S (fun (_ : Fin 1) i => r i) * bordP P = bordP P * bord S' r' := by
  ext ⟨a, i⟩ q
  rw [Matrix.mul_apply, Matrix.mul_apply, Fintype.sum_prod_type, Fin.sum_univ_two,
    Fintype.sum_sum_type]
  rcases q with j | u
  · have h := congrFun (congrFun hS i) j
    rw [Matrix.mul_apply, Matrix.mul_apply] at h
    fin_cases a
    · simpa [vanLoan, bordP, bord] using h
    · simp [vanLoan, bordP, bord]
  · fin_cases a
    · simp [vanLoan, bordP, bord, hr, Matrix.mulVec, dotProduct]
    · simpa [vanLoan, bordP, bord] using hrow i


/-- With zero row sums, the first moment can be read off the bordered generator. -/
theorem accumVal_one_eq_bord (S : ℕ → Matrix ι ι K) (S' : ℕ → Matrix ι' ι' K)
    (P : Matrix ι ι' K) (r : ι → K) (r' : ι' → K) (α : ι → K)
    (hS : ∀ e, S e * P = P * S' e) (hr : r = P *ᵥ r') (hrow : ∀ e i, ∑ j, S e i j = 0)
    (fs : List (ℕ × K)) :
    accumVal L S (fun (_ : Fin 1) i => r i) α fs
      = ∑ j, (α ᵥ* P) j * (evalFactors L (fun e => bord (S' e) r') fs) (Sum.inl j) (Sum.inr ()) := by
  have hI := evalFactors_intertwine L (fun e => vanLoan (S e) (fun (_ : Fin 1) i => r i))
    (fun e => bord (S' e) r') (bordP P) (fun e => vanLoan_bord (S e) (S' e) P r r' (hS e) hr (hrow e)) fs
  have hent : ∀ i, ∑ j, (evalFactors L (fun e => vanLoan (S e) (fun (_ : Fin 1) i => r i)) fs)
        (0, i) (Fin.last 1, j)
      = ∑ j, P i j * (evalFactors L (fun e => bord (S' e) r') fs) (Sum.inl j) (Sum.inr ()) := by
    intro i
    have h := congrFun (congrFun hI (0, i)) (Sum.inr ())
    rw [Matrix.mul_apply, Matrix.mul_apply, Fintype.sum_prod_type, Fin.sum_univ_two,
      Fintype.sum_sum_type] at h
    have hl : (Fin.last 1 : Fin (1 + 1)) = 1 := rfl
    rw [hl]
    simpa [bordP] using h
  unfold accumVal
  simp only [← Finset.mul_sum, hent, Nat.factorial_one, Nat.cast_one, one_mul]
  simp only [Matrix.vecMul, dotProduct, Finset.sum_mul, Finset.mul_sum]
  rw [Finset.sum_comm]
  refine Finset.sum_congr rfl fun j _ => Finset.sum_congr rfl fun i _ => ?_
  ring

/-- zero row sums are inherited through an intertwining kernel with unit row sums -/
theorem rowsum_of_intertwine (S : Matrix ι ι K) (S' : Matrix ι' ι' K) (P : Matrix ι ι' K)
    (hS : S * P = P * S') (hP : ∀ i, ∑ j, P i j = 1) (hrow' : ∀ i, ∑ j, S' i j = 0) :
    ∀ i, ∑ j, S i j = 0 := by
  intro i
  have h1 : P *ᵥ (1 : ι' → K) = 1 := by
    funext x; simpa [Matrix.mulVec, dotProduct] using hP x
  have h2 : S' *ᵥ (1 : ι' → K) = 0 := by
    funext x; simpa [Matrix.mulVec, dotProduct] using hrow' x
  have : S *ᵥ (1 : ι → K) = 0 := by
    rw [← h1, Matrix.mulVec_mulVec, hS, ← Matrix.mulVec_mulVec, h2, Matrix.mulVec_zero]
  simpa [Matrix.mulVec, dotProduct] using congrFun this i

/-- **(a) First moments project.**  If `Kmat` intertwines the generators, `r = Kmat r'`, and the
generators have zero row sums, then the first moment of `r` for the big chain started from `α` is
the first moment of `r'` for the small chain started from `α Kmat`. -/
theorem accumVal_project (S : ℕ → Matrix ι ι K) (S' : ℕ → Matrix ι' ι' K) (Kmat : Matrix ι ι' K)
    (hK1 : ∀ i, ∑ j, Kmat i j = 1) (hS : ∀ e, S e * Kmat = Kmat * S' e)
    (hrow' : ∀ e i, ∑ j, S' e i j = 0)
    (r : ι → K) (r' : ι' → K) (hr : r = Kmat *ᵥ r') (α : ι → K) (fs : List (ℕ × K)) :
    accumVal L S (fun (_ : Fin 1) i => r i) α fs
      = accumVal L S' (fun (_ : Fin 1) i => r' i) (α ᵥ* Kmat) fs := by
  have hrow : ∀ e i, ∑ j, S e i j = 0 := fun e =>
    rowsum_of_intertwine (S e) (S' e) Kmat (hS e) hK1 (hrow' e)
  rw [accumVal_one_eq_bord L S S' Kmat r r' α hS hr hrow fs,
    accumVal_one_eq_bord L S' S' (1 : Matrix ι' ι' K) r' r' (α ᵥ* Kmat) (fun e => by simp)
      (by simp) hrow' fs]
  simp

/-- **(b) Monotone means.**  If `Kmat r' ≤ r` pointwise then the first moment of `r'` for the small
chain is at most the first moment of `r` for the big chain. -/
theorem accumVal_project_le (S : ℕ → Matrix ι ι K) (S' : ℕ → Matrix ι' ι' K)
    (Kmat : Matrix ι ι' K)
    (hK1 : ∀ i, ∑ j, Kmat i j = 1) (hS : ∀ e, S e * Kmat = Kmat * S' e)
    (hrow' : ∀ e i, ∑ j, S' e i j = 0)
    (hM : ∀ e i j, i ≠ j → 0 ≤ S e i j)
    (r : ι → K) (r' : ι' → K) (hr : ∀ i, (Kmat *ᵥ r') i ≤ r i) (α : ι → K) (hα : ∀ i, 0 ≤ α i)
    (fs : List (ℕ × K)) (hfs : ∀ f ∈ fs, 0 ≤ f.2) :
    accumVal L S' (fun (_ : Fin 1) i => r' i) (α ᵥ* Kmat) fs
      ≤ accumVal L S (fun (_ : Fin 1) i => r i) α fs := by
  rw [← accumVal_project L S S' Kmat hK1 hS hrow' (Kmat *ᵥ r') r' rfl α fs]
  exact accumVal_one_mono L S _ _ α hM hr hα fs hfs

/-- **Projection of a spectrum entry.**  If `Kmat r' = c₁ r₁ + c₂ r₂` then the first moment of `r'`
for the small chain is the same combination of the first moments of `r₁`, `r₂` for the big chain. -/
theorem accumVal_project_comb (S : ℕ → Matrix ι ι K) (S' : ℕ → Matrix ι' ι' K)
    (Kmat : Matrix ι ι' K)
    (hK1 : ∀ i, ∑ j, Kmat i j = 1) (hS : ∀ e, S e * Kmat = Kmat * S' e)
    (hrow' : ∀ e i, ∑ j, S' e i j = 0)
    (r1 r2 : ι → K) (r' : ι' → K) (c1 c2 : K)
    (hr : ∀ i, (Kmat *ᵥ r') i = c1 * r1 i + c2 * r2 i) (α : ι → K) (fs : List (ℕ × K)) :
    accumVal L S' (fun (_ : Fin 1) i => r' i) (α ᵥ* Kmat) fs
      = c1 * accumVal L S (fun (_ : Fin 1) i => r1 i) α fs
        + c2 * accumVal L S (fun (_ : Fin 1) i => r2 i) α fs := by
  rw [← accumVal_one_linear,
    ← accumVal_project L S S' Kmat hK1 hS hrow' (fun i => c1 * r1 i + c2 * r2 i) r'
      (funext fun i => (hr i).symm) α fs]

end MatrixLevel


open Finset



section IicSums

variable {T : Type} [DecidableEq T] [Fintype T] {K : Type} [Field K]

theorem wt_split (c κ : T → ℕ) (j : T) :
    wt c κ = (c j).choose (κ j) * ∏ t ∈ univ.erase j, (c t).choose (κ t) := by
  unfold wt
  exact (mul_prod_erase univ (fun t => (c t).choose (κ t)) (mem_univ j)).symm

theorem sub_e1_add_e1 (c : T → ℕ) (j : T) (h : 1 ≤ c j) : c - e1 j + e1 j = c := by
  funext t
  by_cases ht : t = j
  · subst ht; simp [e1]; omega
  · simp [e1, ht]

theorem add_e1_sub_e1 (c : T → ℕ) (j : T) : c + e1 j - e1 j = c := by
  funext t; simp

/-- absorption identity, first form -/
theorem wt_absorb1 (c κ : T → ℕ) (j : T) :
    c j * wt (c - e1 j) κ = (c j - κ j) * wt c κ := by
  rcases Nat.eq_zero_or_pos (c j) with h0 | hpos
  · simp [h0]
  · rw [wt_split c κ j, wt_split (c - e1 j) κ j]
    have hrest : ∏ t ∈ univ.erase j, ((c - e1 j) t).choose (κ t)
        = ∏ t ∈ univ.erase j, (c t).choose (κ t) := by
      refine prod_congr rfl fun t ht => ?_
      have : t ≠ j := (mem_erase.mp ht).1
      simp [e1, this]
    rw [hrest]
    obtain ⟨m, hm⟩ : ∃ m, c j = m + 1 := ⟨c j - 1, by omega⟩
    have h1 : (c - e1 j) j = m := by simp [e1, hm]
    rw [h1, hm]
    have := Nat.choose_mul_succ_eq m (κ j)
    generalize (∏ t ∈ univ.erase j, (c t).choose (κ t)) = R
    have h3 : (m + 1) * (m.choose (κ j) * R) = (m.choose (κ j) * (m + 1)) * R := by ring
    rw [h3, this]; ring

/-- absorption identity, second form -/
theorem wt_absorb2 (c κ : T → ℕ) (j : T) :
    c j * wt (c - e1 j) κ = (κ j + 1) * wt c (κ + e1 j) := by
  rw [wt_split c (κ + e1 j) j, wt_split (c - e1 j) κ j]
  have hrest : ∏ t ∈ univ.erase j, ((c - e1 j) t).choose (κ t)
      = ∏ t ∈ univ.erase j, (c t).choose ((κ + e1 j) t) := by
    refine prod_congr rfl fun t ht => ?_
    have : t ≠ j := (mem_erase.mp ht).1
    simp [e1, this]
  rw [hrest]
  have h2 : (κ + e1 j) j = κ j + 1 := by simp [e1]
  rw [h2]
  rcases Nat.eq_zero_or_pos (c j) with h0 | hpos
  · simp [h0]
  · obtain ⟨m, hm⟩ : ∃ m, c j = m + 1 := ⟨c j - 1, by omega⟩
    have h1 : (c - e1 j) j = m := by simp [e1, hm]
    rw [h1, hm]
    have := Nat.add_one_mul_choose_eq m (κ j)
    generalize (∏ t ∈ univ.erase j, (c t).choose ((κ + e1 j) t)) = R
    have h3 : (m + 1) * (m.choose (κ j) * R) = ((m + 1) * m.choose (κ j)) * R := by ring
    rw [h3, this]; ring

/-- Pascal's rule for weighted sums over sub-collections. -/
theorem pascal_sum (c : T → ℕ) (j : T) (h : (T → ℕ) → K) :
    ∑ κ ∈ Iic (c + e1 j), (wt (c + e1 j) κ : K) * h κ
      = ∑ κ ∈ Iic c, (wt c κ : K) * h κ + ∑ κ ∈ Iic c, (wt c κ : K) * h (κ + e1 j) := by
  obtain ⟨x, rfl⟩ := exists_list_cntF c
  have h1 := subselect (j :: x) h
  rw [List.sublists'_cons, List.map_append, List.sum_append, List.map_map] at h1
  have hF : ((fun c => h (cntF c)) ∘ List.cons j) = fun c => (fun κ => h (κ + e1 j)) (cntF c) := by
    funext c; simp [cntF_cons]
  rw [hF, subselect x h, subselect x (fun κ => h (κ + e1 j)), cntF_cons] at h1
  simp only [nsmul_eq_mul] at h1
  exact h1.symm

theorem Iic_sub_subset (a : T → ℕ) (t : T) : Iic (a - e1 t) ⊆ Iic a := by
  intro κ hκ
  rw [mem_Iic] at hκ ⊢
  exact hκ.trans (fun s => Nat.sub_le _ _)

/-- sums weighted by "number of unselected particles of type `t`" -/
theorem sum_absorb1 (a : T → ℕ) (t : T) (h : (T → ℕ) → K) :
    ∑ κ ∈ Iic a, ((a t - κ t : ℕ) : K) * ((wt a κ : K) * h κ)
      = (a t : K) * ∑ κ ∈ Iic (a - e1 t), (wt (a - e1 t) κ : K) * h κ := by
  rw [mul_sum, sum_subset (Iic_sub_subset a t)
    (f := fun κ => (a t : K) * ((wt (a - e1 t) κ : K) * h κ))]
  · refine sum_congr rfl fun κ _ => ?_
    rw [← mul_assoc, ← mul_assoc, ← Nat.cast_mul, ← Nat.cast_mul, wt_absorb1]
  · intro κ _ hκ
    rw [mem_Iic] at hκ
    rw [wt_eq_zero_of_not_le hκ]; simp

/-- sums weighted by "number of selected particles of type `t`" -/
theorem sum_absorb2 (a : T → ℕ) (t : T) (h : (T → ℕ) → K) :
    ∑ κ ∈ Iic a, ((κ t : ℕ) : K) * ((wt a κ : K) * h κ)
      = (a t : K) * ∑ κ ∈ Iic (a - e1 t), (wt (a - e1 t) κ : K) * h (κ + e1 t) := by
  rcases Nat.eq_zero_or_pos (a t) with h0 | hpos
  · rw [h0, Nat.cast_zero, zero_mul]
    apply sum_eq_zero
    intro κ hκ
    rw [mem_Iic] at hκ
    have : κ t ≤ a t := hκ t
    have : κ t = 0 := by omega
    simp [this]
  · rw [← sum_filter_add_sum_filter_not (Iic a) (fun κ => 1 ≤ κ t)]
    have hzero : ∑ κ ∈ filter (fun κ => ¬ 1 ≤ κ t) (Iic a),
        ((κ t : ℕ) : K) * ((wt a κ : K) * h κ) = 0 := by
      apply sum_eq_zero; intro κ hκ; rw [mem_filter] at hκ
      have : κ t = 0 := by omega
      simp [this]
    rw [hzero, add_zero, mul_sum]
    symm
    refine sum_nbij' (fun κ => κ + e1 t) (fun κ => κ - e1 t) ?_ ?_ ?_ ?_ ?_
    · intro κ hκ; rw [mem_Iic] at hκ; rw [mem_filter, mem_Iic]
      refine ⟨fun s => ?_, by simp [e1]⟩
      have h1 : κ s ≤ (a - e1 t) s := hκ s
      by_cases hs : s = t
      · subst hs; simp [e1] at h1 ⊢; omega
      · simp [e1, hs] at h1 ⊢; exact h1
    · intro κ hκ; rw [mem_filter, mem_Iic] at hκ; rw [mem_Iic]
      intro s
      have h1 : κ s ≤ a s := hκ.1 s
      by_cases hs : s = t
      · subst hs; simp [e1]; omega
      · simp [e1, hs]; exact h1
    · intro κ _; funext s; simp
    · intro κ hκ; rw [mem_filter] at hκ; funext s
      by_cases hs : s = t
      · subst hs; simp [e1]; omega
      · simp [e1, hs]
    · intro κ _
      have h2 : (κ + e1 t) t = κ t + 1 := by simp [e1]
      rw [h2, ← mul_assoc, ← mul_assoc, ← Nat.cast_mul, ← Nat.cast_mul, wt_absorb2]

end IicSums

section Kernel

variable {T : Type} [DecidableEq T] [Fintype T] {K : Type} [Field K]
variable (sz : T → ℕ) (ty : ℕ → T)

/-- number of blocks -/
def nblk (c : T → ℕ) : ℕ := ∑ t, c t

/-- number of samples subtended (`sz t` = size of a block of type `t`) -/
def mass (c : T → ℕ) : ℕ := ∑ t, sz t * c t

/-- merger rate: `k` of the `b` blocks merge at rate `lam b k` if `k ≥ 2` -/
def rho (lam : ℕ → ℕ → K) (b k : ℕ) : K := if 2 ≤ k then lam b k else 0

/-- generator of the single-population block-counting chain of a Λ-coalescent, applied to `g`:
every sub-collection `κ ≤ a` with at least two blocks merges at rate `lam (#blocks) |κ|`
(multiplicity `∏ choose (a t) (κ t)`) into one block of size `mass κ`.  It is the lumped generator
`QC` of `PGProofs/Labelled.lean`. -/
def Qgen (lam : ℕ → ℕ → K) (g : (T → ℕ) → K) (a : T → ℕ) : K :=
  QC (fun c κ => rho lam (nblk c) (nblk κ)) (fun κ => e1 (ty (mass sz κ))) g a

/-- remove one sample from a block of type `t` -/
def shrink (a : T → ℕ) (t : T) : T → ℕ :=
  if sz t = 1 then a - e1 t else a - e1 t + e1 (ty (sz t - 1))

/-- "remove a uniformly chosen sample" kernel from `n`-sample states to `(n-1)`-sample states -/
def Kker (n : ℕ) (g : (T → ℕ) → K) (a : T → ℕ) : K :=
  ∑ t, ((sz t * a t : ℕ) : K) / (n : K) * g (shrink sz ty a t)

/-- a function of the marked state (unmarked counts `c`, size `m` of the marked block) obtained from
a function of the state with one sample removed from the marked block -/
def Gm (g : (T → ℕ) → K) (c : T → ℕ) (m : ℕ) : K :=
  g (if m = 1 then c else c + e1 (ty (m - 1)))

/-- unnormalised uniform marking of one sample -/
def Umark (F : (T → ℕ) → ℕ → K) (a : T → ℕ) : K :=
  ∑ t, ((sz t * a t : ℕ) : K) * F (a - e1 t) (sz t)

/-- generator of the chain with one marked sample -/
def Qm (lam : ℕ → ℕ → K) (F : (T → ℕ) → ℕ → K) (c : T → ℕ) (m : ℕ) : K :=
  ∑ κ ∈ Iic c, (wt c κ : K) * (rho lam (nblk c + 1) (nblk κ) *
      (F (c - κ + e1 (ty (mass sz κ))) m - F c m))
  + ∑ κ ∈ Iic c, (wt c κ : K) * (rho lam (nblk c + 1) (nblk κ + 1) *
      (F (c - κ) (m + mass sz κ) - F c m))

theorem Gm_shrink (g : (T → ℕ) → K) (a : T → ℕ) (t : T) :
    Gm ty g (a - e1 t) (sz t) = g (shrink sz ty a t) := by
  unfold Gm shrink
  split_ifs <;> rfl

theorem Kker_eq (n : ℕ) (g : (T → ℕ) → K) (a : T → ℕ) :
    Kker sz ty n g a = (n : K)⁻¹ * Umark sz (Gm ty g) a := by
  unfold Kker Umark
  rw [mul_sum]
  refine sum_congr rfl fun t _ => ?_
  rw [Gm_shrink]
  ring

theorem Qgen_smul (lam : ℕ → ℕ → K) (c : K) (f : (T → ℕ) → K) (a : T → ℕ) :
    Qgen sz ty lam (fun x => c * f x) a = c * Qgen sz ty lam f a := by
  unfold Qgen QC
  rw [mul_sum]
  refine sum_congr rfl fun κ _ => ?_
  ring

/-- `Qgen`, unfolded: the sum over the sub-collections `κ ≤ a` of
`(∏ choose (a t) (κ t)) · λ(#a, #κ) · (g (a - κ + e_{size κ}) - g a)`, mergers needing `#κ ≥ 2`. -/
theorem Qgen_apply (lam : ℕ → ℕ → K) (g : (T → ℕ) → K) (a : T → ℕ) :
    Qgen sz ty lam g a
      = ∑ κ ∈ Iic a, ((∏ t, (a t).choose (κ t) : ℕ) : K) *
          ((if 2 ≤ ∑ t, κ t then lam (∑ t, a t) (∑ t, κ t) else 0) *
            (g (a - κ + Pi.single (ty (∑ t, sz t * κ t)) 1) - g a)) := rfl

theorem nblk_add (c d : T → ℕ) : nblk (c + d) = nblk c + nblk d := by
  unfold nblk; simp [sum_add_distrib]

theorem nblk_e1 (t : T) : nblk (e1 t) = 1 := by
  unfold nblk; simp [e1]

theorem mass_add (c d : T → ℕ) : mass sz (c + d) = mass sz c + mass sz d := by
  unfold mass; simp [mul_add, sum_add_distrib]

theorem mass_e1 (t : T) : mass sz (e1 t) = sz t := by
  unfold mass
  rw [Fintype.sum_eq_single t]
  · simp [e1]
  · intro s hs; simp [e1, hs]

end Kernel

section Consistency

variable {T : Type} [DecidableEq T] [Fintype T] {K : Type} [Field K]
variable (sz : T → ℕ) (ty : ℕ → T)

theorem nblk_mono {κ c : T → ℕ} (h : κ ≤ c) : nblk κ ≤ nblk c :=
  sum_le_sum fun t _ => h t

theorem eq_e1_of_nblk_eq_one {κ : T → ℕ} (h : nblk κ = 1) : ∃ v, κ = e1 v := by
  unfold nblk at h
  obtain ⟨v, _, hv⟩ := exists_ne_zero_of_sum_ne_zero (by rw [h]; exact one_ne_zero)
  refine ⟨v, ?_⟩
  rw [← add_sum_erase _ _ (mem_univ v)] at h
  have h1 : κ v = 1 ∧ ∑ t ∈ univ.erase v, κ t = 0 := by omega
  funext s
  by_cases hs : s = v
  · subst hs; simp [e1, h1.1]
  · have := (sum_eq_zero_iff.mp h1.2) s (mem_erase.mpr ⟨hs, mem_univ s⟩)
    simp [e1, hs, this]

variable {sz ty}

/-- **Consistency step.**  Forgetting the marked sample turns the marked chain into the chain for
one sample fewer, provided the rates are sampling-consistent. -/
theorem Qm_Gm (lam : ℕ → ℕ → K) {N : ℕ}
    (hcons : ∀ b k, 2 ≤ k → k ≤ b → lam b k = lam (b + 1) k + lam (b + 1) (k + 1))
    (hty : ∀ t, ty (sz t) = t) (hpos : ∀ t, 1 ≤ sz t)
    (hszty : ∀ s, 1 ≤ s → s ≤ N → sz (ty s) = s)
    (g : (T → ℕ) → K) (c : T → ℕ) (m : ℕ) (hm1 : 1 ≤ m) (hmN : m ≤ N + 1) :
    Qm sz ty lam (Gm ty g) c m = Gm ty (Qgen sz ty lam g) c m := by
  by_cases hm : m = 1
  · subst hm
    unfold Qm Qgen QC
    simp only [Gm, if_true]
    rw [← sum_add_distrib]
    refine sum_congr rfl fun κ hκ => ?_
    rw [mem_Iic] at hκ
    have hle := nblk_mono hκ
    rcases Nat.lt_or_ge (nblk κ) 2 with hlt | hge
    · rcases Nat.eq_zero_or_pos (nblk κ) with h0 | hp
      · simp [rho, h0]
      · have h1 : nblk κ = 1 := by omega
        obtain ⟨v, rfl⟩ := eq_e1_of_nblk_eq_one h1
        have hcv : 1 ≤ c v := by simpa [e1] using hκ v
        have hmv : mass sz (e1 v) = sz v := mass_e1 sz v
        have hsv : sz v ≠ 0 := by have := hpos v; omega
        have e4 : 1 + sz v - 1 = sz v := by omega
        simp [rho, h1, hmv, hty, sub_e1_add_e1 c v hcv, hsv, e4]
    · have hmass : ¬ (1 + mass sz κ = 1) := by
        have : nblk κ ≤ mass sz κ := by
          unfold nblk mass
          exact sum_le_sum fun t _ => by
            have := hpos t
            calc κ t = 1 * κ t := (one_mul _).symm
              _ ≤ sz t * κ t := Nat.mul_le_mul_right _ this
        omega
      have h3 : (2 : ℕ) ≤ nblk κ + 1 := by omega
      have e4 : 1 + mass sz κ - 1 = mass sz κ := by omega
      simp only [rho, if_pos hge, if_pos h3, if_neg hmass, hcons (nblk c) (nblk κ) hge hle, e4]
      ring
  · have hm2 : 2 ≤ m := by omega
    set v := ty (m - 1) with hv
    have hszv : sz v = m - 1 := hszty (m - 1) (by omega) (by omega)
    unfold Qm
    show _ = Qgen sz ty lam g (if m = 1 then c else c + e1 (ty (m - 1)))
    rw [if_neg hm, ← hv]
    unfold Qgen QC
    rw [pascal_sum]
    congr 1
    · refine sum_congr rfl fun κ hκ => ?_
      rw [mem_Iic] at hκ
      have e1' : c + e1 v - κ + e1 (ty (mass sz κ)) = c - κ + e1 (ty (mass sz κ)) + e1 v := by
        funext s
        have : κ s ≤ c s := hκ s
        simp only [Pi.add_apply, Pi.sub_apply]
        omega
      simp only [Gm, if_neg hm, ← hv, nblk_add, nblk_e1, e1']
    · refine sum_congr rfl fun κ hκ => ?_
      rw [mem_Iic] at hκ
      have e2 : c + e1 v - (κ + e1 v) = c - κ := by
        funext s
        simp only [Pi.add_apply, Pi.sub_apply]
        omega
      have hne : ¬ (m + mass sz κ = 1) := by omega
      have e3 : m + mass sz κ - 1 = mass sz κ + (m - 1) := by omega
      simp only [Gm, if_neg hm, if_neg hne, ← hv, nblk_add, nblk_e1, e2, mass_add, mass_e1, hszv, e3]

end Consistency

section Marking

variable {T : Type} [DecidableEq T] [Fintype T] {K : Type} [Field K]
variable {sz : T → ℕ} {ty : ℕ → T}

theorem Qgen_split (lam : ℕ → ℕ → K) (f : (T → ℕ) → K) (a : T → ℕ) :
    Qgen sz ty lam f a
      = ∑ κ ∈ Iic a, (wt a κ : K) * (rho lam (nblk a) (nblk κ) * f (a - κ + e1 (ty (mass sz κ))))
        - (∑ κ ∈ Iic a, (wt a κ : K) * rho lam (nblk a) (nblk κ)) * f a := by
  unfold Qgen QC
  rw [sum_mul, ← sum_sub_distrib]
  refine sum_congr rfl fun κ _ => ?_
  ring

theorem Qm_split (lam : ℕ → ℕ → K) (F : (T → ℕ) → ℕ → K) (c : T → ℕ) (m : ℕ) :
    Qm sz ty lam F c m
      = ∑ κ ∈ Iic c, (wt c κ : K) * (rho lam (nblk c + 1) (nblk κ) *
            F (c - κ + e1 (ty (mass sz κ))) m)
        + ∑ κ ∈ Iic c, (wt c κ : K) * (rho lam (nblk c + 1) (nblk κ + 1) *
            F (c - κ) (m + mass sz κ))
        - (∑ κ ∈ Iic c, (wt c κ : K) *
            (rho lam (nblk c + 1) (nblk κ) + rho lam (nblk c + 1) (nblk κ + 1))) * F c m := by
  unfold Qm
  rw [sum_mul, ← sum_add_distrib, ← sum_add_distrib, ← sum_sub_distrib]
  refine sum_congr rfl fun κ _ => ?_
  ring

theorem Umark_add_e1 (F : (T → ℕ) → ℕ → K) (c : T → ℕ) (u : T) :
    Umark sz F (c + e1 u)
      = ∑ t, ((sz t * c t : ℕ) : K) * F (c + e1 u - e1 t) (sz t) + (sz u : K) * F c (sz u) := by
  unfold Umark
  have h : ∀ t, ((sz t * (c + e1 u) t : ℕ) : K)
      = ((sz t * c t : ℕ) : K) + if t = u then (sz t : K) else 0 := by
    intro t
    by_cases ht : t = u
    · subst ht; simp [e1]; ring
    · simp [e1, ht]
  simp only [h, add_mul, sum_add_distrib, ite_mul, zero_mul, sum_ite_eq', mem_univ, if_true,
    add_e1_sub_e1]

theorem nblk_sub_e1 (a : T → ℕ) (t : T) (h : 1 ≤ a t) : nblk (a - e1 t) + 1 = nblk a := by
  have := congrArg nblk (sub_e1_add_e1 a t h)
  rw [nblk_add, nblk_e1] at this
  exact this

theorem mass_mono {κ c : T → ℕ} (h : κ ≤ c) : mass sz κ ≤ mass sz c :=
  sum_le_sum fun t _ => Nat.mul_le_mul_left _ (h t)

theorem nblk_le_mass (hpos : ∀ t, 1 ≤ sz t) (κ : T → ℕ) : nblk κ ≤ mass sz κ := by
  unfold nblk mass
  exact sum_le_sum fun t _ => by
    have := hpos t
    calc κ t = 1 * κ t := (one_mul _).symm
      _ ≤ sz t * κ t := Nat.mul_le_mul_right _ this

theorem gainA (lam : ℕ → ℕ → K) (F : (T → ℕ) → ℕ → K) (a : T → ℕ) (t : T) :
    ∑ κ ∈ Iic a, (wt a κ : K) * (rho lam (nblk a) (nblk κ) *
        (((sz t * (a - κ) t : ℕ) : K) * F (a - κ + e1 (ty (mass sz κ)) - e1 t) (sz t)))
      = ((sz t * a t : ℕ) : K) * ∑ κ ∈ Iic (a - e1 t), (wt (a - e1 t) κ : K) *
          (rho lam (nblk (a - e1 t) + 1) (nblk κ) *
            F (a - e1 t - κ + e1 (ty (mass sz κ))) (sz t)) := by
  rcases Nat.eq_zero_or_pos (a t) with h0 | hp
  · rw [h0, Nat.mul_zero, Nat.cast_zero, zero_mul]
    apply sum_eq_zero
    intro κ _
    simp [h0]
  · have hnb := nblk_sub_e1 a t hp
    calc _ = ∑ κ ∈ Iic a, ((a t - κ t : ℕ) : K) * ((wt a κ : K) * ((sz t : K) *
            (rho lam (nblk a) (nblk κ) * F (a - κ + e1 (ty (mass sz κ)) - e1 t) (sz t)))) := by
          refine sum_congr rfl fun κ _ => ?_
          rw [Pi.sub_apply, Nat.cast_mul]; ring
      _ = _ := by
          rw [sum_absorb1, Nat.cast_mul, mul_sum, mul_sum]
          refine sum_congr rfl fun κ hκ => ?_
          rw [mem_Iic] at hκ
          have e : a - κ + e1 (ty (mass sz κ)) - e1 t = a - e1 t - κ + e1 (ty (mass sz κ)) := by
            funext s
            have h1 : κ s ≤ (a - e1 t) s := hκ s
            by_cases hs : s = t
            · subst hs
              simp only [Pi.add_apply, Pi.sub_apply, e1, Pi.single_eq_same] at h1 ⊢
              omega
            · simp [e1, hs]
          rw [e, hnb]; ring

theorem gainB (lam : ℕ → ℕ → K) (F : (T → ℕ) → ℕ → K) (a : T → ℕ) (t : T) :
    ∑ κ ∈ Iic a, (wt a κ : K) * (rho lam (nblk a) (nblk κ) *
        (((sz t * κ t : ℕ) : K) * F (a - κ) (mass sz κ)))
      = ((sz t * a t : ℕ) : K) * ∑ κ ∈ Iic (a - e1 t), (wt (a - e1 t) κ : K) *
          (rho lam (nblk (a - e1 t) + 1) (nblk κ + 1) *
            F (a - e1 t - κ) (sz t + mass sz κ)) := by
  rcases Nat.eq_zero_or_pos (a t) with h0 | hp
  · rw [h0, Nat.mul_zero, Nat.cast_zero, zero_mul]
    apply sum_eq_zero
    intro κ hκ
    rw [mem_Iic] at hκ
    have : κ t ≤ a t := hκ t
    have : κ t = 0 := by omega
    simp [this]
  · have hnb := nblk_sub_e1 a t hp
    calc _ = ∑ κ ∈ Iic a, ((κ t : ℕ) : K) * ((wt a κ : K) * ((sz t : K) *
            (rho lam (nblk a) (nblk κ) * F (a - κ) (mass sz κ)))) := by
          refine sum_congr rfl fun κ _ => ?_
          rw [Nat.cast_mul]; ring
      _ = _ := by
          rw [sum_absorb2, Nat.cast_mul, mul_sum, mul_sum]
          refine sum_congr rfl fun κ hκ => ?_
          have e : a - (κ + e1 t) = a - e1 t - κ := by
            funext s
            simp only [Pi.add_apply, Pi.sub_apply]
            omega
          rw [e, hnb, nblk_add, nblk_e1, mass_add, mass_e1, add_comm (mass sz κ) (sz t)]; ring

theorem lossA (lam : ℕ → ℕ → K) (a : T → ℕ) (t : T) (hp : 1 ≤ a t) :
    ∑ κ ∈ Iic a, (wt a κ : K) * rho lam (nblk a) (nblk κ)
      = ∑ κ ∈ Iic (a - e1 t), (wt (a - e1 t) κ : K) *
          (rho lam (nblk (a - e1 t) + 1) (nblk κ) + rho lam (nblk (a - e1 t) + 1) (nblk κ + 1)) := by
  have h := pascal_sum (K := K) (a - e1 t) t (fun κ => rho lam (nblk a) (nblk κ))
  rw [sub_e1_add_e1 a t hp] at h
  rw [h, ← sum_add_distrib, nblk_sub_e1 a t hp]
  refine sum_congr rfl fun κ _ => ?_
  rw [nblk_add, nblk_e1]; ring

/-- **Exchangeability step.**  Marking a uniformly chosen sample commutes with the dynamics. -/
theorem Qgen_Umark (lam : ℕ → ℕ → K) {N : ℕ} (hpos : ∀ t, 1 ≤ sz t)
    (hszty : ∀ s, 1 ≤ s → s ≤ N → sz (ty s) = s)
    (F : (T → ℕ) → ℕ → K) (a : T → ℕ) (ha : mass sz a ≤ N) :
    Qgen sz ty lam (Umark sz F) a = Umark sz (Qm sz ty lam F) a := by
  rw [Qgen_split]
  have hG : ∑ κ ∈ Iic a, (wt a κ : K) * (rho lam (nblk a) (nblk κ) *
        Umark sz F (a - κ + e1 (ty (mass sz κ))))
      = ∑ t, ((sz t * a t : ℕ) : K) * ∑ κ ∈ Iic (a - e1 t), (wt (a - e1 t) κ : K) *
          (rho lam (nblk (a - e1 t) + 1) (nblk κ) *
            F (a - e1 t - κ + e1 (ty (mass sz κ))) (sz t))
        + ∑ t, ((sz t * a t : ℕ) : K) * ∑ κ ∈ Iic (a - e1 t), (wt (a - e1 t) κ : K) *
          (rho lam (nblk (a - e1 t) + 1) (nblk κ + 1) *
            F (a - e1 t - κ) (sz t + mass sz κ)) := by
    calc _ = ∑ κ ∈ Iic a, (∑ t, (wt a κ : K) * (rho lam (nblk a) (nblk κ) *
              (((sz t * (a - κ) t : ℕ) : K) * F (a - κ + e1 (ty (mass sz κ)) - e1 t) (sz t)))
            + ∑ t, (wt a κ : K) * (rho lam (nblk a) (nblk κ) *
              (((sz t * κ t : ℕ) : K) * F (a - κ) (mass sz κ)))) := by
          refine sum_congr rfl fun κ hκ => ?_
          rw [mem_Iic] at hκ
          by_cases hk : 2 ≤ nblk κ
          · have h1 : 1 ≤ mass sz κ := by have := nblk_le_mass (sz := sz) hpos κ; omega
            have h2 : mass sz κ ≤ N := (mass_mono hκ).trans ha
            have h3 : (mass sz κ : K) = ∑ t, ((sz t * κ t : ℕ) : K) := by
              unfold mass; rw [Nat.cast_sum]
            rw [Umark_add_e1, hszty _ h1 h2, h3, sum_mul, ← mul_sum, ← mul_sum, ← mul_sum,
              ← mul_sum, ← mul_add, ← mul_add]
          · simp [rho, hk]
      _ = _ := by
          rw [sum_add_distrib, sum_comm, sum_comm (s := Iic a)]
          congr 1
          · exact sum_congr rfl fun t _ => gainA lam F a t
          · exact sum_congr rfl fun t _ => gainB lam F a t
  have hL : (∑ κ ∈ Iic a, (wt a κ : K) * rho lam (nblk a) (nblk κ)) * Umark sz F a
      = ∑ t, ((sz t * a t : ℕ) : K) * ((∑ κ ∈ Iic (a - e1 t), (wt (a - e1 t) κ : K) *
          (rho lam (nblk (a - e1 t) + 1) (nblk κ) + rho lam (nblk (a - e1 t) + 1) (nblk κ + 1)))
          * F (a - e1 t) (sz t)) := by
    unfold Umark
    rw [mul_sum]
    refine sum_congr rfl fun t _ => ?_
    rcases Nat.eq_zero_or_pos (a t) with h0 | hp
    · simp [h0]
    · rw [lossA lam a t hp]; ring
  rw [hG, hL]
  unfold Umark
  simp only [Qm_split, mul_sub, mul_add, sum_sub_distrib, sum_add_distrib]

end Marking

section Intertwine

variable {T : Type} [DecidableEq T] [Fintype T] {K : Type} [Field K]
variable {sz : T → ℕ} {ty : ℕ → T}

/-- **Kernel intertwining.**  For sampling-consistent rates, removing a uniformly chosen sample
commutes with the block-counting generator: `Q (K g) = K (Q g)`. -/
theorem kernel_intertwine (lam : ℕ → ℕ → K) {N : ℕ}
    (hcons : ∀ b k, 2 ≤ k → k ≤ b → lam b k = lam (b + 1) k + lam (b + 1) (k + 1))
    (hty : ∀ t, ty (sz t) = t) (hpos : ∀ t, 1 ≤ sz t) (hszN : ∀ t, sz t ≤ N)
    (hszty : ∀ s, 1 ≤ s → s ≤ N → sz (ty s) = s)
    (n : ℕ) (g : (T → ℕ) → K) (a : T → ℕ) (ha : mass sz a ≤ N) :
    Qgen sz ty lam (Kker sz ty n g) a = Kker sz ty n (Qgen sz ty lam g) a := by
  have h1 : Kker sz ty n g = fun x => (n : K)⁻¹ * Umark sz (Gm ty g) x :=
    funext (Kker_eq sz ty n g)
  rw [h1, Qgen_smul, Qgen_Umark lam hpos hszty _ a ha, Kker_eq]
  congr 1
  unfold Umark
  refine sum_congr rfl fun t _ => ?_
  rw [Qm_Gm lam hcons hty hpos hszty g (a - e1 t) (sz t) (hpos t) ((hszN t).trans (Nat.le_succ N))]

end Intertwine

section Projection

variable {T : Type} [DecidableEq T] [Fintype T]
variable {sz : T → ℕ} {ty : ℕ → T}

section FieldOnly
variable {K : Type} [Field K]

theorem mass_cast (a : T → ℕ) : ((mass sz a : ℕ) : K) = ∑ t, ((sz t * a t : ℕ) : K) := by
  unfold mass; rw [Nat.cast_sum]

/-- `K 1 = 1`: the kernel is stochastic on states of mass `n`. -/
theorem K_one (n : ℕ) (hn : (n : K) ≠ 0) (a : T → ℕ) (ha : mass sz a = n) :
    Kker sz ty n (fun _ => (1 : K)) a = 1 := by
  unfold Kker
  simp only [mul_one]
  rw [← sum_div, ← mass_cast, ha, div_self hn]

theorem sz_injective (hty : ∀ t, ty (sz t) = t) : Function.Injective sz := by
  intro s t h
  rw [← hty s, ← hty t, h]

/-- the number of blocks of type `v` after removing a sample from a block of type `t` -/
theorem shrink_apply_nat {N : ℕ} (hty : ∀ t, ty (sz t) = t) (hpos : ∀ t, 1 ≤ sz t)
    (hszN : ∀ t, sz t ≤ N) (hszty : ∀ s, 1 ≤ s → s ≤ N → sz (ty s) = s)
    (a : T → ℕ) (t v v' : T) (hv' : sz v' = sz v + 1) (hat : 1 ≤ a t) :
    shrink sz ty a t v + (if t = v then 1 else 0) = a v + (if t = v' then 1 else 0) := by
  have hinj := sz_injective (sz := sz) (ty := ty) hty
  have hvv' : v ≠ v' := fun h => by rw [← h] at hv'; omega
  unfold shrink
  by_cases h1 : sz t = 1
  · rw [if_pos h1]
    have htv' : t ≠ v' := fun h => by rw [h] at h1; have := hpos v; omega
    rw [if_neg htv']
    by_cases htv : t = v
    · subst htv; simp [e1]; omega
    · simp [e1, htv, Ne.symm htv]
  · rw [if_neg h1]
    have h2 : 2 ≤ sz t := by have := hpos t; omega
    have hw : sz (ty (sz t - 1)) = sz t - 1 := hszty _ (by omega) (by have := hszN t; omega)
    by_cases htv' : t = v'
    · have hwv : ty (sz t - 1) = v := by
        rw [htv', hv', Nat.add_sub_cancel, hty]
      have htv : t ≠ v := fun h => hvv' (h.symm.trans htv')
      subst htv'
      rw [hwv]
      simp [e1, htv, Ne.symm htv]
    · have hwv : ty (sz t - 1) ≠ v := by
        intro h
        apply htv'
        apply hinj
        rw [hv', ← h, hw]; omega
      by_cases htv : t = v
      · subst htv; simp [e1, htv', Ne.symm hwv]; omega
      · simp [e1, htv, htv', Ne.symm hwv, Ne.symm htv]

/-- **Projection of the SFS reward.**  With `sfs_v (a) = a v` (number of blocks of type `v`) and
`v'` the type of blocks one sample larger than `v`:
`K sfs_v = ((n - |v|)/n) sfs_v + (|v'|/n) sfs_{v'}` on every state of mass `n`. -/
theorem K_sfs {N : ℕ} (hty : ∀ t, ty (sz t) = t) (hpos : ∀ t, 1 ≤ sz t)
    (hszN : ∀ t, sz t ≤ N) (hszty : ∀ s, 1 ≤ s → s ≤ N → sz (ty s) = s)
    (n : ℕ) (hn : (n : K) ≠ 0) (a : T → ℕ) (ha : mass sz a = n)
    (v v' : T) (hv' : sz v' = sz v + 1) :
    Kker sz ty n (fun c => (c v : K)) a
      = (((n : K) - (sz v : K)) / (n : K)) * (a v : K)
        + (((sz v : K) + 1) / (n : K)) * (a v' : K) := by
  unfold Kker
  have hterm : ∀ t, ((sz t * a t : ℕ) : K) / (n : K) * ((shrink sz ty a t v : ℕ) : K)
      = ((sz t * a t : ℕ) : K) / (n : K) * (a v : K)
        - (if t = v then ((sz t * a t : ℕ) : K) / (n : K) else 0)
        + (if t = v' then ((sz t * a t : ℕ) : K) / (n : K) else 0) := by
    intro t
    rcases Nat.eq_zero_or_pos (a t) with h0 | hp
    · simp [h0]
    · have h := congrArg (Nat.cast : ℕ → K)
        (shrink_apply_nat hty hpos hszN hszty a t v v' hv' hp)
      push_cast at h
      have h' : ((shrink sz ty a t v : ℕ) : K)
          = (a v : K) - (if t = v then 1 else 0) + (if t = v' then 1 else 0) := by
        linear_combination h
      rw [h']
      split_ifs <;> ring
  simp only [hterm, sum_add_distrib, sum_sub_distrib, sum_ite_eq', mem_univ, if_true]
  rw [← sum_mul, ← sum_div, ← mass_cast, ha, hv']
  push_cast
  field_simp

/-- the initial state (`n` singletons) is mapped to the initial state for `n - 1` samples -/
theorem K_alpha (n : ℕ) (hn : (n : K) ≠ 0) (t1 : T) (h1 : sz t1 = 1) (g : (T → ℕ) → K) :
    Kker sz ty n g (n • e1 t1) = g ((n - 1) • e1 t1) := by
  unfold Kker
  rw [Fintype.sum_eq_single t1]
  · have e : shrink sz ty (n • e1 t1) t1 = (n - 1) • e1 t1 := by
      unfold shrink
      rw [if_pos h1]
      funext s
      by_cases hs : s = t1
      · subst hs; simp [e1]
      · simp [e1, hs]
    rw [e, h1]
    simp [e1, hn]
  · intro t ht
    simp [e1, ht]

end FieldOnly

section Ordered
variable {K : Type} [Field K] [LinearOrder K] [IsStrictOrderedRing K]

/-- a kernel average is bounded by a pointwise bound on the reachable states -/
theorem K_le_of_forall (n : ℕ) (hn : 0 < n) (g : (T → ℕ) → K) (a : T → ℕ) (ha : mass sz a = n)
    (B : K) (h : ∀ t, 1 ≤ a t → g (shrink sz ty a t) ≤ B) :
    Kker sz ty n g a ≤ B := by
  have hn' : (0 : K) < (n : K) := Nat.cast_pos.mpr hn
  have h1 := K_one (K := K) (sz := sz) (ty := ty) n hn'.ne' a ha
  unfold Kker at h1 ⊢
  calc ∑ t, ((sz t * a t : ℕ) : K) / (n : K) * g (shrink sz ty a t)
      ≤ ∑ t, ((sz t * a t : ℕ) : K) / (n : K) * B := by
        refine sum_le_sum fun t _ => ?_
        rcases Nat.eq_zero_or_pos (a t) with h0 | hp
        · simp [h0]
        · exact mul_le_mul_of_nonneg_left (h t hp) (div_nonneg (Nat.cast_nonneg _) hn'.le)
    _ = B := by
        rw [← sum_mul]
        simp only [mul_one] at h1
        rw [h1, one_mul]

theorem nblk_shrink_le (a : T → ℕ) (t : T) (hp : 1 ≤ a t) :
    nblk (shrink sz ty a t) ≤ nblk a := by
  have := nblk_sub_e1 a t hp
  unfold shrink
  split_ifs
  · omega
  · rw [nblk_add, nblk_e1]; omega

/-- tree-height reward: `1` while at least two blocks remain -/
def heightR (c : T → ℕ) : K := if 1 < nblk c then 1 else 0

/-- total-branch-length reward: the number of blocks while at least two remain -/
def tblR (c : T → ℕ) : K := if 1 < nblk c then (nblk c : K) else 0

theorem K_height (n : ℕ) (hn : 0 < n) (a : T → ℕ) (ha : mass sz a = n) :
    Kker sz ty n (heightR (K := K)) a ≤ heightR a := by
  apply K_le_of_forall n hn _ a ha
  intro t hp
  have := nblk_shrink_le (sz := sz) (ty := ty) a t hp
  unfold heightR
  split_ifs with h1 h2
  · exact le_refl _
  · omega
  · exact zero_le_one
  · exact le_refl _

theorem K_tbl (n : ℕ) (hn : 0 < n) (a : T → ℕ) (ha : mass sz a = n) :
    Kker sz ty n (tblR (K := K)) a ≤ tblR a := by
  apply K_le_of_forall n hn _ a ha
  intro t hp
  have := nblk_shrink_le (sz := sz) (ty := ty) a t hp
  unfold tblR
  split_ifs with h1 h2
  · exact Nat.cast_le.mpr this
  · omega
  · exact Nat.cast_nonneg _
  · exact le_refl _

end Ordered

end Projection



section Concrete

variable {T : Type} [DecidableEq T] [Fintype T]
variable (sz : T → ℕ) (ty : ℕ → T)

/-- the finite set of states (block-count vectors) of mass `n` -/
def stF (n : ℕ) : Finset (T → ℕ) := (Iic (fun _ => n)).filter (fun a => mass sz a = n)

variable {sz}

theorem mem_stF (hpos : ∀ t, 1 ≤ sz t) {n : ℕ} {a : T → ℕ} : a ∈ stF sz n ↔ mass sz a = n := by
  unfold stF
  rw [mem_filter, mem_Iic]
  refine ⟨fun h => h.2, fun h => ⟨fun t => ?_, h⟩⟩
  have h1 : sz t * a t ≤ mass sz a :=
    single_le_sum (f := fun t => sz t * a t) (fun _ _ => Nat.zero_le _) (mem_univ t)
  have h2 : a t ≤ sz t * a t := by
    calc a t = 1 * a t := (one_mul _).symm
      _ ≤ sz t * a t := Nat.mul_le_mul_right _ (hpos t)
  show a t ≤ n
  omega

variable (sz)

/-- the type of states of mass `n` -/
abbrev St (n : ℕ) : Type := {a : T → ℕ // a ∈ stF sz n}

section Ext
variable {K : Type} [Field K]

/-- extension by zero of a function on the states of mass `n` -/
def ext0 {n : ℕ} (g : St sz n → K) (c : T → ℕ) : K :=
  ∑ a' : St sz n, (if c = a'.1 then 1 else 0) * g a'

theorem ext0_restrict {n : ℕ} (F : (T → ℕ) → K) (c : T → ℕ) (hc : c ∈ stF sz n) :
    ext0 sz (fun a' : St sz n => F a'.1) c = F c := by
  unfold ext0
  rw [sum_eq_single (⟨c, hc⟩ : St sz n)]
  · simp
  · intro b _ hb
    have : c ≠ b.1 := fun h => hb (Subtype.ext h.symm)
    simp [this]
  · intro h; exact absurd (mem_univ _) h

variable {sz} {ty}

theorem Qgen_sum {ι : Type} (s : Finset ι) (lam : ℕ → ℕ → K) (w : ι → K)
    (f : ι → (T → ℕ) → K) (a : T → ℕ) :
    Qgen sz ty lam (fun c => ∑ i ∈ s, f i c * w i) a = ∑ i ∈ s, Qgen sz ty lam (f i) a * w i := by
  unfold Qgen QC
  simp only [← sum_sub_distrib, mul_sum, sum_mul]
  rw [sum_comm]
  refine sum_congr rfl fun i _ => sum_congr rfl fun κ _ => ?_
  ring

theorem Kker_sum {ι : Type} (s : Finset ι) (n : ℕ) (w : ι → K)
    (f : ι → (T → ℕ) → K) (a : T → ℕ) :
    Kker sz ty n (fun c => ∑ i ∈ s, f i c * w i) a = ∑ i ∈ s, Kker sz ty n (f i) a * w i := by
  unfold Kker
  simp only [mul_sum, sum_mul]
  rw [sum_comm]
  refine sum_congr rfl fun i _ => sum_congr rfl fun t _ => ?_
  ring

theorem mass_sub {κ a : T → ℕ} (h : κ ≤ a) : mass sz (a - κ) + mass sz κ = mass sz a := by
  rw [← mass_add]
  congr 1
  funext t
  have : κ t ≤ a t := h t
  simp only [Pi.add_apply, Pi.sub_apply]
  omega

/-- the generator only looks at states of the same mass -/
theorem Qgen_congr_mass (lam : ℕ → ℕ → K) {N : ℕ} (hpos : ∀ t, 1 ≤ sz t)
    (hszty : ∀ s, 1 ≤ s → s ≤ N → sz (ty s) = s) (f1 f2 : (T → ℕ) → K) (a : T → ℕ)
    (ha : mass sz a ≤ N) (h : ∀ c, mass sz c = mass sz a → f1 c = f2 c) :
    Qgen sz ty lam f1 a = Qgen sz ty lam f2 a := by
  unfold Qgen QC
  refine sum_congr rfl fun κ hκ => ?_
  rw [mem_Iic] at hκ
  by_cases hk : 2 ≤ nblk κ
  · have h1 : 1 ≤ mass sz κ := by have := nblk_le_mass (sz := sz) hpos κ; omega
    have h2 : mass sz κ ≤ N := (mass_mono hκ).trans ha
    have hm : mass sz (a - κ + e1 (ty (mass sz κ))) = mass sz a := by
      rw [mass_add, mass_e1, hszty _ h1 h2, mass_sub hκ]
    rw [h _ hm, h a rfl]
  · simp [rho, hk]

theorem mass_shrink {N : ℕ} (hpos : ∀ t, 1 ≤ sz t) (hszN : ∀ t, sz t ≤ N)
    (hszty : ∀ s, 1 ≤ s → s ≤ N → sz (ty s) = s) (a : T → ℕ) (t : T) (hp : 1 ≤ a t) :
    mass sz (shrink sz ty a t) + 1 = mass sz a := by
  have h0 := congrArg (mass sz) (sub_e1_add_e1 a t hp)
  rw [mass_add, mass_e1] at h0
  have := hpos t
  unfold shrink
  split_ifs with h1
  · omega
  · rw [mass_add, mass_e1, hszty _ (by omega) (by have := hszN t; omega)]
    omega

/-- the kernel only looks at states with one sample fewer -/
theorem Kker_congr_mass {N : ℕ} (hpos : ∀ t, 1 ≤ sz t) (hszN : ∀ t, sz t ≤ N)
    (hszty : ∀ s, 1 ≤ s → s ≤ N → sz (ty s) = s) (n m : ℕ) (f1 f2 : (T → ℕ) → K) (a : T → ℕ)
    (ha : mass sz a = n + 1) (h : ∀ c, mass sz c = n → f1 c = f2 c) :
    Kker sz ty m f1 a = Kker sz ty m f2 a := by
  unfold Kker
  refine sum_congr rfl fun t _ => ?_
  rcases Nat.eq_zero_or_pos (a t) with h0 | hp
  · simp [h0]
  · have := mass_shrink (ty := ty) hpos hszN hszty a t hp
    rw [h _ (by omega)]

theorem Qgen_const (lam : ℕ → ℕ → K) (x : K) (a : T → ℕ) :
    Qgen sz ty lam (fun _ => x) a = 0 := by
  unfold Qgen QC
  simp

end Ext

section Matrices

variable {K : Type} [Field K]

/-- generator matrix of the block-counting chain on the states of mass `n` -/
def genMat (lam : ℕ → ℕ → K) (n : ℕ) : Matrix (St sz n) (St sz n) K :=
  Matrix.of fun a a' => Qgen sz ty lam (fun c => if c = a'.1 then 1 else 0) a.1

/-- matrix of the "remove a uniformly chosen sample" kernel from mass `n + 1` to mass `n` -/
def Kmat (n : ℕ) : Matrix (St sz (n + 1)) (St sz n) K :=
  Matrix.of fun a a' => Kker sz ty (n + 1) (fun c => if c = a'.1 then 1 else 0) a.1

variable {sz} {ty}

theorem genMat_mulVec (lam : ℕ → ℕ → K) (n : ℕ) (g : St sz n → K) (a : St sz n) :
    (genMat sz ty lam n *ᵥ g) a = Qgen sz ty lam (ext0 sz g) a.1 := by
  unfold ext0
  rw [Qgen_sum]
  rfl

theorem Kmat_mulVec (n : ℕ) (g : St sz n → K) (a : St sz (n + 1)) :
    (Kmat (K := K) sz ty n *ᵥ g) a = Kker sz ty (n + 1) (ext0 sz g) a.1 := by
  unfold ext0
  rw [Kker_sum]
  rfl

/-- **Matrix form of the kernel intertwining.** -/
theorem genMat_intertwine (lam : ℕ → ℕ → K) {N : ℕ}
    (hcons : ∀ b k, 2 ≤ k → k ≤ b → lam b k = lam (b + 1) k + lam (b + 1) (k + 1))
    (hty : ∀ t, ty (sz t) = t) (hpos : ∀ t, 1 ≤ sz t) (hszN : ∀ t, sz t ≤ N)
    (hszty : ∀ s, 1 ≤ s → s ≤ N → sz (ty s) = s) (n : ℕ) (hn : n + 1 ≤ N) :
    genMat sz ty lam (n + 1) * Kmat sz ty n = Kmat sz ty n * genMat sz ty lam n := by
  ext a a''
  have ha : mass sz a.1 = n + 1 := (mem_stF hpos).mp a.2
  rw [Matrix.mul_apply, Matrix.mul_apply]
  have hl : ∑ j, genMat sz ty lam (n + 1) a j * Kmat (K := K) sz ty n j a''
      = (genMat sz ty lam (n + 1) *ᵥ (fun a' => Kmat (K := K) sz ty n a' a'')) a := rfl
  have hr : ∑ j, Kmat (K := K) sz ty n a j * genMat sz ty lam n j a''
      = (Kmat (K := K) sz ty n *ᵥ (fun a' => genMat sz ty lam n a' a'')) a := rfl
  rw [hl, hr, genMat_mulVec, Kmat_mulVec]
  have e1 : Qgen sz ty lam (ext0 sz fun a' => Kmat (K := K) sz ty n a' a'') a.1
      = Qgen sz ty lam (Kker sz ty (n + 1) (fun c => if c = a''.1 then 1 else 0)) a.1 :=
    Qgen_congr_mass lam hpos hszty _ _ a.1 (by omega)
      (fun c hc => ext0_restrict sz (Kker sz ty (n + 1) (fun c => if c = a''.1 then 1 else 0)) c
        ((mem_stF hpos).mpr (hc.trans ha)))
  have e2 : Kker sz ty (n + 1) (ext0 sz fun a' => genMat sz ty lam n a' a'') a.1
      = Kker sz ty (n + 1) (Qgen sz ty lam (fun c => if c = a''.1 then 1 else 0)) a.1 :=
    Kker_congr_mass hpos hszN hszty n (n + 1) _ _ a.1 ha
      (fun c hc => ext0_restrict sz (Qgen sz ty lam (fun c => if c = a''.1 then 1 else 0)) c
        ((mem_stF hpos).mpr hc))
  rw [e1, e2]
  exact kernel_intertwine lam hcons hty hpos hszN hszty (n + 1) _ a.1 (by omega)

theorem genMat_rowsum (lam : ℕ → ℕ → K) {N : ℕ} (hpos : ∀ t, 1 ≤ sz t)
    (hszty : ∀ s, 1 ≤ s → s ≤ N → sz (ty s) = s) (n : ℕ) (hn : n ≤ N) (a : St sz n) :
    ∑ a', genMat sz ty lam n a a' = 0 := by
  have ha : mass sz a.1 = n := (mem_stF hpos).mp a.2
  have h1 : ∑ a', genMat sz ty lam n a a' = (genMat sz ty lam n *ᵥ (fun _ => (1 : K))) a := by
    simp [Matrix.mulVec, dotProduct]
  rw [h1, genMat_mulVec,
    Qgen_congr_mass lam hpos hszty _ (fun _ => (1 : K)) a.1 (by omega)
      (fun c hc => ext0_restrict sz (fun _ => (1 : K)) c ((mem_stF hpos).mpr (hc.trans ha))),
    Qgen_const]

theorem Kmat_rowsum {N : ℕ} [CharZero K] (hpos : ∀ t, 1 ≤ sz t) (hszN : ∀ t, sz t ≤ N)
    (hszty : ∀ s, 1 ≤ s → s ≤ N → sz (ty s) = s) (n : ℕ) (a : St sz (n + 1)) :
    ∑ a', Kmat (K := K) sz ty n a a' = 1 := by
  have ha : mass sz a.1 = n + 1 := (mem_stF hpos).mp a.2
  have h1 : ∑ a', Kmat (K := K) sz ty n a a' = (Kmat (K := K) sz ty n *ᵥ (fun _ => (1 : K))) a := by
    simp [Matrix.mulVec, dotProduct]
  rw [h1, Kmat_mulVec,
    Kker_congr_mass hpos hszN hszty n (n + 1) _ (fun _ => (1 : K)) a.1 ha
      (fun c hc => ext0_restrict sz (fun _ => (1 : K)) c ((mem_stF hpos).mpr hc))]
  exact K_one (n + 1) (Nat.cast_ne_zero.mpr (Nat.succ_ne_zero n)) a.1 ha

end Matrices

section Final

variable {K : Type} [Field K] [LinearOrder K] [IsStrictOrderedRing K]

/-- `sz` is a bijective coding of the block sizes `1, …, N` by the types `T`, with inverse `ty`. -/
structure SizeCoding (sz : T → ℕ) (ty : ℕ → T) (N : ℕ) : Prop where
  hty : ∀ t, ty (sz t) = t
  hpos : ∀ t, 1 ≤ sz t
  hszN : ∀ t, sz t ≤ N
  hszty : ∀ s, 1 ≤ s → s ≤ N → sz (ty s) = s

variable {sz} {ty} {N : ℕ}

theorem genMat_metzler (lam : ℕ → ℕ → K) (hlam : ∀ b k, 0 ≤ lam b k) (n : ℕ)
    (a a' : St sz n) (h : a ≠ a') : 0 ≤ genMat sz ty lam n a a' := by
  have hne : a.1 ≠ a'.1 := fun h' => h (Subtype.ext h')
  show 0 ≤ Qgen sz ty lam (fun c => if c = a'.1 then 1 else 0) a.1
  unfold Qgen QC
  refine sum_nonneg fun κ _ => mul_nonneg (Nat.cast_nonneg _) (mul_nonneg ?_ ?_)
  · unfold rho; dsimp only; split_ifs
    · exact hlam _ _
    · exact le_refl _
  · dsimp only
    rw [if_neg hne, sub_zero]
    split_ifs
    · exact zero_le_one
    · exact le_refl _

/-- the point mass at a state -/
def dirac {n : ℕ} (a : St sz n) : St sz n → K := Pi.single a 1

/-- the state "`n` singletons" -/
def singletons (H : SizeCoding sz ty N) (n : ℕ) : St sz n :=
  ⟨n • e1 (ty 1), (mem_stF H.hpos).mpr (by
    rcases Nat.eq_zero_or_pos N with h0 | hp
    · have h1 := H.hpos (ty 1)
      have h2 := H.hszN (ty 1)
      omega
    · rw [show (n • e1 (ty 1) : T → ℕ) = fun t => n * e1 (ty 1) t from by
        funext t; simp]
      unfold mass
      rw [Fintype.sum_eq_single (ty 1)]
      · simp [e1, H.hszty 1 (le_refl 1) hp]
      · intro t ht; simp [e1, ht])⟩

/-- the initial state for `n + 1` samples is mapped to the initial state for `n` samples -/
theorem Kmat_alpha (H : SizeCoding sz ty N) (hN : 1 ≤ N) (n : ℕ) :
    dirac (K := K) (singletons H (n + 1)) ᵥ* Kmat sz ty n = dirac (singletons H n) := by
  unfold dirac
  rw [Matrix.single_one_vecMul]
  funext a'
  show Kker sz ty (n + 1) (fun c => if c = a'.1 then 1 else 0) ((n + 1) • e1 (ty 1)) = _
  rw [K_alpha (n + 1) (Nat.cast_ne_zero.mpr (Nat.succ_ne_zero n)) (ty 1)
    (H.hszty 1 (le_refl 1) hN), Nat.add_sub_cancel]
  by_cases h : a' = singletons H n
  · subst h; simp [singletons]
  · have h' : ¬ (n • e1 (ty 1) = a'.1) := fun h'' => h (Subtype.ext h''.symm)
    rw [if_neg h', Pi.single_apply, if_neg h]

variable (L : ExpLaw K)

theorem speed_intertwine (H : SizeCoding sz ty N) (lam : ℕ → ℕ → K)
    (hcons : ∀ b k, 2 ≤ k → k ≤ b → lam b k = lam (b + 1) k + lam (b + 1) (k + 1))
    (n : ℕ) (hn : n + 1 ≤ N) (s : K) :
    (s • genMat sz ty lam (n + 1)) * Kmat sz ty n = Kmat sz ty n * (s • genMat sz ty lam n) := by
  rw [Matrix.smul_mul, Matrix.mul_smul,
    genMat_intertwine lam hcons H.hty H.hpos H.hszN H.hszty n hn]

theorem speed_rowsum (H : SizeCoding sz ty N) (lam : ℕ → ℕ → K) (n : ℕ) (hn : n ≤ N) (s : K)
    (a : St sz n) : ∑ a', (s • genMat sz ty lam n) a a' = 0 := by
  simp only [Matrix.smul_apply, smul_eq_mul, ← mul_sum,
    genMat_rowsum lam H.hpos H.hszty n hn a, mul_zero]

/-- **C13 (spectrum).**  For a Λ-coalescent with sampling-consistent rates, any epoch-wise time
change `speed` and any list of durations `fs`, the expected number of branches subtending the
block size of `v` with `n` samples is the hypergeometric down-projection of the expected spectrum
with `n + 1` samples. -/
theorem C13_sfs (H : SizeCoding sz ty N) (lam : ℕ → ℕ → K)
    (hcons : ∀ b k, 2 ≤ k → k ≤ b → lam b k = lam (b + 1) k + lam (b + 1) (k + 1))
    (speed : ℕ → K) (n : ℕ) (hn : n + 1 ≤ N) (v v' : T) (hv' : sz v' = sz v + 1)
    (α : St sz (n + 1) → K) (fs : List (ℕ × K)) :
    accumVal L (fun e => speed e • genMat sz ty lam n) (fun (_ : Fin 1) a' => (a'.1 v : K))
        (α ᵥ* Kmat sz ty n) fs
      = ((((n + 1 : ℕ) : K) - (sz v : K)) / ((n + 1 : ℕ) : K)) *
          accumVal L (fun e => speed e • genMat sz ty lam (n + 1))
            (fun (_ : Fin 1) a => (a.1 v : K)) α fs
        + (((sz v : K) + 1) / ((n + 1 : ℕ) : K)) *
          accumVal L (fun e => speed e • genMat sz ty lam (n + 1))
            (fun (_ : Fin 1) a => (a.1 v' : K)) α fs := by
  refine accumVal_project_comb L _ _ (Kmat sz ty n)
    (Kmat_rowsum H.hpos H.hszN H.hszty n)
    (fun e => speed_intertwine H lam hcons n hn (speed e))
    (fun e => speed_rowsum H lam n (by omega) (speed e))
    (fun a => (a.1 v : K)) (fun a => (a.1 v' : K)) (fun a' => (a'.1 v : K)) _ _ ?_ α fs
  intro a
  have ha : mass sz a.1 = n + 1 := (mem_stF H.hpos).mp a.2
  rw [Kmat_mulVec,
    Kker_congr_mass H.hpos H.hszN H.hszty n (n + 1) _ (fun c => (c v : K)) a.1 ha
      (fun c hc => ext0_restrict sz (fun c => (c v : K)) c ((mem_stF H.hpos).mpr hc))]
  exact K_sfs H.hty H.hpos H.hszN H.hszty (n + 1) (Nat.cast_ne_zero.mpr (Nat.succ_ne_zero n))
    a.1 ha v v' hv'

/-- generic monotonicity: a reward whose kernel average is dominated has a dominated mean -/
theorem C13_le (H : SizeCoding sz ty N) (lam : ℕ → ℕ → K)
    (hcons : ∀ b k, 2 ≤ k → k ≤ b → lam b k = lam (b + 1) k + lam (b + 1) (k + 1))
    (hlam : ∀ b k, 0 ≤ lam b k)
    (speed : ℕ → K) (hspeed : ∀ e, 0 ≤ speed e) (n : ℕ) (hn : n + 1 ≤ N)
    (R : (T → ℕ) → K)
    (hR : ∀ a, mass sz a = n + 1 → Kker sz ty (n + 1) R a ≤ R a)
    (α : St sz (n + 1) → K) (hα : ∀ a, 0 ≤ α a) (fs : List (ℕ × K)) (hfs : ∀ f ∈ fs, 0 ≤ f.2) :
    accumVal L (fun e => speed e • genMat sz ty lam n) (fun (_ : Fin 1) a' => R a'.1)
        (α ᵥ* Kmat sz ty n) fs
      ≤ accumVal L (fun e => speed e • genMat sz ty lam (n + 1)) (fun (_ : Fin 1) a => R a.1)
          α fs := by
  refine accumVal_project_le L _ _ (Kmat sz ty n)
    (Kmat_rowsum H.hpos H.hszN H.hszty n)
    (fun e => speed_intertwine H lam hcons n hn (speed e))
    (fun e => speed_rowsum H lam n (by omega) (speed e))
    ?_ (fun a => R a.1) (fun a' => R a'.1) ?_ α hα fs hfs
  · intro e a a' h
    rw [Matrix.smul_apply, smul_eq_mul]
    exact mul_nonneg (hspeed e) (genMat_metzler lam hlam (n + 1) a a' h)
  · intro a
    have ha : mass sz a.1 = n + 1 := (mem_stF H.hpos).mp a.2
    rw [Kmat_mulVec,
      Kker_congr_mass H.hpos H.hszN H.hszty n (n + 1) _ R a.1 ha
        (fun c hc => ext0_restrict sz R c ((mem_stF H.hpos).mpr hc))]
    exact hR a.1 ha

/-- **C13 (tree height).**  The expected tree height (up to the end of the factor list) does not
decrease when a sample is added. -/
theorem C13_height (H : SizeCoding sz ty N) (lam : ℕ → ℕ → K)
    (hcons : ∀ b k, 2 ≤ k → k ≤ b → lam b k = lam (b + 1) k + lam (b + 1) (k + 1))
    (hlam : ∀ b k, 0 ≤ lam b k)
    (speed : ℕ → K) (hspeed : ∀ e, 0 ≤ speed e) (n : ℕ) (hn : n + 1 ≤ N)
    (α : St sz (n + 1) → K) (hα : ∀ a, 0 ≤ α a) (fs : List (ℕ × K)) (hfs : ∀ f ∈ fs, 0 ≤ f.2) :
    accumVal L (fun e => speed e • genMat sz ty lam n) (fun (_ : Fin 1) a' => heightR a'.1)
        (α ᵥ* Kmat sz ty n) fs
      ≤ accumVal L (fun e => speed e • genMat sz ty lam (n + 1))
          (fun (_ : Fin 1) a => heightR a.1) α fs :=
  C13_le L H lam hcons hlam speed hspeed n hn heightR
    (fun a ha => K_height (n + 1) (Nat.succ_pos n) a ha) α hα fs hfs

/-- **C13 (total branch length).**  The expected total branch length does not decrease when a
sample is added. -/
theorem C13_tbl (H : SizeCoding sz ty N) (lam : ℕ → ℕ → K)
    (hcons : ∀ b k, 2 ≤ k → k ≤ b → lam b k = lam (b + 1) k + lam (b + 1) (k + 1))
    (hlam : ∀ b k, 0 ≤ lam b k)
    (speed : ℕ → K) (hspeed : ∀ e, 0 ≤ speed e) (n : ℕ) (hn : n + 1 ≤ N)
    (α : St sz (n + 1) → K) (hα : ∀ a, 0 ≤ α a) (fs : List (ℕ × K)) (hfs : ∀ f ∈ fs, 0 ≤ f.2) :
    accumVal L (fun e => speed e • genMat sz ty lam n) (fun (_ : Fin 1) a' => tblR a'.1)
        (α ᵥ* Kmat sz ty n) fs
      ≤ accumVal L (fun e => speed e • genMat sz ty lam (n + 1))
          (fun (_ : Fin 1) a => tblR a.1) α fs :=
  C13_le L H lam hcons hlam speed hspeed n hn tblR
    (fun a ha => K_tbl (n + 1) (Nat.succ_pos n) a ha) α hα fs hfs

end Final

/-! ## The concrete coding: type `i : Fin N` is the block size `i + 1` -/

section FinCoding

/-- block of type `i : Fin N` has size `i + 1` -/
def finSz (N : ℕ) (i : Fin N) : ℕ := i.val + 1

/-- the type of a block of size `s` (as in `blkRes` of `PGProofs/Labelled.lean`) -/
def finTy (N : ℕ) [NeZero N] (s : ℕ) : Fin N := Fin.ofNat N (s - 1)

theorem finCoding (N : ℕ) [NeZero N] : SizeCoding (finSz N) (finTy N) N where
  hty := by
    intro t
    apply Fin.ext
    simp only [finTy, finSz, Nat.add_sub_cancel, Fin.ofNat]
    exact Nat.mod_eq_of_lt t.isLt
  hpos := fun t => Nat.succ_pos _
  hszN := fun t => t.isLt
  hszty := by
    intro s h1 h2
    simp only [finSz, finTy, Fin.ofNat]
    rw [Nat.mod_eq_of_lt (by omega)]
    omega

end FinCoding

end Concrete


/-! ## Specialisations: `Fin N` coding, and the model rates of `PGModel/Rates.lean` -/

section Specialised

variable {K : Type} [Field K] [LinearOrder K] [IsStrictOrderedRing K]

/-- the kernel intertwining in the concrete coding `Fin N` (`a i` = number of blocks of size
`i + 1`) -/
theorem kernel_intertwine_fin (N : ℕ) [NeZero N] (lam : ℕ → ℕ → K)
    (hcons : ∀ b k, 2 ≤ k → k ≤ b → lam b k = lam (b + 1) k + lam (b + 1) (k + 1))
    (n : ℕ) (g : (Fin N → ℕ) → K) (a : Fin N → ℕ) (ha : mass (finSz N) a ≤ N) :
    Qgen (finSz N) (finTy N) lam (Kker (finSz N) (finTy N) n g) a
      = Kker (finSz N) (finTy N) n (Qgen (finSz N) (finTy N) lam g) a :=
  kernel_intertwine lam hcons (finCoding N).hty (finCoding N).hpos (finCoding N).hszN
    (finCoding N).hszty n g a ha

/-- the SFS projection in the concrete coding: for `i + 1 < N` (block sizes `i + 1` and `i + 2`) -/
theorem K_sfs_fin (N : ℕ) [NeZero N] (n : ℕ) (hn : 0 < n) (a : Fin N → ℕ)
    (ha : mass (finSz N) a = n) (i : Fin N) (hi : i.val + 1 < N) :
    Kker (finSz N) (finTy N) n (fun c => (c i : K)) a
      = (((n : K) - ((i.val + 1 : ℕ) : K)) / (n : K)) * (a i : K)
        + ((((i.val + 1 : ℕ) : K) + 1) / (n : K)) * (a ⟨i.val + 1, hi⟩ : K) :=
  K_sfs (finCoding N).hty (finCoding N).hpos (finCoding N).hszN (finCoding N).hszty n
    (Nat.cast_ne_zero.mpr hn.ne') a ha i ⟨i.val + 1, hi⟩ rfl

/-- the model rates `lam m` (Kingman, Beta, Dirac), cast to `K`, are sampling-consistent -/
theorem model_rates_consistent (m : Model) (b k : ℕ) (hk : 2 ≤ k) (hkb : k ≤ b) :
    ((lam m b k : ℚ) : K) = ((lam m (b + 1) k : ℚ) : K) + ((lam m (b + 1) (k + 1) : ℚ) : K) := by
  rw [lam_consistent m b k hk hkb, Rat.cast_add]

theorem model_rates_nonneg (m : Model) (hm : m.Valid) (b k : ℕ) : (0 : K) ≤ ((lam m b k : ℚ) : K) :=
  Rat.cast_nonneg.mpr (lam_nonneg m hm b k)

/-- **C13 for the model rates**, concrete coding: expected SFS entry `i + 1` for `n` samples from
the expected SFS for `n + 1` samples. -/
theorem C13_sfs_model (L : ExpLaw K) (N : ℕ) [NeZero N] (m : Model) (speed : ℕ → K) (n : ℕ)
    (hn : n + 1 ≤ N) (i : Fin N) (hi : i.val + 1 < N)
    (α : St (finSz N) (n + 1) → K) (fs : List (ℕ × K)) :
    accumVal L (fun e => speed e • genMat (finSz N) (finTy N) (fun b k => ((lam m b k : ℚ) : K)) n)
        (fun (_ : Fin 1) a' => (a'.1 i : K)) (α ᵥ* Kmat (finSz N) (finTy N) n) fs
      = ((((n + 1 : ℕ) : K) - ((i.val + 1 : ℕ) : K)) / ((n + 1 : ℕ) : K)) *
          accumVal L
            (fun e => speed e • genMat (finSz N) (finTy N) (fun b k => ((lam m b k : ℚ) : K)) (n + 1))
            (fun (_ : Fin 1) a => (a.1 i : K)) α fs
        + ((((i.val + 1 : ℕ) : K) + 1) / ((n + 1 : ℕ) : K)) *
          accumVal L
            (fun e => speed e • genMat (finSz N) (finTy N) (fun b k => ((lam m b k : ℚ) : K)) (n + 1))
            (fun (_ : Fin 1) a => (a.1 ⟨i.val + 1, hi⟩ : K)) α fs :=
  C13_sfs L (finCoding N) _ (fun b k hk hkb => model_rates_consistent m b k hk hkb) speed n hn
    i ⟨i.val + 1, hi⟩ rfl α fs

end Specialised

end PG

#print axioms PG.accumVal_one_linear
#print axioms PG.accumVal_one_add
#print axioms PG.accumVal_one_smul
#print axioms PG.accumVal_one_mono
#print axioms PG.accumVal_project
#print axioms PG.accumVal_project_le
#print axioms PG.accumVal_project_comb
#print axioms PG.pascal_sum
#print axioms PG.Qm_Gm
#print axioms PG.Qgen_Umark
#print axioms PG.kernel_intertwine
#print axioms PG.K_one
#print axioms PG.K_sfs
#print axioms PG.K_alpha
#print axioms PG.K_height
#print axioms PG.K_tbl
#print axioms PG.genMat_intertwine
#print axioms PG.genMat_rowsum
#print axioms PG.Kmat_rowsum
#print axioms PG.genMat_metzler
#print axioms PG.Kmat_alpha
#print axioms PG.C13_sfs
#print axioms PG.C13_le
#print axioms PG.C13_height
#print axioms PG.C13_tbl
#print axioms PG.finCoding
#print axioms PG.kernel_intertwine_fin
#print axioms PG.K_sfs_fin
#print axioms PG.C13_sfs_model

