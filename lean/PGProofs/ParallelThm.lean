/-
PGProofs.ParallelThm — theorems about the model of `utils.parallelize` and of the result assembly
(`PGModel.Parallel`, property C17: results do not depend on parallel execution).

All statements hold for every unit function `f`, every `data` and EVERY schedule that is a permutation of the
positions `List.range data.length` (no bound on the length).

* `imapOrdered_prefix`              after ANY sequence of completions the consumer of `Pool.imap` has been handed exactly
                                     the results of the positions `0 … k-1`, `k` the first position not completed yet
* `imapOrdered_eq_map`               `imapOrdered f data sched = data.map f`
* `parallelize_schedule_irrelevant`  `parallelizeCall .current f data par pbar sched = data.map f`
* `parallelize_parallel_eq_sequential`, `parallelize_two_schedules`
* `assembleVec_spec`, `assembleMat_spec`   the zip loops put `results[k]` at `indices[k]` and leave 0 elsewhere
* `assembleVec_eq_pad`               for `indices = [1, …, m]` the loop is `[0] + results + [0] * (n - m)`
* `sfs_moment_parallel_eq_sequential`, `sfs_cov_parallel_eq_sequential`
* `imapUnordered_getElem?`, `imapUnordered_range`, `imapUnordered_perm`, `imapUnordered_eq_map_iff`
* `unordered_counterexample`         the seeded variant puts a value into the wrong bin
* non-vacuity examples with the schedule `[2, 0, 3, 1]`
-/
import PGModel.Parallel
import Mathlib.Data.List.Nodup
import Mathlib.Data.List.Perm.Basic

set_option linter.unusedSectionVars false
set_option linter.unusedVariables false

namespace PG.Parallel

variable {α β : Type}

/-! ### `Pool.imap`: the ordered iterator -/

/-- what `drain` hands over when the buffer holds exactly the results of the positions in `D` -/
theorem drain_spec (f : α → β) (data : List α) (D : List Nat) (hD : ∀ j ∈ D, j < data.length)
    (b : Buffer β) (hb : ∀ j, b j = if j ∈ D then data[j]?.map f else none) :
    ∀ fuel next, next + fuel = data.length →
      ∃ m, next ≤ m ∧ m ≤ data.length ∧ (∀ j, next ≤ j → j < m → j ∈ D) ∧ m ∉ D ∧
        drain b fuel next = ((data.take m).drop next).map f := by
  intro fuel
  induction fuel with
  | zero =>
    intro next h
    refine ⟨data.length, by omega, Nat.le_refl _, fun j h1 h2 => by omega, fun hm => ?_, ?_⟩
    · exact absurd (hD _ hm) (Nat.lt_irrefl _)
    · have : next = data.length := by omega
      subst this
      simp [drain]
  | succ fuel ih =>
    intro next h
    have hlt : next < data.length := by omega
    by_cases hm : next ∈ D
    · have hbn : b next = some (f data[next]) := by
        rw [hb next, if_pos hm, List.getElem?_eq_getElem hlt]; rfl
      obtain ⟨m, h1, h2, h3, h4, h5⟩ := ih (next + 1) (by omega)
      refine ⟨m, by omega, h2, fun j hj1 hj2 => ?_, h4, ?_⟩
      · by_cases hj : j = next
        · exact hj ▸ hm
        · exact h3 j (by omega) hj2
      · have hlen : next < (data.take m).length := by
          rw [List.length_take]; omega
        rw [List.drop_eq_getElem_cons hlen, List.map_cons, List.getElem_take]
        simp only [drain, hbn, h5]
    · have hbn : b next = none := by rw [hb next, if_neg hm]
      refine ⟨next, Nat.le_refl _, by omega, fun j h1 h2 => by omega, hm, ?_⟩
      simp [drain, hbn]

/-- the invariant of the ordered iterator: `D` = the positions completed so far -/
structure Inv (f : α → β) (data : List α) (D : List Nat) (st : ImapState β) : Prop where
  dom : ∀ j ∈ D, j < data.length
  buf : ∀ j, st.buf j = if j ∈ D then data[j]?.map f else none
  le : st.next ≤ data.length
  below : ∀ j, j < st.next → j ∈ D
  notin : st.next ∉ D
  out : st.out = (data.take st.next).map f

theorem inv_init (f : α → β) (data : List α) : Inv f data [] (ImapState.init : ImapState β) where
  dom := by simp
  buf := by simp [ImapState.init]
  le := Nat.zero_le _
  below := by simp [ImapState.init]
  notin := by simp
  out := by simp [ImapState.init]

theorem imapStep_out_of_range (f : α → β) (data : List α) (st : ImapState β) (i : Nat) (hi : ¬ i < data.length) :
    imapStep f data st i = st := by
  have : data[i]? = none := List.getElem?_eq_none (by omega)
  simp [imapStep, this]

theorem inv_step (f : α → β) (data : List α) (D : List Nat) (st : ImapState β) (h : Inv f data D st)
    (i : Nat) (hi : i < data.length) : Inv f data (i :: D) (imapStep f data st i) := by
  have hget : data[i]? = some data[i] := List.getElem?_eq_getElem hi
  have hdom : ∀ j ∈ i :: D, j < data.length := by
    intro j hj
    rcases List.mem_cons.1 hj with rfl | hj
    · exact hi
    · exact h.dom j hj
  have hbuf : ∀ j, (st.buf.put i (f data[i])) j = if j ∈ i :: D then data[j]?.map f else none := by
    intro j
    by_cases hj : j = i
    · subst hj; simp [Buffer.put, hget]
    · simp only [Buffer.put, h.buf j, List.mem_cons, hj, false_or, if_false]
  obtain ⟨m, h1, h2, h3, h4, h5⟩ :=
    drain_spec f data (i :: D) hdom _ hbuf (data.length - st.next) st.next (by have := h.le; omega)
  have hlen : (drain (st.buf.put i (f data[i])) (data.length - st.next) st.next).length = m - st.next := by
    rw [h5, List.length_map, List.length_drop, List.length_take]; omega
  have hstep : imapStep f data st i =
      { buf := st.buf.put i (f data[i]), next := m,
        out := st.out ++ ((data.take m).drop st.next).map f } := by
    have hnext : st.next + (drain (st.buf.put i (f data[i])) (data.length - st.next) st.next).length = m := by
      rw [hlen]; omega
    simp only [imapStep, hget, hnext]
    rw [h5]
  rw [hstep]
  refine ⟨hdom, hbuf, h2, fun j hj => ?_, h4, ?_⟩
  · by_cases hjn : j < st.next
    · exact List.mem_cons_of_mem _ (h.below j hjn)
    · exact h3 j (by omega) hj
  · show st.out ++ ((data.take m).drop st.next).map f = (data.take m).map f
    have : data.take st.next = (data.take m).take st.next := by
      rw [List.take_take, Nat.min_eq_left h1]
    rw [h.out, this, ← List.map_append, List.take_append_drop]

/-- the invariant holds after any sequence of completions; `D'` collects the in-range ones -/
theorem inv_run (f : α → β) (data : List α) :
    ∀ (sched : List Nat) (D : List Nat) (st : ImapState β), Inv f data D st →
      ∃ D', Inv f data D' (sched.foldl (imapStep f data) st) ∧
        ∀ j, j ∈ D' ↔ (j ∈ D ∨ (j ∈ sched ∧ j < data.length)) := by
  intro sched
  induction sched with
  | nil => intro D st h; exact ⟨D, h, by simp⟩
  | cons i rest ih =>
    intro D st h
    by_cases hi : i < data.length
    · obtain ⟨D', hD', hmem⟩ := ih (i :: D) _ (inv_step f data D st h i hi)
      refine ⟨D', hD', fun j => ?_⟩
      rw [hmem j]
      simp only [List.mem_cons]
      constructor
      · rintro ((rfl | h1) | h1)
        · exact Or.inr ⟨Or.inl rfl, hi⟩
        · exact Or.inl h1
        · exact Or.inr ⟨Or.inr h1.1, h1.2⟩
      · rintro (h1 | ⟨rfl | h1, h2⟩)
        · exact Or.inl (Or.inr h1)
        · exact Or.inl (Or.inl rfl)
        · exact Or.inr ⟨h1, h2⟩
    · rw [List.foldl_cons, imapStep_out_of_range f data st i hi]
      obtain ⟨D', hD', hmem⟩ := ih D st h
      refine ⟨D', hD', fun j => ?_⟩
      rw [hmem j]
      simp only [List.mem_cons]
      constructor
      · rintro (h1 | h1)
        · exact Or.inl h1
        · exact Or.inr ⟨Or.inr h1.1, h1.2⟩
      · rintro (h1 | ⟨rfl | h1, h2⟩)
        · exact Or.inl h1
        · exact absurd h2 hi
        · exact Or.inr ⟨h1, h2⟩

/-- **Buffering.**  After ANY sequence of completions (a pool run interrupted anywhere, repetitions and positions
that do not exist allowed) the consumer of `Pool.imap` has been handed exactly the results of the positions
`0, …, k-1` in data order, where `k` is the first position that has not completed yet. -/
theorem imapOrdered_prefix (f : α → β) (data : List α) (sched : List Nat) :
    ∃ k, k ≤ data.length ∧ (∀ j, j < k → j ∈ sched) ∧ (k < data.length → k ∉ sched) ∧
      imapOrdered f data sched = (data.take k).map f := by
  obtain ⟨D', h, hmem⟩ := inv_run f data sched [] ImapState.init (inv_init f data)
  refine ⟨(imapRun f data sched).next, h.le, fun j hj => ?_, fun hk hin => ?_, h.out⟩
  · rcases (hmem j).1 (h.below j hj) with h1 | h1
    · simp at h1
    · exact h1.1
  · exact h.notin ((hmem _).2 (Or.inr ⟨hin, hk⟩))

/-- the ordered iterator yields the sequential result as soon as every position has completed -/
theorem imapOrdered_eq_map_of_cover (f : α → β) (data : List α) (sched : List Nat)
    (hcover : ∀ j, j < data.length → j ∈ sched) : imapOrdered f data sched = data.map f := by
  obtain ⟨k, hk, _, hnot, hout⟩ := imapOrdered_prefix f data sched
  have : k = data.length := by
    by_cases hlt : k < data.length
    · exact absurd (hcover k hlt) (hnot hlt)
    · omega
  rw [hout, this, List.take_length]

/-- **1.**  `list(Pool().imap(f, data)) = list(map(f, data))` whatever the order in which the units complete. -/
theorem imapOrdered_eq_map (f : α → β) (data : List α) (sched : List Nat)
    (hs : sched.Perm (List.range data.length)) : imapOrdered f data sched = data.map f :=
  imapOrdered_eq_map_of_cover f data sched fun j hj => (hs.mem_iff).2 (List.mem_range.2 hj)

/-! ### `utils.parallelize` -/

/-- **2.**  The pinned `parallelize` returns the sequential result for every value of the flags `parallelize`, `pbar`
and every schedule of the pool. -/
theorem parallelize_schedule_irrelevant (f : α → β) (data : List α) (par pbar : Bool) (sched : List Nat)
    (hs : sched.Perm (List.range data.length)) :
    parallelizeCall .current f data par pbar sched = data.map f := by
  unfold parallelizeCall
  split
  · exact imapOrdered_eq_map f data sched hs
  · rfl

/-- parallel execution (any schedule, with or without progress bar) against sequential execution -/
theorem parallelize_parallel_eq_sequential (f : α → β) (data : List α) (pbar pbar' : Bool) (sched sched' : List Nat)
    (hs : sched.Perm (List.range data.length)) :
    parallelizeCall .current f data true pbar sched = parallelizeCall .current f data false pbar' sched' := by
  rw [parallelize_schedule_irrelevant f data true pbar sched hs]
  simp [parallelizeCall]

/-- two runs of the pool -/
theorem parallelize_two_schedules (f : α → β) (data : List α) (par pbar : Bool) (s₁ s₂ : List Nat)
    (h₁ : s₁.Perm (List.range data.length)) (h₂ : s₂.Perm (List.range data.length)) :
    parallelizeCall .current f data par pbar s₁ = parallelizeCall .current f data par pbar s₂ := by
  rw [parallelize_schedule_irrelevant f data par pbar s₁ h₁, parallelize_schedule_irrelevant f data par pbar s₂ h₂]

/-- the possible schedules are exactly the lists `isSchedule` accepts (what the driver checks) -/
theorem isSchedule_iff (n : Nat) (sched : List Nat) : isSchedule n sched = true ↔ sched.Perm (List.range n) := by
  simp only [isSchedule, Bool.and_eq_true, beq_iff_eq, List.all_eq_true, List.mem_range, List.contains_iff_mem]
  constructor
  · rintro ⟨hlen, hall⟩
    have hsub : List.range n ⊆ sched := fun j hj => hall j (List.mem_range.1 hj)
    have hsp : (List.range n).Subperm sched := List.subperm_of_subset List.nodup_range hsub
    exact (hsp.perm_of_length_le (by simp [hlen])).symm
  · intro h
    exact ⟨by simpa using h.length_eq, fun j hj => h.mem_iff.2 (List.mem_range.2 hj)⟩

/-! ### a store that is written entry by entry -/

section Store

variable {S K : Type} [DecidableEq K]

/-- `for (k, v) in ps: s[k] = v` -/
def writeAll (upd : S → K → β → S) (s : S) (ps : List (K × β)) : S :=
  ps.foldl (fun acc p => upd acc p.1 p.2) s

structure StoreLaws (get : S → K → Option β) (upd : S → K → β → S) : Prop where
  same : ∀ s k v, (get s k).isSome → get (upd s k v) k = some v
  other : ∀ s k k' v, k ≠ k' → get (upd s k v) k' = get s k'

variable {get : S → K → Option β} {upd : S → K → β → S}

theorem writeAll_get_of_not_mem (L : StoreLaws get upd) :
    ∀ (ps : List (K × β)) (s : S) (j : K), j ∉ ps.map Prod.fst → get (writeAll upd s ps) j = get s j := by
  intro ps
  induction ps with
  | nil => intro s j _; rfl
  | cons p rest ih =>
    intro s j hj
    simp only [List.map_cons, List.mem_cons, not_or] at hj
    show get (writeAll upd (upd s p.1 p.2) rest) j = get s j
    rw [ih _ j hj.2, L.other _ _ _ _ (Ne.symm hj.1)]

theorem writeAll_get_of_mem (L : StoreLaws get upd) :
    ∀ (ps : List (K × β)) (s : S) (j : K) (r : β), (ps.map Prod.fst).Nodup → (j, r) ∈ ps → (get s j).isSome →
      get (writeAll upd s ps) j = some r := by
  intro ps
  induction ps with
  | nil => intro s j r _ h; simp at h
  | cons p rest ih =>
    intro s j r hnd hmem hs
    simp only [List.map_cons, List.nodup_cons] at hnd
    show get (writeAll upd (upd s p.1 p.2) rest) j = some r
    rcases List.mem_cons.1 hmem with hp | hp
    · subst hp
      rw [writeAll_get_of_not_mem L rest _ j hnd.1]
      exact L.same s j r hs
    · have hne : p.1 ≠ j := by
        intro he
        apply hnd.1
        rw [he]
        exact List.mem_map.2 ⟨(j, r), hp, rfl⟩
      apply ih _ j r hnd.2 hp
      rw [L.other _ _ _ _ hne]
      exact hs

theorem writeAll_map_get (L : StoreLaws get upd) (f : K → β) :
    ∀ (ks : List K) (s : S) (j : K), (get s j).isSome →
      get (writeAll upd s (ks.map fun k => (k, f k))) j = if j ∈ ks then some (f j) else get s j := by
  intro ks
  induction ks with
  | nil => intro s j _; simp [writeAll]
  | cons k rest ih =>
    intro s j hs
    show get (writeAll upd (upd s k (f k)) (rest.map fun k => (k, f k))) j = _
    by_cases hkj : k = j
    · subst hkj
      have h1 : get (upd s k (f k)) k = some (f k) := L.same s k (f k) hs
      rw [ih _ k (by simp [h1]), h1]
      simp
    · have h1 : get (upd s k (f k)) j = get s j := L.other _ _ _ _ hkj
      rw [ih _ j (by rw [h1]; exact hs), h1]
      simp [List.mem_cons, Ne.symm hkj]

end Store

theorem zip_map_self (l : List α) (f : α → β) : l.zip (l.map f) = l.map fun a => (a, f a) := by
  induction l with
  | nil => rfl
  | cons a l ih => simp [ih]

/-! ### the vector of bins -/

theorem vecLaws : StoreLaws (β := β) (fun (l : List β) (j : Nat) => l[j]?) List.set where
  same := by
    intro s k v h
    have hk : k < s.length := by
      by_contra hc
      rw [List.getElem?_eq_none (by omega)] at h
      simp at h
    exact List.getElem?_set_self hk
  other := by
    intro s k k' v h
    exact List.getElem?_set_ne h

theorem assembleVec_eq_writeAll (zero : β) (n : Nat) (indices : List Nat) (results : List β) :
    assembleVec zero n indices results = writeAll List.set (List.replicate (n + 1) zero) (indices.zip results) := rfl

theorem length_writeAll_set (ps : List (Nat × β)) : ∀ (s : List β), (writeAll List.set s ps).length = s.length := by
  induction ps with
  | nil => intro s; rfl
  | cons p rest ih =>
    intro s
    show (writeAll List.set (s.set p.1 p.2) rest).length = _
    rw [ih, List.length_set]

theorem assembleVec_length (zero : β) (n : Nat) (indices : List Nat) (results : List β) :
    (assembleVec zero n indices results).length = n + 1 := by
  rw [assembleVec_eq_writeAll, length_writeAll_set, List.length_replicate]

/-- **3.**  The loop `for (i, result) in zip(indices, results): sfs[i] = result` on `zeros(n + 1)`: for pairwise
distinct `indices ≤ n`, entry `indices[k]` is `results[k]` and every other entry is 0. -/
theorem assembleVec_spec (zero : β) (n : Nat) (indices : List Nat) (results : List β)
    (hnd : indices.Nodup) (hle : ∀ i ∈ indices, i ≤ n) (hlen : results.length = indices.length) :
    (assembleVec zero n indices results).length = n + 1 ∧
    (∀ k (hk : k < indices.length),
      (assembleVec zero n indices results)[indices[k]]? = some (results[k]'(by omega))) ∧
    (∀ j, j ≤ n → j ∉ indices → (assembleVec zero n indices results)[j]? = some zero) := by
  have hkeys : (indices.zip results).map Prod.fst = indices := List.map_fst_zip (by omega)
  refine ⟨assembleVec_length zero n indices results, fun k hk => ?_, fun j hj hni => ?_⟩
  · rw [assembleVec_eq_writeAll]
    apply writeAll_get_of_mem vecLaws _ _ _ _ (by rw [hkeys]; exact hnd)
    · have hkz : k < (indices.zip results).length := by rw [List.length_zip]; omega
      have : (indices.zip results)[k] = (indices[k], results[k]'(by omega)) := List.getElem_zip
      rw [← this]
      exact List.getElem_mem hkz
    · have : indices[k] ≤ n := hle _ (List.getElem_mem hk)
      simp [List.getElem?_replicate]; omega
  · rw [assembleVec_eq_writeAll, writeAll_get_of_not_mem vecLaws _ _ j (by rw [hkeys]; exact hni)]
    simp [List.getElem?_replicate]; omega

/-- for `indices = [1, …, m]` (`SFSDistribution._get_indices`) the loop is the concatenation
`[0] + list(results) + [0] * (n - m)` of `SFSDistribution.moment` -/
theorem assembleVec_eq_pad (zero : β) (n m : Nat) (results : List β) (hm : m ≤ n) (hlen : results.length = m) :
    assembleVec zero n ((List.range m).map (· + 1)) results = zero :: results ++ List.replicate (n - m) zero := by
  have hnd : ((List.range m).map (· + 1)).Nodup :=
    List.Nodup.map (fun a b h => by simpa using h) List.nodup_range
  have hle : ∀ i ∈ (List.range m).map (· + 1), i ≤ n := by
    intro i hi
    obtain ⟨a, ha, rfl⟩ := List.mem_map.1 hi
    have := List.mem_range.1 ha
    omega
  obtain ⟨h1, h2, h3⟩ := assembleVec_spec zero n _ results hnd hle (by simp [hlen])
  apply List.ext_getElem?
  intro j
  by_cases hj0 : j = 0
  · subst hj0
    rw [h3 0 (Nat.zero_le _) (by simp)]
    rfl
  · by_cases hjm : j ≤ m
    · have hk : j - 1 < ((List.range m).map (· + 1)).length := by simp; omega
      have := h2 (j - 1) hk
      have hidx : ((List.range m).map (· + 1))[j - 1] = j := by simp; omega
      rw [hidx] at this
      rw [this]
      obtain ⟨j', rfl⟩ : ∃ j', j = j' + 1 := ⟨j - 1, by omega⟩
      have hj' : j' < results.length := by omega
      simp [List.getElem?_append_left hj', List.getElem?_eq_getElem hj']
    · by_cases hjn : j ≤ n
      · rw [h3 j hjn (by
          intro hmem
          obtain ⟨a, ha, rfl⟩ := List.mem_map.1 hmem
          have := List.mem_range.1 ha
          omega)]
        obtain ⟨j', rfl⟩ : ∃ j', j = j' + 1 := ⟨j - 1, by omega⟩
        have hj' : results.length ≤ j' := by omega
        simp [List.getElem?_append_right hj', List.getElem?_replicate]
        omega
      · rw [List.getElem?_eq_none (by rw [h1]; omega), List.getElem?_eq_none (by simp; omega)]

/-- **3 (combined).**  `SFSDistribution.moment` / `accumulate` with worker processes: for every value of the flags and every
schedule of the pool, bin `j` of the assembled vector is `f j` if `j` is one of the bins handed out and 0 otherwise —
the value the sequential loop puts there. -/
theorem sfs_moment_parallel_eq_sequential (zero : β) (n : Nat) (indices : List Nat) (f : Nat → β) (par pbar : Bool)
    (sched : List Nat) (hs : sched.Perm (List.range indices.length)) (j : Nat) (hj : j ≤ n) :
    (sfsVector .current zero n indices f par pbar sched)[j]? = some (if j ∈ indices then f j else zero) := by
  unfold sfsVector
  rw [parallelize_schedule_irrelevant f indices par pbar sched hs, assembleVec_eq_writeAll, zip_map_self,
    writeAll_map_get vecLaws f indices _ j (by simp [List.getElem?_replicate]; omega)]
  by_cases h : j ∈ indices
  · simp [h]
  · simp [h, List.getElem?_replicate]; omega

/-- the whole vector equals the one of the sequential call -/
theorem sfsVector_parallel_eq_sequential (zero : β) (n : Nat) (indices : List Nat) (f : Nat → β) (par pbar : Bool)
    (sched : List Nat) (hs : sched.Perm (List.range indices.length)) :
    sfsVector .current zero n indices f par pbar sched = sfsVector .current zero n indices f false false [] := by
  unfold sfsVector
  rw [parallelize_schedule_irrelevant f indices par pbar sched hs]
  simp [parallelizeCall]

/-! ### the matrix of cells -/

/-- `m[i, j] = v` -/
def matSet (m : List (List β)) (k : Nat × Nat) (v : β) : List (List β) := m.modify k.1 fun row => row.set k.2 v

theorem matLaws : StoreLaws (β := β) (fun (m : List (List β)) (k : Nat × Nat) => entry? m k.1 k.2) matSet where
  same := by
    rintro s ⟨i, j⟩ v h
    simp only [entry?, matSet, List.getElem?_modify] at h ⊢
    cases hrow : s[i]? with
    | none => simp [hrow] at h
    | some row =>
      simp only [hrow, Option.bind_some] at h
      have hj : j < row.length := by
        by_contra hc
        rw [List.getElem?_eq_none (by omega)] at h
        simp at h
      simp [List.getElem?_set_self hj]
  other := by
    rintro s ⟨i, j⟩ ⟨i', j'⟩ v h
    simp only [entry?, matSet, List.getElem?_modify]
    by_cases hi : i = i'
    · subst hi
      have hj : j ≠ j' := fun hj => h (by rw [hj])
      cases hrow : s[i]? with
      | none => simp
      | some row => simp [List.getElem?_set_ne hj]
    · cases hrow : s[i']? with
      | none => simp
      | some row => simp [hi]

theorem assembleMat_eq_writeAll (zero : β) (n : Nat) (indices : List (Nat × Nat)) (results : List β) :
    assembleMat zero n indices results =
      writeAll matSet (List.replicate (n + 1) (List.replicate (n + 1) zero)) (indices.zip results) := rfl

theorem entry?_zeros (zero : β) (n i j : Nat) :
    entry? (List.replicate (n + 1) (List.replicate (n + 1) zero)) i j = if i ≤ n ∧ j ≤ n then some zero else none := by
  unfold entry?
  by_cases hi : i ≤ n
  · by_cases hj : j ≤ n
    · simp [Nat.lt_succ_of_le hi, Nat.lt_succ_of_le hj, hi, hj]
    · have : ¬ j < n + 1 := by omega
      simp [Nat.lt_succ_of_le hi, this, hj]
  · have : ¬ i < n + 1 := by omega
    simp [this, hi]

/-- **3 (matrix).**  The loop `for ((i, j), result) in zip(indices, results): sfs[i, j] = result` on `zeros((n+1, n+1))`: for
pairwise distinct cells within the grid, cell `indices[k]` is `results[k]`, every other cell is 0. -/
theorem assembleMat_spec (zero : β) (n : Nat) (indices : List (Nat × Nat)) (results : List β)
    (hnd : indices.Nodup) (hle : ∀ c ∈ indices, c.1 ≤ n ∧ c.2 ≤ n) (hlen : results.length = indices.length) :
    (∀ k (hk : k < indices.length),
      entry? (assembleMat zero n indices results) indices[k].1 indices[k].2 = some (results[k]'(by omega))) ∧
    (∀ i j, i ≤ n → j ≤ n → (i, j) ∉ indices → entry? (assembleMat zero n indices results) i j = some zero) := by
  have hkeys : (indices.zip results).map Prod.fst = indices := List.map_fst_zip (by omega)
  refine ⟨fun k hk => ?_, fun i j hi hj hni => ?_⟩
  · rw [assembleMat_eq_writeAll]
    apply writeAll_get_of_mem matLaws _ _ indices[k] _ (by rw [hkeys]; exact hnd)
    · have hkz : k < (indices.zip results).length := by rw [List.length_zip]; omega
      have : (indices.zip results)[k] = (indices[k], results[k]'(by omega)) := List.getElem_zip
      rw [← this]
      exact List.getElem_mem hkz
    · have := hle _ (List.getElem_mem hk)
      show (entry? _ _ _).isSome = true
      rw [entry?_zeros, if_pos this]; rfl
  · rw [assembleMat_eq_writeAll]
    have := writeAll_get_of_not_mem matLaws (indices.zip results)
      (List.replicate (n + 1) (List.replicate (n + 1) zero)) (i, j) (by rw [hkeys]; exact hni)
    simp only at this
    rw [this, entry?_zeros, if_pos ⟨hi, hj⟩]

/-- **3 (combined, matrix).**  `SFSDistribution.cov` with worker processes: for every value of the flags and every schedule
of the pool, cell `(i, j)` of the assembled matrix is `f (i, j)` if the cell was handed out and 0 otherwise. -/
theorem sfs_cov_parallel_eq_sequential (zero : β) (n : Nat) (indices : List (Nat × Nat)) (f : Nat × Nat → β)
    (par pbar : Bool) (sched : List Nat) (hs : sched.Perm (List.range indices.length))
    (i j : Nat) (hi : i ≤ n) (hj : j ≤ n) :
    entry? (sfsMatrix .current zero n indices f par pbar sched) i j =
      some (if (i, j) ∈ indices then f (i, j) else zero) := by
  unfold sfsMatrix
  rw [parallelize_schedule_irrelevant f indices par pbar sched hs, assembleMat_eq_writeAll, zip_map_self]
  have h0 : entry? (List.replicate (n + 1) (List.replicate (n + 1) zero)) i j = some zero := by
    rw [entry?_zeros, if_pos ⟨hi, hj⟩]
  have := writeAll_map_get matLaws f indices (List.replicate (n + 1) (List.replicate (n + 1) zero)) (i, j)
    (by show (entry? _ i j).isSome = true; rw [h0]; rfl)
  simp only at this
  rw [this, h0]
  by_cases h : (i, j) ∈ indices <;> simp [h]

theorem sfsMatrix_parallel_eq_sequential (zero : β) (n : Nat) (indices : List (Nat × Nat)) (f : Nat × Nat → β)
    (par pbar : Bool) (sched : List Nat) (hs : sched.Perm (List.range indices.length)) :
    sfsMatrix .current zero n indices f par pbar sched = sfsMatrix .current zero n indices f false false [] := by
  unfold sfsMatrix
  rw [parallelize_schedule_irrelevant f indices par pbar sched hs]
  simp [parallelizeCall]

/-! ### `Pool.imap_unordered` -/

/-- **4.**  `imap_unordered` hands the results over in completion order: item `k` of the output is the result of the
unit that completed `k`-th. -/
theorem imapUnordered_getElem? (f : α → β) (data : List α) :
    ∀ (sched : List Nat), (∀ i ∈ sched, i < data.length) → ∀ (k : Nat),
      (imapUnordered f data sched)[k]? = sched[k]?.bind fun (i : Nat) => data[i]?.map f := by
  intro sched
  induction sched with
  | nil => intro _ k; simp [imapUnordered]
  | cons i rest ih =>
    intro h k
    have hi : i < data.length := h i (List.mem_cons_self)
    have hcons : imapUnordered f data (i :: rest) = f data[i] :: imapUnordered f data rest := by
      simp [imapUnordered, List.getElem?_eq_getElem hi]
    rw [hcons]
    cases k with
    | zero => simp [List.getElem?_eq_getElem hi]
    | succ k =>
      simp only [List.getElem?_cons_succ]
      exact ih (fun j hj => h j (List.mem_cons_of_mem _ hj)) k

theorem imapUnordered_length (f : α → β) (data : List α) (sched : List Nat) (h : ∀ i ∈ sched, i < data.length) :
    (imapUnordered f data sched).length = sched.length := by
  induction sched with
  | nil => rfl
  | cons i rest ih =>
    have hi : i < data.length := h i (List.mem_cons_self)
    have hcons : imapUnordered f data (i :: rest) = f data[i] :: imapUnordered f data rest := by
      simp [imapUnordered, List.getElem?_eq_getElem hi]
    rw [hcons, List.length_cons, List.length_cons, ih fun j hj => h j (List.mem_cons_of_mem _ hj)]

/-- the identity schedule (units complete in data order) gives the sequential result -/
theorem imapUnordered_range (f : α → β) (data : List α) :
    imapUnordered f data (List.range data.length) = data.map f := by
  apply List.ext_getElem?
  intro k
  rw [imapUnordered_getElem? f data _ (fun i hi => List.mem_range.1 hi) k, List.getElem?_map]
  by_cases hk : k < data.length
  · simp [List.getElem?_range hk]
  · rw [List.getElem?_eq_none (by simp; omega), List.getElem?_eq_none (by omega)]
    rfl

/-- the unordered results are a rearrangement of the sequential ones -/
theorem imapUnordered_perm (f : α → β) (data : List α) (sched : List Nat)
    (hs : sched.Perm (List.range data.length)) : (imapUnordered f data sched).Perm (data.map f) := by
  rw [← imapUnordered_range f data]
  exact hs.filterMap _

/-- **4 (iff).**  For distinguishable units (`f` injective on pairwise distinct data) `imap_unordered` returns the
sequential result for exactly ONE schedule: completion in data order. -/
theorem imapUnordered_eq_map_iff (f : α → β) (data : List α) (sched : List Nat)
    (hs : sched.Perm (List.range data.length)) (hinj : Function.Injective f) (hnd : data.Nodup) :
    imapUnordered f data sched = data.map f ↔ sched = List.range data.length := by
  constructor
  · intro heq
    have hlen : sched.length = data.length := by simpa using hs.length_eq
    have hin : ∀ i ∈ sched, i < data.length := fun i hi => List.mem_range.1 (hs.mem_iff.1 hi)
    apply List.ext_getElem (by simp [hlen])
    intro k h1 h2
    have hk : k < data.length := by omega
    have hsk : sched[k] < data.length := hin _ (List.getElem_mem h1)
    have h := imapUnordered_getElem? f data sched hin k
    rw [heq, List.getElem?_map, List.getElem?_eq_getElem h1, List.getElem?_eq_getElem hk] at h
    simp only [Option.map_some, Option.bind_some, List.getElem?_eq_getElem hsk, Option.some.injEq] at h
    have h' : data[sched[k]] = data[k] := (hinj h).symm
    rw [List.getElem_range]
    exact (List.Nodup.getElem_inj_iff hnd).1 h'
  · intro h
    rw [h]
    exact imapUnordered_range f data

/-! ### the seeded variant, and non-vacuity -/

/-- the seeded variant (`imap_unordered` when a progress bar is requested): three bins, the first unit finishes last —
the values of bins 2 and 3 end up in bins 1 and 2, the value of bin 1 in bin 3.  The pinned variant is not affected. -/
theorem unordered_counterexample :
    sfsVector .unorderedWithPbar 0 4 [1, 2, 3] (fun i => 10 * i) true true [1, 2, 0] = [0, 20, 30, 10, 0] ∧
    sfsVector .current 0 4 [1, 2, 3] (fun i => 10 * i) true true [1, 2, 0] = [0, 10, 20, 30, 0] ∧
    sfsVector .unorderedWithPbar 0 4 [1, 2, 3] (fun i => 10 * i) true false [1, 2, 0] = [0, 10, 20, 30, 0] ∧
    sfsVector .unorderedWithPbar 0 4 [1, 2, 3] (fun i => 10 * i) false true [1, 2, 0] = [0, 10, 20, 30, 0] := by
  decide

/-- the same for the cells of a covariance matrix: the schedule decides which cell a value is written to -/
theorem unordered_counterexample_mat :
    sfsMatrix .unorderedWithPbar 0 1 [(0, 0), (0, 1), (1, 0), (1, 1)] (fun c => 10 * c.1 + c.2 + 1) true true [3, 0, 1, 2]
      = [[12, 1], [2, 11]] ∧
    sfsMatrix .current 0 1 [(0, 0), (0, 1), (1, 0), (1, 1)] (fun c => 10 * c.1 + c.2 + 1) true true [3, 0, 1, 2]
      = [[1, 2], [11, 12]] := by
  decide

/-- **5.**  Four units completing in the order `[2, 0, 3, 1]`: the ordered iterator buffers unit 2, hands over unit 0, buffers
unit 3, and hands over units 1, 2, 3 once unit 1 is there. -/
example : imapOrderedChunks (fun x => x * 10) [5, 6, 7, 8] ImapState.init [2, 0, 3, 1] = [[], [50], [], [60, 70, 80]] := by
  decide

example : imapOrdered (fun x => x * 10) [5, 6, 7, 8] [2, 0, 3, 1] = [50, 60, 70, 80] := by decide

example : imapUnordered (fun x => x * 10) [5, 6, 7, 8] [2, 0, 3, 1] = [70, 50, 80, 60] := by decide

example : isSchedule 4 [2, 0, 3, 1] = true := by decide

example : parallelizeCall .current (fun x => x * 10) [5, 6, 7, 8] true true [2, 0, 3, 1] = [50, 60, 70, 80] := by decide

example : parallelizeCall .unorderedWithPbar (fun x => x * 10) [5, 6, 7, 8] true true [2, 0, 3, 1] = [70, 50, 80, 60] := by decide

example : parallelizeCall .unorderedWithPbar (fun x => x * 10) [5, 6, 7, 8] true false [2, 0, 3, 1] = [50, 60, 70, 80] := by decide

/-- an interrupted run: after the completions `[2, 0]` the consumer holds the result of unit 0 only -/
example : imapOrdered (fun x => x * 10) [5, 6, 7, 8] [2, 0] = [50] := by decide

/-- a single unit is never sent to a pool: the schedule is not even looked at -/
example : parallelizeCall .unorderedWithPbar (fun x => x * 10) [5] true true [7, 7] = [50] := by decide

end PG.Parallel
