/-
PGProofs.WindowVar — the cached properties `mean`, `m2`, `var` of `PhaseTypeDistribution`
(distributions.py: `mean = moment(k=1)`, `m2 = moment(k=2, center=False)`, `var = moment(k=2, center=True)`)
on a WINDOWED distribution (`start_time > 0`), in the call-layer model `PGModel/Api.lean`.

1. `propMean`, `propM2`, `propVar`: the three properties as the `momentCall .current` they are (no rewards, no
   times: the default reward repeated `k` times, the window `[startDefault, tMax]` of the object);
2. `propVar_eq_curve_difference`: `var = c(end) − c(start)` with `c(t) = accAt ctx 2 [r, r] true true t` the
   CENTRED second-order accumulation curve (for `start ≤ 0` the single route: `var = c(end)`);
3. the seeded shortcut `var = m2 − mean²`: `shortcutVar − propVar = 2·m1(start)·(m1(end) − m1(start))`
   (`shortcutVar_sub_propVar`), hence `shortcut_eq_var_iff`; they agree for `start ≤ 0`;
4. a closed counterexample on the driver's `ctxEx` (`fakeRaw`, window `[1/2, 4]`): 63 against 77.
The centring law `c(t) = m2(t) − m1(t)²` is the model's (`accumulate_center_two`), not a hypothesis.
-/
import Mathlib.Tactic.Ring
import Mathlib.Tactic.Linarith
import PGModel.Api
import PGProofs.MomentsThm
import PGProofs.ApiThm

namespace PG.Api

variable {ρ : Type}

/-! ## 1. the properties -/

/-- `mean = self.moment(k=1)` -/
def propMean (ctx : DistCtx ρ) : Except ApiErr Rat := momentCall .current ctx { k := 1 }

/-- `m2 = self.moment(k=2, center=False)` -/
def propM2 (ctx : DistCtx ρ) : Except ApiErr Rat := momentCall .current ctx { k := 2, center := false }

/-- `var = self.moment(k=2, center=True)` -/
def propVar (ctx : DistCtx ρ) : Except ApiErr Rat := momentCall .current ctx { k := 2 }

/-- the seeded change `var = self.m2 - self.mean ** 2` (`m2` is evaluated first) -/
def shortcutVar (ctx : DistCtx ρ) : Except ApiErr Rat :=
  match propM2 ctx, propMean ctx with
  | .ok m2, .ok m => .ok (m2 - m ^ 2)
  | .error e, _ => .error e
  | .ok _, .error e => .error e

/-- the three curves, at the default reward: raw first, raw second, centred second order -/
def m1At (ctx : DistCtx ρ) (t : Rat) : Rat := accAt ctx 1 [ctx.defaultReward] true true t
def m2At (ctx : DistCtx ρ) (t : Rat) : Rat :=
  accAt ctx 2 [ctx.defaultReward, ctx.defaultReward] false true t
def c2At (ctx : DistCtx ρ) (t : Rat) : Rat :=
  accAt ctx 2 [ctx.defaultReward, ctx.defaultReward] true true t

/-- the model's centring law at order 2: `c(t) = m2(t) − m1(t)²` -/
theorem c2At_eq (ctx : DistCtx ρ) (t : Rat) : c2At ctx t = m2At ctx t - m1At ctx t ^ 2 := by
  have : Inhabited ρ := ⟨ctx.defaultReward⟩
  have h1 : m1At ctx t = ctx.raw [ctx.defaultReward] t := by
    unfold m1At accAt
    simp [accumulateModel, uncentred_singleton]
  have h2 : m2At ctx t = uncentred (fun l => ctx.raw l t) true [ctx.defaultReward, ctx.defaultReward] := by
    unfold m2At accAt
    simp [accumulateModel]
  have h3 : c2At ctx t = accumulateModel (fun l => ctx.raw l t) true true
      [ctx.defaultReward, ctx.defaultReward] := by
    rfl
  rw [h3, accumulate_center_two, h1, h2]
  ring

/-! ## 2. normal forms of the three calls -/

/-- the value of a windowed property: the curve difference for `start > 0`, the curve at the end otherwise -/
def windowVal (ctx : DistCtx ρ) (f : Rat → Rat) : Rat :=
  if 0 < ctx.startDefault then f ctx.tMax - f ctx.startDefault else f ctx.tMax

theorem propVar_eq (ctx : DistCtx ρ) :
    propVar ctx = if ctx.tMax < 0 then .error .valueError else .ok (windowVal ctx (c2At ctx)) := by
  unfold propVar momentCall windowVal c2At
  simp only [resolveTime_none, gt_iff_lt]
  by_cases hs : 0 < ctx.startDefault
  · have hs' : ¬ ctx.startDefault < 0 := not_lt.mpr hs.le
    by_cases he : ctx.tMax < 0 <;>
      simp [hs, hs', he, accumulateCall, resolveRewards, negTimes, Except.map, List.replicate]
  · by_cases he : ctx.tMax < 0 <;>
      simp [hs, he, accumulateCall, resolveRewards, negTimes, Except.map, List.replicate]

theorem propM2_eq (ctx : DistCtx ρ) :
    propM2 ctx = if ctx.tMax < 0 then .error .valueError else .ok (windowVal ctx (m2At ctx)) := by
  unfold propM2 momentCall windowVal m2At
  simp only [resolveTime_none, gt_iff_lt]
  by_cases hs : 0 < ctx.startDefault
  · have hs' : ¬ ctx.startDefault < 0 := not_lt.mpr hs.le
    by_cases he : ctx.tMax < 0 <;>
      simp [hs, hs', he, accumulateCall, resolveRewards, negTimes, Except.map, List.replicate]
  · by_cases he : ctx.tMax < 0 <;>
      simp [hs, he, accumulateCall, resolveRewards, negTimes, Except.map, List.replicate]

theorem propMean_eq (ctx : DistCtx ρ) :
    propMean ctx = if ctx.tMax < 0 then .error .valueError else .ok (windowVal ctx (m1At ctx)) := by
  unfold propMean momentCall windowVal m1At
  simp only [resolveTime_none, gt_iff_lt]
  by_cases hs : 0 < ctx.startDefault
  · have hs' : ¬ ctx.startDefault < 0 := not_lt.mpr hs.le
    by_cases he : ctx.tMax < 0 <;>
      simp [hs, hs', he, accumulateCall, resolveRewards, negTimes, Except.map]
  · by_cases he : ctx.tMax < 0 <;>
      simp [hs, he, accumulateCall, resolveRewards, negTimes, Except.map]

theorem shortcutVar_eq (ctx : DistCtx ρ) :
    shortcutVar ctx = if ctx.tMax < 0 then .error .valueError
      else .ok (windowVal ctx (m2At ctx) - windowVal ctx (m1At ctx) ^ 2) := by
  unfold shortcutVar
  rw [propM2_eq, propMean_eq]
  by_cases he : ctx.tMax < 0 <;> simp [he]

/-- the calls succeed exactly when the horizon is not negative -/
theorem propVar_ok_iff (ctx : DistCtx ρ) : (∃ v, propVar ctx = .ok v) ↔ 0 ≤ ctx.tMax := by
  rw [propVar_eq]
  by_cases he : ctx.tMax < 0
  · simp [he]
  · simp [he, not_lt.mp he]

/-- **the variance of a windowed distribution is the difference of the CENTRED curve**:
`var = c(end) − c(start)` with `c(t) = accumulate(2, [t], center=True)` -/
theorem propVar_eq_curve_difference (ctx : DistCtx ρ) (hs : 0 < ctx.startDefault) (v : Rat)
    (hv : propVar ctx = .ok v) :
    v = accAt ctx 2 [ctx.defaultReward, ctx.defaultReward] true true ctx.tMax
      - accAt ctx 2 [ctx.defaultReward, ctx.defaultReward] true true ctx.startDefault := by
  rw [propVar_eq] at hv
  by_cases he : ctx.tMax < 0
  · simp [he] at hv
  · simp only [he, if_false, windowVal, hs, if_true, Except.ok.injEq] at hv
    rw [← hv]; rfl

/-- the unconditional form: a non-negative horizon is all it takes -/
theorem propVar_curve_difference (ctx : DistCtx ρ) (hs : 0 < ctx.startDefault) (he : 0 ≤ ctx.tMax) :
    propVar ctx = .ok (c2At ctx ctx.tMax - c2At ctx ctx.startDefault) := by
  rw [propVar_eq, if_neg (not_lt.mpr he), windowVal, if_pos hs]

/-- without a window (`start_time ≤ 0`) the single route: `var = c(end)` -/
theorem propVar_no_window (ctx : DistCtx ρ) (hs : ctx.startDefault ≤ 0) (he : 0 ≤ ctx.tMax) :
    propVar ctx = .ok (c2At ctx ctx.tMax) := by
  rw [propVar_eq, if_neg (not_lt.mpr he), windowVal, if_neg (not_lt.mpr hs)]

/-- in raw curves: `var = (m2(e) − m1(e)²) − (m2(s) − m1(s)²)` -/
theorem propVar_raw_curves (ctx : DistCtx ρ) (hs : 0 < ctx.startDefault) (he : 0 ≤ ctx.tMax) :
    propVar ctx = .ok ((m2At ctx ctx.tMax - m1At ctx ctx.tMax ^ 2)
      - (m2At ctx ctx.startDefault - m1At ctx ctx.startDefault ^ 2)) := by
  rw [propVar_curve_difference ctx hs he, c2At_eq, c2At_eq]

/-! ## 3. the shortcut `m2 − mean²` -/

/-- **the shortcut is off by `2·m1(start)·(m1(end) − m1(start))`** on a window `start > 0` -/
theorem shortcutVar_sub_propVar (ctx : DistCtx ρ) (hs : 0 < ctx.startDefault) (v w : Rat)
    (hv : propVar ctx = .ok v) (hw : shortcutVar ctx = .ok w) :
    w - v = 2 * m1At ctx ctx.startDefault * (m1At ctx ctx.tMax - m1At ctx ctx.startDefault) := by
  rw [propVar_eq] at hv
  rw [shortcutVar_eq] at hw
  by_cases he : ctx.tMax < 0
  · simp [he] at hv
  · simp only [he, if_false, windowVal, hs, if_true, Except.ok.injEq] at hv hw
    rw [← hv, ← hw, c2At_eq, c2At_eq]
    ring

/-- the shortcut is right iff nothing was accumulated before the window or the mean curve is flat on it -/
theorem shortcut_eq_var_iff (ctx : DistCtx ρ) (hs : 0 < ctx.startDefault) (v w : Rat)
    (hv : propVar ctx = .ok v) (hw : shortcutVar ctx = .ok w) :
    w = v ↔ m1At ctx ctx.startDefault = 0 ∨ m1At ctx ctx.tMax = m1At ctx ctx.startDefault := by
  have h := shortcutVar_sub_propVar ctx hs v w hv hw
  constructor
  · intro hwv
    rw [hwv, sub_self] at h
    rcases mul_eq_zero.mp h.symm with h1 | h2
    · left
      rcases mul_eq_zero.mp h1 with h0 | h0
      · norm_num at h0
      · exact h0
    · right; linarith
  · rintro (h0 | h0)
    · rw [h0] at h; linarith
    · rw [h0, sub_self] at h; linarith

/-- the same as an equality of results -/
theorem shortcutVar_eq_propVar_iff (ctx : DistCtx ρ) (hs : 0 < ctx.startDefault) (he : 0 ≤ ctx.tMax) :
    shortcutVar ctx = propVar ctx ↔
      m1At ctx ctx.startDefault = 0 ∨ m1At ctx ctx.tMax = m1At ctx ctx.startDefault := by
  have hv := propVar_curve_difference ctx hs he
  have hw : shortcutVar ctx = .ok (windowVal ctx (m2At ctx) - windowVal ctx (m1At ctx) ^ 2) := by
    rw [shortcutVar_eq, if_neg (not_lt.mpr he)]
  rw [← shortcut_eq_var_iff ctx hs _ _ hv hw, hv, hw]
  exact ⟨fun h => Except.ok.inj h, fun h => by rw [h]⟩

/-- without a window the shortcut IS the variance (this is why the seeded change passes every unwindowed test) -/
theorem shortcutVar_eq_propVar_no_window (ctx : DistCtx ρ) (hs : ctx.startDefault ≤ 0) :
    shortcutVar ctx = propVar ctx := by
  rw [shortcutVar_eq, propVar_eq]
  by_cases he : ctx.tMax < 0
  · simp [he]
  · simp only [he, if_false, windowVal, if_neg (not_lt.mpr hs), c2At_eq]

/-- … and on a window whose mean curve starts at 0 (`m1(start) = 0`) -/
theorem shortcutVar_eq_propVar_of_zero_start (ctx : DistCtx ρ) (hs : 0 < ctx.startDefault)
    (he : 0 ≤ ctx.tMax) (h0 : m1At ctx ctx.startDefault = 0) :
    shortcutVar ctx = propVar ctx :=
  (shortcutVar_eq_propVar_iff ctx hs he).mpr (Or.inl h0)

/-! ## 4. closed counterexample -/

/-- the driver's `ctxEx` (default reward 0, window `[1/2, 4]`, `fakeRaw`): `m1(t) = 2t`, `m2(t) = 8t²`,
`c(t) = 4t²`; the variance is `64 − 1 = 63`, the shortcut `126 − 7² = 77`; the gap `14 = 2·1·(8 − 1)`. -/
theorem var_shortcut_differs :
    propMean ctxEx = .ok 7 ∧ propM2 ctxEx = .ok 126 ∧
    propVar ctxEx = .ok 63 ∧ shortcutVar ctxEx = .ok 77 ∧
    shortcutVar ctxEx ≠ propVar ctxEx := by
  decide +kernel

/-- the same distribution without its window: both give `c(4) = 64` -/
theorem var_shortcut_agrees_unwindowed :
    propVar { ctxEx with startDefault := 0 } = .ok 64 ∧
    shortcutVar { ctxEx with startDefault := 0 } = .ok 64 := by
  decide +kernel

end PG.Api
