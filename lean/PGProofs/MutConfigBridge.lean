/-
  PGProofs/MutConfigBridge.lean

  `PGProofs.MutConfigNonneg` proves that the mutation-configuration probabilities are in `[0, 1]`
  UNDER sign hypotheses on the inputs `(S, R, α)`.  This file discharges those hypotheses for the
  inputs which the CODE MODEL builds (the `mutcfg` path of the driver, i.e.
  `SFSDistribution.get_mutation_config` on the block-counting state space of one epoch):

  1. every off-diagonal entry of the rate matrix `_graph_to_matrix` of the graph found by the search
     is `≥ 0` (`generator_offdiag_nonneg`);
  2. every row of that matrix sums to `0` (`generator_row_sum_zero`), and the row sums of the block
     on ANY subset `T` of the states are `≤ 0` (`transient_block_row_sum_nonpos`);
  3. the unfolded SFS rewards are `≥ 0`, sum to the total branch length, which is `≥ 2` on every
     non-absorbing state (`transient_total_reward_pos`);
  4. `alphaVec` is a sub-probability vector (`alphaVec_getD_nonneg`, `alphaVec_sum_le_one`);
  5. THE BRIDGE: the arrays `(S, R, alpha)` assembled exactly like the `mutcfg` command of
     `Main.lean` (`mutcfgInputs`) satisfy every hypothesis of `mutConfigProb_nonneg` /
     `mutConfigProb_le_one`; hence `C16_code_prob_in_unit_interval` with NO sign hypothesis left;
  6. a concrete instance (Kingman, `n = 3`, one deme), evaluated in the kernel.
-/
import PGProofs.MutConfigNonneg
import PGProofs.BridgeBC
import PGProofs.RewardsThm
import Mathlib.Algebra.Order.BigOperators.Group.Finset
import Mathlib.Algebra.Order.BigOperators.Group.List
import Mathlib.Algebra.BigOperators.Fin
import Mathlib.Algebra.BigOperators.Intervals
import Mathlib.Algebra.Order.Field.Rat
import Mathlib.Tactic.Ring
import Mathlib.Tactic.Linarith

set_option linter.unusedSectionVars false
set_option linter.unusedVariables false

namespace PG

open Matrix

/-! ## 1. Signs of the rate matrix `_graph_to_matrix` (any transition list with rates `≥ 0`) -/

section GeneratorSigns

/-- the cell which `_graph_to_matrix` writes is one of the rates of the list (or `0`) -/
theorem offW_nonneg (tr : List ((State × State) × ℚ)) (htr : ∀ p ∈ tr, 0 ≤ p.2) (a b : State) :
    0 ≤ offW tr a b := by
  unfold offW
  cases h : (tr.filter fun p => p.1.1 == a && p.1.2 == b).getLast? with
  | none => simp
  | some p =>
    simp only [Option.map_some, Option.getD_some]
    exact htr p (List.mem_of_mem_filter (List.mem_of_getLast? h))

theorem offd_nonneg (states : List State) (tr : List ((State × State) × ℚ))
    (htr : ∀ p ∈ tr, 0 ≤ p.2) (i j : ℕ) : 0 ≤ offd states tr i j := by
  unfold offd
  split
  · exact offW_nonneg tr htr _ _
  · exact le_rfl

/-- off-diagonal entries of the rate matrix are non-negative (no bound on `i`, `j` needed: cells
outside the state list read as `0`) -/
theorem rateEntry_offdiag_nonneg (states : List State) (tr : List ((State × State) × ℚ))
    (htr : ∀ p ∈ tr, 0 ≤ p.2) (i j : ℕ) (hij : i ≠ j) : 0 ≤ rateEntry states tr i j := by
  rw [rateEntry_def, if_neg hij]
  exact offd_nonneg states tr htr i j

/-- the diagonal entries are non-positive -/
theorem rateEntry_diag_nonpos (states : List State) (tr : List ((State × State) × ℚ))
    (htr : ∀ p ∈ tr, 0 ≤ p.2) (i : ℕ) : rateEntry states tr i i ≤ 0 := by
  rw [rateEntry_def, if_pos rfl, sumRat_eq, neg_nonpos]
  refine List.sum_nonneg fun x hx => ?_
  obtain ⟨j, -, rfl⟩ := List.mem_map.mp hx
  exact offd_nonneg states tr htr i j

/-- every row sums to at most `0` (exactly: minus the self-loop rate, `rateEntry_row_sum`) -/
theorem rateEntry_row_sum_nonpos (states : List State) (tr : List ((State × State) × ℚ))
    (htr : ∀ p ∈ tr, 0 ≤ p.2) (i : ℕ) (hi : i < states.length) :
    ∑ j : Fin states.length, rateEntry states tr i j ≤ 0 := by
  rw [rateEntry_row_sum states tr i hi]
  exact neg_nonpos.mpr (offW_nonneg tr htr _ _)

/-- the row of a sub-block: the mass missing from the full row sum is the rate into the
complement -/
theorem rateEntry_subset_row_sum (states : List State) (tr : List ((State × State) × ℚ))
    (T : Finset (Fin states.length)) (i : Fin states.length) :
    ∑ j ∈ T, rateEntry states tr i j
      = - offW tr states[i] states[i] - ∑ j ∈ Tᶜ, rateEntry states tr i j := by
  show _ = - offW tr states[i.val] states[i.val] - _
  rw [← rateEntry_row_sum states tr i i.isLt, ← Finset.sum_add_sum_compl T]
  ring

/-- **sub-generator property of every diagonal block**: for any set `T` of states and `i ∈ T`,
`Σ_{j ∈ T} Q i j ≤ 0` -/
theorem rateEntry_subset_row_sum_nonpos (states : List State) (tr : List ((State × State) × ℚ))
    (htr : ∀ p ∈ tr, 0 ≤ p.2) (T : Finset (Fin states.length)) (i : Fin states.length)
    (hi : i ∈ T) : ∑ j ∈ T, rateEntry states tr i j ≤ 0 := by
  rw [rateEntry_subset_row_sum]
  have h1 := offW_nonneg tr htr states[i] states[i]
  have h2 : 0 ≤ ∑ j ∈ Tᶜ, rateEntry states tr i j := by
    refine Finset.sum_nonneg fun j hj => rateEntry_offdiag_nonneg states tr htr _ _ ?_
    intro e
    have : i = j := Fin.ext e
    rw [← this] at hj
    exact (Finset.mem_compl.mp hj) hi
  linarith

/-- the transitions stored by the search are the `step` edges: non-negative if `step` is -/
theorem bfs_transitions_nonneg (step : State → Targets) (hstep : ∀ s, ∀ p ∈ step s, 0 ≤ p.2)
    (init : State) (fuel : ℕ) (g : Graph) (h : bfs step init fuel = some g) :
    ∀ p ∈ g.transitions, 0 ≤ p.2 := by
  obtain ⟨_, _, _, htr, _⟩ := bfs_spec step init fuel g h
  intro p hp
  rw [htr, List.mem_flatMap] at hp
  obtain ⟨s, _, hp⟩ := hp
  rw [List.mem_map] at hp
  obtain ⟨q, hq, rfl⟩ := hp
  exact hstep s q hq

/-- **1. `generator_offdiag_nonneg`.** Off-diagonal entries of the rate matrix of the graph found by
the search are non-negative, for every valid model and valid epoch (any initial state, any number
of loci / blocks). -/
theorem generator_offdiag_nonneg (m : Model) (hm : m.Valid) (ep : EpochP) (hep : ep.Valid)
    (init : State) (fuel : ℕ) (g : Graph) (h : bfs (transit m ep) init fuel = some g)
    (i j : ℕ) (hij : i ≠ j) : 0 ≤ rateEntry g.visited g.transitions i j :=
  rateEntry_offdiag_nonneg _ _
    (bfs_transitions_nonneg _ (transit_rates_nonneg m hm ep hep) init fuel g h) i j hij

/-- **2b. `transient_block_row_sum_nonpos`.** For ANY set `T` of states of the graph (e.g. the
transient ones) and `i ∈ T`: `Σ_{j ∈ T} Q i j ≤ 0`.  No hypothesis on self-loops is needed: the full
row sums to minus the self-loop rate (`rateEntry_row_sum`), which is `≤ 0`, and what is missing is
the non-negative rate into the complement of `T` (`rateEntry_subset_row_sum`). -/
theorem transient_block_row_sum_nonpos (m : Model) (hm : m.Valid) (ep : EpochP) (hep : ep.Valid)
    (init : State) (fuel : ℕ) (g : Graph) (h : bfs (transit m ep) init fuel = some g)
    (T : Finset (Fin g.visited.length)) (i : Fin g.visited.length) (hi : i ∈ T) :
    ∑ j ∈ T, rateEntry g.visited g.transitions i j ≤ 0 :=
  rateEntry_subset_row_sum_nonpos _ _
    (bfs_transitions_nonneg _ (transit_rates_nonneg m hm ep hep) init fuel g h) T i hi

/-- **2a. `generator_row_sum_zero`, general form** (restated from `Bridge`): rows of states without
a self-loop in `transit` sum to zero.  (`_graph_to_matrix` overwrites the diagonal, so a self-loop
rate would be lost: the row would sum to MINUS that rate, `rateEntry_row_sum`.) -/
theorem generator_row_sum_zero_of_no_self_loop (m : Model) (ep : EpochP)
    (init : State) (fuel : ℕ) (g : Graph) (h : bfs (transit m ep) init fuel = some g)
    (i : ℕ) (hi : i < g.visited.length)
    (hself : g.visited[i] ∉ keys (transit m ep g.visited[i])) :
    ∑ j : Fin g.visited.length, rateEntry g.visited g.transitions i j = 0 :=
  bfs_rateEntry_row_sum_zero _ init fuel g h i hi hself

end GeneratorSigns

/-! ## 2. The block-counting graph of one (arbitrary) epoch -/

section BlockCounting

theorem foldl_congr_mem {α β : Type} (f g : β → α → β) (l : List α)
    (h : ∀ b, ∀ a ∈ l, f b a = g b a) (init : β) : l.foldl f init = l.foldl g init := by
  induction l generalizing init with
  | nil => rfl
  | cons x xs ih =>
    rw [List.foldl_cons, List.foldl_cons, h init x List.mem_cons_self]
    exact ih (fun b a ha => h b a (List.mem_cons_of_mem _ ha)) _

/-- `migrate_unlinked` reads the migration matrix only at the demes of the state -/
theorem migrateUnlinked_congr (ep ep' : EpochP) (s : State)
    (hm : ∀ d1 d2, d1 < s.nDemes → d2 < s.nDemes → ep.m d1 d2 = ep'.m d1 d2) :
    migrateUnlinked ep s = migrateUnlinked ep' s := by
  unfold migrateUnlinked
  refine foldl_congr_mem _ _ _ (fun acc l _ => ?_) _
  refine foldl_congr_mem _ _ _ (fun acc p hp => ?_) _
  obtain ⟨d1, d2⟩ := p
  have hp' := mem_pairs _ _ _ (List.mem_of_mem_filter hp)
  refine foldl_congr_mem _ _ _ (fun acc b _ => ?_) _
  simp only [hm d1 d2 hp'.1 hp'.2]

/-- `coalesce` (one locus) reads the time scales only at the demes of the state -/
theorem coalesce1_congr (m : Model) (ep ep' : EpochP) (s : State)
    (hts : ∀ d, d < s.nDemes → getR ep.ts d = getR ep'.ts d) :
    coalesce1 m ep s = coalesce1 m ep' s := by
  unfold coalesce1
  refine foldl_congr_mem _ _ _ (fun acc d hd => ?_) _
  rw [List.mem_range] at hd
  rw [hts d hd]

/-- for a one-locus state, `transit` depends on the epoch only through the migration rates and time
scales of the demes of the state -/
theorem transit_congr (m : Model) (ep ep' : EpochP) (s : State) (h1 : s.nLoci = 1)
    (hm : ∀ d1 d2, d1 < s.nDemes → d2 < s.nDemes → ep.m d1 d2 = ep'.m d1 d2)
    (hts : ∀ d, d < s.nDemes → getR ep.ts d = getR ep'.ts d) :
    transit m ep s = transit m ep' s := by
  unfold transit
  simp only [migrate, migrateLinked, if_pos h1, recombine_one_locus _ _ h1,
    migrateUnlinked_congr ep ep' s hm, coalesce1_congr m ep ep' s hts]

variable {D n : ℕ}

/-- the parameter functions read off an arbitrary epoch -/
def epTs (D : ℕ) (ep : EpochP) : Fin D → ℚ := fun d => getR ep.ts d.val
def epMig (D : ℕ) (ep : EpochP) : Fin D → Fin D → ℚ := fun d d' => ep.m d.val d'.val

/-- at a block-count state over `D` demes, an arbitrary epoch acts like the `mkEpoch` of its
parameter functions (so the structural theorems of `BridgeBC` apply to ANY epoch) -/
theorem transit_encBC_epoch (m : Model) (ep : EpochP) (c : Fin D × Fin n → ℕ) :
    transit m ep (encBC c) = transit m (mkEpoch (epTs D ep) (epMig D ep) ep.recRate) (encBC c) := by
  refine transit_congr m ep _ (encBC c) (nLoci_encBC c) ?_ ?_
  · intro d1 d2 h1 h2
    rw [nDemes_encBC] at h1 h2
    exact (m_mkEpoch (epTs D ep) (epMig D ep) ep.recRate ⟨d1, h1⟩ ⟨d2, h2⟩).symm
  · intro d h
    rw [nDemes_encBC] at h
    exact (getR_mkEpoch (epTs D ep) (epMig D ep) ep.recRate ⟨d, h⟩).symm

/-- the mass is invariant along the search, for any epoch -/
theorem reach_encBC_epoch [NeZero n] (m : Model) (ep : EpochP) (c0 : Fin D × Fin n → ℕ)
    (hn : 2 ≤ n) (hmass : massBC c0 ≤ n) (s : State)
    (h : Reach (transit m ep) (encBC c0) s) :
    ∃ c : Fin D × Fin n → ℕ, s = encBC c ∧ massBC c = massBC c0 := by
  unfold Reach at h
  induction h with
  | refl => exact ⟨c0, rfl, rfl⟩
  | tail _ hbc ih =>
    obtain ⟨c, rfl, hm⟩ := ih
    rw [transit_encBC_epoch] at hbc
    obtain ⟨c', h', hm', _⟩ := transit_encBC_keys m _ _ _ c hn (by omega) _ hbc
    exact ⟨c', h', hm'.trans hm⟩

/-- **every state of the block-counting graph is a block-count state whose blocks partition the
`n` samples** (any model, any epoch — no validity needed) -/
theorem bfs_states_bc (m : Model) (ep : EpochP) (hD : 0 < D) (hn : 2 ≤ n) (fuel : ℕ) (g : Graph)
    (h : bfs (transit m ep) (initialState 1 D n n) fuel = some g) (s : State)
    (hs : s ∈ g.visited) : ∃ c : Fin D × Fin n → ℕ, s = encBC c ∧ massBC c = n := by
  have : NeZero D := ⟨by omega⟩
  have : NeZero n := ⟨by omega⟩
  obtain ⟨_, _, _, _, hreach⟩ := bfs_spec _ _ fuel g h
  have hr := hreach s hs
  rw [initialState_eq] at hr
  obtain ⟨c, hc, hm⟩ := reach_encBC_epoch m ep (initBC D n) hn massBC_initBC.le s hr
  exact ⟨c, hc, hm.trans massBC_initBC⟩

/-- `transit` never returns the source state as a target on the block-counting graph -/
theorem bfs_no_self_loop_bc (m : Model) (ep : EpochP) (hD : 0 < D) (hn : 2 ≤ n) (fuel : ℕ)
    (g : Graph) (h : bfs (transit m ep) (initialState 1 D n n) fuel = some g) (s : State)
    (hs : s ∈ g.visited) : s ∉ keys (transit m ep s) := by
  have : NeZero n := ⟨by omega⟩
  obtain ⟨c, rfl, hm⟩ := bfs_states_bc m ep hD hn fuel g h s hs
  rw [transit_encBC_epoch]
  exact transit_encBC_no_self_loop m _ _ _ c hn hm.le

/-- **2a. `generator_row_sum_zero`** for the block-counting graph: every row of the rate matrix
sums to zero (the `hself` of `Bridge.bfs_rateEntry_row_sum_zero` is a theorem here). -/
theorem generator_row_sum_zero (m : Model) (ep : EpochP) (hD : 0 < D) (hn : 2 ≤ n) (fuel : ℕ)
    (g : Graph) (h : bfs (transit m ep) (initialState 1 D n n) fuel = some g)
    (i : ℕ) (hi : i < g.visited.length) :
    ∑ j : Fin g.visited.length, rateEntry g.visited g.transitions i j = 0 :=
  bfs_rateEntry_row_sum_zero _ _ fuel g h i hi
    (bfs_no_self_loop_bc m ep hD hn fuel g h _ (List.getElem_mem hi))

theorem isBC_encBC (c : Fin D × Fin n → ℕ) : IsBC n D (encBC c) := by
  refine ⟨List.ofFn fun d => List.ofFn fun i => c (d, i), rfl, by simp, ?_⟩
  intro b hb
  rw [List.mem_ofFn] at hb
  obtain ⟨d, rfl⟩ := hb
  simp

theorem massOK_encBC (c : Fin D × Fin n → ℕ) : massOK n (encBC c) ↔ massBC c = n := by
  unfold massOK massBC
  simp only [encBC, List.getD_cons_zero, List.map_ofFn, Function.comp_def, sumNat_ofFn,
    weight_ofFn, blkSize]

end BlockCounting

/-! ## 3. Rewards on the block-counting graph -/

section Rewards
variable {D n : ℕ}

/-- **3a.** every unfolded SFS reward is non-negative (on every state) -/
theorem unfoldedSFS_nonneg (n' : ℕ) (s : State) (i : ℕ) :
    0 ≤ Reward.eval n' s (.unfoldedSFS i) := by
  simp only [Reward.eval]
  exact Nat.cast_nonneg _

theorem tbl_encBC (n' : ℕ) (c : Fin D × Fin n → ℕ) :
    Reward.eval n' (encBC c) .totalBranchLength
      = if 1 < ∑ d, ∑ i, c (d, i) then ((∑ d, ∑ i, c (d, i) : ℕ) : ℚ) else 0 := by
  simp only [Reward.eval, nLoci_encBC, List.range_one, List.map_cons, List.map_nil, sumRat_eq,
    List.sum_cons, List.sum_nil, add_zero, locusTotal_encBC, gt_iff_lt]

/-- a block-count state of mass `n ≥ 1` has at least one lineage -/
theorem total_pos_of_mass (c : Fin D × Fin n → ℕ) (hn : 1 ≤ n) (hm : massBC c = n) :
    1 ≤ ∑ d, ∑ i, c (d, i) := by
  by_contra h
  have h0 : ∑ d, ∑ i, c (d, i) = 0 := by omega
  have hz : ∀ d i, c (d, i) = 0 := by
    intro d i
    have h1 := (Finset.sum_eq_zero_iff.mp h0) d (Finset.mem_univ _)
    exact (Finset.sum_eq_zero_iff.mp h1) i (Finset.mem_univ _)
  have : massBC c = 0 := by
    unfold massBC
    simp [hz]
  omega

/-- **3b.** on every state of the block-counting graph the SFS rewards `1 … n-1` sum to the total
branch length reward (`sum_sfs_eq_tbl`, whose hypotheses `IsBC`/`massOK` are theorems here) -/
theorem sfs_rewards_sum_eq_tbl (m : Model) (ep : EpochP) (hD : 0 < D) (hn : 2 ≤ n) (fuel : ℕ)
    (g : Graph) (h : bfs (transit m ep) (initialState 1 D n n) fuel = some g) (s : State)
    (hs : s ∈ g.visited) :
    ∑ i ∈ Finset.Icc 1 (n - 1), Reward.eval n s (.unfoldedSFS i)
      = Reward.eval n s .totalBranchLength := by
  obtain ⟨c, rfl, hm⟩ := bfs_states_bc m ep hD hn fuel g h s hs
  exact sum_sfs_eq_tbl n D _ hn (isBC_encBC c) ((massOK_encBC c).mpr hm)

/-- **3c.** a non-absorbing state (exactly the states the driver keeps: `State.isAbsorbing = false`)
has total branch length reward `≥ 2` -/
theorem transient_total_reward_ge_two (m : Model) (ep : EpochP) (hD : 0 < D) (hn : 2 ≤ n)
    (fuel : ℕ) (g : Graph) (h : bfs (transit m ep) (initialState 1 D n n) fuel = some g)
    (s : State) (hs : s ∈ g.visited) (hna : s.isAbsorbing = false) :
    2 ≤ Reward.eval n s .totalBranchLength := by
  obtain ⟨c, rfl, hm⟩ := bfs_states_bc m ep hD hn fuel g h s hs
  have h1 := total_pos_of_mass c (by omega) hm
  have h2 : ∑ d, ∑ i, c (d, i) ≠ 1 := by
    intro h
    rw [(isAbsorbing_encBC c).mpr h] at hna
    exact absurd hna (by simp)
  rw [tbl_encBC, if_pos (by omega)]
  exact_mod_cast (by omega : 2 ≤ ∑ d, ∑ i, c (d, i))

/-- **3c. `transient_total_reward_pos`.** -/
theorem transient_total_reward_pos (m : Model) (ep : EpochP) (hD : 0 < D) (hn : 2 ≤ n)
    (fuel : ℕ) (g : Graph) (h : bfs (transit m ep) (initialState 1 D n n) fuel = some g)
    (s : State) (hs : s ∈ g.visited) (hna : s.isAbsorbing = false) :
    0 < Reward.eval n s .totalBranchLength :=
  lt_of_lt_of_le (by norm_num) (transient_total_reward_ge_two m ep hD hn fuel g h s hs hna)

/-- on the block-counting graph, the two ways of selecting the transient states agree:
`TreeHeightReward = 1` (what `SFSDistribution._get_P` tests) iff `State.isAbsorbing = false`
(what the driver tests) -/
theorem treeHeight_one_iff_transient (m : Model) (ep : EpochP) (hD : 0 < D) (hn : 2 ≤ n)
    (fuel : ℕ) (g : Graph) (h : bfs (transit m ep) (initialState 1 D n n) fuel = some g)
    (s : State) (hs : s ∈ g.visited) :
    Reward.eval n s .treeHeight = 1 ↔ s.isAbsorbing = false := by
  obtain ⟨c, rfl, hm⟩ := bfs_states_bc m ep hD hn fuel g h s hs
  refine treeHeight_one_iff_not_absorbing n _ ?_
  intro l hl
  rw [nLoci_encBC] at hl
  obtain rfl : l = 0 := by omega
  rw [locusTotal_encBC]
  exact total_pos_of_mass c (by omega) hm

end Rewards

/-! ## 4. The initial vector `alphaVec` -/

section Alpha

/-- the indicator list which `alphaVec` normalises -/
def alphaInd (states : List State) (nVec : List ℕ) (nLoci nUnlinked : ℕ) : List ℚ :=
  states.map fun s =>
    let pops := (List.range nLoci).all fun l =>
      (List.range nVec.length).all fun d => get3 s.lin l d 0 == getN nVec d
    let loci := if nLoci = 1 then true else
      (List.range nLoci).all fun l =>
        sumNat ((s.lnk.getD l []).map sumNat) == (sumNat nVec - nUnlinked)
    if pops && loci then (1 : ℚ) else 0

theorem alphaVec_eq (states : List State) (nVec : List ℕ) (nLoci nUnl : ℕ) :
    alphaVec states nVec nLoci nUnl
      = (alphaInd states nVec nLoci nUnl).map (· / (alphaInd states nVec nLoci nUnl).sum) := by
  rw [← sumRat_eq]
  rfl

theorem alphaInd_nonneg (states : List State) (nVec : List ℕ) (nLoci nUnl : ℕ) :
    ∀ x ∈ alphaInd states nVec nLoci nUnl, 0 ≤ x := by
  intro x hx
  unfold alphaInd at hx
  obtain ⟨s, -, rfl⟩ := List.mem_map.mp hx
  dsimp only
  split_ifs <;> norm_num

theorem alphaVec_nonneg (states : List State) (nVec : List ℕ) (nLoci nUnl : ℕ) :
    ∀ x ∈ alphaVec states nVec nLoci nUnl, 0 ≤ x := by
  rw [alphaVec_eq]
  intro x hx
  obtain ⟨y, hy, rfl⟩ := List.mem_map.mp hx
  exact div_nonneg (alphaInd_nonneg _ _ _ _ y hy) (List.sum_nonneg (alphaInd_nonneg _ _ _ _))

/-- **4a.** every entry of `alphaVec` (read with the driver's `getD`) is non-negative -/
theorem alphaVec_getD_nonneg (states : List State) (nVec : List ℕ) (nLoci nUnl : ℕ) (i : ℕ) :
    0 ≤ (alphaVec states nVec nLoci nUnl).getD i 0 :=
  getD_nonneg _ (alphaVec_nonneg states nVec nLoci nUnl) i

theorem sum_map_div_const (l : List ℚ) (t : ℚ) : (l.map (· / t)).sum = l.sum / t := by
  induction l with
  | nil => simp
  | cons x xs ih => simp [ih, add_div]

/-- the entries sum to `1` if some state matches the sample configuration, to `0` otherwise -/
theorem alphaVec_sum (states : List State) (nVec : List ℕ) (nLoci nUnl : ℕ) :
    (alphaVec states nVec nLoci nUnl).sum
      = if (alphaInd states nVec nLoci nUnl).sum = 0 then 0 else 1 := by
  rw [alphaVec_eq, sum_map_div_const]
  split_ifs with h
  · rw [h, div_zero]
  · exact div_self h

/-- **4b.** `alphaVec` sums to at most one -/
theorem alphaVec_sum_le_one (states : List State) (nVec : List ℕ) (nLoci nUnl : ℕ) :
    (alphaVec states nVec nLoci nUnl).sum ≤ 1 := by
  rw [alphaVec_sum]
  split_ifs <;> norm_num

/-- the sum over any duplicate-free list of positions of a non-negative list is at most its sum -/
theorem sum_getD_idx_le (l : List ℚ) (hl : ∀ x ∈ l, 0 ≤ x) (idx : List ℕ) (hnd : idx.Nodup) :
    (idx.map fun i => l.getD i 0).sum ≤ l.sum := by
  have hf : ∀ i, 0 ≤ l.getD i 0 := getD_nonneg l hl
  have hsum : l.sum = ∑ j ∈ Finset.range l.length, l.getD j 0 := by
    rw [← list_range_map_sum]
    congr 1
    apply List.ext_getElem
    · simp
    · intro j h1 h2
      simp [List.getD_eq_getElem?_getD, h1]
  rw [← List.sum_toFinset _ hnd, hsum]
  have h1 : ∑ x ∈ idx.toFinset, l.getD x 0
      ≤ ∑ x ∈ idx.toFinset ∪ Finset.range l.length, l.getD x 0 :=
    Finset.sum_le_sum_of_subset_of_nonneg Finset.subset_union_left fun x _ _ => hf x
  have h2 : ∑ x ∈ Finset.range l.length, l.getD x 0
      = ∑ x ∈ idx.toFinset ∪ Finset.range l.length, l.getD x 0 := by
    refine Finset.sum_subset Finset.subset_union_right fun x _ hx => ?_
    rw [Finset.mem_range, not_lt] at hx
    rw [List.getD_eq_getElem?_getD, List.getElem?_eq_none hx]
    rfl
  rw [h2]
  exact h1

end Alpha

/-! ## 5. The inputs of the `mutcfg` driver path -/

section Inputs

/-- positions of the non-absorbing states — `Main.lean`, `mutcfg`:
`let nonAbs := (c.states.zipIdx).filterMap fun (s, i) => if s.isAbsorbing then none else some i` -/
def nonAbsIdx (states : List State) : List ℕ :=
  (states.zipIdx).filterMap fun (s, i) => if s.isAbsorbing then none else some i

/-- `S`: `Main.lean`, `mutcfg`, with `S0 := c.gens.getD 0 #[]`, `c.gens = (rowsAll.map (denseGen k)).toArray`,
`rowsAll[0] = sparseRows states g.transitions` (see `driver_S0`):
`let S : RMat := (nonAbs.map fun i => (nonAbs.map fun j => (S0.getD i #[]).getD j 0).toArray).toArray` -/
def mutcfgS (g : Graph) : RMat :=
  let states := g.visited
  let nonAbs := nonAbsIdx states
  let S0 := denseGen states.length (sparseRows states g.transitions)
  (nonAbs.map fun i => (nonAbs.map fun j => (S0.getD i #[]).getD j 0).toArray).toArray

/-- `R` (unfolded kind, `nBins = c.nTot - 1`): `Main.lean`, `mutcfg`, with
`c.rewardVec r = (c.states.map fun s => r.eval c.nTot s).toArray`:
`let R := (List.range nBins).map fun b => let v := c.rewardVec (.unfoldedSFS (b + 1));
  (nonAbs.map fun i => v.getD i 0).toArray` -/
def mutcfgR (g : Graph) (n : ℕ) : List (Array ℚ) :=
  let states := g.visited
  let nonAbs := nonAbsIdx states
  (List.range (n - 1)).map fun b =>
    let v : Array ℚ := (states.map fun s => (Reward.unfoldedSFS (b + 1)).eval n s).toArray
    (nonAbs.map fun i => v.getD i 0).toArray

/-- `alpha`: `Main.lean`, `mutcfg`, with `c.alpha = alphaVec states nvec nloci nunl`:
`let alpha := (nonAbs.map fun i => c.alpha.getD i 0).toArray` -/
def mutcfgAlpha (g : Graph) (nVec : List ℕ) (nLoci nUnl : ℕ) : Array ℚ :=
  let states := g.visited
  let nonAbs := nonAbsIdx states
  (nonAbs.map fun i => (alphaVec states nVec nLoci nUnl).getD i 0).toArray

/-- the triple `(S, R, alpha)` which the `mutcfg` command passes to `mutConfigProb`
(`Main.lean` is the root of the executable and cannot be imported here, so its expression is
restated; `kind = "u"`, i.e. `nBins = c.nTot - 1` and `r = .unfoldedSFS (b + 1)`).
Checked against the compiled driver (`space bc … ; mutcfg u θ config`), exact rational equality of
`mutConfigProb` on these inputs with the printed value: Kingman `n = 3`, one deme (`ex_inputs`,
`ex_values` below: `1/6`, `5/36`, `1/18`, and `656/16875` for `θ = 2`, config `(2,1)`);
Kingman `nVec = (2,2)`, two demes with migration, `θ = 3/2`, config `(1,0,2)` (20 states, 18
transient); Beta(3/2) `nVec = (1,2)`, `θ = 1/2`, config `(1,1)` (10 states, 8 transient). -/
def mutcfgInputs (g : Graph) (n : ℕ) (nVec : List ℕ) (nLoci nUnl : ℕ) :
    RMat × List (Array ℚ) × Array ℚ :=
  (mutcfgS g, mutcfgR g n, mutcfgAlpha g nVec nLoci nUnl)

/-- the `S0 = c.gens.getD 0 #[]` of the driver (`space` command: `rowsAll`, `gens`) is the dense
generator of the graph of the first epoch -/
theorem driver_S0 (m : Model) (ep0 : EpochP) (rest : List EpochP) (init : State) (g : Graph)
    (h : bfs (transit m ep0) init 100000 = some g) :
    ((((ep0 :: rest).map fun ep =>
        match bfs (transit m ep) init 100000 with
        | some g' => sparseRows g.visited g'.transitions
        | none => []).map (denseGen g.visited.length)).toArray).getD 0 #[]
      = denseGen g.visited.length (sparseRows g.visited g.transitions) := by
  simp [h]

/-! ### the list of non-absorbing positions -/

theorem filterMap_ite_none {α β : Type} (l : List α) (p : α → Bool) (f : α → β) :
    l.filterMap (fun a => if p a then none else some (f a)) = (l.filter fun a => !p a).map f := by
  induction l with
  | nil => rfl
  | cons x xs ih =>
    cases hp : p x <;> simp [hp, ih]

theorem nonAbsIdx_eq (states : List State) :
    nonAbsIdx states = ((states.zipIdx).filter fun p => !p.1.isAbsorbing).map Prod.snd := by
  unfold nonAbsIdx
  rw [← filterMap_ite_none]

theorem nonAbsIdx_nodup (states : List State) : (nonAbsIdx states).Nodup := by
  rw [nonAbsIdx_eq]
  have hsub : (((states.zipIdx).filter fun p => !p.1.isAbsorbing).map Prod.snd).Sublist
      ((states.zipIdx).map Prod.snd) := List.filter_sublist.map _
  refine hsub.nodup ?_
  rw [List.zipIdx_map_snd]
  exact List.nodup_range'

theorem mem_nonAbsIdx (states : List State) (i : ℕ) :
    i ∈ nonAbsIdx states ↔ ∃ h : i < states.length, states[i].isAbsorbing = false := by
  rw [nonAbsIdx_eq, List.mem_map]
  constructor
  · rintro ⟨⟨s, j⟩, hp, rfl⟩
    rw [List.mem_filter, List.mk_mem_zipIdx_iff_getElem?] at hp
    obtain ⟨hget, hna⟩ := hp
    obtain ⟨hj, rfl⟩ := List.getElem?_eq_some_iff.mp hget
    exact ⟨hj, by simpa using hna⟩
  · rintro ⟨hi, hna⟩
    refine ⟨(states[i], i), ?_, rfl⟩
    rw [List.mem_filter, List.mk_mem_zipIdx_iff_getElem?]
    exact ⟨List.getElem?_eq_getElem hi, by simp [hna]⟩

/-! ### reading the arrays -/

theorem getD_toArray_map {α β : Type} (l : List α) (f : α → β) (d : β) (i : ℕ)
    (hi : i < l.length) : ((l.map f).toArray).getD i d = f l[i] := by
  simp [Array.getD, hi]

theorem sum_toVec (k : ℕ) (a : Array ℚ) (hk : a.size = k) : ∑ s, toVec k a s = a.toList.sum := by
  subst hk
  unfold toVec
  have h := Fin.sum_univ_fun_getElem a.toList (fun x : ℚ => x)
  simp only [List.map_id'] at h
  rw [← h]
  exact Finset.sum_congr rfl fun s _ => by simp [Array.getD]

theorem sum_fin_cast {k k' : ℕ} (h : k = k') (f : ℕ → ℚ) :
    ∑ j : Fin k, f j = ∑ j : Fin k', f j := by
  subst h
  rfl

/-- summing over the positions listed in a duplicate-free list `idx` of numbers `< N`, as a sum over
a `Finset (Fin N)` -/
theorem sum_filter_mem_idx (N : ℕ) (idx : List ℕ) (hlt : ∀ x ∈ idx, x < N) (hnd : idx.Nodup)
    (F : ℕ → ℚ) :
    ∑ x ∈ Finset.univ.filter (fun x : Fin N => x.val ∈ idx), F x.val = (idx.map F).sum := by
  rw [← List.sum_toFinset _ hnd]
  have hmap : (Finset.univ.filter fun x : Fin N => x.val ∈ idx).map Fin.valEmbedding
      = idx.toFinset := by
    ext y
    simp only [Finset.mem_map, Finset.mem_filter, Finset.mem_univ, true_and,
      Fin.valEmbedding_apply, List.mem_toFinset]
    constructor
    · rintro ⟨x, hx, rfl⟩
      exact hx
    · intro hy
      exact ⟨⟨y, hlt y hy⟩, hy, rfl⟩
  rw [← hmap, Finset.sum_map]
  rfl

theorem nonAbsIdx_lt (states : List State) (a : ℕ) (ha : a < (nonAbsIdx states).length) :
    (nonAbsIdx states)[a] < states.length := by
  obtain ⟨h, -⟩ := (mem_nonAbsIdx states _).mp (List.getElem_mem ha)
  exact h

theorem nonAbsIdx_not_absorbing (states : List State) (a : ℕ)
    (ha : a < (nonAbsIdx states).length) :
    (states[(nonAbsIdx states)[a]]'(nonAbsIdx_lt states a ha)).isAbsorbing = false := by
  obtain ⟨_, h⟩ := (mem_nonAbsIdx states _).mp (List.getElem_mem ha)
  exact h

/-! ### the entries of `S`, `R`, `alpha` -/

theorem mutcfgS_size (g : Graph) : (mutcfgS g).size = (nonAbsIdx g.visited).length := by
  simp [mutcfgS]

theorem mutcfgS_idx_lt (g : Graph) (s : Fin (mutcfgS g).size) :
    s.val < (nonAbsIdx g.visited).length := (mutcfgS_size g) ▸ s.isLt

/-- the cell `(a, b)` of the driver's `S` is the rate-matrix entry between the `a`-th and the `b`-th
non-absorbing state -/
theorem mutcfgS_get (g : Graph) (hnd : g.visited.Nodup) (a b : ℕ)
    (ha : a < (nonAbsIdx g.visited).length) (hb : b < (nonAbsIdx g.visited).length) :
    (mutcfgS g).get a b
      = rateEntry g.visited g.transitions (nonAbsIdx g.visited)[a] (nonAbsIdx g.visited)[b] := by
  unfold mutcfgS RMat.get
  simp only
  rw [getD_toArray_map _ _ _ a ha, getD_toArray_map _ _ _ b hb]
  exact denseGen_sparseRows g.visited hnd g.transitions _ _ (nonAbsIdx_lt _ a ha)
    (nonAbsIdx_lt _ b hb)

theorem mutcfgR_length (g : Graph) (n : ℕ) : (mutcfgR g n).length = n - 1 := by
  simp [mutcfgR]

/-- the cell `a` of the `b`-th reward vector is the unfolded SFS reward `b + 1` of the `a`-th
non-absorbing state -/
theorem mutcfgR_getD (g : Graph) (n : ℕ) (b : ℕ) (hb : b < (mutcfgR g n).length) (a : ℕ)
    (ha : a < (nonAbsIdx g.visited).length) :
    ((mutcfgR g n)[b]).getD a 0
      = Reward.eval n (g.visited[(nonAbsIdx g.visited)[a]]'(nonAbsIdx_lt _ a ha))
          (.unfoldedSFS (b + 1)) := by
  simp only [mutcfgR, List.getElem_map, List.getElem_range]
  rw [getD_toArray_map _ _ _ a ha, getD_toArray_map _ _ _ _ (nonAbsIdx_lt _ a ha)]

/-- the total reward `r_total` of the `a`-th non-absorbing state, as `getP` forms it -/
theorem mutcfgR_total (g : Graph) (n : ℕ) (a : ℕ) (ha : a < (nonAbsIdx g.visited).length) :
    ((mutcfgR g n).map fun Ri => Ri.getD a 0).sum
      = ∑ b ∈ Finset.range (n - 1),
          Reward.eval n (g.visited[(nonAbsIdx g.visited)[a]]'(nonAbsIdx_lt _ a ha))
            (.unfoldedSFS (b + 1)) := by
  unfold mutcfgR
  simp only
  rw [List.map_map, list_range_map_sum]
  refine Finset.sum_congr rfl fun b _ => ?_
  simp only [Function.comp]
  rw [getD_toArray_map _ _ _ a ha, getD_toArray_map _ _ _ _ (nonAbsIdx_lt _ a ha)]

theorem mutcfgAlpha_size (g : Graph) (nVec : List ℕ) (nLoci nUnl : ℕ) :
    (mutcfgAlpha g nVec nLoci nUnl).size = (nonAbsIdx g.visited).length := by
  simp [mutcfgAlpha]

theorem mutcfgAlpha_toList (g : Graph) (nVec : List ℕ) (nLoci nUnl : ℕ) :
    (mutcfgAlpha g nVec nLoci nUnl).toList
      = (nonAbsIdx g.visited).map fun i => (alphaVec g.visited nVec nLoci nUnl).getD i 0 := by
  simp [mutcfgAlpha]

/-! ### the hypotheses of `mutConfigProb_nonneg` / `mutConfigProb_le_one` for these inputs -/

/-- `hS_off` -/
theorem mutcfgS_offdiag_nonneg (m : Model) (hm : m.Valid) (ep : EpochP) (hep : ep.Valid)
    (init : State) (fuel : ℕ) (g : Graph) (h : bfs (transit m ep) init fuel = some g) :
    ∀ i j : Fin (mutcfgS g).size, i ≠ j → 0 ≤ toMatrix (mutcfgS g).size (mutcfgS g) i j := by
  intro i j hij
  have hi : i.val < (nonAbsIdx g.visited).length := (mutcfgS_size g) ▸ i.isLt
  have hj : j.val < (nonAbsIdx g.visited).length := (mutcfgS_size g) ▸ j.isLt
  rw [toMatrix_apply, mutcfgS_get g (bfs_spec _ _ fuel g h).1 _ _ hi hj]
  refine generator_offdiag_nonneg m hm ep hep init fuel g h _ _ ?_
  intro e
  exact hij (Fin.ext ((nonAbsIdx_nodup g.visited).getElem_inj_iff.mp e))

/-- `hS_row`: the driver's `S` is a sub-generator -/
theorem mutcfgS_row_sum_nonpos (m : Model) (hm : m.Valid) (ep : EpochP) (hep : ep.Valid)
    (init : State) (fuel : ℕ) (g : Graph) (h : bfs (transit m ep) init fuel = some g) :
    ∀ i : Fin (mutcfgS g).size, ∑ j, toMatrix (mutcfgS g).size (mutcfgS g) i j ≤ 0 := by
  intro i
  have hnd := (bfs_spec _ _ fuel g h).1
  have hi : i.val < (nonAbsIdx g.visited).length := (mutcfgS_size g) ▸ i.isLt
  have hlt : ∀ x ∈ nonAbsIdx g.visited, x < g.visited.length := fun x hx =>
    ((mem_nonAbsIdx _ x).mp hx).choose
  have h1 : ∑ j, toMatrix (mutcfgS g).size (mutcfgS g) i j
      = ∑ j : Fin (nonAbsIdx g.visited).length, (mutcfgS g).get i j :=
    sum_fin_cast (mutcfgS_size g) fun j => (mutcfgS g).get i j
  have h2 : ∑ j : Fin (nonAbsIdx g.visited).length, (mutcfgS g).get i j
      = ((nonAbsIdx g.visited).map fun x =>
          rateEntry g.visited g.transitions (nonAbsIdx g.visited)[i.val] x).sum := by
    rw [← Fin.sum_univ_fun_getElem]
    exact Finset.sum_congr rfl fun j _ => mutcfgS_get g hnd _ _ hi j.isLt
  rw [h1, h2, ← sum_filter_mem_idx g.visited.length _ hlt (nonAbsIdx_nodup _)]
  exact transient_block_row_sum_nonpos m hm ep hep init fuel g h _
    ⟨(nonAbsIdx g.visited)[i.val], nonAbsIdx_lt _ _ hi⟩
    (Finset.mem_filter.mpr ⟨Finset.mem_univ _, List.getElem_mem hi⟩)

/-- `hR` -/
theorem mutcfgR_nonneg (g : Graph) (n : ℕ) :
    ∀ (i : Fin (mutcfgR g n).length) (s : Fin (mutcfgS g).size),
      0 ≤ rFun (mutcfgS g).size (mutcfgR g n) i s := by
  intro i s
  have hs : s.val < (nonAbsIdx g.visited).length := (mutcfgS_size g) ▸ s.isLt
  unfold rFun
  rw [Fin.getElem_fin, mutcfgR_getD g n i.val i.isLt s.val hs]
  exact unfoldedSFS_nonneg _ _ _

variable {D n : ℕ}

/-- `r_total` of the driver's `R` is the total branch length reward of the state -/
theorem mutcfgR_rtot (m : Model) (ep : EpochP) (hD : 0 < D) (hn : 2 ≤ n) (fuel : ℕ) (g : Graph)
    (h : bfs (transit m ep) (initialState 1 D n n) fuel = some g) (s : Fin (mutcfgS g).size) :
    mcRtot (rFun (mutcfgS g).size (mutcfgR g n)) s
      = Reward.eval n
          (g.visited[(nonAbsIdx g.visited)[s.val]'(mutcfgS_idx_lt g s)]'(nonAbsIdx_lt _ _
            (mutcfgS_idx_lt g s))) .totalBranchLength := by
  have hs : s.val < (nonAbsIdx g.visited).length := mutcfgS_idx_lt g s
  unfold mcRtot rFun
  rw [← sfs_rewards_sum_eq_tbl m ep hD hn fuel g h _ (List.getElem_mem _),
    sum_Icc_shift n (by omega), ← mutcfgR_total g n s.val hs,
    ← Fin.sum_univ_fun_getElem (mutcfgR g n) fun Ri => Ri.getD s.val 0]
  rfl

/-- `hr` -/
theorem mutcfgR_rtot_pos (m : Model) (ep : EpochP) (hD : 0 < D) (hn : 2 ≤ n) (fuel : ℕ) (g : Graph)
    (h : bfs (transit m ep) (initialState 1 D n n) fuel = some g) :
    ∀ s : Fin (mutcfgS g).size, 0 < mcRtot (rFun (mutcfgS g).size (mutcfgR g n)) s := by
  intro s
  rw [mutcfgR_rtot m ep hD hn fuel g h s]
  exact transient_total_reward_pos m ep hD hn fuel g h _ (List.getElem_mem _)
    (nonAbsIdx_not_absorbing _ _ _)

/-- `hα` -/
theorem mutcfgAlpha_nonneg (g : Graph) (nVec : List ℕ) (nLoci nUnl : ℕ) (k : ℕ) :
    ∀ s : Fin k, 0 ≤ toVec k (mutcfgAlpha g nVec nLoci nUnl) s := by
  intro s
  unfold toVec
  rw [Array.getD_eq_getD_getElem?]
  cases hx : (mutcfgAlpha g nVec nLoci nUnl)[s.val]? with
  | none => exact le_rfl
  | some x =>
    have hmem : x ∈ (mutcfgAlpha g nVec nLoci nUnl).toList :=
      Array.mem_toList_iff.mpr (Array.mem_of_getElem? hx)
    rw [mutcfgAlpha_toList, List.mem_map] at hmem
    obtain ⟨i, -, rfl⟩ := hmem
    exact alphaVec_getD_nonneg _ _ _ _ _

/-- `hα1` -/
theorem mutcfgAlpha_sum_le_one (g : Graph) (nVec : List ℕ) (nLoci nUnl : ℕ) :
    ∑ s, toVec (mutcfgS g).size (mutcfgAlpha g nVec nLoci nUnl) s ≤ 1 := by
  rw [sum_toVec _ _ ((mutcfgAlpha_size g nVec nLoci nUnl).trans (mutcfgS_size g).symm),
    mutcfgAlpha_toList]
  exact le_trans (sum_getD_idx_le _ (alphaVec_nonneg _ _ _ _) _ (nonAbsIdx_nodup _))
    (alphaVec_sum_le_one _ _ _ _)

end Inputs

/-! ## 5'. THE BRIDGE -/

section Final

/-- `mutConfigProb ≥ 0` with NO hypothesis on the length of the configuration (for entries beyond
the number of rewards the executable multiplies by the identity, which is entrywise `≥ 0` too) -/
theorem mutConfigProb_nonneg_any {S : RMat} {R : List (Array ℚ)} {alpha : Array ℚ} {θ : ℚ}
    {config : List ℕ} {p : ℚ} (h : mutConfigProb S R alpha θ config = some p)
    (hS_off : ∀ i j, i ≠ j → 0 ≤ toMatrix S.size S i j)
    (hS_row : ∀ i, ∑ j, toMatrix S.size S i j ≤ 0) (hθ : 0 < θ)
    (hR : ∀ i s, 0 ≤ rFun S.size R i s) (hr : ∀ s, 0 < mcRtot (rFun S.size R) s)
    (hα : ∀ s, 0 ≤ toVec S.size alpha s) : 0 ≤ p := by
  rcases hg : getP S R θ with _ | ⟨P, pTot⟩
  · rw [mutConfigProb_eq, hg] at h
    exact absurd h (by simp)
  · obtain ⟨G, hGr, hGl, hl, hw, hPi, hp⟩ := getP_resolvent hg hθ.ne' (fun s => (hr s).ne')
    rw [mutConfigProb_eq, hg] at h
    simp only [Option.some.injEq] at h
    subst h
    rw [mutOut_eq, toMatrix_ordSum hw, hp]
    refine vecNonneg_dotProduct hα (matNonneg_mulVec (matNonneg_list_sum fun A hA => ?_)
      (mcptot_nonneg hS_off hS_row hθ hr hGr))
    obtain ⟨w, -, rfl⟩ := List.mem_map.mp hA
    refine matNonneg_list_prod fun B hB => ?_
    obtain ⟨x, -, rfl⟩ := List.mem_map.mp hB
    by_cases hx : x - 1 < R.length
    · have hB := hPi ⟨x - 1, hx⟩
      simp only at hB
      rw [hB]
      exact mcP_nonneg hS_off hS_row hθ hR hr hGr _
    · rw [List.getD_eq_default _ _ (by omega), toMatrix_id]
      exact matNonneg_one

variable {D n : ℕ}

/-- **All sign hypotheses of `mutConfigProb_nonneg` / `mutConfigProb_le_one` hold for the inputs of
the `mutcfg` driver path** (valid model, valid epoch, block-counting graph of `n ≥ 2` samples over
`D ≥ 1` demes). -/
theorem mutcfgInputs_hypotheses (m : Model) (hm : m.Valid) (ep : EpochP) (hep : ep.Valid)
    (hD : 0 < D) (hn : 2 ≤ n) (fuel : ℕ) (g : Graph)
    (hg : bfs (transit m ep) (initialState 1 D n n) fuel = some g)
    (nVec : List ℕ) (nLoci nUnl : ℕ) :
    (∀ i j, i ≠ j → 0 ≤ toMatrix (mutcfgS g).size (mutcfgS g) i j) ∧
    (∀ i, ∑ j, toMatrix (mutcfgS g).size (mutcfgS g) i j ≤ 0) ∧
    (∀ i s, 0 ≤ rFun (mutcfgS g).size (mutcfgR g n) i s) ∧
    (∀ s, 0 < mcRtot (rFun (mutcfgS g).size (mutcfgR g n)) s) ∧
    (∀ s, 0 ≤ toVec (mutcfgS g).size (mutcfgAlpha g nVec nLoci nUnl) s) ∧
    ∑ s, toVec (mutcfgS g).size (mutcfgAlpha g nVec nLoci nUnl) s ≤ 1 ∧
    (mutcfgR g n).length = n - 1 :=
  ⟨mutcfgS_offdiag_nonneg m hm ep hep _ fuel g hg,
   mutcfgS_row_sum_nonpos m hm ep hep _ fuel g hg,
   mutcfgR_nonneg g n,
   mutcfgR_rtot_pos m ep hD hn fuel g hg,
   mutcfgAlpha_nonneg g nVec nLoci nUnl _,
   mutcfgAlpha_sum_le_one g nVec nLoci nUnl,
   mutcfgR_length g n⟩

/-- **C16 at the level of the code model, with no sign hypothesis left.**
For a valid coalescent model `m`, a valid epoch `ep` (positive time scales, non-negative migration
rates), `D ≥ 1` demes, `n ≥ 2` samples: let `g` be the block-counting graph which the search
`get_transitions` returns, and `(S, R, alpha)` the arrays which the `mutcfg` path of the driver
assembles from it (`mutcfgInputs`: generator restricted to the non-absorbing states, unfolded SFS
reward vectors `1 … n-1`, initial vector).  Then for every mutation rate `θ > 0` and EVERY
configuration, whatever the executable `mutConfigProb` returns is `≥ 0`, and it is `≤ 1` if the
configuration has one entry per SFS bin.  (`nVec`, `nLoci`, `nUnl` — the arguments of `alphaVec` —
are arbitrary.) -/
theorem C16_code_prob_in_unit_interval (m : Model) (hm : m.Valid) (ep : EpochP) (hep : ep.Valid)
    (hD : 0 < D) (hn : 2 ≤ n) (fuel : ℕ) (g : Graph)
    (hg : bfs (transit m ep) (initialState 1 D n n) fuel = some g)
    (nVec : List ℕ) (nLoci nUnl : ℕ) (θ : ℚ) (hθ : 0 < θ) (config : List ℕ) (p : ℚ)
    (h : mutConfigProb (mutcfgInputs g n nVec nLoci nUnl).1 (mutcfgInputs g n nVec nLoci nUnl).2.1
      (mutcfgInputs g n nVec nLoci nUnl).2.2 θ config = some p) :
    0 ≤ p ∧ (config.length = n - 1 → p ≤ 1) := by
  change mutConfigProb (mutcfgS g) (mutcfgR g n) (mutcfgAlpha g nVec nLoci nUnl) θ config
    = some p at h
  obtain ⟨hS_off, hS_row, hR, hr, hα, hα1, hlen⟩ :=
    mutcfgInputs_hypotheses m hm ep hep hD hn fuel g hg nVec nLoci nUnl
  refine ⟨mutConfigProb_nonneg_any h hS_off hS_row hθ hR hr hα, fun hc => ?_⟩
  exact mutConfigProb_le_one h hS_off hS_row hθ hR hr hα hα1 (by rw [hlen]; omega)
    (by rw [hlen]; exact hc)

/-- the same for the total mass: the numbers which the executable returns for ALL configurations
with at most `M` mutations sum to a number in `[0, 1]` -/
theorem C16_code_total_mass_in_unit_interval (m : Model) (hm : m.Valid) (ep : EpochP)
    (hep : ep.Valid) (hD : 0 < D) (hn : 2 ≤ n) (fuel : ℕ) (g : Graph)
    (hg : bfs (transit m ep) (initialState 1 D n n) fuel = some g)
    (nVec : List ℕ) (nLoci nUnl : ℕ) (θ : ℚ) (hθ : 0 < θ) (P : List RMat) (pTot : Array ℚ)
    (hP : getP (mutcfgS g) (mutcfgR g n) θ = some (P, pTot)) (M : ℕ) :
    0 ≤ ∑ k ∈ Finset.range (M + 1), ((partitionsOf k (n - 1)).map fun c =>
        (mutConfigProb (mutcfgS g) (mutcfgR g n) (mutcfgAlpha g nVec nLoci nUnl) θ c).getD 0).sum ∧
    ∑ k ∈ Finset.range (M + 1), ((partitionsOf k (n - 1)).map fun c =>
        (mutConfigProb (mutcfgS g) (mutcfgR g n) (mutcfgAlpha g nVec nLoci nUnl) θ c).getD 0).sum
      ≤ 1 := by
  obtain ⟨hS_off, hS_row, hR, hr, hα, hα1, hlen⟩ :=
    mutcfgInputs_hypotheses m hm ep hep hD hn fuel g hg nVec nLoci nUnl
  have := mutConfigProb_total_mass_bounds hP hS_off hS_row hθ hR hr (by rw [hlen]; omega)
    (mutcfgAlpha g nVec nLoci nUnl) hα hα1 M
  rwa [hlen] at this

end Final

/-! ## 6. A concrete instance: Kingman coalescent, `n = 3` samples, one deme -/

section Example

deriving instance DecidableEq for Graph

def exEp : EpochP := { ts := [1], mig := [[0]], recRate := 0 }

theorem exEp_valid : exEp.Valid := by
  refine ⟨?_, ?_, le_rfl⟩
  · intro t ht
    simp only [exEp, List.mem_singleton] at ht
    subst ht
    exact one_pos
  · intro row hrow x hx
    simp only [exEp, List.mem_singleton] at hrow
    subst hrow
    simp only [List.mem_singleton] at hx
    subst hx
    exact le_rfl

/-- the block-counting graph: `(3,0,0) → (1,1,0)` at rate 3, `(1,1,0) → (0,0,1)` at rate 1 -/
def exGraph : Graph :=
  { visited := [⟨[[[3, 0, 0]]], [[[0, 0, 0]]]⟩, ⟨[[[1, 1, 0]]], [[[0, 0, 0]]]⟩,
      ⟨[[[0, 0, 1]]], [[[0, 0, 0]]]⟩]
    transitions := [((⟨[[[3, 0, 0]]], [[[0, 0, 0]]]⟩, ⟨[[[1, 1, 0]]], [[[0, 0, 0]]]⟩), 3),
      ((⟨[[[1, 1, 0]]], [[[0, 0, 0]]]⟩, ⟨[[[0, 0, 1]]], [[[0, 0, 0]]]⟩), 1)] }

/-- the search, evaluated in the kernel -/
theorem ex_bfs : bfs (transit .kingman exEp) (initialState 1 1 3 3) 10 = some exGraph := by
  decide +kernel

/-- the inputs which the driver assembles are those of the instance of `MutConfigNonneg` §7 -/
theorem ex_inputs : mutcfgInputs exGraph 3 [3] 1 0
    = (#[#[-3, 3], #[0, -1]], [#[3, 1], #[0, 1]], #[1, 0]) := by
  decide +kernel

/-- the executable returns `1/6`, `5/36`, `1/18` for the configurations `(0,0)`, `(1,0)`, `(0,1)` -/
theorem ex_values :
    mutConfigProb (mutcfgInputs exGraph 3 [3] 1 0).1 (mutcfgInputs exGraph 3 [3] 1 0).2.1
      (mutcfgInputs exGraph 3 [3] 1 0).2.2 1 [0, 0] = some (1 / 6) ∧
    mutConfigProb (mutcfgInputs exGraph 3 [3] 1 0).1 (mutcfgInputs exGraph 3 [3] 1 0).2.1
      (mutcfgInputs exGraph 3 [3] 1 0).2.2 1 [1, 0] = some (5 / 36) ∧
    mutConfigProb (mutcfgInputs exGraph 3 [3] 1 0).1 (mutcfgInputs exGraph 3 [3] 1 0).2.1
      (mutcfgInputs exGraph 3 [3] 1 0).2.2 1 [0, 1] = some (1 / 18) := by
  decide +kernel

/-- the theorem applies to the instance (every hypothesis is satisfied: non-vacuity) -/
example : (0 : ℚ) ≤ 5 / 36 ∧ ([1, 0].length = 3 - 1 → (5 / 36 : ℚ) ≤ 1) :=
  C16_code_prob_in_unit_interval .kingman trivial exEp exEp_valid (D := 1) (n := 3) one_pos
    (by norm_num) 10 exGraph ex_bfs [3] 1 0 1 one_pos [1, 0] (5 / 36) ex_values.2.1

end Example

end PG

#print axioms PG.offW_nonneg
#print axioms PG.offd_nonneg
#print axioms PG.rateEntry_offdiag_nonneg
#print axioms PG.rateEntry_diag_nonpos
#print axioms PG.rateEntry_row_sum_nonpos
#print axioms PG.rateEntry_subset_row_sum
#print axioms PG.rateEntry_subset_row_sum_nonpos
#print axioms PG.bfs_transitions_nonneg
#print axioms PG.generator_offdiag_nonneg
#print axioms PG.transient_block_row_sum_nonpos
#print axioms PG.generator_row_sum_zero_of_no_self_loop
#print axioms PG.foldl_congr_mem
#print axioms PG.migrateUnlinked_congr
#print axioms PG.coalesce1_congr
#print axioms PG.transit_congr
#print axioms PG.transit_encBC_epoch
#print axioms PG.reach_encBC_epoch
#print axioms PG.bfs_states_bc
#print axioms PG.bfs_no_self_loop_bc
#print axioms PG.generator_row_sum_zero
#print axioms PG.isBC_encBC
#print axioms PG.massOK_encBC
#print axioms PG.unfoldedSFS_nonneg
#print axioms PG.tbl_encBC
#print axioms PG.total_pos_of_mass
#print axioms PG.sfs_rewards_sum_eq_tbl
#print axioms PG.transient_total_reward_ge_two
#print axioms PG.transient_total_reward_pos
#print axioms PG.treeHeight_one_iff_transient
#print axioms PG.alphaVec_eq
#print axioms PG.alphaInd_nonneg
#print axioms PG.alphaVec_nonneg
#print axioms PG.alphaVec_getD_nonneg
#print axioms PG.sum_map_div_const
#print axioms PG.alphaVec_sum
#print axioms PG.alphaVec_sum_le_one
#print axioms PG.sum_getD_idx_le
#print axioms PG.driver_S0
#print axioms PG.filterMap_ite_none
#print axioms PG.nonAbsIdx_eq
#print axioms PG.nonAbsIdx_nodup
#print axioms PG.mem_nonAbsIdx
#print axioms PG.getD_toArray_map
#print axioms PG.sum_toVec
#print axioms PG.sum_fin_cast
#print axioms PG.sum_filter_mem_idx
#print axioms PG.nonAbsIdx_lt
#print axioms PG.nonAbsIdx_not_absorbing
#print axioms PG.mutcfgS_size
#print axioms PG.mutcfgS_idx_lt
#print axioms PG.mutcfgS_get
#print axioms PG.mutcfgR_length
#print axioms PG.mutcfgR_getD
#print axioms PG.mutcfgR_total
#print axioms PG.mutcfgAlpha_size
#print axioms PG.mutcfgAlpha_toList
#print axioms PG.mutcfgS_offdiag_nonneg
#print axioms PG.mutcfgS_row_sum_nonpos
#print axioms PG.mutcfgR_nonneg
#print axioms PG.mutcfgR_rtot
#print axioms PG.mutcfgR_rtot_pos
#print axioms PG.mutcfgAlpha_nonneg
#print axioms PG.mutcfgAlpha_sum_le_one
#print axioms PG.mutConfigProb_nonneg_any
#print axioms PG.mutcfgInputs_hypotheses
#print axioms PG.C16_code_prob_in_unit_interval
#print axioms PG.C16_code_total_mass_in_unit_interval
#print axioms PG.exEp_valid
#print axioms PG.ex_bfs
#print axioms PG.ex_inputs
#print axioms PG.ex_values
