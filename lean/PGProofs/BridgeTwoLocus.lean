/-
PGProofs.BridgeTwoLocus — the executable state-space code model (`PGModel.Space`) builds, on
two-locus lineage counts (linked / only locus 1 / only locus 2, per deme), exactly the generator
of the ancestral recombination graph which `PGProofs.Labelled` (`arg_lumping`) proves to be the
lumping of the labelled particle system.
-/
import PGProofs.Bridge
import PGModel.Rewards

set_option linter.unusedSectionVars false
set_option linter.unusedSimpArgs false
set_option linter.unusedVariables false

open Finset

namespace PG

open LCls

/-! ## 0. The encoding -/

/-- two-locus count state: per deme `d`, `c (d, L)` linked lineages, `c (d, U1)` lineages
carrying only locus 1, `c (d, U2)` only locus 2 -/
def enc2 {D : ℕ} (c : Fin D × LCls → ℕ) : State :=
  { lin := [List.ofFn fun d => [c (d, .L) + c (d, .U1)], List.ofFn fun d => [c (d, .L) + c (d, .U2)]],
    lnk := [List.ofFn fun d => [c (d, .L)], List.ofFn fun d => [c (d, .L)]] }

section Repr
variable {D : ℕ}

/-- a two-locus, one-block array `[locus][deme][0]` -/
def arr2 (a0 a1 : Fin D → ℕ) : List (List (List ℕ)) :=
  [List.ofFn fun d => [a0 d], List.ofFn fun d => [a1 d]]

theorem enc2_lin (c : Fin D × LCls → ℕ) :
    (enc2 c).lin = arr2 (fun d => c (d, L) + c (d, U1)) (fun d => c (d, L) + c (d, U2)) := rfl

theorem enc2_lnk (c : Fin D × LCls → ℕ) :
    (enc2 c).lnk = arr2 (fun d => c (d, L)) (fun d => c (d, L)) := rfl

theorem get3_arr2_0 (a0 a1 : Fin D → ℕ) (d : Fin D) : get3 (arr2 a0 a1) 0 d.val 0 = a0 d := by
  simp [get3, arr2, List.getD_eq_getElem?_getD, List.getElem?_ofFn]

theorem get3_arr2_1 (a0 a1 : Fin D → ℕ) (d : Fin D) : get3 (arr2 a0 a1) 1 d.val 0 = a1 d := by
  simp [get3, arr2, List.getD_eq_getElem?_getD, List.getElem?_ofFn]

theorem modify3_arr2_0 (a0 a1 : Fin D → ℕ) (d : Fin D) (f : ℕ → ℕ) :
    modify3 (arr2 a0 a1) 0 d.val 0 f = arr2 (Function.update a0 d (f (a0 d))) a1 := by
  unfold modify3 arr2
  rw [List.modify_zero_cons, ofFn_modify]
  simp only [List.modify_zero_cons]
  rw [ofFn_singleton_update]

theorem modify3_arr2_1 (a0 a1 : Fin D → ℕ) (d : Fin D) (f : ℕ → ℕ) :
    modify3 (arr2 a0 a1) 1 d.val 0 f = arr2 a0 (Function.update a1 d (f (a1 d))) := by
  unfold modify3 arr2
  rw [List.modify_succ_cons, List.modify_zero_cons, ofFn_modify]
  simp only [List.modify_zero_cons]
  rw [ofFn_singleton_update]

/-- the `linked[l, deme] -= 1` of `recombine` -/
theorem modmap_arr2_0 (a0 a1 : Fin D → ℕ) (d : Fin D) (f : ℕ → ℕ) :
    (arr2 a0 a1).modify 0 (fun x => x.modify d.val fun y => y.map f)
      = arr2 (Function.update a0 d (f (a0 d))) a1 := by
  unfold arr2
  rw [List.modify_zero_cons, ofFn_modify]
  simp only [List.map_cons, List.map_nil]
  rw [ofFn_singleton_update]

theorem modmap_arr2_1 (a0 a1 : Fin D → ℕ) (d : Fin D) (f : ℕ → ℕ) :
    (arr2 a0 a1).modify 1 (fun x => x.modify d.val fun y => y.map f)
      = arr2 a0 (Function.update a1 d (f (a1 d))) := by
  unfold arr2
  rw [List.modify_succ_cons, List.modify_zero_cons, ofFn_modify]
  simp only [List.map_cons, List.map_nil]
  rw [ofFn_singleton_update]

theorem getD_arr2_0 (a0 a1 : Fin D → ℕ) (d : Fin D) :
    ((arr2 a0 a1).getD 0 []).getD d.val [] = [a0 d] := by
  simp [arr2, List.getD_eq_getElem?_getD, List.getElem?_ofFn]

theorem getD_arr2_1 (a0 a1 : Fin D → ℕ) (d : Fin D) :
    ((arr2 a0 a1).getD 1 []).getD d.val [] = [a1 d] := by
  simp [arr2, List.getD_eq_getElem?_getD, List.getElem?_ofFn]

theorem range_two : List.range 2 = [0, 1] := rfl

theorem nLoci_enc2 (c : Fin D × LCls → ℕ) : (enc2 c).nLoci = 2 := rfl

theorem nDemes_enc2 (c : Fin D × LCls → ℕ) : (enc2 c).nDemes = D := by
  simp [State.nDemes, enc2]

theorem nBlocks_enc2 (c : Fin D × LCls → ℕ) (hD : 0 < D) : (enc2 c).nBlocks = 1 := by
  simp [State.nBlocks, enc2, List.getD_eq_getElem?_getD, List.getElem?_ofFn, hD]

theorem unl0_enc2 (c : Fin D × LCls → ℕ) (d : Fin D) : (enc2 c).unl 0 d.val 0 = c (d, U1) := by
  unfold State.unl
  rw [enc2_lin, enc2_lnk, get3_arr2_0, get3_arr2_0]
  omega

theorem unl1_enc2 (c : Fin D × LCls → ℕ) (d : Fin D) : (enc2 c).unl 1 d.val 0 = c (d, U2) := by
  unfold State.unl
  rw [enc2_lin, enc2_lnk, get3_arr2_1, get3_arr2_1]
  omega

/-- extensionality against an encoded count state -/
theorem state_eq_enc2 (a0 a1 k0 k1 : Fin D → ℕ) (c' : Fin D × LCls → ℕ)
    (h0 : ∀ t, a0 t = c' (t, L) + c' (t, U1)) (h1 : ∀ t, a1 t = c' (t, L) + c' (t, U2))
    (h2 : ∀ t, k0 t = c' (t, L)) (h3 : ∀ t, k1 t = c' (t, L)) :
    ({ lin := arr2 a0 a1, lnk := arr2 k0 k1 } : State) = enc2 c' := by
  have e0 : a0 = fun t => c' (t, L) + c' (t, U1) := funext h0
  have e1' : a1 = fun t => c' (t, L) + c' (t, U2) := funext h1
  have e2 : k0 = fun t => c' (t, L) := funext h2
  have e3 : k1 = fun t => c' (t, L) := funext h3
  subst e0 e1' e2 e3
  rfl

theorem enc2_injective : Function.Injective (enc2 (D := D)) := by
  intro c c' h
  have hk : ∀ d : Fin D, c (d, L) = c' (d, L) := fun d => by
    have := congrArg (fun s => get3 s.lnk 0 d.val 0) h
    simpa [enc2_lnk, get3_arr2_0] using this
  have h0 : ∀ d : Fin D, c (d, L) + c (d, U1) = c' (d, L) + c' (d, U1) := fun d => by
    have := congrArg (fun s => get3 s.lin 0 d.val 0) h
    simpa [enc2_lin, get3_arr2_0] using this
  have h1 : ∀ d : Fin D, c (d, L) + c (d, U2) = c' (d, L) + c' (d, U2) := fun d => by
    have := congrArg (fun s => get3 s.lin 1 d.val 0) h
    simpa [enc2_lin, get3_arr2_1] using this
  funext ⟨d, cl⟩
  have := hk d; have := h0 d; have := h1 d
  cases cl <;> omega

theorem sum_LCls {M : Type*} [AddCommMonoid M] (f : LCls → M) : ∑ cl, f cl = f L + f U1 + f U2 := by
  have : (univ : Finset LCls) = {L, U1, U2} := rfl
  rw [this, sum_insert (by decide), sum_insert (by decide), sum_singleton, add_assoc]

theorem locusTotal0_enc2 (c : Fin D × LCls → ℕ) :
    (enc2 c).locusTotal 0 = ∑ d, (c (d, L) + c (d, U1)) := by
  unfold State.locusTotal
  rw [sumNat_eq, Fin.sum_univ_def]
  simp [enc2, List.ofFn_eq_map, sumNat_eq, Function.comp_def]

theorem locusTotal1_enc2 (c : Fin D × LCls → ℕ) :
    (enc2 c).locusTotal 1 = ∑ d, (c (d, L) + c (d, U2)) := by
  unfold State.locusTotal
  rw [sumNat_eq, Fin.sum_univ_def]
  simp [enc2, List.ofFn_eq_map, sumNat_eq, Function.comp_def]

theorem isAbsorbing_enc2 (c : Fin D × LCls → ℕ) :
    (enc2 c).isAbsorbing = true
      ↔ (∑ d, (c (d, L) + c (d, U1)) = 1 ∧ ∑ d, (c (d, L) + c (d, U2)) = 1) := by
  unfold State.isAbsorbing
  rw [nLoci_enc2, range_two]
  simp [locusTotal0_enc2, locusTotal1_enc2]

/-- pointwise evaluation of updated count vectors -/
theorem e1_apply (a t : Fin D × LCls) : e1 a t = if t = a then 1 else 0 := by
  simp [e1, Pi.single_apply]

end Repr

/-- closes goals `∀ t, (updated array) t = c' (t, cl) + …` -/
macro "enc_pt" : tactic =>
  `(tactic| (
    intro t
    simp only [Function.update_apply, Pi.add_apply, Pi.sub_apply, e1_apply,
      Prod.mk.injEq, and_true, and_false, reduceCtorEq, if_false]
    first | omega | (split_ifs <;> (try subst_vars) <;> omega)))

/-! ## 1. Reading and writing encoded states -/

section Access
variable {D : ℕ}

theorem get3_lin0_enc2 (c : Fin D × LCls → ℕ) (d : Fin D) :
    get3 (enc2 c).lin 0 d.val 0 = c (d, L) + c (d, U1) := by rw [enc2_lin, get3_arr2_0]
theorem get3_lin1_enc2 (c : Fin D × LCls → ℕ) (d : Fin D) :
    get3 (enc2 c).lin 1 d.val 0 = c (d, L) + c (d, U2) := by rw [enc2_lin, get3_arr2_1]
theorem get3_lnk0_enc2 (c : Fin D × LCls → ℕ) (d : Fin D) :
    get3 (enc2 c).lnk 0 d.val 0 = c (d, L) := by rw [enc2_lnk, get3_arr2_0]
theorem get3_lnk1_enc2 (c : Fin D × LCls → ℕ) (d : Fin D) :
    get3 (enc2 c).lnk 1 d.val 0 = c (d, L) := by rw [enc2_lnk, get3_arr2_1]

/-- target of an unlinked migration at locus 1 -/
theorem migU1_target (c : Fin D × LCls → ℕ) (d d' : Fin D) (h : 0 < c (d, U1)) :
    ({ enc2 c with lin := modify3 (modify3 (enc2 c).lin 0 d.val 0 (· - 1)) 0 d'.val 0 (· + 1) }
      : State) = enc2 (c - e1 (d, U1) + e1 (d', U1)) := by
  simp only [enc2_lin, enc2_lnk, modify3_arr2_0]
  apply state_eq_enc2 <;> enc_pt

/-- target of an unlinked migration at locus 2 -/
theorem migU2_target (c : Fin D × LCls → ℕ) (d d' : Fin D) (h : 0 < c (d, U2)) :
    ({ enc2 c with lin := modify3 (modify3 (enc2 c).lin 1 d.val 0 (· - 1)) 1 d'.val 0 (· + 1) }
      : State) = enc2 (c - e1 (d, U2) + e1 (d', U2)) := by
  simp only [enc2_lin, enc2_lnk, modify3_arr2_1]
  apply state_eq_enc2 <;> enc_pt

/-- target of a linked migration -/
theorem migL_target (c : Fin D × LCls → ℕ) (d d' : Fin D) (h : 0 < c (d, L)) :
    ({ lin := modify3 (modify3 (modify3 (modify3 (enc2 c).lin 0 d.val 0 (· - 1)) 0 d'.val 0 (· + 1))
          1 d.val 0 (· - 1)) 1 d'.val 0 (· + 1),
       lnk := modify3 (modify3 (modify3 (modify3 (enc2 c).lnk 0 d.val 0 (· - 1)) 0 d'.val 0 (· + 1))
          1 d.val 0 (· - 1)) 1 d'.val 0 (· + 1) } : State)
      = enc2 (c - e1 (d, L) + e1 (d', L)) := by
  simp only [enc2_lin, enc2_lnk, modify3_arr2_0, modify3_arr2_1]
  apply state_eq_enc2 <;> enc_pt

end Access

/-! ## 2. Migration -/

section Migrate2
variable {D : ℕ}

/-- the list of migration events of the lineages of class `cl`, in the order of the code -/
def migList2 (mig : Fin D → Fin D → ℚ) (c : Fin D × LCls → ℕ) (cl : LCls) : List (State × ℚ) :=
  ((finPairs D).filter fun p => decide (p.1 ≠ p.2) && decide (0 < c (p.1, cl))).map fun p =>
    (enc2 (c - e1 (p.1, cl) + e1 (p.2, cl)), mig p.1 p.2 * (c (p.1, cl) : ℚ))

theorem mig_fold (mig : Fin D → Fin D → ℚ) (c : Fin D × LCls → ℕ) (cl : LCls)
    (F : Targets → ℕ × ℕ → Targets)
    (hF : ∀ acc (p : Fin D × Fin D), F acc (p.1.val, p.2.val) =
      if 0 < c (p.1, cl) then
        Dict.addTarget acc (enc2 (c - e1 (p.1, cl) + e1 (p.2, cl))) (mig p.1 p.2 * (c (p.1, cl) : ℚ))
      else acc)
    (acc : Targets) :
    ((pairs D).filter fun p => p.1 != p.2).foldl F acc = addAll acc (migList2 mig c cl) := by
  rw [pairs_eq, List.filter_map, List.foldl_map]
  rw [List.foldl_ext _ (fun acc p => if 0 < c (p.1, cl) then
      Dict.addTarget acc (enc2 (c - e1 (p.1, cl) + e1 (p.2, cl))) (mig p.1 p.2 * (c (p.1, cl) : ℚ))
      else acc)]
  · rw [foldl_if_addTarget, List.filter_filter]
    unfold migList2
    congr 2
    apply List.filter_congr
    intro p _
    rw [Bool.eq_iff_iff]
    simp [Fin.ext_iff, and_comm]
  · intro acc p _
    exact hF acc p

theorem migrateUnlinked_enc2 (ts : Fin D → ℚ) (mig : Fin D → Fin D → ℚ) (r : ℚ)
    (c : Fin D × LCls → ℕ) :
    migrateUnlinked (mkEpoch ts mig r) (enc2 c)
      = addAll [] (migList2 mig c U1 ++ migList2 mig c U2) := by
  unfold migrateUnlinked
  simp only [nLoci_enc2, nDemes_enc2, range_two, List.foldl_cons, List.foldl_nil]
  rcases Nat.eq_zero_or_pos D with rfl | hD
  · simp [pairs, migList2, finPairs]
  simp only [nBlocks_enc2 c hD, List.range_one, List.foldl_cons, List.foldl_nil]
  refine (mig_fold mig c U2 _ ?_ _).trans ?_
  · intro acc p
    simp only [unl1_enc2, m_mkEpoch, get3_lin1_enc2]
    by_cases h : 0 < c (p.1, U2)
    · rw [if_pos h, if_pos ⟨by omega, h⟩, migU2_target c p.1 p.2 h]
    · rw [if_neg h, if_neg (fun h' => h h'.2)]
  · rw [mig_fold mig c U1 _ ?_, addAll_append]
    intro acc p
    simp only [unl0_enc2, m_mkEpoch, get3_lin0_enc2]
    by_cases h : 0 < c (p.1, U1)
    · rw [if_pos h, if_pos ⟨by omega, h⟩, migU1_target c p.1 p.2 h]
    · rw [if_neg h, if_neg (fun h' => h h'.2)]

theorem migrateLinked_enc2 (ts : Fin D → ℚ) (mig : Fin D → Fin D → ℚ) (r : ℚ)
    (c : Fin D × LCls → ℕ) :
    migrateLinked (mkEpoch ts mig r) (enc2 c) = addAll [] (migList2 mig c L) := by
  unfold migrateLinked
  rw [if_neg (by rw [nLoci_enc2]; omega)]
  simp only [nLoci_enc2, nDemes_enc2, range_two, List.foldl_cons, List.foldl_nil]
  rcases Nat.eq_zero_or_pos D with rfl | hD
  · simp [pairs, migList2, finPairs]
  simp only [nBlocks_enc2 c hD, List.range_one, List.foldl_cons, List.foldl_nil]
  refine mig_fold mig c L _ ?_ _
  intro acc p
  simp only [m_mkEpoch, get3_lin0_enc2, get3_lin1_enc2, get3_lnk0_enc2, get3_lnk1_enc2,
    List.all_cons, List.all_nil, Bool.and_true]
  by_cases h : 0 < c (p.1, L)
  · rw [if_pos h, if_pos (by simp; omega), migL_target c p.1 p.2 h]
  · rw [if_neg h, if_neg (by simp; omega)]

end Migrate2

/-! ## 3. Linear statistics of count vectors (number of linked lineages, per-locus totals) -/

section Counts
variable {D : ℕ}

/-- weighted number of lineages, the weight depending on the class -/
def cS (w : LCls → ℕ) (c : Fin D × LCls → ℕ) : ℕ := ∑ t, w t.2 * c t

theorem cS_move (w : LCls → ℕ) (c κ ρ : Fin D × LCls → ℕ) (h : κ ≤ c) :
    cS w (c - κ + ρ) + cS w κ = cS w c + cS w ρ := by
  unfold cS
  rw [← sum_add_distrib, ← sum_add_distrib]
  refine sum_congr rfl fun t _ => ?_
  have : κ t ≤ c t := h t
  simp only [Pi.add_apply, Pi.sub_apply]
  rw [← Nat.mul_add, ← Nat.mul_add]
  congr 1
  omega

theorem cS_e1 (w : LCls → ℕ) (a : Fin D × LCls) : cS w (e1 a) = w a.2 := by
  unfold cS
  rw [Finset.sum_eq_single_of_mem a (mem_univ _)]
  · simp [e1]
  · intro t _ ht
    simp [e1_apply, ht]

theorem cS_add (w : LCls → ℕ) (a b : Fin D × LCls → ℕ) : cS w (a + b) = cS w a + cS w b := by
  unfold cS
  rw [← sum_add_distrib]
  refine sum_congr rfl fun t _ => ?_
  simp [Nat.mul_add]

/-- weights: number of linked lineages, lineages of locus 1, lineages of locus 2 -/
def wN : LCls → ℕ | .L => 1 | _ => 0
def w1 : LCls → ℕ | .U2 => 0 | _ => 1
def w2 : LCls → ℕ | .U1 => 0 | _ => 1

theorem cS_w1 (c : Fin D × LCls → ℕ) : cS w1 c = ∑ d, (c (d, L) + c (d, U1)) := by
  unfold cS
  rw [Fintype.sum_prod_type]
  refine sum_congr rfl fun d _ => ?_
  rw [sum_LCls]
  simp [w1]

theorem cS_w2 (c : Fin D × LCls → ℕ) : cS w2 c = ∑ d, (c (d, L) + c (d, U2)) := by
  unfold cS
  rw [Fintype.sum_prod_type]
  refine sum_congr rfl fun d _ => ?_
  rw [sum_LCls]
  simp [w2]

theorem e1_le (c : Fin D × LCls → ℕ) (a : Fin D × LCls) (h : 0 < c a) : e1 a ≤ c := by
  rw [Pi.le_def]
  intro t
  rw [e1_apply]
  split_ifs with ht
  · subst ht; omega
  · omega

theorem e1_add_le (c : Fin D × LCls → ℕ) (a b : Fin D × LCls) (hab : a ≠ b) (ha : 0 < c a)
    (hb : 0 < c b) : e1 a + e1 b ≤ c := by
  rw [Pi.le_def]
  intro t
  rw [Pi.add_apply, e1_apply, e1_apply]
  split_ifs with h1 h2 h2
  · exact absurd (h1.symm.trans h2) hab
  · subst h1; omega
  · subst h2; omega
  · omega

theorem e1_two_le (c : Fin D × LCls → ℕ) (a : Fin D × LCls) (h : 2 ≤ c a) : e1 a + e1 a ≤ c := by
  rw [Pi.le_def]
  intro t
  rw [Pi.add_apply, e1_apply]
  split_ifs with h1
  · subst h1; omega
  · omega

theorem cS_swap (w : LCls → ℕ) (c : Fin D × LCls → ℕ) (a b : Fin D × LCls) (h : 0 < c a)
    (hw : w a.2 = w b.2) : cS w (c - e1 a + e1 b) = cS w c := by
  have := cS_move w c (e1 a) (e1 b) (e1_le c a h)
  rw [cS_e1, cS_e1, hw] at this
  exact Nat.add_right_cancel this

/-- `c'` has the same number of linked lineages and the same per-locus totals as `c` -/
def SameTotals (c c' : Fin D × LCls → ℕ) : Prop :=
  cS wN c' = cS wN c ∧ cS w1 c' = cS w1 c ∧ cS w2 c' = cS w2 c

/-- a per-locus total decreases, or the number of linked lineages increases -/
def CoalRel (c c' : Fin D × LCls → ℕ) : Prop :=
  cS w1 c' < cS w1 c ∨ cS w2 c' < cS w2 c ∨ cS wN c < cS wN c'

/-- same per-locus totals, fewer linked lineages -/
def RecRel (c c' : Fin D × LCls → ℕ) : Prop :=
  cS w1 c' = cS w1 c ∧ cS w2 c' = cS w2 c ∧ cS wN c' < cS wN c

end Counts

section Migrate2b
variable {D : ℕ}

theorem mem_keys_migList2 (mig : Fin D → Fin D → ℚ) (c : Fin D × LCls → ℕ) (cl : LCls) (t : State)
    (ht : t ∈ keys (migList2 mig c cl)) :
    ∃ d d', d ≠ d' ∧ 0 < c (d, cl) ∧ t = enc2 (c - e1 (d, cl) + e1 (d', cl)) := by
  unfold migList2 keys at ht
  rw [List.map_map, List.mem_map] at ht
  obtain ⟨p, hp, rfl⟩ := ht
  rw [List.mem_filter] at hp
  have hp2 := hp.2
  simp only [ne_eq, Bool.and_eq_true, decide_eq_true_eq] at hp2
  exact ⟨p.1, p.2, hp2.1, hp2.2, rfl⟩

theorem migList2_sameTotals (mig : Fin D → Fin D → ℚ) (c : Fin D × LCls → ℕ) (cl : LCls)
    (t : State) (ht : t ∈ keys (migList2 mig c cl)) :
    ∃ c', t = enc2 c' ∧ SameTotals c c' := by
  obtain ⟨d, d', _, hpos, rfl⟩ := mem_keys_migList2 mig c cl t ht
  exact ⟨_, rfl, cS_swap _ c _ _ hpos rfl, cS_swap _ c _ _ hpos rfl, cS_swap _ c _ _ hpos rfl⟩

theorem migList2_L_disjoint (mig : Fin D → Fin D → ℚ) (c : Fin D × LCls → ℕ) (cl : LCls)
    (hcl : cl ≠ L) (t : State) (ht : t ∈ keys (migList2 mig c cl)) :
    t ∉ keys (migList2 mig c L) := by
  intro ht'
  obtain ⟨d, d', hd, hpos, rfl⟩ := mem_keys_migList2 mig c cl t ht
  obtain ⟨a, a', ha, hpos', h⟩ := mem_keys_migList2 mig c L _ ht'
  have := congrFun (enc2_injective h) (a, L)
  have ha' : a' ≠ a := fun h => ha h.symm
  cases cl
  · exact hcl rfl
  all_goals
    simp only [Pi.add_apply, Pi.sub_apply, e1_apply, Prod.mk.injEq, and_true, and_false,
      reduceCtorEq, if_false, if_true, ha, ha'] at this
    omega

theorem nodup_keys_migrateUnlinked_enc2 (ts : Fin D → ℚ) (mig : Fin D → Fin D → ℚ) (r : ℚ)
    (c : Fin D × LCls → ℕ) : (keys (migrateUnlinked (mkEpoch ts mig r) (enc2 c))).Nodup := by
  rw [migrateUnlinked_enc2]; exact nodup_keys_addAll _ _ nodup_keys_nil

/-- `migrate_linked | migrate_unlinked` is a concatenation: the key sets are disjoint -/
theorem migrate_enc2 (ts : Fin D → ℚ) (mig : Fin D → Fin D → ℚ) (r : ℚ) (c : Fin D × LCls → ℕ) :
    migrate (mkEpoch ts mig r) (enc2 c)
      = addAll [] (migList2 mig c L) ++ addAll [] (migList2 mig c U1 ++ migList2 mig c U2) := by
  unfold migrate
  rw [union_eq_append _ _ (nodup_keys_migrateUnlinked_enc2 ts mig r c), migrateUnlinked_enc2,
    migrateLinked_enc2]
  intro t ht
  rw [migrateUnlinked_enc2, mem_keys_addAll, keys_append, List.mem_append] at ht
  rw [migrateLinked_enc2, mem_keys_addAll]
  rintro (h | h)
  · simp at h
  · rcases ht with ht | ht | ht
    · simp at ht
    · exact migList2_L_disjoint mig c U1 (by decide) t ht h
    · exact migList2_L_disjoint mig c U2 (by decide) t ht h

theorem genD_migList2 (mig : Fin D → Fin D → ℚ) (c : Fin D × LCls → ℕ) (cl : LCls)
    (G : State → ℚ) :
    genD (migList2 mig c cl) G
      = ∑ d, ∑ d', if d ≠ d' then (c (d, cl) : ℚ) * mig d d' *
          G (enc2 (c - e1 (d, cl) + e1 (d', cl))) else 0 := by
  unfold migList2 genD
  rw [List.map_map, sum_map_filter, sum_finPairs]
  refine sum_congr rfl fun d _ => sum_congr rfl fun d' _ => ?_
  by_cases h : d = d'
  · simp [h]
  · rcases Nat.eq_zero_or_pos (c (d, cl)) with h0 | h0
    · simp [h, h0]
    · simp only [Function.comp, h, h0, ne_eq, not_false_eq_true, decide_true, Bool.and_self,
        if_true]
      ring

/-- **Migration part of the generator row built by the code** (two loci): linked lineages move
jointly, unlinked ones per locus. -/
theorem genOf_migrate2 (ts : Fin D → ℚ) (mig : Fin D → Fin D → ℚ) (r : ℚ)
    (c : Fin D × LCls → ℕ) (g : State → ℚ) :
    genOf (migrate (mkEpoch ts mig r) (enc2 c)) g (enc2 c)
      = ∑ d, ∑ d', ∑ cl, if d ≠ d' then (c (d, cl) : ℚ) * mig d d' *
          (g (enc2 (c - e1 (d, cl) + e1 (d', cl))) - g (enc2 c)) else 0 := by
  rw [genOf_eq_genD, migrate_enc2, genD_append, genD_addAll _ _ _ nodup_keys_nil,
    genD_addAll _ _ _ nodup_keys_nil, genD_append, genD_nil, zero_add, zero_add,
    genD_migList2, genD_migList2, genD_migList2]
  simp only [sum_LCls, sum_add_distrib]
  ring

theorem nodup_keys_migrate_enc2 (ts : Fin D → ℚ) (mig : Fin D → Fin D → ℚ) (r : ℚ)
    (c : Fin D × LCls → ℕ) : (keys (migrate (mkEpoch ts mig r) (enc2 c))).Nodup := by
  have hd : ∀ t ∈ keys (migrateUnlinked (mkEpoch ts mig r) (enc2 c)),
      t ∉ keys (migrateLinked (mkEpoch ts mig r) (enc2 c)) := by
    intro t ht
    rw [migrateUnlinked_enc2, mem_keys_addAll, keys_append, List.mem_append] at ht
    rw [migrateLinked_enc2, mem_keys_addAll]
    rintro (h | h)
    · simp at h
    · rcases ht with ht | ht | ht
      · simp at ht
      · exact migList2_L_disjoint mig c U1 (by decide) t ht h
      · exact migList2_L_disjoint mig c U2 (by decide) t ht h
  unfold migrate
  rw [union_eq_append _ _ (nodup_keys_migrateUnlinked_enc2 ts mig r c) hd, keys_append]
  refine List.Nodup.append ?_ (nodup_keys_migrateUnlinked_enc2 ts mig r c) ?_
  · rw [migrateLinked_enc2]; exact nodup_keys_addAll _ _ nodup_keys_nil
  · intro t h1 h2
    exact hd t h2 h1

/-- every migration target is a count state with the same per-locus totals and the same number
of linked lineages -/
theorem migrate2_keys (ts : Fin D → ℚ) (mig : Fin D → Fin D → ℚ) (r : ℚ) (c : Fin D × LCls → ℕ)
    (t : State) (ht : t ∈ keys (migrate (mkEpoch ts mig r) (enc2 c))) :
    ∃ c', t = enc2 c' ∧ SameTotals c c' := by
  rw [migrate_enc2, keys_append, List.mem_append, mem_keys_addAll, mem_keys_addAll, keys_append,
    List.mem_append] at ht
  rcases ht with (ht | ht) | ht | ht | ht
  · simp at ht
  · exact migList2_sameTotals mig c L t ht
  · simp at ht
  · exact migList2_sameTotals mig c U1 t ht
  · exact migList2_sameTotals mig c U2 t ht

end Migrate2b

/-! ## 4. Recombination -/

section Recombine2
variable {D : ℕ}

theorem getD_lnk0_enc2 (c : Fin D × LCls → ℕ) (d : Fin D) :
    ((enc2 c).lnk.getD 0 []).getD d.val [] = [c (d, L)] := by rw [enc2_lnk, getD_arr2_0]
theorem getD_lnk1_enc2 (c : Fin D × LCls → ℕ) (d : Fin D) :
    ((enc2 c).lnk.getD 1 []).getD d.val [] = [c (d, L)] := by rw [enc2_lnk, getD_arr2_1]

/-- target of a recombination event -/
theorem rec_target (c : Fin D × LCls → ℕ) (d : Fin D) (h : 0 < c (d, L)) :
    ({ enc2 c with lnk := (((enc2 c).lnk.modify 0 fun x => x.modify d.val fun y => y.map (· - 1)).modify
        1 fun x => x.modify d.val fun y => y.map (· - 1)) } : State)
      = enc2 (c - e1 (d, L) + (e1 (d, U1) + e1 (d, U2))) := by
  simp only [enc2_lin, enc2_lnk, modmap_arr2_0, modmap_arr2_1]
  apply state_eq_enc2 <;> enc_pt

/-- the list of recombination events, in the order of the code -/
def recList2 (r : ℚ) (c : Fin D × LCls → ℕ) : List (State × ℚ) :=
  ((List.finRange D).filter fun d => decide (0 < c (d, L))).map fun d =>
    (enc2 (c - e1 (d, L) + (e1 (d, U1) + e1 (d, U2))), r * (c (d, L) : ℚ))

theorem recombine_enc2 (ts : Fin D → ℚ) (mig : Fin D → Fin D → ℚ) (r : ℚ)
    (c : Fin D × LCls → ℕ) :
    recombine (mkEpoch ts mig r) (enc2 c) = addAll [] (recList2 r c) := by
  unfold recombine
  rw [if_neg (by rw [nLoci_enc2]; omega)]
  simp only [nLoci_enc2, nDemes_enc2, range_two, List.foldl_cons, List.foldl_nil]
  rw [← List.map_coe_finRange_eq_range (n := D), List.foldl_map]
  rw [List.foldl_ext _ (fun acc d => if 0 < c (d, L) then
      Dict.addTarget acc (enc2 (c - e1 (d, L) + (e1 (d, U1) + e1 (d, U2)))) (r * (c (d, L) : ℚ))
      else acc)]
  · exact foldl_if_addTarget _ _ _ _ _
  · intro acc d _
    simp only [getD_lnk0_enc2, getD_lnk1_enc2, get3_lnk0_enc2, List.all_cons, List.all_nil,
      Bool.and_true]
    have hr : (mkEpoch ts mig r).recRate = r := rfl
    by_cases h : 0 < c (d, L)
    · rw [if_pos h, if_pos (by simp; omega), rec_target c d h, hr]
    · rw [if_neg h, if_neg (by simp; omega)]

theorem mem_keys_recList2 (r : ℚ) (c : Fin D × LCls → ℕ) (t : State)
    (ht : t ∈ keys (recList2 r c)) :
    ∃ d, 0 < c (d, L) ∧ t = enc2 (c - e1 (d, L) + (e1 (d, U1) + e1 (d, U2))) := by
  unfold recList2 keys at ht
  rw [List.map_map, List.mem_map] at ht
  obtain ⟨d, hd, rfl⟩ := ht
  rw [List.mem_filter] at hd
  exact ⟨d, by simpa using hd.2, rfl⟩

/-- every recombination target has the same per-locus totals and one linked lineage less -/
theorem recombine2_keys (ts : Fin D → ℚ) (mig : Fin D → Fin D → ℚ) (r : ℚ)
    (c : Fin D × LCls → ℕ) (t : State)
    (ht : t ∈ keys (recombine (mkEpoch ts mig r) (enc2 c))) :
    ∃ c', t = enc2 c' ∧ RecRel c c' := by
  rw [recombine_enc2, mem_keys_addAll] at ht
  rcases ht with ht | ht
  · simp at ht
  obtain ⟨d, hpos, rfl⟩ := mem_keys_recList2 r c t ht
  refine ⟨_, rfl, ?_⟩
  have hm := fun w => (cS_move w c (e1 (d, L)) (e1 (d, U1) + e1 (d, U2)) (e1_le c _ hpos)).trans
    (congrArg (cS w c + ·) (cS_add w _ _))
  have h1 := hm w1; have h2 := hm w2; have h3 := hm wN
  simp only [cS_e1, w1, w2, wN] at h1 h2 h3
  unfold RecRel
  omega

theorem nodup_keys_recombine_enc2 (ts : Fin D → ℚ) (mig : Fin D → Fin D → ℚ) (r : ℚ)
    (c : Fin D × LCls → ℕ) : (keys (recombine (mkEpoch ts mig r) (enc2 c))).Nodup := by
  rw [recombine_enc2]; exact nodup_keys_addAll _ _ nodup_keys_nil

theorem sum_finRange_map (f : Fin D → ℚ) : ((List.finRange D).map f).sum = ∑ d, f d := by
  rw [Fin.sum_univ_def]

theorem genD_recList2 (r : ℚ) (c : Fin D × LCls → ℕ) (G : State → ℚ) :
    genD (recList2 r c) G
      = ∑ d, (c (d, L) : ℚ) * r * G (enc2 (c - e1 (d, L) + (e1 (d, U1) + e1 (d, U2)))) := by
  unfold recList2 genD
  rw [List.map_map, sum_map_filter, sum_finRange_map]
  refine sum_congr rfl fun d _ => ?_
  rcases Nat.eq_zero_or_pos (c (d, L)) with h0 | h0
  · simp [h0]
  · simp only [Function.comp, h0, decide_true, if_true]
    ring

/-- **Recombination part of the generator row built by the code.** -/
theorem genOf_recombine2 (ts : Fin D → ℚ) (mig : Fin D → Fin D → ℚ) (r : ℚ)
    (c : Fin D × LCls → ℕ) (g : State → ℚ) :
    genOf (recombine (mkEpoch ts mig r) (enc2 c)) g (enc2 c)
      = ∑ d, (c (d, L) : ℚ) * r *
          (g (enc2 (c - e1 (d, L) + (e1 (d, U1) + e1 (d, U2)))) - g (enc2 c)) := by
  rw [genOf_eq_genD, recombine_enc2, genD_addAll _ _ _ nodup_keys_nil, genD_nil, zero_add,
    genD_recList2]

end Recombine2

/-! ## 5. Coalescence -/

section Coalesce2
variable {D : ℕ}

theorem Cls.beq_eq_decide (a b : Cls) : (a == b) = decide (a = b) := by
  cases a <;> cases b <;> rfl

/-- target of a linked coalescence `(L, L) → L` -/
theorem coalLL_target (c : Fin D × LCls → ℕ) (d : Fin D) (h : 2 ≤ c (d, L)) :
    ({ lin := modify3 (modify3 (enc2 c).lin 0 d.val 0 (· - 1)) 1 d.val 0 (· - 1),
       lnk := modify3 (modify3 (enc2 c).lnk 0 d.val 0 (· - 1)) 1 d.val 0 (· - 1) } : State)
      = enc2 (c - (e1 (d, L) + e1 (d, L)) + e1 (d, L)) := by
  simp only [enc2_lin, enc2_lnk, modify3_arr2_0, modify3_arr2_1]
  apply state_eq_enc2 <;> enc_pt

/-- target of a mixed coalescence `(L, U1) → L` -/
theorem coalLU1_target (c : Fin D × LCls → ℕ) (d : Fin D) (h : 1 ≤ c (d, L)) (h' : 1 ≤ c (d, U1)) :
    ({ enc2 c with lin := modify3 (enc2 c).lin 0 d.val 0 (· - 1) } : State)
      = enc2 (c - (e1 (d, L) + e1 (d, U1)) + e1 (d, L)) := by
  simp only [enc2_lin, enc2_lnk, modify3_arr2_0, modify3_arr2_1]
  apply state_eq_enc2 <;> enc_pt

/-- target of a mixed coalescence `(L, U2) → L` -/
theorem coalLU2_target (c : Fin D × LCls → ℕ) (d : Fin D) (h : 1 ≤ c (d, L)) (h' : 1 ≤ c (d, U2)) :
    ({ enc2 c with lin := modify3 (enc2 c).lin 1 d.val 0 (· - 1) } : State)
      = enc2 (c - (e1 (d, L) + e1 (d, U2)) + e1 (d, L)) := by
  simp only [enc2_lin, enc2_lnk, modify3_arr2_0, modify3_arr2_1]
  apply state_eq_enc2 <;> enc_pt

/-- target of an unlinked coalescence `(U1, U1) → U1` -/
theorem coalU1U1_target (c : Fin D × LCls → ℕ) (d : Fin D) (h : 2 ≤ c (d, U1)) :
    ({ enc2 c with lin := modify3 (enc2 c).lin 0 d.val 0 (· - 1) } : State)
      = enc2 (c - (e1 (d, U1) + e1 (d, U1)) + e1 (d, U1)) := by
  simp only [enc2_lin, enc2_lnk, modify3_arr2_0, modify3_arr2_1]
  apply state_eq_enc2 <;> enc_pt

/-- target of an unlinked coalescence `(U2, U2) → U2` -/
theorem coalU2U2_target (c : Fin D × LCls → ℕ) (d : Fin D) (h : 2 ≤ c (d, U2)) :
    ({ enc2 c with lin := modify3 (enc2 c).lin 1 d.val 0 (· - 1) } : State)
      = enc2 (c - (e1 (d, U2) + e1 (d, U2)) + e1 (d, U2)) := by
  simp only [enc2_lin, enc2_lnk, modify3_arr2_0, modify3_arr2_1]
  apply state_eq_enc2 <;> enc_pt

/-- target of a locus coalescence `(U1, U2) → L` -/
theorem coalU1U2_target (c : Fin D × LCls → ℕ) (d : Fin D) (h : 1 ≤ c (d, U1)) (h' : 1 ≤ c (d, U2)) :
    ({ enc2 c with lnk := modify3 (modify3 (enc2 c).lnk 0 d.val 0 (· + 1)) 1 d.val 0 (· + 1) } : State)
      = enc2 (c - (e1 (d, U1) + e1 (d, U2)) + e1 (d, L)) := by
  simp only [enc2_lin, enc2_lnk, modify3_arr2_0, modify3_arr2_1]
  apply state_eq_enc2 <;> enc_pt

/-- dictionary entry of a pair merger of classes `a`, `b` into class `o` in deme `d` -/
def coalEntry (ts : Fin D → ℚ) (c : Fin D × LCls → ℕ) (d : Fin D) (a b o : LCls) (mult : ℚ) :
    State × ℚ :=
  (enc2 (c - (e1 (d, a) + e1 (d, b)) + e1 (d, o)), mult / ts d)

/-- the merger events contributed by one iteration of the loop over pairs of classes -/
def coalStep (ts : Fin D → ℚ) (c : Fin D × LCls → ℕ) (d : Fin D) : Cls × Cls → List (State × ℚ)
  | (.linked, .linked) =>
      if 2 ≤ c (d, L) then [coalEntry ts c d L L L (kingmanRate (c (d, L)) 2)] else []
  | (.linked, .unlinked1) =>
      if 1 ≤ c (d, L) ∧ 1 ≤ c (d, U1) then
        [coalEntry ts c d L U1 L ((c (d, L) : ℚ) * (c (d, U1) : ℚ))] else []
  | (.linked, .unlinked2) =>
      if 1 ≤ c (d, L) ∧ 1 ≤ c (d, U2) then
        [coalEntry ts c d L U2 L ((c (d, L) : ℚ) * (c (d, U2) : ℚ))] else []
  | (.unlinked1, .unlinked1) =>
      if 2 ≤ c (d, U1) then [coalEntry ts c d U1 U1 U1 (kingmanRate (c (d, U1)) 2)] else []
  | (.unlinked1, .unlinked2) =>
      if 1 ≤ c (d, U1) ∧ 1 ≤ c (d, U2) then
        [coalEntry ts c d U1 U2 L ((c (d, U1) : ℚ) * (c (d, U2) : ℚ))] else []
  | (.unlinked2, .unlinked2) =>
      if 2 ≤ c (d, U2) then [coalEntry ts c d U2 U2 U2 (kingmanRate (c (d, U2)) 2)] else []
  | _ => []

/-- the list of merger events, in the order of the code -/
def coalList2 (ts : Fin D → ℚ) (c : Fin D × LCls → ℕ) : List (State × ℚ) :=
  (List.finRange D).flatMap fun d => clsPairs.flatMap (coalStep ts c d)

theorem foldl_addAll_ext {α : Type} (l : List α) (F : Targets → α → Targets)
    (E : α → List (State × ℚ)) (h : ∀ acc x, x ∈ l → F acc x = addAll acc (E x)) (acc : Targets) :
    l.foldl F acc = addAll acc (l.flatMap E) := by
  rw [List.foldl_ext F (fun acc x => addAll acc (E x)) acc (fun a b hb => h a b hb), foldl_addAll]

theorem coalesce2_enc2 (ts : Fin D → ℚ) (mig : Fin D → Fin D → ℚ) (r : ℚ)
    (c : Fin D × LCls → ℕ) :
    coalesce2 .kingman (mkEpoch ts mig r) (enc2 c) = addAll [] (coalList2 ts c) := by
  unfold coalesce2
  simp only [nDemes_enc2]
  rw [← List.map_coe_finRange_eq_range (n := D), List.foldl_map]
  unfold coalList2
  refine foldl_addAll_ext _ _ _ ?_ _
  intro acc d _
  refine foldl_addAll_ext _ _ _ ?_ _
  rintro acc ⟨c1, c2⟩ _
  cases c1 <;> cases c2 <;>
    simp only [Cls.beq_eq_decide, Cls.count, Cls.idx, coalStep, get3_lin0_enc2, get3_lin1_enc2,
      get3_lnk0_enc2, get3_lnk1_enc2, unl0_enc2, unl1_enc2, getR_mkEpoch, getRate, reduceCtorEq,
      decide_true, decide_false, if_true, if_false, Bool.false_eq_true, Nat.lt_irrefl,
      Nat.reduceLT, addAll_nil]
  · split_ifs <;> first
      | rfl
      | (exfalso; omega)
      | (rw [coalLL_target c d (by omega)]; rfl)
  · split_ifs <;> first
      | rfl
      | (exfalso; omega)
      | (rw [coalLU1_target c d (by omega) (by omega)]; rfl)
  · split_ifs <;> first
      | rfl
      | (exfalso; omega)
      | (rw [coalLU2_target c d (by omega) (by omega)]; rfl)
  · split_ifs <;> first
      | rfl
      | (exfalso; omega)
      | (rw [coalU1U1_target c d (by omega)]; rfl)
  · split_ifs <;> first
      | rfl
      | (exfalso; omega)
      | (rw [coalU1U2_target c d (by omega) (by omega)]; rfl)
  · split_ifs <;> first
      | rfl
      | (exfalso; omega)
      | (rw [coalU2U2_target c d (by omega)]; rfl)

theorem nodup_keys_coalesce2_enc2 (ts : Fin D → ℚ) (mig : Fin D → Fin D → ℚ) (r : ℚ)
    (c : Fin D × LCls → ℕ) :
    (keys (coalesce2 .kingman (mkEpoch ts mig r) (enc2 c))).Nodup := by
  rw [coalesce2_enc2]; exact nodup_keys_addAll _ _ nodup_keys_nil

theorem cS_pair (w : LCls → ℕ) (c : Fin D × LCls → ℕ) (d : Fin D) (a b o : LCls)
    (hle : e1 (d, a) + e1 (d, b) ≤ c) :
    cS w (c - (e1 (d, a) + e1 (d, b)) + e1 (d, o)) + (w a + w b) = cS w c + w o := by
  have := cS_move w c (e1 (d, a) + e1 (d, b)) (e1 (d, o)) hle
  rw [cS_add w (e1 (d, a)) (e1 (d, b)), cS_e1, cS_e1, cS_e1] at this
  exact this

theorem coalRel_pair (c : Fin D × LCls → ℕ) (d : Fin D) (a b o : LCls)
    (hle : e1 (d, a) + e1 (d, b) ≤ c)
    (hw : w1 o < w1 a + w1 b ∨ w2 o < w2 a + w2 b ∨ wN a + wN b < wN o) :
    CoalRel c (c - (e1 (d, a) + e1 (d, b)) + e1 (d, o)) := by
  have h1 := cS_pair w1 c d a b o hle
  have h2 := cS_pair w2 c d a b o hle
  have h3 := cS_pair wN c d a b o hle
  unfold CoalRel
  omega

theorem mem_keys_coalStep (ts : Fin D → ℚ) (c : Fin D × LCls → ℕ) (d : Fin D) (x : Cls × Cls)
    (t : State) (ht : t ∈ keys (coalStep ts c d x)) : ∃ c', t = enc2 c' ∧ CoalRel c c' := by
  obtain ⟨c1, c2⟩ := x
  have hne : ∀ a b : LCls, a ≠ b → ((d, a) : Fin D × LCls) ≠ (d, b) := fun a b h h' =>
    h (Prod.mk.inj h').2
  cases c1 <;> cases c2 <;> simp only [coalStep] at ht <;> (try split_ifs at ht with h) <;>
    simp only [keys_cons, keys_nil, List.mem_singleton, List.not_mem_nil, coalEntry] at ht
  · exact ⟨_, ht, coalRel_pair c d L L L (e1_two_le c _ h) (by decide)⟩
  · exact ⟨_, ht, coalRel_pair c d L U1 L (e1_add_le c _ _ (hne _ _ (by decide)) h.1 h.2)
      (by decide)⟩
  · exact ⟨_, ht, coalRel_pair c d L U2 L (e1_add_le c _ _ (hne _ _ (by decide)) h.1 h.2)
      (by decide)⟩
  · exact ⟨_, ht, coalRel_pair c d U1 U1 U1 (e1_two_le c _ h) (by decide)⟩
  · exact ⟨_, ht, coalRel_pair c d U1 U2 L (e1_add_le c _ _ (hne _ _ (by decide)) h.1 h.2)
      (by decide)⟩
  · exact ⟨_, ht, coalRel_pair c d U2 U2 U2 (e1_two_le c _ h) (by decide)⟩

/-- every coalescence target is a count state in which a per-locus total has decreased or the
number of linked lineages has increased -/
theorem coalesce2_keys (ts : Fin D → ℚ) (mig : Fin D → Fin D → ℚ) (r : ℚ)
    (c : Fin D × LCls → ℕ) (t : State)
    (ht : t ∈ keys (coalesce2 .kingman (mkEpoch ts mig r) (enc2 c))) :
    ∃ c', t = enc2 c' ∧ CoalRel c c' := by
  rw [coalesce2_enc2, mem_keys_addAll] at ht
  rcases ht with ht | ht
  · simp at ht
  unfold coalList2 keys at ht
  rw [List.mem_map] at ht
  obtain ⟨p, hp, rfl⟩ := ht
  rw [List.mem_flatMap] at hp
  obtain ⟨d, _, hp⟩ := hp
  rw [List.mem_flatMap] at hp
  obtain ⟨x, _, hp⟩ := hp
  exact mem_keys_coalStep ts c d x p.1 (List.mem_map_of_mem (f := Prod.fst) hp)

theorem genD_entry_king (ts : Fin D → ℚ) (c : Fin D × LCls → ℕ) (d : Fin D) (a b o : LCls)
    (n : ℕ) (G : State → ℚ) :
    genD (if 2 ≤ n then [coalEntry ts c d a b o (kingmanRate n 2)] else []) G
      = (n.choose 2 : ℚ) * (1 / ts d) * G (enc2 (c - (e1 (d, a) + e1 (d, b)) + e1 (d, o))) := by
  split_ifs with h
  · rw [genD_cons, genD_nil, add_zero, Nat.cast_choose_two]
    simp only [coalEntry, kingmanRate, if_true]
    ring
  · rw [Nat.choose_eq_zero_of_lt (by omega)]
    simp

theorem genD_entry_mul (ts : Fin D → ℚ) (c : Fin D × LCls → ℕ) (d : Fin D) (a b o : LCls)
    (m n : ℕ) (G : State → ℚ) :
    genD (if 1 ≤ m ∧ 1 ≤ n then [coalEntry ts c d a b o ((m : ℚ) * (n : ℚ))] else []) G
      = ((m : ℚ) * (n : ℚ)) * (1 / ts d) * G (enc2 (c - (e1 (d, a) + e1 (d, b)) + e1 (d, o))) := by
  split_ifs with h
  · rw [genD_cons, genD_nil, add_zero]
    simp only [coalEntry]
    ring
  · have : m = 0 ∨ n = 0 := by omega
    rcases this with rfl | rfl <;> simp

theorem genD_coalList2 (ts : Fin D → ℚ) (c : Fin D × LCls → ℕ) (G : State → ℚ) :
    genD (coalList2 ts c) G
      = ∑ d,
          ( ((c (d, L)).choose 2 : ℚ) * (1 / ts d) *
              G (enc2 (c - (e1 (d, L) + e1 (d, L)) + e1 (d, L)))
          + ((c (d, L) : ℚ) * (c (d, U1) : ℚ)) * (1 / ts d) *
              G (enc2 (c - (e1 (d, L) + e1 (d, U1)) + e1 (d, L)))
          + ((c (d, L) : ℚ) * (c (d, U2) : ℚ)) * (1 / ts d) *
              G (enc2 (c - (e1 (d, L) + e1 (d, U2)) + e1 (d, L)))
          + ((c (d, U1)).choose 2 : ℚ) * (1 / ts d) *
              G (enc2 (c - (e1 (d, U1) + e1 (d, U1)) + e1 (d, U1)))
          + ((c (d, U2)).choose 2 : ℚ) * (1 / ts d) *
              G (enc2 (c - (e1 (d, U2) + e1 (d, U2)) + e1 (d, U2)))
          + ((c (d, U1) : ℚ) * (c (d, U2) : ℚ)) * (1 / ts d) *
              G (enc2 (c - (e1 (d, U1) + e1 (d, U2)) + e1 (d, L)))) := by
  unfold coalList2
  rw [genD_flatMap, sum_finRange_map]
  refine sum_congr rfl fun d _ => ?_
  simp only [clsPairs, List.flatMap_cons, List.flatMap_nil, List.map_cons, List.map_nil,
    List.cons_append, List.nil_append, List.append_nil, coalStep, genD_append, genD_nil,
    genD_entry_king, genD_entry_mul]
  ring

/-- **Coalescence part of the generator row built by the code** (two loci, Kingman): the six
kinds of pair mergers of `arg_closed_form`. -/
theorem genOf_coalesce2 (ts : Fin D → ℚ) (mig : Fin D → Fin D → ℚ) (r : ℚ)
    (c : Fin D × LCls → ℕ) (g : State → ℚ) :
    genOf (coalesce2 .kingman (mkEpoch ts mig r) (enc2 c)) g (enc2 c)
      = ∑ d,
          ( ((c (d, L)).choose 2 : ℚ) * (1 / ts d) *
              (g (enc2 (c - (e1 (d, L) + e1 (d, L)) + e1 (d, L))) - g (enc2 c))
          + ((c (d, L) : ℚ) * (c (d, U1) : ℚ)) * (1 / ts d) *
              (g (enc2 (c - (e1 (d, L) + e1 (d, U1)) + e1 (d, L))) - g (enc2 c))
          + ((c (d, L) : ℚ) * (c (d, U2) : ℚ)) * (1 / ts d) *
              (g (enc2 (c - (e1 (d, L) + e1 (d, U2)) + e1 (d, L))) - g (enc2 c))
          + ((c (d, U1)).choose 2 : ℚ) * (1 / ts d) *
              (g (enc2 (c - (e1 (d, U1) + e1 (d, U1)) + e1 (d, U1))) - g (enc2 c))
          + ((c (d, U2)).choose 2 : ℚ) * (1 / ts d) *
              (g (enc2 (c - (e1 (d, U2) + e1 (d, U2)) + e1 (d, U2))) - g (enc2 c))
          + ((c (d, U1) : ℚ) * (c (d, U2) : ℚ)) * (1 / ts d) *
              (g (enc2 (c - (e1 (d, U1) + e1 (d, U2)) + e1 (d, L))) - g (enc2 c))) := by
  rw [genOf_eq_genD, coalesce2_enc2, genD_addAll _ _ _ nodup_keys_nil, genD_nil, zero_add,
    genD_coalList2]

end Coalesce2

/-! ## 6. `transit` on two-locus count states: the bridge -/

section Transit2
variable {D : ℕ}

/-- the state `enc2 c` is absorbing for the code: both loci have a single lineage left -/
def Absorbing2 (c : Fin D × LCls → ℕ) : Prop :=
  ∑ d, (c (d, L) + c (d, U1)) = 1 ∧ ∑ d, (c (d, L) + c (d, U2)) = 1

theorem sameTotals_not_coalRel (c c' : Fin D × LCls → ℕ) (h : SameTotals c c') (h' : CoalRel c c') :
    False := by
  unfold SameTotals at h; unfold CoalRel at h'; omega

theorem sameTotals_not_recRel (c c' : Fin D × LCls → ℕ) (h : SameTotals c c') (h' : RecRel c c') :
    False := by
  unfold SameTotals at h; unfold RecRel at h'; omega

theorem coalRel_not_recRel (c c' : Fin D × LCls → ℕ) (h : CoalRel c c') (h' : RecRel c c') :
    False := by
  unfold CoalRel at h; unfold RecRel at h'; omega

theorem coal_mig_disjoint (ts : Fin D → ℚ) (mig : Fin D → Fin D → ℚ) (r : ℚ)
    (c : Fin D × LCls → ℕ) (t : State)
    (ht : t ∈ keys (coalesce2 .kingman (mkEpoch ts mig r) (enc2 c))) :
    t ∉ keys (migrate (mkEpoch ts mig r) (enc2 c)) := by
  intro hm
  obtain ⟨c1, h1, hr1⟩ := coalesce2_keys ts mig r c t ht
  obtain ⟨c2, h2, hr2⟩ := migrate2_keys ts mig r c t hm
  have : c1 = c2 := enc2_injective (h1.symm.trans h2)
  subst this
  exact sameTotals_not_coalRel c c1 hr2 hr1

theorem rec_migcoal_disjoint (ts : Fin D → ℚ) (mig : Fin D → Fin D → ℚ) (r : ℚ)
    (c : Fin D × LCls → ℕ) (t : State)
    (ht : t ∈ keys (recombine (mkEpoch ts mig r) (enc2 c))) :
    t ∉ keys (migrate (mkEpoch ts mig r) (enc2 c)
      ++ coalesce2 .kingman (mkEpoch ts mig r) (enc2 c)) := by
  rw [keys_append, List.mem_append]
  obtain ⟨c1, h1, hr1⟩ := recombine2_keys ts mig r c t ht
  rintro (hm | hm)
  · obtain ⟨c2, h2, hr2⟩ := migrate2_keys ts mig r c t hm
    have : c1 = c2 := enc2_injective (h1.symm.trans h2)
    subst this
    exact sameTotals_not_recRel c c1 hr2 hr1
  · obtain ⟨c2, h2, hr2⟩ := coalesce2_keys ts mig r c t hm
    have : c1 = c2 := enc2_injective (h1.symm.trans h2)
    subst this
    exact coalRel_not_recRel c c1 hr2 hr1

/-- the dictionary built by `transit` on a non-absorbing two-locus count state is the
concatenation of the migration, coalescence and recombination dictionaries (the `|=` never
overwrites: the key sets are pairwise disjoint) -/
theorem transit_enc2 (ts : Fin D → ℚ) (mig : Fin D → Fin D → ℚ) (r : ℚ)
    (c : Fin D × LCls → ℕ) (hc : ¬ Absorbing2 c) :
    transit .kingman (mkEpoch ts mig r) (enc2 c)
      = migrate (mkEpoch ts mig r) (enc2 c) ++ coalesce2 .kingman (mkEpoch ts mig r) (enc2 c)
        ++ recombine (mkEpoch ts mig r) (enc2 c) := by
  have hab : (enc2 c).isAbsorbing = false := by
    rw [← Bool.not_eq_true, isAbsorbing_enc2]; exact hc
  have h21 : ¬ (enc2 c).nLoci = 1 := by rw [nLoci_enc2]; omega
  unfold transit
  simp only [hab, Bool.false_eq_true, if_false, h21]
  rw [union_nil_left _ (nodup_keys_migrate_enc2 ts mig r c),
    union_eq_append _ _ (nodup_keys_coalesce2_enc2 ts mig r c) (coal_mig_disjoint ts mig r c),
    union_eq_append _ _ (nodup_keys_recombine_enc2 ts mig r c) (rec_migcoal_disjoint ts mig r c)]

/-- at an absorbing state the code stops all coalescence and recombination -/
theorem transit_enc2_absorbing (m : Model) (ts : Fin D → ℚ) (mig : Fin D → Fin D → ℚ) (r : ℚ)
    (c : Fin D × LCls → ℕ) (hc : Absorbing2 c) :
    transit m (mkEpoch ts mig r) (enc2 c) = migrate (mkEpoch ts mig r) (enc2 c) := by
  rw [transit_absorbing _ _ _ ((isAbsorbing_enc2 c).mpr hc),
    union_nil_left _ (nodup_keys_migrate_enc2 ts mig r c)]

/-- the generator row which the code builds at a non-absorbing two-locus count state -/
theorem genOf_transit2_closed (ts : Fin D → ℚ) (mig : Fin D → Fin D → ℚ) (r : ℚ)
    (c : Fin D × LCls → ℕ) (hc : ¬ Absorbing2 c) (g : State → ℚ) :
    genOf (transit .kingman (mkEpoch ts mig r) (enc2 c)) g (enc2 c)
      = genOf (migrate (mkEpoch ts mig r) (enc2 c)) g (enc2 c)
        + genOf (coalesce2 .kingman (mkEpoch ts mig r) (enc2 c)) g (enc2 c)
        + genOf (recombine (mkEpoch ts mig r) (enc2 c)) g (enc2 c) := by
  rw [transit_enc2 ts mig r c hc]
  simp only [genOf_eq_genD, genD_append]

/-- **The bridge (two loci).** At every non-absorbing two-locus count state the generator row
encoded by the dictionary that `Transition.transit` builds is the count generator `QCs` of the
ancestral recombination graph — for every number of demes, every count vector and all rates. -/
theorem genOf_transit_two_locus (ts : Fin D → ℚ) (mig : Fin D → Fin D → ℚ) (r : ℚ)
    (c : Fin D × LCls → ℕ) (hc : ¬ Absorbing2 c) (g : State → ℚ) :
    genOf (transit .kingman (mkEpoch ts mig r) (enc2 c)) g (enc2 c)
      = QCs (argRate r ts mig) argRes (fun c' => g (enc2 c')) c := by
  rw [genOf_transit2_closed ts mig r c hc g, genOf_migrate2, genOf_coalesce2, genOf_recombine2,
    arg_closed_form]
  ring

/-- At an absorbing state (both loci have one lineage left) only migration remains, for every
coalescent model. -/
theorem genOf_transit_two_locus_absorbing (m : Model) (ts : Fin D → ℚ) (mig : Fin D → Fin D → ℚ)
    (r : ℚ) (c : Fin D × LCls → ℕ) (hc : Absorbing2 c) (g : State → ℚ) :
    genOf (transit m (mkEpoch ts mig r) (enc2 c)) g (enc2 c)
      = ∑ d, ∑ d', ∑ cl, if d ≠ d' then (c (d, cl) : ℚ) * mig d d' *
          (g (enc2 (c - e1 (d, cl) + e1 (d', cl))) - g (enc2 c)) else 0 := by
  rw [transit_enc2_absorbing m ts mig r c hc, genOf_migrate2]

/-- **C04 (lumping, two loci).** The generator which the code builds on two-locus counts is the
projection of the generator of the labelled ancestral recombination graph: for every labelled
configuration `x` whose count state is not absorbing, the labelled generator applied to a
function of the counts equals the row of `Transition.transit` at the count state of `x`. -/
theorem C04_lumping_two_locus (ts : Fin D → ℚ) (mig : Fin D → Fin D → ℚ) (r : ℚ)
    (g : State → ℚ) (x : List (Fin D × LCls)) (hx : ¬ Absorbing2 (cntF x)) :
    QLs (argRate r ts mig) argRes (fun c' => g (enc2 c')) x
      = genOf (transit .kingman (mkEpoch ts mig r) (enc2 (cntF x))) g (enc2 (cntF x)) := by
  rw [arg_lumping, genOf_transit_two_locus ts mig r (cntF x) hx g]

/-- **What the code leaves out at absorbing states.** The abstract process `argRate` still lets
the last linked lineage recombine and a last pair `(U1, U2)` in one deme merge; the code stops
everything but migration once both loci have a single lineage. At an absorbing state the count
generator therefore equals the row of the code plus exactly these two kinds of terms. -/
theorem QCs_absorbing (ts : Fin D → ℚ) (mig : Fin D → Fin D → ℚ) (r : ℚ)
    (c : Fin D × LCls → ℕ) (hc : Absorbing2 c) (g : State → ℚ) :
    QCs (argRate r ts mig) argRes (fun c' => g (enc2 c')) c
      = genOf (transit .kingman (mkEpoch ts mig r) (enc2 c)) g (enc2 c)
        + ∑ d, (c (d, L) : ℚ) * r *
            (g (enc2 (c - e1 (d, L) + (e1 (d, U1) + e1 (d, U2)))) - g (enc2 c))
        + ∑ d, ((c (d, U1) : ℚ) * (c (d, U2) : ℚ)) * (1 / ts d) *
            (g (enc2 (c - (e1 (d, U1) + e1 (d, U2)) + e1 (d, L))) - g (enc2 c)) := by
  rw [genOf_transit_two_locus_absorbing .kingman ts mig r c hc g, arg_closed_form, add_assoc]
  congr 2
  refine sum_congr rfl fun d _ => ?_
  have h1 : c (d, L) + c (d, U1) ≤ 1 := by
    rw [← hc.1]
    exact Finset.single_le_sum (f := fun d => c (d, L) + c (d, U1)) (fun _ _ => Nat.zero_le _)
      (mem_univ d)
  have h2 : c (d, L) + c (d, U2) ≤ 1 := by
    rw [← hc.2]
    exact Finset.single_le_sum (f := fun d => c (d, L) + c (d, U2)) (fun _ _ => Nat.zero_le _)
      (mem_univ d)
  have e1' : (c (d, L)).choose 2 = 0 := Nat.choose_eq_zero_of_lt (by omega)
  have e2 : (c (d, U1)).choose 2 = 0 := Nat.choose_eq_zero_of_lt (by omega)
  have e3 : (c (d, U2)).choose 2 = 0 := Nat.choose_eq_zero_of_lt (by omega)
  have e4 : (c (d, L) : ℚ) * (c (d, U1) : ℚ) = 0 := by
    have : c (d, L) = 0 ∨ c (d, U1) = 0 := by omega
    rcases this with h | h <;> simp [h]
  have e5 : (c (d, L) : ℚ) * (c (d, U2) : ℚ) = 0 := by
    have : c (d, L) = 0 ∨ c (d, U2) = 0 := by omega
    rcases this with h | h <;> simp [h]
  rw [e1', e2, e3, e4, e5]
  simp only [Nat.cast_zero, zero_mul, zero_add, add_zero]

/-- the dictionary built by `transit` at a two-locus count state has unique keys … -/
theorem nodup_keys_transit_enc2 (ts : Fin D → ℚ) (mig : Fin D → Fin D → ℚ) (r : ℚ)
    (c : Fin D × LCls → ℕ) : (keys (transit .kingman (mkEpoch ts mig r) (enc2 c))).Nodup := by
  by_cases hc : Absorbing2 c
  · rw [transit_enc2_absorbing _ ts mig r c hc]; exact nodup_keys_migrate_enc2 ts mig r c
  · rw [transit_enc2 ts mig r c hc, keys_append]
    refine List.Nodup.append ?_ (nodup_keys_recombine_enc2 ts mig r c) ?_
    · rw [keys_append]
      refine List.Nodup.append (nodup_keys_migrate_enc2 ts mig r c)
        (nodup_keys_coalesce2_enc2 ts mig r c) ?_
      intro t h1 h2
      exact coal_mig_disjoint ts mig r c t h2 h1
    · intro t h1 h2
      exact rec_migcoal_disjoint ts mig r c t h2 h1

/-- every target of `transit` at a two-locus count state is a two-locus count state, with at
most as many lineages at each locus -/
theorem transit_enc2_keys (ts : Fin D → ℚ) (mig : Fin D → Fin D → ℚ) (r : ℚ)
    (c : Fin D × LCls → ℕ) (t : State)
    (ht : t ∈ keys (transit .kingman (mkEpoch ts mig r) (enc2 c))) :
    ∃ c', t = enc2 c' ∧ (SameTotals c c' ∨ CoalRel c c' ∨ RecRel c c') := by
  by_cases hc : Absorbing2 c
  · rw [transit_enc2_absorbing _ ts mig r c hc] at ht
    obtain ⟨c', h, hr⟩ := migrate2_keys ts mig r c t ht
    exact ⟨c', h, Or.inl hr⟩
  · rw [transit_enc2 ts mig r c hc, keys_append, keys_append, List.mem_append,
      List.mem_append] at ht
    rcases ht with (ht | ht) | ht
    · obtain ⟨c', h, hr⟩ := migrate2_keys ts mig r c t ht
      exact ⟨c', h, Or.inl hr⟩
    · obtain ⟨c', h, hr⟩ := coalesce2_keys ts mig r c t ht
      exact ⟨c', h, Or.inr (Or.inl hr)⟩
    · obtain ⟨c', h, hr⟩ := recombine2_keys ts mig r c t ht
      exact ⟨c', h, Or.inr (Or.inr hr)⟩

theorem migrate_enc2_no_self_loop (ts : Fin D → ℚ) (mig : Fin D → Fin D → ℚ) (r : ℚ)
    (c : Fin D × LCls → ℕ) : enc2 c ∉ keys (migrate (mkEpoch ts mig r) (enc2 c)) := by
  have key : ∀ cl, enc2 c ∉ keys (migList2 mig c cl) := by
    intro cl h
    obtain ⟨d, d', hd, hpos, he⟩ := mem_keys_migList2 mig c cl _ h
    have := congrFun (enc2_injective he) (d, cl)
    have hd' : ¬ d = d' := hd
    simp only [Pi.add_apply, Pi.sub_apply, e1_apply, Prod.mk.injEq, and_true, if_true, hd',
      if_false] at this
    omega
  rw [migrate_enc2, keys_append, List.mem_append, mem_keys_addAll, mem_keys_addAll, keys_append,
    List.mem_append]
  rintro ((h | h) | h | h | h)
  · simp at h
  · exact key L h
  · simp at h
  · exact key U1 h
  · exact key U2 h

/-- … and no self-loop -/
theorem transit_enc2_no_self_loop (ts : Fin D → ℚ) (mig : Fin D → Fin D → ℚ) (r : ℚ)
    (c : Fin D × LCls → ℕ) : enc2 c ∉ keys (transit .kingman (mkEpoch ts mig r) (enc2 c)) := by
  by_cases hc : Absorbing2 c
  · rw [transit_enc2_absorbing _ ts mig r c hc]; exact migrate_enc2_no_self_loop ts mig r c
  · rw [transit_enc2 ts mig r c hc, keys_append, keys_append, List.mem_append, List.mem_append]
    rintro ((h | h) | h)
    · exact migrate_enc2_no_self_loop ts mig r c h
    · obtain ⟨c', he, hr⟩ := coalesce2_keys ts mig r c _ h
      have := enc2_injective he
      subst this
      unfold CoalRel at hr; omega
    · obtain ⟨c', he, hr⟩ := recombine2_keys ts mig r c _ h
      have := enc2_injective he
      subst this
      unfold RecRel at hr; omega

end Transit2

/-! ## 7. C06: without recombination linked lineages stay linked -/

section C06
variable {D : ℕ}

theorem mem_addTarget_nz {κ : Type} [BEq κ] [LawfulBEq κ] (d : Dict κ ℚ) (k : κ) (r : ℚ)
    (p : κ × ℚ) (hp : p ∈ Dict.addTarget d k r) (hnz : p.2 ≠ 0) :
    (∃ q ∈ d, q.1 = p.1 ∧ q.2 ≠ 0) ∨ (p.1 = k ∧ r ≠ 0) := by
  unfold Dict.addTarget at hp
  split_ifs at hp
  · rw [List.mem_map] at hp
    obtain ⟨q, hq, rfl⟩ := hp
    by_cases hqk : q.1 = k
    · simp only [hqk, beq_self_eq_true, if_true] at hnz ⊢
      by_cases hq2 : q.2 = 0
      · right
        refine ⟨trivial, ?_⟩
        rw [hq2, zero_add] at hnz
        exact hnz
      · exact Or.inl ⟨q, hq, hqk, hq2⟩
    · have : (q.1 == k) = false := by simpa using hqk
      simp only [this, Bool.false_eq_true, if_false] at hnz ⊢
      exact Or.inl ⟨q, hq, rfl, hnz⟩
  · rw [List.mem_append, List.mem_singleton] at hp
    rcases hp with hp | rfl
    · exact Or.inl ⟨p, hp, rfl, hnz⟩
    · exact Or.inr ⟨rfl, hnz⟩

/-- an entry with nonzero rate of a dictionary built by successive `add_target`s comes from an
insertion with nonzero rate -/
theorem mem_addAll_nz {κ : Type} [BEq κ] [LawfulBEq κ] (d : Dict κ ℚ) (l : List (κ × ℚ))
    (p : κ × ℚ) (hp : p ∈ addAll d l) (hnz : p.2 ≠ 0) :
    (∃ q ∈ d, q.1 = p.1 ∧ q.2 ≠ 0) ∨ (∃ q ∈ l, q.1 = p.1 ∧ q.2 ≠ 0) := by
  induction l generalizing d with
  | nil => exact Or.inl ⟨p, hp, rfl, hnz⟩
  | cons x xs ih =>
    rw [addAll_cons] at hp
    rcases ih _ hp with ⟨q, hq, hq1, hq2⟩ | ⟨q, hq, hq1, hq2⟩
    · rcases mem_addTarget_nz d x.1 x.2 q hq hq2 with ⟨q', hq', h1, h2⟩ | ⟨h1, h2⟩
      · exact Or.inl ⟨q', hq', h1.trans hq1, h2⟩
      · exact Or.inr ⟨x, List.mem_cons_self, h1.symm.trans hq1, h2⟩
    · exact Or.inr ⟨q, List.mem_cons_of_mem _ hq, hq1, hq2⟩

theorem mem_addAll_nil_nz {κ : Type} [BEq κ] [LawfulBEq κ] (l : List (κ × ℚ))
    (p : κ × ℚ) (hp : p ∈ addAll [] l) (hnz : p.2 ≠ 0) : ∃ q ∈ l, q.1 = p.1 ∧ q.2 ≠ 0 := by
  rcases mem_addAll_nz [] l p hp hnz with ⟨q, hq, _⟩ | h
  · simp at hq
  · exact h

/-- no unlinked lineages: every lineage carries both loci -/
def NoUnlinked (c : Fin D × LCls → ℕ) : Prop := ∀ d, c (d, U1) = 0 ∧ c (d, U2) = 0

theorem noUnlinked_move (c κ ρ : Fin D × LCls → ℕ) (hc : NoUnlinked c)
    (hρ : ∀ d, ρ (d, U1) = 0 ∧ ρ (d, U2) = 0) : NoUnlinked (c - κ + ρ) := by
  intro d
  simp only [Pi.add_apply, Pi.sub_apply, (hc d).1, (hc d).2, (hρ d).1, (hρ d).2]
  omega

theorem e1_L_noU (a d : Fin D) : e1 (a, L) (d, U1) = 0 ∧ e1 (a, L) (d, U2) = 0 := by
  simp [e1_apply]

theorem mem_keys_coalStep_noU (ts : Fin D → ℚ) (c : Fin D × LCls → ℕ) (hc : NoUnlinked c)
    (d : Fin D) (x : Cls × Cls) (t : State) (ht : t ∈ keys (coalStep ts c d x)) :
    ∃ c' : Fin D × LCls → ℕ, t = enc2 c' ∧ NoUnlinked c' := by
  obtain ⟨c1, c2⟩ := x
  have h1 := (hc d).1
  have h2 := (hc d).2
  cases c1 <;> cases c2 <;> simp only [coalStep] at ht <;> (try split_ifs at ht with h) <;>
    simp only [keys_cons, keys_nil, List.mem_singleton, List.not_mem_nil, coalEntry] at ht <;>
    first
      | exact ⟨_, ht, noUnlinked_move c _ _ hc (e1_L_noU d)⟩
      | (exfalso; omega)

/-- **C06, one step.** With recombination rate `0`, from a state without unlinked lineages every
transition of positive (nonzero) rate leads to a state without unlinked lineages: only joint
migration of linked lineages and `(L, L) → L` mergers have a nonzero rate. -/
theorem C06_r_zero_step (ts : Fin D → ℚ) (mig : Fin D → Fin D → ℚ) (c : Fin D × LCls → ℕ)
    (hc : NoUnlinked c) (p : State × ℚ)
    (hp : p ∈ transit .kingman (mkEpoch ts mig 0) (enc2 c)) (hnz : p.2 ≠ 0) :
    ∃ c' : Fin D × LCls → ℕ, p.1 = enc2 c' ∧ NoUnlinked c' := by
  have hmig : p ∈ migrate (mkEpoch ts mig 0) (enc2 c) → ∃ c' : Fin D × LCls → ℕ, p.1 = enc2 c' ∧ NoUnlinked c' := by
    intro hp
    rw [migrate_enc2, List.mem_append] at hp
    rcases hp with hp | hp
    · obtain ⟨q, hq, hq1, _⟩ := mem_addAll_nil_nz _ p hp hnz
      obtain ⟨d, d', _, _, he⟩ := mem_keys_migList2 mig c L q.1
        (List.mem_map_of_mem (f := Prod.fst) hq)
      exact ⟨_, hq1.symm.trans he, noUnlinked_move c _ _ hc (e1_L_noU d')⟩
    · obtain ⟨q, hq, hq1, _⟩ := mem_addAll_nil_nz _ p hp hnz
      rw [List.mem_append] at hq
      exfalso
      rcases hq with hq | hq
      · obtain ⟨d, d', _, hpos, _⟩ := mem_keys_migList2 mig c U1 q.1
          (List.mem_map_of_mem (f := Prod.fst) hq)
        have := (hc d).1; omega
      · obtain ⟨d, d', _, hpos, _⟩ := mem_keys_migList2 mig c U2 q.1
          (List.mem_map_of_mem (f := Prod.fst) hq)
        have := (hc d).2; omega
  by_cases hab : Absorbing2 c
  · rw [transit_enc2_absorbing _ ts mig 0 c hab] at hp
    exact hmig hp
  · rw [transit_enc2 ts mig 0 c hab, List.mem_append, List.mem_append] at hp
    rcases hp with (hp | hp) | hp
    · exact hmig hp
    · rw [coalesce2_enc2] at hp
      obtain ⟨q, hq, hq1, _⟩ := mem_addAll_nil_nz _ p hp hnz
      unfold coalList2 at hq
      rw [List.mem_flatMap] at hq
      obtain ⟨d, _, hq⟩ := hq
      rw [List.mem_flatMap] at hq
      obtain ⟨x, _, hq⟩ := hq
      obtain ⟨c', he, hc'⟩ := mem_keys_coalStep_noU ts c hc d x q.1
        (List.mem_map_of_mem (f := Prod.fst) hq)
      exact ⟨c', hq1.symm.trans he, hc'⟩
    · exfalso
      rw [recombine_enc2] at hp
      obtain ⟨q, hq, _, hq2⟩ := mem_addAll_nil_nz _ p hp hnz
      unfold recList2 at hq
      rw [List.mem_map] at hq
      obtain ⟨d, _, rfl⟩ := hq
      exact hq2 (zero_mul _)

/-- without unlinked lineages both loci have the same number of lineages, so the locus rewards
agree -/
theorem locus_rewards_eq_of_noUnlinked (n : ℕ) (c : Fin D × LCls → ℕ) (hc : NoUnlinked c) :
    Reward.eval n (enc2 c) (.locus 0) = Reward.eval n (enc2 c) (.locus 1) := by
  have : (enc2 c).locusTotal 0 = (enc2 c).locusTotal 1 := by
    rw [locusTotal0_enc2, locusTotal1_enc2]
    refine sum_congr rfl fun d _ => ?_
    rw [(hc d).1, (hc d).2]
  simp only [Reward.eval, this]

/-- reachability along transitions of nonzero rate -/
def PosReach (step : State → Targets) (init : State) : State → Prop :=
  Relation.ReflTransGen (fun a b => ∃ p ∈ step a, p.1 = b ∧ p.2 ≠ 0) init

/-- **C06.** With recombination rate `0`, started without unlinked lineages, every state which
the chain reaches with positive probability has no unlinked lineages … -/
theorem C06_r_zero_reach (ts : Fin D → ℚ) (mig : Fin D → Fin D → ℚ) (c0 : Fin D × LCls → ℕ)
    (hc0 : NoUnlinked c0) (s : State)
    (hs : PosReach (transit .kingman (mkEpoch ts mig 0)) (enc2 c0) s) :
    ∃ c : Fin D × LCls → ℕ, s = enc2 c ∧ NoUnlinked c := by
  unfold PosReach at hs
  induction hs with
  | refl => exact ⟨c0, rfl, hc0⟩
  | tail _ hbc ih =>
    obtain ⟨c, rfl, hc⟩ := ih
    obtain ⟨p, hp, rfl, hnz⟩ := hbc
    exact C06_r_zero_step ts mig c hc p hp hnz

/-- … hence the two loci have the same number of lineages, and the two locus rewards
(indicators of "more than one lineage at the locus") coincide there: the two marginal trees are
identical. -/
theorem C06_r_zero (n : ℕ) (ts : Fin D → ℚ) (mig : Fin D → Fin D → ℚ) (c0 : Fin D × LCls → ℕ)
    (hc0 : NoUnlinked c0) (s : State)
    (hs : PosReach (transit .kingman (mkEpoch ts mig 0)) (enc2 c0) s) :
    s.locusTotal 0 = s.locusTotal 1 ∧
      Reward.eval n s (.locus 0) = Reward.eval n s (.locus 1) := by
  obtain ⟨c, rfl, hc⟩ := C06_r_zero_reach ts mig c0 hc0 s hs
  refine ⟨?_, locus_rewards_eq_of_noUnlinked n c hc⟩
  rw [locusTotal0_enc2, locusTotal1_enc2]
  refine sum_congr rfl fun d _ => ?_
  rw [(hc d).1, (hc d).2]

end C06

/-! ## 8. End to end: the rate matrix of the two-locus lineage-counting state space -/

section EndToEnd2
variable {D : ℕ}

theorem reach_enc2 (ts : Fin D → ℚ) (mig : Fin D → Fin D → ℚ) (r : ℚ)
    (c0 : Fin D × LCls → ℕ) (s : State)
    (h : Reach (transit .kingman (mkEpoch ts mig r)) (enc2 c0) s) :
    ∃ c : Fin D × LCls → ℕ, s = enc2 c := by
  unfold Reach at h
  induction h with
  | refl => exact ⟨c0, rfl⟩
  | tail _ hbc ih =>
    obtain ⟨c, rfl⟩ := ih
    obtain ⟨c', h', _⟩ := transit_enc2_keys ts mig r c _ hbc
    exact ⟨c', h'⟩

/-- **End-to-end statement for the two-locus lineage-counting state space.** Whatever the search
started at the count state `c0` returns, every state it lists is a two-locus count state
`enc2 c`; the corresponding row of the rate matrix assembled by `_graph_to_matrix` is, at a
non-absorbing state, the count generator `QCs` of the ancestral recombination graph — i.e. (by
`arg_lumping`) the lumping of the labelled particle system — and, at an absorbing state, its
migration part; and the row sums to zero. -/
theorem two_locus_matrix_row (ts : Fin D → ℚ) (mig : Fin D → Fin D → ℚ) (r : ℚ)
    (c0 : Fin D × LCls → ℕ) (fuel : ℕ) (g : Graph)
    (h : bfs (transit .kingman (mkEpoch ts mig r)) (enc2 c0) fuel = some g)
    (i : ℕ) (hi : i < g.visited.length) :
    ∃ c : Fin D × LCls → ℕ, g.visited[i] = enc2 c ∧
      (¬ Absorbing2 c → ∀ f : State → ℚ,
        ∑ j : Fin g.visited.length, rateEntry g.visited g.transitions i j * f g.visited[j]
          = QCs (argRate r ts mig) argRes (fun c' => f (enc2 c')) c) ∧
      (Absorbing2 c → ∀ f : State → ℚ,
        ∑ j : Fin g.visited.length, rateEntry g.visited g.transitions i j * f g.visited[j]
          = ∑ d, ∑ d', ∑ cl, if d ≠ d' then (c (d, cl) : ℚ) * mig d d' *
              (f (enc2 (c - e1 (d, cl) + e1 (d', cl))) - f (enc2 c)) else 0) ∧
      ∑ j : Fin g.visited.length, rateEntry g.visited g.transitions i j = 0 := by
  obtain ⟨_, _, _, _, hreach⟩ := bfs_spec _ _ fuel g h
  obtain ⟨c, hc⟩ := reach_enc2 ts mig r c0 _ (hreach _ (List.getElem_mem hi))
  have hrow : ∀ f : State → ℚ,
      ∑ j : Fin g.visited.length, rateEntry g.visited g.transitions i j * f g.visited[j]
        = genOf (transit .kingman (mkEpoch ts mig r) (enc2 c)) f (enc2 c) := by
    intro f
    rw [bfs_rateEntry_row _ _ fuel g h i hi (by rw [hc]; exact nodup_keys_transit_enc2 ts mig r c)
      (by rw [hc]; exact transit_enc2_no_self_loop ts mig r c) f, hc]
  refine ⟨c, hc, ?_, ?_, ?_⟩
  · intro hna f
    rw [hrow f, genOf_transit_two_locus ts mig r c hna f]
  · intro ha f
    rw [hrow f, genOf_transit_two_locus_absorbing _ ts mig r c ha f]
  · exact bfs_rateEntry_row_sum_zero _ _ fuel g h i hi
      (by rw [hc]; exact transit_enc2_no_self_loop ts mig r c)

end EndToEnd2

/-! ## 9. Concrete witnesses of the absorbing-state subtlety -/

section Witness

/-- one lineage carrying only locus 1 and one carrying only locus 2, in a single deme -/
def cU1U2 : Fin 1 × LCls → ℕ := fun t => match t.2 with | .L => 0 | _ => 1

/-- one linked lineage in a single deme -/
def cOneL : Fin 1 × LCls → ℕ := fun t => match t.2 with | .L => 1 | _ => 0

/-- in `{U1, U2}` the code makes no transition at all (the state is absorbing) … -/
example : transit .kingman (mkEpoch (D := 1) (fun _ => 1) (fun _ _ => 0) 5) (enc2 cU1U2) = [] := by
  decide

/-- … although `coalesce` alone would merge the two lineages into a linked one -/
example : coalesce2 .kingman (mkEpoch (D := 1) (fun _ => 1) (fun _ _ => 0) 5) (enc2 cU1U2)
    ≠ [] := by
  decide

/-- likewise the last linked lineage no longer recombines -/
example : transit .kingman (mkEpoch (D := 1) (fun _ => 1) (fun _ _ => 0) 5) (enc2 cOneL) = [] := by
  decide

example : recombine (mkEpoch (D := 1) (fun _ => 1) (fun _ _ => 0) 5) (enc2 cOneL)
    ≠ [] := by
  decide

end Witness

end PG

#print axioms PG.genOf_migrate2
#print axioms PG.genOf_recombine2
#print axioms PG.genOf_coalesce2
#print axioms PG.transit_enc2
#print axioms PG.genOf_transit_two_locus
#print axioms PG.genOf_transit_two_locus_absorbing
#print axioms PG.QCs_absorbing
#print axioms PG.C04_lumping_two_locus
#print axioms PG.nodup_keys_transit_enc2
#print axioms PG.transit_enc2_no_self_loop
#print axioms PG.C06_r_zero_step
#print axioms PG.C06_r_zero_reach
#print axioms PG.C06_r_zero
#print axioms PG.two_locus_matrix_row
