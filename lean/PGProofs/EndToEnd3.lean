/-
PGProofs.EndToEnd3 — the compositions which `EndToEnd.lean`, `EndToEnd2.lean` and `MarginalsThm.lean`
list as "not composed" or carry as a hypothesis.

N. **`DemeShape` of the visited states is a theorem** (`deme_shape_of_bfs`, `deme_shape_of_bfs_bc`,
   `deme_shape_of_bfs_bc_initial`): every state which `bfs (transit m ep) · fuel` lists, started at a
   lineage-count state with at least one lineage / at a block-count state with between 1 and `n`
   samples, has `D` demes and at least one lineage -- any model, ANY epoch object, any fuel.  (The
   number of lineages is NOT conserved -- mergers lower it -- what is invariant is "between 1 and
   `Σ cinit`", `reach_encLC_pos` / `bfs_states_lc`; for block counting the mass,
   `MutConfigBridge.reach_encBC_epoch`.)  `code_deme_marginals_unconditional` (+ `_bc`):
   `Marginals.code_deme_marginals` with its hypothesis `hS` discharged.
O. **`SFSDistribution.accumulate`** (`sfs_accumulate_call_vector_eq_labelled`, `…_entry_…`): the
   matrix (zero row, one row per bin, zero padding; one column per requested time; any list of
   non-negative times) equals entrywise the labelled combinations `labAccBC` of
   `sfs_moment_call_eq_labelled`.  [`accumulateCallK_wellformed` + `codeRaw_eq_labRawBC`]
P. **`SFSDistribution.cov`** (`sfs_cov_eq_labelled`, `sfs_cov_entry_eq_labelled`): `(X + Xᵀ)/2 − μ μᵀ`
   with `X`, `μ` the ORDERED uncentred second cross moments / first moments of the labelled process of
   typed blocks; symmetry of the result (`covSFSK_symm`); `covSFSK_rat`: for `K = ℚ` the matrix
   expression IS `covSFS` of `PGModel/Moments.lean`.
Q. **the re-listed input generates the same demography** (`Relisted.toEvents_eq`, `relisted_epochs`):
   under the hypotheses of `config_listing_order_irrelevant` (`Relisted I I'`), `toEvents I'` is THE
   SAME event list as `toEvents I` (`changeTimesOf` only depends on the set of change times, the
   entries at each change time are listed in sorted-name order under the numbering `nameIdx`, which
   only depends on the set of names), so the epochs are the same objects; the tables read off them in
   the two axis orders are the name-matching permutation of each other and are the glue's tables at
   every time of the epoch.  `named_invariant_both_runs_with_demography`: BOTH runs demography-driven.
R. **cdf on the block-counting and two-locus state spaces** (`cdf_block_counting_eq_labelled`,
   `cdf_two_locus_eq_labelled`).  [`C02_cdf_eq_labelled` + `block_alpha`, `C06_cdf_eq_labelled` +
   `two_locus_alpha`, `Glue.code_cdf_pointwise`]
Each item comes with a closed instance (graphs, epochs, tables evaluated by the kernel).

NOT composed here (unchanged from `EndToEnd2.lean`): the model's time scale `tsOf` stays a parameter;
user-supplied `events=[…]` are not in `Config.Input`; the two-locus SFS; `SFSDistribution.corr` /
`get_cov` / `get_corr` (only `cov`); `DemeShape` for the TWO-LOCUS state space (the deme marginals on
two loci keep `mat_deme_marginals`' hypothesis); in P/O the exceptions of ill-formed calls are covered
by `sfsAccumulateCallK_code_eq_lab` only (code = labelled, all variants), not spelled out; the
truncated subtraction `n - len(indices)` of the padding is Python's only for `len(indices) ≤ n`
(hypothesis `hidx`; true for both spectra).
-/
import PGProofs.EndToEnd2
import PGProofs.MarginalsThm
import PGProofs.MutConfigBridge

set_option linter.unusedSectionVars false
set_option linter.unusedSimpArgs false
set_option linter.unusedVariables false

namespace PG
namespace EndToEnd

open PG.Api

/-! ## N. `DemeShape` of the visited states is a theorem -/

section Shape
open Finset Marginals
variable {D : ℕ}

/-- all single-block merger outcomes keep at least one lineage -/
theorem coalesceBlocks_single_pos (m : Model) (b : ℕ) (q : List ℕ × ℚ)
    (hq : q ∈ coalesceBlocks m [b]) : ∃ b', 1 ≤ b' ∧ b' < b ∧ q.1 = [b'] := by
  by_cases hm : m = .kingman
  · subst hm
    rw [coalesceBlocks_kingman_single] at hq
    split_ifs at hq with hb
    · simp only [List.mem_singleton] at hq
      subst hq
      exact ⟨b - 1, by omega, by omega, rfl⟩
    · simp at hq
  · rw [coalesceBlocks_mm_single m hm, List.mem_map] at hq
    obtain ⟨j, hj, rfl⟩ := hq
    rw [List.mem_range] at hj
    exact ⟨b - (j + 1), by omega, by omega, rfl⟩

/-- every merger target keeps at least one lineage -/
theorem coalesce1_keys_pos (m : Model) (ts : Fin D → ℚ) (mig : Fin D → Fin D → ℚ) (r : ℚ)
    (c : Fin D → ℕ) (t : State) (ht : t ∈ keys (coalesce1 m (mkEpoch ts mig r) (encLC c))) :
    ∃ c' : Fin D → ℕ, t = encLC c' ∧ 0 < ∑ d, c' d := by
  rw [coalesce1_enc, mem_keys_addAll] at ht
  rcases ht with ht | ht
  · simp at ht
  · unfold coalList keys at ht
    rw [List.mem_map] at ht
    obtain ⟨p, hp, rfl⟩ := ht
    rw [List.mem_flatMap] at hp
    obtain ⟨d, _, hp⟩ := hp
    rw [List.mem_map] at hp
    obtain ⟨q, hq, rfl⟩ := hp
    obtain ⟨b', hb1, hb', hq1⟩ := coalesceBlocks_single_pos m (c d) q hq
    refine ⟨Function.update c d b', ?_, ?_⟩
    · simp only [hq1]
      exact coalTarget_enc c d b'
    · have : Function.update c d b' d ≤ ∑ t, Function.update c d b' t :=
        Finset.single_le_sum (f := Function.update c d b') (fun _ _ => Nat.zero_le _)
          (Finset.mem_univ d)
      rw [Function.update_self] at this
      omega

/-- every target of `transit` at a count state with at least one lineage is a count state with at
least one lineage -/
theorem transit_enc_keys_pos (m : Model) (ts : Fin D → ℚ) (mig : Fin D → Fin D → ℚ) (r : ℚ)
    (c : Fin D → ℕ) (hc0 : 0 < ∑ d, c d) (t : State)
    (ht : t ∈ keys (transit m (mkEpoch ts mig r) (encLC c))) :
    ∃ c' : Fin D → ℕ, t = encLC c' ∧ 0 < ∑ d, c' d := by
  by_cases hc : ∑ d, c d = 1
  · rw [transit_enc_absorbing m ts mig r c hc] at ht
    obtain ⟨c', h, he⟩ := migrate_keys_total ts mig r c t ht
    exact ⟨c', h, by omega⟩
  · rw [transit_enc m ts mig r c hc, keys_append, List.mem_append] at ht
    rcases ht with ht | ht
    · obtain ⟨c', h, he⟩ := migrate_keys_total ts mig r c t ht
      exact ⟨c', h, by omega⟩
    · exact coalesce1_keys_pos m ts mig r c t ht

/-- at a count state over `D` demes, an arbitrary epoch acts like the `mkEpoch` of its parameter
functions (the lineage-counting sibling of `transit_encBC_epoch`) -/
theorem transit_encLC_epoch (m : Model) (ep : EpochP) (c : Fin D → ℕ) :
    transit m ep (encLC c) = transit m (mkEpoch (epTs D ep) (epMig D ep) ep.recRate) (encLC c) := by
  refine transit_congr m ep _ (encLC c) (nLoci_enc c) ?_ ?_
  · intro d1 d2 h1 h2
    rw [nDemes_enc] at h1 h2
    exact (m_mkEpoch (epTs D ep) (epMig D ep) ep.recRate ⟨d1, h1⟩ ⟨d2, h2⟩).symm
  · intro d h
    rw [nDemes_enc] at h
    exact (getR_mkEpoch (epTs D ep) (epMig D ep) ep.recRate ⟨d, h⟩).symm

/-- "between 1 and `Σ c0` lineages" is invariant along the lineage-counting search, for any epoch -/
theorem reach_encLC_pos (m : Model) (ep : EpochP) (c0 : Fin D → ℕ) (hc0 : 0 < ∑ d, c0 d)
    (s : State) (h : Reach (transit m ep) (encLC c0) s) :
    ∃ c : Fin D → ℕ, s = encLC c ∧ 0 < ∑ d, c d ∧ ∑ d, c d ≤ ∑ d, c0 d := by
  unfold Reach at h
  induction h with
  | refl => exact ⟨c0, rfl, hc0, le_rfl⟩
  | tail _ hbc ih =>
    obtain ⟨c, rfl, hpos, hle⟩ := ih
    rw [transit_encLC_epoch] at hbc
    obtain ⟨c', h', hpos'⟩ := transit_enc_keys_pos m _ _ _ c hpos _ hbc
    obtain ⟨c2, h2, hle2⟩ := transit_enc_keys m _ _ _ c _ hbc
    rw [h'] at h2
    rw [← encLC_injective h2] at hle2
    exact ⟨c', h', hpos', hle2.trans hle⟩

theorem total_encLC (c : Fin D → ℕ) : (encLC c).total = ∑ d, c d := by
  unfold State.total
  rw [nLoci_enc]
  simp [sumNat, locusTotal_enc]

theorem demeShape_encLC (c : Fin D → ℕ) (hc : 0 < ∑ d, c d) : DemeShape D (encLC c) := by
  refine ⟨by rw [total_encLC]; exact hc, fun l hl => ?_⟩
  rw [nLoci_enc] at hl
  obtain rfl : l = 0 := by omega
  simp [encLC]

theorem total_encBC {n : ℕ} (c : Fin D × Fin n → ℕ) : (encBC c).total = ∑ d, ∑ i, c (d, i) := by
  unfold State.total
  rw [nLoci_encBC]
  simp [sumNat, locusTotal_encBC]

theorem demeShape_encBC {n : ℕ} (c : Fin D × Fin n → ℕ) (hc : 0 < ∑ d, ∑ i, c (d, i)) :
    DemeShape D (encBC c) := by
  refine ⟨by rw [total_encBC]; exact hc, fun l hl => ?_⟩
  rw [nLoci_encBC] at hl
  obtain rfl : l = 0 := by omega
  simp [encBC]

/-- a block-count state of positive mass has at least one block -/
theorem blocks_pos_of_mass {n : ℕ} (c : Fin D × Fin n → ℕ) (hm : 0 < massBC c) :
    0 < ∑ d, ∑ i, c (d, i) := by
  by_contra h
  have h0 : ∑ d, ∑ i, c (d, i) = 0 := by omega
  have hz : ∀ d i, c (d, i) = 0 := by
    intro d i
    have h1 := (Finset.sum_eq_zero_iff.mp h0) d (Finset.mem_univ _)
    exact (Finset.sum_eq_zero_iff.mp h1) i (Finset.mem_univ _)
  have : massBC c = 0 := by
    unfold massBC
    simp [hz]
  omega

/-- **`deme_shape_of_bfs` (lineage counting).**  Whatever the search `get_transitions` returns when
started at a count state over `D` demes with at least one lineage -- any coalescent model, ANY epoch
object (no validity needed), any fuel -- every state it lists has `D` demes at its single locus and at
least one lineage: the hypothesis `hS` of `Marginals.code_deme_marginals`. -/
theorem deme_shape_of_bfs (m : Model) (ep : EpochP) (cinit : Fin D → ℕ)
    (hpos : 0 < ∑ d, cinit d) (fuel : ℕ) (g : Graph)
    (h : bfs (transit m ep) (encLC cinit) fuel = some g) :
    ∀ s ∈ g.visited, DemeShape D s := by
  intro s hs
  obtain ⟨_, _, _, _, hreach⟩ := bfs_spec _ _ fuel g h
  obtain ⟨c, rfl, hc, _⟩ := reach_encLC_pos m ep cinit hpos s (hreach s hs)
  exact demeShape_encLC c hc

/-- the visited states ARE count states with between 1 and `Σ cinit` lineages -/
theorem bfs_states_lc (m : Model) (ep : EpochP) (cinit : Fin D → ℕ)
    (hpos : 0 < ∑ d, cinit d) (fuel : ℕ) (g : Graph)
    (h : bfs (transit m ep) (encLC cinit) fuel = some g) (s : State) (hs : s ∈ g.visited) :
    ∃ c : Fin D → ℕ, s = encLC c ∧ 0 < ∑ d, c d ∧ ∑ d, c d ≤ ∑ d, cinit d := by
  obtain ⟨_, _, _, _, hreach⟩ := bfs_spec _ _ fuel g h
  exact reach_encLC_pos m ep cinit hpos s (hreach s hs)

/-- **`deme_shape_of_bfs` (block counting).**  The search started at ANY block-count state over
`D` demes whose blocks carry between 1 and `n` samples (in particular at `_get_initial`'s
`n` singleton blocks, `sampleBC nv`): every state it lists has `D` demes and at least one block. -/
theorem deme_shape_of_bfs_bc {n : ℕ} [NeZero n] (m : Model) (ep : EpochP)
    (cinit : Fin D × Fin n → ℕ) (hn : 2 ≤ n) (hmass : massBC cinit ≤ n) (hpos : 0 < massBC cinit)
    (fuel : ℕ) (g : Graph) (h : bfs (transit m ep) (encBC cinit) fuel = some g) :
    ∀ s ∈ g.visited, DemeShape D s := by
  intro s hs
  obtain ⟨_, _, _, _, hreach⟩ := bfs_spec _ _ fuel g h
  obtain ⟨c, rfl, hm⟩ := reach_encBC_epoch m ep cinit hn hmass s (hreach s hs)
  exact demeShape_encBC c (blocks_pos_of_mass c (by omega))

/-- the same for the search from `initialState 1 D n n` (all `n` samples in deme 0), the start
state of `MutConfigBridge.bfs_states_bc` -/
theorem deme_shape_of_bfs_bc_initial {n : ℕ} (m : Model) (ep : EpochP) (hD : 0 < D) (hn : 2 ≤ n)
    (fuel : ℕ) (g : Graph) (h : bfs (transit m ep) (initialState 1 D n n) fuel = some g) :
    ∀ s ∈ g.visited, DemeShape D s := by
  intro s hs
  obtain ⟨c, rfl, hm⟩ := bfs_states_bc m ep hD hn fuel g h s hs
  exact demeShape_encBC c (blocks_pos_of_mass c (by omega))

end Shape

section ShapeMarginals
open Finset Marginals
variable {D : ℕ} {K : Type} [Field K] [LinearOrder K] [IsStrictOrderedRing K]

attribute [local instance] momValK

/-- **`code_deme_marginals_unconditional`** (C12 (a)-(c) for the code's functional, demes, lineage
counting): `Marginals.code_deme_marginals` with its hypothesis `DemeShape` of the visited states
DISCHARGED by `deme_shape_of_bfs`.  The graph of epoch 0 (whose state list all rate matrices,
reward vectors and `alpha` are indexed by) is what the search returns from a count state with at
least one lineage, for any model, any epoch object, any fuel; the distribution object has as many
demes as the state space.  Then, for the moments `codeRaw` at any time `t`, any base reward: the
per-deme means sum to the mean, the entries of `get_cov` sum to the variance, `get_cov` is
symmetric with the marginal variances on its diagonal. -/
theorem code_deme_marginals_unconditional (m : Model) (ep : EpochP) (cinit : Fin D → ℕ)
    (hpos : 0 < ∑ d, cinit d) (fuel : ℕ) (G : ℕ → Graph)
    (hG0 : bfs (transit m ep) (encLC cinit) fuel = some (G 0))
    (L : ExpLaw K) (n : ℕ) (c0 : Fin D → ℕ) (eps : List EpochT) (t : ℚ) (d : Dist)
    (hd : d.nDemes = D) :
    let raw : List Reward → K := fun rs => codeRaw L G n c0 eps rs t
    (∑ i ∈ range d.nDemes, margMean raw d.reward .demes i = distMean raw d.reward)
    ∧ (∑ a ∈ range d.nDemes, ∑ b ∈ range d.nDemes, covCore .current d raw .demes a b
        = distVar raw d.reward)
    ∧ (∀ a b, getCov .current d raw .demes a b = getCov .current d raw .demes b a)
    ∧ (∀ a < d.nDemes, getCov .current d raw .demes a a = .ok (margVar raw d.reward .demes a)) :=
  code_deme_marginals L G n c0 eps t d
    (by rw [hd]; exact deme_shape_of_bfs m ep cinit hpos fuel (G 0) hG0)

/-- the same on the BLOCK-COUNTING state space (`codeRaw` does not mention the kind of state
space): search started at any block-count state whose blocks carry between 1 and `n` samples -/
theorem code_deme_marginals_unconditional_bc {n : ℕ} [NeZero n] (m : Model) (ep : EpochP)
    (cinit : Fin D × Fin n → ℕ) (hn : 2 ≤ n) (hmass : massBC cinit ≤ n) (hpos : 0 < massBC cinit)
    (fuel : ℕ) (G : ℕ → Graph)
    (hG0 : bfs (transit m ep) (encBC cinit) fuel = some (G 0))
    (L : ExpLaw K) (n' : ℕ) (c0 : Fin D → ℕ) (eps : List EpochT) (t : ℚ) (d : Dist)
    (hd : d.nDemes = D) :
    let raw : List Reward → K := fun rs => codeRaw L G n' c0 eps rs t
    (∑ i ∈ range d.nDemes, margMean raw d.reward .demes i = distMean raw d.reward)
    ∧ (∑ a ∈ range d.nDemes, ∑ b ∈ range d.nDemes, covCore .current d raw .demes a b
        = distVar raw d.reward)
    ∧ (∀ a b, getCov .current d raw .demes a b = getCov .current d raw .demes b a)
    ∧ (∀ a < d.nDemes, getCov .current d raw .demes a a = .ok (margVar raw d.reward .demes a)) :=
  code_deme_marginals L G n' c0 eps t d
    (by rw [hd]; exact deme_shape_of_bfs_bc m ep cinit hn hmass hpos fuel (G 0) hG0)

/-- **Non-vacuity**: the two-deme graph `exGI exI` of `EndToEnd.lean` (`n = {'a': 1, 'b': 1}`, sizes
1 and 2, migration `a → b` at rate 1/2; five states, found by the kernel): for every `ExpLaw`,
every epoch list and time, the per-deme means of the tree height sum to its mean and the entries of
`demes.get_cov` sum to its variance. -/
theorem deme_marginals_instance (L : ExpLaw K) (eps : List EpochT) (t : ℚ) :
    let raw : List Reward → K := fun rs =>
      codeRaw L (fun _ => exGI exI) 2 (Config.initFn exI (Config.axis exI).length) eps rs t
    let d : Dist := ⟨.treeHeight, 2, 1, 0⟩
    (margMean raw .treeHeight .demes 0 + margMean raw .treeHeight .demes 1
        = distMean raw .treeHeight)
    ∧ (∑ a ∈ range 2, ∑ b ∈ range 2, covCore .current d raw .demes a b
        = distVar raw .treeHeight) := by
  intro raw d
  have h := code_deme_marginals_unconditional (K := K) .kingman
    (mkEpoch (D := (Config.axis exI).length)
      (fun d => Config.sizesFn .current exI 0 (Config.axis exI).length d)
      (Config.migFn .current exI 0 (Config.axis exI).length) 0)
    (Config.initFn exI (Config.axis exI).length) (by decide +kernel) 10 (fun _ => exGI exI)
    (exGI_spec exI (by decide +kernel)) L 2 (Config.initFn exI (Config.axis exI).length) eps t d
    (by decide +kernel)
  refine ⟨?_, h.2.1⟩
  have h1 : ∑ i ∈ range 2, margMean raw .treeHeight .demes i = distMean raw .treeHeight := h.1
  rw [Finset.sum_range_succ, Finset.sum_range_succ, Finset.sum_range_zero, zero_add] at h1
  exact h1

end ShapeMarginals

/-! ## O. `SFSDistribution.accumulate` -/

section SFSAcc
open Assembly Finset
variable {D n : ℕ} [NeZero n] {K : Type} [Field K] [LinearOrder K] [IsStrictOrderedRing K]

attribute [local instance] momValK

/-- `np.concatenate([np.zeros((1, T)), accumulation, np.zeros((n - len(indices), T))])`
(distributions.py l.1466-1470): a zero row for frequency 0, one row per frequency bin, zero rows up
to frequency `n`.  (`n - len(indices)` is the truncated subtraction: for both spectra
`len(indices) ≤ n`, the hypothesis `hidx` of the theorems below.) -/
def padRowsK (n T : ℕ) (rows : List (List K)) : List (List K) :=
  [List.replicate T 0] ++ rows ++ List.replicate (n - rows.length) (List.replicate T 0)

/-- `SFSDistribution.get_accumulation(k, i, end_times, rewards, center, permute)`, l.1543-1570:
`rewards = [self.reward] * k` if `None`, then `PhaseTypeDistribution.accumulate(k, end_times,
rewards=tuple(CombinedReward([r, self._get_sfs_reward(i)]) for r in rewards), center, permute)` -/
def sfsAccBinK (v : Variant) (ctx : DistCtxK Reward K) (sfsReward : ℕ → Reward) (k : Int)
    (rewards : Option (List Reward)) (times : List ℚ) (center permute : Bool) (i : ℕ) :
    Except ApiErr (List K) :=
  accumulateCallK v ctx k
    (some ((resolveRewardsK ctx.defaultReward k rewards).map
      fun r => Reward.combined [r, sfsReward i])) times center permute

/-- **`SFSDistribution.accumulate(k, end_times, rewards, center, permute)`**, l.1425-1470: one call
of `get_accumulation` per frequency bin `i ∈ _get_indices()` (sequentially: the first exception
propagates), then the padding.  The result is the matrix (list of rows) with one row per frequency
`0 .. n` and one column per requested time. -/
def sfsAccumulateCallK (v : Variant) (ctx : DistCtxK Reward K) (n : ℕ) (indices : List ℕ)
    (sfsReward : ℕ → Reward) (k : Int) (rewards : Option (List Reward)) (times : List ℚ)
    (center permute : Bool) : Except ApiErr (List (List K)) :=
  (indices.mapM (sfsAccBinK v ctx sfsReward k rewards times center permute)).map
    (padRowsK n times.length)

variable {m : Model} {cinit : Fin D × Fin n → ℕ} {ts : ℕ → Fin D → ℚ}
  {mig : ℕ → Fin D → Fin D → ℚ} {r : ℕ → ℚ} {fuel : ℕ → ℕ} {G : ℕ → Graph}

/-- **All calls, all variants, exceptions included**: `SFSDistribution.accumulate(...)` on the code
model and on the labelled process of typed blocks return the same result. -/
theorem sfsAccumulateCallK_code_eq_lab (hn : 2 ≤ n) (hmass : massBC cinit ≤ n)
    (hG : ∀ e, bfs (transit m (mkEpoch (ts e) (mig e) (r e))) (encBC cinit) (fuel e) = some (G e))
    (L : ExpLaw K) (n' : ℕ) (nv : Fin D → ℕ) (hnv : ∑ d, nv d = massBC cinit)
    (x0 : LabS (encBC (D := D) (n := n)) (G 0).visited n) (hx0 : cntF x0.val = sampleBC nv)
    (eps : List EpochT) (dr : Reward) (sd tm : ℚ) (v : Variant) (N : ℕ) (indices : List ℕ)
    (sfsReward : ℕ → Reward) (k : Int) (rewards : Option (List Reward)) (times : List ℚ)
    (center permute : Bool) :
    sfsAccumulateCallK v (codeCtx L G n' nv eps dr sd tm) N indices sfsReward k rewards times
        center permute
      = sfsAccumulateCallK v (labCtxBC L m ts mig G n' x0 eps dr sd tm) N indices sfsReward k
          rewards times center permute := by
  unfold codeCtx labCtxBC
  rw [codeRaw_eq_labRawBC hn hmass hG L n' nv hnv x0 hx0 eps]

/-- **The SFS accumulation route** (`sfs_accumulate_call_vector_eq_labelled`).  A well-formed call
`sfs.accumulate(k, end_times, rewards, center, permute)` of the current code (order `k ≥ 1`,
`rewards` = `None` or a tuple of length `k`, ANY list of non-negative end times -- unsorted,
repeated) on the code model of the block-counting state space returns without exception the matrix
`[zeros] + [row i for i in indices] + [zeros] * (N - len(indices))`, where entry `j` of row `i` is
the centring / permutation combination `accumulateModel · center permute` of the moments,
accumulated up to `times[j]`, of the LABELLED process of typed blocks with the rewards
`CombinedReward([r_a, sfs_reward(i)])`, `a = 1..k` (`labAccBC`, the same quantity as in
`sfs_moment_call_eq_labelled`). -/
theorem sfs_accumulate_call_vector_eq_labelled (hn : 2 ≤ n) (hmass : massBC cinit ≤ n)
    (hG : ∀ e, bfs (transit m (mkEpoch (ts e) (mig e) (r e))) (encBC cinit) (fuel e) = some (G e))
    (L : ExpLaw K) (n' : ℕ) (nv : Fin D → ℕ) (hnv : ∑ d, nv d = massBC cinit)
    (x0 : LabS (encBC (D := D) (n := n)) (G 0).visited n) (hx0 : cntF x0.val = sampleBC nv)
    (eps : List EpochT) (dr : Reward) (sd tm : ℚ) (N : ℕ) (indices : List ℕ)
    (hidx : indices.length ≤ N)
    (sfsReward : ℕ → Reward) (k : Int) (rewards : Option (List Reward)) (times : List ℚ)
    (center permute : Bool)
    (hk : 1 ≤ k) (hlen : ∀ rs, rewards = some rs → (rs.length : Int) = k)
    (hnn : ∀ t ∈ times, 0 ≤ t) :
    sfsAccumulateCallK .current (codeCtx L G n' nv eps dr sd tm) N indices sfsReward k rewards
        times center permute
      = .ok (padRowsK N times.length (indices.map fun i => times.map fun t =>
          labAccBC L m ts mig G n' x0 eps sfsReward (resolveRewardsK dr k rewards)
            center permute i t)) := by
  rw [sfsAccumulateCallK_code_eq_lab hn hmass hG L n' nv hnv x0 hx0 eps dr sd tm .current N indices
    sfsReward k rewards times center permute]
  unfold sfsAccumulateCallK
  have hn0 := resolveRewardsK_length' dr k rewards (by omega) hlen
  have hbin : ∀ i, sfsAccBinK .current (labCtxBC L m ts mig G n' x0 eps dr sd tm) sfsReward k
      rewards times center permute i
      = .ok (times.map fun t => labAccBC L m ts mig G n' x0 eps sfsReward
          (resolveRewardsK dr k rewards) center permute i t) := by
    intro i
    unfold sfsAccBinK
    rw [show (labCtxBC L m ts mig G n' x0 eps dr sd tm).defaultReward = dr from rfl,
      accumulateCallK_wellformed (labCtxBC L m ts mig G n' x0 eps dr sd tm) k _ times center
        permute hk (by
          intro rs hrs
          simp only [Option.some.injEq] at hrs
          rw [← hrs, List.length_map]
          exact hn0) hnn]
    congr 1
    refine List.map_congr_left fun t _ => ?_
    unfold accOf labAccBC
    exact accumulateModel_inhabited_irrel _ _ _ _ _ _
  have hfun : sfsAccBinK .current (labCtxBC L m ts mig G n' x0 eps dr sd tm) sfsReward k
      rewards times center permute
      = fun i => .ok (times.map fun t => labAccBC L m ts mig G n' x0 eps sfsReward
          (resolveRewardsK dr k rewards) center permute i t) := funext hbin
  rw [hfun, mapM_ok]
  rfl

/-! ### the shape of the matrix, entry by entry -/

/-- entry `[i][j]` of a matrix given as a list of rows (0 outside) -/
def entryK (M : List (List K)) (i j : ℕ) : K := (M.getD i []).getD j 0

theorem padRowsK_length (N T : ℕ) (rows : List (List K)) (h : rows.length ≤ N) :
    (padRowsK N T rows).length = N + 1 := by
  simp [padRowsK]; omega

theorem padRowsK_row_length (N T : ℕ) (rows : List (List K)) (hrows : ∀ row ∈ rows, row.length = T)
    (row : List K) (h : row ∈ padRowsK N T rows) : row.length = T := by
  simp only [padRowsK, List.mem_append, List.mem_singleton, List.mem_replicate] at h
  rcases h with (rfl | h) | ⟨_, rfl⟩
  · simp
  · exact hrows row h
  · simp

theorem padRowsK_zero (N T : ℕ) (rows : List (List K)) (j : ℕ) :
    entryK (padRowsK N T rows) 0 j = 0 := by
  simp only [entryK, padRowsK, List.singleton_append, List.cons_append, List.getD_cons_zero,
    List.getD_eq_getElem?_getD]
  by_cases hj : j < T
  · simp [hj]
  · simp [List.getElem?_eq_none (l := List.replicate T (0 : K)) (by simpa using hj)]

theorem padRowsK_inner (N T : ℕ) (rows : List (List K)) (p j : ℕ) (hp : p < rows.length) :
    entryK (padRowsK N T rows) (p + 1) j = (rows[p]).getD j 0 := by
  simp [entryK, padRowsK, List.getD_eq_getElem?_getD, List.getElem?_append_left, hp]

theorem padRowsK_beyond (N T : ℕ) (rows : List (List K)) (i j : ℕ) (hi : rows.length < i) :
    entryK (padRowsK N T rows) i j = 0 := by
  obtain ⟨p, rfl⟩ : ∃ p, i = p + 1 := ⟨i - 1, by omega⟩
  have hp : rows.length ≤ p := by omega
  simp only [entryK, padRowsK, List.singleton_append, List.cons_append, List.getD_cons_succ,
    List.nil_append]
  rw [List.getD_eq_getElem?_getD (l := rows ++ _), List.getElem?_append_right hp]
  by_cases hlt : p - rows.length < N - rows.length
  · rw [List.getElem?_replicate_of_lt hlt, Option.getD_some, List.getD_eq_getElem?_getD]
    by_cases hj : j < T
    · simp [hj]
    · simp [List.getElem?_eq_none (l := List.replicate T (0 : K)) (by simpa using hj)]
  · rw [List.getElem?_eq_none (by simpa using hlt)]
    simp

/-- **`sfs.accumulate`, entry by entry**: the result has `N + 1` rows of `len(end_times)` entries;
row 0 is zero; entry `j` of row `p + 1` (`p < len(indices)`) is the labelled combination for the
bin `indices[p]` at the time `times[j]`; the rows above `len(indices)` are zero. -/
theorem sfs_accumulate_call_entry_eq_labelled (hn : 2 ≤ n) (hmass : massBC cinit ≤ n)
    (hG : ∀ e, bfs (transit m (mkEpoch (ts e) (mig e) (r e))) (encBC cinit) (fuel e) = some (G e))
    (L : ExpLaw K) (n' : ℕ) (nv : Fin D → ℕ) (hnv : ∑ d, nv d = massBC cinit)
    (x0 : LabS (encBC (D := D) (n := n)) (G 0).visited n) (hx0 : cntF x0.val = sampleBC nv)
    (eps : List EpochT) (dr : Reward) (sd tm : ℚ) (N : ℕ) (indices : List ℕ)
    (hidx : indices.length ≤ N)
    (sfsReward : ℕ → Reward) (k : Int) (rewards : Option (List Reward)) (times : List ℚ)
    (center permute : Bool)
    (hk : 1 ≤ k) (hlen : ∀ rs, rewards = some rs → (rs.length : Int) = k)
    (hnn : ∀ t ∈ times, 0 ≤ t) :
    ∃ M : List (List K),
      sfsAccumulateCallK .current (codeCtx L G n' nv eps dr sd tm) N indices sfsReward k rewards
        times center permute = .ok M ∧
      M.length = N + 1 ∧ (∀ row ∈ M, row.length = times.length) ∧
      (∀ j, entryK M 0 j = 0) ∧
      (∀ (p : ℕ) (hp : p < indices.length) (j : ℕ) (hj : j < times.length),
        entryK M (p + 1) j = labAccBC L m ts mig G n' x0 eps sfsReward
          (resolveRewardsK dr k rewards) center permute indices[p] times[j]) ∧
      (∀ i j, indices.length < i → entryK M i j = 0) := by
  refine ⟨_, sfs_accumulate_call_vector_eq_labelled hn hmass hG L n' nv hnv x0 hx0 eps dr sd tm N
    indices hidx sfsReward k rewards times center permute hk hlen hnn, ?_, ?_, ?_, ?_, ?_⟩
  · exact padRowsK_length _ _ _ (by simpa using hidx)
  · refine padRowsK_row_length _ _ _ ?_
    intro row hrow
    obtain ⟨i, _, rfl⟩ := List.mem_map.1 hrow
    simp
  · exact padRowsK_zero _ _ _
  · intro p hp j hj
    rw [padRowsK_inner _ _ _ p j (by simpa using hp)]
    simp [List.getD_eq_getElem?_getD, hj]
  · intro i j hi
    exact padRowsK_beyond _ _ _ i j (by simpa using hi)

/-- never vacuous: when the search starts from singleton blocks (as `_get_initial` does), a labelled
start configuration of `nv d` singleton blocks in deme `d` exists -/
theorem sfs_accumulate_call_vector_eq_labelled_exists (hn : 2 ≤ n) (nv0 : Fin D → ℕ)
    (hmass : ∑ d, nv0 d ≤ n)
    (hG : ∀ e, bfs (transit m (mkEpoch (ts e) (mig e) (r e))) (encBC (sampleBC (n := n) nv0))
      (fuel e) = some (G e))
    (L : ExpLaw K) (n' : ℕ) (nv : Fin D → ℕ) (hnv : ∑ d, nv d = ∑ d, nv0 d)
    (eps : List EpochT) (dr : Reward) (sd tm : ℚ) (N : ℕ) (indices : List ℕ)
    (hidx : indices.length ≤ N)
    (sfsReward : ℕ → Reward) (k : Int) (rewards : Option (List Reward)) (times : List ℚ)
    (center permute : Bool)
    (hk : 1 ≤ k) (hlen : ∀ rs, rewards = some rs → (rs.length : Int) = k)
    (hnn : ∀ t ∈ times, 0 ≤ t) :
    ∃ x0 : LabS (encBC (D := D) (n := n)) (G 0).visited n, cntF x0.val = sampleBC nv ∧
    sfsAccumulateCallK .current (codeCtx L G n' nv eps dr sd tm) N indices sfsReward k rewards
        times center permute
      = .ok (padRowsK N times.length (indices.map fun i => times.map fun t =>
          labAccBC L m ts mig G n' x0 eps sfsReward (resolveRewardsK dr k rewards)
            center permute i t)) := by
  obtain ⟨x, hx⟩ := exists_list_cntF (sampleBC (n := n) nv)
  obtain ⟨x0, hx0⟩ := exists_labInit_bc hn nv0 hmass hG nv hnv x hx
  have h0 : cntF x0.val = sampleBC nv := by rw [hx0]; exact hx
  have hmass' : massBC (sampleBC (n := n) nv0) ≤ n := by rw [massBC_sampleBC]; exact hmass
  exact ⟨x0, h0, sfs_accumulate_call_vector_eq_labelled hn hmass' hG L n' nv
    (by rw [massBC_sampleBC]; exact hnv) x0 h0 eps dr sd tm N indices hidx sfsReward k rewards
    times center permute hk hlen hnn⟩

/-- **Non-vacuity** (n = 3, one deme, Kingman, one epoch, the REAL matrix exponential; the graph
`exGBC` of `EndToEnd2.lean`, three states found by the kernel): `sfs.accumulate(2, [3, 1/2, 3],
center=True, permute=True)` (unsorted, with a repeated entry) returns the 4 × 3 matrix
`[zeros, row 1, row 2, zeros]` of LABELLED centred second moments of `Unit · UnfoldedSFS(i)`. -/
theorem sfs_accumulate_instance (sd tm : ℚ) :
    ∃ x0 : LabS (encBC (D := 1) (n := 3)) ((fun _ : ℕ => exGBC) 0).visited 3,
      cntF x0.val = sampleBC (fun _ => 3) ∧
      sfsAccumulateCallK .current
          (codeCtx realExpLaw (fun _ => exGBC) 3 (fun _ : Fin 1 => 3)
            [{ start := 0, stop := none }] .unit sd tm) 3 (unfoldedIndices 3) .unfoldedSFS
          2 none [3, 1/2, 3] true true
        = .ok [[0, 0, 0],
            [3, 1/2, 3].map (labAccBC realExpLaw .kingman (fun _ _ => 1) (fun _ _ _ => 0)
              (fun _ => exGBC) 3 x0 [{ start := 0, stop := none }] .unfoldedSFS [.unit, .unit]
              true true 1),
            [3, 1/2, 3].map (labAccBC realExpLaw .kingman (fun _ _ => 1) (fun _ _ _ => 0)
              (fun _ => exGBC) 3 x0 [{ start := 0, stop := none }] .unfoldedSFS [.unit, .unit]
              true true 2),
            [0, 0, 0]] := by
  have hG : ∀ e : ℕ, bfs (transit .kingman (mkEpoch (D := 1) ((fun _ _ => 1) e)
      ((fun _ _ _ => 0) e) ((fun _ => 0) e))) (encBC (D := 1) (n := 3) (sampleBC fun _ => 3))
      ((fun _ => 10) e) = some ((fun _ => exGBC) e) := fun _ => exGBC_spec
  obtain ⟨x0, hx0, h⟩ := sfs_accumulate_call_vector_eq_labelled_exists (n := 3) (by norm_num)
    (fun _ : Fin 1 => 3) (by simp) hG realExpLaw 3 (fun _ : Fin 1 => 3) rfl
    [{ start := 0, stop := none }] .unit sd tm 3 (unfoldedIndices 3) (by decide) .unfoldedSFS
    2 none [3, 1/2, 3] true true (by decide) (by intro rs h; cases h)
    (by
      intro t ht
      simp only [List.mem_cons, List.not_mem_nil, or_false] at ht
      rcases ht with rfl | rfl | rfl <;> norm_num)
  refine ⟨x0, hx0, ?_⟩
  rw [h]
  simp [resolveRewardsK, padRowsK, unfoldedIndices, List.range']

end SFSAcc

/-! ## P. `SFSDistribution.cov` -/

section SFSCov
open Assembly Finset
variable {D n : ℕ} [NeZero n] {K : Type} [Field K] [LinearOrder K] [IsStrictOrderedRing K]

attribute [local instance] momValK

/-- `PGModel/Moments.lean` `covSFS` with `K`-valued moments: `(X + Xᵀ)/2 - μ μᵀ` on the
`(n+1) × (n+1)` grid, `X[i][j]` the ordered uncentred second cross moment for `i, j ∈ indices` and 0
elsewhere (`sfs = np.zeros((n + 1, n + 1))`, filled at the pairs of `indices`) -/
def covSFSK (n : ℕ) (indices : List ℕ) (x : ℕ → ℕ → K) (mean : List K) : List (List K) :=
  let X := fun i j => if indices.contains i ∧ indices.contains j then x i j else 0
  (List.range (n + 1)).map fun i => (List.range (n + 1)).map fun j =>
    (X i j + X j i) / 2 - mean.getD i 0 * mean.getD j 0

theorem covSFSK_rat : covSFSK (K := ℚ) = covSFS := rfl

/-- the call `PhaseTypeDistribution.moment(self, k=2, permute=False, center=False, rewards=(
CombinedReward([self.reward, sfs_reward(i)]), CombinedReward([self.reward, sfs_reward(j)])))` of
`SFSDistribution.cov` (distributions.py l.1580-1586; default window) -/
def sfsCovPairCall (dr : Reward) (sfsReward : ℕ → Reward) (i j : ℕ) : MomentCall Reward :=
  ⟨2, some [Reward.combined [dr, sfsReward i], Reward.combined [dr, sfsReward j]], none, none,
    false, false⟩

/-- `for ((i, j), result) in zip(indices², sfs_results): sfs[i, j] = result`: what is stored at
`sfs[i, j]`, `i, j ∈ indices`, read off the table of results (row = position of `i` in `indices`,
column = position of `j`; `_get_indices()` is an `arange`, without duplicates) -/
def tableAt (indices : List ℕ) (xs : List (List K)) (i j : ℕ) : K :=
  (xs.getD (indices.idxOf i) []).getD (indices.idxOf j) 0

/-- **`SFSDistribution.cov`**, l.1573-1604: the `len(indices)²` calls of `moment` (sequentially, in
the order `for i … for j …`: the first exception propagates), then `self.mean` (=
`SFSDistribution.moment(k=1)`), then `(sfs + sfs.T) / 2 - np.outer(mean, mean)`. -/
def sfsCovCallK (v : Variant) (ctx : DistCtxK Reward K) (n : ℕ) (indices : List ℕ)
    (sfsReward : ℕ → Reward) : Except ApiErr (List (List K)) :=
  (indices.mapM fun i => indices.mapM fun j =>
      momentCallK v ctx (sfsCovPairCall ctx.defaultReward sfsReward i j)).bind fun xs =>
    (sfsMomentCallK v ctx n indices sfsReward ⟨1, none, none, none, true, true⟩).map fun mean =>
      covSFSK n indices (tableAt indices xs) mean

/-- the window arithmetic of `moment` with both times at their defaults: `acc(end) - acc(start)` if
the default start time is `> 0`, else `acc(end)` -/
def winK (sd tm : ℚ) (f : ℚ → K) : K := if 0 < sd then f tm - f sd else f tm

variable {m : Model} {cinit : Fin D × Fin n → ℕ} {ts : ℕ → Fin D → ℚ}
  {mig : ℕ → Fin D → Fin D → ℚ} {r : ℕ → ℚ} {fuel : ℕ → ℕ} {G : ℕ → Graph}

/-- `X[i][j]` of the labelled process: the ORDERED uncentred second cross moment of
`CombinedReward([dr, sfs_reward(i)])`, `CombinedReward([dr, sfs_reward(j)])` over the default window -/
noncomputable def labX (L : ExpLaw K) (m : Model) (ts : ℕ → Fin D → ℚ)
    (mig : ℕ → Fin D → Fin D → ℚ) (G : ℕ → Graph) (n' : ℕ)
    (x0 : LabS (encBC (D := D) (n := n)) (G 0).visited n)
    (eps : List EpochT) (sfsReward : ℕ → Reward) (dr : Reward) (sd tm : ℚ) (i j : ℕ) : K :=
  winK sd tm fun t => labRawBC L m ts mig G n' x0 eps
    [Reward.combined [dr, sfsReward i], Reward.combined [dr, sfsReward j]] t

/-- `μ[i]` of the labelled process, `i ∈ indices`: the first moment of
`CombinedReward([dr, sfs_reward(i)])` over the default window -/
noncomputable def labMu (L : ExpLaw K) (m : Model) (ts : ℕ → Fin D → ℚ)
    (mig : ℕ → Fin D → Fin D → ℚ) (G : ℕ → Graph) (n' : ℕ)
    (x0 : LabS (encBC (D := D) (n := n)) (G 0).visited n)
    (eps : List EpochT) (sfsReward : ℕ → Reward) (dr : Reward) (sd tm : ℚ) (i : ℕ) : K :=
  winK sd tm fun t => labRawBC L m ts mig G n' x0 eps [Reward.combined [dr, sfsReward i]] t

theorem accumulateModel_plain (raw : List Reward → K) (a b : Reward) :
    accumulateModel raw false false [a, b] = raw [a, b] := by
  simp [accumulateModel, uncentred]

theorem accumulateModel_single (raw : List Reward → K) (c p : Bool) (a : Reward) :
    accumulateModel raw c p [a] = raw [a] :=
  Marginals.moment_one raw c p a

theorem tableAt_map (indices : List ℕ) (f : ℕ → ℕ → K) (i j : ℕ) (hi : i ∈ indices)
    (hj : j ∈ indices) :
    tableAt indices (indices.map fun a => indices.map fun b => f a b) i j = f i j := by
  have h1 : indices.idxOf i < indices.length := List.idxOf_lt_length_of_mem hi
  have h2 : indices.idxOf j < indices.length := List.idxOf_lt_length_of_mem hj
  simp [tableAt, List.getD_eq_getElem?_getD, h1, h2, List.getElem_idxOf]

theorem covSFSK_congr (N : ℕ) (indices : List ℕ) (x x' : ℕ → ℕ → K) (mean : List K)
    (h : ∀ i ∈ indices, ∀ j ∈ indices, x i j = x' i j) :
    covSFSK N indices x mean = covSFSK N indices x' mean := by
  unfold covSFSK
  refine List.map_congr_left fun i _ => List.map_congr_left fun j _ => ?_
  by_cases hi : i ∈ indices <;> by_cases hj : j ∈ indices <;> simp [hi, hj, h]

/-- **`sfs_cov_eq_labelled`.**  `sfs.cov` of the current code on the code model of the
block-counting state space (default horizon `tm ≥ 0`) returns without exception the matrix
`(X + Xᵀ)/2 − μ μᵀ` on the `(N+1) × (N+1)` grid, where `X[i][j]` (`i, j ∈ indices`, 0 elsewhere)
is the ORDERED uncentred second cross moment and `μ = [0] + [μ_i for i in indices] + [0] * …` the
padded first moments of the LABELLED process of typed blocks with the rewards
`CombinedReward([self.reward, sfs_reward(i)])`. -/
theorem sfs_cov_eq_labelled (hn : 2 ≤ n) (hmass : massBC cinit ≤ n)
    (hG : ∀ e, bfs (transit m (mkEpoch (ts e) (mig e) (r e))) (encBC cinit) (fuel e) = some (G e))
    (L : ExpLaw K) (n' : ℕ) (nv : Fin D → ℕ) (hnv : ∑ d, nv d = massBC cinit)
    (x0 : LabS (encBC (D := D) (n := n)) (G 0).visited n) (hx0 : cntF x0.val = sampleBC nv)
    (eps : List EpochT) (dr : Reward) (sd tm : ℚ) (N : ℕ) (indices : List ℕ)
    (sfsReward : ℕ → Reward) (he : 0 ≤ tm) :
    sfsCovCallK .current (codeCtx L G n' nv eps dr sd tm) N indices sfsReward
      = .ok (covSFSK N indices (labX L m ts mig G n' x0 eps sfsReward dr sd tm)
          (padSFSK N (indices.map (labMu L m ts mig G n' x0 eps sfsReward dr sd tm)))) := by
  unfold sfsCovCallK
  -- the mean
  rw [sfs_moment_call_eq_labelled hn hmass hG L n' nv hnv x0 hx0 eps dr sd tm N indices sfsReward
    ⟨1, none, none, none, true, true⟩ (by decide) (by intro rs h; cases h) he]
  have hmean : (indices.map fun i =>
      if 0 < resolveTime .current (none : Option ℚ) sd then
        labAccBC L m ts mig G n' x0 eps sfsReward (resolveRewardsK dr 1 none) true true i
            (resolveTime .current (none : Option ℚ) tm)
          - labAccBC L m ts mig G n' x0 eps sfsReward (resolveRewardsK dr 1 none) true true i
            (resolveTime .current (none : Option ℚ) sd)
      else labAccBC L m ts mig G n' x0 eps sfsReward (resolveRewardsK dr 1 none) true true i
            (resolveTime .current (none : Option ℚ) tm))
      = indices.map (labMu L m ts mig G n' x0 eps sfsReward dr sd tm) := by
    refine List.map_congr_left fun i _ => ?_
    have key : ∀ t, labAccBC L m ts mig G n' x0 eps sfsReward (resolveRewardsK dr 1 none) true
        true i t = labRawBC L m ts mig G n' x0 eps [Reward.combined [dr, sfsReward i]] t := by
      intro t
      unfold labAccBC
      exact accumulateModel_single _ true true _
    simp only [key]
    rfl
  rw [show (⟨1, none, none, none, true, true⟩ : MomentCall Reward).k = 1 from rfl,
    show (⟨1, none, none, none, true, true⟩ : MomentCall Reward).rewards = none from rfl,
    show (⟨1, none, none, none, true, true⟩ : MomentCall Reward).startTime = none from rfl,
    show (⟨1, none, none, none, true, true⟩ : MomentCall Reward).endTime = none from rfl,
    show (⟨1, none, none, none, true, true⟩ : MomentCall Reward).center = true from rfl,
    show (⟨1, none, none, none, true, true⟩ : MomentCall Reward).permute = true from rfl, hmean]
  -- the pair calls
  have hctx : codeCtx L G n' nv eps dr sd tm = labCtxBC L m ts mig G n' x0 eps dr sd tm := by
    unfold codeCtx labCtxBC
    rw [codeRaw_eq_labRawBC hn hmass hG L n' nv hnv x0 hx0 eps]
  have hpair : ∀ i j, momentCallK .current (codeCtx L G n' nv eps dr sd tm)
      (sfsCovPairCall (codeCtx L G n' nv eps dr sd tm).defaultReward sfsReward i j)
      = .ok (labX L m ts mig G n' x0 eps sfsReward dr sd tm i j) := by
    intro i j
    rw [hctx, show (labCtxBC L m ts mig G n' x0 eps dr sd tm).defaultReward = dr from rfl,
      momentCallK_wellformed (labCtxBC L m ts mig G n' x0 eps dr sd tm)
        (sfsCovPairCall dr sfsReward i j) (by show (1 : Int) ≤ 2; decide)
        (by intro rs h; simp only [sfsCovPairCall, Option.some.injEq] at h; rw [← h]; rfl) he]
    have key : ∀ t, accOf (labCtxBC L m ts mig G n' x0 eps dr sd tm) 2
        (some [Reward.combined [dr, sfsReward i], Reward.combined [dr, sfsReward j]]) false false t
        = labRawBC L m ts mig G n' x0 eps
          [Reward.combined [dr, sfsReward i], Reward.combined [dr, sfsReward j]] t := by
      intro t
      unfold accOf
      exact (accumulateModel_inhabited_irrel _ _ _ _ _ _).trans (accumulateModel_plain _ _ _)
    show Except.ok (if 0 < sd then
        accOf (labCtxBC L m ts mig G n' x0 eps dr sd tm) 2
          (some [Reward.combined [dr, sfsReward i], Reward.combined [dr, sfsReward j]])
          false false tm
        - accOf (labCtxBC L m ts mig G n' x0 eps dr sd tm) 2
          (some [Reward.combined [dr, sfsReward i], Reward.combined [dr, sfsReward j]])
          false false sd
      else accOf (labCtxBC L m ts mig G n' x0 eps dr sd tm) 2
          (some [Reward.combined [dr, sfsReward i], Reward.combined [dr, sfsReward j]])
          false false tm) = _
    rw [key, key]
    rfl
  simp only [hpair, mapM_ok]
  show Except.ok (covSFSK N indices (tableAt indices (indices.map fun i => indices.map fun j =>
      labX L m ts mig G n' x0 eps sfsReward dr sd tm i j)) _) = _
  congr 1
  exact covSFSK_congr N indices _ _ _ fun i hi j hj => tableAt_map indices _ i j hi hj

/-! ### entries and symmetry -/

/-- entry `(i, j)` of `covSFSK` -/
theorem covSFSK_entry (N : ℕ) (indices : List ℕ) (x : ℕ → ℕ → K) (mean : List K) (i j : ℕ)
    (hi : i ≤ N) (hj : j ≤ N) :
    entryK (covSFSK N indices x mean) i j =
      ((if i ∈ indices ∧ j ∈ indices then x i j else 0)
        + (if j ∈ indices ∧ i ∈ indices then x j i else 0)) / 2
        - mean.getD i 0 * mean.getD j 0 := by
  have hi' : i < N + 1 := by omega
  have hj' : j < N + 1 := by omega
  simp [entryK, covSFSK, List.getD_eq_getElem?_getD, hi', hj']

/-- **the matrix `sfs.cov` returns is symmetric** -/
theorem covSFSK_symm (N : ℕ) (indices : List ℕ) (x : ℕ → ℕ → K) (mean : List K) (i j : ℕ)
    (hi : i ≤ N) (hj : j ≤ N) :
    entryK (covSFSK N indices x mean) i j = entryK (covSFSK N indices x mean) j i := by
  rw [covSFSK_entry _ _ _ _ _ _ hi hj, covSFSK_entry _ _ _ _ _ _ hj hi]; ring

theorem covSFSK_shape (N : ℕ) (indices : List ℕ) (x : ℕ → ℕ → K) (mean : List K) :
    (covSFSK N indices x mean).length = N + 1 ∧
      ∀ row ∈ covSFSK N indices x mean, row.length = N + 1 := by
  refine ⟨by simp [covSFSK], fun row hrow => ?_⟩
  obtain ⟨i, _, rfl⟩ := List.mem_map.1 hrow
  simp

theorem padSFSK_inner (N : ℕ) (ms : List K) (p : ℕ) (hp : p < ms.length) :
    (padSFSK N ms).getD (p + 1) 0 = ms[p] := by
  simp [padSFSK, List.getD_eq_getElem?_getD, List.getElem?_append_left, hp]

/-- **`sfs.cov`, entry by entry, and its symmetry**: an `(N+1) × (N+1)` matrix `M` with
`M[i][j] = M[j][i]`, and for bins `a = indices[p]`, `b = indices[q]` sitting at their own frequency
(`indices[p] = p + 1`, as for both spectra) `M[a][b] = (X[a][b] + X[b][a])/2 − μ_a μ_b` with the
labelled moments `labX`, `labMu`. -/
theorem sfs_cov_entry_eq_labelled (hn : 2 ≤ n) (hmass : massBC cinit ≤ n)
    (hG : ∀ e, bfs (transit m (mkEpoch (ts e) (mig e) (r e))) (encBC cinit) (fuel e) = some (G e))
    (L : ExpLaw K) (n' : ℕ) (nv : Fin D → ℕ) (hnv : ∑ d, nv d = massBC cinit)
    (x0 : LabS (encBC (D := D) (n := n)) (G 0).visited n) (hx0 : cntF x0.val = sampleBC nv)
    (eps : List EpochT) (dr : Reward) (sd tm : ℚ) (N : ℕ) (indices : List ℕ)
    (sfsReward : ℕ → Reward) (he : 0 ≤ tm) :
    ∃ M : List (List K),
      sfsCovCallK .current (codeCtx L G n' nv eps dr sd tm) N indices sfsReward = .ok M ∧
      M.length = N + 1 ∧ (∀ row ∈ M, row.length = N + 1) ∧
      (∀ i j, i ≤ N → j ≤ N → entryK M i j = entryK M j i) ∧
      (∀ (p q : ℕ) (hp : p < indices.length) (hq : q < indices.length),
        indices[p] = p + 1 → indices[q] = q + 1 → p + 1 ≤ N → q + 1 ≤ N →
        entryK M (p + 1) (q + 1)
          = (labX L m ts mig G n' x0 eps sfsReward dr sd tm (p + 1) (q + 1)
              + labX L m ts mig G n' x0 eps sfsReward dr sd tm (q + 1) (p + 1)) / 2
            - labMu L m ts mig G n' x0 eps sfsReward dr sd tm (p + 1)
              * labMu L m ts mig G n' x0 eps sfsReward dr sd tm (q + 1)) := by
  refine ⟨_, sfs_cov_eq_labelled hn hmass hG L n' nv hnv x0 hx0 eps dr sd tm N indices sfsReward
    he, (covSFSK_shape _ _ _ _).1, (covSFSK_shape _ _ _ _).2,
    fun i j hi hj => covSFSK_symm _ _ _ _ i j hi hj, ?_⟩
  intro p q hp hq hip hiq hpN hqN
  have hmp : p + 1 ∈ indices := hip ▸ List.getElem_mem hp
  have hmq : q + 1 ∈ indices := hiq ▸ List.getElem_mem hq
  rw [covSFSK_entry _ _ _ _ _ _ hpN hqN, padSFSK_inner _ _ p (by simpa using hp),
    padSFSK_inner _ _ q (by simpa using hq)]
  simp only [hmp, hmq, and_self, if_true, List.getElem_map, hip, hiq]

/-- **Non-vacuity** (n = 3, one deme, Kingman, one epoch, the REAL matrix exponential, the graph
`exGBC`): `sfs.cov` is returned without exception and equals the labelled expression. -/
theorem sfs_cov_instance (sd tm : ℚ) (htm : 0 ≤ tm) :
    ∃ x0 : LabS (encBC (D := 1) (n := 3)) ((fun _ : ℕ => exGBC) 0).visited 3,
      cntF x0.val = sampleBC (fun _ => 3) ∧
      sfsCovCallK .current
          (codeCtx realExpLaw (fun _ => exGBC) 3 (fun _ : Fin 1 => 3)
            [{ start := 0, stop := none }] .unit sd tm) 3 (unfoldedIndices 3) .unfoldedSFS
        = .ok (covSFSK 3 (unfoldedIndices 3)
            (labX realExpLaw .kingman (fun _ _ => 1) (fun _ _ _ => 0) (fun _ => exGBC) 3 x0
              [{ start := 0, stop := none }] .unfoldedSFS .unit sd tm)
            (padSFSK 3 ((unfoldedIndices 3).map
              (labMu realExpLaw .kingman (fun _ _ => 1) (fun _ _ _ => 0) (fun _ => exGBC) 3 x0
                [{ start := 0, stop := none }] .unfoldedSFS .unit sd tm)))) := by
  have hG : ∀ e : ℕ, bfs (transit .kingman (mkEpoch (D := 1) ((fun _ _ => 1) e)
      ((fun _ _ _ => 0) e) ((fun _ => 0) e))) (encBC (D := 1) (n := 3) (sampleBC fun _ => 3))
      ((fun _ => 10) e) = some ((fun _ => exGBC) e) := fun _ => exGBC_spec
  obtain ⟨x, hx⟩ := exists_list_cntF (sampleBC (n := 3) (fun _ : Fin 1 => 3))
  obtain ⟨x0, hx0⟩ := exists_labInit_bc (n := 3) (by norm_num) (fun _ : Fin 1 => 3) (by simp) hG
    (fun _ : Fin 1 => 3) rfl x hx
  have h0 : cntF x0.val = sampleBC (fun _ : Fin 1 => 3) := by rw [hx0]; exact hx
  refine ⟨x0, h0, ?_⟩
  exact sfs_cov_eq_labelled (n := 3) (by norm_num) (by rw [massBC_sampleBC]; simp) hG realExpLaw 3
    (fun _ : Fin 1 => 3) (by rw [massBC_sampleBC]) x0 h0 [{ start := 0, stop := none }] .unit sd
    tm 3 (unfoldedIndices 3) .unfoldedSFS htm

end SFSCov

/-! ## Q. the re-listed input generates the SAME demography: both runs are demography-driven -/

section Relisted
open Config

/-- two strictly ascending lists with the same members are equal -/
theorem sorted_ext {α : Type} [LinearOrder α] (l l' : List α) (h : l.Pairwise (· < ·))
    (h' : l'.Pairwise (· < ·)) (hm : ∀ x, x ∈ l ↔ x ∈ l') : l = l' := by
  have hp : l.Perm l' := (List.perm_ext_iff_of_nodup (h.imp ne_of_lt) (h'.imp ne_of_lt)).2 hm
  exact hp.eq_of_pairwise (fun a b _ _ hab hba => absurd hab (lt_asymm hba)) h h'

/-- `sorted(set(·))` only depends on the SET of names -/
theorem sortDedup_congr (l l' : List Name) (h : ∀ x, x ∈ l ↔ x ∈ l') :
    sortDedup l = sortDedup l' :=
  sorted_ext _ _ (sortDedup_sorted l) (sortDedup_sorted l')
    (fun x => by rw [mem_sortDedup, mem_sortDedup, h])

/-- `np.sort(np.unique(·))` only depends on the SET of times -/
theorem sortDedupQ_congr (l l' : List ℚ) (h : ∀ x, x ∈ l ↔ x ∈ l') :
    sortDedupQ l = sortDedupQ l' :=
  sorted_ext _ _ (sortDedupQ_sorted l) (sortDedupQ_sorted l')
    (fun x => by rw [mem_sortDedupQ, mem_sortDedupQ, h])

/-- **The hypotheses of `config_listing_order_irrelevant`**: `I'` lists the entries of the size and
migration dicts in another order, lists the SAMPLED entries of the sample configuration in another
order, lists any unsampled population of the demography with 0 lineages or omits it. -/
structure Relisted (I I' : Input) : Prop where
  hN : I.linNames.Nodup
  hN' : I'.linNames.Nodup
  hsz : I'.sizes.Perm I.sizes
  hszk : (I.sizes.map (·.1)).Nodup
  hmg : I'.mig.Perm I.mig
  hmgk : (I.mig.map (·.1)).Nodup
  hcnt : (I'.n.toDict.filter fun e => e.2 ≠ 0).Perm (I.n.toDict.filter fun e => e.2 ≠ 0)
  hz : ∀ p ∈ I.linNames, nOf I p = 0 → p ∈ I'.linNames ∨ p ∈ rawDemNames I.sizes I.mig
  hz' : ∀ p ∈ I'.linNames, nOf I' p = 0 → p ∈ I.linNames ∨ p ∈ rawDemNames I.sizes I.mig

variable {I I' : Input}

theorem Relisted.raw (h : Relisted I I') (x : Name) :
    x ∈ rawDemNames I'.sizes I'.mig ↔ x ∈ rawDemNames I.sizes I.mig :=
  mem_rawDemNames_perm h.hsz h.hmg x

/-- a name of one sample configuration which is not a population of the demography is a name of the
other sample configuration -/
theorem Relisted.lin (h : Relisted I I') (x : Name) (hx : x ∉ rawDemNames I.sizes I.mig) :
    x ∈ I'.linNames ↔ x ∈ I.linNames := by
  have hn : ∀ p, nOf I' p = nOf I p := nOf_eq_of_sampled_perm h.hN h.hN' h.hcnt
  constructor
  · intro hl
    by_cases h0 : nOf I' x = 0
    · rcases h.hz' x hl h0 with h1 | h1
      · exact h1
      · exact absurd h1 hx
    · exact mem_linNames_of_nOf_ne_zero (by rw [← hn]; exact h0)
  · intro hl
    by_cases h0 : nOf I x = 0
    · rcases h.hz x hl h0 with h1 | h1
      · exact h1
      · exact absurd h1 hx
    · exact mem_linNames_of_nOf_ne_zero (by rw [hn]; exact h0)

theorem Relisted.demographyNames_eq (h : Relisted I I') :
    demographyNames I'.sizes I'.mig = demographyNames I.sizes I.mig :=
  sortDedup_congr _ _ h.raw

/-- `Demography.pop_names` (sorted) is the same list: the numbering `nameIdx` of the populations is
the same -/
theorem Relisted.allNames_eq (h : Relisted I I') : allNames I' = allNames I := by
  unfold Config.allNames
  refine sortDedup_congr _ _ fun x => ?_
  rw [List.mem_append, List.mem_append, h.raw x]
  by_cases hx : x ∈ rawDemNames I.sizes I.mig
  · simp [hx]
  · simp [hx, h.lin x hx]

theorem Relisted.nameIdx_eq (h : Relisted I I') (p : Name) : nameIdx I' p = nameIdx I p := by
  unfold nameIdx
  rw [h.allNames_eq]

/-- **`changeTimesOf` only depends on the multiset of change times** -/
theorem Relisted.changeTimesOf_eq (h : Relisted I I') : changeTimesOf I' = changeTimesOf I := by
  unfold changeTimesOf
  refine sortDedupQ_congr _ _ fun x => ?_
  exact ((h.hsz.flatMap_right _).append (h.hmg.flatMap_right _)).mem_iff

theorem Relisted.sizeEntries_eq (h : Relisted I I') (t : ℚ) : sizeEntries I' t = sizeEntries I t := by
  unfold sizeEntries
  rw [h.demographyNames_eq]
  refine List.filterMap_congr fun p _ => ?_
  rw [lookup_perm h.hsz h.hszk, h.nameIdx_eq]

theorem Relisted.migEntries_eq (h : Relisted I I') (t : ℚ) : migEntries I' t = migEntries I t := by
  unfold migEntries
  rw [h.demographyNames_eq]
  refine List.flatMap_congr fun p _ => ?_
  refine List.filterMap_congr fun q _ => ?_
  rw [lookup_perm h.hmg h.hmgk, h.nameIdx_eq, h.nameIdx_eq]

theorem Relisted.mainEvent_eq (h : Relisted I I') : mainEvent I' = mainEvent I := by
  unfold mainEvent
  have hc : (I'.sizes = [] ∧ I'.mig = []) ↔ (I.sizes = [] ∧ I.mig = []) := by
    constructor
    · rintro ⟨h1, h2⟩
      exact ⟨List.Perm.nil_eq (h1 ▸ h.hsz) |>.symm, List.Perm.nil_eq (h2 ▸ h.hmg) |>.symm⟩
    · rintro ⟨h1, h2⟩
      exact ⟨List.Perm.eq_nil (h1 ▸ h.hsz), List.Perm.eq_nil (h2 ▸ h.hmg)⟩
  rw [h.changeTimesOf_eq]
  simp only [hc, h.sizeEntries_eq, h.migEntries_eq]

theorem Relisted.sampleOnly_eq (h : Relisted I I') : sampleOnly I' = sampleOnly I := by
  refine sorted_ext _ _ (sortDedup_sorted _) (sortDedup_sorted _) fun x => ?_
  rw [mem_sampleOnly, mem_sampleOnly, h.raw x]
  constructor
  · rintro ⟨h1, h2⟩
    exact ⟨(h.lin x h2).1 h1, h2⟩
  · rintro ⟨h1, h2⟩
    exact ⟨(h.lin x h2).2 h1, h2⟩

theorem Relisted.extraEvent_eq (h : Relisted I I') : extraEvent I' = extraEvent I := by
  unfold extraEvent
  rw [h.sampleOnly_eq]
  simp only [h.nameIdx_eq]

/-- **The translated event list of the re-listed input is THE SAME list**: same change times, and at
every change time the same entries in the same (sorted-name) order under the same numbering. -/
theorem Relisted.toEvents_eq (h : Relisted I I') : toEvents I' = toEvents I := by
  unfold toEvents
  rw [h.mainEvent_eq, h.extraEvent_eq]

/-- hence the same epochs: same boundaries, same dicts -/
theorem Relisted.demoEpochs_eq (h : Relisted I I') (o : DemoOpts) (count : ℕ) :
    demoEpochs o I' count = demoEpochs o I count := by
  unfold demoEpochs
  rw [h.toEvents_eq]

/-- the dict-likeness of the containers does not see the listing order -/
theorem Relisted.dictInput (h : Relisted I I') (hD : DictInput I) : DictInput I' where
  sizeKeys := ((h.hsz.map (·.1)).nodup_iff).2 hD.sizeKeys
  migKeys := ((h.hmg.map (·.1)).nodup_iff).2 hD.migKeys
  sizeTimes := fun e he => hD.sizeTimes e (h.hsz.mem_iff.1 he)
  migTimes := fun e he => hD.migTimes e (h.hmg.mem_iff.1 he)
  sizeNonempty := fun e he => hD.sizeNonempty e (h.hsz.mem_iff.1 he)
  migNonempty := fun e he => hD.migNonempty e (h.hmg.mem_iff.1 he)
  sizeNonneg := fun e he => hD.sizeNonneg e (h.hsz.mem_iff.1 he)
  migNonneg := fun e he => hD.migNonneg e (h.hmg.mem_iff.1 he)

/-- **`relisted_epochs`.**  For a re-listed input `I'` the epoch schedule which the demography model
generates from `toEvents I'` has the same boundaries as that of `I` (it is the same list of epoch
objects), and, for every epoch `e` and at EVERY time `t` inside it, the tables read off the epoch
object in the axis order OF `I'` are the name-matching permutation `σ` of those read off in the
axis order of `I` -- and both are the named values the glue reads at `t`
[`epoch_tables_from_demography` on both sides, `config_listing_order_irrelevant`]. -/
theorem relisted_epochs (h : Relisted I I') (hD : DictInput I) (hV : ValidSetOrder I)
    (hV' : ValidSetOrder I') (o : DemoOpts) (count : ℕ)
    (hcount : (changeTimes (toEvents I)).length < count) (tsOf : ℚ → ℚ) :
    demoEpochs o I' count = demoEpochs o I count ∧
    (demoEpochs o I' count).map Epoch.toT = (demoEpochs o I count).map Epoch.toT ∧
    (axis I').length = (axis I).length ∧
    ∃ σ : Equiv.Perm (Fin (axis I).length),
      (∀ i : Fin (axis I).length, (axis I')[(σ i).val]? = some (axis I)[i]) ∧
      (∀ e : ℕ,
        demoTs tsOf I' (demoEpochs o I' count) (axis I).length e
          = DemePerm.permTs σ (demoTs tsOf I (demoEpochs o I count) (axis I).length e) ∧
        demoMig I' (demoEpochs o I' count) (axis I).length e
          = DemePerm.permMig σ (demoMig I (demoEpochs o I count) (axis I).length e)) ∧
      (∀ (e : ℕ) (hlt : e < (demoEpochs o I count).length) (t : ℚ),
        (demoEpochs o I count)[e].start ≤ t → ltInf t (demoEpochs o I count)[e].stop = true →
        tableOfEpoch I (demoEpochs o I count)[e] = epochTable .current I t ∧
        tableOfEpoch I' (demoEpochs o I count)[e] = epochTable .current I' t) ∧
      initFn I' (axis I).length = DemePerm.permC σ (initFn I (axis I).length) := by
  have hE := h.demoEpochs_eq o count
  have hD' := h.dictInput hD
  have hcount' : (changeTimes (toEvents I')).length < count := by rw [h.toEvents_eq]; exact hcount
  obtain ⟨hlen, σ, hσ, hS, hM, hI, _⟩ := config_listing_order_irrelevant I I' h.hN hV h.hN' hV'
    h.hsz h.hszk h.hmg h.hmgk h.hcnt h.hz h.hz'
  obtain ⟨_, a2, a3⟩ := demo_tables_eq_glue I hD hV o count hcount tsOf (axis I).length
  obtain ⟨_, b2, b3⟩ := demo_tables_eq_glue I' hD' hV' o count hcount' tsOf (axis I).length
  refine ⟨hE, by rw [hE], hlen, σ, fun i => (hσ i).2, fun e => ⟨?_, ?_⟩, ?_, hI⟩
  · have := congrFun b2 e
    have h2 := congrFun a2 e
    simp only [demoEpochs] at this h2 ⊢
    rw [this, h2, h.toEvents_eq]
    funext d
    show tsOf (sizesFn .current I' _ (axis I).length d) = _
    rw [hS]
    rfl
  · have := congrFun b3 e
    have h2 := congrFun a3 e
    simp only [demoEpochs] at this h2 ⊢
    rw [this, h2, h.toEvents_eq, hM]
  · intro e hlt t h1 h2
    have hmem : (demoEpochs o I count)[e] ∈ epochsUpTo o (toEvents I) count :=
      List.getElem_mem hlt
    refine ⟨(epoch_tables_from_demography I hD hV o count _ hmem t h1 h2).symm, ?_⟩
    have hmem' : (demoEpochs o I count)[e] ∈ epochsUpTo o (toEvents I') count := by
      rw [h.toEvents_eq]; exact hmem
    exact (epoch_tables_from_demography I' hD' hV' o count _ hmem' t h1 h2).symm

end Relisted

section BothRuns
open Assembly Finset Config
variable {K : Type} [Field K] [LinearOrder K] [IsStrictOrderedRing K]

attribute [local instance] momValK

/-- **`named_invariant_both_runs_with_demography`.**  The named-input invariance with BOTH runs
driven by the demography model: the run on `I` builds its state spaces from the tables of the epochs
generated from `toEvents I` and sweeps over these epochs; the run on the re-listed input `I'` builds
its state spaces from the tables (in ITS axis order) of the epochs generated from `toEvents I'` and
sweeps over THOSE epochs.  Every call `moment(k, rewards, start_time, end_time, center, permute)`
with rewards given by NAME returns the same result -- any order, any flags, any variant of the call
layer, exceptions included.  (The deme axis of `I'` has the length of that of `I`,
`relisted_epochs`; positions are written as `Fin (axis I).length`.) -/
theorem named_invariant_both_runs_with_demography (I I' : Input) (h : Relisted I I')
    (hD : DictInput I) (hV : ValidSetOrder I) (hV' : ValidSetOrder I')
    (o : DemoOpts) (count : ℕ) (hcount : (changeTimes (toEvents I)).length < count)
    {m : Model} (tsOf : ℚ → ℚ)
    {cinit cinit' : Fin (axis I).length → ℕ} {r r' : ℕ → ℚ} {fuel fuel' : ℕ → ℕ}
    {G G' : ℕ → Graph}
    (hG : ∀ e, bfs (transit m (mkEpoch
        (demoTs tsOf I (demoEpochs o I count) (axis I).length e)
        (demoMig I (demoEpochs o I count) (axis I).length e) (r e))) (encLC cinit) (fuel e)
        = some (G e))
    (hG' : ∀ e, bfs (transit m (mkEpoch
        (demoTs tsOf I' (demoEpochs o I' count) (axis I).length e)
        (demoMig I' (demoEpochs o I' count) (axis I).length e) (r' e))) (encLC cinit') (fuel' e)
        = some (G' e))
    (hsum : ∑ d, cinit' d = ∑ d, cinit d)
    (L : ExpLaw K) (n : ℕ)
    (hc0 : ∑ d, initFn I (axis I).length d = ∑ d, cinit d)
    (dr : NamedReward) (sd tm : ℚ) (v : Api.Variant) (c : MomentCall NamedReward)
    (hdr : dr.OnAxis I) (hc : ∀ rs, c.rewards = some rs → ∀ nr ∈ rs, nr.OnAxis I) :
    momentCallK v (codeCtx L G' n (initFn I' (axis I).length)
          ((demoEpochs o I' count).map Epoch.toT) (dr.resolve I') sd tm)
        (mapRewards (NamedReward.resolve I') c)
      = momentCallK v (codeCtx L G n (initFn I (axis I).length)
          ((demoEpochs o I count).map Epoch.toT) (dr.resolve I) sd tm)
        (mapRewards (NamedReward.resolve I) c) := by
  have hD' := h.dictInput hD
  have hcount' : (changeTimes (toEvents I')).length < count := by rw [h.toEvents_eq]; exact hcount
  obtain ⟨_, b2, b3⟩ := demo_tables_eq_glue I' hD' hV' o count hcount' tsOf (axis I).length
  have hG2 : ∀ e, bfs (transit m (mkEpoch
      (fun d => tsOf (sizesFn .current I' (epochAt (demoEpochs o I count) e).start
        (axis I).length d))
      (migFn .current I' (epochAt (demoEpochs o I count) e).start (axis I).length) (r' e)))
      (encLC cinit') (fuel' e) = some (G' e) := by
    intro e
    have := hG' e
    simp only [demoEpochs] at this b2 b3 ⊢
    rw [b2, b3, h.toEvents_eq] at this
    exact this
  rw [h.demoEpochs_eq o count]
  exact named_invariant_with_demography I I' hD h.hN hV h.hN' hV' h.hsz h.hmg h.hcnt h.hz h.hz' o
    count hcount tsOf hG hG2 hsum L n hc0 dr sd tm v c hdr hc

/-! ### a closed instance: two epochs, both runs demography-driven -/

/-- `exI2` of `EndToEnd2.lean` (`n = {'b': 1, 'a': 1}`, `pop_sizes = {'a': {0: 1, 1: 3}, 'b': {0: 2}}`,
`migration_rates = {('a','b'): {0: 1/2}, ('b','a'): {0: 1/2, 1: 1/4}}`) with every dict listed in
the other order: the deme axis is `["a", "b"]` instead of `["b", "a"]` -/
def exI2' : Config.Input where
  n := .dict [("a", 1), ("b", 1)]
  sizes := [("b", [(0, 2)]), ("a", [(0, 1), (1, 3)])]
  mig := [(("b", "a"), [(0, 1/2), (1, 1/4)]), (("a", "b"), [(0, 1/2)])]
  setOrder := []

theorem exI2_relisted : Relisted exI2 exI2' where
  hN := by decide
  hN' := by decide
  hsz := List.Perm.swap _ _ []
  hszk := by decide
  hmg := List.Perm.swap _ _ []
  hmgk := by decide
  hcnt := List.Perm.swap _ _ []
  hz := by decide
  hz' := by decide

theorem exI2'_valid : ValidSetOrder exI2' := (validSetOrder_iff _).1 (by decide)

/-- the two inputs have differently ordered axes, generate the same two epochs `[0,1)`, `[1,∞)`,
and the tables read off each epoch in the two axis orders are each other's transposition -/
theorem exI2'_epochs :
    axis exI2 = ["b", "a"] ∧ axis exI2' = ["a", "b"] ∧
    (demoEpochs {} exI2' 5).map (fun e => (e.start, e.stop)) = [(0, some 1), (1, none)] ∧
    (demoEpochs {} exI2 5).map (tableOfEpoch exI2)
      = [([2, 1], [[0, 1/2], [1/2, 0]]), ([2, 3], [[0, 1/4], [1/2, 0]])] ∧
    (demoEpochs {} exI2' 5).map (tableOfEpoch exI2')
      = [([1, 2], [[0, 1/2], [1/2, 0]]), ([3, 2], [[0, 1/2], [1/4, 0]])] := by
  decide +kernel

def exStepOfI (J : Config.Input) (ep : Epoch) : State → Targets :=
  transit .kingman (mkEpoch (D := (axis exI2).length)
    (fun d => (tableOfEpoch J ep).1.getD d.val 0)
    (fun a b => ((tableOfEpoch J ep).2.getD a.val []).getD b.val 0) 0)

def exGOfI (J : Config.Input) (ep : Epoch) : Graph :=
  (bfs (exStepOfI J ep) (encLC (initFn J (axis exI2).length)) 10).getD default

theorem exGOfI_spec (J : Config.Input)
    (h : ∀ ep ∈ demoEpochs {} J 5,
      (bfs (exStepOfI J ep) (encLC (initFn J (axis exI2).length)) 10).isSome = true) :
    ∀ ep ∈ demoEpochs {} J 5,
      bfs (exStepOfI J ep) (encLC (initFn J (axis exI2).length)) 10 = some (exGOfI J ep) := by
  intro ep hep
  have h' := h ep hep
  unfold exGOfI
  cases hb : bfs (exStepOfI J ep) (encLC (initFn J (axis exI2).length)) 10 with
  | none => rw [hb] at h'; cases h'
  | some g => rfl

/-- **Non-vacuity of `named_invariant_both_runs_with_demography`**: all its hypotheses hold for the
pair `exI2`, `exI2'` (Kingman, time scale = size): the centred cross moment of `DemeReward('a')` and
the tree height over the window `[1/2, 2]`, which straddles the epoch boundary at 1, is the same for
both listings -- each run with its own epochs, tables, state spaces -- for every `ExpLaw`, every
variant of the call layer. -/
theorem both_runs_instance (L : ExpLaw K) (n : ℕ) (sd tm : ℚ) (v : Api.Variant) :
    momentCallK v (codeCtx L (fun e => exGOfI exI2' (epochAt (demoEpochs {} exI2' 5) e)) n
          (initFn exI2' (axis exI2).length) ((demoEpochs {} exI2' 5).map Epoch.toT)
          (NamedReward.resolve exI2' .treeHeight) sd tm)
        (mapRewards (NamedReward.resolve exI2')
          ⟨2, some [.deme "a", .treeHeight], some (1/2), some 2, true, true⟩)
      = momentCallK v (codeCtx L (fun e => exGOfI exI2 (epochAt (demoEpochs {} exI2 5) e)) n
          (initFn exI2 (axis exI2).length) ((demoEpochs {} exI2 5).map Epoch.toT)
          (NamedReward.resolve exI2 .treeHeight) sd tm)
        (mapRewards (NamedReward.resolve exI2)
          ⟨2, some [.deme "a", .treeHeight], some (1/2), some 2, true, true⟩) := by
  have hcount : (changeTimes (toEvents exI2)).length < 5 := by decide +kernel
  have hne := (demography_schedule exI2 exI2_dict {} 5 hcount).1
  have hne' : demoEpochs {} exI2' 5 ≠ [] := by
    rw [exI2_relisted.demoEpochs_eq]; exact hne
  refine named_invariant_both_runs_with_demography exI2 exI2' exI2_relisted exI2_dict exI2_valid
    exI2'_valid {} 5 hcount (m := .kingman) id
    (cinit := initFn exI2 (axis exI2).length) (cinit' := initFn exI2' (axis exI2).length)
    (r := fun _ => 0) (r' := fun _ => 0) (fuel := fun _ => 10) (fuel' := fun _ => 10)
    (fun e => exGOfI_spec exI2 (by decide +kernel) _ (epochAt_mem hne e))
    (fun e => exGOfI_spec exI2' (by decide +kernel) _ (epochAt_mem hne' e))
    (by decide +kernel) L n rfl .treeHeight sd tm v _ trivial ?_
  intro rs hrs nr hnr
  cases hrs
  simp only [List.mem_cons, List.not_mem_nil, or_false] at hnr
  rcases hnr with rfl | rfl
  · show "a" ∈ Config.axis exI2
    decide
  · trivial

end BothRuns

/-! ## R. the cdf route on the block-counting and two-locus state spaces -/

section CdfBC
open Assembly Finset
variable {D n : ℕ} [NeZero n] {K : Type} [Field K] [LinearOrder K] [IsStrictOrderedRing K]

/-- the cdf of the absorption time of the LABELLED process of typed blocks at time `t` -/
noncomputable def labCdfBC (L : ExpLaw K) (m : Model) (ts : ℕ → Fin D → ℚ)
    (mig : ℕ → Fin D → Fin D → ℚ) (G : ℕ → Graph) (n' : ℕ)
    (x0 : LabS (encBC (D := D) (n := n)) (G 0).visited n)
    (eps : List EpochT) (t : ℚ) : K :=
  cdfVal L
    (fun e => QLmat (castRate (K := K) (blkRate (lam m) (ts e) (mig e))) blkNew
      (LabP.val : LabS (encBC (D := D) (n := n)) (G 0).visited n → List (Fin D × Fin n)))
    (fun x => if x = x0 then 1 else 0)
    (fun x => ((Reward.eval n' (encBC (cntF x.val)) .treeHeight : ℚ) : K))
    (castF (specFactors eps t))

variable {m : Model} {cinit : Fin D × Fin n → ℕ} {ts : ℕ → Fin D → ℚ}
  {mig : ℕ → Fin D → Fin D → ℚ} {r : ℕ → ℚ} {fuel : ℕ → ℕ} {G : ℕ → Graph}

/-- [`Assembly.C02_cdf_eq_labelled` + `block_alpha` at the factor list of the time `t`]; `codeCdfEv`
of `EndToEnd2.lean` is reused as it is: it does not mention the kind of state space -/
theorem codeCdf_eq_labCdfBC (hn : 2 ≤ n) (hmass : massBC cinit ≤ n)
    (hG : ∀ e, bfs (transit m (mkEpoch (ts e) (mig e) (r e))) (encBC cinit) (fuel e) = some (G e))
    (L : ExpLaw K) (n' : ℕ) (nv : Fin D → ℕ) (hnv : ∑ d, nv d = massBC cinit)
    (x0 : LabS (encBC (D := D) (n := n)) (G 0).visited n) (hx0 : cntF x0.val = sampleBC nv)
    (eps : List EpochT) (t : ℚ) :
    codeCdfEv L G n' nv (specFactors eps t) = labCdfBC L m ts mig G n' x0 eps t := by
  have hc0 : encBC (sampleBC (n := n) nv) ∈ (G 0).visited := hx0 ▸ x0.2.2
  have hα : (fun j : Fin (G 0).visited.length =>
        (((alphaVec (G 0).visited (List.ofFn nv) 1 0).getD j.val 0 : ℚ) : K))
      = fun j => if (G 0).visited[j] = encBC (cntF x0.val) then 1 else 0 := by
    funext j
    rw [block_alpha hn hmass hG nv hnv hc0 j, hx0]
    split_ifs <;> simp
  unfold codeCdfEv labCdfBC
  rw [hα]
  exact (C02_cdf_eq_labelled hn hmass hG L n' x0 _).symm

/-- **`cdf_block_counting_eq_labelled`.**  For ANY list of non-negative times (unsorted, repeated),
the vector which the cdf sweep of the code model (`cdfCallK`: negative-time guard, sort, sweep with a
running product and an epoch cursor, `1 - alpha @ T @ e`, scatter back) returns on the
BLOCK-COUNTING graph is, entry by entry, the cdf of the absorption time of the LABELLED process of
typed blocks. -/
theorem cdf_block_counting_eq_labelled (hn : 2 ≤ n) (hmass : massBC cinit ≤ n)
    (hG : ∀ e, bfs (transit m (mkEpoch (ts e) (mig e) (r e))) (encBC cinit) (fuel e) = some (G e))
    (L : ExpLaw K) (n' : ℕ) (nv : Fin D → ℕ) (hnv : ∑ d, nv d = massBC cinit)
    (x0 : LabS (encBC (D := D) (n := n)) (G 0).visited n) (hx0 : cntF x0.val = sampleBC nv)
    (eps : List EpochT) (times : List ℚ) (hnn : ∀ t ∈ times, 0 ≤ t) :
    cdfCallK L G n' nv eps times = .ok (times.map (labCdfBC L m ts mig G n' x0 eps)) := by
  unfold cdfCallK
  rw [negTimes_eq_false hnn, cdf_sweep_pointwise]
  simp only [Bool.false_eq_true, if_false]
  congr 1
  exact List.map_congr_left fun t _ =>
    codeCdf_eq_labCdfBC hn hmass hG L n' nv hnv x0 hx0 eps t

/-- **Non-vacuity** (n = 3, one deme, Kingman, the graph `exGBC`, the REAL matrix exponential) -/
theorem cdf_block_counting_instance :
    ∃ x0 : LabS (encBC (D := 1) (n := 3)) ((fun _ : ℕ => exGBC) 0).visited 3,
      cntF x0.val = sampleBC (fun _ => 3) ∧
      cdfCallK realExpLaw (fun _ => exGBC) 3 (fun _ : Fin 1 => 3)
          [{ start := 0, stop := none }] [3, 1/2, 3]
        = .ok ([3, 1/2, 3].map (labCdfBC realExpLaw .kingman (fun _ _ => 1) (fun _ _ _ => 0)
            (fun _ => exGBC) 3 x0 [{ start := 0, stop := none }])) := by
  have hG : ∀ e : ℕ, bfs (transit .kingman (mkEpoch (D := 1) ((fun _ _ => 1) e)
      ((fun _ _ _ => 0) e) ((fun _ => 0) e))) (encBC (D := 1) (n := 3) (sampleBC fun _ => 3))
      ((fun _ => 10) e) = some ((fun _ => exGBC) e) := fun _ => exGBC_spec
  obtain ⟨x, hx⟩ := exists_list_cntF (sampleBC (n := 3) (fun _ : Fin 1 => 3))
  obtain ⟨x0, hx0⟩ := exists_labInit_bc (n := 3) (by norm_num) (fun _ : Fin 1 => 3) (by simp) hG
    (fun _ : Fin 1 => 3) rfl x hx
  have h0 : cntF x0.val = sampleBC (fun _ : Fin 1 => 3) := by rw [hx0]; exact hx
  refine ⟨x0, h0, ?_⟩
  exact cdf_block_counting_eq_labelled (n := 3) (by norm_num) (by rw [massBC_sampleBC]; simp) hG
    realExpLaw 3 (fun _ : Fin 1 => 3) (by rw [massBC_sampleBC]) x0 h0
    [{ start := 0, stop := none }] [3, 1/2, 3] (by
      intro t ht
      simp only [List.mem_cons, List.not_mem_nil, or_false] at ht
      rcases ht with rfl | rfl | rfl <;> norm_num)

end CdfBC

section Cdf2
open Assembly Finset LCls
variable {D : ℕ} {K : Type} [Field K] [LinearOrder K] [IsStrictOrderedRing K]

/-- `codeCdfEv` with the initial vector of a fully linked sample of TWO loci (`alphaVec … 2 0`) -/
noncomputable def codeCdfEv2 (L : ExpLaw K) (G : ℕ → Graph) (n' : ℕ) (nv : Fin D → ℕ)
    (fs : List Factor) : K :=
  cdfVal L (fun e => (codeMat G e).map (fun q : ℚ => (q : K)))
    (fun j => (((alphaVec (G 0).visited (List.ofFn nv) 2 0).getD j.val 0 : ℚ) : K))
    (fun j => ((Reward.eval n' (G 0).visited[j] .treeHeight : ℚ) : K))
    (castF fs)

/-- `cdfCallK` on the two-locus state space -/
noncomputable def cdfCallK2 (L : ExpLaw K) (G : ℕ → Graph) (n' : ℕ) (nv : Fin D → ℕ)
    (eps : List EpochT) (times : List ℚ) : Except ApiErr (List K) :=
  if negTimes times then .error .valueError
  else .ok (codeVectorised (codeCdfEv2 L G n' nv) eps times)

/-- the cdf of the time until BOTH loci have found their common ancestor, for the LABELLED stopped
ancestral recombination graph -/
noncomputable def labCdf2 (L : ExpLaw K) (ts : ℕ → Fin D → ℚ)
    (mig : ℕ → Fin D → Fin D → ℚ) (r : ℕ → ℚ) (G : ℕ → Graph) (n' : ℕ)
    (x0 : LabS (enc2 (D := D)) (G 0).visited (bound2 (G 0).visited))
    (eps : List EpochT) (t : ℚ) : K :=
  cdfVal L
    (fun e => QLmat (castRate (K := K) (argRateStop (r e) (ts e) (mig e))) argNew
      (LabP.val : LabS (enc2 (D := D)) (G 0).visited (bound2 (G 0).visited)
        → List (Fin D × LCls)))
    (fun x => if x = x0 then 1 else 0)
    (fun x => ((Reward.eval n' (enc2 (cntF x.val)) .treeHeight : ℚ) : K))
    (castF (specFactors eps t))

variable {cinit : Fin D × LCls → ℕ} {ts : ℕ → Fin D → ℚ}
  {mig : ℕ → Fin D → Fin D → ℚ} {r : ℕ → ℚ} {fuel : ℕ → ℕ} {G : ℕ → Graph}

/-- [`Assembly.C06_cdf_eq_labelled` + `two_locus_alpha`] -/
theorem codeCdf2_eq_labCdf2
    (hG : ∀ e, bfs (transit .kingman (mkEpoch (ts e) (mig e) (r e))) (enc2 cinit) (fuel e)
      = some (G e))
    (L : ExpLaw K) (n' : ℕ) (nv : Fin D → ℕ)
    (x0 : LabS (enc2 (D := D)) (G 0).visited (bound2 (G 0).visited))
    (hx0 : cntF x0.val = sample2 nv) (eps : List EpochT) (t : ℚ) :
    codeCdfEv2 L G n' nv (specFactors eps t) = labCdf2 L ts mig r G n' x0 eps t := by
  have hc0 : enc2 (sample2 nv) ∈ (G 0).visited := hx0 ▸ x0.2.2
  have hα : (fun j : Fin (G 0).visited.length =>
        (((alphaVec (G 0).visited (List.ofFn nv) 2 0).getD j.val 0 : ℚ) : K))
      = fun j => if (G 0).visited[j] = enc2 (cntF x0.val) then 1 else 0 := by
    funext j
    rw [two_locus_alpha hG nv hc0 j, hx0]
    split_ifs <;> simp
  unfold codeCdfEv2 labCdf2
  rw [hα]
  exact (C06_cdf_eq_labelled hG L n' x0 _).symm

/-- **`cdf_two_locus_eq_labelled`.**  The cdf sweep on the two-locus state space (Kingman, fully
linked sample `nv`, recombination rate `r e`), for ANY list of non-negative times: entry by entry the
cdf of the LABELLED stopped ancestral recombination graph. -/
theorem cdf_two_locus_eq_labelled
    (hG : ∀ e, bfs (transit .kingman (mkEpoch (ts e) (mig e) (r e))) (enc2 cinit) (fuel e)
      = some (G e))
    (L : ExpLaw K) (n' : ℕ) (nv : Fin D → ℕ)
    (x0 : LabS (enc2 (D := D)) (G 0).visited (bound2 (G 0).visited))
    (hx0 : cntF x0.val = sample2 nv) (eps : List EpochT) (times : List ℚ)
    (hnn : ∀ t ∈ times, 0 ≤ t) :
    cdfCallK2 L G n' nv eps times = .ok (times.map (labCdf2 L ts mig r G n' x0 eps)) := by
  unfold cdfCallK2
  rw [negTimes_eq_false hnn,
    show codeVectorised (codeCdfEv2 L G n' nv) eps times
      = times.map fun t => codeCdfEv2 L G n' nv (specFactors eps t) from
      code_cdf_pointwise L _ _ _ eps times]
  simp only [Bool.false_eq_true, if_false]
  congr 1
  exact List.map_congr_left fun t _ => codeCdf2_eq_labCdf2 hG L n' nv x0 hx0 eps t

/-- the guard: a negative entry raises `ValueError`, and it raises in no other case -/
theorem cdf_two_locus_error_iff (L : ExpLaw K) (G : ℕ → Graph) (n' : ℕ) (nv : Fin D → ℕ)
    (eps : List EpochT) (times : List ℚ) :
    (∃ err, cdfCallK2 L G n' nv eps times = .error err) ↔ ∃ t ∈ times, t < 0 := by
  constructor
  · rintro ⟨err, h⟩
    by_contra hne
    have hnn : ∀ t ∈ times, 0 ≤ t := fun t ht => not_lt.1 fun hlt => hne ⟨t, ht, hlt⟩
    unfold cdfCallK2 at h
    rw [negTimes_eq_false hnn] at h
    simp at h
  · intro h
    refine ⟨.valueError, ?_⟩
    unfold cdfCallK2
    rw [(negTimes_iff times).2 h]
    rfl

/-- **Non-vacuity** (two loci, one deme, 2 linked lineages, recombination rate 1/2; the graph `exG2`
of `EndToEnd2.lean`, the REAL matrix exponential) -/
theorem cdf_two_locus_instance :
    ∃ x0 : LabS (enc2 (D := 1)) ((fun _ : ℕ => exG2) 0).visited
        (bound2 ((fun _ : ℕ => exG2) 0).visited),
      cntF x0.val = sample2 (fun _ => 2) ∧
      cdfCallK2 realExpLaw (fun _ => exG2) 2 (fun _ : Fin 1 => 2)
          [{ start := 0, stop := none }] [3, 1/2, 3]
        = .ok ([3, 1/2, 3].map (labCdf2 realExpLaw (fun _ _ => 1) (fun _ _ _ => 0)
            (fun _ => 1/2) (fun _ => exG2) 2 x0 [{ start := 0, stop := none }])) := by
  have hG : ∀ e : ℕ, bfs (transit .kingman (mkEpoch (D := 1) ((fun _ _ => 1) e)
      ((fun _ _ _ => 0) e) ((fun _ => 1/2) e))) (enc2 (D := 1) (sample2 fun _ => 2))
      ((fun _ => 30) e) = some ((fun _ => exG2) e) := fun _ => exG2_spec
  obtain ⟨x0, hx0⟩ := two_locus_exists_labInit (fun _ : Fin 1 => 2) hG
  refine ⟨x0, hx0, ?_⟩
  exact cdf_two_locus_eq_labelled hG realExpLaw 2 (fun _ : Fin 1 => 2) x0 hx0
    [{ start := 0, stop := none }] [3, 1/2, 3] (by
      intro t ht
      simp only [List.mem_cons, List.not_mem_nil, or_false] at ht
      rcases ht with rfl | rfl | rfl <;> norm_num)

end Cdf2

end EndToEnd
end PG

#print axioms PG.EndToEnd.coalesceBlocks_single_pos
#print axioms PG.EndToEnd.coalesce1_keys_pos
#print axioms PG.EndToEnd.transit_enc_keys_pos
#print axioms PG.EndToEnd.transit_encLC_epoch
#print axioms PG.EndToEnd.reach_encLC_pos
#print axioms PG.EndToEnd.total_encLC
#print axioms PG.EndToEnd.demeShape_encLC
#print axioms PG.EndToEnd.total_encBC
#print axioms PG.EndToEnd.demeShape_encBC
#print axioms PG.EndToEnd.blocks_pos_of_mass
#print axioms PG.EndToEnd.deme_shape_of_bfs
#print axioms PG.EndToEnd.bfs_states_lc
#print axioms PG.EndToEnd.deme_shape_of_bfs_bc
#print axioms PG.EndToEnd.deme_shape_of_bfs_bc_initial
#print axioms PG.EndToEnd.code_deme_marginals_unconditional
#print axioms PG.EndToEnd.code_deme_marginals_unconditional_bc
#print axioms PG.EndToEnd.deme_marginals_instance
#print axioms PG.EndToEnd.sfsAccumulateCallK_code_eq_lab
#print axioms PG.EndToEnd.sfs_accumulate_call_vector_eq_labelled
#print axioms PG.EndToEnd.padRowsK_length
#print axioms PG.EndToEnd.padRowsK_row_length
#print axioms PG.EndToEnd.padRowsK_zero
#print axioms PG.EndToEnd.padRowsK_inner
#print axioms PG.EndToEnd.padRowsK_beyond
#print axioms PG.EndToEnd.sfs_accumulate_call_entry_eq_labelled
#print axioms PG.EndToEnd.sfs_accumulate_call_vector_eq_labelled_exists
#print axioms PG.EndToEnd.sfs_accumulate_instance
#print axioms PG.EndToEnd.covSFSK_rat
#print axioms PG.EndToEnd.accumulateModel_plain
#print axioms PG.EndToEnd.accumulateModel_single
#print axioms PG.EndToEnd.tableAt_map
#print axioms PG.EndToEnd.covSFSK_congr
#print axioms PG.EndToEnd.sfs_cov_eq_labelled
#print axioms PG.EndToEnd.covSFSK_entry
#print axioms PG.EndToEnd.covSFSK_symm
#print axioms PG.EndToEnd.covSFSK_shape
#print axioms PG.EndToEnd.padSFSK_inner
#print axioms PG.EndToEnd.sfs_cov_entry_eq_labelled
#print axioms PG.EndToEnd.sfs_cov_instance
#print axioms PG.EndToEnd.sorted_ext
#print axioms PG.EndToEnd.sortDedup_congr
#print axioms PG.EndToEnd.sortDedupQ_congr
#print axioms PG.EndToEnd.Relisted.raw
#print axioms PG.EndToEnd.Relisted.lin
#print axioms PG.EndToEnd.Relisted.demographyNames_eq
#print axioms PG.EndToEnd.Relisted.allNames_eq
#print axioms PG.EndToEnd.Relisted.nameIdx_eq
#print axioms PG.EndToEnd.Relisted.changeTimesOf_eq
#print axioms PG.EndToEnd.Relisted.sizeEntries_eq
#print axioms PG.EndToEnd.Relisted.migEntries_eq
#print axioms PG.EndToEnd.Relisted.mainEvent_eq
#print axioms PG.EndToEnd.Relisted.sampleOnly_eq
#print axioms PG.EndToEnd.Relisted.extraEvent_eq
#print axioms PG.EndToEnd.Relisted.toEvents_eq
#print axioms PG.EndToEnd.Relisted.demoEpochs_eq
#print axioms PG.EndToEnd.Relisted.dictInput
#print axioms PG.EndToEnd.relisted_epochs
#print axioms PG.EndToEnd.named_invariant_both_runs_with_demography
#print axioms PG.EndToEnd.exI2_relisted
#print axioms PG.EndToEnd.exI2'_valid
#print axioms PG.EndToEnd.exI2'_epochs
#print axioms PG.EndToEnd.exGOfI_spec
#print axioms PG.EndToEnd.both_runs_instance
#print axioms PG.EndToEnd.codeCdf_eq_labCdfBC
#print axioms PG.EndToEnd.cdf_block_counting_eq_labelled
#print axioms PG.EndToEnd.cdf_block_counting_instance
#print axioms PG.EndToEnd.codeCdf2_eq_labCdf2
#print axioms PG.EndToEnd.cdf_two_locus_eq_labelled
#print axioms PG.EndToEnd.cdf_two_locus_error_iff
#print axioms PG.EndToEnd.cdf_two_locus_instance
